import LP.Props.C08
#print axioms LP.C08_placeholder
