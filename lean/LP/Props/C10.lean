/-
  C10 — sign and value of a polynomial under an assignment are exact.

  The C results (`lp_polynomial_sgn`, `_evaluate`, `_constraint_evaluate`) are judged on every run by
  `LP.Model.Eval`.  Proved here for every integer polynomial and every assignment of valid algebraic numbers:
  * `ievalM_encloses`: the closed-interval evaluation over the isolating intervals contains the real value;
  * `C10_sign_sound`: whatever the number of refinement rounds, a sign answered by the model is the sign of the
    real value: non-zero signs are certified by the enclosure alone; the answer 0 is given only when 0 is the
    unique root of the eliminant inside the enclosure (hypothesis `helim`: the eliminant vanishes at the value —
    the classical resultant property, not formalised);
  * `C10_consistent`: the six sign conditions.
-/
import LP.Props.C09
import LP.Model.Eval

namespace LP
open QPoly

namespace Eval

/-- real value of a monomial / polynomial at a point -/
noncomputable def monoValR (ν : ℕ → ℝ) (m : Mono) : ℝ := m.foldl (fun acc p => acc * ν p.1 ^ p.2) 1
noncomputable def evalRealM (p : MPoly) (ν : ℕ → ℝ) : ℝ := p.foldl (fun acc t => acc + (t.2 : ℝ) * monoValR ν t.1) 0

/-- the assignment denotes the point ν -/
def AsgDen (a : Asg) (ν : ℕ → ℝ) : Prop :=
  (∀ xz ∈ a, xz.2.a.Valid ∧ xz.2.a.Den (ν xz.1)) ∧ (∀ x, lookup a x = none → ν x = 0)

theorem box_mem (a : Asg) (ν : ℕ → ℝ) (h : AsgDen a ν) (x : ℕ) : (box a x).memR (ν x) := by
  unfold box
  cases hl : lookup a x with
  | none =>
    simp only
    rw [h.2 x hl]
    have := CI.mem_pt 0
    simpa using this
  | some z =>
    simp only
    unfold lookup at hl
    cases hf : a.find? (fun p => p.1 = x) with
    | none => rw [hf] at hl; simp at hl
    | some xz =>
      rw [hf] at hl
      simp only [Option.map_some, Option.some.injEq] at hl
      have hmem := List.mem_of_find?_eq_some hf
      have hkey := List.find?_some hf
      simp only [decide_eq_true_eq] at hkey
      have := (h.1 xz hmem).2
      rw [hkey, hl] at this
      exact ZAlg.ciOf_mem z.a (ν x) this

theorem monoI_encloses (b : ℕ → CI) (ν : ℕ → ℝ) (hb : ∀ x, (b x).memR (ν x)) (m : Mono) :
    (monoI b m).memR (monoValR ν m) := by
  unfold monoI monoValR
  have gen : ∀ (m : Mono) (accI : CI) (acc : ℝ), accI.memR acc →
      (m.foldl (fun acc p => CI.mul acc (ZAlg.ciPow (b p.1) p.2)) accI).memR (m.foldl (fun acc p => acc * ν p.1 ^ p.2) acc) := by
    intro m
    induction m with
    | nil => intro accI acc h; exact h
    | cons p m ih =>
      intro accI acc h
      rw [List.foldl_cons, List.foldl_cons]
      exact ih _ _ (CI.mem_mul h (ZAlg.ciPow_mem _ _ (hb p.1) p.2))
  have h1 : (CI.pt 1).memR (1 : ℝ) := by have := CI.mem_pt 1; simpa using this
  exact gen m _ _ h1

/-- **enclosure**: the interval evaluation over a box contains the value at every point of the box -/
theorem ievalM_encloses (p : MPoly) (b : ℕ → CI) (ν : ℕ → ℝ) (hb : ∀ x, (b x).memR (ν x)) :
    (ievalM p b).memR (evalRealM p ν) := by
  unfold ievalM evalRealM
  have gen : ∀ (p : MPoly) (accI : CI) (acc : ℝ), accI.memR acc →
      (p.foldl (fun acc t => CI.add acc (CI.mul (CI.pt t.2) (monoI b t.1))) accI).memR
        (p.foldl (fun acc t => acc + (t.2 : ℝ) * monoValR ν t.1) acc) := by
    intro p
    induction p with
    | nil => intro accI acc h; exact h
    | cons t p ih =>
      intro accI acc h
      rw [List.foldl_cons, List.foldl_cons]
      apply ih
      apply CI.mem_add h
      have hc : (CI.pt (t.2 : ℚ)).memR ((t.2 : ℤ) : ℝ) := by
        have := CI.mem_pt (t.2 : ℚ)
        simpa using this
      exact CI.mem_mul hc (monoI_encloses b ν hb t.1)
  have h0 : (CI.pt 0).memR (0 : ℝ) := by have := CI.mem_pt 0; simpa using this
  exact gen p _ _ h0

/-- refinement of all coordinates keeps the denoted point and the defining polynomials -/
theorem refineAll_sound : ∀ (a a' : Asg) (ν : ℕ → ℝ), (∀ xz ∈ a, xz.2.a.Valid ∧ xz.2.a.Den (ν xz.1)) →
    refineAll a = some a' →
    (∀ xz ∈ a', xz.2.a.Valid ∧ xz.2.a.Den (ν xz.1)) ∧ a'.map (fun xz => (xz.1, xz.2.f)) = a.map (fun xz => (xz.1, xz.2.f)) := by
  intro a
  induction a with
  | nil =>
    intro a' ν _ h
    simp only [refineAll, List.mapM_nil, Option.pure_def, Option.some.injEq] at h
    subst h; simp
  | cons xz a ih =>
    intro a' ν hden h
    unfold refineAll at h
    rw [List.mapM_cons] at h
    cases hr : Alg.refine xz.2.a with
    | none => rw [hr] at h; simp at h
    | some r =>
      rw [hr] at h
      cases hrest : a.mapM (fun p => (Alg.refine p.2.a).map (fun a' => (p.1, ({ p.2 with a := a' } : ZAlg)))) with
      | none => rw [hrest] at h; simp at h
      | some rest =>
        rw [hrest] at h
        simp only [Option.map_some, Option.bind_eq_bind, Option.bind_some, Option.pure_def, Option.some.injEq] at h
        subst h
        have hx := hden xz List.mem_cons_self
        have hs := Alg.refine_sound xz.2.a r (ν xz.1) hx.1 hx.2 hr
        obtain ⟨h1, h2⟩ := ih rest ν (fun y hy => hden y (List.mem_cons_of_mem _ hy)) hrest
        constructor
        · intro y hy
          rw [List.mem_cons] at hy
          rcases hy with rfl | hy
          · exact ⟨hs.2, hs.1⟩
          · exact h1 y hy
        · simp only [List.map_cons, h2]

theorem lookup_of_map_eq (a a' : Asg) (h : a'.map (fun xz => (xz.1, xz.2.f)) = a.map (fun xz => (xz.1, xz.2.f))) (x : ℕ) :
    (lookup a' x = none ↔ lookup a x = none) := by
  induction a generalizing a' with
  | nil =>
    cases a' with
    | nil => simp
    | cons _ _ => simp at h
  | cons xz a ih =>
    cases a' with
    | nil => simp at h
    | cons xz' a' =>
      simp only [List.map_cons, List.cons.injEq, Prod.mk.injEq] at h
      unfold lookup at ih ⊢
      rw [List.find?_cons, List.find?_cons]
      rw [h.1.1]
      by_cases hk : xz.1 = x
      · simp [hk]
      · simp only [hk, decide_false]
        exact ih a' h.2

theorem asgDen_refine (a a' : Asg) (ν : ℕ → ℝ) (h : AsgDen a ν) (hr : refineAll a = some a') :
    AsgDen a' ν ∧ a'.map (fun xz => (xz.1, xz.2.f)) = a.map (fun xz => (xz.1, xz.2.f)) := by
  obtain ⟨h1, h2⟩ := refineAll_sound a a' ν h.1 hr
  exact ⟨⟨h1, fun x hx => h.2 x ((lookup_of_map_eq a a' h2 x).1 hx)⟩, h2⟩

/-- sign of a real as -1, 0, 1 -/
def SignIs (s : Int) (v : ℝ) : Prop := (s = 1 ∧ 0 < v) ∨ (s = -1 ∧ v < 0) ∨ (s = 0 ∧ v = 0)

/-- **the sign answered by the model is the sign of the value**.  `hE` / `helim`: every eliminant the loop may use
    vanishes at the value (trusted classical property of the Sylvester determinant). -/
theorem signLoop_sound (p : MPoly) (ν : ℕ → ℝ) :
    ∀ (fuel : ℕ) (a : Asg) (E : Option QPoly) (s : Int), AsgDen a ν →
    (∀ e, E = some e → QPoly.eval e 0 = 0 → evalR e (evalRealM p ν) = 0) →
    (∀ (a' : Asg) (R : QPoly), a'.map (fun xz => (xz.1, xz.2.f)) = a.map (fun xz => (xz.1, xz.2.f)) →
        sqfreePart (ZAlg.toQ (eliminant p a')) = some R → evalR R (evalRealM p ν) = 0) →
    signLoop p fuel a E = some s → SignIs s (evalRealM p ν) := by
  intro fuel
  induction fuel with
  | zero => intro a E s _ _ _ h; simp [signLoop] at h
  | succ fuel ih =>
    intro a E s hden hE helim h
    have henc := ievalM_encloses p (box a) ν (box_mem a ν hden)
    rw [signLoop] at h
    by_cases h1 : 0 < (ievalM p (box a)).lo
    · rw [if_pos h1] at h; cases h
      left; refine ⟨rfl, ?_⟩
      have : (0 : ℝ) < ((ievalM p (box a)).lo : ℝ) := by exact_mod_cast h1
      exact lt_of_lt_of_le this henc.1
    rw [if_neg h1] at h
    by_cases h2 : (ievalM p (box a)).hi < 0
    · rw [if_pos h2] at h; cases h
      right; left; refine ⟨rfl, ?_⟩
      have : ((ievalM p (box a)).hi : ℝ) < 0 := by exact_mod_cast h2
      exact lt_of_le_of_lt henc.2 this
    rw [if_neg h2] at h
    by_cases h3 : (ievalM p (box a)).lo = 0 ∧ (ievalM p (box a)).hi = 0
    · rw [if_pos h3] at h; cases h
      right; right; refine ⟨rfl, ?_⟩
      have e1 : ((ievalM p (box a)).lo : ℝ) = 0 := by rw [h3.1]; simp
      have e2 : ((ievalM p (box a)).hi : ℝ) = 0 := by rw [h3.2]; simp
      have := henc.1; have := henc.2
      linarith
    rw [if_neg h3] at h
    -- the eliminant in use
    have hE'v : ∀ e, nextE p fuel a E = some e → QPoly.eval e 0 = 0 → evalR e (evalRealM p ν) = 0 := by
      intro e he h0
      unfold nextE at he
      cases E with
      | some e0 => simp only [Option.some.injEq] at he; subst he; exact hE e0 rfl h0
      | none =>
        simp only at he
        split_ifs at he
        exact helim a e rfl he
    generalize nextE p fuel a E = E' at h hE'v
    by_cases hz : zeroCert E' (ievalM p (box a)) = true
    · rw [if_pos hz] at h; cases h
      right; right; refine ⟨rfl, ?_⟩
      unfold zeroCert at hz
      cases E' with
      | none => simp at hz
      | some e =>
        simp only [Bool.and_eq_true, beq_iff_eq] at hz
        obtain ⟨hz0, hcnt⟩ := hz
        obtain ⟨rs, hlen, _, hmem⟩ := countIn_sound e _ false _ false 1 hcnt
        obtain ⟨w, rfl⟩ := List.length_eq_one_iff.1 hlen
        have hlo : ((ievalM p (box a)).lo : ℝ) ≤ 0 := by exact_mod_cast (not_lt.1 h1)
        have hhi : (0 : ℝ) ≤ ((ievalM p (box a)).hi : ℝ) := by exact_mod_cast (not_lt.1 h2)
        have hz0R : evalR e 0 = 0 := by
          have := eval_cast e 0
          rw [hz0] at this
          simpa using this.symm
        have m0 : (0 : ℝ) ∈ [w] := (hmem 0).2 ⟨⟨by simpa using hlo, by simpa using hhi⟩, hz0R⟩
        have mv : evalRealM p ν ∈ [w] := (hmem _).2 ⟨⟨by simpa using henc.1, by simpa using henc.2⟩, hE'v e rfl hz0⟩
        rw [List.mem_singleton] at m0 mv
        rw [mv, ← m0]
    · rw [if_neg hz] at h
      by_cases hr : allRat a = true
      · rw [if_pos hr] at h; simp at h
      · rw [if_neg hr] at h
        cases hra : refineAll a with
        | none => rw [hra] at h; simp at h
        | some a' =>
          rw [hra] at h
          simp only at h
          obtain ⟨hden', hmap⟩ := asgDen_refine a a' ν hden hra
          exact ih a' E' s hden' hE'v (fun a'' R hm hs => helim a'' R (hm.trans hmap) hs) h

theorem C10_sign_sound (p : MPoly) (a : Asg) (ν : ℕ → ℝ) (s : Int) (hden : AsgDen a ν)
    (helim : ∀ (a' : Asg) (R : QPoly), a'.map (fun xz => (xz.1, xz.2.f)) = a.map (fun xz => (xz.1, xz.2.f)) →
        sqfreePart (ZAlg.toQ (eliminant p a')) = some R → evalR R (evalRealM p ν) = 0)
    (h : exactSign p a = some s) : SignIs s (evalRealM p ν) :=
  signLoop_sound p ν 120 a none s hden (by intro e he; cases he) helim h

/-- interval evaluation alone (no eliminant): every answer is certified, without any hypothesis -/
theorem C10_sign_interval_only (p : MPoly) (a : Asg) (ν : ℕ → ℝ) (s : Int) (fuel : ℕ) (hden : AsgDen a ν)
    (h : signLoop p fuel a (some [1]) = some s) : SignIs s (evalRealM p ν) := by
  have key : ∀ (fuel : ℕ) (a : Asg), AsgDen a ν → signLoop p fuel a (some [1]) = some s → SignIs s (evalRealM p ν) := by
    intro fuel
    induction fuel with
    | zero => intro a _ h; simp [signLoop] at h
    | succ fuel ih =>
      intro a hden h
      have hn : nextE p fuel a (some [1]) = some [1] := rfl
      have hzc : ∀ J, zeroCert (some [1]) J = false := by
        intro J; unfold zeroCert; simp [QPoly.eval]
      have henc := ievalM_encloses p (box a) ν (box_mem a ν hden)
      rw [signLoop] at h
      by_cases h1 : 0 < (ievalM p (box a)).lo
      · rw [if_pos h1] at h; cases h
        left; refine ⟨rfl, ?_⟩
        have : (0 : ℝ) < ((ievalM p (box a)).lo : ℝ) := by exact_mod_cast h1
        exact lt_of_lt_of_le this henc.1
      rw [if_neg h1] at h
      by_cases h2 : (ievalM p (box a)).hi < 0
      · rw [if_pos h2] at h; cases h
        right; left; refine ⟨rfl, ?_⟩
        have : ((ievalM p (box a)).hi : ℝ) < 0 := by exact_mod_cast h2
        exact lt_of_le_of_lt henc.2 this
      rw [if_neg h2] at h
      by_cases h3 : (ievalM p (box a)).lo = 0 ∧ (ievalM p (box a)).hi = 0
      · rw [if_pos h3] at h; cases h
        right; right; refine ⟨rfl, ?_⟩
        have e1 : ((ievalM p (box a)).lo : ℝ) = 0 := by rw [h3.1]; simp
        have e2 : ((ievalM p (box a)).hi : ℝ) = 0 := by rw [h3.2]; simp
        have := henc.1; have := henc.2
        linarith
      rw [if_neg h3, hn, hzc] at h
      simp only [Bool.false_eq_true, if_false] at h
      by_cases hr : allRat a = true
      · rw [if_pos hr] at h; simp at h
      · rw [if_neg hr] at h
        cases hra : refineAll a with
        | none => rw [hra] at h; simp at h
        | some a' =>
          rw [hra] at h
          exact ih a' (asgDen_refine a a' ν hden hra).1 h
  exact key fuel a hden h

/-- the six sign conditions -/
theorem C10_consistent (cond : ℕ) (s : Int) (v : ℝ) (h : SignIs s v) :
    consistent cond s = true ↔
      (match cond with | 0 => v < 0 | 1 => v ≤ 0 | 2 => v = 0 | 3 => v ≠ 0 | 4 => 0 < v | _ => 0 ≤ v) := by
  rcases h with ⟨rfl, hv⟩ | ⟨rfl, hv⟩ | ⟨rfl, rfl⟩ <;>
    (unfold consistent; split <;> simp <;> linarith)

end Eval
end LP
