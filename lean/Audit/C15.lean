import LP.Props.GenTables
import LP.Props.C15
import LP.Props.C15V
import LP.Props.C15P
#print axioms LP.QI.C15_add
#print axioms LP.QI.C15_neg
#print axioms LP.QI.C15_sub
#print axioms LP.QI.C15_mul
#print axioms LP.QI.C15_pow
#print axioms LP.QI.C15_sgn
#print axioms LP.QI.C15_exact_points
#print axioms LP.QI.C15_real
#print axioms LP.VI.endpointLt_fin
#print axioms LP.VI.C15_vi_mul_general
#print axioms LP.QI.sumPowers_encloses
#print axioms LP.QI.polyValue_encloses
#print axioms LP.VI.consistentInterval_sound
#print axioms LP.Gen.enum_order
#print axioms LP.Gen.negate_eq
#print axioms LP.Gen.consistent_eq
#print axioms LP.Gen.zpValid_eq
#print axioms LP.Gen.consistentInterval_eq
