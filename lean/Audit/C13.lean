import LP.Props.GenTables
import LP.Props.C13
#print axioms LP.cmpUpper_sem
#print axioms LP.cmpLower_sem
#print axioms LP.VI.C13_cmp
#print axioms LP.FSet.intersectLoop_sem
#print axioms LP.FSet.C13_intersect
#print axioms LP.FSet.C13_contains_interval
#print axioms LP.Gen.cwi_class
#print axioms LP.Gen.table_eq
#print axioms LP.Gen.intervalCmp_eq
#print axioms LP.Gen.icmp_enum_order
#print axioms LP.Gen.cmpLowerBounds_eq
#print axioms LP.Gen.cmpUpperBounds_eq
