/-
  C03 — greatestness from a Bezout certificate: if `g` divides `p` and `q` with cofactors that carry a Bezout identity
  (`IsCoprime`, what `C03_coprimeCert_sound` delivers over ℚ[X]), every common divisor of `p` and `q` divides `g`
  (`C03_greatest_of_coprime`), in any commutative ring.  (For several variables the checker certifies coprimality of the
  cofactors by specialisation; that step is the classical argument recorded in DESIGN I.4, not this lemma.)
-/
import LP.Props.C03

namespace LP

theorem C03_greatest_of_coprime {R : Type*} [CommRing R] (p q g a b d : R) (hp : p = g * a) (hq : q = g * b)
    (hc : IsCoprime a b) (hdp : d ∣ p) (hdq : d ∣ q) : d ∣ g := by
  obtain ⟨u, v, huv⟩ := hc
  have hg : g = u * p + v * q := by
    rw [hp, hq]
    calc g = g * (u * a + v * b) := by rw [huv, mul_one]
      _ = u * (g * a) + v * (g * b) := by ring
  rw [hg]
  exact dvd_add (Dvd.dvd.mul_left hdp u) (Dvd.dvd.mul_left hdq v)

/-- with the checker's certificate over ℚ[X] -/
theorem C03_greatest_univariate (p q g : Polynomial ℚ) (a b : QPoly) (hp : p = g * QPoly.toPoly a) (hq : q = g * QPoly.toPoly b)
    (hcert : QPoly.coprimeCert a b = true) (d : Polynomial ℚ) (hdp : d ∣ p) (hdq : d ∣ q) : d ∣ g :=
  C03_greatest_of_coprime p q g _ _ d hp hq (QPoly.C03_coprimeCert_sound a b hcert) hdp hdq

end LP
