import LP.Model.Factor
import LP.Driver.Poly
namespace LP.Driver
open LP LP.QPoly LP.Factor

/-- `(u:f m)*` -/
def pFactors? : List String → Option (List (List Int × Nat))
  | [] => some []
  | f :: m :: rest => do
      let f ← pUPoly? f
      let m ← pNat? m
      let tl ← pFactors? rest
      some ((f, m) :: tl)
  | _ => none

def pMFactors? : List String → Option (List (MPoly × Nat))
  | [] => some []
  | f :: m :: rest => do
      let f ← pPolyRaw? f
      let m ← pNat? m
      let tl ← pMFactors? rest
      some ((MPoly.normalize none f, m) :: tl)
  | _ => none

/-- product over Z -/
def zProduct (c : Int) (fs : List (List Int × Nat)) : List Int :=
  fs.foldl (fun acc fm => zMul acc (zPow fm.1 fm.2)) [c]

def fpProduct (p : Nat) (c : Int) (fs : List (List Int × Nat)) : FPoly :=
  fs.foldl (fun acc fm => FPoly.mul p acc (fpPow p fm.1 fm.2)) [c]

def toQ (f : List Int) : QPoly := f.map (fun (c : Int) => (c : Rat))

def zDerivative (f : List Int) : List Int := (f.zipIdx.drop 1).map (fun (c : Int × Nat) => (c.2 : Int) * c.1)

/-- square-free over Q: gcd(f, f') = 1 with a verified Bezout certificate -/
def sqfreeZ (f : List Int) : Bool := zDeg f = 0 || coprimeCert (toQ f) (QPoly.derivative (toQ f))
def sqfreeFp (p : Nat) (f : List Int) : Bool :=
  fpDeg p f = 0 || (!(fpIsZero p (zDerivative f)) && FPoly.coprimeCert p f (zDerivative f))

/-- discriminant-type test in every variable: f has no repeated factor -/
def sqfreeM (f : MPoly) : Option Bool :=
  let vs := MPoly.vars f
  if vs.any (fun v => MPoly.degreeIn v f + (MPoly.degreeIn v f - 1) > 7) then none else
  some (vs.all (fun v =>
    let d := MPoly.derivative none f v
    MPoly.degreeIn v f = 0 || (!d.isEmpty && (if MPoly.degreeIn v d = 0 then true else !(MPoly.resultantSpec none v f d).isEmpty))))

def coprimeM (f g : MPoly) : Option Bool :=
  let vs := (MPoly.vars f).filter (fun v => (MPoly.vars g).contains v)
  if vs.any (fun v => MPoly.degreeIn v f + MPoly.degreeIn v g > 7) then none else
  -- a common factor involves some common variable v, and then Res_v(f, g) = 0
  some (vs.all (fun v => MPoly.degreeIn v f = 0 || MPoly.degreeIn v g = 0 || !(MPoly.resultantSpec none v f g).isEmpty))

def mProduct (fs : List (MPoly × Nat)) : MPoly :=
  fs.foldl (fun acc fm => MPoly.mul none acc (MPoly.pow none fm.1 fm.2)) (MPoly.const none 1)

def checkFactor (op : String) (args res : List String) : Verdict :=
  match op, args, res with
  | "usqf", [ring, fs], cs :: ks :: rest | "ufull", ring :: fs :: _, cs :: ks :: rest =>
    match pRing? ring, pUPoly? fs, pInt? cs, pNat? ks, pFactors? rest with
    | some (K, _), some f, some c, some k, some facs =>
      if k ≠ facs.length then .viol s!"fac/{op}" "size does not match the list" else
      if facs.any (fun fm => fm.2 = 0) then .viol s!"fac/{op}" "factor with multiplicity 0" else
      match K with
      | none =>
        -- ℤ[x]
        if zTrim (zProduct c facs) ≠ zTrim f then .viol s!"fac/{op}/product" "constant times product of the factors is not the input" else
        if facs.any (fun fm => zDeg fm.1 = 0) then .viol s!"fac/{op}" "constant factor in the list" else
        if op = "usqf" then
          if !(facs.all (fun fm => sqfreeZ fm.1)) then .viol "fac/usqf/squarefree" "a factor is not square-free" else
          if !((facs.zipIdx).all (fun a => (facs.zipIdx).all (fun b => a.2 ≥ b.2 || coprimeCert (toQ a.1.1) (toQ b.1.1)))) then
            .viol "fac/usqf/coprime" "two factors share a common factor" else
          .ok s!"fac/usqf/Z/{facs.length}"
        else
          -- the blocks the input was built from
          match args.drop 2 with
          | nbs :: brest =>
            match pNat? nbs, pFactors? brest with
            | some _, some blocks =>
              -- blocks must be certified irreducible by the model
              let certs := blocks.map (fun b => irreducibleZ b.1)
              if certs.any (fun c => match c with | .yes _ => false | _ => true) then .skip "a building block is not certified irreducible" else
              let norm : List (List Int × Nat) → List (List Int × Nat) := fun l => l.map (fun fm => (zNormSign fm.1, fm.2))
              let a := norm facs
              let b := norm blocks
              if a.length = b.length && a.all (fun x => b.contains x) then .ok s!"fac/ufull/Z/{facs.length}"
              else
                -- find a reducible factor as the witness
                match facs.findSome? (fun fm => blocks.findSome? (fun bl => if zDeg bl.1 < zDeg fm.1 then (zDivExact? fm.1 bl.1).map (fun _ => (fm.1, bl.1)) else none)) with
                | some (fct, bl) =>
                  -- known finding D28: the lifting assumes a monic input; a reducible factor with |lc| > 1 is that defect
                  if (zLc fct).natAbs ≠ 1 then .viol "fac/ufull/reducible-nonmonic" s!"returned non-monic factor {showUPoly fct} is divisible by {showUPoly bl}"
                  else .viol "fac/ufull/reducible" s!"returned factor {showUPoly fct} is divisible by {showUPoly bl}"
                | none => .viol "fac/ufull/multiset" "the factors are not the irreducible factors of the input with their multiplicities"
            | _, _ => .skip "parse blocks"
          | _ => .skip "parse blocks"
      | some p =>
        if zTrim ((FPoly.norm p (fpProduct p c facs))) ≠ zTrim (FPoly.norm p f) then .viol s!"fac/{op}/product" "constant times product of the factors is not the input (mod p)" else
        if facs.any (fun fm => fpDeg p fm.1 = 0) then .viol s!"fac/{op}" "constant factor in the list" else
        if op = "usqf" then
          if !(facs.all (fun fm => sqfreeFp p fm.1)) then .viol "fac/usqf/squarefree" "a factor is not square-free over the prime field" else
          if !((facs.zipIdx).all (fun a => (facs.zipIdx).all (fun b => a.2 ≥ b.2 || FPoly.coprimeCert p a.1.1 b.1.1))) then
            .viol "fac/usqf/coprime" "two factors share a common factor" else
          .ok s!"fac/usqf/Zp{p}/{facs.length}"
        else
          match factorFp p f with
          | none => .skip "trial division cap"
          | some want =>
            let got := facs.map (fun fm => (fpMonic p fm.1, fm.2))
            if facs.any (fun fm => FPoly.norm p fm.1 ≠ fpMonic p fm.1) then .viol "fac/ufull/monic" "a factor over the prime field is not monic" else
            if sameFactorsFp p got want then .ok s!"fac/ufull/Zp{p}/{facs.length}"
            else .viol "fac/ufull/multiset" s!"irreducible factorization differs: model finds {want.length} distinct factors"
    | _, _, _, _, _ => .skip "parse"
  | "msqf", [ps], ks :: rest | "mcf", [ps], ks :: rest =>
    match pPolyRaw? ps, pNat? ks, pMFactors? rest with
    | some raw, some k, some facs =>
      let P := MPoly.normalize none raw
      if k ≠ facs.length then .viol s!"fac/{op}" "size does not match the list" else
      if mProduct facs ≠ P then .viol s!"fac/{op}/product" "product of the factors is not the input" else
      if op = "mcf" then .ok s!"fac/mcf/{facs.length}" else
      let nonconst := facs.filter (fun fm => !(fm.1.all (fun t => t.1.isEmpty)))
      match nonconst.mapM (fun fm => sqfreeM fm.1) with
      | none => .skip "discriminant size cap"
      | some l =>
        if !l.all id then .viol "fac/msqf/squarefree" "a factor is not square-free" else
        match ((nonconst.zipIdx).flatMap (fun a => (nonconst.zipIdx).filterMap (fun b => if a.2 < b.2 then some (coprimeM a.1.1 b.1.1) else none))).mapM id with
        | none => .skip "resultant size cap"
        | some cs => if cs.all id then .ok s!"fac/msqf/{facs.length}" else .viol "fac/msqf/coprime" "two factors share a common factor"
    | _, _, _ => .skip "parse"
  | "layout", [st], [o] =>
    if o = "1" then .ok s!"fac/layout/{if st = "1" then "stale-input" else "plain"}"
    else .viol "fac/layout" "a returned factor is not laid out in the current variable order"
  | _, _, _ => .skip s!"unknown fac op {op}"

end LP.Driver
