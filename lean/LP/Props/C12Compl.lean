/-
  C12 — the one-pass complement (mirror of the C++ helper `poly::infeasible_regions`) is exact: for a sorted list of
  disjoint non-empty intervals a real lies in one of the returned regions iff it lies in none of the given intervals.
  Generic in the end-point type: `den` maps end points to extended reals, `lt` / `eq` decide its order.
-/
import LP.Model.Complement
import Mathlib.Data.EReal.Basic

namespace LP
namespace Compl

variable {α : Type} (den : α → EReal) (lt eq : α → α → Bool) (ninf pinf : α)

/-- x is above the lower end b (strictly if `o`) -/
def above (b : EReal) (o : Bool) (x : EReal) : Prop := if o then b < x else b ≤ x
/-- x is below the upper end b (strictly if `o`) -/
def below (b : EReal) (o : Bool) (x : EReal) : Prop := if o then x < b else x ≤ b

def Itv.mem (I : Itv α) (x : EReal) : Prop := above (den I.lo) I.loOpen x ∧ below (den I.hi) I.hiOpen x

/-- non-empty -/
def Itv.Wf (I : Itv α) : Prop := den I.lo < den I.hi ∨ (den I.lo = den I.hi ∧ I.loOpen = false ∧ I.hiOpen = false)

/-- sorted, disjoint, each interval non-empty, everything at or after `last` -/
def Chain : EReal → List (Itv α) → Prop
  | _, [] => True
  | last, I :: rest => last ≤ den I.lo ∧ I.Wf den ∧ Chain (den I.hi) rest

theorem not_above (b : EReal) (o : Bool) (x : EReal) : ¬ above b o x ↔ below b (!o) x := by
  cases o <;> simp [above, below]

theorem not_below (b : EReal) (o : Bool) (x : EReal) : ¬ below b o x ↔ above b (!o) x := by
  cases o <;> simp [above, below]

theorem above_le (b : EReal) (o : Bool) (x : EReal) (h : above b o x) : b ≤ x := by
  cases o
  · exact h
  · exact le_of_lt h

theorem chain_lo_ge : ∀ (S : List (Itv α)) (last : EReal), Chain den last S → ∀ I ∈ S, last ≤ den I.lo := by
  intro S
  induction S with
  | nil => intro _ _ I hI; simp at hI
  | cons J rest ih =>
    intro last hc I hI
    obtain ⟨h1, h2, h3⟩ := hc
    rw [List.mem_cons] at hI
    rcases hI with rfl | hI
    · exact h1
    · have hJ : den J.lo ≤ den J.hi := by
        rcases h2 with h | ⟨h, _, _⟩
        · exact le_of_lt h
        · exact le_of_eq h
      exact le_trans (le_trans h1 hJ) (ih _ h3 I hI)

/-- **the complement pass is exact** (invariant form) -/
theorem go_mem (hlt : ∀ a b, lt a b = true ↔ den a < den b) (heq : ∀ a b, eq a b = true ↔ den a = den b)
    (hn : den ninf = ⊥) (hp : den pinf = ⊤) (x : EReal) (hx1 : ⊥ < x) (hx2 : x < ⊤) :
    ∀ (S : List (Itv α)) (last : α) (lastOpen : Bool), Chain den (den last) S →
      ((∃ J ∈ go lt eq ninf pinf last lastOpen S, J.mem den x) ↔
        (above (den last) (!lastOpen) x ∧ ¬ ∃ I ∈ S, I.mem den x)) := by
  intro S
  induction S with
  | nil =>
    intro last lastOpen _
    simp only [go, List.not_mem_nil, false_and, exists_false, not_false_eq_true, and_true]
    by_cases hl : eq last pinf = true
    · rw [if_pos hl]
      have : den last = ⊤ := by rw [(heq _ _).1 hl, hp]
      simp only [List.not_mem_nil, false_and, exists_false, false_iff]
      intro h
      have hle := above_le _ _ _ h
      rw [this] at hle
      exact absurd hx2 (not_lt.2 hle)
    · rw [if_neg hl]
      simp only [List.mem_singleton, exists_eq_left, Itv.mem, hp]
      constructor
      · exact fun h => h.1
      · intro h; exact ⟨h, by simp only [below, if_true]; exact hx2⟩
  | cons I rest ih =>
    intro last lastOpen hc
    obtain ⟨h1, hwf, h3⟩ := hc
    have hIH := ih I.hi I.hiOpen h3
    have hlohi : den I.lo ≤ den I.hi := by
      rcases hwf with h | ⟨h, _, _⟩
      · exact le_of_lt h
      · exact le_of_eq h
    -- elements of `rest` start at or after I.hi
    have hrest : ∀ I' ∈ rest, I'.mem den x → den I.hi ≤ x :=
      fun I' hI' hm => le_trans (chain_lo_ge den rest _ h3 I' hI') (above_le _ _ _ hm.1)
    -- membership in the gap list
    have hgap : (∃ J ∈ (if eq I.lo ninf then []
        else if lt last I.lo then [(⟨last, !lastOpen, I.lo, !I.loOpen⟩ : Itv α)]
        else if lastOpen && I.loOpen && eq last I.lo then [⟨I.lo, false, I.lo, false⟩]
        else []), J.mem den x) ↔ (above (den last) (!lastOpen) x ∧ ¬ above (den I.lo) I.loOpen x) := by
      by_cases hni : eq I.lo ninf = true
      · rw [if_pos hni]
        have hlo : den I.lo = ⊥ := by rw [(heq _ _).1 hni, hn]
        simp only [List.not_mem_nil, false_and, exists_false, false_iff, not_and, not_not]
        intro _
        rw [hlo]; cases I.loOpen
        · exact bot_le
        · exact hx1
      · rw [if_neg hni]
        by_cases hl : lt last I.lo = true
        · rw [if_pos hl]
          simp only [List.mem_singleton, exists_eq_left, Itv.mem]
          rw [not_above]
        · rw [if_neg hl]
          have hge : den I.lo ≤ den last := not_lt.1 (fun h => hl ((hlt _ _).2 h))
          have heqv : den last = den I.lo := le_antisymm h1 hge
          by_cases hpt : (lastOpen && I.loOpen && eq last I.lo) = true
          · rw [if_pos hpt]
            simp only [Bool.and_eq_true] at hpt
            obtain ⟨⟨ho1, ho2⟩, _⟩ := hpt
            simp only [List.mem_singleton, exists_eq_left, Itv.mem, above, below, ho1, ho2, heqv]
            simp
          · rw [if_neg hpt]
            simp only [List.not_mem_nil, false_and, exists_false, false_iff, not_and, not_not]
            intro hab
            have hcase : lastOpen = false ∨ I.loOpen = false := by
              by_contra hcon
              push Not at hcon
              apply hpt
              simp only [Bool.and_eq_true]
              refine ⟨⟨by simpa using hcon.1, by simpa using hcon.2⟩, (heq _ _).2 heqv⟩
            rcases hcase with hc | hc
            · rw [hc] at hab
              simp only [above, Bool.not_false, if_true] at hab
              rw [heqv] at hab
              cases I.loOpen
              · exact le_of_lt hab
              · exact hab
            · rw [hc]
              simp only [above]
              rw [← heqv]
              exact above_le _ _ _ hab
    rw [go]
    constructor
    · rintro ⟨J, hJ, hm⟩
      rw [List.mem_append] at hJ
      rcases hJ with hJ | hJ
      · -- in the gap before I
        obtain ⟨hb, hna⟩ := hgap.1 ⟨J, hJ, hm⟩
        refine ⟨hb, ?_⟩
        rintro ⟨I', hI', hm'⟩
        rw [List.mem_cons] at hI'
        rcases hI' with rfl | hI'
        · exact hna hm'.1
        · -- x ≥ I.hi ≥ I.lo, but x is not above I.lo
          have hxhi := hrest I' hI' hm'
          rw [not_above] at hna
          rcases hwf with hlt' | ⟨he, ho1, _⟩
          · have : x ≤ den I.lo := by
              cases hoo : I.loOpen <;> rw [hoo] at hna <;> simp [below] at hna
              · exact le_of_lt hna
              · exact hna
            exact absurd (lt_of_lt_of_le hlt' hxhi) (not_lt.2 this)
          · rw [ho1] at hna
            simp [below] at hna
            exact absurd (lt_of_lt_of_le hna (le_trans hlohi hxhi)) (lt_irrefl _)
      · -- after I
        obtain ⟨hb', hnr⟩ := hIH.1 ⟨J, hJ, hm⟩
        have hxhi : den I.hi ≤ x := above_le _ _ _ hb'
        refine ⟨?_, ?_⟩
        · cases hlo : lastOpen
          · simp only [above, Bool.not_false, if_true]
            rcases hwf with hlt' | ⟨he, _, ho2⟩
            · exact lt_of_le_of_lt h1 (lt_of_lt_of_le hlt' hxhi)
            · rw [ho2] at hb'
              simp only [above, Bool.not_false, if_true] at hb'
              exact lt_of_le_of_lt (le_trans h1 hlohi) hb'
          · simp only [above, Bool.not_true]
            exact le_trans (le_trans h1 hlohi) hxhi
        · rintro ⟨I', hI', hm'⟩
          rw [List.mem_cons] at hI'
          rcases hI' with rfl | hI'
          · exact (not_below _ _ _).2 hb' hm'.2
          · exact hnr ⟨I', hI', hm'⟩
    · rintro ⟨hb, hnone⟩
      have hnI : ¬ I.mem den x := fun h => hnone ⟨I, List.mem_cons_self, h⟩
      have hnr : ¬ ∃ I' ∈ rest, I'.mem den x := fun ⟨I', h1', h2'⟩ => hnone ⟨I', List.mem_cons_of_mem _ h1', h2'⟩
      by_cases ha : above (den I.lo) I.loOpen x
      · have hnb : ¬ below (den I.hi) I.hiOpen x := fun h => hnI ⟨ha, h⟩
        obtain ⟨J, hJ, hm⟩ := hIH.2 ⟨(not_below _ _ _).1 hnb, hnr⟩
        exact ⟨J, List.mem_append_right _ hJ, hm⟩
      · obtain ⟨J, hJ, hm⟩ := hgap.2 ⟨hb, ha⟩
        exact ⟨J, List.mem_append_left _ hJ, hm⟩

/-- **C12 (C++ helper)**: the regions returned for a sorted list of disjoint non-empty intervals are exactly the reals in
    none of them -/
theorem C12_complement_exact (hlt : ∀ a b, lt a b = true ↔ den a < den b) (heq : ∀ a b, eq a b = true ↔ den a = den b)
    (hn : den ninf = ⊥) (hp : den pinf = ⊤) (S : List (Itv α)) (hS : Chain den ⊥ S) (v : ℝ) :
    (∃ J ∈ complement lt eq ninf pinf S, J.mem den (v : EReal)) ↔ ¬ ∃ I ∈ S, I.mem den (v : EReal) := by
  unfold complement
  rw [go_mem den lt eq ninf pinf hlt heq hn hp (v : EReal) (EReal.bot_lt_coe v) (EReal.coe_lt_top v) S ninf false
    (by rw [hn]; exact hS)]
  constructor
  · exact fun h => h.2
  · intro h
    refine ⟨?_, h⟩
    simp only [above, Bool.not_false, if_true, hn]
    exact EReal.bot_lt_coe v

end Compl
end LP
