/-
  C05 — two of the irreducibility criteria used by the validator, formalised: a primitive integer polynomial is irreducible
  in ℤ[X] when its reduction modulo a prime that does not divide the leading coefficient is irreducible in (Z/p)[X]
  (`C05_irreducible_of_mod_p`; Mathlib has the monic case only), and when it has degree one
  (`C05_irreducible_of_degree_one`).  What stays trusted for the "mod p" verdict is the model's decision that the reduction is
  irreducible (exhaustive trial division by monic polynomials of degree ≤ deg/2, executed) and, for the other verdicts,
  Kronecker's search.
-/
import Mathlib.RingTheory.Polynomial.Content
import Mathlib.Algebra.Polynomial.Eval.Irreducible
import Mathlib.Data.ZMod.Basic
import Mathlib.Algebra.Field.ZMod
import Mathlib.Algebra.Polynomial.RingDivision

namespace LP
open Polynomial

/-- **irreducibility modulo a prime**: a primitive integer polynomial whose leading coefficient is not divisible by the
    prime `p` and whose reduction modulo `p` is irreducible in (Z/p)[X] is irreducible in ℤ[X] (not only monic ones) -/
theorem C05_irreducible_of_mod_p (f : ℤ[X]) (hprim : f.IsPrimitive) (p : ℕ) [Fact p.Prime]
    (hlc : ((f.leadingCoeff : ℤ) : ZMod p) ≠ 0)
    (hirr : Irreducible (f.map (Int.castRingHom (ZMod p)))) : Irreducible f := by
  have hdeg : (f.map (Int.castRingHom (ZMod p))).natDegree = f.natDegree :=
    natDegree_map_of_leadingCoeff_ne_zero _ (by simpa using hlc)
  have key : ∀ a b : ℤ[X], f = a * b → IsUnit (a.map (Int.castRingHom (ZMod p))) → IsUnit a := by
    intro a b hab hu
    have hf0 : f ≠ 0 := fun h => by
      apply hirr.ne_zero; rw [h]; simp
    have ha0 : a ≠ 0 := fun h => hf0 (by rw [hab, h, zero_mul])
    have hb0 : b ≠ 0 := fun h => hf0 (by rw [hab, h, mul_zero])
    have hmap : f.map (Int.castRingHom (ZMod p)) = a.map (Int.castRingHom (ZMod p)) * b.map (Int.castRingHom (ZMod p)) := by
      rw [hab, Polynomial.map_mul]
    have hma0 : a.map (Int.castRingHom (ZMod p)) ≠ 0 := fun h => hirr.ne_zero (by rw [hmap, h, zero_mul])
    have hmb0 : b.map (Int.castRingHom (ZMod p)) ≠ 0 := fun h => hirr.ne_zero (by rw [hmap, h, mul_zero])
    have d1 : f.natDegree = a.natDegree + b.natDegree := by rw [hab, natDegree_mul ha0 hb0]
    have d2 : (f.map (Int.castRingHom (ZMod p))).natDegree =
        (a.map (Int.castRingHom (ZMod p))).natDegree + (b.map (Int.castRingHom (ZMod p))).natDegree := by
      rw [hmap, natDegree_mul hma0 hmb0]
    have d3 : (a.map (Int.castRingHom (ZMod p))).natDegree = 0 := natDegree_eq_zero_of_isUnit hu
    have d4 : (b.map (Int.castRingHom (ZMod p))).natDegree ≤ b.natDegree := natDegree_map_le
    have d5 : a.natDegree = 0 := by omega
    obtain ⟨c, hc⟩ := natDegree_eq_zero.1 d5
    rw [← hc]
    have hcd : C c ∣ f := ⟨b, by rw [hab, hc]⟩
    exact (hprim c hcd).map C
  refine ⟨fun hu => hirr.not_isUnit (hu.map (mapRingHom (Int.castRingHom (ZMod p)))), fun a b hab => ?_⟩
  have hmap : f.map (Int.castRingHom (ZMod p)) = a.map (Int.castRingHom (ZMod p)) * b.map (Int.castRingHom (ZMod p)) := by
    rw [hab, Polynomial.map_mul]
  rcases hirr.isUnit_or_isUnit hmap with hu | hu
  · exact Or.inl (key a b hab hu)
  · exact Or.inr (key b a (by rw [hab, mul_comm]) hu)

/-- a primitive integer polynomial of degree one is irreducible -/
theorem C05_irreducible_of_degree_one (f : ℤ[X]) (hprim : f.IsPrimitive) (hd : f.natDegree = 1) : Irreducible f := by
  have hf0 : f ≠ 0 := fun h => by rw [h] at hd; simp at hd
  refine ⟨fun hu => ?_, fun a b hab => ?_⟩
  · have := natDegree_eq_zero_of_isUnit hu; omega
  · have ha0 : a ≠ 0 := fun h => hf0 (by rw [hab, h, zero_mul])
    have hb0 : b ≠ 0 := fun h => hf0 (by rw [hab, h, mul_zero])
    have d1 : f.natDegree = a.natDegree + b.natDegree := by rw [hab, natDegree_mul ha0 hb0]
    rcases Nat.eq_zero_or_pos a.natDegree with h0 | h0
    · left
      obtain ⟨c, hc⟩ := natDegree_eq_zero.1 h0
      rw [← hc]
      exact (hprim c ⟨b, by rw [hab, hc]⟩).map C
    · right
      have h1 : b.natDegree = 0 := by omega
      obtain ⟨c, hc⟩ := natDegree_eq_zero.1 h1
      rw [← hc]
      exact (hprim c ⟨a, by rw [hab, hc, mul_comm]⟩).map C

end LP
