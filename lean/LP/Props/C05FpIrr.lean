/-
  C05 — the irreducibility test over Z_p used for the "irreducible modulo a prime" verdict is sound
  (`irreducibleFp_sound`): the enumeration of monic polynomials is complete (`monics_complete`), the divisibility test is
  the divisibility of (Z/p)[X] (`divMod_zero_iff`), and a polynomial of positive degree over a field without monic divisor
  of degree 1 … deg/2 is irreducible (`irreducible_of_no_small_monic_divisor`).  With `C05_irreducible_of_mod_p` the verdict
  "irreducible mod p" of the validator rests on proved statements only, up to the identification of the integer coefficient
  list with its reduction (the same list read modulo p).
-/
import LP.Props.C05FpDiv
import LP.Model.Factor
import Mathlib.Algebra.Polynomial.Inductions
import Mathlib.Algebra.Polynomial.FieldDivision
import Mathlib.Algebra.Polynomial.Monic

set_option linter.unusedSectionVars false

namespace LP
namespace FPoly
open Polynomial Factor

variable (p : Nat) [hpr : Fact p.Prime]

/-- the enumeration of monic polynomials is complete: every monic polynomial of degree `k` over Z/p is denoted by one of the
    lists of `monics p k` -/
theorem monics_complete : ∀ (k : Nat) (P : (ZMod p)[X]), P.Monic → P.natDegree = k →
    ∃ h ∈ monics p k, toPolyF p h = P := by
  intro k
  induction k with
  | zero =>
    intro P hm hd
    refine ⟨[1], by simp [monics], ?_⟩
    rw [toPolyF_cons, toPolyF_nil, mul_zero, add_zero]
    have := eq_C_of_natDegree_eq_zero hd
    rw [this]
    have hc : P.coeff 0 = 1 := by
      have := hm.coeff_natDegree; rw [hd] at this; exact this
    rw [hc]; simp
  | succ k ih =>
    intro P hm hd
    have hp : 0 < p := hpr.out.pos
    have : NeZero p := ⟨by omega⟩
    have hdiv := divX_mul_X_add P
    have hdm : P.divX.Monic := by
      unfold Monic
      have h1 : P.divX.natDegree = k := by rw [natDegree_divX_eq_natDegree_tsub_one, hd]; rfl
      rw [leadingCoeff, h1, coeff_divX]
      have := hm.coeff_natDegree; rw [hd] at this; exact this
    have hdd : P.divX.natDegree = k := by rw [natDegree_divX_eq_natDegree_tsub_one, hd]; rfl
    obtain ⟨h', hh', hP'⟩ := ih P.divX hdm hdd
    refine ⟨((P.coeff 0).val : Int) :: h', ?_, ?_⟩
    · simp only [monics, List.mem_flatMap, List.mem_map, List.mem_range]
      exact ⟨h', hh', (P.coeff 0).val, ZMod.val_lt _, rfl⟩
    · rw [toPolyF_cons, hP']
      have : (((P.coeff 0).val : Int) : ZMod p) = P.coeff 0 := by
        rw [Int.cast_natCast, ZMod.natCast_val, ZMod.cast_id', id]
      rw [this]
      conv_rhs => rw [← hdiv]
      ring


/-- no monic divisor of degree 1 … deg/2 ⇒ irreducible (over a field) -/
theorem irreducible_of_no_small_monic_divisor (G : (ZMod p)[X]) (hd : 1 ≤ G.natDegree)
    (hno : ∀ A : (ZMod p)[X], A.Monic → 1 ≤ A.natDegree → 2 * A.natDegree ≤ G.natDegree → ¬ A ∣ G) : Irreducible G := by
  have hG0 : G ≠ 0 := fun h => by rw [h] at hd; simp at hd
  refine ⟨fun hu => ?_, fun A B hAB => ?_⟩
  · have := natDegree_eq_zero_of_isUnit hu; omega
  · by_contra hcon
    push Not at hcon
    obtain ⟨hA, hB⟩ := hcon
    have hA0 : A ≠ 0 := fun h => hG0 (by rw [hAB, h, zero_mul])
    have hB0 : B ≠ 0 := fun h => hG0 (by rw [hAB, h, mul_zero])
    have dA : 1 ≤ A.natDegree := by
      by_contra hc
      have h0 : A.natDegree = 0 := by omega
      apply hA
      rw [isUnit_iff_degree_eq_zero, degree_eq_natDegree hA0, h0]; rfl
    have dB : 1 ≤ B.natDegree := by
      by_contra hc
      have h0 : B.natDegree = 0 := by omega
      apply hB
      rw [isUnit_iff_degree_eq_zero, degree_eq_natDegree hB0, h0]; rfl
    have dsum : G.natDegree = A.natDegree + B.natDegree := by rw [hAB, natDegree_mul hA0 hB0]
    -- the factor of smaller degree, made monic
    have small : ∀ (S T : (ZMod p)[X]), S ≠ 0 → G = S * T → 1 ≤ S.natDegree → 2 * S.natDegree ≤ G.natDegree → False := by
      intro S T hS0 hST dS hsmall
      have hlc : S.leadingCoeff ≠ 0 := leadingCoeff_ne_zero.2 hS0
      have hmon : (C S.leadingCoeff⁻¹ * S).Monic := monic_C_mul_of_mul_leadingCoeff_eq_one (inv_mul_cancel₀ hlc)
      have hdeg : (C S.leadingCoeff⁻¹ * S).natDegree = S.natDegree := natDegree_C_mul (inv_ne_zero hlc)
      refine hno _ hmon (by rw [hdeg]; exact dS) (by rw [hdeg]; exact hsmall) ⟨C S.leadingCoeff * T, ?_⟩
      rw [hST]
      have : C S.leadingCoeff⁻¹ * S * (C S.leadingCoeff * T) = (C S.leadingCoeff⁻¹ * C S.leadingCoeff) * (S * T) := by ring
      rw [this, ← C_mul, inv_mul_cancel₀ hlc, C_1, one_mul]
    rcases Nat.le_total A.natDegree B.natDegree with hle | hle
    · exact small A B hA0 hAB dA (by omega)
    · exact small B A hB0 (by rw [hAB, mul_comm]) dB (by omega)

/-- **the irreducibility test over Z_p is sound**: a polynomial accepted by the exhaustive trial division is irreducible in
    (Z/p)[X] -/
theorem irreducibleFp_sound (f : FPoly) (h : irreducibleFp p f = some true) : Irreducible (toPolyF p f) := by
  have hp : 0 < p := hpr.out.pos
  unfold irreducibleFp at h
  dsimp only at h
  split_ifs at h with hcap
  simp only [Option.some.injEq, Bool.and_eq_true, decide_eq_true_eq, List.all_eq_true, List.mem_range,
    Bool.not_eq_eq_eq_not, Bool.not_true] at h
  obtain ⟨hd1, hall⟩ := h
  -- the monic associate
  have hnf : norm p f ≠ [] := by
    intro he
    have : fpMonic p f = [] := by unfold fpMonic; simp [he]
    rw [this] at hd1
    simp [fpDeg, norm, trim] at hd1
  obtain ⟨lc, hlc⟩ : ∃ lc, (norm p f).getLast? = some lc := by
    cases hl : (norm p f).getLast? with
    | none => rw [List.getLast?_eq_none_iff] at hl; exact absurd hl hnf
    | some x => exact ⟨x, rfl⟩
  have hlc0 : ((lc : Int) : ZMod p) ≠ 0 := by
    have h1 := norm_last_ne_zero p f lc hlc
    have h2 := norm_entries p hp f lc (List.mem_of_getLast? hlc)
    exact cast_ne_zero_of_range p hp lc h2.1 h2.2 h1
  have hinv := inv_spec p lc hlc0
  have hu0 : ((inv p lc : Int) : ZMod p) ≠ 0 := fun h0 => by rw [h0, zero_mul] at hinv; exact zero_ne_one hinv
  have hg : fpMonic p f = norm p (smul p (inv p lc) (norm p f)) := by unfold fpMonic; simp [hlc]
  have hG : toPolyF p (fpMonic p f) = C ((inv p lc : Int) : ZMod p) * toPolyF p f := by
    rw [hg, toPolyF_norm, toPolyF_smul, toPolyF_norm]
  have hF0 : toPolyF p f ≠ 0 := (natDegree_norm p f hnf).2.2
  have hG0 : toPolyF p (fpMonic p f) ≠ 0 := by
    rw [hG]; exact mul_ne_zero (fun h0 => hu0 (C_eq_zero.1 h0)) hF0
  have hgn : norm p (fpMonic p f) ≠ [] := fun he => hG0 ((norm_eq_nil_iff p _).1 he)
  have hdeg : (toPolyF p (fpMonic p f)).natDegree = fpDeg p (fpMonic p f) := (natDegree_norm p _ hgn).1
  -- irreducibility of the monic associate
  have hirr : Irreducible (toPolyF p (fpMonic p f)) := by
    refine irreducible_of_no_small_monic_divisor p _ (by rw [hdeg]; exact hd1) ?_
    intro A hmon dA hsmall hdiv
    obtain ⟨hh, hhm, hhA⟩ := monics_complete p A.natDegree A hmon rfl
    have hA0 : A ≠ 0 := hmon.ne_zero
    have hhn : norm p hh ≠ [] := fun he => hA0 (by rw [← hhA]; exact (norm_eq_nil_iff p hh).1 he)
    obtain ⟨k, hk⟩ : ∃ k, A.natDegree = k + 1 := ⟨A.natDegree - 1, by omega⟩
    rw [hk] at hhm
    have := hall k (by rw [hdeg] at hsmall; omega) hh hhm
    have hz : (norm p (divMod p (fpMonic p f) hh).2).isEmpty = true :=
      (divMod_zero_iff p _ hh hhn).2 (by rw [hhA]; exact hdiv)
    unfold fpIsZero at this
    rw [hz] at this
    exact absurd this (by simp)
  -- transfer to f
  have hunit : IsUnit (C ((inv p lc : Int) : ZMod p)) := isUnit_C.2 (isUnit_iff_ne_zero.2 hu0)
  rw [hG] at hirr
  exact (irreducible_isUnit_mul hunit).1 hirr

end FPoly
end LP
