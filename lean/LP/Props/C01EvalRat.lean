/-
  C01 — evaluation at a rational point is exact: the model's `evalRat` is the evaluation of the denoted integer polynomial
  at the point, through the coercion ℤ → ℚ (`C01_evalRat`).
-/
import LP.Props.C01

namespace LP
open MvPolynomial

namespace MPoly

theorem C01_evalRat (p : MPoly) (asg : Nat → ℚ) :
    evalRat p asg = MvPolynomial.eval₂ (Int.castRingHom ℚ) asg (den ℤ p) := by
  have monoEval : ∀ (m : Mono) (a : ℚ), m.foldl (fun a q => a * asg q.1 ^ q.2) a =
      a * (Mono.toFinsupp m).prod (fun i k => asg i ^ k) := by
    intro m
    induction m with
    | nil => intro a; simp [Mono.toFinsupp_nil]
    | cons q m ih =>
      intro a
      rw [List.foldl_cons, ih, Mono.toFinsupp_cons, Finsupp.prod_add_index' (by simp) (by intro i k l; exact pow_add _ _ _)]
      rw [Finsupp.prod_single_index (by simp)]
      ring
  have gen : ∀ (p : MPoly) (acc : ℚ),
      p.foldl (fun acc t => acc + (t.2 : ℚ) * t.1.foldl (fun a q => a * asg q.1 ^ q.2) 1) acc =
        acc + MvPolynomial.eval₂ (Int.castRingHom ℚ) asg (den ℤ p) := by
    intro p
    induction p with
    | nil => intro acc; simp [den_nil]
    | cons t p ih =>
      intro acc
      rw [List.foldl_cons, ih, den_cons, eval₂_add, eval₂_monomial, monoEval]
      simp only [Int.cast_id, eq_intCast]
      ring
  unfold evalRat
  rw [gen, zero_add]

end MPoly
end LP
