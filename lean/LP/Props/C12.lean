/-
  C12 — feasible sets of polynomial and root constraints are the exact solution sets.

  The sets returned by `lp_polynomial_constraint_get_feasible_set` / `_root_constraint_get_feasible_set` are
  compared interval by interval (end points by the proved exact comparison, strictness flags literally) with the
  model: exact roots (C11), exact cell signs at rational sample points (C10), and the sweep of maximal runs of
  satisfied cells.  Proved here:
  * `C12_negate`: the negation table of the six sign conditions;
  * `C12_root_constraint`: for every root value r, index, condition and polarity, a real v lies in the model's
    root-constraint set iff the (possibly negated) condition holds for sign(v − r); with fewer roots the
    un-negated constraint is false everywhere and the negated one true everywhere.
-/
import LP.Props.C11
import Mathlib.Data.EReal.Basic
import Mathlib.Tactic.IntervalCases

namespace LP
namespace Eval

/-- negating a sign condition negates its truth value on every sign -/
theorem C12_negate (c : ℕ) (s : Int) : consistent (negateCond c) s = !consistent c s := by
  have key : ∀ c' : ℕ, c' < 5 → consistent (negateCond c') s = !consistent c' s := by
    intro c' hc
    rcases lt_trichotomy s 0 with h | h | h
    · have a1 : s ≤ 0 := le_of_lt h
      have a2 : ¬ 0 < s := by omega
      have a3 : ¬ 0 ≤ s := by omega
      have a4 : s ≠ 0 := by omega
      interval_cases c' <;> simp [negateCond, consistent, h, a1, a2, a3, a4]
    · subst h
      interval_cases c' <;> simp [negateCond, consistent]
    · have a1 : ¬ s ≤ 0 := by omega
      have a2 : ¬ s < 0 := by omega
      have a3 : 0 ≤ s := le_of_lt h
      have a4 : s ≠ 0 := by omega
      interval_cases c' <;> simp [negateCond, consistent, h, a1, a2, a3, a4]
  by_cases hc : c < 5
  · exact key c hc
  · obtain ⟨c', rfl⟩ := Nat.exists_eq_add_of_le (not_lt.1 hc)
    have e1 : negateCond (5 + c') = 0 := by unfold negateCond; split <;> first | omega | rfl
    have e2 : consistent (5 + c') s = decide (s ≥ 0) := by unfold consistent; split <;> first | omega | rfl
    rw [e1, e2]; simp only [consistent]; by_cases h1 : s < 0 <;> simp [h1] <;> omega

/-- value of an end point, given the roots -/
noncomputable def EPt.val (r : ℕ → ℝ) : EPt → EReal
  | .ninf => ⊥
  | .root i => (r i : EReal)
  | .pinf => ⊤

/-- membership of a real in a feasible interval -/
def SInt.mem (r : ℕ → ℝ) (I : SInt) (v : ℝ) : Prop :=
  (if I.loOpen then EPt.val r I.lo < (v : EReal) else EPt.val r I.lo ≤ (v : EReal)) ∧
  (if I.hiOpen then (v : EReal) < EPt.val r I.hi else (v : EReal) ≤ EPt.val r I.hi)

/-- sign of v − r -/
noncomputable def sgnSub (v r : ℝ) : Int := if v < r then -1 else if v = r then 0 else 1

/-- **root constraints**: y cond root_k — exact for every condition, polarity and real v -/
theorem C12_root_constraint (r : ℕ → ℝ) (n k cond : ℕ) (neg : Bool) (v : ℝ) :
    (∃ I ∈ rootFeasible n k cond neg, SInt.mem r I v) ↔
      (if k < n then consistent (if neg then negateCond cond else cond) (sgnSub v (r k)) = true else neg = true) := by
  unfold rootFeasible
  by_cases hk : k ≥ n
  · rw [if_pos hk, if_neg (not_lt.2 hk)]
    cases neg
    · simp
    · simp only [if_true, List.mem_singleton, exists_eq_left]
      simp [SInt.mem, EPt.val]
  · rw [if_neg hk, if_pos (not_le.1 hk)]
    generalize (if neg = true then negateCond cond else cond) = c
    unfold consistent sgnSub
    rcases lt_trichotomy v (r k) with h | h | h
    · have h' : ((v : ℝ) : EReal) < ((r k : ℝ) : EReal) := by exact_mod_cast h
      split <;> simp [SInt.mem, EPt.val, h, h', le_of_lt h', not_lt.2 (le_of_lt h'), ne_of_lt h, not_le.2 h']
    · subst h
      split <;> simp [SInt.mem, EPt.val]
    · have h' : ((r k : ℝ) : EReal) < ((v : ℝ) : EReal) := by exact_mod_cast h
      have hn : ¬ v < r k := not_lt.2 (le_of_lt h)
      have hne : v ≠ r k := ne_of_gt h
      split <;> simp [SInt.mem, EPt.val, h', le_of_lt h', not_lt.2 (le_of_lt h'), hn, hne, not_le.2 h']

end Eval
end LP

/-! ### the sweep: maximal runs of satisfied cells are exactly the satisfied cells -/

namespace LP
namespace Eval

/-- v is at or above the lower boundary of cell j -/
def lowerOK (r : ℕ → ℝ) (j : ℕ) (v : ℝ) : Prop :=
  if (cellLo j).2 then EPt.val r (cellLo j).1 < (v : EReal) else EPt.val r (cellLo j).1 ≤ (v : EReal)
/-- v is at or below the upper boundary of cell j -/
def upperOK (r : ℕ → ℝ) (n j : ℕ) (v : ℝ) : Prop :=
  if (cellHi n j).2 then (v : EReal) < EPt.val r (cellHi n j).1 else (v : EReal) ≤ EPt.val r (cellHi n j).1

/-- v lies in cell j (j even: the open gap before root j/2; j odd: the root (j-1)/2) -/
def cellMem (r : ℕ → ℝ) (n j : ℕ) (v : ℝ) : Prop := lowerOK r j v ∧ upperOK r n j v

theorem lowerOK_odd (r : ℕ → ℝ) (k : ℕ) (v : ℝ) : lowerOK r (2 * k + 1) v ↔ r k ≤ v := by
  unfold lowerOK cellLo
  have h1 : (2 * k + 1) % 2 = 1 := by omega
  have h2 : (2 * k + 1) / 2 = k := by omega
  simp only [h1, if_true, h2, EPt.val]
  simp
theorem lowerOK_even_succ (r : ℕ → ℝ) (k : ℕ) (v : ℝ) : lowerOK r (2 * (k + 1)) v ↔ r k < v := by
  unfold lowerOK cellLo
  have h1 : (2 * (k + 1)) % 2 ≠ 1 := by omega
  have h2 : (2 * (k + 1)) / 2 - 1 = k := by omega
  have h3 : 2 * (k + 1) ≠ 0 := by omega
  simp only [h1, if_false, h3, h2, EPt.val]
  simp
theorem lowerOK_zero (r : ℕ → ℝ) (v : ℝ) : lowerOK r 0 v := by
  unfold lowerOK cellLo
  simp [EPt.val]
theorem upperOK_odd (r : ℕ → ℝ) (n k : ℕ) (v : ℝ) : upperOK r n (2 * k + 1) v ↔ v ≤ r k := by
  unfold upperOK cellHi
  have h1 : (2 * k + 1) % 2 = 1 := by omega
  have h2 : (2 * k + 1) / 2 = k := by omega
  simp only [h1, if_true, h2, EPt.val]
  simp
theorem upperOK_even (r : ℕ → ℝ) (n k : ℕ) (v : ℝ) (hk : k < n) : upperOK r n (2 * k) v ↔ v < r k := by
  unfold upperOK cellHi
  have h1 : (2 * k) % 2 ≠ 1 := by omega
  have h2 : (2 * k) / 2 = k := by omega
  have h3 : 2 * k ≠ 2 * n := by omega
  simp only [h1, if_false, h3, h2, EPt.val]
  simp
theorem upperOK_last (r : ℕ → ℝ) (n : ℕ) (v : ℝ) : upperOK r n (2 * n) v := by
  unfold upperOK cellHi
  have h1 : (2 * n) % 2 ≠ 1 := by omega
  simp [h1, EPt.val]

/-- the upper boundary of cell j is the lower boundary of cell j+1 with the opposite strictness -/
theorem upper_compl (r : ℕ → ℝ) (n j : ℕ) (v : ℝ) (hj : j < 2 * n) : ¬ upperOK r n j v ↔ lowerOK r (j + 1) v := by
  rcases Nat.even_or_odd' j with ⟨k, rfl | rfl⟩
  · rw [upperOK_even r n k v (by omega), lowerOK_odd]; exact not_lt
  · have : 2 * k + 1 + 1 = 2 * (k + 1) := by ring
    rw [this, upperOK_odd, lowerOK_even_succ]; exact not_le

/-- lower boundaries are increasing: being above the boundary of cell j+1 implies being above that of cell j -/
theorem lower_antitone_step (r : ℕ → ℝ) (n : ℕ) (hr : ∀ i j, i < j → j < n → r i < r j) (j : ℕ) (v : ℝ)
    (hj : j < 2 * n) (h : lowerOK r (j + 1) v) : lowerOK r j v := by
  rcases Nat.even_or_odd' j with ⟨k, rfl | rfl⟩
  · rw [lowerOK_odd] at h
    cases k with
    | zero => exact lowerOK_zero r v
    | succ k =>
      rw [lowerOK_even_succ]
      exact lt_of_lt_of_le (hr k (k + 1) (by omega) (by omega)) h
  · have : 2 * k + 1 + 1 = 2 * (k + 1) := by ring
    rw [this, lowerOK_even_succ] at h
    rw [lowerOK_odd]; exact le_of_lt h

theorem lower_antitone (r : ℕ → ℝ) (n : ℕ) (hr : ∀ i j, i < j → j < n → r i < r j) (v : ℝ) :
    ∀ (d s : ℕ), s + d ≤ 2 * n → lowerOK r (s + d) v → lowerOK r s v := by
  intro d
  induction d with
  | zero => intro s _ h; simpa using h
  | succ d ih =>
    intro s hs h
    have h' : lowerOK r (s + d + 1) v := by rwa [Nat.add_assoc]
    exact ih s (by omega) (lower_antitone_step r n hr (s + d) v (by omega) h')

/-- upper boundaries are increasing -/
theorem upper_mono_step (r : ℕ → ℝ) (n : ℕ) (hr : ∀ i j, i < j → j < n → r i < r j) (j : ℕ) (v : ℝ)
    (hj : j < 2 * n) (h : upperOK r n j v) : upperOK r n (j + 1) v := by
  rcases Nat.even_or_odd' j with ⟨k, rfl | rfl⟩
  · rw [upperOK_even r n k v (by omega)] at h
    rw [upperOK_odd]; exact le_of_lt h
  · rw [upperOK_odd] at h
    have e : 2 * k + 1 + 1 = 2 * (k + 1) := by ring
    rw [e]
    by_cases hk : k + 1 < n
    · rw [upperOK_even r n (k + 1) v hk]
      exact lt_of_le_of_lt h (hr k (k + 1) (by omega) hk)
    · have : k + 1 = n := by omega
      rw [this]; exact upperOK_last r n v

theorem upper_mono (r : ℕ → ℝ) (n : ℕ) (hr : ∀ i j, i < j → j < n → r i < r j) (v : ℝ) :
    ∀ (d s : ℕ), s + d ≤ 2 * n → upperOK r n s v → upperOK r n (s + d) v := by
  intro d
  induction d with
  | zero => intro s _ h; simpa using h
  | succ d ih =>
    intro s hs h
    have := upper_mono_step r n hr (s + d) v (by omega) (ih s (by omega) h)
    rwa [Nat.add_assoc] at this

/-- **a run of consecutive cells is an interval**: the interval from the lower boundary of cell s to the upper
    boundary of cell e (s ≤ e ≤ 2n) contains exactly the points of the cells s, …, e -/
theorem run_is_union (r : ℕ → ℝ) (n : ℕ) (hr : ∀ i j, i < j → j < n → r i < r j) (v : ℝ) :
    ∀ (d s : ℕ), s + d ≤ 2 * n →
      ((lowerOK r s v ∧ upperOK r n (s + d) v) ↔ ∃ i, s ≤ i ∧ i ≤ s + d ∧ cellMem r n i v) := by
  intro d
  induction d with
  | zero =>
    intro s _
    simp only [Nat.add_zero]
    constructor
    · intro h; exact ⟨s, le_refl _, le_refl _, h⟩
    · rintro ⟨i, h1, h2, h3⟩
      have : i = s := by omega
      subst this; exact h3
  | succ d ih =>
    intro s hs
    constructor
    · rintro ⟨hl, hu⟩
      by_cases hprev : upperOK r n (s + d) v
      · obtain ⟨i, h1, h2, h3⟩ := (ih s (by omega)).1 ⟨hl, hprev⟩
        exact ⟨i, h1, by omega, h3⟩
      · have hlo := (upper_compl r n (s + d) v (by omega)).1 hprev
        exact ⟨s + d + 1, by omega, by omega, ⟨hlo, by rwa [Nat.add_assoc]⟩⟩
    · rintro ⟨i, h1, h2, hl, hu⟩
      obtain ⟨e1, rfl⟩ : ∃ e, i = s + e := ⟨i - s, by omega⟩
      constructor
      · exact lower_antitone r n hr v e1 s (by omega) hl
      · obtain ⟨e2, he2⟩ : ∃ e, s + (d + 1) = s + e1 + e := ⟨d + 1 - e1, by omega⟩
        rw [he2]
        exact upper_mono r n hr v e2 (s + e1) (by omega) hu

/-- membership in the interval of a run, in terms of the cell boundaries -/
theorem runInterval_mem (r : ℕ → ℝ) (n s e : ℕ) (v : ℝ) :
    SInt.mem r ⟨(cellLo s).1, (cellLo s).2, (cellHi n e).1, (cellHi n e).2⟩ v ↔ (lowerOK r s v ∧ upperOK r n e v) := by
  unfold SInt.mem lowerOK upperOK
  rfl

/-- invariant of the sweep -/
theorem sweepAux_mem (r : ℕ → ℝ) (n : ℕ) (hr : ∀ i j, i < j → j < n → r i < r j) (v : ℝ) :
    ∀ (sat : List Bool) (j : ℕ) (cur : Option ℕ), j + sat.length = 2 * n + 1 →
      (∀ s, cur = some s → s < j) →
      ((∃ I ∈ sweepAux n j cur sat, SInt.mem r I v) ↔
        ((∃ s, cur = some s ∧ ∃ i, s ≤ i ∧ i < j ∧ cellMem r n i v) ∨
         (∃ i, j ≤ i ∧ sat[i - j]? = some true ∧ cellMem r n i v))) := by
  intro sat
  induction sat with
  | nil =>
    intro j cur hj hcur
    have hj' : j = 2 * n + 1 := by simpa using hj
    cases cur with
    | none => simp [sweepAux]
    | some s =>
      have hs := hcur s rfl
      simp only [sweepAux, List.mem_singleton, exists_eq_left, runInterval_mem]
      obtain ⟨d, hd⟩ : ∃ d, j - 1 = s + d := ⟨j - 1 - s, by omega⟩
      rw [hd, run_is_union r n hr v d s (by omega)]
      constructor
      · rintro ⟨i, h1, h2, h3⟩
        left; exact ⟨s, rfl, i, h1, by omega, h3⟩
      · rintro (⟨s', hs', i, h1, h2, h3⟩ | ⟨i, _, h, _⟩)
        · cases hs'; exact ⟨i, h1, by omega, h3⟩
        · simp at h
  | cons b rest ih =>
    intro j cur hj hcur
    have hlen : j + 1 + rest.length = 2 * n + 1 := by simp at hj; omega
    -- membership in the tail, re-indexed
    have tailIdx : ∀ i, j + 1 ≤ i → ((b :: rest)[i - j]? = rest[i - (j + 1)]?) := by
      intro i hi
      have : i - j = (i - (j + 1)) + 1 := by omega
      rw [this, List.getElem?_cons_succ]
    cases cur with
    | none =>
      cases b with
      | true =>
        simp only [sweepAux, if_true]
        rw [ih (j + 1) (some j) hlen (by intro s hs; cases hs; omega)]
        constructor
        · rintro (⟨s, hs, i, h1, h2, h3⟩ | ⟨i, h1, h2, h3⟩)
          · cases hs
            have : i = j := by omega
            subst this
            right; exact ⟨i, le_refl _, by simp, h3⟩
          · right; exact ⟨i, by omega, by rw [tailIdx i h1]; exact h2, h3⟩
        · rintro (⟨s, hs, _⟩ | ⟨i, h1, h2, h3⟩)
          · cases hs
          · by_cases hij : i = j
            · subst hij; left; exact ⟨i, rfl, i, le_refl _, by omega, h3⟩
            · right; exact ⟨i, by omega, by rw [← tailIdx i (by omega)]; exact h2, h3⟩
      | false =>
        simp only [sweepAux, Bool.false_eq_true, if_false]
        rw [ih (j + 1) none hlen (by intro s hs; cases hs)]
        constructor
        · rintro (⟨s, hs, _⟩ | ⟨i, h1, h2, h3⟩)
          · cases hs
          · right; exact ⟨i, by omega, by rw [tailIdx i h1]; exact h2, h3⟩
        · rintro (⟨s, hs, _⟩ | ⟨i, h1, h2, h3⟩)
          · cases hs
          · by_cases hij : i = j
            · subst hij; simp at h2
            · right; exact ⟨i, by omega, by rw [← tailIdx i (by omega)]; exact h2, h3⟩
    | some s =>
      have hs := hcur s rfl
      cases b with
      | true =>
        simp only [sweepAux, if_true]
        rw [ih (j + 1) (some s) hlen (by intro s' hs'; cases hs'; omega)]
        constructor
        · rintro (⟨s', hs', i, h1, h2, h3⟩ | ⟨i, h1, h2, h3⟩)
          · cases hs'
            by_cases hij : i = j
            · subst hij; right; exact ⟨i, le_refl _, by simp, h3⟩
            · left; exact ⟨s, rfl, i, h1, by omega, h3⟩
          · right; exact ⟨i, by omega, by rw [tailIdx i h1]; exact h2, h3⟩
        · rintro (⟨s', hs', i, h1, h2, h3⟩ | ⟨i, h1, h2, h3⟩)
          · cases hs'; left; exact ⟨s, rfl, i, h1, by omega, h3⟩
          · by_cases hij : i = j
            · subst hij; left; exact ⟨s, rfl, i, by omega, by omega, h3⟩
            · right; exact ⟨i, by omega, by rw [← tailIdx i (by omega)]; exact h2, h3⟩
      | false =>
        simp only [sweepAux, Bool.false_eq_true, if_false]
        have split : ∀ (P Q : Prop) (I0 : SInt) (L : List SInt), (P ↔ SInt.mem r I0 v) → (Q ↔ ∃ I ∈ L, SInt.mem r I v) →
            ((∃ I ∈ I0 :: L, SInt.mem r I v) ↔ (P ∨ Q)) := by
          intro P Q I0 L hP hQ
          rw [hP, hQ]
          constructor
          · rintro ⟨I, hI, hm⟩
            rw [List.mem_cons] at hI
            rcases hI with rfl | hI
            · left; exact hm
            · right; exact ⟨I, hI, hm⟩
          · rintro (h | ⟨I, hI, hm⟩)
            · exact ⟨I0, List.mem_cons_self, h⟩
            · exact ⟨I, List.mem_cons_of_mem _ hI, hm⟩
        obtain ⟨d, hd⟩ : ∃ d, j - 1 = s + d := ⟨j - 1 - s, by omega⟩
        have hrun : (∃ i, s ≤ i ∧ i < j ∧ cellMem r n i v) ↔
            SInt.mem r ⟨(cellLo s).1, (cellLo s).2, (cellHi n (j - 1)).1, (cellHi n (j - 1)).2⟩ v := by
          rw [runInterval_mem, hd, run_is_union r n hr v d s (by omega)]
          constructor
          · rintro ⟨i, h1, h2, h3⟩; exact ⟨i, h1, by omega, h3⟩
          · rintro ⟨i, h1, h2, h3⟩; exact ⟨i, h1, by omega, h3⟩
        rw [split _ _ _ _ hrun (ih (j + 1) none hlen (by intro s' hs'; cases hs')).symm]
        constructor
        · rintro (h | (⟨s', hs', _⟩ | ⟨i, h1, h2, h3⟩))
          · left; exact ⟨s, rfl, h⟩
          · cases hs'
          · right; exact ⟨i, by omega, by rw [tailIdx i h1]; exact h2, h3⟩
        · rintro (⟨s', hs', h⟩ | ⟨i, h1, h2, h3⟩)
          · cases hs'; left; exact h
          · by_cases hij : i = j
            · subst hij; simp at h2
            · right; right; exact ⟨i, by omega, by rw [← tailIdx i (by omega)]; exact h2, h3⟩

/-- **the sweep is exact**: for strictly increasing roots r_0 < … < r_{n-1} and a satisfaction vector of the 2n+1
    cells, a real v lies in one of the returned intervals iff the cell containing v is satisfied -/
theorem C12_sweep (r : ℕ → ℝ) (n : ℕ) (hr : ∀ i j, i < j → j < n → r i < r j) (sat : List Bool)
    (hlen : sat.length = 2 * n + 1) (v : ℝ) :
    (∃ I ∈ sweep n sat, SInt.mem r I v) ↔ ∃ i, sat[i]? = some true ∧ cellMem r n i v := by
  unfold sweep
  rw [sweepAux_mem r n hr v sat 0 none (by omega) (by intro s hs; cases hs)]
  constructor
  · rintro (⟨s, hs, _⟩ | ⟨i, _, h2, h3⟩)
    · cases hs
    · exact ⟨i, by simpa using h2, h3⟩
  · rintro ⟨i, h2, h3⟩
    right; exact ⟨i, Nat.zero_le _, by simpa using h2, h3⟩

/-- every real lies in exactly one cell -/
theorem cell_exists (r : ℕ → ℝ) (n : ℕ) (hr : ∀ i j, i < j → j < n → r i < r j) (v : ℝ) :
    ∃ i, i ≤ 2 * n ∧ cellMem r n i v := by
  have := (run_is_union r n hr v (2 * n) 0 (by omega)).1 ⟨lowerOK_zero r v, by simpa using upperOK_last r n v⟩
  obtain ⟨i, _, h2, h3⟩ := this
  exact ⟨i, by omega, h3⟩

end Eval
end LP
