/-
  C13 — real feasibility sets behave as sets of reals in normal form.
  Interval comparison classifies every pair and returns the intersection; the list sweep computes
  exactly the intersection of the denoted sets; membership agrees with the denoted set.
-/
import LP.Model.FSet
import Mathlib.Algebra.Order.Field.Basic
import Mathlib.Data.Rat.Cast.Order
import Mathlib.Tactic.Linarith
import Mathlib.Tactic.Push
import Mathlib.Data.Real.Basic

set_option linter.unusedSectionVars false

namespace LP

variable {α : Type*} [Field α] [LinearOrder α] [IsStrictOrderedRing α]

/-! ### end points and bounds -/

/-- `x` respects the lower bound `(e, open)` -/
def lowerOK (e : EP) (o : Bool) (x : α) : Prop :=
  match e with
  | .ninf => True
  | .fin q => if o then (q : α) < x else (q : α) ≤ x
  | .pinf => False

def upperOK (e : EP) (o : Bool) (x : α) : Prop :=
  match e with
  | .ninf => False
  | .fin q => if o then x < (q : α) else x ≤ (q : α)
  | .pinf => True

namespace VI

/-- the denoted set -/
def Mem (I : VI) (x : α) : Prop := lowerOK I.lower I.aOpen x ∧ upperOK I.upper I.bOpen x

/-- well-formed C object -/
def WF (I : VI) : Prop :=
  if I.isPoint then (∃ q, I.a = .fin q) ∧ I.aOpen = false ∧ I.bOpen = false
  else EP.cmp I.a I.b < 0 ∧ (I.a = .ninf → I.aOpen = true) ∧ (I.b = .pinf → I.bOpen = true) ∧ I.a ≠ .pinf ∧ I.b ≠ .ninf

end VI

theorem EP.cmp_fin (a b : Rat) : EP.cmp (.fin a) (.fin b) = cmpQ a b := rfl

theorem cmpQ_lt (a b : Rat) : cmpQ a b < 0 ↔ a < b := by
  unfold cmpQ; split_ifs with h1 h2 <;> simp_all
theorem cmpQ_gt (a b : Rat) : cmpQ a b > 0 ↔ b < a := by
  unfold cmpQ; split_ifs with h1 h2 <;> simp_all
  · exact le_of_lt h1
theorem cmpQ_eq (a b : Rat) : cmpQ a b = 0 ↔ a = b := by
  unfold cmpQ; split_ifs with h1 h2 <;> simp_all
  · exact ne_of_lt h1
  · exact ne_of_gt h2
  · exact le_antisymm h2 h1

/-- three-way comparison of two bounds `(value, open)`; `dir = -1` for upper bounds (open is smaller), `+1` for lower bounds -/
def cmpBound (dir : Int) (u1 : EP) (o1 : Bool) (u2 : EP) (o2 : Bool) : Int :=
  let c := EP.cmp u1 u2
  if c ≠ 0 then c else if o1 = o2 then 0 else if o1 then dir else -dir

theorem cmpUpper_eq (I1 I2 : VI) : VI.cmpUpper I1 I2 = cmpBound (-1) I1.upper I1.bOpen I2.upper I2.bOpen := by
  unfold VI.cmpUpper cmpBound; simp
theorem cmpLower_eq (I1 I2 : VI) : VI.cmpLower I1 I2 = cmpBound 1 I1.lower I1.aOpen I2.lower I2.aOpen := by
  unfold VI.cmpLower cmpBound; simp

theorem cmpBound_fin (dir : Int) (hd : dir = 1 ∨ dir = -1) (a b : Rat) (o1 o2 : Bool) :
    (cmpBound dir (.fin a) o1 (.fin b) o2 < 0 ↔ a < b ∨ (a = b ∧ o1 ≠ o2 ∧ (if o1 then dir else -dir) < 0)) ∧
    (cmpBound dir (.fin a) o1 (.fin b) o2 > 0 ↔ b < a ∨ (a = b ∧ o1 ≠ o2 ∧ (if o1 then dir else -dir) > 0)) ∧
    (cmpBound dir (.fin a) o1 (.fin b) o2 = 0 ↔ a = b ∧ o1 = o2) := by
  unfold cmpBound
  simp only [EP.cmp_fin]
  have h1 := cmpQ_lt a b
  have h2 := cmpQ_gt a b
  have h3 := cmpQ_eq a b
  rcases lt_trichotomy a b with h | h | h
  · have c1 : cmpQ a b < 0 := h1.2 h
    have c2 : cmpQ a b ≠ 0 := ne_of_lt c1
    simp only [c2, ne_eq, not_false_eq_true, if_true]
    refine ⟨⟨fun _ => Or.inl h, fun _ => c1⟩, ⟨fun hh => by omega, fun hh => ?_⟩, ⟨fun hh => hh.elim, fun hh => absurd hh.1 (ne_of_lt h)⟩⟩
    rcases hh with hh | hh
    · exact absurd hh (not_lt.2 h.le)
    · exact absurd hh.1 (ne_of_lt h)
  · subst h
    have c0 : cmpQ a a = 0 := h3.2 rfl
    simp only [c0, ne_eq, not_true_eq_false, if_false, lt_irrefl, false_or, true_and]
    cases o1 <;> cases o2 <;> rcases hd with hd | hd <;> subst hd <;> simp
  · have c1 : cmpQ a b > 0 := h2.2 h
    have c2 : cmpQ a b ≠ 0 := ne_of_gt c1
    simp only [c2, ne_eq, not_false_eq_true, if_true]
    refine ⟨⟨fun hh => by omega, fun hh => ?_⟩, ⟨fun _ => Or.inl h, fun _ => c1⟩, ⟨fun hh => hh.elim, fun hh => absurd hh.1 (ne_of_gt h)⟩⟩
    rcases hh with hh | hh
    · exact absurd hh (not_lt.2 h.le)
    · exact absurd hh.1 (ne_of_gt h)

/-- order on upper bounds used by `lp_interval_cmp_upper_bounds`: semantic reading -/
theorem cmpUpper_sem (I1 I2 : VI) :
    (VI.cmpUpper I1 I2 ≤ 0 → ∀ x : α, upperOK I1.upper I1.bOpen x → upperOK I2.upper I2.bOpen x) ∧
    (VI.cmpUpper I1 I2 ≥ 0 → ∀ x : α, upperOK I2.upper I2.bOpen x → upperOK I1.upper I1.bOpen x) := by
  rw [cmpUpper_eq]
  generalize I1.upper = u1
  generalize I2.upper = u2
  generalize I1.bOpen = o1
  generalize I2.bOpen = o2
  rcases u1 with _ | a | _ <;> rcases u2 with _ | b | _
  · exact ⟨fun _ x hx => hx, fun _ x hx => hx⟩
  · exact ⟨fun _ x hx => absurd hx id, fun h => by simp [cmpBound, EP.cmp] at h⟩
  · exact ⟨fun _ x hx => absurd hx id, fun h => by simp [cmpBound, EP.cmp] at h⟩
  · exact ⟨fun h => by simp [cmpBound, EP.cmp] at h, fun _ x hx => absurd hx id⟩
  · obtain ⟨f1, f2, f3⟩ := cmpBound_fin (-1) (Or.inr rfl) a b o1 o2
    constructor
    · intro h x hx
      rcases lt_or_eq_of_le h with h | h
      · rcases f1.1 h with hab | ⟨hab, hne, hd⟩
        · have hc : (a : α) < (b : α) := by exact_mod_cast hab
          cases o1 <;> cases o2 <;> simp only [upperOK, Bool.false_eq_true, if_false, if_true] at hx ⊢ <;> linarith
        · subst hab; cases o1 <;> cases o2 <;> simp_all [upperOK]
          exact hx.le
      · obtain ⟨hab, ho⟩ := f3.1 h
        subst hab; subst ho; exact hx
    · intro h x hx
      rcases lt_or_eq_of_le h with h | h
      · rcases f2.1 h with hab | ⟨hab, hne, hd⟩
        · have hc : (b : α) < (a : α) := by exact_mod_cast hab
          cases o1 <;> cases o2 <;> simp only [upperOK, Bool.false_eq_true, if_false, if_true] at hx ⊢ <;> linarith
        · subst hab; cases o1 <;> cases o2 <;> simp_all [upperOK]
          exact hx.le
      · obtain ⟨hab, ho⟩ := f3.1 h.symm
        subst hab; subst ho; exact hx
  · exact ⟨fun _ x _ => trivial, fun h => by simp [cmpBound, EP.cmp] at h⟩
  · exact ⟨fun h => by simp [cmpBound, EP.cmp] at h, fun _ x hx => absurd hx id⟩
  · exact ⟨fun h => by simp [cmpBound, EP.cmp] at h, fun _ x _ => trivial⟩
  · exact ⟨fun _ x hx => hx, fun _ x hx => hx⟩

theorem cmpLower_sem (I1 I2 : VI) :
    (VI.cmpLower I1 I2 ≥ 0 → ∀ x : α, lowerOK I1.lower I1.aOpen x → lowerOK I2.lower I2.aOpen x) ∧
    (VI.cmpLower I1 I2 ≤ 0 → ∀ x : α, lowerOK I2.lower I2.aOpen x → lowerOK I1.lower I1.aOpen x) := by
  rw [cmpLower_eq]
  generalize I1.lower = u1
  generalize I2.lower = u2
  generalize I1.aOpen = o1
  generalize I2.aOpen = o2
  rcases u1 with _ | a | _ <;> rcases u2 with _ | b | _
  · exact ⟨fun _ x hx => hx, fun _ x hx => hx⟩
  · exact ⟨fun h => by simp [cmpBound, EP.cmp] at h, fun _ x _ => trivial⟩
  · exact ⟨fun h => by simp [cmpBound, EP.cmp] at h, fun _ x _ => trivial⟩
  · exact ⟨fun _ x _ => trivial, fun h => by simp [cmpBound, EP.cmp] at h⟩
  · obtain ⟨f1, f2, f3⟩ := cmpBound_fin 1 (Or.inl rfl) a b o1 o2
    constructor
    · intro h x hx
      rcases lt_or_eq_of_le h with h | h
      · rcases f2.1 h with hab | ⟨hab, hne, hd⟩
        · have hc : (b : α) < (a : α) := by exact_mod_cast hab
          cases o1 <;> cases o2 <;> simp only [lowerOK, Bool.false_eq_true, if_false, if_true] at hx ⊢ <;> linarith
        · subst hab; cases o1 <;> cases o2 <;> simp_all [lowerOK]
          exact hx.le
      · obtain ⟨hab, ho⟩ := f3.1 h.symm
        subst hab; subst ho; exact hx
    · intro h x hx
      rcases lt_or_eq_of_le h with h | h
      · rcases f1.1 h with hab | ⟨hab, hne, hd⟩
        · have hc : (a : α) < (b : α) := by exact_mod_cast hab
          cases o1 <;> cases o2 <;> simp only [lowerOK, Bool.false_eq_true, if_false, if_true] at hx ⊢ <;> linarith
        · subst hab; cases o1 <;> cases o2 <;> simp_all [lowerOK]
          exact hx.le
      · obtain ⟨hab, ho⟩ := f3.1 h
        subst hab; subst ho; exact hx
  · exact ⟨fun h => by simp [cmpBound, EP.cmp] at h, fun _ x hx => absurd hx id⟩
  · exact ⟨fun _ x hx => absurd hx id, fun h => by simp [cmpBound, EP.cmp] at h⟩
  · exact ⟨fun _ x hx => absurd hx id, fun h => by simp [cmpBound, EP.cmp] at h⟩
  · exact ⟨fun _ x hx => hx, fun _ x hx => hx⟩

theorem EP.cmp_eq_zero (a b : EP) : EP.cmp a b = 0 ↔ a = b := by
  cases a <;> cases b <;> simp [EP.cmp, cmpQ_eq]

theorem EP.cmp_antisymm (a b : EP) : (EP.cmp a b > 0 ↔ EP.cmp b a < 0) := by
  cases a <;> cases b <;> simp [EP.cmp, cmpQ_gt, cmpQ_lt]

theorem bounds_disjoint (u l : EP) (ou ol : Bool)
    (h : EP.cmp u l < 0 ∨ (EP.cmp u l = 0 ∧ (ou = true ∨ ol = true))) (x : α) :
    ¬ (upperOK u ou x ∧ lowerOK l ol x) := by
  rintro ⟨h1, h2⟩
  rcases u with _ | a | _ <;> rcases l with _ | b | _ <;> simp only [upperOK, lowerOK] at h1 h2 <;>
    (try exact h1) <;> (try exact h2) <;> (try (simp [EP.cmp] at h))
  rcases h with h | ⟨h, ho⟩
  · have hab : (a : α) < (b : α) := by exact_mod_cast (cmpQ_lt a b).1 h
    cases ou <;> cases ol <;> simp only [Bool.false_eq_true, if_false, if_true] at h1 h2 <;> linarith
  · have hab : a = b := (cmpQ_eq a b).1 h
    subst hab
    rcases ho with ho | ho <;> subst ho <;> cases ‹Bool› <;> simp only [Bool.false_eq_true, if_false, if_true] at h1 h2 <;> linarith

namespace VI

theorem mem_mk' (a b : EP) (ao bo : Bool) (x : α) : (mk' a ao b bo).Mem x ↔ lowerOK a ao x ∧ upperOK b bo x := by
  simp [Mem, mk', lower, upper]

theorem mem_construct (a b : EP) (ao bo : Bool) (h : EP.cmp a b ≠ 0) (x : α) :
    (construct a ao b bo).Mem x ↔ lowerOK a ao x ∧ upperOK b bo x := by
  unfold construct; rw [if_neg h]; exact mem_mk' a b ao bo x

theorem mem_point (v : EP) (x : α) : (point v).Mem x ↔ lowerOK v false x ∧ upperOK v false x := by
  simp [Mem, point, lower, upper]

/-- does the comparison result say "upper bound of I1 below / equal / above that of I2" -/
def ICmp.ubClass : ICmp → Int
  | .ltNo | .ltWith | .ltWithI1 => -1
  | .leqWithI2 | .eq | .geqWithI1 => 0
  | .gtWithI2 | .gtWith | .gtNo => 1

/-- what `C13_cmp` states about a result `(c, P)` -/
def CmpSpec (I1 I2 : VI) (r : ICmp × Option VI) : Prop :=
  (match r.2 with
   | none => ∀ x : α, ¬ (I1.Mem x ∧ I2.Mem x)
   | some p => ∀ x : α, p.Mem x ↔ (I1.Mem x ∧ I2.Mem x)) ∧
  ((r.1 = .ltNo ∨ r.1 = .gtNo) ↔ r.2 = none)

theorem cwiLt_spec (I1 I2 : VI) (hu : cmpUpper I1 I2 ≤ 0) (hl : cmpLower I1 I2 ≤ 0) :
    CmpSpec (α := α) I1 I2 (cwiLt I1 I2) ∧ ICmp.ubClass (cwiLt I1 I2).1 = -1 := by
  obtain ⟨u1, _⟩ := cmpUpper_sem (α := α) I1 I2
  obtain ⟨_, l2⟩ := cmpLower_sem (α := α) I1 I2
  -- the intersection is "lower bound of I2, upper bound of I1"
  have key : ∀ x : α, (I1.Mem x ∧ I2.Mem x) ↔ (lowerOK I2.lower I2.aOpen x ∧ upperOK I1.upper I1.bOpen x) := by
    intro x
    exact ⟨fun h => ⟨h.2.1, h.1.2⟩, fun h => ⟨⟨l2 hl x h.1, h.2⟩, ⟨h.1, u1 hu x h.2⟩⟩⟩
  unfold cwiLt
  split_ifs with h1 h2 h3
  · refine ⟨⟨?_, by simp⟩, rfl⟩
    intro x hx
    exact bounds_disjoint _ _ _ _ (Or.inr h1) x ⟨((key x).1 hx).2, ((key x).1 hx).1⟩
  · refine ⟨⟨?_, by simp⟩, rfl⟩
    intro x
    have hc : I1.bOpen = false ∧ I2.aOpen = false := by
      constructor <;> by_contra hh <;> exact h1 ⟨h2, by simp_all⟩
    have he : I1.upper = I2.lower := (EP.cmp_eq_zero _ _).1 h2
    rw [key x, mem_point]
    show lowerOK I2.lower false x ∧ upperOK I2.lower false x ↔ _
    rw [he, hc.1, hc.2]
  · refine ⟨⟨?_, by simp⟩, rfl⟩
    intro x hx
    exact bounds_disjoint _ _ _ _ (Or.inl h3) x ⟨((key x).1 hx).2, ((key x).1 hx).1⟩
  · refine ⟨⟨?_, by simp⟩, rfl⟩
    intro x
    have hne : EP.cmp I2.lower I1.upper ≠ 0 := by
      intro h0; exact h2 ((EP.cmp_eq_zero _ _).2 ((EP.cmp_eq_zero _ _).1 h0).symm)
    rw [mem_construct _ _ _ _ hne, key x]

theorem cwiGt_spec (I1 I2 : VI) (hu : cmpUpper I1 I2 ≥ 0) (hl : cmpLower I1 I2 ≥ 0) :
    CmpSpec (α := α) I1 I2 (cwiGt I1 I2) ∧ ICmp.ubClass (cwiGt I1 I2).1 = 1 := by
  obtain ⟨_, u2⟩ := cmpUpper_sem (α := α) I1 I2
  obtain ⟨l1, _⟩ := cmpLower_sem (α := α) I1 I2
  have key : ∀ x : α, (I1.Mem x ∧ I2.Mem x) ↔ (lowerOK I1.lower I1.aOpen x ∧ upperOK I2.upper I2.bOpen x) := by
    intro x
    exact ⟨fun h => ⟨h.1.1, h.2.2⟩, fun h => ⟨⟨h.1, u2 hu x h.2⟩, ⟨l1 hl x h.1, h.2⟩⟩⟩
  have dis : ∀ (hd : EP.cmp I1.lower I2.upper > 0 ∨ (EP.cmp I1.lower I2.upper = 0 ∧ (I1.aOpen = true ∨ I2.bOpen = true))) (x : α),
      ¬ (I1.Mem x ∧ I2.Mem x) := by
    intro hd x hx
    have hk := (key x).1 hx
    refine bounds_disjoint I2.upper I1.lower I2.bOpen I1.aOpen ?_ x ⟨hk.2, hk.1⟩
    rcases hd with hd | hd
    · exact Or.inl ((EP.cmp_antisymm _ _).1 hd)
    · exact Or.inr ⟨(EP.cmp_eq_zero _ _).2 ((EP.cmp_eq_zero _ _).1 hd.1).symm, hd.2.symm⟩
  unfold cwiGt
  split_ifs with h1 h2 h3
  · exact ⟨⟨dis (Or.inr h1), by simp⟩, rfl⟩
  · refine ⟨⟨?_, by simp⟩, rfl⟩
    intro x
    have hc : I1.aOpen = false ∧ I2.bOpen = false := by
      constructor <;> by_contra hh <;> exact h1 ⟨h2, by simp_all⟩
    have he : I1.lower = I2.upper := (EP.cmp_eq_zero _ _).1 h2
    rw [key x, mem_point]
    show lowerOK I1.lower false x ∧ upperOK I1.lower false x ↔ _
    rw [← he, hc.1, hc.2]
  · refine ⟨⟨?_, by simp⟩, rfl⟩
    intro x
    rw [mem_construct _ _ _ _ h2, key x]
  · refine ⟨⟨dis (Or.inl ?_), by simp⟩, rfl⟩
    have := h2
    omega

/-- `lp_interval_cmp_with_intersect`: the interval returned denotes the intersection (none exactly when the
    intervals are reported disjoint), and the result's name states the true relation of the upper bounds. -/
theorem C13_cmp (I1 I2 : VI) :
    CmpSpec (α := α) I1 I2 (cmpWithIntersect I1 I2) ∧
    sgnI (cmpUpper I1 I2) = ICmp.ubClass (cmpWithIntersect I1 I2).1 := by
  obtain ⟨u1, u2⟩ := cmpUpper_sem (α := α) I1 I2
  obtain ⟨l1, l2⟩ := cmpLower_sem (α := α) I1 I2
  have inI1 : cmpUpper I1 I2 ≤ 0 → cmpLower I1 I2 ≥ 0 → ∀ x : α, I1.Mem x ↔ (I1.Mem x ∧ I2.Mem x) := by
    intro hu hl x
    exact ⟨fun h => ⟨h, l1 hl x h.1, u1 hu x h.2⟩, fun h => h.1⟩
  have inI2 : cmpUpper I1 I2 ≥ 0 → cmpLower I1 I2 ≤ 0 → ∀ x : α, I2.Mem x ↔ (I1.Mem x ∧ I2.Mem x) := by
    intro hu hl x
    exact ⟨fun h => ⟨⟨l2 hl x h.1, u2 hu x h.2⟩, h⟩, fun h => h.2⟩
  have sg : ∀ z : Int, (z < 0 → sgnI z = -1) ∧ (z = 0 → sgnI z = 0) ∧ (z > 0 → sgnI z = 1) := by
    intro z; unfold sgnI; refine ⟨fun h => ?_, fun h => ?_, fun h => ?_⟩ <;> split_ifs <;> omega
  unfold cmpWithIntersect cwiCore
  split_ifs with h1 h2 h3 h4 h5 h6 h7 h8
  · exact ⟨⟨inI1 (by omega) (by omega), by simp⟩, (sg _).2.1 h1.1⟩
  · exact ⟨⟨inI1 (by omega) (by omega), by simp⟩, (sg _).1 h2.1⟩
  · exact ⟨⟨inI2 (by omega) (by omega), by simp⟩, (sg _).2.2 h3.1⟩
  · exact ⟨⟨inI1 (by omega) (by omega), by simp⟩, (sg _).2.1 h4.1⟩
  · exact ⟨⟨inI2 (by omega) (by omega), by simp⟩, (sg _).2.1 h5.1⟩
  · exact ⟨⟨inI2 (by omega) (by omega), by simp⟩, (sg _).2.2 h6.2⟩
  · exact ⟨⟨inI1 (by omega) (by omega), by simp⟩, (sg _).1 h7.2⟩
  · have hl : cmpLower I1 I2 ≤ 0 := by
      by_contra hc; push Not at hc; exact h2 ⟨h8, hc⟩
    obtain ⟨a, b⟩ := cwiLt_spec (α := α) I1 I2 h8.le hl
    exact ⟨a, by rw [b]; exact (sg _).1 h8⟩
  · have hu : cmpUpper I1 I2 > 0 := by
      by_contra hc
      have : cmpUpper I1 I2 = 0 := by omega
      rcases lt_trichotomy (cmpLower I1 I2) 0 with h | h | h
      · exact h5 ⟨this, h⟩
      · exact h1 ⟨this, h⟩
      · exact h4 ⟨this, h⟩
    have hl : cmpLower I1 I2 ≥ 0 := by
      by_contra hc; push Not at hc; exact h3 ⟨hu, hc⟩
    obtain ⟨a, b⟩ := cwiGt_spec (α := α) I1 I2 hu.le hl
    exact ⟨a, by rw [b]; exact (sg _).2.2 hu⟩

end VI

/-! ### interval lists -/
namespace FSet
open VI

variable (α)

/-- the set denoted by a list of intervals -/
def SetMem (s : List VI) (x : α) : Prop := ∃ I ∈ s, I.Mem x

/-- every point of `I` lies strictly below every point of `J` -/
def Sep (I J : VI) : Prop := ∀ x y : α, I.Mem x → J.Mem y → x < y

/-- the part of the normal form used by the sweeps: non-empty intervals, increasing and pairwise disjoint -/
def NFw (s : List VI) : Prop := (∀ I ∈ s, ∃ y : α, I.Mem y) ∧ s.Pairwise (Sep α)

variable {α}

theorem setMem_nil (x : α) : SetMem α [] x ↔ False := by simp [SetMem]
theorem setMem_cons (I : VI) (s : List VI) (x : α) : SetMem α (I :: s) x ↔ I.Mem x ∨ SetMem α s x := by
  simp [SetMem]
theorem setMem_reverse (s : List VI) (x : α) : SetMem α s.reverse x ↔ SetMem α s x := by
  simp [SetMem]

theorem lowerOK_mono (e : EP) (o : Bool) (x y : α) (h : lowerOK e o x) (hxy : x ≤ y) : lowerOK e o y := by
  rcases e with _ | q | _
  · trivial
  · simp only [lowerOK] at h ⊢
    cases o <;> simp only [Bool.false_eq_true, if_false, if_true] at h ⊢ <;> linarith
  · exact h

/-- if the upper bound of `I1` is not above that of `I2`, `I1` meets nothing that lies entirely above `I2` -/
theorem no_meet (I1 I2 J : VI) (hu : ∀ x : α, upperOK I1.upper I1.bOpen x → upperOK I2.upper I2.bOpen x)
    (hne : ∃ y : α, I2.Mem y) (hsep : Sep α I2 J) (x : α) : ¬ (I1.Mem x ∧ J.Mem x) := by
  rintro ⟨h1, hJ⟩
  have hux := hu x h1.2
  by_cases hl : lowerOK I2.lower I2.aOpen x
  · exact lt_irrefl x (hsep x x ⟨hl, hux⟩ hJ)
  · obtain ⟨y, hy⟩ := hne
    have hyx : y < x := hsep y x hy hJ
    exact hl (lowerOK_mono _ _ y x hy.1 hyx.le)

theorem no_meet_list (I1 I2 : VI) (r : List VI) (hu : ∀ x : α, upperOK I1.upper I1.bOpen x → upperOK I2.upper I2.bOpen x)
    (hne : ∃ y : α, I2.Mem y) (hsep : ∀ J ∈ r, Sep α I2 J) (x : α) : ¬ (I1.Mem x ∧ SetMem α r x) := by
  rintro ⟨h1, J, hJ, hm⟩
  exact no_meet I1 I2 J hu hne (hsep J hJ) x ⟨h1, hm⟩

private theorem advL_none {A i1 i2 s1 s2 : Prop} (hp : ¬ (i1 ∧ i2)) (h : ¬ (i1 ∧ s2)) :
    (A ∨ (s1 ∧ (i2 ∨ s2))) ↔ (A ∨ ((i1 ∨ s1) ∧ (i2 ∨ s2))) := by tauto
private theorem advL_some {A p i1 i2 s1 s2 : Prop} (hp : p ↔ i1 ∧ i2) (h : ¬ (i1 ∧ s2)) :
    ((p ∨ A) ∨ (s1 ∧ (i2 ∨ s2))) ↔ (A ∨ ((i1 ∨ s1) ∧ (i2 ∨ s2))) := by tauto
private theorem advB_some {A p i1 i2 s1 s2 : Prop} (hp : p ↔ i1 ∧ i2) (h : ¬ (i1 ∧ s2)) (h' : ¬ (i2 ∧ s1)) :
    ((p ∨ A) ∨ (s1 ∧ s2)) ↔ (A ∨ ((i1 ∨ s1) ∧ (i2 ∨ s2))) := by tauto
private theorem advR_some {A p i1 i2 s1 s2 : Prop} (hp : p ↔ i1 ∧ i2) (h' : ¬ (i2 ∧ s1)) :
    ((p ∨ A) ∨ ((i1 ∨ s1) ∧ s2)) ↔ (A ∨ ((i1 ∨ s1) ∧ (i2 ∨ s2))) := by tauto
private theorem advR_none {A i1 i2 s1 s2 : Prop} (hp : ¬ (i1 ∧ i2)) (h' : ¬ (i2 ∧ s1)) :
    (A ∨ ((i1 ∨ s1) ∧ s2)) ↔ (A ∨ ((i1 ∨ s1) ∧ (i2 ∨ s2))) := by tauto

private theorem sgn_cases (z : Int) : (sgnI z = -1 → z < 0) ∧ (sgnI z = 0 → z = 0) ∧ (sgnI z = 1 → z > 0) := by
  unfold sgnI; refine ⟨fun h => ?_, fun h => ?_, fun h => ?_⟩ <;> split_ifs at h <;> omega

/-- invariant of the intersection sweep -/
theorem intersectLoop_sem : ∀ (fuel : Nat) (s1 s2 acc : List VI) (a1 a2 : Bool),
    NFw α s1 → NFw α s2 → s1.length + s2.length ≤ fuel →
    ∀ x : α, SetMem α (intersectLoop fuel s1 s2 acc a1 a2).1 x ↔ (SetMem α acc x ∨ (SetMem α s1 x ∧ SetMem α s2 x)) := by
  intro fuel
  induction fuel with
  | zero =>
    intro s1 s2 acc a1 a2 _ _ hlen x
    have e1 : s1 = [] := List.length_eq_zero_iff.1 (by omega)
    have e2 : s2 = [] := List.length_eq_zero_iff.1 (by omega)
    subst e1; subst e2
    simp [intersectLoop, setMem_reverse, setMem_nil]
  | succ f ih =>
    intro s1 s2 acc a1 a2 n1 n2 hlen x
    cases s1 with
    | nil =>
      cases s2 with
      | nil => simp [intersectLoop, setMem_reverse, setMem_nil]
      | cons I2 r2 => simp [intersectLoop, setMem_reverse, setMem_nil]
    | cons I1 r1 =>
      cases s2 with
      | nil => simp [intersectLoop, setMem_reverse, setMem_nil]
      | cons I2 r2 =>
        obtain ⟨⟨hP, hnone⟩, hsg⟩ := C13_cmp (α := α) I1 I2
        obtain ⟨u1, u2⟩ := cmpUpper_sem (α := α) I1 I2
        have ne1 := n1.1 I1 List.mem_cons_self
        have ne2 := n2.1 I2 List.mem_cons_self
        have p1 := List.pairwise_cons.1 n1.2
        have p2 := List.pairwise_cons.1 n2.2
        have n1' : NFw α r1 := ⟨fun I hI => n1.1 I (List.mem_cons_of_mem _ hI), p1.2⟩
        have n2' : NFw α r2 := ⟨fun I hI => n2.1 I (List.mem_cons_of_mem _ hI), p2.2⟩
        simp only [List.length_cons] at hlen
        have sc := sgn_cases (cmpUpper I1 I2)
        -- I1 meets nothing after I2 when ub(I1) ≤ ub(I2); symmetrically for I2
        have noL : cmpUpper I1 I2 ≤ 0 → ¬ (I1.Mem x ∧ SetMem α r2 x) :=
          fun h => no_meet_list I1 I2 r2 (u1 h) ne2 p2.1 x
        have noR : cmpUpper I1 I2 ≥ 0 → ¬ (I2.Mem x ∧ SetMem α r1 x) :=
          fun h => no_meet_list I2 I1 r1 (u2 h) ne1 p1.1 x
        rw [intersectLoop]
        rw [setMem_cons I1 r1, setMem_cons I2 r2]
        split <;> rename_i hc
        all_goals (rw [hc] at hsg hnone; simp only [ICmp.ubClass] at hsg)
        · -- ltNo
          have hn : (cmpWithIntersect I1 I2).2 = none := hnone.1 (Or.inl rfl)
          rw [hn] at hP
          rw [ih r1 (I2 :: r2) acc false a2 n1' n2 (by simp only [List.length_cons]; omega) x, setMem_cons I2 r2]
          exact advL_none (hP x) (noL (sc.1 hsg).le)
        · -- ltWith
          have hs : (cmpWithIntersect I1 I2).2 ≠ none := fun h => by simpa using hnone.2 h
          obtain ⟨p, hp⟩ := Option.ne_none_iff_exists'.1 hs
          rw [hp] at hP ⊢
          rw [ih r1 (I2 :: r2) (p :: acc) false false n1' n2 (by simp only [List.length_cons]; omega) x, setMem_cons I2 r2, setMem_cons p acc]
          exact advL_some (hP x) (noL (sc.1 hsg).le)
        · -- ltWithI1
          have hs : (cmpWithIntersect I1 I2).2 ≠ none := fun h => by simpa using hnone.2 h
          obtain ⟨p, hp⟩ := Option.ne_none_iff_exists'.1 hs
          rw [hp] at hP ⊢
          rw [ih r1 (I2 :: r2) (p :: acc) a1 false n1' n2 (by simp only [List.length_cons]; omega) x, setMem_cons I2 r2, setMem_cons p acc]
          exact advL_some (hP x) (noL (sc.1 hsg).le)
        · -- leqWithI2
          have hs : (cmpWithIntersect I1 I2).2 ≠ none := fun h => by simpa using hnone.2 h
          obtain ⟨p, hp⟩ := Option.ne_none_iff_exists'.1 hs
          rw [hp] at hP ⊢
          rw [ih r1 r2 (p :: acc) false a2 n1' n2' (by omega) x, setMem_cons p acc]
          exact advB_some (hP x) (noL (sc.2.1 hsg).le) (noR (sc.2.1 hsg).ge)
        · -- eq
          have hs : (cmpWithIntersect I1 I2).2 ≠ none := fun h => by simpa using hnone.2 h
          obtain ⟨p, hp⟩ := Option.ne_none_iff_exists'.1 hs
          rw [hp] at hP ⊢
          rw [ih r1 r2 (p :: acc) a1 a2 n1' n2' (by omega) x, setMem_cons p acc]
          exact advB_some (hP x) (noL (sc.2.1 hsg).le) (noR (sc.2.1 hsg).ge)
        · -- geqWithI1
          have hs : (cmpWithIntersect I1 I2).2 ≠ none := fun h => by simpa using hnone.2 h
          obtain ⟨p, hp⟩ := Option.ne_none_iff_exists'.1 hs
          rw [hp] at hP ⊢
          rw [ih r1 r2 (p :: acc) a1 false n1' n2' (by omega) x, setMem_cons p acc]
          exact advB_some (hP x) (noL (sc.2.1 hsg).le) (noR (sc.2.1 hsg).ge)
        · -- gtWithI2
          have hs : (cmpWithIntersect I1 I2).2 ≠ none := fun h => by simpa using hnone.2 h
          obtain ⟨p, hp⟩ := Option.ne_none_iff_exists'.1 hs
          rw [hp] at hP ⊢
          rw [ih (I1 :: r1) r2 (p :: acc) false a2 n1 n2' (by simp only [List.length_cons]; omega) x, setMem_cons I1 r1, setMem_cons p acc]
          exact advR_some (hP x) (noR (sc.2.2 hsg).le)
        · -- gtWith
          have hs : (cmpWithIntersect I1 I2).2 ≠ none := fun h => by simpa using hnone.2 h
          obtain ⟨p, hp⟩ := Option.ne_none_iff_exists'.1 hs
          rw [hp] at hP ⊢
          rw [ih (I1 :: r1) r2 (p :: acc) false false n1 n2' (by simp only [List.length_cons]; omega) x, setMem_cons I1 r1, setMem_cons p acc]
          exact advR_some (hP x) (noR (sc.2.2 hsg).le)
        · -- gtNo
          have hn : (cmpWithIntersect I1 I2).2 = none := hnone.1 (Or.inr rfl)
          rw [hn] at hP
          rw [ih (I1 :: r1) r2 acc a1 false n1 n2' (by simp only [List.length_cons]; omega) x, setMem_cons I1 r1]
          exact advR_none (hP x) (noR (sc.2.2 hsg).le)

/-- Intersection of feasibility sets contains exactly the numbers contained in both operands. -/
theorem C13_intersect (s1 s2 : List VI) (n1 : NFw α s1) (n2 : NFw α s2) (x : α) :
    SetMem α (intersect s1 s2).1 x ↔ (SetMem α s1 x ∧ SetMem α s2 x) := by
  unfold intersect
  by_cases he : (s1.isEmpty || s2.isEmpty) = true
  · rw [if_pos he]
    simp only [Bool.or_eq_true, List.isEmpty_iff] at he
    rcases he with he | he <;> subst he <;> simp [setMem_nil]
  · rw [if_neg he]
    simp only
    rw [intersectLoop_sem _ s1 s2 [] true true n1 n2 (by omega) x]
    simp [setMem_nil]

theorem cmp_lower_ok (a : EP) (o : Bool) (q : Rat) :
    (¬ (o = true ∧ EP.cmp a (.fin q) ≥ 0) ∧ ¬ (o = false ∧ EP.cmp a (.fin q) > 0)) ↔ lowerOK a o ((q : ℚ) : α) := by
  rcases a with _ | a | _
  · simp [EP.cmp, lowerOK]
  · simp only [EP.cmp_fin, lowerOK]
    have h1 := cmpQ_lt a q
    have h2 := cmpQ_gt a q
    have h3 := cmpQ_eq a q
    have c1 : ((a : α) < (q : α)) ↔ a < q := Rat.cast_lt
    have c2 : ((a : α) ≤ (q : α)) ↔ a ≤ q := Rat.cast_le
    cases o <;> simp only [Bool.false_eq_true, if_false, if_true, false_and, not_false_eq_true, true_and, and_true, c1, c2]
    · rw [h2]; exact not_lt
    · rw [← h1]; omega
  · cases o <;> simp [EP.cmp, lowerOK]

theorem cmp_upper_ok (b : EP) (o : Bool) (q : Rat) :
    (¬ (o = true ∧ EP.cmp (.fin q) b ≥ 0) ∧ ¬ (o = false ∧ EP.cmp (.fin q) b > 0)) ↔ upperOK b o ((q : ℚ) : α) := by
  rcases b with _ | b | _
  · cases o <;> simp [EP.cmp, upperOK]
  · simp only [EP.cmp_fin, upperOK]
    have h1 := cmpQ_lt q b
    have h2 := cmpQ_gt q b
    have c1 : ((q : α) < (b : α)) ↔ q < b := Rat.cast_lt
    have c2 : ((q : α) ≤ (b : α)) ↔ q ≤ b := Rat.cast_le
    cases o <;> simp only [Bool.false_eq_true, if_false, if_true, false_and, not_false_eq_true, true_and, and_true, c1, c2]
    · rw [h2]; exact not_lt
    · rw [← h1]; omega
  · simp [EP.cmp, upperOK]

/-- membership test of one interval (`lp_interval_contains`, via `lp_interval_cmp_value`) for a finite value -/
theorem C13_contains_interval (I : VI) (q : Rat)
    (hw : I.isPoint = true → (∃ a, I.a = .fin a) ∧ I.aOpen = false ∧ I.bOpen = false) :
    VI.contains I (.fin q) = true ↔ I.Mem ((q : ℚ) : α) := by
  unfold VI.contains VI.cmpValue VI.Mem VI.lower VI.upper
  by_cases hp : I.isPoint = true
  · obtain ⟨⟨a, ha⟩, ho1, ho2⟩ := hw hp
    simp only [hp, if_true, ha, ho1, ho2, EP.cmp_fin, decide_eq_true_eq, cmpQ_eq, lowerOK, upperOK,
      Bool.false_eq_true, if_false]
    have c2 : ((a : α) ≤ (q : α)) ↔ a ≤ q := Rat.cast_le
    have c3 : ((q : α) ≤ (a : α)) ↔ q ≤ a := Rat.cast_le
    rw [c2, c3]
    exact ⟨fun h => by subst h; exact ⟨le_refl _, le_refl _⟩, fun h => le_antisymm h.1 h.2⟩
  · have hp' : I.isPoint = false := by simpa using hp
    simp only [hp', Bool.false_eq_true, if_false, decide_eq_true_eq]
    rw [← cmp_lower_ok (α := α) I.a I.aOpen q, ← cmp_upper_ok (α := α) I.b I.bOpen q]
    cases hao : I.aOpen <;> cases hbo : I.bOpen <;>
      simp only [Bool.false_eq_true, false_and, true_and, not_false_eq_true, not_true_eq_false, and_true, ge_iff_le, gt_iff_lt, not_le, not_lt] <;>
      split_ifs <;> simp_all <;> omega

/-! non-vacuity -/
example : NFw ℚ [VI.mk' .ninf true (.fin 0) false, VI.point (.fin 1)] := by
  refine ⟨?_, ?_⟩
  · intro I hI
    simp only [List.mem_cons, List.mem_nil_iff, or_false] at hI
    rcases hI with rfl | rfl
    · exact ⟨-1, by simp [VI.Mem, VI.mk', VI.lower, VI.upper, lowerOK, upperOK]⟩
    · exact ⟨1, by simp [VI.Mem, VI.point, VI.lower, VI.upper, lowerOK, upperOK]⟩
  · refine List.pairwise_cons.2 ⟨?_, List.pairwise_cons.2 ⟨fun _ h => absurd h (by simp), List.Pairwise.nil⟩⟩
    intro J hJ x y hx hy
    simp only [List.mem_cons, List.mem_nil_iff, or_false] at hJ
    subst hJ
    simp [VI.Mem, VI.mk', VI.point, VI.lower, VI.upper, lowerOK, upperOK] at hx hy
    linarith [hx, hy.1]

end FSet
end LP
