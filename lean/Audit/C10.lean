import LP.Props.C10
#print axioms LP.Eval.ievalM_encloses
#print axioms LP.Eval.refineAll_sound
#print axioms LP.Eval.signLoop_sound
#print axioms LP.Eval.C10_sign_sound
#print axioms LP.Eval.C10_consistent
#print axioms LP.QPoly.ievalC_encloses
