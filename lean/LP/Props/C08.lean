import LP.Props.C07
namespace LP
theorem C08_placeholder : True := trivial
end LP
