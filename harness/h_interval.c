/* C15 harness: rational and dyadic interval arithmetic.
 * First an exhaustive sweep over all intervals with end points in {-2..2}
 * (every open/closed pattern, points) and all pairs of them, then random intervals.
 * Destination kinds: f fresh point [0], p pre-used proper interval, a/b aliases.
 */
#include "common.h"
#include <poly.h>
#include <integer.h>
#include <rational.h>
#include <dyadic_rational.h>
#include <rational_interval.h>
#include <dyadic_interval.h>
#include "interval/arithmetic.h"
#include <value.h>
#include <interval.h>

/* an abstract interval description */
typedef struct { mpq_t a, b; int ao, bo, pt; } ival;

static void ival_init(ival* I) { mpq_init(I->a); mpq_init(I->b); I->ao = I->bo = 0; I->pt = 1; }
static void ival_clear(ival* I) { mpq_clear(I->a); mpq_clear(I->b); }

static void sb_ival(const ival* I) {
  if (I->pt) { sb_str("["); sb_mpq(I->a); sb_str("]"); return; }
  sb_str(I->ao ? "(" : "["); sb_mpq(I->a); sb_str(","); sb_mpq(I->b); sb_str(I->bo ? ")" : "]");
}
static void sb_qi(const lp_rational_interval_t* I) {
  if (I->is_point) { sb_str("["); sb_mpq(&I->a); sb_str("]"); return; }
  sb_str(I->a_open ? "(" : "["); sb_mpq(&I->a); sb_str(","); sb_mpq(&I->b); sb_str(I->b_open ? ")" : "]");
}
static void sb_dyq(const lp_dyadic_rational_t* d) { sb_mpz(&d->a); sb_str("@"); sb_ulong(d->n); }
static void sb_di(const lp_dyadic_interval_t* I) {
  if (I->is_point) { sb_str("["); sb_dyq(&I->a); sb_str("]"); return; }
  sb_str(I->a_open ? "(" : "["); sb_dyq(&I->a); sb_str(","); sb_dyq(&I->b); sb_str(I->b_open ? ")" : "]");
}

static void qi_from(lp_rational_interval_t* R, const ival* I) {
  if (I->pt) lp_rational_interval_construct_point(R, I->a);
  else lp_rational_interval_construct(R, I->a, I->ao, I->b, I->bo);
}
/* dyadic version: only valid when the end points are dyadic */
static void dy_from_q(lp_dyadic_rational_t* d, const mpq_t q) {
  lp_dyadic_rational_t t; lp_dyadic_rational_construct_from_integer(&t, mpq_numref(q));
  unsigned long n = mpz_scan1(mpq_denref(q), 0);
  lp_dyadic_rational_construct(d);
  lp_dyadic_rational_div_2exp(d, &t, n);
  lp_dyadic_rational_destruct(&t);
}
static void di_from(lp_dyadic_interval_t* R, const ival* I) {
  lp_dyadic_rational_t a, b; dy_from_q(&a, I->a);
  if (I->pt) { lp_dyadic_interval_construct_point(R, &a); }
  else { dy_from_q(&b, I->b); lp_dyadic_interval_construct(R, &a, I->ao, &b, I->bo); lp_dyadic_rational_destruct(&b); }
  lp_dyadic_rational_destruct(&a);
}

static const char* OPS2[] = { "add", "sub", "mul" };

static void run_bin_qi(int op, const ival* X, const ival* Y, int dk) {
  lp_rational_interval_t A, B, F, P;
  qi_from(&A, X); qi_from(&B, Y);
  lp_rational_interval_construct_zero(&F);
  { mpq_t pa, pb; mpq_init(pa); mpq_init(pb); mpq_set_si(pa, -7, 2); mpq_set_si(pb, 11, 3); lp_rational_interval_construct(&P, pa, 1, pb, 0); mpq_clear(pa); mpq_clear(pb); }
  lp_rational_interval_t* out = dk == 0 ? &F : dk == 1 ? &P : dk == 2 ? &A : &B;
  char dest[2] = { "fpab"[dk], 0 };
  sb_begin("qi", OPS2[op]); sb_sp(); sb_str(dest); sb_sp(); sb_ival(X); sb_sp(); sb_ival(Y); sb_arrow();
  if (op == 0) rational_interval_add(out, &A, &B); else if (op == 1) rational_interval_sub(out, &A, &B); else rational_interval_mul(out, &A, &B);
  sb_sp(); sb_qi(out); sb_emit();
  lp_rational_interval_destruct(&A); lp_rational_interval_destruct(&B); lp_rational_interval_destruct(&F); lp_rational_interval_destruct(&P);
}
static void run_bin_di(int op, const ival* X, const ival* Y, int dk) {
  lp_dyadic_interval_t A, B, F, P;
  di_from(&A, X); di_from(&B, Y);
  lp_dyadic_interval_construct_zero(&F);
  lp_dyadic_interval_construct_from_int(&P, -7, 1, 11, 0);
  lp_dyadic_interval_t* out = dk == 0 ? &F : dk == 1 ? &P : dk == 2 ? &A : &B;
  char dest[2] = { "fpab"[dk], 0 };
  sb_begin("di", OPS2[op]); sb_sp(); sb_str(dest); sb_sp(); sb_ival(X); sb_sp(); sb_ival(Y); sb_arrow();
  if (op == 0) dyadic_interval_add(out, &A, &B); else if (op == 1) dyadic_interval_sub(out, &A, &B); else dyadic_interval_mul(out, &A, &B);
  sb_sp(); sb_di(out); sb_emit();
  lp_dyadic_interval_destruct(&A); lp_dyadic_interval_destruct(&B); lp_dyadic_interval_destruct(&F); lp_dyadic_interval_destruct(&P);
}
/* unary: op 0 neg, 1 pow n, 2 sgn */
static void run_un_qi(int op, const ival* X, unsigned n, int dk) {
  lp_rational_interval_t A, F, P;
  qi_from(&A, X);
  lp_rational_interval_construct_zero(&F);
  { mpq_t pa, pb; mpq_init(pa); mpq_init(pb); mpq_set_si(pa, -7, 2); mpq_set_si(pb, 11, 3); lp_rational_interval_construct(&P, pa, 1, pb, 0); mpq_clear(pa); mpq_clear(pb); }
  lp_rational_interval_t* out = dk == 0 ? &F : dk == 1 ? &P : &A;
  char dest[2] = { "fpa"[dk], 0 };
  if (op == 0) {
    sb_begin("qi", "neg"); sb_sp(); sb_str(dest); sb_sp(); sb_ival(X); sb_arrow();
    rational_interval_neg(out, &A); sb_sp(); sb_qi(out); sb_emit();
  } else if (op == 1) {
    sb_begin("qi", "pow"); sb_sp(); sb_str(dest); sb_sp(); sb_ival(X); sb_sp(); sb_ulong(n); sb_arrow();
    rational_interval_pow(out, &A, n); sb_sp(); sb_qi(out); sb_emit();
  } else {
    sb_begin("qi", "sgn"); sb_str(" -"); sb_sp(); sb_ival(X); sb_arrow();
    sb_sp(); sb_long(lp_rational_interval_sgn(&A)); sb_emit();
  }
  lp_rational_interval_destruct(&A); lp_rational_interval_destruct(&F); lp_rational_interval_destruct(&P);
}
static void run_un_di(int op, const ival* X, unsigned n, int dk) {
  lp_dyadic_interval_t A, F, P;
  di_from(&A, X);
  lp_dyadic_interval_construct_zero(&F);
  lp_dyadic_interval_construct_from_int(&P, -7, 1, 11, 0);
  lp_dyadic_interval_t* out = dk == 0 ? &F : dk == 1 ? &P : &A;
  char dest[2] = { "fpa"[dk], 0 };
  if (op == 0) {
    sb_begin("di", "neg"); sb_sp(); sb_str(dest); sb_sp(); sb_ival(X); sb_arrow();
    dyadic_interval_neg(out, &A); sb_sp(); sb_di(out); sb_emit();
  } else if (op == 1) {
    sb_begin("di", "pow"); sb_sp(); sb_str(dest); sb_sp(); sb_ival(X); sb_sp(); sb_ulong(n); sb_arrow();
    dyadic_interval_pow(out, &A, n); sb_sp(); sb_di(out); sb_emit();
  } else {
    sb_begin("di", "sgn"); sb_str(" -"); sb_sp(); sb_ival(X); sb_arrow();
    sb_sp(); sb_long(lp_dyadic_interval_sgn(&A)); sb_emit();
  }
  lp_dyadic_interval_destruct(&A); lp_dyadic_interval_destruct(&F); lp_dyadic_interval_destruct(&P);
}

/* ---- exhaustive small scope: end points -2..2 ---- */
#define NSMALL 45
static ival small[NSMALL];
static void build_small(void) {
  int k = 0;
  for (int a = -2; a <= 2; ++a) { ival_init(&small[k]); mpq_set_si(small[k].a, a, 1); mpq_set_si(small[k].b, a, 1); small[k].pt = 1; ++k; }
  for (int a = -2; a <= 2; ++a) for (int b = a + 1; b <= 2; ++b) for (int f = 0; f < 4; ++f) {
    ival_init(&small[k]); mpq_set_si(small[k].a, a, 1); mpq_set_si(small[k].b, b, 1); small[k].pt = 0; small[k].ao = f & 1; small[k].bo = f >> 1; ++k; }
}
/* number of exhaustive cases: pairs x 3 ops + singles x (neg + 5 pows + sgn), for qi and di */
#define EXH_PAIRS (NSMALL * NSMALL * 3)
#define EXH_UN (NSMALL * 7)
#define EXH_TOTAL (2 * (EXH_PAIRS + EXH_UN))

static void exhaustive_case(long i) {
  int dy = 0;
  if (i >= EXH_PAIRS + EXH_UN) { dy = 1; i -= EXH_PAIRS + EXH_UN; }
  int dk = (int)rnd(4);
  if (i < EXH_PAIRS) {
    int op = (int)(i % 3); long r = i / 3; int x = (int)(r % NSMALL), y = (int)(r / NSMALL);
    if (dy) run_bin_di(op, &small[x], &small[y], dk); else run_bin_qi(op, &small[x], &small[y], dk);
  } else {
    i -= EXH_PAIRS;
    int x = (int)(i % NSMALL); int w = (int)(i / NSMALL);
    int op = w == 0 ? 0 : w == 6 ? 2 : 1; unsigned n = (unsigned)(w - 1);
    if (dk == 3) dk = 2;
    if (dy) run_un_di(op, &small[x], n, dk); else run_un_qi(op, &small[x], n, dk);
  }
}

/* ---- random intervals: end points from a small pool so that ties are frequent ---- */
static void gen_endpoint(mpq_t q, int dyadic) {
  unsigned k = rnd(100);
  if (k < 50) mpq_set_si(q, rnd_in(-4, 4), 1);
  else if (k < 75) { mpq_set_si(q, rnd_in(-12, 12), 1); mpq_div_2exp(q, q, rnd(4)); }
  else if (k < 90 && !dyadic) { mpq_set_si(q, rnd_in(-12, 12), 1 + rnd(7)); mpq_canonicalize(q); }
  else { mpz_t z; mpz_init(z); gen_mpz(z); mpq_set_z(q, z); mpq_div_2exp(q, q, rnd(70)); mpz_clear(z); }
}
static void gen_ival(ival* I, int dyadic) {
  gen_endpoint(I->a, dyadic);
  if (chance(25)) { I->pt = 1; mpq_set(I->b, I->a); I->ao = I->bo = 0; return; }
  gen_endpoint(I->b, dyadic);
  if (chance(20)) mpq_neg(I->b, I->a);            /* symmetric around 0 */
  int c = mpq_cmp(I->a, I->b);
  if (c == 0) { I->pt = 1; I->ao = I->bo = 0; return; }
  if (c > 0) mpq_swap(I->a, I->b);
  I->pt = 0; I->ao = rnd(2); I->bo = rnd(2);
}
static void ofint_case(void) {
  long a = rnd_in(-5, 5), b = rnd_in(-5, 5);
  if (a > b) { long t = a; a = b; b = t; }
  int ao = a == b ? 0 : (int)rnd(2), bo = a == b ? 0 : (int)rnd(2);
  sb_begin("qi", "ofint"); sb_str(" f "); sb_long(a); sb_sp(); sb_long(ao); sb_sp(); sb_long(b); sb_sp(); sb_long(bo); sb_arrow();
  lp_rational_interval_t R; lp_rational_interval_construct_from_int(&R, a, ao, b, bo);
  sb_sp(); sb_qi(&R); sb_emit(); lp_rational_interval_destruct(&R);
  sb_begin("di", "ofint"); sb_str(" f "); sb_long(a); sb_sp(); sb_long(ao); sb_sp(); sb_long(b); sb_sp(); sb_long(bo); sb_arrow();
  lp_dyadic_interval_t D; lp_dyadic_interval_construct_from_int(&D, a, ao, b, bo);
  sb_sp(); sb_di(&D); sb_emit(); lp_dyadic_interval_destruct(&D);
}
static void random_case(void) {
  if (chance(2)) { ofint_case(); return; }
  int dy = rnd(2);
  ival X, Y; ival_init(&X); ival_init(&Y);
  gen_ival(&X, dy); gen_ival(&Y, dy);
  if (chance(10)) { mpq_set(Y.a, X.a); mpq_set(Y.b, X.b); Y.pt = X.pt; Y.ao = X.pt ? 0 : rnd(2); Y.bo = X.pt ? 0 : rnd(2); }
  unsigned op = rnd(6);
  int dk = rnd(4);
  if (op < 3) { if (dy) run_bin_di(op, &X, &Y, dk); else run_bin_qi(op, &X, &Y, dk); }
  else {
    int u = op == 3 ? 0 : op == 4 ? 1 : 2;
    unsigned n = rnd(7);
    if (dk == 3) dk = 2;
    if (dy) run_un_di(u, &X, n, dk); else run_un_qi(u, &X, n, dk);
  }
  ival_clear(&X); ival_clear(&Y);
}


/* ---- general value intervals (lp_interval_t): integer / dyadic / rational / infinite end points ---- */
typedef struct { mpq_t a, b; int ao, bo, pt, ainf, binf, kind_a, kind_b; } vival;
static void vival_init(vival* I) { mpq_init(I->a); mpq_init(I->b); I->ao = I->bo = 0; I->pt = 1; I->ainf = I->binf = 0; I->kind_a = I->kind_b = 0; }
static void vival_clear(vival* I) { mpq_clear(I->a); mpq_clear(I->b); }
/* value of kind 0 integer (if integral) / 1 dyadic (if dyadic) / 2 rational, representing q */
static void value_from_q(lp_value_t* v, const mpq_t q, int kind) {
  if (kind == 0 && mpz_cmp_ui(mpq_denref(q), 1) == 0) { lp_value_construct(v, LP_VALUE_INTEGER, mpq_numref(q)); return; }
  if (kind <= 1 && mpz_popcount(mpq_denref(q)) == 1) { lp_dyadic_rational_t d; dy_from_q(&d, q); lp_value_construct(v, LP_VALUE_DYADIC_RATIONAL, &d); lp_dyadic_rational_destruct(&d); return; }
  lp_value_construct(v, LP_VALUE_RATIONAL, q);
}
static void vi_from(lp_interval_t* R, const vival* I) {
  lp_value_t a, b;
  if (I->ainf) lp_value_construct(&a, LP_VALUE_MINUS_INFINITY, 0); else value_from_q(&a, I->a, I->kind_a);
  if (I->pt) { lp_interval_construct_point(R, &a); lp_value_destruct(&a); return; }
  if (I->binf) lp_value_construct(&b, LP_VALUE_PLUS_INFINITY, 0); else value_from_q(&b, I->b, I->kind_b);
  lp_interval_construct(R, &a, I->ao, &b, I->bo);
  lp_value_destruct(&a); lp_value_destruct(&b);
}
static void sb_val(const lp_value_t* v) {
  if (v->type == LP_VALUE_MINUS_INFINITY) { sb_str("-inf"); return; }
  if (v->type == LP_VALUE_PLUS_INFINITY) { sb_str("+inf"); return; }
  if (v->type == LP_VALUE_NONE) { sb_str("none"); return; }
  if (lp_value_is_rational(v)) { lp_rational_t q; lp_rational_construct(&q); lp_value_get_rational(v, &q); sb_mpq(&q); lp_rational_destruct(&q); return; }
  sb_str("alg");
}
static void sb_vi(const lp_interval_t* I) {
  if (I->is_point) { sb_str("["); sb_val(&I->a); sb_str("]"); return; }
  sb_str(I->a_open ? "(" : "["); sb_val(&I->a); sb_str(","); sb_val(&I->b); sb_str(I->b_open ? ")" : "]");
}
static void sb_vival(const vival* I) {
  if (I->pt) { sb_str("["); sb_mpq(I->a); sb_str("]"); return; }
  sb_str(I->ao ? "(" : "["); if (I->ainf) sb_str("-inf"); else sb_mpq(I->a); sb_str(",");
  if (I->binf) sb_str("+inf"); else sb_mpq(I->b); sb_str(I->bo ? ")" : "]");
}
static void gen_vival(vival* I) {
  I->kind_a = (int)rnd(3); I->kind_b = (int)rnd(3);
  unsigned k = rnd(100);
  mpq_set_si(I->a, rnd_in(-3, 3), 1); if (chance(30)) mpq_div_2exp(I->a, I->a, 1); if (chance(10)) { mpq_set_si(I->a, rnd_in(-7, 7), 3); mpq_canonicalize(I->a); }
  if (k < 20) { I->pt = 1; I->ao = I->bo = 0; I->ainf = I->binf = 0; mpq_set(I->b, I->a); return; }
  I->pt = 0;
  mpq_set_si(I->b, rnd_in(-3, 3), 1); if (chance(30)) mpq_div_2exp(I->b, I->b, 1);
  if (chance(20)) mpq_neg(I->b, I->a);
  I->ainf = chance(12); I->binf = chance(12);
  if (!I->ainf && !I->binf) { int c = mpq_cmp(I->a, I->b); if (c == 0) { mpq_t one; mpq_init(one); mpq_set_ui(one, 1, 1); mpq_add(I->b, I->b, one); mpq_clear(one); } else if (c > 0) mpq_swap(I->a, I->b); }
  I->ao = I->ainf ? 1 : (int)rnd(2); I->bo = I->binf ? 1 : (int)rnd(2);
}
static void vi_case(void) {
  vival X, Y; vival_init(&X); vival_init(&Y); gen_vival(&X); gen_vival(&Y);
  lp_interval_t A, B, F, P;
  vi_from(&A, &X); vi_from(&B, &Y);
  lp_interval_construct_zero(&F);
  { lp_value_t l, u; lp_integer_t z; lp_integer_construct_from_int(lp_Z, &z, -9); lp_value_construct(&l, LP_VALUE_INTEGER, &z); lp_integer_assign_int(lp_Z, &z, 9);
    lp_value_construct(&u, LP_VALUE_INTEGER, &z); lp_interval_construct(&P, &l, 1, &u, 0); lp_value_destruct(&l); lp_value_destruct(&u); lp_integer_destruct(&z); }
  int dk = (int)rnd(4);
  lp_interval_t* out = dk == 0 ? &F : dk == 1 ? &P : dk == 2 ? &A : &B;
  char dest[2] = { "fpab"[dk], 0 };
  unsigned op = rnd(5);
  if (op == 0 || op == 1) {
    sb_begin("vi", op == 0 ? "add" : "mul"); sb_sp(); sb_str(dest); sb_sp(); sb_vival(&X); sb_sp(); sb_vival(&Y); sb_arrow();
    if (op == 0) lp_interval_add(out, &A, &B); else lp_interval_mul(out, &A, &B);
    sb_sp(); sb_vi(out); sb_emit();
  } else if (op == 2 || op == 3) {
    if (dk == 3) { out = &A; dest[0] = 'a'; }
    unsigned n = rnd(6);
    sb_begin("vi", "pow"); sb_sp(); sb_str(dest); sb_sp(); sb_vival(&X); sb_sp(); sb_ulong(n); sb_arrow();
    lp_interval_pow(out, &A, n); sb_sp(); sb_vi(out); sb_emit();
  } else {
    sb_begin("vi", "sgn"); sb_str(" -"); sb_sp(); sb_vival(&X); sb_arrow(); sb_sp(); sb_long(lp_interval_sgn(&A)); sb_emit();
  }
  lp_interval_destruct(&A); lp_interval_destruct(&B); lp_interval_destruct(&F); lp_interval_destruct(&P);
  vival_clear(&X); vival_clear(&Y);
}

/* ---- life cycle of lp_interval_t objects: every object is re-used as an output after every kind of history
 *   vil copy <src> => <dst after assign / construct_copy / swap>
 *   vil seta|setb <I> <v> <open> => <I after>      vil collapse <I> <v> => <I after>
 */
static void vil_case(void) {
  lp_interval_t P[3]; vival V[3];
  for (int i = 0; i < 3; ++i) { vival_init(&V[i]); gen_vival(&V[i]); vi_from(&P[i], &V[i]); }
  int steps = 3 + (int)rnd(8);
  for (int s = 0; s < steps; ++s) {
    unsigned k = rnd(100); int i = (int)rnd(3), j = (int)rnd(3);
    if (k < 30) {                              /* assign (every combination of point / proper history) */
      sb_begin("vil", "copy"); sb_sp(); sb_vi(&P[j]); sb_arrow();
      lp_interval_assign(&P[i], &P[j]);
      sb_sp(); sb_vi(&P[i]); sb_emit();
    } else if (k < 42) {                       /* construct_copy + swap */
      lp_interval_t T; lp_interval_construct_copy(&T, &P[j]);
      sb_begin("vil", "copy"); sb_sp(); sb_vi(&P[j]); sb_arrow();
      lp_interval_swap(&T, &P[i]);
      sb_sp(); sb_vi(&P[i]); sb_emit();
      lp_interval_destruct(&T);
    } else if (k < 52) {                       /* swap two pool objects */
      if (i == j) continue;
      sb_begin("vil", "copy"); sb_sp(); sb_vi(&P[j]); sb_arrow();
      lp_interval_swap(&P[i], &P[j]);
      sb_sp(); sb_vi(&P[i]); sb_emit();
    } else if (k < 70) {                       /* collapse to a point */
      vival W; vival_init(&W); gen_vival(&W); lp_value_t v; value_from_q(&v, W.a, W.kind_a);
      sb_begin("vil", "collapse"); sb_sp(); sb_vi(&P[i]); sb_sp(); sb_val(&v); sb_arrow();
      lp_interval_collapse_to(&P[i], &v);
      sb_sp(); sb_vi(&P[i]); sb_emit();
      lp_value_destruct(&v); vival_clear(&W);
    } else if (k < 86) {                       /* set one end of a proper interval, keeping a < b */
      int lower = chance(50);
      vival W; vival_init(&W); gen_vival(&W); lp_value_t v; value_from_q(&v, W.a, W.kind_a);
      int ok = lower ? lp_value_cmp(&v, P[i].is_point ? &P[i].a : &P[i].b) < 0 : lp_value_cmp(&P[i].a, &v) < 0;
      if (ok) {
        int open = (int)rnd(2);
        sb_begin("vil", lower ? "seta" : "setb"); sb_sp(); sb_vi(&P[i]); sb_sp(); sb_val(&v); sb_sp(); sb_long(open); sb_arrow();
        if (lower) lp_interval_set_a(&P[i], &v, open); else lp_interval_set_b(&P[i], &v, open);
        sb_sp(); sb_vi(&P[i]); sb_emit();
      }
      lp_value_destruct(&v); vival_clear(&W);
    } else {                                   /* arithmetic into a pool object */
      int a = (int)rnd(3), b = (int)rnd(3);
      if (P[a].is_point == 0 && (P[a].a.type == LP_VALUE_MINUS_INFINITY || P[a].b.type == LP_VALUE_PLUS_INFINITY)) continue;
      if (P[b].is_point == 0 && (P[b].a.type == LP_VALUE_MINUS_INFINITY || P[b].b.type == LP_VALUE_PLUS_INFINITY)) continue;
      int add = chance(50);
      sb_begin("vi", add ? "add" : "mul"); sb_sp(); sb_str(i == a ? "a" : i == b ? "b" : "p"); sb_sp(); sb_vi(&P[a]); sb_sp(); sb_vi(&P[b]); sb_arrow();
      if (add) lp_interval_add(&P[i], &P[a], &P[b]); else lp_interval_mul(&P[i], &P[a], &P[b]);
      sb_sp(); sb_vi(&P[i]); sb_emit();
    }
  }
  for (int i = 0; i < 3; ++i) { lp_interval_destruct(&P[i]); vival_clear(&V[i]); }
}

int main(int argc, char** argv) {
  uint64_t seed = argc > 1 ? strtoull(argv[1], 0, 10) : 1;
  long n = argc > 2 ? atol(argv[2]) : 1000;
  long only = argc > 3 ? atol(argv[3]) : -1;
  long start = argc > 4 ? atol(argv[4]) : 0;
  lpv_init();
  build_small();
  long total = EXH_TOTAL + n;
  for (long i = 0; i < total; ++i) {
    if ((only >= 0 && i != only) || i < start) continue;
    lpv_begin_case(seed, i);
    if (i < EXH_TOTAL) exhaustive_case(i); else if (chance(12)) vil_case(); else if (chance(40)) vi_case(); else random_case();
  }
  for (int k = 0; k < NSMALL; ++k) ival_clear(&small[k]);
  free(sb_buf);
  return 0;
}
