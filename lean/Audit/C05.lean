import LP.Props.C05
#print axioms LP.C05_placeholder
