/* C09 harness: histories over a pool of values.  Numbers are refined in place behind const interfaces; after EVERY
 * call the raw state of every tracked object (pool values, copies taken at random times, the values stored in an
 * assignment) is dumped if it changed, next to the representation the object had when it was created:
 *   hist step <op> <n> (<id> <init> <now>)*n => -
 * The driver checks that <now> is a sound representation and denotes exactly the same real as <init>.
 * Observations made along the way are emitted as ordinary `val` lines and validated exactly (C07/C08 oracles), so a
 * repeated observation can only repeat the same answer.
 */
#define LPV_CASE_TIMEOUT 90
#include "halg.h"
#include <assignment.h>
#include <feasibility_set.h>
#include <sign_condition.h>

#define MAXT 24
typedef struct { int live; int in_assignment; lp_value_t v; lp_variable_t x; char* init; char* last; } tracked;
static tracked T[MAXT]; static int nt;
static lp_assignment_t* M;

static const long hblocks[][5] = {
  {2, -2, 0, 1}, {2, -3, 0, 1}, {2, -1, -1, 1}, {2, -1, 0, 2}, {2, 5, -16, 3}, {3, -2, 0, 0, 1}, {2, -5, 0, 1}, {3, 1, -3, 0, 1}, {2, -8, 0, 1}, {2, -2, -2, 1},
};
#define NHBLOCKS (sizeof hblocks / sizeof hblocks[0])

static const lp_value_t* tval(int i) { return T[i].in_assignment ? lp_assignment_get_value(M, T[i].x) : &T[i].v; }

static char* tok_of(const lp_value_t* v) { sb_reset(); sb_val(v); return strdup(sb_buf); }

static int track_value(const lp_value_t* v, const char* init) {
  if (nt >= MAXT) return -1;
  tracked* t = &T[nt]; t->live = 1; t->in_assignment = 0;
  lp_value_construct_copy(&t->v, v);
  t->last = tok_of(&t->v);
  t->init = strdup(init ? init : t->last);
  return nt++;
}

static void add_roots(const long* b) {
  lp_upolynomial_t* f = lp_upolynomial_construct_from_long(lp_Z, b[0], b + 1);
  lp_algebraic_number_t roots[4]; size_t n = 0;
  lp_upolynomial_roots_isolate(f, roots, &n);
  for (size_t i = 0; i < n; ++i) {
    lp_value_t v; lp_value_construct(&v, LP_VALUE_ALGEBRAIC, &roots[i]);
    if (nt < 8) track_value(&v, 0);
    lp_value_destruct(&v); lp_algebraic_number_destruct(&roots[i]);
  }
  lp_upolynomial_delete(f);
}

static void add_rational(long num, unsigned long den, int as_alg) {
  lp_rational_t q; lp_rational_construct_from_int(&q, num, den);
  lp_value_t v;
  if (as_alg) { lp_algebraic_number_t a; lp_algebraic_number_construct_from_rational(&a, &q); lp_value_construct(&v, LP_VALUE_ALGEBRAIC, &a); lp_algebraic_number_destruct(&a); }
  else lp_value_construct(&v, LP_VALUE_RATIONAL, &q);
  track_value(&v, 0);
  lp_value_destruct(&v); lp_rational_destruct(&q);
}

static int alg_degree(const lp_value_t* v);

/* the same number as T[i], represented through a different (reducible) defining polynomial */
static void add_alias(int i) {
  if (T[i].v.type != LP_VALUE_ALGEBRAIC || !T[i].v.value.a.f || nt >= MAXT - 4) return;
  /* cofactors of either sign on the pool's range (|x| < 7): the cached end-point signs of the reducible polynomial and of the
     gcd that an equal comparison installs then differ */
  static const long extras[][4] = { {2, 3, 1, 1}, {1, -7, 1}, {1, 7, 1}, {2, -50, 0, 1}, {2, -3, -1, -1}, {1, 7, -1} };
  const long* ex = extras[rnd(6)];
  lp_upolynomial_t* e = lp_upolynomial_construct_from_long(lp_Z, ex[0], ex + 1);
  lp_upolynomial_t* g = lp_upolynomial_mul(T[i].v.value.a.f, e);
  size_t d = lp_upolynomial_degree(g), n = 0;
  lp_algebraic_number_t* roots = (lp_algebraic_number_t*)malloc((d + 1) * sizeof(lp_algebraic_number_t));
  lp_upolynomial_roots_isolate(g, roots, &n);
  for (size_t k = 0; k < n; ++k) {
    lp_algebraic_number_t c1, c2; lp_algebraic_number_construct_copy(&c1, &roots[k]); lp_algebraic_number_construct_copy(&c2, &T[i].v.value.a);
    int same = lp_algebraic_number_cmp(&c1, &c2) == 0;
    lp_algebraic_number_destruct(&c1); lp_algebraic_number_destruct(&c2);
    if (same) { lp_value_t v; lp_value_construct(&v, LP_VALUE_ALGEBRAIC, &roots[k]); track_value(&v, T[i].init); lp_value_destruct(&v); }
    lp_algebraic_number_destruct(&roots[k]);
  }
  free(roots); lp_upolynomial_delete(g); lp_upolynomial_delete(e);
}

/* a number that is secretly the dyadic N/2^k: root of (2^k x - N)(x^2 + 1), kept as a proper algebraic number */
static long hid_N; static unsigned hid_k; static int hid_slot;
static int add_hidden_dyadic(void) {
  hid_k = 22 + rnd(18); hid_N = (long)((3ul << (hid_k - 2)) + 1 + 2 * rnd(1000));     /* odd, about 3/4 */
  long c1[2] = { -hid_N, 1L << hid_k }, c2[3] = { 1, 0, 1 };
  lp_upolynomial_t* f1 = lp_upolynomial_construct_from_long(lp_Z, 1, c1);
  lp_upolynomial_t* f2 = lp_upolynomial_construct_from_long(lp_Z, 2, c2);
  lp_upolynomial_t* f = lp_upolynomial_mul(f1, f2);
  lp_algebraic_number_t roots[3]; size_t n = 0;
  lp_upolynomial_roots_isolate(f, roots, &n);
  int idx = -1;
  if (n == 1) { lp_value_t v; lp_value_construct(&v, LP_VALUE_ALGEBRAIC, &roots[0]); idx = track_value(&v, 0); lp_value_destruct(&v); }
  for (size_t i = 0; i < n; ++i) lp_algebraic_number_destruct(&roots[i]);
  lp_upolynomial_delete(f); lp_upolynomial_delete(f1); lp_upolynomial_delete(f2);
  return idx;
}

static void build(void) {
  nt = 0; hid_slot = -1;
  M = lp_assignment_new(hp_db);
  add_roots(hblocks[rnd(NHBLOCKS)]);
  add_roots(hblocks[rnd(NHBLOCKS)]);
  if (chance(50)) add_roots(hblocks[rnd(NHBLOCKS)]);
  add_rational(rnd_in(-5, 5), 1 + rnd(4), chance(60));
  if (chance(60)) add_rational(rnd_in(-9, 9), 1ul << rnd(4), chance(50));
  if (chance(70)) add_alias(rnd(nt));
  int hid = chance(45) ? add_hidden_dyadic() : -1;
  /* assignment x0, x1, x2 := copies of pool values */
  int np = nt;
  for (int k = 0; k < 3 && nt < MAXT; ++k) {
    int src = rnd(np);
    if (k == 2 && hid >= 0) { src = hid; hid_slot = 2; }
    for (int t = 0; t < 20 && alg_degree(&T[src].v) > (k == 0 ? 3 : 2); ++t) src = rnd(np);   /* keep the eliminations small */
    if (alg_degree(&T[src].v) > 3) src = np - 1;
    if (k == 2 && hid >= 0) src = hid;
    lp_assignment_set_value(M, hp_x[k], &T[src].v);
    tracked* t = &T[nt]; t->live = 1; t->in_assignment = 1; t->x = hp_x[k];
    t->last = tok_of(lp_assignment_get_value(M, hp_x[k]));
    t->init = strdup(T[src].init);
    nt++;
  }
}

static void teardown(void) {
  for (int i = 0; i < nt; ++i) { if (T[i].live && !T[i].in_assignment) lp_value_destruct(&T[i].v); free(T[i].init); free(T[i].last); T[i].live = 0; }
  lp_assignment_delete(M); nt = 0;
}

static int pick_live(void) { for (int t = 0; t < 50; ++t) { int i = rnd(nt); if (T[i].live) return i; } return 0; }

/* dump every tracked object whose raw state changed */
static void snapshot(const char* opname) {
  char* now[MAXT]; int changed[MAXT]; int n = 0;
  for (int i = 0; i < nt; ++i) {
    now[i] = 0;
    if (!T[i].live) continue;
    now[i] = tok_of(tval(i));
    if (strcmp(now[i], T[i].last) != 0) changed[n++] = i;
  }
  if (n > 0) {
    sb_begin("hist", "step"); sb_sp(); sb_str(opname); sb_sp(); sb_long(n);
    for (int k = 0; k < n; ++k) { int i = changed[k]; sb_sp(); sb_long(i); sb_sp(); sb_str(T[i].init); sb_sp(); sb_str(now[i]); }
    sb_arrow(); sb_str(" -"); sb_emit();
  }
  for (int i = 0; i < nt; ++i) if (now[i]) { free(T[i].last); T[i].last = now[i]; }
}

static int alg_degree(const lp_value_t* v) { return v->type == LP_VALUE_ALGEBRAIC && v->value.a.f ? (int)lp_upolynomial_degree(v->value.a.f) : 1; }

/* polynomial in x0..x2 (and x3 as the main variable when with_main) */
static lp_polynomial_t* hist_poly(int with_main) {
  lp_polynomial_t* p = hp_random_poly(0, with_main ? 1 + (int)rnd(2) : 2, with_main ? 1 : 2, with_main ? 2 : 3);
  if (with_main) {
    lp_integer_t one; lp_integer_construct_from_int(lp_Z, &one, 1);
    lp_polynomial_t* y = lp_polynomial_alloc(); lp_polynomial_construct_simple(y, hp_ctx[0], &one, hp_x[3], 1 + rnd(2));
    lp_polynomial_t* q = hp_random_poly(0, 1, 1, 2);
    lp_polynomial_t* r = lp_polynomial_new(hp_ctx[0]);
    lp_polynomial_mul(r, y, q); lp_polynomial_sub(r, r, p);
    if (lp_polynomial_is_constant(r) || lp_polynomial_top_variable(r) != hp_x[3]) { lp_polynomial_sub(r, y, p); }
    lp_polynomial_delete(p); lp_polynomial_delete(q); lp_polynomial_delete(y); lp_integer_destruct(&one);
    return r;
  }
  return p;
}

static void one_op(void) {
  int i = pick_live(), j = pick_live();
  const lp_value_t* a = tval(i); const lp_value_t* b = tval(j);
  unsigned op = rnd(100);
  const char* name = "?";
  lp_value_t r; lp_value_construct_none(&r);
  if (op < 18) {
    name = "cmp";
    sb_begin("val", "cmp"); sb_sp(); sb_val(a); sb_sp(); sb_val(b); sb_arrow();
    int c = lp_value_cmp(a, b); sb_sp(); sb_long(c); sb_emit();
  } else if (op < 24) {
    name = "cmpq";
    lp_rational_t q; lp_rational_construct_from_int(&q, rnd_in(-9, 9), 1 + rnd(6));
    sb_begin("val", "cmpq"); sb_sp(); sb_val(a); sb_sp(); sb_mpq(&q); sb_arrow();
    int c = lp_value_cmp_rational(a, &q); sb_sp(); sb_long(c); sb_emit();
    lp_rational_destruct(&q);
  } else if (op < 30) {
    name = "sgn";
    sb_begin("val", "sgn"); sb_sp(); sb_val(a); sb_arrow(); int s = lp_value_sgn(a); sb_sp(); sb_long(s); sb_emit();
  } else if (op < 35) {
    name = "floor";
    lp_integer_t z; lp_integer_construct(&z);
    sb_begin("val", "floor"); sb_sp(); sb_val(a); sb_arrow(); lp_value_floor(a, &z); sb_sp(); sb_mpz(&z); sb_emit();
    lp_integer_destruct(&z);
  } else if (op < 40) {
    name = "hash"; (void)lp_value_hash_approx(a, rnd(20));
  } else if (op < 44) {
    name = "to_double"; (void)lp_value_to_double(a);
  } else if (op < 56) {
    if (alg_degree(a) + alg_degree(b) > 6) return;
    int mul = chance(50); name = mul ? "mul" : "add";
    sb_begin("val", name); sb_sp(); sb_val(a); sb_sp(); sb_val(b); sb_arrow();
    if (mul) lp_value_mul(&r, a, b); else lp_value_add(&r, a, b);
    sb_sp(); sb_val(&r); sb_emit();
  } else if (op < 62) {
    name = "refine";
    if (a->type == LP_VALUE_ALGEBRAIC) for (int k = 1 + rnd(6); k > 0; --k) lp_algebraic_number_refine_const(&a->value.a);
  } else if (op < 70) {
    name = "between";
    int sa = chance(50), sbb = chance(50);
    if (lp_value_cmp(a, b) == 0) { sa = 0; sbb = 0; }
    sb_begin("val", "between"); sb_sp(); sb_val(a); sb_sp(); sb_long(sa); sb_sp(); sb_val(b); sb_sp(); sb_long(sbb); sb_arrow();
    lp_value_get_value_between(a, sa, b, sbb, &r);
    sb_sp(); sb_val(&r); sb_emit();
  } else if (op < 76) {
    name = "copy";
    if (nt < MAXT) track_value(a, T[i].init);
  } else if (op < 79) {
    name = "destruct";
    if (!T[i].in_assignment && i >= 3) { /* keep a few originals */
      int others = 0; for (int k = 0; k < nt; ++k) if (T[k].live && !T[k].in_assignment) ++others;
      if (others > 3) { lp_value_destruct(&T[i].v); T[i].live = 0; }
    }
  } else if (op < 84 && hid_slot >= 0) {
    /* a polynomial that vanishes at the hidden dyadic value: forces the zero test to bisect onto the exact point */
    name = "poly_vanish";
    lp_integer_t num, den; lp_integer_construct_from_int(lp_Z, &num, hid_N); lp_integer_construct_from_int(lp_Z, &den, 1);
    lp_integer_mul_pow2(lp_Z, &den, &den, hid_k);
    lp_polynomial_t* dx = lp_polynomial_alloc(); lp_polynomial_construct_simple(dx, hp_ctx[0], &den, hp_x[hid_slot], 1);
    lp_polynomial_t* nn = lp_polynomial_alloc(); lp_polynomial_construct_simple(nn, hp_ctx[0], &num, hp_x[hid_slot], 0);
    lp_polynomial_t* p = lp_polynomial_new(hp_ctx[0]); lp_polynomial_sub(p, dx, nn);
    if (chance(50)) (void)lp_polynomial_sgn(p, M); else { lp_value_t* v = lp_polynomial_evaluate(p, M); lp_value_delete(v); }
    lp_polynomial_delete(p); lp_polynomial_delete(dx); lp_polynomial_delete(nn);
    lp_integer_destruct(&num); lp_integer_destruct(&den);
  } else if (op < 86) {
    name = "poly_sgn";
    lp_polynomial_t* p = hist_poly(0);
    (void)lp_polynomial_sgn(p, M);
    lp_polynomial_delete(p);
  } else if (op < 91) {
    name = "poly_evaluate";
    lp_polynomial_t* p = hist_poly(0);
    lp_value_t* v = lp_polynomial_evaluate(p, M);
    lp_value_delete(v);
    lp_polynomial_delete(p);
  } else if (op < 96) {
    name = "poly_roots_isolate";
    lp_polynomial_t* p = hist_poly(1);
    if (!lp_polynomial_is_constant(p) && lp_polynomial_top_variable(p) == hp_x[3]) {
      size_t d = lp_polynomial_degree(p), n = 0;
      lp_value_t* roots = (lp_value_t*)malloc((d + 1) * sizeof(lp_value_t));
      /* sometimes the model also holds a value for the main variable (as in lp_polynomial_root_constraint_evaluate): it is
         taken out for the isolation and must be back, unchanged, afterwards - also when there are no roots */
      int with_y = chance(40);
      if (with_y) lp_assignment_set_value(M, hp_x[3], a);
      if (with_y && chance(50)) (void)lp_polynomial_root_constraint_evaluate(p, rnd(d + 1), (lp_sign_condition_t)rnd(6), M);
      else lp_polynomial_roots_isolate(p, M, roots, &n);
      for (size_t k = 0; k < n; ++k) lp_value_destruct(&roots[k]);
      free(roots);
      if (with_y) {
        sb_begin("ev", "keep"); sb_sp(); sb_str("3="); sb_val(a); sb_arrow(); sb_sp(); sb_str("3="); sb_val(lp_assignment_get_value(M, hp_x[3])); sb_emit();
        lp_assignment_set_value(M, hp_x[3], 0);
      }
    }
    lp_polynomial_delete(p);
  } else {
    name = "poly_feasible_set";
    lp_polynomial_t* p = hist_poly(1);
    if (!lp_polynomial_is_constant(p) && lp_polynomial_top_variable(p) == hp_x[3]) {
      lp_feasibility_set_t* s = lp_polynomial_constraint_get_feasible_set(p, (lp_sign_condition_t)rnd(6), chance(50), M);
      lp_feasibility_set_delete(s);
    }
    lp_polynomial_delete(p);
  }
  lp_value_destruct(&r);
  snapshot(name);
}

int main(int argc, char** argv) {
  uint64_t seed = argc > 1 ? strtoull(argv[1], 0, 10) : 1;
  long n = argc > 2 ? atol(argv[2]) : 1000;
  long only = argc > 3 ? atol(argv[3]) : -1;
  long start = argc > 4 ? atol(argv[4]) : 0;
  lpv_init(); hp_init();
  for (long i = 0; i < n; ++i) {
    if ((only >= 0 && i != only) || i < start) continue;
    lpv_begin_case(seed, i);
    build();
    int nops = 25 + rnd(25);
    for (int k = 0; k < nops; ++k) one_op();
    teardown();
  }
  hp_done();
  free(sb_buf);
  return 0;
}
