/-
  C11 — the eliminant-free reference `rootsByIntervals` is exact: leading coefficients that vanish at the assignment are
  dropped (`reduceLeading_spec`), a Cauchy bound is computed from interval enclosures of the coefficients
  (`rootBoundM_spec`), and `isoLoopM_sound` isolates the roots inside it.
-/
import LP.Props.C11Fallback
import LP.Props.C12Exact
import Mathlib.Analysis.Polynomial.CauchyBound

namespace LP
open QPoly MPoly Polynomial

namespace Eval

/-! ### a Cauchy bound for real coefficient lists -/

noncomputable def ofL : List ℝ → ℝ[X]
  | [] => 0
  | c :: cs => C c + X * ofL cs

theorem coeff_ofL (cs : List ℝ) (i : ℕ) : (ofL cs).coeff i = cs.getD i 0 := by
  induction cs generalizing i with
  | nil => simp [ofL]
  | cons c cs ih =>
    rw [ofL]
    cases i with
    | zero => simp
    | succ i => simp [coeff_X_mul, ih, coeff_C]

theorem eval_ofL_range (x : ℝ) : ∀ (n : ℕ) (g : ℕ → ℝ),
    (ofL ((List.range n).map g)).eval x = ∑ k ∈ Finset.range n, g k * x ^ k := by
  intro n
  induction n with
  | zero => intro g; simp [ofL]
  | succ n ih =>
    intro g
    rw [List.range_succ_eq_map, List.map_cons, List.map_map, ofL, eval_add, eval_C, eval_mul, eval_X, ih (g ∘ Nat.succ),
      Finset.sum_range_succ', Finset.mul_sum]
    simp only [Function.comp, pow_zero, mul_one, pow_succ]
    rw [add_comm]
    congr 1
    apply Finset.sum_congr rfl
    intro k _; ring

/-- roots of a real polynomial given by its coefficient list lie within 1 + max |c_k| / |c_n| -/
theorem cauchy_list (cs : List ℝ) (n : ℕ) (hlen : cs.length = n + 1) (hc : cs.getD n 0 ≠ 0) (M : ℝ) (hM0 : 0 ≤ M)
    (hM : ∀ i, i < n → |cs.getD i 0| ≤ M * |cs.getD n 0|) (x : ℝ) (hx : (ofL cs).eval x = 0) : |x| < M + 1 := by
  set P := ofL cs with hP
  set c := cs.getD n 0 with hcdef
  have hcoeffn : P.coeff n = c := by rw [hP, coeff_ofL]
  have hdeg : P.natDegree = n := by
    apply natDegree_eq_of_le_of_coeff_ne_zero
    · rw [natDegree_le_iff_coeff_eq_zero]
      intro N hN
      rw [hP, coeff_ofL, List.getD_eq_getElem?_getD, List.getElem?_eq_none (by omega)]
      simp
    · rw [hcoeffn]; exact hc
  have hP0 : P ≠ 0 := by
    intro h0; rw [h0] at hcoeffn; simp at hcoeffn; exact hc hcoeffn.symm
  have hlc : P.leadingCoeff = c := by rw [leadingCoeff, hdeg, hcoeffn]
  have hroot : P.IsRoot x := by rw [IsRoot.def]; exact hx
  have hb := IsRoot.norm_lt_cauchyBound hP0 hroot
  have hcpos : (0 : ℝ) < |c| := abs_pos.2 hc
  have hcb : ((cauchyBound P : NNReal) : ℝ) ≤ M + 1 := by
    unfold cauchyBound
    push_cast
    have hsup : ((Finset.sup (Finset.range P.natDegree) (fun i => ‖P.coeff i‖₊) : NNReal) : ℝ) ≤ M * |c| := by
      have : Finset.sup (Finset.range P.natDegree) (fun i => ‖P.coeff i‖₊) ≤ (⟨M * |c|, by positivity⟩ : NNReal) := by
        apply Finset.sup_le
        intro i hi
        rw [Finset.mem_range, hdeg] at hi
        show ((‖P.coeff i‖₊ : NNReal) : ℝ) ≤ M * |c|
        simp only [coe_nnnorm, Real.norm_eq_abs]
        rw [hP, coeff_ofL]
        exact hM i hi
      exact_mod_cast this
    rw [hlc]
    simp only [Real.norm_eq_abs]
    have : ((Finset.sup (Finset.range P.natDegree) (fun i => ‖P.coeff i‖₊) : NNReal) : ℝ) / |c| ≤ M := by
      rw [div_le_iff₀ hcpos]; exact hsup
    linarith
  have h1 : ‖x‖ < ((cauchyBound P : NNReal) : ℝ) := by exact_mod_cast hb
  rw [Real.norm_eq_abs] at h1
  linarith

/-! ### the specialised polynomial as a coefficient list -/

/-- value of the k-th coefficient (in y) at the assignment -/
noncomputable def coeffVal (p : MPoly) (y : ℕ) (ν : ℕ → ℝ) (k : ℕ) : ℝ := evalRealM (MPoly.coeffIn none y k p) ν

theorem specR_sum (p : MPoly) (y : ℕ) (ν : ℕ → ℝ) (ρ : ℝ) :
    specR p ν y ρ = ∑ k ∈ Finset.range (MPoly.degreeIn y p + 1), coeffVal p y ν k * ρ ^ k := by
  unfold specR
  rw [evalRealM_eq_evalAt, MPoly.evalAt_decompose _ y p (MPoly.degreeIn y p) (by
    unfold MPoly.degreeIn; exact (mono_degree_le y p 0).2)]
  apply Finset.sum_congr rfl
  intro k _
  have := coeff_update p y k y ν ρ (Or.inl rfl)
  rw [← evalRealM_eq_evalAt, this]
  simp [coeffVal]

theorem specR_ofL (p : MPoly) (y : ℕ) (ν : ℕ → ℝ) (ρ : ℝ) :
    specR p ν y ρ = (ofL ((List.range (MPoly.degreeIn y p + 1)).map (coeffVal p y ν))).eval ρ := by
  rw [specR_sum, eval_ofL_range]

/-! ### refinement of the assignment keeps the context -/

theorem ctx_refineAll (y : ℕ) (a a' : Asg) (ν : ℕ → ℝ) (h : Ctx y a ν) (hr : refineAll a = some a') : Ctx y a' ν := by
  have := ctx_refine y a ν h 0
  simpa [hr] using this

/-! ### the Cauchy bound from interval enclosures -/

theorem absHi_ge (J : CI) (x : ℝ) (h : J.memR x) : |x| ≤ ((absHi J : ℚ) : ℝ) := by
  unfold absHi
  have h1 : ((QPoly.absQ J.lo : ℚ) : ℝ) = |(J.lo : ℝ)| := absQ_cast _
  have h2 : ((QPoly.absQ J.hi : ℚ) : ℝ) = |(J.hi : ℝ)| := absQ_cast _
  push_cast
  rw [h1, h2]
  rw [abs_le]
  constructor
  · have : -|(J.lo : ℝ)| ≤ (J.lo : ℝ) := neg_abs_le _
    have := le_max_left |(J.lo : ℝ)| |(J.hi : ℝ)|
    linarith [h.1]
  · have : (J.hi : ℝ) ≤ |(J.hi : ℝ)| := le_abs_self _
    have := le_max_right |(J.lo : ℝ)| |(J.hi : ℝ)|
    linarith [h.2]

theorem absLo_le (J : CI) (x : ℝ) (h : J.memR x) : ((absLo J : ℚ) : ℝ) ≤ |x| := by
  unfold absLo
  split_ifs with h1 h2
  · have : (0 : ℝ) < (J.lo : ℝ) := by exact_mod_cast h1
    rw [abs_of_pos (lt_of_lt_of_le this h.1)]; exact h.1
  · have : (J.hi : ℝ) < 0 := by exact_mod_cast h2
    rw [abs_of_neg (lt_of_le_of_lt h.2 this)]; push_cast; linarith [h.2]
  · simp

theorem foldl_max_ge' (f : CI → ℚ) : ∀ (l : List CI) (m0 : ℚ),
    m0 ≤ l.foldl (fun m c => max m (f c)) m0 ∧ ∀ c ∈ l, f c ≤ l.foldl (fun m c => max m (f c)) m0 := by
  intro l
  induction l with
  | nil => intro m0; simp
  | cons a l ih =>
    intro m0
    rw [List.foldl_cons]
    obtain ⟨h1, h2⟩ := ih (max m0 (f a))
    refine ⟨le_trans (le_max_left _ _) h1, ?_⟩
    intro c hc
    rw [List.mem_cons] at hc
    rcases hc with rfl | hc
    · exact le_trans (le_max_right _ _) h1
    · exact h2 c hc

/-- **the bound computed from enclosures of the coefficients contains every real root** -/
theorem rootBoundM_spec (p : MPoly) (y : ℕ) (ν : ℕ → ℝ) : ∀ (fuel : ℕ) (a a' : Asg) (B : ℚ), Ctx y a ν →
    rootBoundM p y fuel a = some (B, a') →
    Ctx y a' ν ∧ 0 < B ∧ ∀ ρ : ℝ, specR p ν y ρ = 0 → -(B : ℝ) < ρ ∧ ρ < (B : ℝ) := by
  intro fuel
  induction fuel with
  | zero => intro a a' B _ h; simp [rootBoundM] at h
  | succ fuel ih =>
    intro a a' B hctx h
    rw [rootBoundM] at h
    set d := MPoly.degreeIn y p with hd
    set Js := (coeffsIn y p).map (fun c => ievalM c (box a)) with hJs
    by_cases hgo : absLo ((Js.getLast?).getD (CI.pt 0)) > 0 ∧ d > 0
    · rw [if_pos hgo] at h
      simp only [Option.some.injEq, Prod.mk.injEq] at h
      obtain ⟨hB, ha'⟩ := h
      subst ha'
      set lcLo := absLo ((Js.getLast?).getD (CI.pt 0)) with hlc
      set M : ℚ := Js.dropLast.foldl (fun m J => max m (absHi J / lcLo)) 0 with hM
      have hM0 : 0 ≤ M := (foldl_max_ge' (fun J => absHi J / lcLo) Js.dropLast 0).1
      have hMc : ∀ J ∈ Js.dropLast, absHi J / lcLo ≤ M := (foldl_max_ge' (fun J => absHi J / lcLo) Js.dropLast 0).2
      have hlen : Js.length = d + 1 := by simp [hJs, coeffsIn, hd]
      have hJk : ∀ k, k < d + 1 → Js[k]? = some (ievalM (MPoly.coeffIn none y k p) (box a)) := by
        intro k hk
        rw [hJs]
        unfold coeffsIn
        rw [List.getElem?_map, List.getElem?_map, List.getElem?_range (by rw [← hd]; exact hk)]
        rfl
      have hmem : ∀ k, k < d + 1 → (ievalM (MPoly.coeffIn none y k p) (box a)).memR (coeffVal p y ν k) :=
        fun k _ => ievalM_encloses _ _ _ (box_mem a ν hctx.den)
      have hlast : (Js.getLast?).getD (CI.pt 0) = ievalM (MPoly.coeffIn none y d p) (box a) := by
        rw [List.getLast?_eq_getElem?, hlen, Nat.add_sub_cancel, hJk d (by omega)]; rfl
      have hlcpos : (0 : ℝ) < (lcLo : ℝ) := by exact_mod_cast hgo.1
      have hcd : (lcLo : ℝ) ≤ |coeffVal p y ν d| := by
        rw [hlc, hlast]; exact absLo_le _ _ (hmem d (by omega))
      have hB' : B = 1 + M := hB.symm
      refine ⟨hctx, by rw [hB']; linarith, ?_⟩
      intro ρ hρ
      rw [specR_ofL] at hρ
      have hget : ∀ k, k < d + 1 → ((List.range (d + 1)).map (coeffVal p y ν)).getD k 0 = coeffVal p y ν k := by
        intro k hk
        rw [List.getD_eq_getElem?_getD, List.getElem?_map, List.getElem?_range hk]; rfl
      have hbound := cauchy_list ((List.range (d + 1)).map (coeffVal p y ν)) d (by simp)
        (by rw [hget d (by omega)]; intro h0; rw [h0, abs_zero] at hcd; linarith) (M : ℝ) (by exact_mod_cast hM0)
        (by
          intro i hi
          rw [hget i (by omega), hget d (by omega)]
          have hin : ievalM (MPoly.coeffIn none y i p) (box a) ∈ Js.dropLast := by
            have hidx : i < Js.dropLast.length := by rw [List.length_dropLast, hlen]; omega
            have : Js.dropLast[i] = ievalM (MPoly.coeffIn none y i p) (box a) := by
              rw [List.getElem_dropLast]
              have := hJk i (by omega)
              rw [List.getElem?_eq_getElem (by omega)] at this
              exact Option.some.inj this
            rw [← this]; exact List.getElem_mem hidx
          have h1 := hMc _ hin
          have h2 : ((absHi (ievalM (MPoly.coeffIn none y i p) (box a)) : ℚ) : ℝ) ≤ (M : ℝ) * (lcLo : ℝ) := by
            have : ((absHi (ievalM (MPoly.coeffIn none y i p) (box a)) / lcLo : ℚ) : ℝ) ≤ (M : ℝ) := by exact_mod_cast h1
            rw [Rat.cast_div, div_le_iff₀ hlcpos] at this
            exact this
          calc |coeffVal p y ν i| ≤ _ := absHi_ge _ _ (hmem i (by omega))
            _ ≤ (M : ℝ) * (lcLo : ℝ) := h2
            _ ≤ (M : ℝ) * |coeffVal p y ν d| := mul_le_mul_of_nonneg_left hcd (by exact_mod_cast hM0))
        ρ hρ
      rw [hB']
      push_cast
      have := abs_lt.1 hbound
      constructor <;> linarith [this.1, this.2]
    · rw [if_neg hgo] at h
      cases hr : refineAll a with
      | none => rw [hr] at h; simp at h
      | some a1 =>
        rw [hr] at h
        simp only [Option.bind_some] at h
        exact ih a1 a' B (ctx_refineAll y a a1 ν hctx hr) h

/-! ### dropping leading coefficients that vanish at the assignment -/

theorem evalAt_shl (ν : ℕ → ℝ) (p : MPoly) (x n : ℕ) : evalAt ν (MPoly.shl none p x n) = ν x ^ n * evalAt ν p := by
  unfold evalAt
  rw [C01_shl (compatible_none ℝ), map_mul, map_pow, MvPolynomial.eval_X]

theorem zfree_coeff (p : MPoly) (y k : ℕ) (hz : ZFree p) (hyz : y ≠ zVar) : ZFree (MPoly.coeffIn none y k p) := by
  -- the k-th coefficient is determined by the values of p on the line {y := t}: use the decomposition at k+… points?
  -- simpler: coefficients are polynomial expressions in the terms of p that do not mention zVar semantically; we prove it
  -- through the univariate polynomial identity in y
  intro ν₀ v
  -- both sides are the k-th coefficient of the same univariate real polynomial
  have key : ∀ ρ : ℝ, (ofL ((List.range (MPoly.degreeIn y p + 1)).map (coeffVal p y (Function.update ν₀ zVar v)))).eval ρ =
      (ofL ((List.range (MPoly.degreeIn y p + 1)).map (coeffVal p y ν₀))).eval ρ := by
    intro ρ
    rw [← specR_ofL, ← specR_ofL]
    unfold specR
    have hcomm : Function.update (Function.update ν₀ zVar v) y ρ = Function.update (Function.update ν₀ y ρ) zVar v :=
      (Function.update_comm hyz ρ v ν₀).symm
    rw [hcomm, hz]
  have hpoly : ofL ((List.range (MPoly.degreeIn y p + 1)).map (coeffVal p y (Function.update ν₀ zVar v))) =
      ofL ((List.range (MPoly.degreeIn y p + 1)).map (coeffVal p y ν₀)) := Polynomial.funext key
  by_cases hk : k < MPoly.degreeIn y p + 1
  · have := congrArg (fun P => P.coeff k) hpoly
    simp only [coeff_ofL] at this
    rw [List.getD_eq_getElem?_getD, List.getElem?_map, List.getElem?_range hk,
      List.getD_eq_getElem?_getD, List.getElem?_map, List.getElem?_range hk] at this
    simpa [coeffVal] using this
  · -- beyond the degree the coefficient is the zero polynomial
    have hzero : MPoly.coeffIn none y k p = [] := by
      unfold MPoly.coeffIn
      have : p.filterMap (fun t => if Mono.degreeIn y t.1 = k then some (Mono.without y t.1, t.2) else none) = [] := by
        rw [List.filterMap_eq_nil_iff]
        intro t ht
        have := (mono_degree_le y p 0).2 t ht
        have hd : MPoly.degreeIn y p = p.foldl (fun acc t => max acc (Mono.degreeIn y t.1)) 0 := rfl
        rw [if_neg (by omega)]
      rw [this]; rfl
    rw [hzero]; rfl

theorem zfree_sub_shl (p lc : MPoly) (y d : ℕ) (hz : ZFree p) (hlc : ZFree lc) (hyz : y ≠ zVar) :
    ZFree (MPoly.sub none p (MPoly.shl none lc y d)) := by
  intro ν₀ v
  rw [evalRealM_eq_evalAt, evalRealM_eq_evalAt, MPoly.evalAt_sub, MPoly.evalAt_sub, evalAt_shl, evalAt_shl,
    ← evalRealM_eq_evalAt, ← evalRealM_eq_evalAt, ← evalRealM_eq_evalAt, ← evalRealM_eq_evalAt, hz, hlc,
    Function.update_of_ne hyz]

theorem reduceLeading_spec (y : ℕ) (a : Asg) (ν : ℕ → ℝ) (hctx : Ctx y a ν) (hyz : y ≠ zVar) :
    ∀ (fuel : ℕ) (p q : MPoly), ZFree p → reduceLeading p y a fuel = some q →
      ZFree q ∧ ∀ ρ, specR q ν y ρ = specR p ν y ρ := by
  intro fuel
  induction fuel with
  | zero => intro p q _ h; simp [reduceLeading] at h
  | succ fuel ih =>
    intro p q hz h
    rw [reduceLeading] at h
    by_cases he : p.isEmpty = true
    · rw [if_pos he] at h
      simp only [Option.some.injEq] at h
      subst h; exact ⟨hz, fun _ => rfl⟩
    rw [if_neg he] at h
    simp only at h
    set d := MPoly.degreeIn y p with hd
    set lc := MPoly.coeffIn none y d p with hlcdef
    have hzlc : ZFree lc := zfree_coeff p y d hz hyz
    cases hs : exactSign lc a with
    | none => rw [hs] at h; simp at h
    | some s =>
      rw [hs] at h
      simp only at h
      by_cases hstop : s ≠ 0 ∨ d = 0
      · rw [if_pos hstop] at h
        simp only [Option.some.injEq] at h
        subst h; exact ⟨hz, fun _ => rfl⟩
      · rw [if_neg hstop] at h
        have hs0 : s = 0 := by
          by_contra hne; exact hstop (Or.inl hne)
        have hsig := C10_sign_exact_sem lc a ν s hctx.den hctx.roots (fun v => hzlc ν v) hctx.za hs
        have hval : evalRealM lc ν = 0 := by
          subst hs0
          rcases hsig with ⟨h1, _⟩ | ⟨h1, _⟩ | ⟨_, h2⟩
          · omega
          · omega
          · exact h2
        obtain ⟨hzq, hq⟩ := ih _ q (zfree_sub_shl p lc y d hz hzlc hyz) h
        refine ⟨hzq, fun ρ => ?_⟩
        rw [hq ρ]
        unfold specR
        rw [evalRealM_eq_evalAt, MPoly.evalAt_sub, evalAt_shl, ← evalRealM_eq_evalAt, ← evalRealM_eq_evalAt]
        have : evalRealM lc (Function.update ν y ρ) = evalRealM lc ν := coeff_update p y d y ν ρ (Or.inl rfl)
        rw [this, hval, mul_zero, sub_zero]

/-- every real root lies in a cell, every cell holds exactly one root, cells are sorted -/
structure IsolatesAllF (f : ℝ → ℝ) (L : List Cell) : Prop where
  complete : ∀ x : ℝ, f x = 0 → ∃ c ∈ L, c.memR x
  unique : ∀ c ∈ L, ∃! x, c.memR x ∧ f x = 0
  sorted : L.Pairwise (fun c d => ∀ x y, c.memR x → d.memR y → x < y)

/-- **C11, eliminant-free reference**: for a specialised polynomial that does not vanish identically, a successful
    `rootsByIntervals` returns cells holding exactly its real roots, one per cell, in increasing order -/
theorem rootsByIntervals_sound (p : MPoly) (y : ℕ) (a : Asg) (ν : ℕ → ℝ) (L : List Cell)
    (hctx : Ctx y a ν) (hz : ZFree p) (hyz : y ≠ zVar)
    (hne : ∃ ρ, specR p ν y ρ ≠ 0)
    (h : rootsByIntervals p y a = some L) : IsolatesAllF (specR p ν y) L := by
  unfold rootsByIntervals at h
  cases hr : reduceLeading p y a 12 with
  | none => rw [hr] at h; simp at h
  | some q =>
    rw [hr] at h
    simp only at h
    obtain ⟨hzq, hq⟩ := reduceLeading_spec y a ν hctx hyz 12 p q hz hr
    have hfun : specR p ν y = specR q ν y := by funext ρ; exact (hq ρ).symm
    rw [hfun]
    by_cases hd0 : MPoly.degreeIn y q = 0
    · rw [if_pos hd0] at h
      simp only [Option.some.injEq] at h
      subst h
      -- constant in ρ and not identically zero: no roots
      have hconst : ∀ ρ σ, specR q ν y ρ = specR q ν y σ := by
        intro ρ σ
        rw [specR_sum, specR_sum, hd0]
        simp
      refine ⟨?_, by simp, List.Pairwise.nil⟩
      intro x hx
      obtain ⟨ρ, hρ⟩ := hne
      rw [hfun, hconst ρ x] at hρ
      exact absurd hx hρ
    · rw [if_neg hd0] at h
      cases hb : rootBoundM q y 60 a with
      | none => rw [hb] at h; simp at h
      | some Ba =>
        obtain ⟨B, a'⟩ := Ba
        rw [hb] at h
        simp only [Option.map_eq_some_iff] at h
        obtain ⟨⟨L', b'⟩, hiso, hL⟩ := h
        simp only at hL
        subst hL
        obtain ⟨hctx', hBpos, hbound⟩ := rootBoundM_spec q y ν 60 a a' B hctx hb
        have hI := isoLoopM_sound q y ν hzq hyz 60 400 a' (-B) B L' b' (by linarith) hctx' hiso
        refine ⟨?_, hI.unique, hI.sorted⟩
        intro x hx
        obtain ⟨h1, h2⟩ := hbound x hx
        exact hI.complete x (by push_cast; exact h1) h2 hx

end Eval
end LP
