import LP.Props.C08
#print axioms LP.C08_cmp
#print axioms LP.ZAlg.C07_select_sound
#print axioms LP.Alg.cmp_sound
#print axioms LP.Alg.floor_sound
