import LP.Model.Alg
import LP.Driver.Interval
import LP.Driver.Poly
namespace LP.Driver
open LP LP.QPoly

/-- raw algebraic number as printed by the harness -/
structure RawAlg where
  f : Option (List Int)       -- none: a point
  l : Rat
  u : Rat
  sa : Int := 0
  sb : Int := 0
  flags : String := ""

def pRawAlg? (s : String) : Option RawAlg :=
  match s.splitOn "|" with
  | ["P", q] => (pEnd? q).map (fun q => { f := none, l := q, u := q })
  | ["P", q, fl] => (pEnd? q).map (fun q => { f := none, l := q, u := q, flags := fl })
  | ["A", cs, l, u, sa, sb, fl] => do
      let cs ← pList? pInt? cs
      let l ← pEnd? l
      let u ← pEnd? u
      let sa ← pInt? sa
      let sb ← pInt? sb
      some { f := some cs, l := l, u := u, sa := sa, sb := sb, flags := fl }
  | _ => none

def RawAlg.toAlg (r : RawAlg) : Alg :=
  match r.f with
  | none => .rat r.l
  | some cs => .root (upToQ cs) r.l r.u

/-- representation invariants of `lp_algebraic_number_t` -/
def RawAlg.reprOk (r : RawAlg) : Option String :=
  match r.f with
  | none => if r.flags = "" then none else some "point flag"
  | some cs =>
    let f := upToQ cs
    if r.flags ≠ "11" then some s!"interval not open ({r.flags})"
    else if !(r.l < r.u) then some "empty interval"
    else if sgnQ (QPoly.eval f r.l) ≠ r.sa ∨ sgnQ (QPoly.eval f r.u) ≠ r.sb then some "cached end-point signs wrong"
    else if r.sa * r.sb ≥ 0 then some "no sign change over the interval"
    else if cs.length < 2 then some "constant defining polynomial"
    else none

def showRawAlg (r : RawAlg) : String :=
  match r.f with
  | none => s!"P|{showRat r.l}"
  | some cs => s!"A|{cs}|{showRat r.l}|{showRat r.u}"

def isRootOf := @Alg.isRootOf

def cellTag : Cell → String | .pt _ => "pt" | .iv _ _ => "iv"

/-- Sturm sign variations of a chain at a rational / at ±∞ -/
def varAt (S : List QPoly) (x : Rat) : Nat := signVar (S.map (fun p => sgnAt p x))
def varAtInf (S : List QPoly) (plus : Bool) : Nat := signVar (S.map (fun p => sgnAtInf p plus))

def checkRoots (op : String) (args res : List String) : Verdict :=
  match op, args, res with
  | "isolate", [fs], ns :: rs =>
    match pUPoly? fs, pNat? ns, rs.mapM pRawAlg? with
    | some cs, some n, some raws =>
      let f := upToQ cs
      if n ≠ raws.length then .viol "isolate/size" "size does not match the list" else
      match realRoots f with
      | none => .skip "root counter out of fuel"
      | some cells =>
        if cells.length ≠ n then .viol "isolate/count" s!"{n} roots returned, {cells.length} distinct real roots" else
        match raws.findSome? RawAlg.reprOk with
        | some msg => .viol "isolate/repr" msg
        | none =>
          let algs := raws.map RawAlg.toAlg
          match algs.mapM Alg.valid with
          | none => .skip "validity out of fuel"
          | some vs =>
            if !vs.all id then .viol "isolate/not-isolating" "an interval does not contain exactly one root of its polynomial" else
            match algs.mapM (isRootOf f) with
            | none => .skip "root-of out of fuel"
            | some rs =>
              if !rs.all id then .viol "isolate/not-a-root" "an item is not a root of the input" else
              match (algs.zip algs.tail).mapM (fun p => Alg.cmp p.1 p.2) with
              | none => .skip "cmp out of fuel"
              | some cs' =>
                if !cs'.all (· == -1) then .viol "isolate/order" "roots not strictly increasing" else
                let tag := if n = 0 then "none" else if cells.any (fun c => match c with | .pt _ => true | _ => false) then "with-rational" else "irrational"
                .ok s!"isolate/{tag}/{if n ≥ 4 then "many" else toString n}"
    | _, _, _ => .skip "parse"
  | "count", [fs, is], [cs'] =>
    match pUPoly? fs, pInt? cs' with
    | some cs, some c =>
      let f := upToQ cs
      if is = "R" then
        match realRoots f with
        | none => .skip "root counter out of fuel"
        | some cells => if (cells.length : Int) = c then .ok "count/R" else .viol "count/R" s!"got {c}, {cells.length} distinct real roots"
      else
        match pQI? is with
        | none => .skip "parse interval"
        | some I =>
          match (if I.isPoint then countRootsIn f I.a false I.a false else countRootsIn f I.a I.aOpen I.b I.bOpen) with
          | none => .skip "root counter out of fuel"
          | some k =>
            let endRoot := (QPoly.eval f I.a == 0) || (QPoly.eval f I.b == 0)
            let tag := s!"count/{kindTag I}/{if endRoot then "end-is-root" else "plain"}/{if k = 0 then "0" else "pos"}"
            if (k : Int) = c then .ok tag else .viol tag s!"got {c}, {k} distinct real roots in {showQI I}"
    | _, _ => .skip "parse"
  | "sturm", [fs], ns :: ss =>
    match pUPoly? fs, pNat? ns, ss.mapM pUPoly? with
    | some cs, some n, some Ss =>
      let f := upToQ cs
      let S := Ss.map upToQ
      if n ≠ S.length ∨ n = 0 then .viol "sturm/size" "size" else
      match realRoots f with
      | none => .skip "root counter out of fuel"
      | some cells =>
        -- grid: the cell boundaries and midpoints between consecutive roots, non-roots of f only
        let pts := (cells.flatMap (fun c => match c with | .pt q => [q - 1/2, q + 1/2, q - 1/1024, q + 1/1024] | .iv l u => [l, u])) ++ [0, 1, -1, 7/2, -100, 100]
        let grid := ((pts.filter (fun x => QPoly.eval f x ≠ 0)).mergeSort (· ≤ ·)).eraseDups
        let total := varAtInf S false - varAtInf S true
        if varAtInf S false < varAtInf S true ∨ total ≠ cells.length then .viol "sturm/total" s!"V(-inf)-V(+inf) = {varAtInf S false}-{varAtInf S true}, {cells.length} distinct real roots" else
        let bad := (grid.zip grid.tail).find? (fun p =>
          match countRootsIn f p.1 true p.2 false with
          | none => false
          | some k => !(varAt S p.1 ≥ varAt S p.2 && varAt S p.1 - varAt S p.2 = k))
        match bad with
        | some p => .viol "sturm/interval" s!"V({showRat p.1}) - V({showRat p.2}) is not the number of roots in between"
        | none => .ok s!"sturm/{if cells.length = 0 then "no-roots" else "roots"}"
    | _, _, _ => .skip "parse"
  | _, _, _ => .skip s!"unknown roots op {op}"

end LP.Driver
