/-
  C10-C12 — exact sign and value of an integer polynomial at an assignment of real algebraic numbers.
  Sign: closed interval evaluation over the isolating intervals, refined until 0 is excluded; if 0 cannot be
  excluded the variables are eliminated from z − p(x̄) by Sylvester determinants (C04 reference) and the value is
  0 exactly when 0 is the only root of the eliminant inside the enclosure.  Core Lean only.
-/
import LP.Model.AlgOps
namespace LP
open QPoly MPoly

/-- assignment: variable ↦ algebraic number with a defining integer polynomial -/
abbrev Asg := List (Nat × ZAlg)

namespace Eval

def lookup (a : Asg) (x : Nat) : Option ZAlg := (a.find? (fun p => p.1 = x)).map (·.2)

/-- box of the current isolating intervals (unassigned variables: [0,0]) -/
def box (a : Asg) (x : Nat) : CI :=
  match lookup a x with
  | some z => ZAlg.ciOf z.a
  | none => CI.pt 0

def monoI (b : Nat → CI) (m : Mono) : CI := m.foldl (fun acc p => CI.mul acc (ZAlg.ciPow (b p.1) p.2)) (CI.pt 1)

/-- closed interval enclosure of p over a box -/
def ievalM (p : MPoly) (b : Nat → CI) : CI :=
  p.foldl (fun acc t => CI.add acc (CI.mul (CI.pt t.2) (monoI b t.1))) (CI.pt 0)

def refineAll (a : Asg) : Option Asg :=
  a.mapM (fun p => (Alg.refine p.2.a).map (fun a' => (p.1, ({ p.2 with a := a' } : ZAlg))))

def allRat (a : Asg) : Bool := a.all (fun p => match p.2.a with | .rat _ => true | _ => false)

/-- the elimination variable -/
def zVar : Nat := 1000

/-- eliminant of z − p(x̄): a univariate integer polynomial (in z) vanishing at p(ᾱ) -/
def eliminant (p : MPoly) (a : Asg) : List Int :=
  let A0 := MPoly.sub none (ZAlg.varP zVar) p
  let A := a.foldl (fun A xv =>
    if MPoly.degreeIn xv.1 A = 0 then A
    else resultantSpec none xv.1 (ZAlg.uni xv.1 xv.2.f) A) A0
  ZAlg.dense zVar A

/-- Sylvester order of the largest elimination step (for the size cap) -/
def elimSize (p : MPoly) (a : Asg) : Nat :=
  -- degrees grow multiplicatively: bound the order of the last step
  let degs := a.filter (fun xv => MPoly.degreeIn xv.1 p > 0) |>.map (fun xv => (MPoly.degreeIn xv.1 p, xv.2.f.length - 1))
  let rec go (acc : Nat) (mult : Nat) : List (Nat × Nat) → Nat
    | [] => acc
    | (dp, df) :: rest => go (max acc (dp * mult + df)) (mult * df) rest
  go 0 1 degs

inductive SignRes
  | sgn (s : Int)
  | unknown
deriving Repr

/-- the square-free eliminant: kept once computed, computed every fourth round otherwise -/
def nextE (p : MPoly) (fuel : Nat) (a : Asg) (E : Option QPoly) : Option QPoly :=
  match E with
  | some e => some e
  | none =>
    if fuel % 4 ≠ 0 then none else       -- a few cheap refinements first
    if (eliminant p a).all (· = 0) then none else sqfreePart (ZAlg.toQ (eliminant p a))

/-- 0 is a root of the eliminant and the only root inside the enclosure -/
def zeroCert (E : Option QPoly) (J : CI) : Bool :=
  match E with
  | some e => QPoly.eval e 0 == 0 && (countIn e J.lo false J.hi false == some 1)
  | none => false

/-- exact sign; `E` = square-free eliminant once computed -/
def signLoop (p : MPoly) : Nat → Asg → Option QPoly → Option Int
  | 0, _, _ => none
  | fuel+1, a, E =>
    if 0 < (ievalM p (box a)).lo then some 1
    else if (ievalM p (box a)).hi < 0 then some (-1)
    else if (ievalM p (box a)).lo = 0 ∧ (ievalM p (box a)).hi = 0 then some 0
    else
      -- 0 ∈ J : is the value exactly zero?
      if zeroCert (nextE p fuel a E) (ievalM p (box a)) then some 0
      else if allRat a then none
      else match refineAll a with
        | none => none
        | some a' => signLoop p fuel a' (nextE p fuel a E)

def exactSign (p : MPoly) (a : Asg) : Option Int := signLoop p 120 a none

/-- exact value as (square-free eliminant, closed interval holding exactly one of its roots) -/
def valueLoop (p : MPoly) (R : QPoly) : Nat → Asg → Option CI
  | 0, _ => none
  | fuel+1, a =>
    let J := ievalM p (box a)
    match countIn R J.lo false J.hi false with
    | none => none
    | some n =>
      if n = 1 then some J
      else if n = 0 then none
      else if allRat a then none
      else match refineAll a with
        | none => none
        | some a' => valueLoop p R fuel a'

def exactValue (p : MPoly) (a : Asg) : Option (QPoly × CI) :=
  let cs := eliminant p a
  if cs.all (· = 0) then none else
  match sqfreePart (ZAlg.toQ cs) with
  | none => none
  | some R => (valueLoop p R 200 a).map (fun J => (R, J))

/-- sign conditions in the order of `lp_sign_condition_t`: LT, LE, EQ, NE, GT, GE -/
def consistent (cond : Nat) (s : Int) : Bool :=
  match cond with
  | 0 => s < 0
  | 1 => s ≤ 0
  | 2 => s = 0
  | 3 => s ≠ 0
  | 4 => s > 0
  | _ => s ≥ 0

end Eval
end LP
