/-
  C14 — the modular powering used for the root count over large primes is exponentiation modulo f (`fpPowMod_spec`): the
  list returned by square-and-multiply is congruent to bᵉ modulo f in (Z/p)[X] for every exponent below 2^fuel (the driver
  uses fuel 4096), by `divMod_spec` (the remainder is congruent to the dividend, `divMod_rem_congr`).  The step from
  "x^p mod f" to the number of distinct roots is `roots_count_gcd` (`C14RootCount`).
-/
import LP.Props.C05FpDiv
import LP.Driver.Zp

set_option linter.unusedSectionVars false

namespace LP
namespace FPoly
open Polynomial LP.Driver

variable (p : Nat) [hpr : Fact p.Prime]

/-- the remainder is congruent to the dividend -/
theorem divMod_rem_congr (a f : FPoly) (hf : norm p f ≠ []) :
    toPolyF p f ∣ toPolyF p (divMod p a f).2 - toPolyF p a := by
  obtain ⟨h1, _⟩ := divMod_spec p a f hf
  refine ⟨- toPolyF p (divMod p a f).1, ?_⟩
  rw [h1]; ring

/-- **the modular powering of the root count is exponentiation modulo f** -/
theorem fpPowMod_spec (b f : FPoly) (hf : norm p f ≠ []) : ∀ (fuel e : Nat), e < 2 ^ fuel →
    toPolyF p f ∣ toPolyF p (fpPowMod p b f fuel e) - (toPolyF p b) ^ e := by
  intro fuel
  induction fuel with
  | zero =>
    intro e he
    have : e = 0 := by simpa using he
    subst this
    simp [fpPowMod, toPolyF_cons, toPolyF_nil]
  | succ n ih =>
    intro e he
    unfold fpPowMod
    by_cases h0 : e = 0
    · subst h0; simp [toPolyF_cons, toPolyF_nil]
    · rw [if_neg h0]
      dsimp only
      have hhalf : e / 2 < 2 ^ n := by
        have : 2 ^ (n + 1) = 2 * 2 ^ n := by ring
        omega
      obtain ⟨k, hk⟩ := ih (e / 2) hhalf
      set H := toPolyF p (fpPowMod p b f n (e / 2)) with hH
      set B := toPolyF p b with hB
      set F := toPolyF p f with hF
      -- h2 ≡ H^2
      have c1 := divMod_rem_congr p (mul p (fpPowMod p b f n (e / 2)) (fpPowMod p b f n (e / 2))) f hf
      rw [toPolyF_mul, ← hH, ← hF] at c1
      obtain ⟨k1, hk1⟩ := c1
      have hsq : F ∣ toPolyF p (divMod p (mul p (fpPowMod p b f n (e / 2)) (fpPowMod p b f n (e / 2))) f).2 - B ^ (e / 2 * 2) := by
        refine ⟨k1 + k * (H + B ^ (e / 2)), ?_⟩
        have e1 : toPolyF p (divMod p (mul p (fpPowMod p b f n (e / 2)) (fpPowMod p b f n (e / 2))) f).2 = F * k1 + H * H := by
          rw [← hk1]; ring
        have e2 : H = F * k + B ^ (e / 2) := by rw [← hk]; ring
        rw [e1, pow_mul]
        rw [e2]; ring
      by_cases hodd : e % 2 = 1
      · rw [if_pos hodd]
        have c2 := divMod_rem_congr p (mul p (divMod p (mul p (fpPowMod p b f n (e / 2)) (fpPowMod p b f n (e / 2))) f).2 b) f hf
        rw [toPolyF_mul, ← hB, ← hF] at c2
        obtain ⟨k2, hk2⟩ := c2
        obtain ⟨k3, hk3⟩ := hsq
        refine ⟨k2 + k3 * B, ?_⟩
        have he : e = e / 2 * 2 + 1 := by omega
        have hpow : B ^ e = B ^ (e / 2 * 2) * B := by
          conv_lhs => rw [he]
          rw [pow_succ]
        rw [hpow]
        have e3 : toPolyF p (divMod p (mul p (divMod p (mul p (fpPowMod p b f n (e / 2)) (fpPowMod p b f n (e / 2))) f).2 b) f).2 =
            F * k2 + toPolyF p (divMod p (mul p (fpPowMod p b f n (e / 2)) (fpPowMod p b f n (e / 2))) f).2 * B := by
          rw [← hk2]; ring
        have e4 : toPolyF p (divMod p (mul p (fpPowMod p b f n (e / 2)) (fpPowMod p b f n (e / 2))) f).2 =
            F * k3 + B ^ (e / 2 * 2) := by rw [← hk3]; ring
        rw [e3, e4]; ring
      · rw [if_neg hodd]
        have he : e = e / 2 * 2 := by omega
        have hpow : B ^ e = B ^ (e / 2 * 2) := by
          conv_lhs => rw [he]
        rw [hpow]
        exact hsq

end FPoly
end LP
