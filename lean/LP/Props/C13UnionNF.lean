/-
  C13 — the union is returned in normal form: every interval of `lp_feasibility_set_add`'s result is well-formed, and
  consecutive intervals are separated by a gap that cannot be closed (the upper end of one lies strictly below the lower end
  of the next, or they coincide and both ends are open) — `C13_union_nf`.
-/
import LP.Props.C13Union
import Mathlib.Data.List.Chain
import Mathlib.Tactic.NormNum

set_option linter.unusedSectionVars false

namespace LP
namespace FSet
open VI

/-- `I` ends before `J` starts, and the two cannot be fused -/
def Gap (I J : VI) : Prop :=
  EP.cmp I.upper J.lower < 0 ∨ (EP.cmp I.upper J.lower = 0 ∧ I.bOpen = true ∧ J.aOpen = true)

/-- the order of the sort: by lower bound, longer interval first among equal lower bounds -/
def Le2 (I J : VI) : Prop := cmpLower I J < 0 ∨ (cmpLower I J = 0 ∧ cmpUpper I J ≥ 0)

/-! ### order facts on bounds -/

theorem cmpLower_lt_iff (I J : VI) :
    cmpLower I J < 0 ↔ EP.cmp I.lower J.lower < 0 ∨ (I.lower = J.lower ∧ I.aOpen = false ∧ J.aOpen = true) := by
  unfold cmpLower
  dsimp only
  by_cases h0 : EP.cmp I.lower J.lower = 0
  · have he := (EP.cmp_eq_zero _ _).1 h0
    rw [h0]
    simp only [ne_eq, not_true_eq_false, if_false, lt_irrefl, false_or]
    cases I.aOpen <;> cases J.aOpen <;> simp [he]
  · have hne : I.lower ≠ J.lower := fun h => h0 ((EP.cmp_eq_zero _ _).2 h)
    simp only [ne_eq, h0, not_false_eq_true, if_true, hne, false_and, or_false]

theorem cmpLower_eq_iff (I J : VI) : cmpLower I J = 0 ↔ I.lower = J.lower ∧ I.aOpen = J.aOpen := by
  unfold cmpLower
  dsimp only
  by_cases h0 : EP.cmp I.lower J.lower = 0
  · have he := (EP.cmp_eq_zero _ _).1 h0
    rw [h0]
    simp only [ne_eq, not_true_eq_false, if_false]
    cases I.aOpen <;> cases J.aOpen <;> simp [he]
  · have hne : I.lower ≠ J.lower := fun h => h0 ((EP.cmp_eq_zero _ _).2 h)
    simp only [ne_eq, h0, not_false_eq_true, if_true, hne, false_and]

theorem cmpUpper_ge_iff (I J : VI) :
    cmpUpper I J ≥ 0 ↔ EP.cmp I.upper J.upper > 0 ∨ (I.upper = J.upper ∧ (I.bOpen = true → J.bOpen = true)) := by
  unfold cmpUpper
  dsimp only
  by_cases h0 : EP.cmp I.upper J.upper = 0
  · have he := (EP.cmp_eq_zero _ _).1 h0
    rw [h0]
    simp only [ne_eq, not_true_eq_false, if_false, gt_iff_lt, lt_irrefl, false_or]
    cases I.bOpen <;> cases J.bOpen <;> simp [he]
  · have hne : I.upper ≠ J.upper := fun h => h0 ((EP.cmp_eq_zero _ _).2 h)
    simp only [ne_eq, h0, not_false_eq_true, if_true, hne, false_and, or_false]
    omega

theorem EP.cmp_gt_trans (a b c : EP) (h1 : EP.cmp a b > 0) (h2 : EP.cmp b c > 0) : EP.cmp a c > 0 := by
  have := EP.cmp_lt_trans c b a (EP.cmp_neg_of_pos _ _ h2) (EP.cmp_neg_of_pos _ _ h1)
  exact EP.cmp_pos_of_neg _ _ this

theorem cmpLower_lt_of_lt_of_le (I J K : VI) (h1 : cmpLower I J < 0) (h2 : LowLe J K) : cmpLower I K < 0 := by
  rw [cmpLower_lt_iff] at *
  rw [lowLe_iff] at h2
  rcases h1 with h1 | ⟨e1, o1, o1'⟩ <;> rcases h2 with h2 | ⟨e2, o2⟩
  · exact Or.inl (EP.cmp_lt_trans _ _ _ h1 h2)
  · exact Or.inl (e2 ▸ h1)
  · exact Or.inl (e1 ▸ h2)
  · exact Or.inr ⟨e1.trans e2, o1, o2 o1'⟩

theorem cmpLower_lt_of_le_of_lt (I J K : VI) (h1 : LowLe I J) (h2 : cmpLower J K < 0) : cmpLower I K < 0 := by
  rw [cmpLower_lt_iff] at *
  rw [lowLe_iff] at h1
  rcases h1 with h1 | ⟨e1, o1⟩ <;> rcases h2 with h2 | ⟨e2, o2, o2'⟩
  · exact Or.inl (EP.cmp_lt_trans _ _ _ h1 h2)
  · exact Or.inl (e2 ▸ h1)
  · exact Or.inl (e1 ▸ h2)
  · refine Or.inr ⟨e1.trans e2, ?_, o2'⟩
    cases h : I.aOpen
    · rfl
    · rw [o1 h] at o2; exact absurd o2 (by simp)

theorem cmpUpper_ge_trans (I J K : VI) (h1 : cmpUpper I J ≥ 0) (h2 : cmpUpper J K ≥ 0) : cmpUpper I K ≥ 0 := by
  rw [cmpUpper_ge_iff] at *
  rcases h1 with h1 | ⟨e1, o1⟩ <;> rcases h2 with h2 | ⟨e2, o2⟩
  · exact Or.inl (EP.cmp_gt_trans _ _ _ h1 h2)
  · exact Or.inl (e2 ▸ h1)
  · exact Or.inl (e1 ▸ h2)
  · exact Or.inr ⟨e1.trans e2, fun h => o2 (o1 h)⟩

theorem le2_lowLe (I J : VI) (h : Le2 I J) : LowLe I J := by
  unfold Le2 at h; unfold LowLe; omega

theorem le2_trans (I J K : VI) (h1 : Le2 I J) (h2 : Le2 J K) : Le2 I K := by
  rcases h1 with h1 | ⟨e1, u1⟩
  · exact Or.inl (cmpLower_lt_of_lt_of_le I J K h1 (le2_lowLe J K h2))
  · rcases h2 with h2 | ⟨e2, u2⟩
    · exact Or.inl (cmpLower_lt_of_le_of_lt I J K (by unfold LowLe; omega) h2)
    · refine Or.inr ⟨?_, cmpUpper_ge_trans I J K u1 u2⟩
      rw [cmpLower_eq_iff] at *
      exact ⟨e1.1.trans e2.1, e1.2.trans e2.2⟩

theorem cmpUpper_flip (I J : VI) : cmpUpper J I = - cmpUpper I J := by
  unfold cmpUpper
  dsimp only
  rw [EP.cmp_flip I.upper J.upper]
  by_cases h : EP.cmp I.upper J.upper = 0
  · simp only [h, neg_zero, ne_eq, not_true_eq_false, if_false]
    cases I.bOpen <;> cases J.bOpen <;> simp
  · have : ¬ (- EP.cmp I.upper J.upper = 0) := by omega
    simp only [ne_eq, h, this, not_false_eq_true, if_true]

/-- the sort key realises `Le2` -/
theorem sortKey_le2 (I1 I2 : VI) : (sortKey I1 I2 ≤ 0 → Le2 I1 I2) ∧ (¬ sortKey I1 I2 ≤ 0 → Le2 I2 I1) := by
  have f1 := cmpLower_flip I1 I2
  have f2 := cmpUpper_flip I1 I2
  have sp := cwi_spec I1 I2
  unfold Le2
  unfold sortKey
  cases hc : (cmpWithIntersect I1 I2).1 <;> rw [hc] at sp <;> simp only [ClassSpec] at sp <;> simp <;> omega

theorem insertBy_sorted2 (x : VI) (l : List VI) (h : l.Pairwise Le2) : (insertBy x l).Pairwise Le2 := by
  induction l with
  | nil => exact List.pairwise_singleton _ _
  | cons y l ih =>
    unfold insertBy
    obtain ⟨hy, hl⟩ := List.pairwise_cons.1 h
    split_ifs with hk
    · have hxy := (sortKey_le2 x y).1 hk
      refine List.pairwise_cons.2 ⟨?_, h⟩
      intro z hz
      rcases List.mem_cons.1 hz with rfl | hz
      · exact hxy
      · exact le2_trans _ _ _ hxy (hy z hz)
    · have hyx := (sortKey_le2 x y).2 hk
      refine List.pairwise_cons.2 ⟨?_, ih hl⟩
      intro z hz
      have := (insertBy_perm x l).mem_iff.1 hz
      rcases List.mem_cons.1 this with rfl | hz
      · exact hyx
      · exact hy z hz

theorem sortForUnion_sorted2 (l : List VI) : (sortForUnion l).Pairwise Le2 := by
  induction l with
  | nil => exact List.Pairwise.nil
  | cons x l ih => exact insertBy_sorted2 x _ ih

/-! ### the merge pass keeps the normal form -/

/-- normal form: well-formed intervals, consecutive ones separated by a gap that cannot be closed -/
def NFs (s : List VI) : Prop := (∀ I ∈ s, I.WF) ∧ s.IsChain Gap

theorem EP.cmp_le_trans (a b c : EP) (h1 : EP.cmp a b ≤ 0) (h2 : EP.cmp b c ≤ 0) : EP.cmp a c ≤ 0 := by
  rcases lt_or_eq_of_le h1 with h1 | h1
  · rcases lt_or_eq_of_le h2 with h2 | h2
    · exact (EP.cmp_lt_trans _ _ _ h1 h2).le
    · rw [← (EP.cmp_eq_zero _ _).1 h2]; exact h1.le
  · rw [(EP.cmp_eq_zero _ _).1 h1]; exact h2

theorem wf_lower_le_upper (I : VI) (h : I.WF) : EP.cmp I.lower I.upper ≤ 0 := by
  unfold WF at h
  by_cases hp : I.isPoint = true
  · simp [lower, upper, hp, EP.cmp_self]
  · rw [if_neg hp] at h
    have : I.upper = I.b := by simp [upper, hp]
    rw [this]; exact h.1.le

theorem wf_lower_fin_of_closed (I : VI) (h : I.WF) (ho : I.aOpen = false) : ∃ q, I.a = .fin q := by
  unfold WF at h
  by_cases hp : I.isPoint = true
  · rw [if_pos hp] at h; exact h.1
  · rw [if_neg hp] at h
    rcases ha : I.a with _ | q | _
    · have := h.2.1 ha; rw [ho] at this; exact absurd this (by simp)
    · exact ⟨q, rfl⟩
    · exact absurd ha h.2.2.2.1

theorem wf_upper_facts (I : VI) (h : I.WF) : I.upper ≠ .ninf ∧ (I.upper = .pinf → I.bOpen = true) := by
  unfold WF at h
  by_cases hp : I.isPoint = true
  · rw [if_pos hp] at h
    obtain ⟨⟨q, hq⟩, _, _⟩ := h
    simp [upper, hp, hq]
  · rw [if_neg hp] at h
    have : I.upper = I.b := by simp [upper, hp]
    rw [this]; exact ⟨h.2.2.2.2, h.2.2.1⟩

theorem wf_lower_facts (I : VI) (h : I.WF) : I.a ≠ .pinf ∧ (I.a = .ninf → I.aOpen = true) := by
  unfold WF at h
  by_cases hp : I.isPoint = true
  · rw [if_pos hp] at h
    obtain ⟨⟨q, hq⟩, _, _⟩ := h
    simp [hq]
  · rw [if_neg hp] at h
    exact ⟨h.2.2.2.1, h.2.1⟩

/-- the fused interval is well-formed -/
theorem wf_setB (I1 I2 : VI) (h1 : I1.WF) (h2 : I2.WF) (hl : LowLe I1 I2) : (setB I1 I2.upper I2.bOpen).WF := by
  have sc := merge_sc I1 I2 h2 hl
  obtain ⟨u1, u2⟩ := wf_upper_facts I2 h2
  obtain ⟨l1, l2⟩ := wf_lower_facts I1 h1
  unfold setB
  by_cases h : EP.cmp I1.a I2.upper = 0
  · obtain ⟨ho, _⟩ := sc h
    have he := (EP.cmp_eq_zero _ _).1 h
    obtain ⟨q, hq⟩ := wf_lower_fin_of_closed I1 h1 ho
    simp only [h, ne_eq, not_true_eq_false, if_false]
    unfold WF point
    simp only [if_true, and_self, and_true]
    exact ⟨q, by rw [← he, hq]⟩
  · simp only [ne_eq, h, not_false_eq_true, if_true]
    unfold WF
    simp only [Bool.false_eq_true, if_false]
    refine ⟨?_, l2, u2, l1, u1⟩
    have hle : EP.cmp I1.a I2.upper ≤ 0 := by
      have a1 : EP.cmp I1.lower I2.lower ≤ 0 := by
        rcases (lowLe_iff I1 I2).1 hl with hh | ⟨hh, _⟩
        · exact hh.le
        · rw [hh, EP.cmp_self]
      exact EP.cmp_le_trans _ _ _ a1 (wf_lower_le_upper I2 h2)
    omega

theorem gap_congr (K I M : VI) (h1 : M.lower = I.lower) (h2 : M.aOpen = I.aOpen) : Gap K M ↔ Gap K I := by
  unfold Gap; rw [h1, h2]

theorem cmpUpper_congr (M I J : VI) (h1 : M.upper = I.upper) (h2 : M.bOpen = I.bOpen) : cmpUpper M J = cmpUpper I J := by
  unfold cmpUpper; rw [h1, h2]

theorem cmpLower_congr (M I J : VI) (h1 : M.lower = I.lower) (h2 : M.aOpen = I.aOpen) : cmpLower M J = cmpLower I J := by
  unfold cmpLower; rw [h1, h2]

/-- the fused interval keeps its place in the sort order -/
theorem le2_setB (I1 I2 J : VI) (hw : I2.WF) (h12 : Le2 I1 I2) (h1J : Le2 I1 J) (h2J : Le2 I2 J) :
    Le2 (setB I1 I2.upper I2.bOpen) J := by
  have hl := le2_lowLe I1 I2 h12
  obtain ⟨b1, b2, b3, b4⟩ := setB_bounds I1 I2.upper I2.bOpen (merge_sc I1 I2 hw hl)
  unfold Le2
  rw [cmpLower_congr _ I1 J b1 b2, cmpUpper_congr _ I2 J b3 b4]
  rcases h1J with h | ⟨h, _⟩
  · exact Or.inl h
  · rcases h2J with h' | ⟨_, h'⟩
    · have := cmpLower_lt_of_le_of_lt I1 I2 J hl h'
      omega
    · exact Or.inr ⟨h, h'⟩

/-- the merge pass returns a list in normal form -/
theorem mergeLoop_nf : ∀ (l kept : List VI), (∀ I ∈ l, I.WF) → l.Pairwise Le2 →
    (∀ I1, kept.head? = some I1 → ∀ J ∈ l, Le2 I1 J) →
    (∀ I ∈ kept, I.WF) → kept.IsChain (fun J I => Gap I J) → NFs (mergeLoop l kept) := by
  intro l
  induction l with
  | nil =>
    intro kept _ _ _ hkw hkc
    rw [mergeLoop]
    exact ⟨fun I hI => hkw I (List.mem_reverse.1 hI), List.isChain_reverse.2 hkc⟩
  | cons I2 rest ih =>
    intro kept hw hs hk hkw hkc
    obtain ⟨h2, hs'⟩ := List.pairwise_cons.1 hs
    have hw' : ∀ I ∈ rest, I.WF := fun I hI => hw I (List.mem_cons_of_mem _ hI)
    have hw2 : I2.WF := hw I2 List.mem_cons_self
    cases kept with
    | nil =>
      rw [mergeLoop]
      refine ih [I2] hw' hs' (fun I1 h J hJ => by simp at h; subst h; exact h2 J hJ) ?_ (List.isChain_singleton _)
      intro I hI; simp at hI; subst hI; exact hw2
    | cons I1 kept =>
      have h12 : Le2 I1 I2 := hk I1 rfl I2 List.mem_cons_self
      have hl12 := le2_lowLe I1 I2 h12
      have hw1 : I1.WF := hkw I1 List.mem_cons_self
      have hkw' : ∀ I ∈ kept, I.WF := fun I hI => hkw I (List.mem_cons_of_mem _ hI)
      have sp := cwi_spec I1 I2
      rw [mergeLoop_cons_cons]
      by_cases hm : mergeB I1 I2 = true
      · rw [if_pos hm]
        obtain ⟨b1, b2, _, _⟩ := setB_bounds I1 I2.upper I2.bOpen (merge_sc I1 I2 hw2 hl12)
        refine ih _ hw' hs' ?_ ?_ ?_
        · intro I h J hJ
          simp at h; subst h
          exact le2_setB I1 I2 J hw2 h12 (hk I1 rfl J (List.mem_cons_of_mem _ hJ)) (h2 J hJ)
        · intro I hI
          rcases List.mem_cons.1 hI with rfl | hI
          · exact wf_setB I1 I2 hw1 hw2 hl12
          · exact hkw' I hI
        · cases kept with
          | nil => exact List.isChain_singleton _
          | cons K kept' =>
            have := List.isChain_cons_cons.1 hkc
            exact List.isChain_cons_cons.2 ⟨(gap_congr K I1 _ b1 b2).2 this.1, this.2⟩
      · rw [if_neg hm]
        have hm' : mergeB I1 I2 = false := by simpa using hm
        by_cases hi : ignoreB I1 I2 = true
        · rw [if_pos hi]
          exact ih _ hw' hs' (fun I h J hJ => by simp at h; subst h; exact hk I1 rfl J (List.mem_cons_of_mem _ hJ)) hkw hkc
        · rw [if_neg hi]
          -- pushed: only possible when I1 ends before I2 starts with a gap that cannot be closed
          have hgap : Gap I1 I2 := by
            unfold Le2 at h12
            unfold mergeB at hm'
            unfold ignoreB at hi
            unfold Gap
            cases hc : (cmpWithIntersect I1 I2).1 <;> rw [hc] at sp hm' hi <;> simp only [ClassSpec] at sp <;>
              simp at hm' hi <;> (try omega)
            rcases sp.2.2 with h | ⟨h, hh⟩
            · exact Or.inl h
            · refine Or.inr ⟨h, ?_⟩
              have := hm' h
              cases hb : I1.bOpen <;> cases ha : I2.aOpen <;> simp_all
          refine ih _ hw' hs' (fun I h J hJ => by simp at h; subst h; exact h2 J hJ) ?_ ?_
          · intro I hI
            rcases List.mem_cons.1 hI with rfl | hI
            · exact hw2
            · exact hkw I hI
          · exact List.isChain_cons_cons.2 ⟨hgap, hkc⟩

/-- **The union is returned in normal form.** -/
theorem C13_union_nf (s frm : List VI) (hs : NFs s) (hf : ∀ I ∈ frm, I.WF) : NFs (add s frm) := by
  unfold add
  by_cases he : frm.isEmpty = true
  · rw [if_pos he]; exact hs
  · rw [if_neg he]
    by_cases hfull : isFull s = true
    · rw [if_pos hfull]; exact hs
    · rw [if_neg hfull]
      refine mergeLoop_nf _ [] ?_ (sortForUnion_sorted2 _) (fun I1 h => by simp at h) (fun I hI => by simp at hI) List.isChain_nil
      intro I hI
      have := (sortForUnion_perm (s ++ frm)).mem_iff.1 hI
      rcases List.mem_append.1 this with h | h
      · exact hs.1 I h
      · exact hf I h

/-- intervals separated by a gap are separated as sets -/
theorem gap_sep {α : Type*} [Field α] [LinearOrder α] [IsStrictOrderedRing α] (I J : VI) (h : Gap I J) (x y : α)
    (hx : upperOK I.upper I.bOpen x) (hy : lowerOK J.lower J.aOpen y) : x < y := by
  by_contra hxy
  push Not at hxy
  have hy' : lowerOK J.lower J.aOpen x := lowerOK_mono _ _ y x hy hxy
  refine bounds_disjoint I.upper J.lower I.bOpen J.aOpen ?_ x ⟨hx, hy'⟩
  rcases h with h | ⟨h, h1, h2⟩
  · exact Or.inl h
  · exact Or.inr ⟨h, Or.inl h1⟩

/-! non-vacuity: the hypotheses of `C13_union_nf` / `C13_union` are met by the operands of the example in `C13Union` -/
example : NFs [VI.mk' (.fin 0) false (.fin 1) true, VI.mk' (.fin 3) true (.fin 4) true] ∧
    (∀ I ∈ [VI.point (.fin 0), VI.mk' (.fin 1) false (.fin 2) false], I.WF) := by
  refine ⟨⟨?_, ?_⟩, ?_⟩
  · intro I hI
    simp only [List.mem_cons, List.mem_nil_iff, or_false] at hI
    rcases hI with rfl | rfl <;> simp [VI.WF, VI.mk', EP.cmp, cmpQ] <;> norm_num
  · refine List.isChain_cons_cons.2 ⟨Or.inl ?_, List.isChain_singleton _⟩
    simp [VI.mk', VI.upper, VI.lower, EP.cmp, cmpQ] <;> norm_num
  · intro I hI
    simp only [List.mem_cons, List.mem_nil_iff, or_false] at hI
    rcases hI with rfl | rfl <;> simp [VI.WF, VI.mk', VI.point, EP.cmp, cmpQ] <;> norm_num

end FSet
end LP
