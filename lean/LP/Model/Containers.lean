/-
  C20 — mirror of src/polynomial/polynomial_hash_set.c (open addressing, linear probing, backward-shift
  deletion, growth at 70 % load, close/at/clear/intersect), polynomial_heap.c (binary max-heap with
  removal of arbitrary elements) and polynomial_vector.c.  Elements are abstract: a key (identity of the
  polynomial up to equality) and the hash value the library computed for it.  Core Lean only.
-/
import LP.Model.Util
namespace LP

structure Elem where
  key : Nat
  hash : Nat
  deriving DecidableEq, Repr, Inhabited

structure HSet where
  data : Array (Option Elem)
  size : Nat
  threshold : Nat
  closed : Bool
  deriving Repr

namespace HSet

def defaultSize : Nat := 64
/-- `size * 0.7` truncated, as the C double-to-size_t conversion does -/
def thresholdOf (n : Nat) : Nat := n * 7 / 10

def empty : HSet := ⟨Array.replicate defaultSize none, 0, thresholdOf defaultSize, false⟩

def home (n : Nat) (e : Elem) : Nat := e.hash % n

/-- probe from `i`: index of the slot holding `key`, or of the first empty slot -/
def probe (data : Array (Option Elem)) (key : Nat) : Nat → Nat → Option (Nat × Bool)
  | 0, _ => none
  | fuel+1, i =>
    match data.getD i none with
    | none => some (i, false)
    | some e => if e.key = key then some (i, true) else probe data key fuel ((i + 1) % data.size)

/-- first empty slot from `i` (insert without duplicate check) -/
def probeEmpty (data : Array (Option Elem)) : Nat → Nat → Option Nat
  | 0, _ => none
  | fuel+1, i =>
    match data.getD i none with
    | none => some i
    | some _ => probeEmpty data fuel ((i + 1) % data.size)

def contains (s : HSet) (e : Elem) : Bool :=
  match probe s.data e.key s.data.size (home s.data.size e) with
  | some (_, found) => found
  | none => false

/-- `lp_polynomial_hash_set_extend`: rehash into a table of twice the size, in slot order -/
def extend (s : HSet) : HSet :=
  let n := s.data.size * 2
  let fresh : Array (Option Elem) := Array.replicate n none
  let data := s.data.foldl (fun acc slot =>
    match slot with
    | none => acc
    | some e =>
      match probeEmpty acc n (home n e) with
      | some i => acc.set! i (some e)
      | none => acc) fresh
  { s with data := data, threshold := thresholdOf n }

def insert (s : HSet) (e : Elem) : HSet × Bool :=
  match probe s.data e.key s.data.size (home s.data.size e) with
  | some (i, false) =>
    let s1 := { s with data := s.data.set! i (some e), size := s.size + 1 }
    ((if s1.size > s1.threshold then extend s1 else s1), true)
  | _ => (s, false)

/-- backward-shift deletion starting with a hole at `i` -/
def shiftBack (data : Array (Option Elem)) : Nat → Nat → Nat → Array (Option Elem)
  | 0, _, _ => data
  | fuel+1, hole, j0 =>
    let n := data.size
    let j := (j0 + 1) % n
    match data.getD j none with
    | none => data
    | some e =>
      let h := home n e
      if (j + n - h) % n ≥ (j + n - hole) % n then
        shiftBack ((data.set! hole (some e)).set! j none) fuel j j
      else shiftBack data fuel hole j

def removeAt (data : Array (Option Elem)) (i : Nat) : Array (Option Elem) :=
  shiftBack (data.set! i none) data.size i i

def remove (s : HSet) (e : Elem) : HSet × Bool :=
  match probe s.data e.key s.data.size (home s.data.size e) with
  | some (i, true) => ({ s with data := removeAt s.data i, size := s.size - 1 }, true)
  | _ => (s, false)

/-- `lp_polynomial_hash_set_intersect`: sweep the slots, re-examining a slot after a removal -/
def intersectLoop (keep : Elem → Bool) : Nat → Nat → HSet → HSet
  | 0, _, s => s
  | fuel+1, i, s =>
    if i ≥ s.data.size then s else
    match s.data.getD i none with
    | none => intersectLoop keep fuel (i + 1) s
    | some e =>
      if keep e then intersectLoop keep fuel (i + 1) s
      else intersectLoop keep fuel i { s with data := removeAt s.data i, size := s.size - 1 }

def intersect (s : HSet) (keep : Elem → Bool) : HSet :=
  intersectLoop keep (s.data.size * 2 + s.size + 2) 0 s

/-- enumeration after `close`: the non-empty slots in slot order -/
def closeList (s : HSet) : List Elem := s.data.toList.filterMap id

def keys (s : HSet) : List Nat := (closeList s).map (·.key)

end HSet

/-! ### heap -/

structure Heap where
  data : Array Int          -- elements identified by their rank under the comparison function
  deriving Repr

namespace Heap

def empty : Heap := ⟨#[]⟩

def swap (a : Array Int) (i j : Nat) : Array Int :=
  let x := a.getD i 0
  let y := a.getD j 0
  (a.set! i y).set! j x

/-- `heapify_up` from 1-based position `pos` -/
def siftUp (a : Array Int) : Nat → Nat → Array Int
  | 0, _ => a
  | fuel+1, pos =>
    if pos > 1 ∧ a.getD (pos / 2 - 1) 0 < a.getD (pos - 1) 0 then
      siftUp (swap a (pos / 2 - 1) (pos - 1)) fuel (pos / 2)
    else a

/-- `heapify_down` from 1-based position `pos`, heap of `size` elements -/
def siftDown (a : Array Int) (size : Nat) : Nat → Nat → Array Int
  | 0, _ => a
  | fuel+1, pos =>
    if 2 * pos ≤ size then
      let l := 2 * pos
      let r := 2 * pos + 1
      let o := if r ≤ size ∧ a.getD (l - 1) 0 < a.getD (r - 1) 0 then r else l
      if a.getD (pos - 1) 0 ≥ a.getD (o - 1) 0 then a
      else siftDown (swap a (pos - 1) (o - 1)) size fuel o
    else a

def push (h : Heap) (x : Int) : Heap :=
  let a := h.data.push x
  ⟨siftUp a (a.size + 1) a.size⟩

def peek (h : Heap) : Option Int := h.data[0]?

def pop (h : Heap) : Heap × Option Int :=
  match h.data[0]? with
  | none => (h, none)
  | some top =>
    let last := h.data.back!
    let a := (h.data.set! 0 last).pop
    (⟨siftDown a a.size (a.size + 1) 1⟩, some top)

/-- `lp_polynomial_heap_remove`: remove every element equal to `x`; returns the number removed -/
def removeLoop (x : Int) : Nat → Nat → Array Int → Nat → Array Int × Nat
  | 0, _, a, cnt => (a, cnt)
  | fuel+1, i, a, cnt =>
    if i ≥ a.size then (a, cnt)
    else if a.getD i 0 = x then
      let last := a.back!
      let a1 := (a.set! i last).pop
      let a2 := if i < a1.size then siftDown (siftUp a1 (a1.size + 1) (i + 1)) a1.size (a1.size + 1) (i + 1) else a1
      removeLoop x fuel 0 a2 (cnt + 1)
    else removeLoop x fuel (i + 1) a cnt

def remove (h : Heap) (x : Int) : Heap × Nat :=
  let r := removeLoop x ((h.data.size + 1) * (h.data.size + 1) + 1) 0 h.data 0
  (⟨r.1⟩, r.2)

end Heap
/-! ### abstract specifications (the reference the implementation's answers are compared with) -/

/-- abstract set semantics used as the property-level oracle -/
structure SpecSet where
  keys : List Nat

def SpecSet.has (s : SpecSet) (k : Nat) : Bool := s.keys.contains k
def SpecSet.ins (s : SpecSet) (k : Nat) : SpecSet := if s.has k then s else ⟨k :: s.keys⟩
def SpecSet.del (s : SpecSet) (k : Nat) : SpecSet := ⟨s.keys.filter (· ≠ k)⟩


/-- maximum of a bag (list), `none` for the empty bag -/
def listMax? (l : List Int) : Option Int := l.foldl (fun acc x => match acc with | none => some x | some m => some (max m x)) none

/-- remove one occurrence -/
def eraseOne (l : List Int) (x : Int) : List Int :=
  match l with
  | [] => []
  | y :: r => if y = x then r else y :: eraseOne r x


end LP
