import LP.Props.C01
#print axioms LP.C01_placeholder
