/-
  C04 — reference definitions: Sylvester matrix, resultant, k-th subresultant and principal subresultant
  coefficient of two polynomials in a variable `x`, as determinants (Laplace expansion) over the
  polynomial ring in the remaining variables.  Core Lean only.
-/
import LP.Model.MPoly
namespace LP
namespace MPoly

abbrev Matrix := List (List MPoly)

def removeAt {α} (l : List α) (i : Nat) : List α := l.take i ++ l.drop (i + 1)

/-- Laplace expansion along the first row; zero entries are skipped -/
def det (K : Ring) : Nat → Matrix → MPoly
  | 0, _ => const K 1
  | _, [] => const K 1
  | fuel+1, row :: rest =>
    row.zipIdx.foldl (fun acc (e : MPoly × Nat) =>
      if e.1.isEmpty then acc
      else
        let minor := rest.map (fun r => removeAt r e.2)
        let term := mul K e.1 (det K fuel minor)
        if e.2 % 2 = 0 then add K acc term else sub K acc term) []

/-- coefficient vector of `p` in `x`, highest degree first, padded to `width` columns with `shift` leading zeros:
    the row of x^s * p in a matrix whose columns are x^(width-1), …, x^0 -/
def rowOf (K : Ring) (x : Nat) (p : MPoly) (deg : Nat) (width shiftLeft : Nat) : List MPoly :=
  -- `shiftLeft` zero columns, the coefficients of x^deg … x^0, zero columns up to `width`
  List.replicate shiftLeft [] ++ (List.range (deg + 1)).map (fun t => coeffIn K x (deg - t) p) ++
    List.replicate (width - shiftLeft - deg - 1) []

/-- the (m+n-2k) × (m+n-k) Sylvester matrix of order k: rows x^(n-k-1) p … p, x^(m-k-1) q … q -/
def sylvesterK (K : Ring) (x : Nat) (p q : MPoly) (k : Nat) : Matrix :=
  let m := degreeIn x p
  let n := degreeIn x q
  let width := m + n - k
  ((List.range (n - k)).map (fun i => rowOf K x p m width i)) ++
  ((List.range (m - k)).map (fun i => rowOf K x q n width i))

/-- determinant of the square matrix made of the first (m+n-2k-1) columns and the column of x^i -/
def sresCoeff (K : Ring) (x : Nat) (p q : MPoly) (k i : Nat) : MPoly :=
  let m := degreeIn x p
  let n := degreeIn x q
  let size := m + n - 2 * k
  let width := m + n - k
  let M := sylvesterK K x p q k
  -- column index of x^i is width-1-i
  let sq := M.map (fun r => r.take (size - 1) ++ [r.getD (width - 1 - i) []])
  det K (size + 1) sq

/-- principal subresultant coefficient psc_k = coefficient of x^k in S_k -/
def pscSpec (K : Ring) (x : Nat) (p q : MPoly) (k : Nat) : MPoly := sresCoeff K x p q k k

/-- resultant = psc_0 = determinant of the Sylvester matrix -/
def resultantSpec (K : Ring) (x : Nat) (p q : MPoly) : MPoly := pscSpec K x p q 0

/-- k-th subresultant polynomial S_k = Σ_{i ≤ k} det(M_k^{(i)}) x^i.
    For equal degrees m = n the matrix of order k = n is empty and S_n is the second polynomial by convention. -/
def sresSpec (K : Ring) (x : Nat) (p q : MPoly) (k : Nat) : MPoly :=
  if degreeIn x p = degreeIn x q ∧ k = degreeIn x q then q
  else (List.range (k + 1)).foldl (fun acc i => add K acc (shl K (sresCoeff K x p q k i) x i)) []

end MPoly
end LP
