/-
  C15 — mirror of src/interval/arithmetic.c for rational and dyadic intervals
  (`rational_interval_{add,neg,sub,mul,pow}` and the dyadic twins, which run the same
  algorithm on exact dyadic arithmetic), `*_interval_sgn`, `*_endpoint_lt`.
  Core Lean only.
-/
import LP.Model.Scalar
namespace LP

/-- an interval with rational end points; for a point interval only `a` is meaningful
    (canonical form: `b = a`, both flags false). -/
structure QI where
  a : Rat
  b : Rat
  aOpen : Bool
  bOpen : Bool
  isPoint : Bool
  deriving DecidableEq, Repr, Inhabited

namespace QI

def point (q : Rat) : QI := ⟨q, q, false, false, true⟩
def mk' (a : Rat) (ao : Bool) (b : Rat) (bo : Bool) : QI := ⟨a, b, ao, bo, false⟩

/-- well-formed: proper intervals have `a < b`. -/
def wf (I : QI) : Bool := if I.isPoint then (I.b = I.a ∧ !I.aOpen ∧ !I.bOpen) else decide (I.a < I.b)

/-- membership of a rational number (decidable, used by the driver's property-level oracle) -/
def mem (x : Rat) (I : QI) : Bool :=
  if I.isPoint then decide (x = I.a)
  else (if I.aOpen then decide (I.a < x) else decide (I.a ≤ x)) && (if I.bOpen then decide (x < I.b) else decide (x ≤ I.b))

/-- `*_interval_endpoint_lt` -/
def endpointLt (a : Rat) (aOpen : Bool) (b : Rat) (bOpen : Bool) : Bool :=
  if a = b then (!aOpen && bOpen) else decide (a < b)

/-- `lp_rational_interval_sgn` / `lp_dyadic_interval_sgn` -/
def sgn (I : QI) : Int :=
  let sa := sgnQ I.a
  if I.isPoint then sa else
  let sb := sgnQ I.b
  if sa < 0 ∧ sb > 0 then 0
  else if sa = 0 then (if !I.aOpen then 0 else 1)
  else if sb = 0 then (if !I.bOpen then 0 else -1)
  else if sa < 0 then -1 else 1

/-- `*_interval_add` -/
def add (I1 I2 : QI) : QI :=
  if I1.isPoint ∧ I2.isPoint then point (I1.a + I2.a)
  else if I2.isPoint then mk' (I1.a + I2.a) I1.aOpen (I1.b + I2.a) I1.bOpen
  else if I1.isPoint then mk' (I2.a + I1.a) I2.aOpen (I2.b + I1.a) I2.bOpen
  else mk' (I1.a + I2.a) (I1.aOpen || I2.aOpen) (I1.b + I2.b) (I1.bOpen || I2.bOpen)

/-- `*_interval_neg` -/
def neg (I : QI) : QI :=
  if I.isPoint then point (-I.a) else mk' (-I.b) I.bOpen (-I.a) I.aOpen

/-- `*_interval_sub` -/
def sub (I1 I2 : QI) : QI := add I1 (neg I2)

/-- a candidate end point: value and openness -/
abbrev EPt := Rat × Bool

/-- lower end update of the multiplication sweep: take the candidate when it is smaller,
    or equal and closed while the current one is open. -/
def betterLo (cur cand : EPt) : EPt := if endpointLt cand.1 cand.2 cur.1 cur.2 then cand else cur
/-- upper end update: take the candidate when it is larger, or equal and closed while the current one is open. -/
def betterHi (cur cand : EPt) : EPt := if endpointLt cur.1 (!cur.2) cand.1 (!cand.2) then cand else cur

/-- is `0` a closed end point of `I` -/
def closedZeroEnd (I : QI) : Bool := (I.a = 0 && !I.aOpen) || (I.b = 0 && !I.bOpen)

/-- the general (non-point × non-point) product -/
def mulGeneral (I1 I2 : QI) : QI :=
  let c0 : EPt := (I1.a * I2.a, I1.aOpen || I2.aOpen)
  let c1 : EPt := (I1.a * I2.b, I1.aOpen || I2.bOpen)
  let c2 : EPt := (I1.b * I2.a, I1.bOpen || I2.aOpen)
  let c3 : EPt := (I1.b * I2.b, I1.bOpen || I2.bOpen)
  let lo := [c1, c2, c3].foldl betterLo c0
  let hi := [c1, c2, c3].foldl betterHi c0
  -- an end point 0 is attained as soon as one factor has a closed end point 0
  let cz := closedZeroEnd I1 || closedZeroEnd I2
  let loOpen := if lo.1 = 0 ∧ cz then false else lo.2
  let hiOpen := if hi.1 = 0 ∧ cz then false else hi.2
  mk' lo.1 loOpen hi.1 hiOpen

/-- point × proper interval -/
def mulPoint (p : Rat) (I : QI) : QI :=
  if p = 0 then point 0
  else if p > 0 then mk' (p * I.a) I.aOpen (p * I.b) I.bOpen
  else mk' (p * I.b) I.bOpen (p * I.a) I.aOpen

/-- `*_interval_mul` -/
def mul (I1 I2 : QI) : QI :=
  if I1.isPoint then
    if I2.isPoint then point (I1.a * I2.a) else mulPoint I1.a I2
  else if I2.isPoint then mulPoint I2.a I1
  else mulGeneral I1 I2

/-- `*_interval_pow` -/
def pow (I : QI) (n : Nat) : QI :=
  if n = 0 then point 1
  else if I.isPoint then point (I.a ^ n)
  else if n % 2 = 1 then mk' (I.a ^ n) I.aOpen (I.b ^ n) I.bOpen
  else
    let s := sgn I
    if s = 0 then
      -- [0, max(|a|,|b|)^n]; on a tie the closed end wins
      if endpointLt (I.b ^ n) (!I.bOpen) (I.a ^ n) (!I.aOpen) then mk' 0 false (I.a ^ n) I.aOpen
      else mk' 0 false (I.b ^ n) I.bOpen
    else if s > 0 then mk' (I.a ^ n) I.aOpen (I.b ^ n) I.bOpen
    else mk' (I.b ^ n) I.bOpen (I.a ^ n) I.aOpen

end QI
end LP
