/* C14 harness (roots and constraints part): root finding in Z_p, feasible sets and truth values of equality /
 * disequality constraints over Z_p, degree reduction x^p -> x.
 *   zp roots <p> <flags> u:f => n r1..rn            flags: 0 default finder, 4 randomised finder forced (hook)
 *   zp fs <p> P cond neg asg probes => set bits     asg = i=z;..  probes = list of field elements, bits = contains()
 *   zp evalc <p> P cond asg => b
 *   zp reduce <p> P => P'
 */
#include "common.h"
#include <poly.h>
#include <integer.h>
#include <polynomial.h>
#include <polynomial_context.h>
#include <variable_db.h>
#include <variable_order.h>
#include <upolynomial.h>
#include <assignment.h>
#include <value.h>
#include <sign_condition.h>
#include <feasibility_set_int.h>

#ifdef LIBPOLY_VERIF
extern int lp_verif_flags;
#else
static int lp_verif_flags;
#endif

static const char* primes[] = { "2", "3", "5", "7", "13", "101", "997", "1009", "10007", "2305843009213693951", "618970019642690137449562111" };
#define NPR (sizeof primes / sizeof primes[0])
static lp_int_ring_t* rings[NPR];
static lp_variable_db_t* db; static lp_variable_order_t* order; static lp_variable_t x[3];
static lp_polynomial_context_t* ctx[NPR];

static void init(void) {
  db = lp_variable_db_new(); order = lp_variable_order_new();
  for (int i = 0; i < 3; ++i) { char nm[8]; snprintf(nm, sizeof nm, "x%d", i); x[i] = lp_variable_db_new_variable(db, nm); lp_variable_order_push(order, x[i]); }
  for (unsigned r = 0; r < NPR; ++r) { mpz_t M; mpz_init_set_str(M, primes[r], 10); rings[r] = lp_int_ring_create(M, 1); mpz_clear(M); ctx[r] = lp_polynomial_context_new(rings[r], db, order); }
}
static void done(void) {
  for (unsigned r = 0; r < NPR; ++r) { lp_polynomial_context_detach(ctx[r]); lp_int_ring_detach(rings[r]); }
  lp_variable_order_detach(order); lp_variable_db_detach(db);
}

static void gen_elem(int ri, lp_integer_t* z) {
  mpz_t t; mpz_init(t);
  if (chance(60)) mpz_set_si(t, rnd_in(-6, 6)); else gen_mpz(t);
  lp_integer_construct_copy(rings[ri], z, t);       /* normalised into the ring */
  mpz_clear(t);
}

static void sb_upoly(const lp_upolynomial_t* p) {
  size_t d = lp_upolynomial_degree(p);
  lp_integer_t* c = (lp_integer_t*)malloc((d + 1) * sizeof(lp_integer_t));
  for (size_t i = 0; i <= d; ++i) lp_integer_construct(&c[i]);
  lp_upolynomial_unpack(p, c);
  sb_str("u:");
  for (size_t i = 0; i <= d; ++i) { if (i) sb_str(","); sb_mpz(&c[i]); lp_integer_destruct(&c[i]); }
  free(c);
}

static int first_term;
static void term_cb(const lp_polynomial_context_t* c, lp_monomial_t* m, void* data) {
  (void)c; (void)data;
  if (!first_term) sb_str("+"); first_term = 0;
  sb_mpz(&m->a);
  for (size_t i = 0; i < m->n; ++i) { sb_str("*x"); sb_ulong(m->p[i].x); sb_str("^"); sb_ulong(m->p[i].d); }
}
static void sb_poly(const lp_polynomial_t* p) {
  if (lp_polynomial_is_zero(p)) { sb_str("0"); return; }
  first_term = 1; lp_polynomial_traverse(p, term_cb, 0);
}

/* univariate polynomial over the field: product of linear factors (known roots) times an arbitrary cofactor */
static lp_upolynomial_t* gen_upoly(int ri) {
  lp_integer_t one; lp_integer_construct_from_int(rings[ri], &one, 1);
  lp_upolynomial_t* f = lp_upolynomial_construct(rings[ri], 0, &one);
  int nlin = rnd(4);
  for (int k = 0; k < nlin; ++k) {
    lp_integer_t c[2]; gen_elem(ri, &c[0]); lp_integer_construct_from_int(rings[ri], &c[1], 1);
    lp_upolynomial_t* l = lp_upolynomial_construct(rings[ri], 1, c);
    int m = chance(75) ? 1 : 2;
    for (int e = 0; e < m; ++e) { lp_upolynomial_t* t = lp_upolynomial_mul(f, l); lp_upolynomial_delete(f); f = t; }
    lp_upolynomial_delete(l); lp_integer_destruct(&c[0]); lp_integer_destruct(&c[1]);
  }
  if (chance(70) || nlin == 0) {
    unsigned d = 1 + rnd(3);
    lp_integer_t c[4]; for (unsigned i = 0; i <= d; ++i) gen_elem(ri, &c[i]);
    if (lp_integer_is_zero(rings[ri], &c[d])) lp_integer_assign_int(rings[ri], &c[d], 1);
    lp_upolynomial_t* g = lp_upolynomial_construct(rings[ri], d, c);
    lp_upolynomial_t* t = lp_upolynomial_mul(f, g); lp_upolynomial_delete(f); lp_upolynomial_delete(g); f = t;
    for (unsigned i = 0; i <= d; ++i) lp_integer_destruct(&c[i]);
  }
  lp_integer_destruct(&one);
  return f;
}

static void roots_case(int ri) {
  lp_upolynomial_t* f = gen_upoly(ri);
  if (lp_upolynomial_is_zero(f)) { lp_upolynomial_delete(f); return; }
  long p = ri < 9 ? atol(primes[ri]) : 0;
  for (int flags = 0; flags <= 4; flags += 4) {
    if (flags == 4 && !(p >= 3 && p < 1000)) continue;       /* the hook only matters below the threshold */
    lp_integer_t* roots = 0; size_t n = 0;
    sb_begin("zp", "roots"); sb_sp(); sb_str(primes[ri]); sb_sp(); sb_long(flags); sb_sp(); sb_upoly(f); sb_arrow();
    lp_verif_flags = flags;
    lp_upolynomial_roots_find_Zp(f, &roots, &n);
    lp_verif_flags = 0;
    sb_sp(); sb_ulong(n);
    for (size_t i = 0; i < n; ++i) { sb_sp(); sb_mpz(&roots[i]); lp_integer_destruct(&roots[i]); }
    sb_emit();
    free(roots);
  }
  lp_upolynomial_delete(f);
}

static lp_polynomial_t* P_simple(int ri, long c, int var, unsigned e) {
  lp_polynomial_t* p = lp_polynomial_alloc(); lp_integer_t z; lp_integer_construct_from_int(rings[ri], &z, c);
  lp_polynomial_construct_simple(p, ctx[ri], &z, x[var], e); lp_integer_destruct(&z); return p;
}

/* polynomial in x0, x1 and the main variable x2 */
static lp_polynomial_t* gen_mpoly(int ri, int with_main) {
  lp_polynomial_t* p = lp_polynomial_new(ctx[ri]);
  int nt = 1 + rnd(4);
  for (int t = 0; t < nt; ++t) {
    lp_polynomial_t* m = P_simple(ri, rnd_in(-5, 5), 0, rnd(3));
    lp_polynomial_t* v1 = P_simple(ri, 1, 1, rnd(3));
    lp_polynomial_mul(m, m, v1);
    if (with_main) { lp_polynomial_t* v2 = P_simple(ri, 1, 2, rnd(4)); lp_polynomial_mul(m, m, v2); lp_polynomial_delete(v2); }
    lp_polynomial_add(p, p, m);
    lp_polynomial_delete(m); lp_polynomial_delete(v1);
  }
  if (with_main && (lp_polynomial_is_constant(p) || lp_polynomial_top_variable(p) != x[2])) {
    lp_polynomial_t* v2 = P_simple(ri, 1, 2, 1 + rnd(2)); lp_polynomial_add(p, p, v2); lp_polynomial_delete(v2);
  }
  return p;
}

static void fs_case(int ri) {
  lp_polynomial_t* A = gen_mpoly(ri, 1);
  if (lp_polynomial_is_constant(A) || lp_polynomial_top_variable(A) != x[2]) { lp_polynomial_delete(A); return; }
  lp_assignment_t* M = lp_assignment_new(db);
  lp_integer_t z[2];
  for (int i = 0; i < 2; ++i) { gen_elem(ri, &z[i]); lp_value_t v; lp_value_construct(&v, LP_VALUE_INTEGER, &z[i]); lp_assignment_set_value(M, x[i], &v); lp_value_destruct(&v); }
  int cond = chance(50) ? LP_SGN_EQ_0 : LP_SGN_NE_0, neg = chance(40);
  /* probes: small elements and random ones */
  lp_integer_t probes[12]; int np = 0;
  for (long k = -3; k <= 3; ++k) { lp_integer_construct_from_int(rings[ri], &probes[np], k); ++np; }
  for (int k = 0; k < 4; ++k) { gen_elem(ri, &probes[np]); ++np; }
  sb_begin("zp", "fs"); sb_sp(); sb_str(primes[ri]); sb_sp(); sb_poly(A); sb_sp(); sb_long(cond); sb_sp(); sb_long(neg); sb_sp();
  sb_str("0="); sb_mpz(&z[0]); sb_str(";1="); sb_mpz(&z[1]); sb_sp();
  for (int k = 0; k < np; ++k) { if (k) sb_str(","); sb_mpz(&probes[k]); }
  sb_arrow();
  lp_feasibility_set_int_t* s = lp_polynomial_constraint_get_feasible_set_Zp(A, (lp_sign_condition_t)cond, neg, M);
  sb_sp(); sb_str(s->inverted ? "~" : "+");
  if (s->size == 0) sb_str("_"); for (size_t i = 0; i < s->size; ++i) { if (i) sb_str(","); sb_mpz(&s->elements[i]); }
  sb_sp();
  for (int k = 0; k < np; ++k) { if (k) sb_str(","); sb_long(lp_feasibility_set_int_contains(s, &probes[k])); }
  sb_emit();
  /* truth value with the main variable assigned too */
  { lp_value_t v; lp_value_construct(&v, LP_VALUE_INTEGER, &probes[rnd(np)]); lp_assignment_set_value(M, x[2], &v);
    sb_begin("zp", "evalc"); sb_sp(); sb_str(primes[ri]); sb_sp(); sb_poly(A); sb_sp(); sb_long(cond); sb_sp();
    sb_str("0="); sb_mpz(&z[0]); sb_str(";1="); sb_mpz(&z[1]); sb_str(";2="); sb_mpz(&v.value.z); sb_arrow();
    int b = lp_polynomial_constraint_evaluate_Zp(A, (lp_sign_condition_t)cond, M);
    sb_sp(); sb_long(b); sb_emit();
    lp_value_destruct(&v); }
  lp_feasibility_set_int_delete(s);
  for (int k = 0; k < np; ++k) lp_integer_destruct(&probes[k]);
  lp_integer_destruct(&z[0]); lp_integer_destruct(&z[1]);
  lp_assignment_delete(M);
  lp_polynomial_delete(A);
}

static void reduce_case(int ri) {
  /* only small fields: the result is compared as a function on Z_p^2 */
  lp_polynomial_t* A = lp_polynomial_new(ctx[ri]);
  int nt = 1 + rnd(4);
  long p = atol(primes[ri]);
  for (int t = 0; t < nt; ++t) {
    lp_polynomial_t* m = P_simple(ri, rnd_in(-5, 5), 0, rnd(2 * (unsigned)p + 2));
    lp_polynomial_t* v1 = P_simple(ri, 1, 1, rnd(2 * (unsigned)p + 2));
    lp_polynomial_mul(m, m, v1); lp_polynomial_add(A, A, m);
    lp_polynomial_delete(m); lp_polynomial_delete(v1);
  }
  lp_polynomial_t* R = lp_polynomial_new(ctx[ri]);
  int alias = chance(30);
  sb_begin("zp", "reduce"); sb_sp(); sb_str(primes[ri]); sb_sp(); sb_poly(A); sb_arrow();
  if (alias) { lp_polynomial_reduce_degree_Zp(A, A); sb_sp(); sb_poly(A); }
  else { lp_polynomial_reduce_degree_Zp(R, A); sb_sp(); sb_poly(R); }
  sb_emit();
  lp_polynomial_delete(A); lp_polynomial_delete(R);
}

int main(int argc, char** argv) {
  uint64_t seed = argc > 1 ? strtoull(argv[1], 0, 10) : 1;
  long n = argc > 2 ? atol(argv[2]) : 1000;
  long only = argc > 3 ? atol(argv[3]) : -1;
  long start = argc > 4 ? atol(argv[4]) : 0;
  lpv_init(); init();
  for (long i = 0; i < n; ++i) {
    if ((only >= 0 && i != only) || i < start) continue;
    lpv_begin_case(seed, i);
    unsigned k = rnd(100);
    int ri = rnd(NPR);
    if (k < 50) roots_case(ri);
    else if (k < 85) fs_case(ri);
    else reduce_case(rnd(4));
  }
  done();
  free(sb_buf);
  return 0;
}
