#!/usr/bin/env python3
"""Run the quick check of every seeded change under /verif/seeded against a scratch worktree of /repo's HEAD with the change
applied (LPV_REPO / LPV_CACHE / LPV_EVIDENCE point the check at scratch directories), and record whether the check reported a
violation.  /repo itself and /verif/evidence are never touched.  Usage: run_seeded.py [-jN] [name-prefix ...]"""
import json, os, subprocess, sys, glob, shutil, tempfile
from concurrent.futures import ThreadPoolExecutor
ROOT = os.path.dirname(os.path.dirname(os.path.abspath(__file__)))
REPO = os.environ.get("LPV_REPO", "/repo")
def sh(*a, **k): return subprocess.run(a, capture_output=True, text=True, **k)
args = sys.argv[1:]
jobs = 1
for a in list(args):
    if a.startswith("-j"): jobs = int(a[2:] or 1); args.remove(a)
names = sorted(os.path.basename(d) for d in glob.glob(os.path.join(ROOT, "seeded", "*")) if os.path.isdir(d))
if args: names = [n for n in names if any(n.startswith(p) for p in args)]
base = tempfile.mkdtemp(prefix="lpv_seeded_")
slots = []
for j in range(jobs):
    wt = os.path.join(base, "wt%d" % j)
    r = sh("git", "-C", REPO, "worktree", "add", "-f", "--detach", wt, "HEAD")
    if r.returncode != 0: sys.exit("cannot create worktree: " + r.stderr)
    slots.append(wt)
import queue
free = queue.Queue()
for w in slots: free.put(w)
res = {}
def one(n):
    d = os.path.join(ROOT, "seeded", n)
    meta = json.load(open(os.path.join(d, "meta.json")))
    prop = meta["property"]
    wt = free.get()
    try:
        if sh("git", "-C", wt, "apply", os.path.join(d, "patch.diff")).returncode != 0:
            res[n] = "patch does not apply"; print(n, res[n], flush=True); return
        env = dict(os.environ, LPV_REPO=wt, LPV_CACHE=wt + "_cache", LPV_EVIDENCE=wt + "_evid")
        try:
            r = sh(sys.executable, os.path.join(ROOT, "tools", "check.py"), prop, "--seed", os.environ.get("VERIF_SEED", "1"), env=env)
        finally:
            sh("git", "-C", wt, "checkout", "--", ".")
        viol = [l for l in r.stdout.splitlines() if l.startswith("VIOLATION")]
        res[n] = ("DETECTED rc=%d %s" % (r.returncode, viol[0][:110])) if viol and r.returncode == 1 else "MISSED rc=%d" % r.returncode
        print(n, res[n], flush=True)
    finally:
        free.put(wt)
try:
    with ThreadPoolExecutor(max_workers=jobs) as ex:
        list(ex.map(one, names))
finally:
    for w in slots:
        sh("git", "-C", REPO, "worktree", "remove", "--force", w)
    sh("git", "-C", REPO, "worktree", "prune")
    shutil.rmtree(base, ignore_errors=True)
json.dump(res, open(os.path.join(tempfile.gettempdir(), "seeded_results.json"), "w"), indent=1)
missed = [n for n, v in res.items() if not v.startswith("DETECTED")]
print("missed:", missed)
