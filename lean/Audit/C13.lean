import LP.Props.C13
#print axioms LP.C13_placeholder
