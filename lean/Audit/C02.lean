import LP.Props.C02
#print axioms LP.MPoly.C02_identity_sound
#print axioms LP.MPoly.C02_divExact_sound
#print axioms LP.MPoly.C02_lcPower_sound
#print axioms LP.MPoly.C02_degree_le
#print axioms LP.C02_Z
#print axioms LP.C02_ZMod
