/-
  The eliminant of `z − p(x̄)` vanishes at the value p(ᾱ): the classical resultant property, now a theorem about the
  model (built on `resultant_vanishes`).  It discharges the hypothesis of `C10_sign_sound`.
-/
import LP.Props.Resultant
import LP.Props.C10

namespace LP
open MvPolynomial QPoly

namespace MPoly

/-! ### evaluation lemmas -/

theorem evalAt_add (ν : ℕ → ℝ) (p q : MPoly) : evalAt ν (add none p q) = evalAt ν p + evalAt ν q := by
  unfold evalAt; rw [C01_add (compatible_none ℝ), map_add]
theorem evalAt_sub (ν : ℕ → ℝ) (p q : MPoly) : evalAt ν (sub none p q) = evalAt ν p - evalAt ν q := by
  unfold evalAt; rw [C01_sub (compatible_none ℝ), map_sub]
theorem evalAt_mul (ν : ℕ → ℝ) (p q : MPoly) : evalAt ν (mul none p q) = evalAt ν p * evalAt ν q := by
  unfold evalAt; rw [C01_mul (compatible_none ℝ), map_mul]
theorem evalAt_normalize (ν : ℕ → ℝ) (p : MPoly) : evalAt ν (normalize none p) = evalAt ν p := by
  unfold evalAt; rw [den_normalize (compatible_none ℝ)]
theorem evalAt_cons (ν : ℕ → ℝ) (t : Term) (p : MPoly) :
    evalAt ν (t :: p) = MvPolynomial.eval ν (monomial (Mono.toFinsupp t.1) ((t.2 : ℤ) : ℝ)) + evalAt ν p := by
  unfold evalAt; rw [den_cons, map_add]

theorem evalAt_varP (ν : ℕ → ℝ) (x : ℕ) : evalAt ν (ZAlg.varP x) = ν x := by
  unfold ZAlg.varP
  rw [evalAt_cons, evalAt_nil, eval_monomial]
  simp [Mono.toFinsupp_cons, Mono.toFinsupp_nil]

/-- value of a monomial as a product over its list of factors -/
theorem toFinsupp_prod (ν : ℕ → ℝ) (m : Mono) :
    (Mono.toFinsupp m).prod (fun v e => ν v ^ e) = (m.map (fun p => ν p.1 ^ p.2)).prod := by
  induction m with
  | nil => simp [Mono.toFinsupp_nil]
  | cons p m ih =>
    rw [Mono.toFinsupp_cons, Finsupp.prod_add_index' (by intro a; simp) (by intro a b₁ b₂; rw [pow_add]),
      Finsupp.prod_single_index (by simp), ih, List.map_cons, List.prod_cons]

theorem foldl_mul_eq (ν : ℕ → ℝ) (m : Mono) (a : ℝ) :
    m.foldl (fun acc p => acc * ν p.1 ^ p.2) a = a * (m.map (fun p => ν p.1 ^ p.2)).prod := by
  induction m generalizing a with
  | nil => simp
  | cons p m ih => rw [List.foldl_cons, ih, List.map_cons, List.prod_cons]; ring

theorem foldl_add_eq (g : Term → ℝ) (p : MPoly) (a : ℝ) :
    p.foldl (fun acc t => acc + g t) a = a + (p.map g).sum := by
  induction p generalizing a with
  | nil => simp
  | cons t p ih => rw [List.foldl_cons, ih, List.map_cons, List.sum_cons]; ring

/-- the fold evaluation of C10 is the evaluation of the denoted polynomial -/
theorem evalRealM_eq_evalAt (p : MPoly) (ν : ℕ → ℝ) : Eval.evalRealM p ν = evalAt ν p := by
  unfold Eval.evalRealM
  rw [foldl_add_eq (fun t => ((t.2 : ℤ) : ℝ) * Eval.monoValR ν t.1), zero_add]
  induction p with
  | nil => simp [evalAt_nil]
  | cons t p ih =>
    rw [List.map_cons, List.sum_cons, ih, evalAt_cons, eval_monomial, toFinsupp_prod]
    unfold Eval.monoValR
    rw [foldl_mul_eq, one_mul]

/-- evaluation does not depend on a variable that does not occur -/
theorem evalRealM_update (p : MPoly) (ν : ℕ → ℝ) (z : ℕ) (v : ℝ) (hz : ∀ t ∈ p, ∀ pr ∈ t.1, pr.1 ≠ z) :
    Eval.evalRealM p (Function.update ν z v) = Eval.evalRealM p ν := by
  unfold Eval.evalRealM
  rw [foldl_add_eq (fun t => ((t.2 : ℤ) : ℝ) * Eval.monoValR (Function.update ν z v) t.1),
    foldl_add_eq (fun t => ((t.2 : ℤ) : ℝ) * Eval.monoValR ν t.1)]
  congr 1
  apply congrArg
  apply List.map_congr_left
  intro t ht
  congr 1
  unfold Eval.monoValR
  rw [foldl_mul_eq, foldl_mul_eq]
  congr 1
  apply congrArg
  apply List.map_congr_left
  intro pr hpr
  rw [Function.update_of_ne (hz t ht pr hpr)]

/-! ### univariate pieces -/

theorem evalR_cons' (c : ℚ) (l : QPoly) (x : ℝ) : evalR (c :: l) x = (c : ℝ) + x * evalR l x := evalR_cons c l x

theorem evalR_append (a b : QPoly) (x : ℝ) : evalR (a ++ b) x = evalR a x + x ^ a.length * evalR b x := by
  induction a with
  | nil => simp [evalR_nil]
  | cons c a ih => rw [List.cons_append, evalR_cons, evalR_cons, ih, List.length_cons]; ring

theorem evalR_range_map (c : ℕ → ℤ) (n : ℕ) (x : ℝ) :
    evalR (ZAlg.toQ ((List.range n).map c)) x = ∑ i ∈ Finset.range n, ((c i : ℤ) : ℝ) * x ^ i := by
  induction n with
  | zero => simp [ZAlg.toQ, evalR_nil]
  | succ n ih =>
    rw [List.range_succ, List.map_append, Finset.sum_range_succ]
    unfold ZAlg.toQ at ih ⊢
    rw [List.map_append, evalR_append, ih]
    simp [evalR_cons, evalR_nil]
    ring

/-- `uni x f` denotes f in the variable x -/
theorem evalAt_uni (ν : ℕ → ℝ) (x : ℕ) (f : List Int) : evalAt ν (ZAlg.uni x f) = evalR (ZAlg.toQ f) (ν x) := by
  unfold ZAlg.uni
  rw [evalAt_normalize]
  -- generalise the index offset
  have gen : ∀ (f : List Int) (k : ℕ),
      evalAt ν (List.map (fun (c : Int × Nat) => ((if c.2 = 0 then [] else [(x, c.2)]), c.1)) (f.zipIdx k)) =
        ν x ^ k * evalR (ZAlg.toQ f) (ν x) := by
    intro f
    induction f with
    | nil => intro k; simp [evalAt_nil, ZAlg.toQ, evalR_nil]
    | cons c f ih =>
      intro k
      rw [List.zipIdx_cons, List.map_cons, evalAt_cons, ih (k + 1)]
      unfold ZAlg.toQ
      rw [List.map_cons, evalR_cons, eval_monomial]
      by_cases hk : k = 0
      · subst hk; simp [Mono.toFinsupp_nil]
      · simp only [hk, if_false, Mono.toFinsupp_cons, Mono.toFinsupp_nil, add_zero]
        rw [Finsupp.prod_single_index (by simp)]
        push_cast
        ring
  have := gen f 0
  simpa using this

theorem evalAt_constPoly (ν : ℕ → ℝ) (q : MPoly) (h : ZAlg.isConstPoly q = true) : evalAt ν q = ((ZAlg.constOf q : ℤ) : ℝ) := by
  match q, h with
  | [], _ => simp [evalAt_nil, ZAlg.constOf]
  | [([], c)], _ => rw [evalAt_cons, evalAt_nil, eval_monomial]; simp [ZAlg.constOf, Mono.toFinsupp_nil]

/-- a polynomial in x alone is its dense coefficient list -/
theorem evalAt_dense (ν : ℕ → ℝ) (x : ℕ) (p : MPoly) (h : ZAlg.univariateIn x p = true) :
    evalR (ZAlg.toQ (ZAlg.dense x p)) (ν x) = evalAt ν p := by
  unfold ZAlg.dense
  rw [if_pos h, evalR_range_map, evalAt_decompose ν x p (degreeIn x p) (mem_degree_le x p)]
  apply Finset.sum_congr rfl
  intro i hi
  unfold ZAlg.univariateIn at h
  rw [List.all_eq_true] at h
  have := h i (by rw [List.mem_range]; exact Finset.mem_range.1 hi)
  rw [evalAt_constPoly ν _ this]

end MPoly

namespace Eval
open MPoly

/-- the elimination fold keeps "vanishes at the point" -/
theorem elim_fold_vanishes (ν : ℕ → ℝ) :
    ∀ (a : Asg) (A : MPoly), (∀ xz ∈ a, evalR (ZAlg.toQ xz.2.f) (ν xz.1) = 0) → evalAt ν A = 0 →
      evalAt ν (a.foldl (fun A xv =>
        if MPoly.degreeIn xv.1 A = 0 then A
        else resultantSpec none xv.1 (ZAlg.uni xv.1 xv.2.f) A) A) = 0 := by
  intro a
  induction a with
  | nil => intro A _ h; exact h
  | cons xz a ih =>
    intro A hroots hA
    rw [List.foldl_cons]
    apply ih _ (fun y hy => hroots y (List.mem_cons_of_mem _ hy))
    by_cases hd : MPoly.degreeIn xz.1 A = 0
    · rw [if_pos hd]; exact hA
    · rw [if_neg hd]
      apply resultant_vanishes ν xz.1 _ A (by omega) _ hA
      rw [evalAt_uni]; exact hroots xz List.mem_cons_self

/-- **the eliminant vanishes at the value** -/
theorem eliminant_root_sem (p : MPoly) (a : Asg) (ν : ℕ → ℝ)
    (hroots : ∀ xz ∈ a, evalR (ZAlg.toQ xz.2.f) (ν xz.1) = 0)
    (hzp : ∀ v, evalRealM p (Function.update ν zVar v) = evalRealM p ν) (hza : ∀ xz ∈ a, xz.1 ≠ zVar)
    (hne : eliminant p a ≠ []) :
    evalR (ZAlg.toQ (eliminant p a)) (evalRealM p ν) = 0 := by
  set v := evalRealM p ν with hv
  set ν' := Function.update ν zVar v with hν'
  have hz : ν' zVar = v := by rw [hν']; simp
  have hroots' : ∀ xz ∈ a, evalR (ZAlg.toQ xz.2.f) (ν' xz.1) = 0 := by
    intro xz hxz
    rw [hν', Function.update_of_ne (hza xz hxz)]; exact hroots xz hxz
  have hA0 : evalAt ν' (MPoly.sub none (ZAlg.varP zVar) p) = 0 := by
    rw [evalAt_sub, evalAt_varP, hz, ← evalRealM_eq_evalAt, hν', hzp v]
    simp [hv]
  have hfold := elim_fold_vanishes ν' a _ hroots' hA0
  unfold eliminant at hne ⊢
  simp only at hne ⊢
  by_cases hu : ZAlg.univariateIn zVar (a.foldl (fun A xv =>
        if MPoly.degreeIn xv.1 A = 0 then A
        else resultantSpec none xv.1 (ZAlg.uni xv.1 xv.2.f) A) (MPoly.sub none (ZAlg.varP zVar) p)) = true
  · rw [← hz, evalAt_dense ν' zVar _ hu]; exact hfold
  · exfalso; apply hne
    unfold ZAlg.dense
    rw [if_neg hu]

theorem eliminant_root (p : MPoly) (a : Asg) (ν : ℕ → ℝ)
    (hroots : ∀ xz ∈ a, evalR (ZAlg.toQ xz.2.f) (ν xz.1) = 0)
    (hzp : ∀ t ∈ p, ∀ pr ∈ t.1, pr.1 ≠ zVar) (hza : ∀ xz ∈ a, xz.1 ≠ zVar)
    (hne : eliminant p a ≠ []) :
    evalR (ZAlg.toQ (eliminant p a)) (evalRealM p ν) = 0 :=
  eliminant_root_sem p a ν hroots (fun v => evalRealM_update p ν zVar v hzp) hza hne

/-- the eliminant only depends on the variables and defining polynomials of the assignment -/
theorem eliminant_congr (p : MPoly) (a a' : Asg)
    (h : a'.map (fun xz => (xz.1, xz.2.f)) = a.map (fun xz => (xz.1, xz.2.f))) : eliminant p a' = eliminant p a := by
  unfold eliminant
  simp only
  congr 1
  have gen : ∀ (a a' : Asg) (A : MPoly), a'.map (fun xz => (xz.1, xz.2.f)) = a.map (fun xz => (xz.1, xz.2.f)) →
      a'.foldl (fun A xv => if MPoly.degreeIn xv.1 A = 0 then A else resultantSpec none xv.1 (ZAlg.uni xv.1 xv.2.f) A) A =
      a.foldl (fun A xv => if MPoly.degreeIn xv.1 A = 0 then A else resultantSpec none xv.1 (ZAlg.uni xv.1 xv.2.f) A) A := by
    intro a
    induction a with
    | nil => intro a' A h; cases a' with
      | nil => rfl
      | cons _ _ => simp at h
    | cons xz a ih =>
      intro a' A h
      cases a' with
      | nil => simp at h
      | cons xz' a' =>
        simp only [List.map_cons, List.cons.injEq, Prod.mk.injEq] at h
        rw [List.foldl_cons, List.foldl_cons, h.1.1, h.1.2]
        exact ih a' _ h.2
  exact gen a a' _ h

/-- **C10, unconditional**: the sign answered by the model is the sign of the value, for every integer polynomial
    and every assignment of valid algebraic numbers whose defining polynomials vanish at them -/
theorem C10_sign_exact_sem (p : MPoly) (a : Asg) (ν : ℕ → ℝ) (s : Int) (hden : AsgDen a ν)
    (hroots : ∀ xz ∈ a, evalR (ZAlg.toQ xz.2.f) (ν xz.1) = 0)
    (hzp : ∀ v, evalRealM p (Function.update ν zVar v) = evalRealM p ν) (hza : ∀ xz ∈ a, xz.1 ≠ zVar)
    (h : exactSign p a = some s) : SignIs s (evalRealM p ν) := by
  apply C10_sign_sound p a ν s hden _ h
  intro a' R hmap hsq
  rw [eliminant_congr p a a' hmap] at hsq
  by_cases hne : eliminant p a = []
  · -- no eliminant: the zero polynomial vanishes everywhere, and so does anything with the same roots
    rw [hne] at hsq
    exact (sqfreePart_sound _ R hsq (evalRealM p ν)).1 (by simp [ZAlg.toQ, evalR_nil])
  · have hr := eliminant_root_sem p a ν hroots hzp hza hne
    exact (sqfreePart_sound _ R hsq (evalRealM p ν)).1 hr

theorem C10_sign_exact (p : MPoly) (a : Asg) (ν : ℕ → ℝ) (s : Int) (hden : AsgDen a ν)
    (hroots : ∀ xz ∈ a, evalR (ZAlg.toQ xz.2.f) (ν xz.1) = 0)
    (hzp : ∀ t ∈ p, ∀ pr ∈ t.1, pr.1 ≠ zVar) (hza : ∀ xz ∈ a, xz.1 ≠ zVar)
    (h : exactSign p a = some s) : SignIs s (evalRealM p ν) :=
  C10_sign_exact_sem p a ν s hden hroots (fun v => evalRealM_update p ν zVar v hzp) hza h

end Eval
end LP
