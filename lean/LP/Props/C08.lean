/-
  C08 — values of all representations live in one consistent ordered number line.

  Every comparison, sign, floor / ceiling / integrality answer, numerator / denominator extraction, in-between
  pick, hash pair and arithmetic result of `lp_value_*` is judged on every run through the denotation of the
  value as an extended real: finite representations (integer, dyadic, rational, algebraic) are mapped to the
  algebraic-number model, whose exact comparison is proved correct (`LP.Props.Alg`).  Proved here:
  `C08_cmp` — the model's comparison of two values is the order of the denoted extended reals, whatever the
  representations (so the judged order is total, antisymmetric, transitive and representation independent);
  arithmetic results are accepted only through `C07_select_sound`.
  Hash equality of equal numbers and the strictness of the in-between pick are validated per output with this
  exact comparison (no theorem about the C code itself).
-/
import LP.Props.C07
import LP.Driver.Value
import Mathlib.Data.EReal.Basic

namespace LP
open LP.Driver

/-- the extended real denoted by a value -/
def ValDen : Val → EReal → Prop
  | .pinf, x => x = ⊤
  | .minf, x => x = ⊥
  | .none, _ => False
  | v, x => ∃ (a : ZAlg) (r : ℝ), v.toZ? = some a ∧ a.a.Valid ∧ a.a.Den r ∧ x = (r : EReal)

theorem C08_cmp (v w : Val) (c : Int) (x y : EReal) (hx : ValDen v x) (hy : ValDen w y)
    (h : Val.cmp v w = some c) :
    (c = -1 ∧ x < y) ∨ (c = 0 ∧ x = y) ∨ (c = 1 ∧ y < x) := by
  -- finite × finite
  have fin : ∀ (v w : Val), v.rank = some 0 → w.rank = some 0 →
      ∀ (a b : ZAlg) (r s : ℝ), v.toZ? = some a → a.a.Valid → a.a.Den r → w.toZ? = some b → b.a.Valid → b.a.Den s →
      Val.cmp v w = some c → (c = -1 ∧ (r : EReal) < s) ∨ (c = 0 ∧ (r : EReal) = s) ∨ (c = 1 ∧ (s : EReal) < r) := by
    intro v w hv hw a b r s ha hva hda hb hvb hdb hc
    unfold Val.cmp at hc
    rw [hv, hw] at hc
    simp only [and_self, if_true, ha, hb] at hc
    have := Alg.cmp_sound a.a b.a c r s hva hda hvb hdb hc
    rcases this with ⟨h1, h2⟩ | ⟨h1, h2⟩ | ⟨h1, h2⟩
    · left; exact ⟨h1, by exact_mod_cast h2⟩
    · right; left; exact ⟨h1, by exact_mod_cast h2⟩
    · right; right; exact ⟨h1, by exact_mod_cast h2⟩
  cases v <;> cases w <;>
    first
    | (exact absurd hx id)
    | (exact absurd hy id)
    | (obtain ⟨a, r, ha, hva, hda, rfl⟩ := hx
       obtain ⟨b, s, hb, hvb, hdb, rfl⟩ := hy
       exact fin _ _ rfl rfl a b r s ha hva hda hb hvb hdb h)
    | (obtain ⟨a, r, ha, hva, hda, rfl⟩ := hx
       have : y = ⊤ := hy
       subst this
       simp only [Val.cmp, Val.rank, cmpI] at h
       norm_num at h
       subst h
       left; exact ⟨rfl, EReal.coe_lt_top r⟩)
    | (obtain ⟨a, r, ha, hva, hda, rfl⟩ := hx
       have : y = ⊥ := hy
       subst this
       simp only [Val.cmp, Val.rank, cmpI] at h
       norm_num at h
       subst h
       right; right; exact ⟨rfl, EReal.bot_lt_coe r⟩)
    | (obtain ⟨b, s, hb, hvb, hdb, rfl⟩ := hy
       have : x = ⊤ := hx
       subst this
       simp only [Val.cmp, Val.rank, cmpI] at h
       norm_num at h
       subst h
       right; right; exact ⟨rfl, EReal.coe_lt_top s⟩)
    | (obtain ⟨b, s, hb, hvb, hdb, rfl⟩ := hy
       have : x = ⊥ := hx
       subst this
       simp only [Val.cmp, Val.rank, cmpI] at h
       norm_num at h
       subst h
       left; exact ⟨rfl, EReal.bot_lt_coe s⟩)
    | (have e1 : x = ⊤ := hx
       have e2 : y = ⊤ := hy
       subst e1 e2
       simp only [Val.cmp, Val.rank, cmpI] at h
       norm_num at h
       subst h
       right; left; exact ⟨rfl, rfl⟩)
    | (have e1 : x = ⊥ := hx
       have e2 : y = ⊥ := hy
       subst e1 e2
       simp only [Val.cmp, Val.rank, cmpI] at h
       norm_num at h
       subst h
       right; left; exact ⟨rfl, rfl⟩)
    | (have e1 : x = ⊤ := hx
       have e2 : y = ⊥ := hy
       subst e1 e2
       simp only [Val.cmp, Val.rank, cmpI] at h
       norm_num at h
       subst h
       right; right; exact ⟨rfl, bot_lt_top⟩)
    | (have e1 : x = ⊥ := hx
       have e2 : y = ⊤ := hy
       subst e1 e2
       simp only [Val.cmp, Val.rank, cmpI] at h
       norm_num at h
       subst h
       left; exact ⟨rfl, bot_lt_top⟩)

end LP
