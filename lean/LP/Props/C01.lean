/-
  C01 — polynomial ring arithmetic is exact in Z[x̄] and Z_M[x̄].
  The reference model `LP.MPoly` (the one every C result is compared with on every run) is proved to be
  the ring `MvPolynomial ℕ R` with `R = ℤ` or `R = ZMod M`: the denotation `den` maps the model's
  add / neg / sub / mul / scalar product / power / fused multiply-add / shift / constant to the ring
  operations, for all term lists (canonical or not), all moduli `M ≥ 2`.
-/
import LP.Model.MPoly
import LP.Props.C17
import Mathlib.Algebra.MvPolynomial.Basic
import Mathlib.Algebra.MvPolynomial.Eval
import Mathlib.Algebra.MvPolynomial.CommRing

namespace LP
open MvPolynomial

/-- a monomial as an exponent vector -/
noncomputable def Mono.toFinsupp (m : Mono) : ℕ →₀ ℕ := (m.map (fun p => Finsupp.single p.1 p.2)).sum

namespace Mono

theorem toFinsupp_nil : toFinsupp [] = 0 := rfl
theorem toFinsupp_cons (p : Nat × Nat) (m : Mono) : toFinsupp (p :: m) = Finsupp.single p.1 p.2 + toFinsupp m := by
  simp [toFinsupp]
theorem toFinsupp_append (a b : Mono) : toFinsupp (a ++ b) = toFinsupp a + toFinsupp b := by
  induction a with
  | nil => simp [toFinsupp_nil]
  | cons p a ih => rw [List.cons_append, toFinsupp_cons, toFinsupp_cons, ih, add_assoc]

theorem toFinsupp_insertVar (x e : Nat) (m : Mono) : toFinsupp (insertVar x e m) = Finsupp.single x e + toFinsupp m := by
  induction m with
  | nil =>
    unfold insertVar
    split_ifs with h
    · subst h; simp [toFinsupp_nil]
    · simp [toFinsupp_cons, toFinsupp_nil]
  | cons p m ih =>
    obtain ⟨y, f⟩ := p
    unfold insertVar
    split_ifs with h1 h2 h3
    · subst h1; simp
    · rw [toFinsupp_cons]
    · subst h3
      rw [toFinsupp_cons, toFinsupp_cons]
      simp only
      rw [Finsupp.single_add, add_comm (Finsupp.single x f), add_assoc]
    · rw [toFinsupp_cons, ih, toFinsupp_cons]
      simp only
      rw [← add_assoc, ← add_assoc, add_comm (Finsupp.single y f)]

theorem toFinsupp_norm (m : Mono) : toFinsupp (norm m) = toFinsupp m := by
  unfold norm
  induction m with
  | nil => rfl
  | cons p m ih => rw [List.foldr_cons, toFinsupp_insertVar, ih, toFinsupp_cons]

theorem toFinsupp_mul (a b : Mono) : toFinsupp (mul a b) = toFinsupp a + toFinsupp b := by
  unfold mul; rw [toFinsupp_norm, toFinsupp_append]

end Mono

namespace MPoly

variable (R : Type) [CommRing R]

/-- the polynomial denoted by a term list -/
noncomputable def den (p : MPoly) : MvPolynomial ℕ R :=
  (p.map (fun t => monomial (Mono.toFinsupp t.1) ((t.2 : Int) : R))).sum

variable {R}

theorem den_nil : den R [] = 0 := rfl
theorem den_cons (t : Term) (p : MPoly) : den R (t :: p) = monomial (Mono.toFinsupp t.1) ((t.2 : Int) : R) + den R p := by
  simp [den]
theorem den_append (p q : MPoly) : den R (p ++ q) = den R p + den R q := by
  induction p with
  | nil => simp [den_nil]
  | cons t p ih => rw [List.cons_append, den_cons, den_cons, ih, add_assoc]

/-- the ring `K` is faithfully represented in `R`: normalising a coefficient does not change its image -/
def Compatible (K : Ring) (R : Type) [CommRing R] : Prop := ∀ c : Int, ((norm K c : Int) : R) = ((c : Int) : R)

theorem compatible_Z : Compatible none ℤ := fun _ => rfl
theorem compatible_ZMod (M : Nat) (hM : 2 ≤ M) : Compatible (some M) (ZMod M) :=
  fun c => C17_normalize_zmod M hM c

variable {K : Ring} (hK : Compatible K R)
include hK

theorem den_insertTerm (m : Mono) (c : Int) (p : MPoly) :
    den R (insertTerm K m c p) = monomial (Mono.toFinsupp m) ((c : Int) : R) + den R p := by
  have zero_of : ∀ z : Int, norm K z = 0 → ((z : Int) : R) = 0 := by
    intro z h; rw [← hK z, h]; simp
  induction p with
  | nil =>
    unfold insertTerm
    by_cases h : norm K c = 0
    · rw [if_pos h, zero_of c h]; simp [den_nil]
    · rw [if_neg h, den_cons, hK c]
  | cons t p ih =>
    obtain ⟨n, d⟩ := t
    unfold insertTerm
    by_cases h1 : Mono.lt m n = true
    · rw [if_pos h1]
      by_cases h2 : norm K c = 0
      · rw [if_pos h2, zero_of c h2]; simp
      · rw [if_neg h2, den_cons, hK c]
    · rw [if_neg h1]
      by_cases h3 : m = n
      · rw [if_pos h3]
        subst h3
        by_cases h4 : norm K (c + d) = 0
        · rw [if_pos h4, den_cons]
          have := zero_of (c + d) h4
          push_cast at this
          simp only
          rw [← add_assoc, ← map_add, this]; simp
        · rw [if_neg h4, den_cons, den_cons]
          simp only
          rw [hK (c + d), ← add_assoc, ← map_add]; push_cast; rfl
      · rw [if_neg h3, den_cons, ih, den_cons]
        rw [← add_assoc, ← add_assoc, add_comm (monomial (Mono.toFinsupp n) _)]

theorem den_normalize (p : MPoly) : den R (normalize K p) = den R p := by
  unfold normalize
  induction p with
  | nil => rfl
  | cons t p ih =>
    rw [List.foldr_cons, den_insertTerm hK, ih, den_cons, Mono.toFinsupp_norm]

/-- addition, negation and subtraction are exact -/
theorem C01_add (p q : MPoly) : den R (add K p q) = den R p + den R q := by
  unfold add; rw [den_normalize hK, den_append]

theorem den_map_neg (p : MPoly) : den R (p.map (fun t => (t.1, -t.2))) = - den R p := by
  induction p with
  | nil => simp [den_nil]
  | cons t p ih =>
    rw [List.map_cons, den_cons, den_cons, ih]
    simp only [Int.cast_neg, map_neg]
    ring

theorem C01_neg (p : MPoly) : den R (neg K p) = - den R p := by
  unfold neg; rw [den_normalize hK, den_map_neg hK]

theorem C01_sub (p q : MPoly) : den R (sub K p q) = den R p - den R q := by
  unfold sub; rw [C01_add hK, C01_neg hK, sub_eq_add_neg]

theorem den_mulTerm (m : Mono) (c : Int) (q : MPoly) :
    den R (mulTerm m c q) = monomial (Mono.toFinsupp m) ((c : Int) : R) * den R q := by
  unfold mulTerm
  induction q with
  | nil => simp [den_nil]
  | cons t q ih =>
    rw [List.map_cons, den_cons, den_cons, ih, mul_add]
    simp only [Mono.toFinsupp_append, Int.cast_mul, monomial_mul]

/-- multiplication is exact -/
theorem C01_mul (p q : MPoly) : den R (mul K p q) = den R p * den R q := by
  unfold mul
  rw [den_normalize hK]
  induction p with
  | nil => simp [den_nil]
  | cons t p ih =>
    rw [List.flatMap_cons, den_append, ih, den_mulTerm hK, den_cons, add_mul]

theorem C01_mulInt (p : MPoly) (c : Int) : den R (mulInt K p c) = C ((c : Int) : R) * den R p := by
  unfold mulInt
  rw [den_normalize hK]
  induction p with
  | nil => simp [den_nil]
  | cons t p ih =>
    rw [List.map_cons, den_cons, den_cons, ih, mul_add]
    simp only [Int.cast_mul, C_mul_monomial]

theorem C01_const (c : Int) : den R (const K c) = C ((c : Int) : R) := by
  unfold const
  rw [den_normalize hK, den_cons, den_nil, add_zero]
  simp [Mono.toFinsupp_nil, C_apply]

theorem C01_pow (p : MPoly) (n : Nat) : den R (pow K p n) = den R p ^ n := by
  induction n with
  | zero => unfold pow; rw [C01_const hK]; simp
  | succ n ih => unfold pow; rw [C01_mul hK, ih, pow_succ]

theorem C01_addMul (s a b : MPoly) : den R (addMul K s a b) = den R s + den R a * den R b := by
  unfold addMul; rw [C01_add hK, C01_mul hK]

theorem C01_subMul (s a b : MPoly) : den R (subMul K s a b) = den R s - den R a * den R b := by
  unfold subMul; rw [C01_sub hK, C01_mul hK]

/-- shift by a power of a variable -/
theorem C01_shl (p : MPoly) (x n : Nat) : den R (shl K p x n) = X x ^ n * den R p := by
  unfold shl
  rw [den_normalize hK, den_mulTerm hK]
  congr 1
  rw [Mono.toFinsupp_cons, Mono.toFinsupp_nil, add_zero]
  simp only [Int.cast_one]
  rw [X_pow_eq_monomial]

omit hK in
/-- evaluation at an integer point is the ring evaluation of the denoted polynomial -/
theorem C01_evalInt (p : MPoly) (asg : Nat → Int) : evalInt p asg = MvPolynomial.eval asg (den ℤ p) := by
  have monoEval : ∀ (m : Mono) (a : Int), m.foldl (fun a q => a * asg q.1 ^ q.2) a =
      a * (Mono.toFinsupp m).prod (fun i k => asg i ^ k) := by
    intro m
    induction m with
    | nil => intro a; simp [Mono.toFinsupp_nil]
    | cons q m ih =>
      intro a
      rw [List.foldl_cons, ih, Mono.toFinsupp_cons, Finsupp.prod_add_index' (by simp) (by intro i k l; exact pow_add _ _ _)]
      rw [Finsupp.prod_single_index (by simp)]
      ring
  have gen : ∀ (p : MPoly) (acc : Int),
      p.foldl (fun acc t => acc + t.2 * t.1.foldl (fun a q => a * asg q.1 ^ q.2) 1) acc = acc + MvPolynomial.eval asg (den ℤ p) := by
    intro p
    induction p with
    | nil => intro acc; simp [den_nil]
    | cons t p ih =>
      intro acc
      rw [List.foldl_cons, ih, den_cons, map_add, eval_monomial, monoEval]
      simp only [Int.cast_id]
      ring
  unfold evalInt
  rw [gen, zero_add]

end MPoly

/-! ### the two coefficient rings of the library -/

/-- over Z -/
theorem C01_Z (p q s : MPoly) (c : Int) (n x : Nat) :
    MPoly.den ℤ (MPoly.add none p q) = MPoly.den ℤ p + MPoly.den ℤ q ∧
    MPoly.den ℤ (MPoly.sub none p q) = MPoly.den ℤ p - MPoly.den ℤ q ∧
    MPoly.den ℤ (MPoly.neg none p) = - MPoly.den ℤ p ∧
    MPoly.den ℤ (MPoly.mul none p q) = MPoly.den ℤ p * MPoly.den ℤ q ∧
    MPoly.den ℤ (MPoly.mulInt none p c) = C c * MPoly.den ℤ p ∧
    MPoly.den ℤ (MPoly.pow none p n) = MPoly.den ℤ p ^ n ∧
    MPoly.den ℤ (MPoly.addMul none s p q) = MPoly.den ℤ s + MPoly.den ℤ p * MPoly.den ℤ q ∧
    MPoly.den ℤ (MPoly.subMul none s p q) = MPoly.den ℤ s - MPoly.den ℤ p * MPoly.den ℤ q ∧
    MPoly.den ℤ (MPoly.shl none p x n) = X x ^ n * MPoly.den ℤ p :=
  have h := MPoly.compatible_Z
  ⟨MPoly.C01_add h p q, MPoly.C01_sub h p q, MPoly.C01_neg h p, MPoly.C01_mul h p q, by simpa using MPoly.C01_mulInt h p c,
   MPoly.C01_pow h p n, MPoly.C01_addMul h s p q, MPoly.C01_subMul h s p q, MPoly.C01_shl h p x n⟩

/-- over Z_M, every modulus M ≥ 2 (prime or composite) -/
theorem C01_ZMod (M : Nat) (hM : 2 ≤ M) (p q s : MPoly) (c : Int) (n x : Nat) :
    MPoly.den (ZMod M) (MPoly.add (some M) p q) = MPoly.den (ZMod M) p + MPoly.den (ZMod M) q ∧
    MPoly.den (ZMod M) (MPoly.sub (some M) p q) = MPoly.den (ZMod M) p - MPoly.den (ZMod M) q ∧
    MPoly.den (ZMod M) (MPoly.neg (some M) p) = - MPoly.den (ZMod M) p ∧
    MPoly.den (ZMod M) (MPoly.mul (some M) p q) = MPoly.den (ZMod M) p * MPoly.den (ZMod M) q ∧
    MPoly.den (ZMod M) (MPoly.mulInt (some M) p c) = C (c : ZMod M) * MPoly.den (ZMod M) p ∧
    MPoly.den (ZMod M) (MPoly.pow (some M) p n) = MPoly.den (ZMod M) p ^ n ∧
    MPoly.den (ZMod M) (MPoly.addMul (some M) s p q) = MPoly.den (ZMod M) s + MPoly.den (ZMod M) p * MPoly.den (ZMod M) q ∧
    MPoly.den (ZMod M) (MPoly.subMul (some M) s p q) = MPoly.den (ZMod M) s - MPoly.den (ZMod M) p * MPoly.den (ZMod M) q ∧
    MPoly.den (ZMod M) (MPoly.shl (some M) p x n) = X x ^ n * MPoly.den (ZMod M) p :=
  have h := MPoly.compatible_ZMod M hM
  ⟨MPoly.C01_add h p q, MPoly.C01_sub h p q, MPoly.C01_neg h p, MPoly.C01_mul h p q, MPoly.C01_mulInt h p c,
   MPoly.C01_pow h p n, MPoly.C01_addMul h s p q, MPoly.C01_subMul h s p q, MPoly.C01_shl h p x n⟩

end LP
