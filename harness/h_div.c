/* C02 harness: exact division, (sparse) pseudo-division, reduction and divisibility, multivariate and
 * univariate.  Instances are constructed as A = Q0*B + R0 so that exact cases have known quotients,
 * with degree gaps, remainders that vanish, non-primitive divisors, divisors in lower variables.
 *   div <op> <ring> <x> A B => results...      (x = main variable id of A, -1 if constant)
 *   udiv <op> <ring> A B => results...
 */
#include "hpoly.h"

static long topvar(const lp_polynomial_t* p) { return lp_polynomial_is_constant(p) ? -1 : (long)lp_polynomial_top_variable(p); }

/* random divisor whose main variable is not above x_k */
static lp_polynomial_t* gen_divisor(int ri, int nv, int monic_in_top) {
  for (;;) {
    lp_polynomial_t* B = hp_random_poly(ri, nv, 2, 4);
    if (lp_polynomial_is_zero(B)) { lp_polynomial_delete(B); continue; }
    if (monic_in_top && !lp_polynomial_is_constant(B)) {
      /* make lc in top variable equal to 1: B := x^(deg+1) + B */
      lp_integer_t one; lp_integer_construct_from_int(lp_Z, &one, 1);
      lp_polynomial_t* t = lp_polynomial_alloc();
      lp_polynomial_construct_simple(t, hp_ctx[ri], &one, lp_polynomial_top_variable(B), lp_polynomial_degree(B) + 1);
      lp_polynomial_add(B, B, t); lp_polynomial_delete(t); lp_integer_destruct(&one);
    }
    return B;
  }
}

static void div_case(void) {
  int ri = chance(60) ? 0 : (chance(50) ? 1 : 2);      /* Z, Z_5, Z_13 */
  int nv = 1 + (int)rnd(3);
  unsigned op = rnd(9);
  int need_monic = (op == 1 || op == 2);     /* rem/divrem: every leading-coefficient division must be exact: divisor monic in the main variable */
  lp_polynomial_t* B = gen_divisor(ri, nv, need_monic);
  lp_polynomial_t* Q0 = hp_random_poly(ri, nv, 2, 4);
  lp_polynomial_t* R0 = hp_random_poly(ri, nv, 2, 3);
  lp_polynomial_t* A = lp_polynomial_new(hp_ctx[ri]);
  lp_polynomial_mul(A, Q0, B);
  if (op != 0 && chance(70)) lp_polynomial_add(A, A, R0);       /* op 0 = exact division */
  if (chance(15)) { /* degree gap: A := x^k * A + small */
    if (!lp_polynomial_is_constant(A)) lp_polynomial_shl(A, A, 1 + rnd(2));
    if (op != 0) { lp_polynomial_t* s = hp_random_poly(ri, 1, 1, 2); lp_polynomial_add(A, A, s); lp_polynomial_delete(s); }
    else { lp_polynomial_mul(A, Q0, B); }
  }
  if (chance(8)) {  /* constant / constant */
    lp_integer_t ca, cb; lp_integer_construct_from_int(lp_Z, &cb, chance(50) ? rnd_in(1, 6) : -rnd_in(1, 6));
    lp_integer_construct_from_int(lp_Z, &ca, rnd_in(-9, 9)); if (op == 0) lp_integer_mul(lp_Z, &ca, &ca, &cb);
    lp_polynomial_t* ta = lp_polynomial_alloc(); lp_polynomial_construct_simple(ta, hp_ctx[ri], &ca, hp_x[0], 0);
    lp_polynomial_t* tb = lp_polynomial_alloc(); lp_polynomial_construct_simple(tb, hp_ctx[ri], &cb, hp_x[0], 0);
    lp_polynomial_assign(A, ta); lp_polynomial_assign(B, tb);
    lp_polynomial_delete(ta); lp_polynomial_delete(tb); lp_integer_destruct(&ca); lp_integer_destruct(&cb);
    if (lp_polynomial_is_zero(B)) { lp_polynomial_delete(A); lp_polynomial_delete(B); lp_polynomial_delete(Q0); lp_polynomial_delete(R0); return; }
    if (op > 2) op = 2;
  }
  /* the documented domain: main variable of the divisor not above that of the dividend, dividend non-constant for reductions */
  long xa = topvar(A), xb = topvar(B);
  /* sometimes both operands are external polynomials built under the previous variable order: the operation is the first call
     that sees them after the order has been reversed (pseudo-division, reduction, exact division and divisibility only: their
     domain does not depend on the divisor being monic in the new main variable) */
  char* tokA = 0; char* tokB = 0;
  if (nv > 1 && op != 1 && op != 2 && chance(15) && !lp_polynomial_is_constant(A) && !lp_polynomial_is_constant(B)) {
    lp_polynomial_t* TA = lp_polynomial_new_copy(A); lp_polynomial_t* TB = lp_polynomial_new_copy(B);
    lp_polynomial_set_external(A); lp_polynomial_set_external(B);
    tokA = hp_tok(A); tokB = hp_tok(B);
    hp_stale_begin();
    xa = hp_topvar_twin(TA); xb = hp_topvar_twin(TB);
    lp_polynomial_delete(TA); lp_polynomial_delete(TB);
  }
  int ok_dom = xa >= 0 && (xb < 0 || lp_variable_order_cmp(hp_order, (lp_variable_t)xb, (lp_variable_t)xa) <= 0);
  /* outputs in every prior state: fresh, constant, polynomial of another shape */
  lp_polynomial_t* D = hp_dest(ri, rnd(3)); lp_polynomial_t* R = hp_dest(ri, rnd(3));
  lp_polynomial_t* P = hp_dest(ri, rnd(3));
#define HEAD(nm) sb_begin("div", nm); sb_sp(); hp_ring_token(ri); sb_sp(); sb_long(xa); sb_sp(); if (tokA) sb_str(tokA); else sb_poly(A); sb_sp(); if (tokB) sb_str(tokB); else sb_poly(B); sb_arrow()
  /* aliasing: an output may be one of the inputs (the result is read back from that object) */
  int al = rnd(10);      /* 0: first output = A, 1: first output = B, 2: second output = A, 3: second output = B, else none */
  lp_polynomial_t* O1 = al == 0 ? A : al == 1 ? B : D;       /* quotient (or the single output) */
  lp_polynomial_t* O2 = al == 2 ? A : al == 3 ? B : R;       /* remainder */
  lp_polynomial_t* S1 = al == 0 ? A : al == 1 ? B : R;       /* single remainder-type output */
  switch (op) {
  case 0: if (!ok_dom && !(xa < 0 && xb < 0)) break;
    if (xa < 0 && xb >= 0) break;
    HEAD("div"); lp_polynomial_div(O1, A, B); sb_sp(); sb_poly(O1); sb_emit(); break;
  case 1: if ((!ok_dom || xa != xb) && !(xa < 0 && xb < 0)) break; HEAD("rem"); lp_polynomial_rem(S1, A, B); sb_sp(); sb_poly(S1); sb_emit(); break;
  case 2: if ((!ok_dom || xa != xb) && !(xa < 0 && xb < 0)) break; HEAD("divrem"); lp_polynomial_divrem(O1, O2, A, B); sb_sp(); sb_poly(O1); sb_sp(); sb_poly(O2); sb_emit(); break;
  case 3: if (!ok_dom) break; HEAD("prem"); lp_polynomial_prem(S1, A, B); sb_sp(); sb_poly(S1); sb_emit(); break;
  case 4: if (!ok_dom) break; HEAD("pdivrem"); lp_polynomial_pdivrem(O1, O2, A, B); sb_sp(); sb_poly(O1); sb_sp(); sb_poly(O2); sb_emit(); break;
  case 5: if (!ok_dom) break; HEAD("sprem"); lp_polynomial_sprem(S1, A, B); sb_sp(); sb_poly(S1); sb_emit(); break;
  case 6: if (!ok_dom) break; HEAD("spdivrem"); lp_polynomial_spdivrem(O1, O2, A, B); sb_sp(); sb_poly(O1); sb_sp(); sb_poly(O2); sb_emit(); break;
  case 7: if (!ok_dom) break; HEAD("reduce"); lp_polynomial_reduce(A, B, P, D, R); sb_sp(); sb_poly(P); sb_sp(); sb_poly(D); sb_sp(); sb_poly(R); sb_emit(); break;
  default: { /* divisibility: does B divide A ; also scaled / content variants */
    if (!tokA && chance(30)) { lp_integer_t c; lp_integer_construct_from_int(lp_Z, &c, 2 + rnd(3)); lp_polynomial_mul_integer(B, B, &c); lp_integer_destruct(&c); xb = topvar(B); }
    if (lp_polynomial_is_zero(B)) break;
    if (!tokA) xa = topvar(A);
    if (!(xa >= 0 && (xb < 0 || lp_variable_order_cmp(hp_order, (lp_variable_t)xb, (lp_variable_t)xa) <= 0))) break;
    HEAD("divides"); sb_sp(); sb_long(lp_polynomial_divides(B, A)); sb_emit(); break; }
  }
  hp_stale_end(); free(tokA); free(tokB);
  lp_polynomial_delete(A); lp_polynomial_delete(B); lp_polynomial_delete(Q0); lp_polynomial_delete(R0);
  lp_polynomial_delete(D); lp_polynomial_delete(R); lp_polynomial_delete(P);
}

static void udiv_case(void) {
  int ri = chance(50) ? 0 : (chance(50) ? 1 : 2);
  lp_upolynomial_t* B = hp_random_upoly(ri, 3);
  if (lp_upolynomial_is_zero(B)) { lp_upolynomial_delete(B); return; }
  lp_upolynomial_t* Q0 = hp_random_upoly(ri, 3);
  lp_upolynomial_t* R0 = hp_random_upoly(ri, 3);
  lp_upolynomial_t* A = lp_upolynomial_mul(Q0, B);
  unsigned op = rnd(5);
  if (op != 0 && chance(70)) { lp_upolynomial_t* t = lp_upolynomial_add(A, R0); lp_upolynomial_delete(A); A = t; }
#define UHEAD(nm) sb_begin("udiv", nm); sb_sp(); hp_ring_token(ri); sb_sp(); sb_upoly(A); sb_sp(); sb_upoly(B); sb_arrow()
  switch (op) {
  case 0: {
    if (chance(30)) {            /* division by an integer constant: lp_upolynomial_div_exact_c */
      long cl = rnd_in(-6, 6); if (cl == 0 || (ri == 1 && cl % 5 == 0)) cl = 2;
      lp_integer_t c; lp_integer_construct_from_int(lp_Z, &c, cl);
      lp_upolynomial_t* Ac = lp_upolynomial_mul_c(Q0, &c);
      lp_upolynomial_t* Bc = lp_upolynomial_construct_from_long(hp_ring[ri], 0, &cl);
      sb_begin("udiv", "divexact"); sb_sp(); hp_ring_token(ri); sb_sp(); sb_upoly(Ac); sb_sp(); sb_upoly(Bc); sb_arrow();
      lp_upolynomial_t* D = lp_upolynomial_div_exact_c(Ac, &c);
      sb_sp(); sb_upoly(D); sb_emit();
      lp_upolynomial_delete(D); lp_upolynomial_delete(Ac); lp_upolynomial_delete(Bc); lp_integer_destruct(&c);
      break;
    }
    UHEAD("divexact"); lp_upolynomial_t* D = lp_upolynomial_div_exact(A, B); sb_sp(); sb_upoly(D); sb_emit(); lp_upolynomial_delete(D); break; }
  case 1: { if (ri == 0) break;    /* general exact division with remainder needs a field */
    if (lp_upolynomial_degree(A) < lp_upolynomial_degree(B)) break;
    lp_upolynomial_t* D = 0; lp_upolynomial_t* R = 0;
    UHEAD("divrem"); lp_upolynomial_div_rem_exact(A, B, &D, &R); sb_sp(); sb_upoly(D); sb_sp(); sb_upoly(R); sb_emit();
    lp_upolynomial_delete(D); lp_upolynomial_delete(R); break; }
  case 2: { if (ri == 0) break;
    if (lp_upolynomial_degree(A) < lp_upolynomial_degree(B)) break;
    UHEAD("rem"); lp_upolynomial_t* R = lp_upolynomial_rem_exact(A, B); sb_sp(); sb_upoly(R); sb_emit(); lp_upolynomial_delete(R); break; }
  case 3: { if (ri != 0) break;
    if (lp_upolynomial_degree(A) < lp_upolynomial_degree(B)) break;
    lp_upolynomial_t* D = 0; lp_upolynomial_t* R = 0;
    UHEAD("pseudo"); lp_upolynomial_div_pseudo(&D, &R, A, B); sb_sp(); sb_upoly(D); sb_sp(); sb_upoly(R); sb_emit();
    lp_upolynomial_delete(D); lp_upolynomial_delete(R); break; }
  default: {
    if (chance(30) && ri == 0) { lp_integer_t c; lp_integer_construct_from_int(lp_Z, &c, 2 + rnd(3)); lp_upolynomial_t* t = lp_upolynomial_mul_c(B, &c); lp_upolynomial_delete(B); B = t; lp_integer_destruct(&c); }
    UHEAD("divides"); sb_sp(); sb_long(lp_upolynomial_divides(B, A)); sb_emit(); break; }
  }
  lp_upolynomial_delete(A); lp_upolynomial_delete(B); lp_upolynomial_delete(Q0); lp_upolynomial_delete(R0);
}

int main(int argc, char** argv) {
  uint64_t seed = argc > 1 ? strtoull(argv[1], 0, 10) : 1;
  long n = argc > 2 ? atol(argv[2]) : 1000;
  long only = argc > 3 ? atol(argv[3]) : -1;
  long start = argc > 4 ? atol(argv[4]) : 0;
  lpv_init(); hp_init();
  for (long i = 0; i < n; ++i) {
    if ((only >= 0 && i != only) || i < start) continue;
    lpv_begin_case(seed, i);
    if (chance(65)) div_case(); else udiv_case();
  }
  hp_done();
  free(sb_buf);
  return 0;
}
