import LP.Props.C19
#print axioms LP.RefState.inv_init
#print axioms LP.RefState.inv_step
#print axioms LP.RefState.C19_refs
#print axioms LP.RefState.C19_freed_iff
