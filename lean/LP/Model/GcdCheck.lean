/-
  C03 — certificate checkers for gcd / lcm / content / primitive part / Bezout results.
  A gcd `g` of `p, q` is accepted when (1) `g` divides both (division with multiply-back),
  (2) the cofactors have coprime integer contents, and (3) for every variable occurring in both cofactors
  there is an integer specialisation of the other variables, not killing the leading coefficient of the first
  cofactor, at which the specialised cofactors carry a verified Bezout identity over ℚ[x] — so no common
  factor of positive degree in that variable exists.  Core Lean only.
-/
import LP.Model.QPoly
namespace LP
namespace MPoly

/-- substitute integers for every variable except `x`: dense polynomial in `x` over ℚ -/
def specialize (p : MPoly) (x : Nat) (σ : Nat → Int) : QPoly :=
  let d := degreeIn x p
  (List.range (d + 1)).map (fun k =>
    ((p.filter (fun t => Mono.degreeIn x t.1 = k)).foldl
      (fun acc t => acc + t.2 * (Mono.without x t.1).foldl (fun a q => a * σ q.1 ^ q.2) 1) 0 : Int))

/-- gcd of the absolute values of all integer coefficients -/
def intContent (p : MPoly) : Nat := p.foldl (fun g t => Nat.gcd g t.2.natAbs) 0

/-- deterministic small evaluation points -/
def candPoint (k : Nat) (v : Nat) : Int := (((k * 5 + v * 3 + k * k + k / 7 * (v + 1)) % 9 : Nat) : Int) - 4

/-- certificate search: no common factor of positive degree in `x` -/
def coprimeInVar (a b : MPoly) (x : Nat) : Bool :=
  (List.range 60).any (fun k =>
    let σ := candPoint k
    let sa := specialize a x σ
    let sb := specialize b x σ
    -- the leading coefficient of `a` in x must survive the specialisation
    (QPoly.trim sa).length = degreeIn x a + 1 && QPoly.coprimeCert sa sb)

inductive Cert | yes | no | unknown
  deriving DecidableEq, Repr

/-- are `a`, `b` coprime in Z[x̄]?  `yes` carries certificates; `unknown` = no certificate found -/
def coprimeCheck (a b : MPoly) : Cert :=
  if a.isEmpty ∨ b.isEmpty then
    -- gcd(a, 0) = a: coprime iff the other one is a unit
    let c := if a.isEmpty then b else a
    if c = [([], 1)] ∨ c = [([], -1)] then .yes else .no
  else if Nat.gcd (intContent a) (intContent b) ≠ 1 then .no
  else
    let common := (vars a).filter (fun v => (vars b).contains v)
    if common.all (fun x => coprimeInVar a b x) then .yes else .unknown

/-- sign convention: positive leading coefficient (w.r.t. the lexicographic order with higher variables first) -/
def lcSign (p : MPoly) : Int := match leadTerm p with | some t => sgnI t.2 | none => 0

/-- verdict on a claimed gcd over Z -/
def checkGcdZ (p q g : MPoly) : Cert :=
  if p.isEmpty ∧ q.isEmpty then (if g.isEmpty then .yes else .no)
  else if g.isEmpty then .no
  else
    match divExact? none false p g, divExact? none false q g with
    | some a, some b => coprimeCheck a b
    | _, _ => .no

/-- primitive with respect to variable `x`: the coefficients in `x` have no common non-unit factor.
    Certificate: the first non-zero coefficient is coprime to a fixed integer combination of the others. -/
def primitiveIn (K : Ring) (x : Nat) (p : MPoly) : Cert :=
  let d := degreeIn x p
  let cs := ((List.range (d + 1)).map (fun k => coeffIn K x k p)).filter (fun c => !c.isEmpty)
  match cs with
  | [] => .no
  | [c] => if c = [([], 1)] ∨ c = [([], -1)] then .yes else .no
  | c0 :: rest =>
    let comb := rest.zipIdx.foldl (fun acc ci => add K acc (mulInt K ci.1 ((ci.2 : Int) * 2 + 1))) []
    match coprimeCheck c0 comb with
    | .yes => .yes
    | _ =>
      -- a second combination before giving up
      let comb2 := rest.zipIdx.foldl (fun acc ci => add K acc (mulInt K ci.1 ((ci.2 : Int) * (ci.2 : Int) + 2))) []
      match coprimeCheck c0 comb2 with
      | .yes => .yes
      | _ => .unknown

end MPoly
end LP
