#!/usr/bin/env python3
"""Regenerate MANIFEST.json from tools/props.py + tools/manifest_text.py."""
import json, os, sys
sys.path.insert(0, os.path.dirname(os.path.abspath(__file__)))
from props import PROPS
from manifest_text import TEXT, NOT_APPLICABLE, HOOK_COMMITS

V = os.path.dirname(os.path.dirname(os.path.abspath(__file__)))
ids = [json.loads(l)["id"] for l in open(os.path.join(V, "properties.jsonl"))]
checks = []
for pid in ids:
    if pid not in PROPS or pid in NOT_APPLICABLE:
        continue
    t = TEXT[pid]
    checks.append({
        "property_id": pid,
        "quick_cmd": "python3 tools/check.py %s --tier quick" % pid,
        "thorough_cmd": "python3 tools/check.py %s --tier thorough" % pid,
        "evidence_file": "/verif/evidence/%s.json" % pid,
        "replay_cmd_template": "python3 tools/check.py %s --replay {path}" % pid,
        "engine": "lean-model+correspondence",
        "level_claimed": {"category": PROPS[pid].get("level", "proof"), "text": t["text"], "design_ref": t["design_ref"]},
        "level_note": t["note"],
        "technique": t["technique"],
    })
na = [{"property_id": p, "reason": NOT_APPLICABLE[p]} for p in ids if p in NOT_APPLICABLE or p not in PROPS]
man = {
    "version": 1,
    "setup_cmd": "cd /verif/lean && lake build 2>&1 | tail -5",
    "hooks": {
        "guard": "LIBPOLY_VERIF",
        "enable": "tools/lpv.py compiles /repo/src with -DLIBPOLY_VERIF -DNDEBUG -fsanitize=address,undefined into a content-addressed scratch cache",
        "baseline_off_cmd": "cmake --build /repo/_build && ctest --test-dir /repo/_build -j8 --timeout 900",
        "source_commits": HOOK_COMMITS,
        "add_only": True,
    },
    "engines": [{
        "name": "lean-model+correspondence", "path": "/verif/lean",
        "serves_properties": [c["property_id"] for c in checks],
        "kind_free_text": "Lean 4 executable models + theorems (lake project LP), native line-protocol driver lpdriver, C harnesses calling the real library",
    }],
    "checks": checks,
    "not_applicable": na,
    "notes": "See DESIGN.md. Every check rebuilds libpoly from /repo's working tree (sanitised), rebuilds/audits the Lean theorems, and replays the C observations through the Lean model.",
}
json.dump(man, open(os.path.join(V, "MANIFEST.json"), "w"), indent=1)
print("checks:", [c["property_id"] for c in checks], "n/a:", [x["property_id"] for x in na])
