/-
  C13 — integer counts (`lp_interval_count_int`): when the count is reported (not saturated), it is the number of integers in
  the interval (`C13_countInt`): the integers of a bounded interval are the closed integer end points together with the
  integers m..n strictly inside, and these pieces are disjoint.
-/
import LP.Props.C13Int
import LP.Props.C13Obs
import Mathlib.Order.Interval.Finset.Defs
import Mathlib.Algebra.Order.Group.Int
import Mathlib.Data.Int.Interval

set_option linter.unusedSectionVars false

namespace LP
namespace FSet
open VI

/-- integers admitted by a finite lower bound: the closed integer end itself, or anything from `m` on -/
theorem lower_int' (a : ℚ) (o : Bool) (z : ℤ) :
    lowerOK (α := ℚ) (.fin a) o (z : ℚ) ↔
      ((o = false ∧ EP.isInt (.fin a) = true ∧ (z : ℚ) = a) ∨ qCeil a + (if EP.isInt (.fin a) = true then 1 else 0) ≤ z) := by
  by_cases h : o = false ∧ EP.isInt (.fin a) = true
  · obtain ⟨ho, hi⟩ := h
    obtain ⟨k, rfl⟩ := (isInt_iff a).1 hi
    have hc : qCeil ((k : ℤ) : ℚ) = k := by rw [(C17_rat_ops (k : ℚ) 0 0 0).2.2.2.2.1]; exact Int.ceil_intCast k
    subst ho
    simp only [lowerOK, Bool.false_eq_true, if_false, Rat.cast_intCast, true_and, hi, if_true, hc]
    constructor
    · intro hh
      have : k ≤ z := by exact_mod_cast hh
      rcases eq_or_lt_of_le this with e | l
      · left; exact_mod_cast e.symm
      · right; omega
    · rintro (e | l)
      · have : z = k := by exact_mod_cast e
        rw [this]
      · have : k ≤ z := by omega
        exact_mod_cast this
  · rw [lower_int a o z h]
    constructor
    · intro hh; exact Or.inr hh
    · rintro (⟨h1, h2, _⟩ | hh)
      · exact absurd ⟨h1, h2⟩ h
      · exact hh

theorem upper_int' (b : ℚ) (o : Bool) (z : ℤ) :
    upperOK (α := ℚ) (.fin b) o (z : ℚ) ↔
      ((o = false ∧ EP.isInt (.fin b) = true ∧ (z : ℚ) = b) ∨ z ≤ qFloor b - (if EP.isInt (.fin b) = true then 1 else 0)) := by
  by_cases h : o = false ∧ EP.isInt (.fin b) = true
  · obtain ⟨ho, hi⟩ := h
    obtain ⟨k, rfl⟩ := (isInt_iff b).1 hi
    have hc : qFloor ((k : ℤ) : ℚ) = k := by rw [(C17_rat_ops (k : ℚ) 0 0 0).2.2.2.1]; exact Int.floor_intCast k
    subst ho
    simp only [upperOK, Bool.false_eq_true, if_false, Rat.cast_intCast, true_and, hi, if_true, hc]
    constructor
    · intro hh
      have : z ≤ k := by exact_mod_cast hh
      rcases eq_or_lt_of_le this with e | l
      · left; exact_mod_cast e
      · right; omega
    · rintro (e | l)
      · have : z = k := by exact_mod_cast e
        rw [this]
      · have : z ≤ k := by omega
        exact_mod_cast this
  · rw [upper_int b o z h]
    constructor
    · intro hh; exact Or.inr hh
    · rintro (⟨h1, h2, _⟩ | hh)
      · exact absurd ⟨h1, h2⟩ h
      · exact hh

theorem isInt_ceil (a : ℚ) (h : EP.isInt (.fin a) = true) : ((qCeil a : ℤ) : ℚ) = a ∧ ((qFloor a : ℤ) : ℚ) = a := by
  obtain ⟨k, rfl⟩ := (isInt_iff a).1 h
  rw [(C17_rat_ops (k : ℚ) 0 0 0).2.2.2.2.1, (C17_rat_ops (k : ℚ) 0 0 0).2.2.2.1]
  simp

/-- **`lp_interval_count_int`**: a reported count is the number of integers in the interval -/
theorem C13_countInt (I : VI) (hw : I.WF) (c : Int) (h : VI.countInt I = some c) :
    ∃ S : Finset ℤ, (∀ z : ℤ, z ∈ S ↔ I.Mem (α := ℚ) (z : ℚ)) ∧ (S.card : Int) = c := by
  unfold VI.WF at hw
  unfold VI.countInt at h
  by_cases hp : I.isPoint = true
  · -- a point
    rw [if_pos hp] at hw
    obtain ⟨⟨a, ha⟩, ho1, ho2⟩ := hw
    have hinf : I.a.isInf = false := by rw [ha]; rfl
    simp only [hinf, Bool.false_eq_true, if_false, hp, if_true, Option.some.injEq] at h
    have hmem : ∀ z : ℤ, I.Mem (α := ℚ) (z : ℚ) ↔ (z : ℚ) = a := by
      intro z
      unfold Mem
      simp only [lower, upper, hp, if_true, ha, ho1, ho2, lowerOK, upperOK, Bool.false_eq_true, if_false, Rat.cast_id]
      exact ⟨fun hh => le_antisymm hh.2 hh.1, fun hh => by rw [hh]; exact ⟨le_refl _, le_refl _⟩⟩
    rw [ha] at h
    by_cases hi : EP.isInt (.fin a) = true
    · rw [if_pos hi] at h
      refine ⟨{qCeil a}, fun z => ?_, by simp [← h]⟩
      rw [hmem, Finset.mem_singleton]
      have := (isInt_ceil a hi).1
      constructor
      · intro e; rw [e]; exact this
      · intro e; have : (z : ℚ) = ((qCeil a : ℤ) : ℚ) := by rw [e, this]
        exact_mod_cast this
    · rw [if_neg hi] at h
      refine ⟨∅, fun z => ?_, by simp [← h]⟩
      rw [hmem]
      simp only [Finset.notMem_empty, false_iff]
      intro e
      exact hi ((isInt_iff a).2 ⟨z, e.symm⟩)
  · rw [if_neg hp] at hw
    have hp' : I.isPoint = false := by simpa using hp
    obtain ⟨hab, hna, hnb, ha1, hb1⟩ := hw
    have hup : I.upper = I.b := by simp [upper, hp']
    rcases hA : I.a with _ | a | _
    · rw [hA] at h; simp [EP.isInf] at h
    · rcases hB : I.b with _ | b | _
      · exact absurd hB hb1
      · rw [hA, hB, EP.cmp_fin, cmpQ_lt] at hab
        rw [hA, hB] at h
        simp only [EP.isInf, Bool.false_eq_true, if_false, hp'] at h
        have hce : ceilE (.fin a) = qCeil a := rfl
        have hfl : floorE (.fin b) = qFloor b := rfl
        rw [hce, hfl] at h
        -- the pieces
        set m : ℤ := qCeil a + (if EP.isInt (.fin a) = true then 1 else 0) with hm
        set n : ℤ := qFloor b - (if EP.isInt (.fin b) = true then 1 else 0) with hn
        have hmemz : ∀ z : ℤ, I.Mem (α := ℚ) (z : ℚ) ↔
            ((I.aOpen = false ∧ EP.isInt (.fin a) = true ∧ (z : ℚ) = a) ∨ m ≤ z) ∧
            ((I.bOpen = false ∧ EP.isInt (.fin b) = true ∧ (z : ℚ) = b) ∨ z ≤ n) := by
          intro z
          unfold Mem
          rw [hup]
          simp only [lower, hA, hB]
          rw [lower_int' a I.aOpen z, upper_int' b I.bOpen z]
        let SA : Finset ℤ := if I.aOpen = false ∧ EP.isInt (.fin a) = true then {qCeil a} else ∅
        let SB : Finset ℤ := if I.bOpen = false ∧ EP.isInt (.fin b) = true then {qFloor b} else ∅
        have hSA : ∀ z : ℤ, z ∈ SA ↔ (I.aOpen = false ∧ EP.isInt (.fin a) = true ∧ (z : ℚ) = a) := by
          intro z
          show z ∈ (if I.aOpen = false ∧ EP.isInt (.fin a) = true then ({qCeil a} : Finset ℤ) else ∅) ↔ _
          split_ifs with hc
          · rw [Finset.mem_singleton]
            have := (isInt_ceil a hc.2).1
            constructor
            · intro e; rw [e]; exact ⟨hc.1, hc.2, this⟩
            · rintro ⟨_, _, e⟩
              have : (z : ℚ) = ((qCeil a : ℤ) : ℚ) := by rw [e, this]
              exact_mod_cast this
          · simp only [Finset.notMem_empty, false_iff]
            rintro ⟨h1, h2, _⟩; exact hc ⟨h1, h2⟩
        have hSB : ∀ z : ℤ, z ∈ SB ↔ (I.bOpen = false ∧ EP.isInt (.fin b) = true ∧ (z : ℚ) = b) := by
          intro z
          show z ∈ (if I.bOpen = false ∧ EP.isInt (.fin b) = true then ({qFloor b} : Finset ℤ) else ∅) ↔ _
          split_ifs with hc
          · rw [Finset.mem_singleton]
            have := (isInt_ceil b hc.2).2
            constructor
            · intro e; rw [e]; exact ⟨hc.1, hc.2, this⟩
            · rintro ⟨_, _, e⟩
              have : (z : ℚ) = ((qFloor b : ℤ) : ℚ) := by rw [e, this]
              exact_mod_cast this
          · simp only [Finset.notMem_empty, false_iff]
            rintro ⟨h1, h2, _⟩; exact hc ⟨h1, h2⟩
        -- a closed integer lower end lies below m and below b; a closed integer upper end lies above n and above a
        have hAm : ∀ z : ℤ, z ∈ SA → z < m ∧ (z ≤ n ∨ (I.bOpen = false ∧ EP.isInt (.fin b) = true ∧ (z : ℚ) = b) → True) ∧ (z : ℚ) < b := by
          intro z hz
          obtain ⟨_, hi, e⟩ := (hSA z).1 hz
          have hc := (isInt_ceil a hi).1
          refine ⟨?_, fun _ => trivial, by rw [e]; exact hab⟩
          have : z = qCeil a := by
            have : (z : ℚ) = ((qCeil a : ℤ) : ℚ) := by rw [e, hc]
            exact_mod_cast this
          rw [hm, if_pos hi, this]; omega
        have hBn : ∀ z : ℤ, z ∈ SB → n < z ∧ a < (z : ℚ) := by
          intro z hz
          obtain ⟨_, hi, e⟩ := (hSB z).1 hz
          have hc := (isInt_ceil b hi).2
          refine ⟨?_, by rw [e]; exact hab⟩
          have : z = qFloor b := by
            have : (z : ℚ) = ((qFloor b : ℤ) : ℚ) := by rw [e, hc]
            exact_mod_cast this
          rw [hn, if_pos hi, this]; omega
        -- a (as an integer end) satisfies the upper side, b the lower side
        have hA_up : ∀ z : ℤ, z ∈ SA → (I.bOpen = false ∧ EP.isInt (.fin b) = true ∧ (z : ℚ) = b) ∨ z ≤ n := by
          intro z hz
          have hzb := (hAm z hz).2.2
          right
          have : upperOK (α := ℚ) (.fin b) true (z : ℚ) := by simp [upperOK]; exact hzb
          rcases (upper_int' b true z).1 this with ⟨h0, _⟩ | hh
          · simp at h0
          · exact hh
        have hB_lo : ∀ z : ℤ, z ∈ SB → (I.aOpen = false ∧ EP.isInt (.fin a) = true ∧ (z : ℚ) = a) ∨ m ≤ z := by
          intro z hz
          have hza := (hBn z hz).2
          right
          have : lowerOK (α := ℚ) (.fin a) true (z : ℚ) := by simp [lowerOK]; exact hza
          rcases (lower_int' a true z).1 this with ⟨h0, _⟩ | hh
          · simp at h0
          · exact hh
        refine ⟨SA ∪ Finset.Icc m n ∪ SB, fun z => ?_, ?_⟩
        · rw [hmemz z]
          simp only [Finset.mem_union, Finset.mem_Icc]
          rw [← hSA z, ← hSB z]
          constructor
          · rintro ((hz | ⟨h1, h2⟩) | hz)
            · exact ⟨Or.inl hz, by rw [hSB z]; exact hA_up z hz⟩
            · exact ⟨Or.inr h1, Or.inr h2⟩
            · exact ⟨by rw [hSA z]; exact hB_lo z hz, Or.inl hz⟩
          · rintro ⟨h1 | h1, h2 | h2⟩
            · exact Or.inl (Or.inl h1)
            · exact Or.inl (Or.inl h1)
            · exact Or.inr h2
            · exact Or.inl (Or.inr ⟨h1, h2⟩)
        · -- the count
          have d1 : Disjoint SA (Finset.Icc m n) := by
            rw [Finset.disjoint_left]; intro z hz hz2
            have := (hAm z hz).1; have := (Finset.mem_Icc.1 hz2).1; omega
          have d2 : Disjoint (SA ∪ Finset.Icc m n) SB := by
            rw [Finset.disjoint_left]; intro z hz hz2
            have hb := hBn z hz2
            rcases Finset.mem_union.1 hz with hz1 | hz1
            · have h1 := (hAm z hz1).2.2
              obtain ⟨_, _, e⟩ := (hSB z).1 hz2
              rw [e] at h1; exact lt_irrefl _ h1
            · have := (Finset.mem_Icc.1 hz1).2; omega
          rw [Finset.card_union_of_disjoint d2, Finset.card_union_of_disjoint d1, Int.card_Icc]
          have cA : (SA.card : Int) = if (!I.aOpen && EP.isInt (.fin a)) = true then 1 else 0 := by
            show ((if I.aOpen = false ∧ EP.isInt (.fin a) = true then ({qCeil a} : Finset ℤ) else ∅).card : Int) = _
            cases I.aOpen <;> cases EP.isInt (.fin a) <;> simp
          have cB : (SB.card : Int) = if (!I.bOpen && EP.isInt (.fin b)) = true then 1 else 0 := by
            show ((if I.bOpen = false ∧ EP.isInt (.fin b) = true then ({qFloor b} : Finset ℤ) else ∅).card : Int) = _
            cases I.bOpen <;> cases EP.isInt (.fin b) <;> simp
          push_cast
          rw [cA, cB]
          generalize (if (!I.aOpen && EP.isInt (.fin a)) = true then (1 : Int) else 0) = rA at h ⊢
          generalize (if (!I.bOpen && EP.isInt (.fin b)) = true then (1 : Int) else 0) = rB at h ⊢
          by_cases hd : n - m ≥ 0
          · rw [if_pos hd] at h
            split_ifs at h with h1 h2 <;> simp only [Option.some.injEq, reduceCtorEq] at h
            rw [← h, Int.toNat_of_nonneg (by omega)]
            omega
          · rw [if_neg hd] at h
            simp only [Option.some.injEq] at h
            rw [← h, Int.toNat_eq_zero.2 (by omega)]
            omega
      · rw [hA, hB] at h; simp [EP.isInf, hp'] at h
    · exact absurd hA ha1

/-- the step function of `lp_feasibility_set_count_int` -/
def countStep (acc : Option Int) (I : VI) : Option Int :=
  match acc, VI.countInt I with
  | some c, some t => if t ≥ 2 ^ 63 - 1 - c then none else some (c + t)
  | _, _ => none

theorem countInt_eq_foldl (s : List VI) : FSet.countInt s = s.foldl countStep (some 0) := rfl

theorem foldl_countStep_none (s : List VI) : s.foldl countStep none = none := by
  induction s with
  | nil => rfl
  | cons I s ih => simpa [List.foldl_cons, countStep] using ih

/-- invariant of the fold: the accumulator counts the integers of the intervals consumed so far -/
theorem foldl_countStep_spec : ∀ (s : List VI) (done : List VI) (c0 c : Int) (S0 : Finset ℤ),
    (∀ I ∈ s, I.WF) → (done ++ s).Pairwise (Sep ℚ) →
    (∀ z : ℤ, z ∈ S0 ↔ SetMem ℚ done (z : ℚ)) → (S0.card : Int) = c0 →
    s.foldl countStep (some c0) = some c →
    ∃ S : Finset ℤ, (∀ z : ℤ, z ∈ S ↔ SetMem ℚ (done ++ s) (z : ℚ)) ∧ (S.card : Int) = c := by
  intro s
  induction s with
  | nil =>
    intro done c0 c S0 _ _ hS0 hc0 h
    simp only [List.foldl_nil, Option.some.injEq] at h
    exact ⟨S0, by simpa using hS0, by rw [hc0, h]⟩
  | cons I s ih =>
    intro done c0 c S0 hw hsep hS0 hc0 h
    rw [List.foldl_cons] at h
    cases ht : VI.countInt I with
    | none =>
      have : countStep (some c0) I = none := by simp [countStep, ht]
      rw [this, foldl_countStep_none] at h; simp at h
    | some t =>
      by_cases hsat : t ≥ 2 ^ 63 - 1 - c0
      · have : countStep (some c0) I = none := by
          simp only [countStep, ht]; rw [if_pos hsat]
        rw [this, foldl_countStep_none] at h; simp at h
      · have hstep : countStep (some c0) I = some (c0 + t) := by
          simp only [countStep, ht]; rw [if_neg hsat]
        rw [hstep] at h
        obtain ⟨SI, hSI, hcI⟩ := C13_countInt I (hw I (by simp)) t ht
        -- the integers of I are new: I is separated from everything consumed so far
        have hdisj : Disjoint S0 SI := by
          rw [Finset.disjoint_left]
          intro z hz0 hzI
          obtain ⟨J, hJ, hzJ⟩ := (hS0 z).1 hz0
          have hzI' := (hSI z).1 hzI
          have hJI : Sep ℚ J I := by
            have := List.pairwise_append.1 hsep
            exact this.2.2 J hJ I (by simp)
          exact lt_irrefl _ (hJI _ _ hzJ hzI')
        have := ih (done ++ [I]) (c0 + t) c (S0 ∪ SI) (fun J hJ => hw J (List.mem_cons_of_mem _ hJ))
          (by simpa using hsep)
          (fun z => by
            rw [Finset.mem_union, hS0 z, hSI z, setMem_append]
            simp [SetMem])
          (by rw [Finset.card_union_of_disjoint hdisj]; push_cast; rw [hc0, hcI])
          h
        simpa using this

/-- **`lp_feasibility_set_count_int`**: a reported count is the number of integers in the set (normal-form lists) -/
theorem C13_set_countInt (s : List VI) (hn : NFs s) (c : Int) (h : FSet.countInt s = some c) :
    ∃ S : Finset ℤ, (∀ z : ℤ, z ∈ S ↔ SetMem ℚ s (z : ℚ)) ∧ (S.card : Int) = c := by
  rw [countInt_eq_foldl] at h
  have := foldl_countStep_spec s [] 0 c ∅ hn.1 (by simpa using nfs_pairwise_sep (α := ℚ) s hn)
    (fun z => by simp [setMem_nil]) (by simp) h
  simpa using this

end FSet
end LP
