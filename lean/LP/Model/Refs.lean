/-
  C19 (reference counting) — protocol model of the reference-counted objects: coefficient rings and
  polynomial contexts, and their holders (creator handles, explicit attachments, external polynomials,
  polynomial vectors, univariate polynomials, finite-field feasibility sets).
  A context attachment also attaches the context's ring (lp_polynomial_context_attach).  Core Lean only.
-/
namespace LP

/-- who holds a reference -/
inductive Holder
  | ringHandle (r : Nat)      -- the creator's handle or an explicit lp_int_ring_attach
  | ctxHandle (c : Nat)       -- lp_polynomial_context_new / _attach
  | extPoly (c : Nat)         -- polynomial marked external
  | vec (c : Nat)             -- polynomial vector
  | upoly (r : Nat)           -- univariate polynomial
  | fsi (r : Nat)             -- finite-field feasibility set
  deriving DecidableEq, Repr

inductive RefOp
  | acquire (h : Holder)      -- create the holder (attach)
  | release (h : Holder)      -- destroy the holder (detach)
  | retarget (h h' : Holder)  -- a holder moves its reference: an external polynomial of context c becomes the output of an
                              -- operation on context c' (extPoly c ↦ extPoly c'), lp_upolynomial_set_ring (upoly r ↦ upoly r')
  deriving Repr

structure RefState where
  ringCnt : Nat → Int
  ctxCnt : Nat → Int
  ctxRing : Nat → Nat         -- fixed association context → ring
  holders : List Holder

namespace RefState

def init (ctxRing : Nat → Nat) : RefState := ⟨fun _ => 0, fun _ => 0, ctxRing, []⟩

def bumpRing (s : RefState) (r : Nat) (d : Int) : RefState :=
  { s with ringCnt := fun x => if x = r then s.ringCnt x + d else s.ringCnt x }
def bumpCtx (s : RefState) (c : Nat) (d : Int) : RefState :=
  { (s.bumpRing (s.ctxRing c) d) with ctxCnt := fun x => if x = c then s.ctxCnt x + d else s.ctxCnt x }

/-- effect of attaching / detaching on the counters, as the C code does it -/
def bump (s : RefState) (h : Holder) (d : Int) : RefState :=
  match h with
  | .ringHandle r | .upoly r | .fsi r => s.bumpRing r d
  | .ctxHandle c | .extPoly c | .vec c => s.bumpCtx c d

def acq (s : RefState) (h : Holder) : RefState := { (s.bump h 1) with holders := h :: s.holders }
def rel (s : RefState) (h : Holder) : RefState :=
  if s.holders.contains h then { (s.bump h (-1)) with holders := s.holders.erase h } else s

def step (s : RefState) : RefOp → RefState
  | .acquire h => s.acq h
  | .release h => s.rel h
  | .retarget h h' =>
    -- lp_polynomial_set_context / lp_polynomial_swap / lp_upolynomial_set_ring: the reference on the old object is given
    -- back and one on the new object is taken (nothing happens when no such holder exists)
    if s.holders.contains h then (s.rel h).acq h' else s

def run (s : RefState) (ops : List RefOp) : RefState := ops.foldl step s

/-- does holder `h` reference ring `r` directly -/
def refsRing (r : Nat) : Holder → Bool
  | .ringHandle x | .upoly x | .fsi x => x = r
  | _ => false
def refsCtx (c : Nat) : Holder → Bool
  | .ctxHandle x | .extPoly x | .vec x => x = c
  | _ => false

end RefState
end LP
