/* C14 harness (sets part): finite-field feasibility sets.
 * Exhaustive: for p in {2,3,5} (and 7 when LPV_EXH7=1) every pair of subsets in all four
 * representation combinations (listed / complemented) through every operation.
 * Random: larger primes incl. ones above the brute-force threshold and multi-limb ones.
 */
#include "common.h"
#include <poly.h>
#include <integer.h>
#include <feasibility_set_int.h>
#include <stdbool.h>

static const char* primes[] = { "2", "3", "5", "7", "11", "13", "101", "997", "1009", "10007",
  "2305843009213693951", "618970019642690137449562111",
  /* primes that fit an unsigned long but not a long: 2^63 + 29, 2^64 - 59 */
  "9223372036854775837", "18446744073709551557" };
#define NPR (sizeof primes / sizeof primes[0])
static lp_int_ring_t* rings[NPR];

static void sb_set(const lp_feasibility_set_int_t* s) {
  sb_str(s->inverted ? "~" : "+");
  if (s->size == 0) { sb_str("_"); return; }
  for (size_t i = 0; i < s->size; ++i) { if (i) sb_str(","); sb_mpz(&s->elements[i]); }
}
static void sb_ring(int ri) { sb_str("Zp"); sb_str(primes[ri]); }
static const char* STAT[] = { "S1", "S2", "NEW", "EMPTY" };

/* subset `mask` of {lb..ub} of the small field ri, in representation rep (0 listed, 1 complemented) */
static lp_feasibility_set_int_t* small_set(int ri, unsigned mask, int rep) {
  long p = atol(primes[ri]);
  long lbv = -((p - 1) / 2);
  lp_integer_t el[16]; size_t n = 0;
  for (long i = 0; i < p; ++i) {
    int in = (mask >> i) & 1;
    if (in != rep) { lp_integer_construct_from_int(lp_Z, &el[n], lbv + i); n++; }
  }
  /* shuffle a little and duplicate one element: construction must sort and deduplicate */
  if (n > 1) { size_t i = rnd(n), j = rnd(n); lp_integer_swap(&el[i], &el[j]); }
  if (n > 0 && n < 16) { lp_integer_construct_copy(lp_Z, &el[n], &el[rnd(n)]); n++; }
  lp_feasibility_set_int_t* s = lp_feasibility_set_int_new_from_integer(rings[ri], el, n, rep);
  for (size_t i = 0; i < n; ++i) lp_integer_destruct(&el[i]);
  return s;
}

static void observe_unary(int ri, const lp_feasibility_set_int_t* s) {
  lp_integer_t z; lp_integer_construct(&z);
  sb_begin("fsi", "isempty"); sb_sp(); sb_ring(ri); sb_sp(); sb_set(s); sb_arrow(); sb_sp(); sb_long(lp_feasibility_set_int_is_empty(s)); sb_emit();
  sb_begin("fsi", "isfull"); sb_sp(); sb_ring(ri); sb_sp(); sb_set(s); sb_arrow(); sb_sp(); sb_long(lp_feasibility_set_int_is_full(s)); sb_emit();
  if (ri > 0) { sb_begin("fsi", "ispoint"); sb_sp(); sb_ring(ri); sb_sp(); sb_set(s); sb_arrow(); sb_sp(); sb_long(lp_feasibility_set_int_is_point(s)); sb_emit(); }
  sb_begin("fsi", "size"); sb_sp(); sb_ring(ri); sb_sp(); sb_set(s); sb_arrow(); lp_feasibility_set_int_size(s, &z); sb_sp(); sb_mpz(&z); sb_emit();
  if (!lp_feasibility_set_int_is_empty(s)) {
    sb_begin("fsi", "pick"); sb_sp(); sb_ring(ri); sb_sp(); sb_set(s); sb_arrow();
    lp_feasibility_set_int_pick_value(s, &z); sb_sp(); sb_mpz(&z); sb_emit();
  }
  lp_feasibility_set_int_t* c = lp_feasibility_set_int_new_copy(s);
  sb_begin("fsi", "copy"); sb_sp(); sb_ring(ri); sb_sp(); sb_set(s); sb_arrow(); sb_sp(); sb_set(c); sb_emit();
  lp_feasibility_set_int_delete(c);
  lp_integer_destruct(&z);
}

static void observe_contains(int ri, const lp_feasibility_set_int_t* s, const lp_integer_t* v) {
  sb_begin("fsi", "contains"); sb_sp(); sb_ring(ri); sb_sp(); sb_set(s); sb_sp(); sb_mpz(v); sb_arrow();
  sb_sp(); sb_long(lp_feasibility_set_int_contains(s, v) ? 1 : 0); sb_emit();
}

static void observe_binary(int ri, const lp_feasibility_set_int_t* a, const lp_feasibility_set_int_t* b) {
  lp_feasibility_set_int_status_t st;
  lp_feasibility_set_int_t* r;
  sb_begin("fsi", "intersect"); sb_sp(); sb_ring(ri); sb_sp(); sb_set(a); sb_sp(); sb_set(b); sb_arrow();
  r = lp_feasibility_set_int_intersect_with_status(a, b, &st); sb_sp(); sb_set(r); sb_sp(); sb_str(STAT[st]); sb_emit();
  lp_feasibility_set_int_delete(r);
  sb_begin("fsi", "union"); sb_sp(); sb_ring(ri); sb_sp(); sb_set(a); sb_sp(); sb_set(b); sb_arrow();
  r = lp_feasibility_set_int_union_with_status(a, b, &st); sb_sp(); sb_set(r); sb_sp(); sb_str(STAT[st]); sb_emit();
  lp_feasibility_set_int_delete(r);
  sb_begin("fsi", "intersect0"); sb_sp(); sb_ring(ri); sb_sp(); sb_set(a); sb_sp(); sb_set(b); sb_arrow();
  r = lp_feasibility_set_int_intersect(a, b); sb_sp(); sb_set(r); sb_emit();
  lp_feasibility_set_int_delete(r);
  sb_begin("fsi", "union0"); sb_sp(); sb_ring(ri); sb_sp(); sb_set(a); sb_sp(); sb_set(b); sb_arrow();
  r = lp_feasibility_set_int_union(a, b); sb_sp(); sb_set(r); sb_emit();
  lp_feasibility_set_int_delete(r);
  sb_begin("fsi", "eq"); sb_sp(); sb_ring(ri); sb_sp(); sb_set(a); sb_sp(); sb_set(b); sb_arrow();
  sb_sp(); sb_long(lp_feasibility_set_int_eq(a, b) ? 1 : 0); sb_emit();
  /* in-place add (union) and assign */
  r = lp_feasibility_set_int_new_copy(a);
  sb_begin("fsi", "add"); sb_sp(); sb_ring(ri); sb_sp(); sb_set(a); sb_sp(); sb_set(b); sb_arrow();
  lp_feasibility_set_int_add(r, b); sb_sp(); sb_set(r); sb_emit();
  sb_begin("fsi", "assign"); sb_sp(); sb_ring(ri); sb_sp(); sb_set(r); sb_sp(); sb_set(b); sb_arrow();
  lp_feasibility_set_int_assign(r, b); sb_sp(); sb_set(r); sb_emit();
  lp_feasibility_set_int_delete(r);
}

/* exhaustive enumeration for ring index ri (p <= 7): objects = (mask, rep) */
static long exh_count(int ri) { long p = atol(primes[ri]); long objs = (1L << p) * 2; return objs * objs; }

static void exhaustive_case(int ri, long idx) {
  long p = atol(primes[ri]); long objs = (1L << p) * 2;
  long i = idx % objs, j = idx / objs;
  lp_feasibility_set_int_t* a = small_set(ri, (unsigned)(i >> 1), (int)(i & 1));
  lp_feasibility_set_int_t* b = small_set(ri, (unsigned)(j >> 1), (int)(j & 1));
  observe_binary(ri, a, b);
  if (j == 0) {
    observe_unary(ri, a);
    lp_integer_t v; lp_integer_construct(&v);
    for (long k = -p - 1; k <= p + 1; ++k) { lp_integer_assign_int(lp_Z, &v, k); observe_contains(ri, a, &v); }
    lp_integer_destruct(&v);
  }
  lp_feasibility_set_int_delete(a); lp_feasibility_set_int_delete(b);
}

/* random set over ring ri; elements drawn from a small pool so that overlaps are frequent */
static lp_feasibility_set_int_t* random_set(int ri, const lp_integer_t* pool, size_t npool) {
  size_t n = rnd(chance(70) ? 6 : 14);
  if (ri <= 5 && chance(30)) n = rnd(atol(primes[ri]) + 1);
  if (ri >= (int)NPR - 2 && chance(60)) n = rnd(31);      /* sizes around the low bits of the 64-bit primes */
  lp_integer_t el[32];
  for (size_t i = 0; i < n; ++i) lp_integer_construct_copy(lp_Z, &el[i], &pool[rnd(npool)]);
  lp_feasibility_set_int_t* s = lp_feasibility_set_int_new_from_integer(rings[ri], el, n, rnd(2));
  for (size_t i = 0; i < n; ++i) lp_integer_destruct(&el[i]);
  return s;
}

static void random_case(void) {
  int ri = 3 + (int)rnd(NPR - 3);
  lp_integer_t pool[40]; size_t npool = 6 + rnd(14); if (ri >= (int)NPR - 2) npool = 20 + rnd(20);
  const lp_int_ring_t* K = rings[ri];
  for (size_t i = 0; i < npool; ++i) {
    lp_integer_construct(&pool[i]);
    unsigned k = rnd(10);
    if (k < 5) lp_integer_assign_int(lp_Z, &pool[i], rnd_in(-8, 8));
    else if (k < 7) { mpz_set(&pool[i], rnd(2) ? &K->lb : &K->ub); if (chance(50)) mpz_add_ui(&pool[i], &pool[i], 1); }
    else gen_mpz(&pool[i]);      /* not normalised: construction must normalise */
  }
  lp_feasibility_set_int_t* a = random_set(ri, pool, npool);
  lp_feasibility_set_int_t* b = chance(10) ? lp_feasibility_set_int_new_copy(a) : random_set(ri, pool, npool);
  if (chance(10)) { lp_feasibility_set_int_delete(b); b = chance(50) ? lp_feasibility_set_int_new_full(rings[ri]) : lp_feasibility_set_int_new_empty(rings[ri]); }
  observe_binary(ri, a, b);
  observe_unary(ri, a);
  for (int k = 0; k < 4; ++k) observe_contains(ri, a, &pool[rnd(npool)]);
  { /* construction from raw (unsorted, duplicated, unnormalised) integers */
    size_t n = rnd(9); lp_integer_t el[9]; int inv = rnd(2);
    sb_begin("fsi", "new"); sb_sp(); sb_ring(ri); sb_sp(); sb_long(inv); sb_sp();
    if (n == 0) sb_str("_");
    for (size_t i = 0; i < n; ++i) { lp_integer_construct_copy(lp_Z, &el[i], &pool[rnd(npool)]); if (i) sb_str(","); sb_mpz(&el[i]); }
    sb_arrow();
    lp_feasibility_set_int_t* s = lp_feasibility_set_int_new_from_integer(rings[ri], el, n, inv);
    sb_sp(); sb_set(s); sb_emit();
    lp_feasibility_set_int_delete(s);
    for (size_t i = 0; i < n; ++i) lp_integer_destruct(&el[i]);
  }
  lp_feasibility_set_int_delete(a); lp_feasibility_set_int_delete(b);
  for (size_t i = 0; i < npool; ++i) lp_integer_destruct(&pool[i]);
}

int main(int argc, char** argv) {
  uint64_t seed = argc > 1 ? strtoull(argv[1], 0, 10) : 1;
  long n = argc > 2 ? atol(argv[2]) : 1000;
  long only = argc > 3 ? atol(argv[3]) : -1;
  long start = argc > 4 ? atol(argv[4]) : 0;
  lpv_init();
  for (unsigned i = 0; i < NPR; ++i) { mpz_t M; mpz_init_set_str(M, primes[i], 10); rings[i] = lp_int_ring_create(M, 1); mpz_clear(M); }
  int nexh = getenv("LPV_EXH7") ? 4 : 3;
  long off[5]; off[0] = 0;
  for (int r = 0; r < nexh; ++r) off[r + 1] = off[r] + exh_count(r);
  long total = off[nexh] + n;
  for (long i = 0; i < total; ++i) {
    if ((only >= 0 && i != only) || i < start) continue;
    lpv_begin_case(seed, i);
    if (i < off[nexh]) { int r = 0; while (i >= off[r + 1]) r++; exhaustive_case(r, i - off[r]); }
    else random_case();
  }
  for (unsigned i = 0; i < NPR; ++i) lp_int_ring_detach(rings[i]);
  free(sb_buf);
  return 0;
}
