import LP.Props.C11
import LP.Props.C11Roots
import LP.Props.C12Exact
import LP.Props.C11Fallback2
#print axioms LP.Eval.C11_sign_change_root
#print axioms LP.Eval.C11_identically_zero
#print axioms LP.Eval.C10_sign_interval_only
#print axioms LP.Eval.C10_sign_sound
#print axioms LP.QPoly.realRoots_sound
#print axioms LP.Alg.cmp_sound
#print axioms LP.Eval.elimY_root
#print axioms LP.Eval.isRootAt_sound
#print axioms LP.realRoots_isolates
#print axioms LP.Eval.C11_rootsUnder_exact
#print axioms LP.Eval.identicallyZero_sound
#print axioms LP.Eval.hasDerivAt_specR
#print axioms LP.Eval.isoLoopM_sound
#print axioms LP.Eval.rootBoundM_spec
#print axioms LP.Eval.reduceLeading_spec
#print axioms LP.Eval.rootsByIntervals_sound
