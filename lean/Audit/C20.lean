import LP.Props.C20
import LP.Props.C20Heap
import LP.Props.C20HeapOrder
import LP.Props.C20HeapRemove
import LP.Props.C20HeapRefine
import LP.Props.C20HSet
import LP.Props.C20HSetProbe
import LP.Props.C20HSetRemove
import LP.Props.C20HSetRefine
import LP.Props.C20HSetIntersect
#print axioms LP.SpecSet.C20_spec_insert
#print axioms LP.SpecSet.C20_spec_remove
#print axioms LP.SpecSet.C20_spec_size
#print axioms LP.listMax?_spec
#print axioms LP.C20_spec_pop
#print axioms LP.C20_spec_remove_all
#print axioms LP.HSet.C20_close_length
#print axioms LP.HSet.probe_spec
#print axioms LP.HSet.C20_contains_sound
#print axioms LP.Heap.siftUp_perm
#print axioms LP.Heap.siftDown_perm
#print axioms LP.Heap.C20_heap_push_perm
#print axioms LP.Heap.C20_heap_pop_perm
#print axioms LP.Heap.C20_heap_remove_perm
#print axioms LP.Heap.siftUp_ok
#print axioms LP.Heap.siftDown_ok
#print axioms LP.Heap.C20_heap_push_ok
#print axioms LP.Heap.C20_heap_pop_ok
#print axioms LP.Heap.C20_heap_remove_ok
#print axioms LP.Heap.C20_heap_peek_max
#print axioms LP.Heap.C20_heap_reachable_ok
#print axioms LP.HSet.slots_fill
#print axioms LP.HSet.slots_clear
#print axioms LP.HSet.shiftBack_perm
#print axioms LP.HSet.C20_hset_insert_perm
#print axioms LP.HSet.C20_hset_insert_found
#print axioms LP.HSet.C20_hset_remove_perm
#print axioms LP.HSet.C20_hset_remove_missing
#print axioms LP.HSet.extend_perm
#print axioms LP.HSet.C20_hset_insert_perm_any
#print axioms LP.HSet.C20_hset_reachable_size
#print axioms LP.HSet.contains_complete
#print axioms LP.HSet.pc_fill
#print axioms LP.HSet.insert_pc
#print axioms LP.HSet.extend_pc
#print axioms LP.HSet.insert_good
#print axioms LP.HSet.good_empty
#print axioms LP.HSet.C20_hset_insert_only_partial
#print axioms LP.HSet.sinv_final
#print axioms LP.HSet.sinv_stay
#print axioms LP.HSet.sinv_move
#print axioms LP.HSet.shiftBack_pc
#print axioms LP.HSet.remove_good
#print axioms LP.HSet.step_ok
#print axioms LP.HSet.C20_hset_refines
#print axioms LP.HSet.C20_hset_answers
#print axioms LP.HSet.C20_hset_contains
#print axioms LP.HSet.C20_hset_enumeration
#print axioms LP.HSet.shiftBack_src
#print axioms LP.HSet.removeAt_step
#print axioms LP.HSet.intersectLoop_ok
#print axioms LP.HSet.intersect_ok
#print axioms LP.HSet.step_inter
#print axioms LP.HSet.C20_hset_refines2
#print axioms LP.HSet.C20_hset_observers2
#print axioms LP.Heap.removeLoop_none_left
#print axioms LP.Heap.C20_heap_remove_all
#print axioms LP.Heap.heap_step_ok
#print axioms LP.Heap.C20_heap_refines
#print axioms LP.Heap.C20_heap_answers
