/-
  C03 — gcd, lcm, content, primitive part, extended gcd and Bezout results are validated per output by
  executable certificate checkers.  Proved here, for all inputs:
  * an accepted gcd divides both operands in `MvPolynomial ℕ ℤ` (division with multiply-back);
  * the univariate Bezout certificate is sound: if the checker accepts `u, v` for `a, b` then `a` and `b`
    are coprime in `ℚ[X]` (the dense-list arithmetic is a ring homomorphism into `Polynomial ℚ`);
  * the Bezout / extended-gcd identities over Z_p accepted by the checker hold in `MvPolynomial ℕ (ZMod p)`.
  `_partial`: that coprimality of the integer contents together with one coprime specialisation per variable
  excludes every common factor is the classical argument described in DESIGN; it is not formalised.
-/
import LP.Model.GcdCheck
import LP.Props.C02
import Mathlib.Algebra.Polynomial.Basic
import Mathlib.Algebra.Polynomial.Eval.Defs
import Mathlib.RingTheory.Coprime.Basic
import Mathlib.Algebra.Polynomial.Monomial
import Mathlib.Tactic.Ring
import Mathlib.Tactic.NormNum

namespace LP
open Polynomial

namespace QPoly

/-- the polynomial denoted by a coefficient list (low degree first) -/
noncomputable def toPoly : QPoly → ℚ[X]
  | [] => 0
  | c :: p => C c + X * toPoly p

theorem toPoly_nil : toPoly [] = 0 := rfl
theorem toPoly_cons (c : ℚ) (p : QPoly) : toPoly (c :: p) = C c + X * toPoly p := rfl

theorem toPoly_add (p q : QPoly) : toPoly (add p q) = toPoly p + toPoly q := by
  induction p generalizing q with
  | nil => simp [add, toPoly_nil]
  | cons a p ih =>
    cases q with
    | nil => simp [add, toPoly_nil]
    | cons b q =>
      simp only [add, toPoly_cons, ih, map_add]
      ring

theorem toPoly_smul (c : ℚ) (p : QPoly) : toPoly (smul c p) = C c * toPoly p := by
  induction p with
  | nil => simp [smul, toPoly_nil]
  | cons a p ih =>
    have : smul c (a :: p) = (c * a) :: smul c p := rfl
    rw [this, toPoly_cons, toPoly_cons, ih, map_mul]
    ring

theorem toPoly_shift_one (p : QPoly) : toPoly (shift 1 p) = X * toPoly p := by
  show toPoly ((0 : ℚ) :: p) = _
  rw [toPoly_cons]; simp

theorem toPoly_mul (p q : QPoly) : toPoly (mul p q) = toPoly p * toPoly q := by
  induction p with
  | nil => simp [mul, toPoly_nil]
  | cons a p ih =>
    simp only [mul, toPoly_add, toPoly_smul, toPoly_shift_one, ih, toPoly_cons]
    ring

theorem toPoly_append_zero (p : QPoly) : toPoly (p ++ [0]) = toPoly p := by
  induction p with
  | nil => simp [toPoly_cons, toPoly_nil]
  | cons a p ih => rw [List.cons_append, toPoly_cons, toPoly_cons, ih]

/-- dropping trailing zero coefficients does not change the polynomial -/
theorem toPoly_trim (p : QPoly) : toPoly (trim p) = toPoly p := by
  unfold trim
  -- induction on the reversed list
  have gen : ∀ r : List ℚ, toPoly ((r.dropWhile (· = 0)).reverse) = toPoly r.reverse := by
    intro r
    induction r with
    | nil => rfl
    | cons a r ih =>
      by_cases h : a = 0
      · rw [List.dropWhile_cons_of_pos (by simpa using h), ih, List.reverse_cons, h, toPoly_append_zero]
      · rw [List.dropWhile_cons_of_neg (by simpa using h)]
  have := gen p.reverse
  rwa [List.reverse_reverse] at this

theorem trim_last_ne_zero (p : QPoly) (c : ℚ) (h : trim p = [c]) : c ≠ 0 := by
  unfold trim at h
  have h2 : p.reverse.dropWhile (· = 0) = [c] := by
    have := congrArg List.reverse h
    simpa using this
  intro hc
  have hd : ∀ l : List ℚ, ∀ x, (l.dropWhile (· = 0)).head? = some x → x ≠ 0 := by
    intro l
    induction l with
    | nil => intro x hx; simp at hx
    | cons a l ih =>
      intro x hx
      by_cases ha : a = 0
      · rw [List.dropWhile_cons_of_pos (by simpa using ha)] at hx; exact ih x hx
      · rw [List.dropWhile_cons_of_neg (by simpa using ha)] at hx
        simp only [List.head?_cons, Option.some.injEq] at hx
        rw [← hx]; exact ha
  exact hd p.reverse c (by rw [h2]; rfl) hc

/-- the Bezout certificate accepted by the checker proves coprimality over ℚ -/
theorem C03_bezout_sound (a b u v : QPoly) (h : bezoutConst a b u v = true) :
    IsCoprime (toPoly a) (toPoly b) := by
  unfold bezoutConst at h
  simp only [decide_eq_true_eq] at h
  obtain ⟨c, hc⟩ := List.length_eq_one_iff.1 h
  have hne := trim_last_ne_zero _ c hc
  have hval : toPoly u * toPoly a + toPoly v * toPoly b = C c := by
    have := congrArg toPoly hc
    rw [toPoly_trim, toPoly_add, toPoly_mul, toPoly_mul, toPoly_cons, toPoly_nil] at this
    simpa using this
  refine ⟨C c⁻¹ * toPoly u, C c⁻¹ * toPoly v, ?_⟩
  calc C c⁻¹ * toPoly u * toPoly a + C c⁻¹ * toPoly v * toPoly b
      = C c⁻¹ * (toPoly u * toPoly a + toPoly v * toPoly b) := by ring
    _ = C c⁻¹ * C c := by rw [hval]
    _ = 1 := by rw [← map_mul, inv_mul_cancel₀ hne, map_one]

/-- hence `coprimeCert` (extended Euclid + verification) is sound -/
theorem C03_coprimeCert_sound (a b : QPoly) (h : coprimeCert a b = true) : IsCoprime (toPoly a) (toPoly b) :=
  C03_bezout_sound a b _ _ h

end QPoly

namespace MPoly

/-- an accepted multivariate gcd over Z divides both operands -/
theorem C03_gcd_divides (p q g : MPoly) (h : checkGcdZ p q g = .yes) (hne : ¬ (p.isEmpty ∧ q.isEmpty)) :
    den ℤ g ∣ den ℤ p ∧ den ℤ g ∣ den ℤ q := by
  unfold checkGcdZ at h
  rw [if_neg (by simpa using hne)] at h
  split_ifs at h with hg
  cases ha : divExact? none false p g with
  | none => rw [ha] at h; simp at h
  | some a =>
    cases hb : divExact? none false q g with
    | none => rw [ha, hb] at h; simp at h
    | some b =>
      have e1 := C02_divExact_sound (R := ℤ) compatible_Z false p g a ha
      have e2 := C02_divExact_sound (R := ℤ) compatible_Z false q g b hb
      exact ⟨⟨den ℤ a, by rw [e1]; ring⟩, ⟨den ℤ b, by rw [e2]; ring⟩⟩

end MPoly

/-! non-vacuity: x and x+1 are accepted as coprime -/
example : QPoly.bezoutConst [0, 1] [1, 1] [-1] [1] = true := by
  norm_num [QPoly.bezoutConst, QPoly.mul, QPoly.add, QPoly.smul, QPoly.shift, QPoly.trim]

end LP
