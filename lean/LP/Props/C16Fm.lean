/-
  C16 — the Fourier–Motzkin step end to end on the level of values: whenever the table `fmCond` permits a resolvent
  condition, the combination `m1 * P1 + m2 * P2` with a positive multiplier of the first premise and a positive multiplier
  of the second (any multiplier when the second premise is an equation) satisfies that condition whenever the premises hold
  (`C16_fm_sound`); and the normalisation of `>` / `>=` constraints to `<` / `<=` by negation keeps their meaning
  (`C16_normCons_sound`).
-/
import LP.Props.C16

namespace LP
namespace Infer

/-- meaning of a sign condition of the library on a real value: 0 `<`, 1 `<=`, 2 `=`, 3 `!=`, 4 `>`, 5 `>=` -/
def holdsC (c : Nat) (v : ℝ) : Prop :=
  match c with
  | 0 => v < 0 | 1 => v ≤ 0 | 2 => v = 0 | 3 => v ≠ 0 | 4 => v > 0 | 5 => v ≥ 0 | _ => False

/-- normalisation by negation keeps the meaning of the constraint -/
theorem C16_normCons_sound (c : Nat) (v : ℝ) :
    holdsC c v ↔ holdsC (match c with | 4 => 0 | 5 => 1 | c => c) (match c with | 4 => -v | 5 => -v | _ => v) := by
  match c with
  | 0 | 1 | 2 | 3 => exact Iff.rfl
  | 4 => simp [holdsC]
  | 5 => simp [holdsC]
  | (n + 6) => exact Iff.rfl

/-- **the Fourier–Motzkin combination satisfies the condition the table gives** -/
theorem C16_fm_sound (c1 c2 rc : Nat) (h : fmCond c1 c2 = some rc) (m1 m2 P1 P2 : ℝ) (hm1 : 0 < m1)
    (hm2 : c2 = 2 ∨ 0 < m2) (h1 : holdsC c1 P1) (h2 : holdsC c2 P2) : holdsC rc (m1 * P1 + m2 * P2) := by
  unfold fmCond at h
  match c1, c2, h with
  | 0, 0, h =>
    simp only [Option.some.injEq] at h; subst h
    rcases hm2 with h' | h'; · omega
    show m1 * P1 + m2 * P2 < 0
    have a := mul_neg_of_pos_of_neg hm1 h1
    have b := mul_neg_of_pos_of_neg h' h2
    linarith
  | 0, 1, h =>
    simp only [Option.some.injEq] at h; subst h
    rcases hm2 with h' | h'; · omega
    show m1 * P1 + m2 * P2 < 0
    have a := mul_neg_of_pos_of_neg hm1 h1
    have b := mul_nonpos_of_nonneg_of_nonpos h'.le h2
    linarith
  | 0, 2, h =>
    simp only [Option.some.injEq] at h; subst h
    exact (C16_fm_eq m1 m2 P1 P2 hm1 h2).1 h1
  | 1, 0, h =>
    simp only [Option.some.injEq] at h; subst h
    rcases hm2 with h' | h'; · omega
    show m1 * P1 + m2 * P2 < 0
    have a := mul_nonpos_of_nonneg_of_nonpos hm1.le h1
    have b := mul_neg_of_pos_of_neg h' h2
    linarith
  | 1, 1, h =>
    simp only [Option.some.injEq] at h; subst h
    rcases hm2 with h' | h'; · omega
    show m1 * P1 + m2 * P2 ≤ 0
    have a := mul_nonpos_of_nonneg_of_nonpos hm1.le h1
    have b := mul_nonpos_of_nonneg_of_nonpos h'.le h2
    linarith
  | 1, 2, h =>
    simp only [Option.some.injEq] at h; subst h
    exact (C16_fm_eq m1 m2 P1 P2 hm1 h2).2 h1

end Infer
end LP
