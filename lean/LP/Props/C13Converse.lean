/-
  C13 — converse of the intersection status, first flag (`intersectLoop_not_all1`): when the sweep gives up "everything came
  from the first operand", some number of the first operand is not in the second.  The witness is built, in each of the
  classes that clear the flag, from `helly1d`: a number of the current interval of the first operand that lies above the
  interval of the second operand consumed last and below the lower bound of its current interval (`witness_low`), or above
  its current interval and below the next one (`witness_high`); the gaps of the normal form make room for it.
-/
import LP.Props.C13Witness

set_option linter.unusedSectionVars false

namespace LP
namespace FSet
open VI

variable {α : Type*} [Field α] [LinearOrder α] [IsStrictOrderedRing α]

/-- `x` lies above the interval consumed last (if any) -/
def AboveP (prev : Option VI) (x : α) : Prop := ∀ p ∈ prev, ¬ upperOK p.upper p.bOpen x

theorem aboveP_mono (prev : Option VI) (x y : α) (h : AboveP prev x) (hxy : x ≤ y) : AboveP prev y :=
  fun p hp => not_upperOK_mono _ _ x y (h p hp) hxy

/-- the facts about the interval consumed last: well-formed, with a gap to the head of what remains -/
def PrevOK (prev : Option VI) (I2 : VI) : Prop := ∀ p ∈ prev, p.WF ∧ Gap p I2

theorem prevOK_of_nfs (prev : Option VI) (I2 : VI) (r2 : List VI) (h : NFs (prev.toList ++ I2 :: r2)) :
    PrevOK prev I2 := by
  intro p hp
  cases prev with
  | none => simp at hp
  | some q =>
    simp only [Option.mem_def, Option.some.injEq] at hp
    simp only [Option.toList_some, List.cons_append, List.nil_append] at h
    rw [← hp]
    exact ⟨h.1 q (by simp), (List.isChain_cons_cons.1 h.2).1⟩

theorem nfs_of_prev (prev : Option VI) (s2 : List VI) (h : NFs (prev.toList ++ s2)) : NFs s2 := by
  cases prev with
  | none => simpa using h
  | some q =>
    simp only [Option.toList_some, List.cons_append, List.nil_append] at h
    exact nfs_tail q s2 h

/-- above the head of what remains ⇒ above the interval consumed before it -/
theorem aboveP_of_above (prev : Option VI) (I2 : VI) (w2 : I2.WF) (hp : PrevOK prev I2) (x : α)
    (h : ¬ upperOK I2.upper I2.bOpen x) : AboveP prev x := by
  intro p hpm
  obtain ⟨wp, hg⟩ := hp p hpm
  exact above_of_sep p I2 x (fun a b ha hb => gap_sep p I2 hg a b ha.2 hb.1) (wf_nonempty p wp) (wf_nonempty I2 w2) h

/-- a number of a later interval is not below the lower bound... of an earlier one: members of `I` fail the lower bound of
    every interval after `I` -/
theorem mem_not_lower_later (I K : VI) (y : α) (hs : Sep α I K) (wK : K.WF) (hy : I.Mem y) :
    ¬ lowerOK K.lower K.aOpen y := by
  intro hl
  obtain ⟨z, hz⟩ := wf_nonempty (α := α) K wK
  have hyz : y < z := hs y z hy hz
  have : K.Mem y := ⟨hl, upperOK_mono _ _ y z hz.2 hyz.le⟩
  exact absurd (hs y y hy this) (lt_irrefl _)

/-- **witness below `I2`**: `I1` starts strictly before `I2`, so some number of `I1` is in no interval of `I2 :: r2`, and it
    lies above the interval consumed last -/
theorem witness_low (prev : Option VI) (I1 I2 : VI) (r2 : List VI) (w1 : I1.WF) (n2 : NFs (I2 :: r2))
    (hp : PrevOK prev I2) (hK : ∃ x : α, I1.Mem x ∧ AboveP prev x) (hcl : cmpLower I1 I2 < 0) :
    ∃ x : α, I1.Mem x ∧ ¬ SetMem α (I2 :: r2) x ∧ AboveP prev x := by
  have w2 : I2.WF := n2.1 I2 (by simp)
  obtain ⟨xl, hxl1, hxl2⟩ := low_witness (α := α) I1 I2 w1 hcl
  obtain ⟨y, hy⟩ := wf_nonempty (α := α) I1 w1
  obtain ⟨x0, hx0, hx0p⟩ := hK
  have h22 : ∃ x : α, AboveP prev x ∧ ¬ lowerOK I2.lower I2.aOpen x := by
    cases prev with
    | none => exact ⟨xl, fun p hp => by simp at hp, hxl2⟩
    | some p =>
      obtain ⟨wp, hg⟩ := hp p rfl
      obtain ⟨g, hg1, hg2⟩ := gap_witness (α := α) p I2 wp w2 hg
      refine ⟨g, fun q hq => ?_, hg2⟩
      simp only [Option.mem_def, Option.some.injEq] at hq
      subst hq; exact hg1
  obtain ⟨x, a, b, c, d⟩ := helly1d (fun x : α => lowerOK I1.lower I1.aOpen x) (fun x => AboveP prev x)
    (fun x => upperOK I1.upper I1.bOpen x) (fun x => ¬ lowerOK I2.lower I2.aOpen x)
    (fun x y h hxy => lowerOK_mono _ _ x y h hxy) (fun x y h hxy => aboveP_mono prev x y h hxy)
    (fun x y h hxy => upperOK_mono _ _ x y h hxy) (fun x y h hxy => not_lowerOK_mono _ _ x y h hxy)
    ⟨y, hy.1, hy.2⟩ ⟨xl, hxl1, hxl2⟩ ⟨x0, hx0p, hx0.2⟩ h22
  refine ⟨x, ⟨a, c⟩, ?_, b⟩
  rintro ⟨K, hK, hKx⟩
  rcases List.mem_cons.1 hK with rfl | hK'
  · exact d hKx.1
  · have hs : Sep α I2 K := (List.pairwise_cons.1 (nfs_pairwise_sep (α := α) _ n2)).1 K hK'
    exact below_not_mem_later I2 K x hs (wf_nonempty I2 w2) d hKx

/-- **witness above `I2`**: `I1` ends strictly after `I2` and meets it, so some number of `I1` lies above `I2` and below
    everything after `I2` -/
theorem witness_high (prev : Option VI) (I1 I2 P : VI) (r2 : List VI) (w1 : I1.WF) (n2 : NFs (I2 :: r2))
    (hp : PrevOK prev I2) (hP : ∀ x : α, P.Mem x ↔ (I1.Mem x ∧ I2.Mem x)) (hPne : ∃ y : α, P.Mem y)
    (hcu : cmpUpper I1 I2 > 0) :
    ∃ x : α, I1.Mem x ∧ ¬ SetMem α (I2 :: r2) x ∧ AboveP prev x := by
  have w2 : I2.WF := n2.1 I2 (by simp)
  have hsep := List.pairwise_cons.1 (nfs_pairwise_sep (α := α) _ n2)
  obtain ⟨xu, hxu1, hxu2⟩ := up_witness (α := α) I1 I2 w1 hcu
  obtain ⟨y, hy⟩ := wf_nonempty (α := α) I1 w1
  obtain ⟨m, hm⟩ := hPne
  have hm12 := (hP m).1 hm
  -- below the head of what follows I2
  let D2 : α → Prop := fun x => ∀ J ∈ r2.head?, ¬ lowerOK J.lower J.aOpen x
  have hD2 : ∀ x y, D2 y → x ≤ y → D2 x := fun x y h hxy J hJ => not_lowerOK_mono _ _ x y (h J hJ) hxy
  have headmem : ∀ J ∈ r2.head?, J ∈ r2 := by
    intro J hJ
    cases r2 with
    | nil => simp at hJ
    | cons K r => simp only [List.head?_cons, Option.mem_def, Option.some.injEq] at hJ; subst hJ; simp
  have h12 : ∃ x : α, lowerOK I1.lower I1.aOpen x ∧ D2 x :=
    ⟨m, hm12.1.1, fun J hJ => mem_not_lower_later I2 J m (hsep.1 J (headmem J hJ)) (n2.1 J (List.mem_cons_of_mem _ (headmem J hJ))) hm12.2⟩
  have h22 : ∃ x : α, ¬ upperOK I2.upper I2.bOpen x ∧ D2 x := by
    cases hr : r2 with
    | nil => exact ⟨xu, hxu2, fun J hJ => by simp [hr] at hJ⟩
    | cons J r =>
      have hg : Gap I2 J := by
        have := n2.2; rw [hr] at this; exact (List.isChain_cons_cons.1 this).1
      obtain ⟨g, hg1, hg2⟩ := gap_witness (α := α) I2 J w2 (n2.1 J (by rw [hr]; simp)) hg
      refine ⟨g, hg1, fun K hK => ?_⟩
      simp only [hr, List.head?_cons, Option.mem_def, Option.some.injEq] at hK
      subst hK; exact hg2
  obtain ⟨x, a, b, c, d⟩ := helly1d (fun x : α => lowerOK I1.lower I1.aOpen x) (fun x => ¬ upperOK I2.upper I2.bOpen x)
    (fun x => upperOK I1.upper I1.bOpen x) D2
    (fun x y h hxy => lowerOK_mono _ _ x y h hxy) (fun x y h hxy => not_upperOK_mono _ _ x y h hxy)
    (fun x y h hxy => upperOK_mono _ _ x y h hxy) hD2
    ⟨y, hy.1, hy.2⟩ h12 ⟨xu, hxu2, hxu1⟩ h22
  refine ⟨x, ⟨a, c⟩, ?_, aboveP_of_above prev I2 w2 hp x b⟩
  rintro ⟨K, hK, hKx⟩
  rcases List.mem_cons.1 hK with rfl | hK'
  · exact b hKx.2
  · -- K is the head of r2 or lies after it
    cases hr : r2 with
    | nil => rw [hr] at hK'; simp at hK'
    | cons J r =>
      have hdJ : ¬ lowerOK J.lower J.aOpen x := d J (by rw [hr]; simp)
      rw [hr] at hK'
      rcases List.mem_cons.1 hK' with rfl | hK''
      · exact hdJ hKx.1
      · have n2' : NFs (J :: r) := by have := nfs_tail I2 r2 n2; rwa [hr] at this
        have hs : Sep α J K := (List.pairwise_cons.1 (nfs_pairwise_sep (α := α) _ n2')).1 K hK''
        exact below_not_mem_later J K x hs (wf_nonempty J (n2'.1 J (by simp))) hdJ hKx


/-- any number of a later interval of a normal form lies above what lies above an earlier one -/
theorem head_K_of_later (prev : Option VI) (I1 : VI) (r1 : List VI) (n1 : NFs (I1 :: r1))
    (hK : ∃ x : α, I1.Mem x ∧ AboveP prev x) : ∀ I ∈ r1.head?, ∃ x : α, I.Mem x ∧ AboveP prev x := by
  intro I hI
  have hIm : I ∈ r1 := by
    cases r1 with
    | nil => simp at hI
    | cons K r => simp only [List.head?_cons, Option.mem_def, Option.some.injEq] at hI; subst hI; simp
  obtain ⟨x0, hx0, hx0p⟩ := hK
  obtain ⟨x', hx'⟩ := wf_nonempty (α := α) I (n1.1 I (List.mem_cons_of_mem _ hIm))
  have hs : Sep α I1 I := (List.pairwise_cons.1 (nfs_pairwise_sep (α := α) _ n1)).1 I hIm
  exact ⟨x', hx', aboveP_mono prev x0 x' hx0p (hs x0 x' hx0 hx').le⟩

/-- when `I1` does not end after `I2`, every number of a later interval of the first operand lies above `I2` -/
theorem head_K_after_eq (I1 I2 : VI) (r1 : List VI) (n1 : NFs (I1 :: r1)) (hcu : cmpUpper I1 I2 ≥ 0) :
    ∀ I ∈ r1.head?, ∃ x : α, I.Mem x ∧ AboveP (some I2) x := by
  intro I hI
  have hIm : I ∈ r1 := by
    cases r1 with
    | nil => simp at hI
    | cons K r => simp only [List.head?_cons, Option.mem_def, Option.some.injEq] at hI; subst hI; simp
  obtain ⟨x', hx'⟩ := wf_nonempty (α := α) I (n1.1 I (List.mem_cons_of_mem _ hIm))
  obtain ⟨y, hy⟩ := wf_nonempty (α := α) I1 (n1.1 I1 (by simp))
  have hs : Sep α I1 I := (List.pairwise_cons.1 (nfs_pairwise_sep (α := α) _ n1)).1 I hIm
  refine ⟨x', hx', fun p hp => ?_⟩
  simp only [Option.mem_def, Option.some.injEq] at hp
  subst hp
  intro hu
  have hu1 := (cmpUpper_sem (α := α) I1 I2).2 hcu x' hu
  have hyx : y < x' := hs y x' hy hx'
  exact absurd (hs x' x' ⟨lowerOK_mono _ _ y x' hy.1 hyx.le, hu1⟩ hx') (lt_irrefl _)

/-- **converse of the status, first flag**: if the sweep gives up "everything came from the first operand", some number of
    the first operand is not in the second -/
theorem intersectLoop_not_all1 : ∀ (fuel : Nat) (s1 s2 acc : List VI) (a1 a2 : Bool) (prev : Option VI),
    NFs s1 → NFs (prev.toList ++ s2) → (∀ I ∈ s1.head?, ∃ x : α, I.Mem x ∧ AboveP prev x) →
    s1.length + s2.length ≤ fuel → (intersectLoop fuel s1 s2 acc a1 a2).2.1 = false →
    a1 = false ∨ ∃ x : α, SetMem α s1 x ∧ ¬ SetMem α s2 x ∧ AboveP prev x := by
  intro fuel
  induction fuel with
  | zero =>
    intro s1 s2 acc a1 a2 prev _ _ _ hlen h
    left; simpa [intersectLoop] using h
  | succ f ih =>
    intro s1 s2 acc a1 a2 prev n1 n2p hK hlen h
    cases s1 with
    | nil =>
      cases s2 with
      | nil => left; simpa [intersectLoop] using h
      | cons I2 r2 => left; simpa [intersectLoop] using h
    | cons I1 r1 =>
      obtain ⟨x0, hx0, hx0p⟩ := hK I1 (by simp)
      cases s2 with
      | nil =>
        right
        exact ⟨x0, ⟨I1, by simp, hx0⟩, by simp [SetMem], hx0p⟩
      | cons I2 r2 =>
        simp only [List.length_cons] at hlen
        have w1 := n1.1 I1 (by simp)
        have n2 : NFs (I2 :: r2) := nfs_of_prev prev _ n2p
        have w2 := n2.1 I2 (by simp)
        have hp : PrevOK prev I2 := prevOK_of_nfs prev I2 r2 n2p
        have n1' := nfs_tail I1 r1 n1
        have n2' := nfs_tail I2 r2 n2
        have hs := cwi_spec I1 I2
        obtain ⟨⟨hP, hnone⟩, _⟩ := C13_cmp (α := α) I1 I2
        -- the two witnesses
        have wlow : cmpLower I1 I2 < 0 → ∃ x : α, SetMem α (I1 :: r1) x ∧ ¬ SetMem α (I2 :: r2) x ∧ AboveP prev x := by
          intro hcl
          obtain ⟨x, hx1, hx2, hx3⟩ := witness_low prev I1 I2 r2 w1 n2 hp ⟨x0, hx0, hx0p⟩ hcl
          exact ⟨x, ⟨I1, by simp, hx1⟩, hx2, hx3⟩
        have whigh : cmpUpper I1 I2 > 0 → (cmpWithIntersect I1 I2).2 ≠ none →
            ∃ x : α, SetMem α (I1 :: r1) x ∧ ¬ SetMem α (I2 :: r2) x ∧ AboveP prev x := by
          intro hcu hsome
          obtain ⟨P, hPe⟩ := Option.ne_none_iff_exists'.1 hsome
          rw [hPe] at hP
          obtain ⟨x, hx1, hx2, hx3⟩ := witness_high prev I1 I2 P r2 w1 n2 hp hP
            (cwi_nonempty I1 I2 P hPe (wf_nonempty I1 w1) (wf_nonempty I2 w2)) hcu
          exact ⟨x, ⟨I1, by simp, hx1⟩, hx2, hx3⟩
        -- after I2 is consumed: lift a witness relative to `some I2`
        have lift2 : ∀ (s1' : List VI), (∀ I ∈ s1', I ∈ I1 :: r1) →
            (∃ x : α, SetMem α s1' x ∧ ¬ SetMem α r2 x ∧ AboveP (some I2) x) →
            ∃ x : α, SetMem α (I1 :: r1) x ∧ ¬ SetMem α (I2 :: r2) x ∧ AboveP prev x := by
          rintro s1' hsub ⟨x, ⟨I, hI, hIx⟩, hx2, hx3⟩
          have hab : ¬ upperOK I2.upper I2.bOpen x := hx3 I2 rfl
          refine ⟨x, ⟨I, hsub I hI, hIx⟩, ?_, aboveP_of_above prev I2 w2 hp x hab⟩
          rintro ⟨K, hK, hKx⟩
          rcases List.mem_cons.1 hK with rfl | hK'
          · exact hab hKx.2
          · exact hx2 ⟨K, hK', hKx⟩
        rw [intersectLoop] at h
        split at h <;> rename_i hc
        all_goals (rw [hc] at hs hnone; simp only [ClassSpec] at hs)
        · -- ltNo
          right; exact wlow hs.2.1
        · -- ltWith
          right; exact wlow hs.2.1
        · -- ltWithI1: I1 is inside I2, the first operand advances
          rcases ih r1 (I2 :: r2) _ a1 false prev n1' n2p (head_K_of_later prev I1 r1 n1 ⟨x0, hx0, hx0p⟩)
            (by simp only [List.length_cons]; omega) h with h1 | ⟨x, ⟨I, hI, hIx⟩, hx2, hx3⟩
          · exact Or.inl h1
          · exact Or.inr ⟨x, ⟨I, List.mem_cons_of_mem _ hI, hIx⟩, hx2, hx3⟩
        · -- leqWithI2
          right; exact wlow hs.2
        · -- eq: both advance
          rcases ih r1 r2 _ a1 a2 (some I2) n1' (by simpa using n2) (head_K_after_eq I1 I2 r1 n1 (by omega))
            (by omega) h with h1 | hw
          · exact Or.inl h1
          · exact Or.inr (lift2 r1 (fun I hI => List.mem_cons_of_mem _ hI) hw)
        · -- geqWithI1: both advance
          rcases ih r1 r2 _ a1 false (some I2) n1' (by simpa using n2) (head_K_after_eq I1 I2 r1 n1 (by omega))
            (by omega) h with h1 | hw
          · exact Or.inl h1
          · exact Or.inr (lift2 r1 (fun I hI => List.mem_cons_of_mem _ hI) hw)
        · -- gtWithI2
          right; exact whigh hs.1 (fun hn => by simpa using hnone.2 hn)
        · -- gtWith
          right; exact whigh hs.1 (fun hn => by simpa using hnone.2 hn)
        · -- gtNo: I2 lies below I1, the second operand advances
          have hK' : ∀ I ∈ (I1 :: r1).head?, ∃ x : α, I.Mem x ∧ AboveP (some I2) x := by
            intro I hI
            simp only [List.head?_cons, Option.mem_def, Option.some.injEq] at hI
            subst hI
            obtain ⟨x, hx1, hx2⟩ := above_in (α := α) I1 I2 w1 hs.1
            refine ⟨x, hx1, fun p hp' => ?_⟩
            simp only [Option.mem_def, Option.some.injEq] at hp'
            subst hp'; exact hx2
          rcases ih (I1 :: r1) r2 _ a1 false (some I2) n1 (by simpa using n2) hK'
            (by simp only [List.length_cons]; omega) h with h1 | hw
          · exact Or.inl h1
          · exact Or.inr (lift2 (I1 :: r1) (fun I hI => hI) hw)

end FSet
end LP
