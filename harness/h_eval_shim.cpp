/* C++ side of h_eval: calls the polyxx helpers poly::infeasible_regions and poly::isolate_real_roots on the C objects of the
 * harness.  poly::Assignment is a standard-layout class whose only member is the lp_assignment_t, so a pointer to the C
 * assignment is a pointer to the wrapper (pointer-interconvertible with its first member). */
#include <polyxx.h>
#include <vector>
#include <cstdlib>

extern "C" size_t lpv_cxx_infeasible(const lp_polynomial_t* p, const lp_assignment_t* m, int sc, lp_interval_t** out) {
  poly::Polynomial P(p);
  const poly::Assignment& A = *reinterpret_cast<const poly::Assignment*>(m);
  std::vector<poly::Interval> r = poly::infeasible_regions(P, A, poly::to_sign_condition(static_cast<lp_sign_condition_t>(sc)));
  *out = static_cast<lp_interval_t*>(malloc((r.size() + 1) * sizeof(lp_interval_t)));
  for (size_t i = 0; i < r.size(); ++i) lp_interval_construct_copy(&(*out)[i], r[i].get_internal());
  return r.size();
}

extern "C" size_t lpv_cxx_roots(const lp_polynomial_t* p, const lp_assignment_t* m, lp_value_t** out) {
  poly::Polynomial P(p);
  const poly::Assignment& A = *reinterpret_cast<const poly::Assignment*>(m);
  std::vector<poly::Value> r = poly::isolate_real_roots(P, A);
  *out = static_cast<lp_value_t*>(malloc((r.size() + 1) * sizeof(lp_value_t)));
  for (size_t i = 0; i < r.size(); ++i) lp_value_construct_copy(&(*out)[i], r[i].get_internal());
  return r.size();
}
