import LP.Model.FSet
import LP.Model.VInterval
import LP.Driver.Scalar
namespace LP.Driver
open LP LP.VI

def pEP? (s : String) : Option EP :=
  if s = "-inf" then some .ninf else if s = "+inf" then some .pinf else (pRat? s).map EP.fin

def showEP : EP → String
  | .ninf => "-inf" | .pinf => "+inf" | .fin q => showRat q

def pVI? (s : String) : Option VI :=
  if s.length < 3 then none else
  let first := s.front
  let last := s.back
  let inner := ((s.drop 1).toString.dropEnd 1).toString
  match inner.splitOn "," with
  | [p] => if first = '[' ∧ last = ']' then (pEP? p).map VI.point else none
  | [a, b] => do
      let a ← pEP? a
      let b ← pEP? b
      let ao ← if first = '(' then some true else if first = '[' then some false else none
      let bo ← if last = ')' then some true else if last = ']' then some false else none
      some (VI.mk' a ao b bo)
  | _ => none

def showVI (I : VI) : String :=
  if I.isPoint then s!"[{showEP I.a}]"
  else s!"{if I.aOpen then "(" else "["}{showEP I.a},{showEP I.b}{if I.bOpen then ")" else "]"}"

/-- `{I1;I2;…}` or `{}` -/
def pFSet? (s : String) : Option (List VI) :=
  if s = "{}" then some [] else
  if s.length < 2 then none else
  let inner := ((s.drop 1).toString.dropEnd 1).toString
  (inner.splitOn ";").mapM pVI?

def showFSet (l : List VI) : String := "{" ++ ";".intercalate (l.map showVI) ++ "}"

def viEq (x y : VI) : Bool :=
  if x.isPoint ∧ y.isPoint then x.a = y.a
  else if x.isPoint ∨ y.isPoint then false
  else x.a = y.a ∧ x.b = y.b ∧ x.aOpen = y.aOpen ∧ x.bOpen = y.bOpen

def fsEq (a b : List VI) : Bool := a.length = b.length && (a.zip b).all (fun p => viEq p.1 p.2)

/-- well-formed interval: proper intervals have a < b; infinite ends are open -/
def viWf (I : VI) : Bool :=
  if I.isPoint then !I.a.isInf
  else EP.cmp I.a I.b < 0 && (I.a != .pinf) && (I.b != .ninf) && (I.a != .ninf || I.aOpen) && (I.b != .pinf || I.bOpen)

/-- normal form: increasing, disjoint, no two neighbours mergeable -/
def nfOk : List VI → Bool
  | [] => true
  | [I] => viWf I
  | I :: J :: l =>
    let c := EP.cmp I.upper J.lower
    viWf I && (c < 0 || (c = 0 && I.bOpen && J.aOpen)) && nfOk (J :: l)

/-- sample points for the property-level oracle: all end points, mid points, outer points -/
def probePts (sets : List (List VI)) : List EP :=
  let ends : List Rat := (sets.flatten.flatMap (fun I => [I.a, I.b])).filterMap (fun e => match e with | .fin q => some q | _ => none)
  let sorted := ends.mergeSort (· ≤ ·)
  let mids := (sorted.zip sorted.tail).map (fun p => (p.1 + p.2) / 2)
  let outer : List Rat := match sorted.head?, sorted.getLast? with
    | some lo, some hi => [lo - 1, hi + 1]
    | _, _ => [0]
  (ends ++ mids ++ outer).map EP.fin

def memSet (s : List VI) (v : EP) : Bool := s.any (fun I => I.contains v)

def stName : FSStatus → String
  | .s1 => "S1" | .s2 => "S2" | .empty => "EMPTY" | .new => "NEW"

def icmpName : ICmp → String
  | .ltNo => "ltNo" | .ltWith => "ltWith" | .ltWithI1 => "ltWithI1" | .leqWithI2 => "leqWithI2" | .eq => "eq"
  | .geqWithI1 => "geqWithI1" | .gtWithI2 => "gtWithI2" | .gtWith => "gtWith" | .gtNo => "gtNo"

def checkFSet (op : String) (args res : List String) : Verdict :=
  let one (f : List VI → Verdict) : Verdict :=
    match args with
    | a :: _ => (match pFSet? a with
        | some a => if nfOk a then f a else .viol "fset-nf" s!"operand not in normal form {showFSet a}"
        | none => .skip "bad set")
    | _ => .skip "arity"
  match op, args, res with
  | "intersect", [a, b], [r, st] =>
    (match pFSet? a, pFSet? b, pFSet? r with
     | some a, some b, some r =>
       let want := FSet.intersect a b
       let tag := s!"intersect/{stName want.2}/{if a.length + b.length > 4 then "multi" else "few"}"
       if !nfOk r then .viol "fset-nf" s!"result not in normal form {showFSet r}" else
       if fsEq r want.1 ∧ st = stName want.2 then .ok tag else
         match (probePts [a, b, r]).find? (fun v => memSet r v != (memSet a v && memSet b v)) with
         | some v => .viol "fset-intersect" s!"point {showEP v}: in result {memSet r v}, expected {memSet a v && memSet b v}; got {showFSet r}"
         | none =>
           let stOk : Bool :=
             if st = "EMPTY" then r.isEmpty
             else if st = "S1" then fsEq r a
             else if st = "S2" then fsEq r b && !fsEq r a
             else !r.isEmpty && !fsEq r a && !fsEq r b
           if !stOk then .viol "fset-status" s!"status {st} wrong: result {showFSet r} (model {stName want.2})"
           else .disagree s!"got {showFSet r} {st} model {showFSet want.1} {stName want.2}"
     | _, _, _ => .skip "bad")
  | "add", [a, b], [r] =>
    (match pFSet? a, pFSet? b, pFSet? r with
     | some a, some b, some r =>
       let want := FSet.add a b
       if !nfOk r then .viol "fset-nf" s!"union not in normal form {showFSet r}" else
       if fsEq r want then .ok s!"add/{if r.length < a.length + b.length then "merged" else "plain"}" else
         match (probePts [a, b, r]).find? (fun v => memSet r v != (memSet a v || memSet b v)) with
         | some v => .viol "fset-union" s!"point {showEP v}: in result {memSet r v}, expected {memSet a v || memSet b v}; got {showFSet r}"
         | none => .disagree s!"got {showFSet r} model {showFSet want}"
     | _, _, _ => .skip "bad")
  | "icmp", [i1, i2], [c, p] =>
    (match pVI? i1, pVI? i2 with
     | some i1, some i2 =>
       let want := cmpWithIntersect i1 i2
       let pOk := match want.2, pVI? p with
         | none, _ => p = "none"
         | some w, some g => viEq w g
         | some _, none => false
       if (c == icmpName want.1) && pOk then .ok s!"icmp/{c}"
       else .viol "fset-icmp" s!"got {c} {p} want {icmpName want.1} {match want.2 with | some w => showVI w | none => "none"}"
     | _, _ => .skip "bad")
  | "isempty", _, [r] => one fun a => expectEq "isempty" "fset-isempty" r (if a.isEmpty then "1" else "0")
  | "isfull", _, [r] => one fun a => expectEq s!"isfull/{FSet.isFull a}" "fset-isfull" r (if FSet.isFull a then "1" else "0")
  | "ispoint", _, [r] => one fun a => expectEq s!"ispoint/{FSet.isPoint a}" "fset-ispoint" r (if FSet.isPoint a then "1" else "0")
  | "ispointint", _, [r] => one fun a => expectEq s!"ispointint/{FSet.isPointInt a}" "fset-ispointint" r (if FSet.isPointInt a then "1" else "0")
  | "containsint", _, [r] => one fun a => expectEq s!"containsint/{FSet.containsInt a}" "fset-containsint" r (if FSet.containsInt a then "1" else "0")
  | "countint", _, [r] => one fun a =>
      -- LONG_MAX is both the saturation value and a possible exact count
      expectEq "countint" "fset-countint" r (match FSet.countInt a with | some c => if c ≥ 2 ^ 63 - 1 then "max" else toString c | none => "max")
  | "contains", [a, v], [r] =>
    (match pFSet? a, pEP? v with
     | some a, some v =>
       let want := memSet a v
       if r = (if want then "1" else "0") then
         (if FSet.contains a v = want then .ok s!"contains/{want}" else .disagree "binary-search model differs from linear membership")
       else .viol "fset-contains" s!"got {r} want {want}"
     | _, _ => .skip "bad")
  | "tointerval", _, [r] => one fun a =>
      (match FSet.toInterval a, pVI? r with
       | some w, some g => if viEq w g then .ok "tointerval" else .viol "fset-tointerval" s!"got {showVI g} want {showVI w}"
       | _, _ => .skip "bad")
  | "pick", _, [inSet, isInt, hasAlg, v] => one fun a =>
      if inSet ≠ "1" then .viol "fset-pick" "picked value is not a member (library's own membership test)" else
      let wantInt := FSet.containsInt a
      if wantInt ∧ isInt ≠ "1" then .viol "fset-pick" s!"set contains an integer but the picked value {v} is not one" else
      if hasAlg = "1" then .ok "pick/alg-pool" else
      (match pRat? v with
       | some q => if memSet a (.fin q) then .ok "pick/rational" else .viol "fset-pick" s!"picked {v} not in {showFSet a}"
       | none => .ok "pick/irrational")
  | _, _, _ => .skip s!"unknown fset op {op}"

end LP.Driver

namespace LP.Driver
open LP LP.VI

/-- sample points of a value interval (finite rationals) -/
def viSamples (I : VI) : List Rat :=
  let inside (x : Rat) : Bool := I.contains (.fin x)
  let base : List Rat := match I.a, I.b with
    | .fin a, .fin b => [a, b, (a + b) / 2, a + (b - a) / 1024, b - (b - a) / 1024, a + (b - a) / 3]
    | .ninf, .fin b => [b, b - 1, b - 1000, b - 1 / 1024, b - 12345678]
    | .fin a, .pinf => [a, a + 1, a + 1000, a + 1 / 1024, a + 12345678]
    | _, _ => [0, 1, -1, 1000, -1000, 1 / 3]
  ((0 : Rat) :: base).filter inside

def viTag (I : VI) : String :=
  if I.isPoint then "pt" else (if I.a = .ninf then "-oo" else if I.aOpen then "o" else "c") ++ (if I.b = .pinf then "+oo" else if I.bOpen then "o" else "c")

def checkVI (op : String) (args res : List String) : Verdict :=
  match args with
  | dest :: rest =>
    let judge (tag cls : String) (got want : VI) (lost : Option String) : Verdict :=
      if !viWf got then .viol cls s!"ill-formed result {showVI got}"
      else if viEq got want then .ok tag
      else match lost with
        | some w => .viol cls s!"lost point {w}: got {showVI got} model {showVI want}"
        | none => .disagree s!"got {showVI got} model {showVI want}"
    match op, rest, res with
    | "add", [x, y], [r] =>
      (match pVI? x, pVI? y, pVI? r with
       | some x, some y, some r =>
         (match VI.add x y with
          | some want =>
            let lost := ((viSamples x).flatMap (fun u => (viSamples y).filterMap (fun v =>
              if r.contains (.fin (u + v)) then none else some s!"{showRat u}+{showRat v}"))).head?
            judge s!"add/{dest}/{viTag x}/{viTag y}" "vi-add" r want lost
          | none => .skip "undefined sum")
       | _, _, _ => .skip "bad")
    | "mul", [x, y], [r] =>
      (match pVI? x, pVI? y, pVI? r with
       | some x, some y, some r =>
         let lost := ((viSamples x).flatMap (fun u => (viSamples y).filterMap (fun v =>
           if r.contains (.fin (u * v)) then none else some s!"{showRat u}*{showRat v}"))).head?
         judge s!"mul/{dest}/{viTag x}/{viTag y}" "vi-mul" r (VI.mul x y) lost
       | _, _, _ => .skip "bad")
    | "pow", [x, n], [r] =>
      (match pVI? x, pNat? n, pVI? r with
       | some x, some n, some r =>
         let lost := ((viSamples x).filterMap (fun u => if r.contains (.fin (u ^ n)) then none else some s!"{showRat u}^{n}")).head?
         judge s!"pow/{dest}/{viTag x}/{if n = 0 then "0" else if n % 2 = 1 then "odd" else "even"}/s{VI.sgn x}" "vi-pow" r (VI.pow x n) lost
       | _, _, _ => .skip "bad")
    | "sgn", [x], [r] =>
      (match pVI? x with
       | some x => expectEq s!"sgn/{viTag x}" "vi-sgn" r (toString (VI.sgn x))
       | none => .skip "bad")
    | _, _, _ => .skip s!"unknown vi op {op}"
  | _ => .skip "short vi line"

/-- life cycle of `lp_interval_t` objects used as outputs after arbitrary histories: assign / construct_copy / swap must
    reproduce the source, set_a / set_b replace one end (a point becomes a proper interval), collapse_to gives the point -/
def checkVIL (op : String) (args res : List String) : Verdict :=
  let judge (tag : String) (got want : VI) : Verdict :=
    if !viWf got then .viol "vil-wf" s!"ill-formed interval {showVI got}"
    else if viEq got want then .ok tag
    else .viol s!"vil-{op}" s!"got {showVI got}, expected {showVI want}"
  let kind (I : VI) : String := if I.isPoint then "pt" else "iv"
  match op, args, res with
  | "copy", [src], [r] =>
    (match pVI? src, pVI? r with
     | some x, some r => judge s!"vil/copy/{kind x}" r x
     | _, _ => .skip "bad")
  | "collapse", [i, v], [r] =>
    (match pVI? i, pEP? v, pVI? r with
     | some x, some v, some r => judge s!"vil/collapse/{kind x}" r (VI.point v)
     | _, _, _ => .skip "bad")
  | "seta", [i, v, o], [r] =>
    (match pVI? i, pEP? v, pVI? r with
     | some x, some v, some r =>
       let want := if x.isPoint then VI.mk' v (o = "1") x.a false else VI.mk' v (o = "1") x.b x.bOpen
       judge s!"vil/seta/{kind x}" r want
     | _, _, _ => .skip "bad")
  | "setb", [i, v, o], [r] =>
    (match pVI? i, pEP? v, pVI? r with
     | some x, some v, some r =>
       let want := if x.isPoint then VI.mk' x.a false v (o = "1") else VI.mk' x.a x.aOpen v (o = "1")
       judge s!"vil/setb/{kind x}" r want
     | _, _, _ => .skip "bad")
  | _, _, _ => .skip s!"unknown vil op {op}"

end LP.Driver
