/-
  Core-only helpers shared by every model and by the line-protocol driver:
  GMP-semantics integer helpers and token parsers/printers.
-/
namespace LP

/-! ### GMP-flavoured integer helpers -/

/-- number of trailing zero bits (mpz_scan1(a,0)) of a non-zero integer, by fuel. -/
def trailingZerosAux : Nat → Nat → Nat → Nat
  | 0, _, acc => acc
  | fuel+1, n, acc => if n % 2 = 0 ∧ n ≠ 0 then trailingZerosAux fuel (n / 2) (acc+1) else acc

def trailingZeros (a : Int) : Nat := trailingZerosAux (a.natAbs + 1) a.natAbs 0

/-- mpz_sizeinbase(a,2): number of bits of |a| (1 for 0). -/
def bitSize (a : Int) : Nat := if a = 0 then 1 else Nat.log2 a.natAbs + 1

/-- extended Euclid on naturals: `egcd a b = (g, s, t)` with `g = s*a + t*b`. -/
def egcd (a b : Nat) : Nat × Int × Int :=
  if h : b = 0 then (a, 1, 0)
  else
    let r := egcd b (a % b)
    -- g = s*b + t*(a % b) = t*a + (s - (a/b)*t) * b
    (r.1, r.2.2, r.2.1 - (a / b : Nat) * r.2.2)
termination_by b
decreasing_by exact Nat.mod_lt _ (Nat.pos_of_ne_zero h)

/-- floor n-th root of a non-negative integer by bisection (mpz_root). -/
def irootAux (n : Nat) (a : Nat) : Nat → Nat → Nat → Nat
  | 0, lo, _ => lo
  | fuel+1, lo, hi =>
    if hi ≤ lo + 1 then lo else
      let m := (lo + hi) / 2
      if m ^ n ≤ a then irootAux n a fuel m hi else irootAux n a fuel lo m

/-- largest `r` with `r^n ≤ a` (n ≥ 1). -/
def iroot (n : Nat) (a : Nat) : Nat :=
  if n = 0 then 0 else irootAux n a (a + 2) 0 (a + 1)

def cdiv (a b : Int) : Int := -((-a) / b)

def sgnI (a : Int) : Int := if a > 0 then 1 else if a < 0 then -1 else 0
def sgnQ (a : Rat) : Int := if a > 0 then 1 else if a < 0 then -1 else 0
def cmpI (a b : Int) : Int := if a < b then -1 else if a > b then 1 else 0
def cmpQ (a b : Rat) : Int := if a < b then -1 else if a > b then 1 else 0

/-! ### Token parsers -/

def pInt? (s : String) : Option Int := s.toInt?
def pNat? (s : String) : Option Nat := s.toNat?

/-- `p/q` or `p`. -/
def pRat? (s : String) : Option Rat :=
  match s.splitOn "/" with
  | [p] => (pInt? p).map (fun (x : Int) => (x : Rat))
  | [p, q] => do
      let a ← pInt? p
      let b ← pNat? q
      if b = 0 then none else some (mkRat a b)
  | _ => none

def showRat (q : Rat) : String :=
  if q.den = 1 then toString q.num else s!"{q.num}/{q.den}"

/-- list `a,b,c` (no brackets); empty string = empty list; "-" = empty list. -/
def pList? {α} (f : String → Option α) (s : String) : Option (List α) :=
  if s = "" ∨ s = "_" then some [] else (s.splitOn ",").mapM f

def showList {α} (f : α → String) (l : List α) : String :=
  if l.isEmpty then "_" else ",".intercalate (l.map f)

/-- Result of checking one protocol line. -/
inductive Verdict
  | ok (branch : String)
  /-- the implementation's answer breaks the property on this input -/
  | viol (cls : String) (msg : String)
  /-- model and implementation differ but the property-level oracle accepts the implementation's answer -/
  | disagree (msg : String)
  /-- line not understood / outside modelled domain -/
  | skip (msg : String)

def Verdict.render : Verdict → String
  | .ok b => s!"ok {b}"
  | .viol c m => s!"viol {c} {m}"
  | .disagree m => s!"disagree {m}"
  | .skip m => s!"skip {m}"

/-- Compare implementation output with model output when the spec determines the result uniquely. -/
def expectEq (branch : String) (cls : String) (got want : String) : Verdict :=
  if got = want then .ok branch else .viol cls s!"got={got} want={want}"

end LP
