/* Shared support for the polynomial harnesses: contexts over several rings, random polynomial
 * generators, canonical printing through the public traversal API. */
#ifndef LPV_HPOLY_H
#define LPV_HPOLY_H
#include "common.h"
#include <poly.h>
#include <integer.h>
#include <rational.h>
#include <dyadic_rational.h>
#include <variable_db.h>
#include <variable_order.h>
#include <variable_list.h>
#include <polynomial_context.h>
#include <monomial.h>
#include <polynomial.h>
#include <upolynomial.h>
#include <assignment.h>

#define NVARS 4
static lp_variable_db_t* hp_db; static lp_variable_order_t* hp_order;
static lp_variable_t hp_x[NVARS];

/* rings: index 0 is Z */
static const char* hp_moduli[] = { 0, "5", "13", "2", "6", "8", "101", "18446744073709551629" };
#define NRINGS (sizeof hp_moduli / sizeof hp_moduli[0])
static lp_int_ring_t* hp_ring[NRINGS]; static int hp_prime[NRINGS];
static lp_polynomial_context_t* hp_ctx[NRINGS];

static void hp_ring_token(int ri) {
  if (ri == 0) { sb_str("Z"); return; }
  sb_str(hp_prime[ri] ? "Zp" : "Zc"); sb_str(hp_moduli[ri]);
}

static void hp_init(void) {
  hp_db = lp_variable_db_new(); hp_order = lp_variable_order_new();
  for (int i = 0; i < NVARS; ++i) { char nm[8]; snprintf(nm, sizeof nm, "x%d", i); hp_x[i] = lp_variable_db_new_variable(hp_db, nm); }
  for (int i = 0; i < NVARS; ++i) lp_variable_order_push(hp_order, hp_x[i]);
  for (unsigned r = 0; r < NRINGS; ++r) {
    if (r == 0) { hp_ring[r] = lp_Z; hp_prime[r] = 0; }
    else { mpz_t M; mpz_init_set_str(M, hp_moduli[r], 10); hp_prime[r] = mpz_probab_prime_p(M, 25) ? 1 : 0; hp_ring[r] = lp_int_ring_create(M, hp_prime[r]); mpz_clear(M); }
    hp_ctx[r] = lp_polynomial_context_new(hp_ring[r], hp_db, hp_order);
  }
}
static void hp_done(void) {
  for (unsigned r = 0; r < NRINGS; ++r) { lp_polynomial_context_detach(hp_ctx[r]); if (r) lp_int_ring_detach(hp_ring[r]); }
  lp_variable_order_detach(hp_order); lp_variable_db_detach(hp_db);
}

/* ---- printing: c*xI^e*xJ^f+... through lp_polynomial_traverse ---- */
static int hp_first_term;
static void hp_term_cb(const lp_polynomial_context_t* ctx, lp_monomial_t* m, void* data) {
  (void)ctx; (void)data;
  if (!hp_first_term) sb_str("+");
  hp_first_term = 0;
  sb_mpz(&m->a);
  for (size_t i = 0; i < m->n; ++i) { sb_str("*x"); sb_ulong(m->p[i].x); sb_str("^"); sb_ulong(m->p[i].d); }
}
static void sb_poly(const lp_polynomial_t* p) {
  hp_first_term = 1;
  lp_polynomial_traverse(p, hp_term_cb, 0);
  if (hp_first_term) sb_str("0");
}
/* univariate: u:c0,c1,...,cn (dense, low degree first) */
static void sb_upoly(const lp_upolynomial_t* p) {
  size_t d = lp_upolynomial_degree(p);
  lp_integer_t* c = (lp_integer_t*)malloc((d + 1) * sizeof(lp_integer_t));
  for (size_t i = 0; i <= d; ++i) lp_integer_construct(&c[i]);
  lp_upolynomial_unpack(p, c);
  sb_str("u:");
  for (size_t i = 0; i <= d; ++i) { if (i) sb_str(","); sb_mpz(&c[i]); lp_integer_destruct(&c[i]); }
  free(c);
}

/* ---- generators ---- */
static void hp_gen_coeff(lp_integer_t* z, int ri) {
  unsigned k = rnd(100);
  if (k < 70) lp_integer_assign_int(lp_Z, z, rnd_in(-5, 5));
  else if (k < 90) lp_integer_assign_int(lp_Z, z, rnd_in(-100, 100));
  else gen_mpz(z);
  if (mpz_sgn(z) == 0 && chance(80)) lp_integer_assign_int(lp_Z, z, 1 + rnd(3));
  (void)ri;
}

/* c * prod x_i^e_i as a polynomial of ctx ri */
static lp_polynomial_t* hp_monomial(int ri, const lp_integer_t* c, const unsigned* e) {
  lp_polynomial_t* p = lp_polynomial_alloc();
  lp_polynomial_construct_simple(p, hp_ctx[ri], c, hp_x[0], 0);
  for (int i = 0; i < NVARS; ++i) if (e[i]) {
    lp_integer_t one; lp_integer_construct_from_int(lp_Z, &one, 1);
    lp_polynomial_t* t = lp_polynomial_alloc(); lp_polynomial_construct_simple(t, hp_ctx[ri], &one, hp_x[i], e[i]);
    lp_polynomial_mul(p, p, t);
    lp_polynomial_delete(t); lp_integer_destruct(&one);
  }
  return p;
}

/* random polynomial: nvars = how many of the variables may occur, maxdeg per variable, maxterms */
static lp_polynomial_t* hp_random_poly(int ri, int nvars, unsigned maxdeg, int maxterms) {
  lp_polynomial_t* p = lp_polynomial_new(hp_ctx[ri]);
  int nt = (int)rnd(maxterms + 1);
  lp_integer_t c; lp_integer_construct(&c);
  for (int t = 0; t < nt; ++t) {
    unsigned e[NVARS] = { 0 };
    for (int i = 0; i < nvars && i < NVARS; ++i) if (chance(55)) e[i] = rnd(maxdeg + 1);
    hp_gen_coeff(&c, ri);
    lp_polynomial_t* m = hp_monomial(ri, &c, e);
    lp_polynomial_add(p, p, m);
    lp_polynomial_delete(m);
  }
  lp_integer_destruct(&c);
  return p;
}

/* a destination object in one of the prior states: 0 fresh (zero), 1 constant, 2 polynomial in other variables / shape */
/* ---- stale external operands: an operand marked external, built under one variable order and first seen by the operation
   under another one (the library must re-order it by itself).  Tokens are taken before the change (printing re-orders). ---- */
static int hp_stale_on = 0;
static char* hp_tok(const lp_polynomial_t* p) { sb_reset(); sb_poly(p); return strdup(sb_buf); }
static void hp_stale_begin(void) { lp_variable_order_reverse(hp_order); hp_stale_on = 1; }
static void hp_stale_end(void) { if (hp_stale_on) { lp_variable_order_reverse(hp_order); hp_stale_on = 0; } }
/* main variable under the order now in force, asked of a private non-external copy made before the change */
static long hp_topvar_twin(lp_polynomial_t* twin) {
  lp_polynomial_ensure_order(twin);
  return lp_polynomial_is_constant(twin) ? -1 : (long)lp_polynomial_top_variable(twin);
}

static lp_polynomial_t* hp_dest(int ri, int kind) {
  if (kind == 0) return lp_polynomial_new(hp_ctx[ri]);
  if (kind == 1) { lp_polynomial_t* p = lp_polynomial_alloc(); lp_integer_t c; lp_integer_construct_from_int(lp_Z, &c, 1 + rnd(7));
    lp_polynomial_construct_simple(p, hp_ctx[ri], &c, hp_x[0], 0); lp_integer_destruct(&c); return p; }
  lp_polynomial_t* p = hp_random_poly(ri, NVARS, 2, 4);
  if (lp_polynomial_is_constant(p)) { lp_polynomial_delete(p); unsigned e[NVARS] = { 0, 0, 2, 1 }; lp_integer_t c; lp_integer_construct_from_int(lp_Z, &c, 3);
    p = hp_monomial(ri, &c, e); lp_integer_destruct(&c); }
  return p;
}

static lp_upolynomial_t* hp_random_upoly(int ri, unsigned maxdeg) {
  unsigned d = rnd(maxdeg + 1);
  lp_integer_t* c = (lp_integer_t*)malloc((d + 1) * sizeof(lp_integer_t));
  for (unsigned i = 0; i <= d; ++i) { lp_integer_construct(&c[i]); if (chance(70)) hp_gen_coeff(&c[i], ri); }
  lp_upolynomial_t* p = lp_upolynomial_construct(hp_ring[ri], d, c);
  for (unsigned i = 0; i <= d; ++i) lp_integer_destruct(&c[i]);
  free(c);
  return p;
}

#endif
