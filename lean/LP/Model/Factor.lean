/-
  C05 — reference for factorizations: exact products, square-freeness / coprimality certificates, complete
  factorization over small prime fields by trial division in increasing degree, irreducibility certificates over ℤ
  (irreducible modulo a prime not dividing the leading coefficient; Kronecker's method with a tuple cap).
  Core Lean only.
-/
import LP.Model.GcdCheck
import LP.Model.Resultant
namespace LP
open QPoly

namespace Factor

/-! ### F_p[x] -/

def fpDeg (p : Nat) (f : FPoly) : Nat := (FPoly.norm p f).length - 1
def fpIsZero (p : Nat) (f : FPoly) : Bool := (FPoly.norm p f).isEmpty
def fpMonic (p : Nat) (f : FPoly) : FPoly :=
  let g := FPoly.norm p f
  match g.getLast? with
  | none => []
  | some lc => FPoly.norm p (FPoly.smul p (FPoly.inv p lc) g)

def fpPow (p : Nat) (f : FPoly) : Nat → FPoly
  | 0 => [1]
  | n+1 => FPoly.mul p f (fpPow p f n)

/-- all monic polynomials of degree d over F_p, low degree first coefficient lists -/
def monics (p : Nat) : Nat → List FPoly
  | 0 => [[1]]
  | d+1 => (monics p d).flatMap (fun g => (List.range p).map (fun (c : Nat) => (c : Int) :: g))

/-- divide out g as often as possible: (multiplicity, cofactor) -/
def divOut (p : Nat) (g : FPoly) : Nat → FPoly → Nat × FPoly
  | 0, f => (0, f)
  | fuel+1, f =>
    let qr := FPoly.divMod p f g
    if fpIsZero p qr.2 ∧ fpDeg p f ≥ fpDeg p g ∧ !fpIsZero p f then
      let r := divOut p g fuel qr.1
      (r.1 + 1, r.2)
    else (0, f)

/-- complete factorization of a monic f by trial division in increasing degree (degrees up to `maxd`) -/
def factorLoop (p : Nat) : Nat → Nat → FPoly → List (FPoly × Nat) → List (FPoly × Nat)
  | 0, _, f, acc => if fpDeg p f ≥ 1 then acc ++ [(fpMonic p f, 1)] else acc
  | fuel+1, d, f, acc =>
    if fpDeg p f < 2 * d then (if fpDeg p f ≥ 1 then acc ++ [(fpMonic p f, 1)] else acc)
    else
      let step := (monics p d).foldl (fun (st : FPoly × List (FPoly × Nat)) g =>
        if fpDeg p st.1 < d then st else
        let r := divOut p g 64 st.1
        if r.1 > 0 then (r.2, st.2 ++ [(g, r.1)]) else st) (f, acc)
      factorLoop p fuel (d + 1) step.1 step.2

/-- monic irreducible factors with multiplicities; `none` if the search space exceeds the cap -/
def factorFp (p : Nat) (f : FPoly) : Option (List (FPoly × Nat)) :=
  let g := fpMonic p f
  let d := fpDeg p g
  if p ^ (d / 2) > 60000 then none else some (factorLoop p (d + 1) 1 g [])

/-- irreducibility over F_p by exhaustive trial division: positive degree and no monic divisor of degree 1 … deg/2
    (`none` if the search space exceeds the cap); proved sound in `Props/C05FpIrr` -/
def irreducibleFp (p : Nat) (f : FPoly) : Option Bool :=
  let g := fpMonic p f
  let d := fpDeg p g
  if p ^ (d / 2) > 60000 then none
  else some (decide (d ≥ 1) && (List.range (d / 2)).all (fun k =>
    (monics p (k + 1)).all (fun h => !(fpIsZero p (FPoly.divMod p g h).2))))

/-- canonical comparison of factor lists -/
def sameFactorsFp (p : Nat) (a b : List (FPoly × Nat)) : Bool :=
  a.length = b.length && a.all (fun x => b.any (fun y => FPoly.norm p x.1 = FPoly.norm p y.1 && x.2 = y.2))

/-! ### ℤ[x] -/

def zTrim (f : List Int) : List Int := (f.reverse.dropWhile (· = 0)).reverse
def zDeg (f : List Int) : Nat := (zTrim f).length - 1
def zLc (f : List Int) : Int := (zTrim f).getLast?.getD 0
def zContent (f : List Int) : Nat := f.foldl (fun g c => Nat.gcd g c.natAbs) 0
def zAdd : List Int → List Int → List Int
  | [], q => q
  | p, [] => p
  | a :: p, b :: q => (a + b) :: zAdd p q
def zSmul (c : Int) (f : List Int) : List Int := f.map (c * ·)
def zMul : List Int → List Int → List Int
  | [], _ => []
  | a :: p, q => zAdd (zSmul a q) (0 :: zMul p q)
def zPow (f : List Int) : Nat → List Int
  | 0 => [1]
  | n+1 => zMul f (zPow f n)
def zEval (f : List Int) (x : Int) : Int := f.foldr (fun c acc => c + x * acc) 0
/-- normal form: trimmed, positive leading coefficient -/
def zNormSign (f : List Int) : List Int := let t := zTrim f; if zLc t < 0 then zSmul (-1) t else t

/-- exact division in ℤ[x] with multiply-back check -/
def zDivExact? (a b : List Int) : Option (List Int) :=
  let qa : QPoly := a.map (fun (c : Int) => (c : Rat))
  let qb : QPoly := b.map (fun (c : Int) => (c : Rat))
  let qr := divMod qa qb
  if !(QPoly.isZero qr.2) then none else
  if qr.1.all (fun c => c.den = 1) then
    let q := qr.1.map (·.num)
    if zTrim (zMul q b) = zTrim a then some q else none
  else none

def smallPrimes : List Nat := [2, 3, 5, 7, 11, 13, 17, 19, 23]

/-- irreducible modulo a prime that does not divide the leading coefficient -/
def certModP (f : List Int) : Option Nat :=
  smallPrimes.find? (fun q => zLc f % (q : Int) ≠ 0 && irreducibleFp q f == some true)

def divisors (n : Int) : List Int :=
  let a := n.natAbs
  ((List.range (a + 1)).filter (fun d => d > 0 ∧ a % d = 0)).flatMap (fun (d : Nat) => [(d : Int), -(d : Int)])

/-- Lagrange interpolation through (xs_i, ys_i) over ℚ -/
def lagrange (xs : List Int) (ys : List Int) : QPoly :=
  (xs.zip ys).foldl (fun acc pt =>
    let others := xs.filter (· ≠ pt.1)
    let num : QPoly := others.foldl (fun q xj => QPoly.mul q [(-xj : Int), 1]) [1]
    let den : Rat := others.foldl (fun d xj => d * ((pt.1 - xj : Int) : Rat)) 1
    QPoly.add acc (QPoly.smul ((pt.2 : Rat) / den) num)) []

def cartesian : List (List Int) → List (List Int)
  | [] => [[]]
  | l :: rest => l.flatMap (fun x => (cartesian rest).map (fun t => x :: t))

/-- Kronecker: a proper factor of degree k (1 ≤ k ≤ deg/2), if one exists; `none` = cap exceeded -/
def kronecker (f : List Int) (cap : Nat) : Option (Option (List Int)) :=
  let d := zDeg f
  if d ≤ 1 then some none else
  let pts : List Int := [0, 1, -1, 2, -2, 3, -3, 4, -4]
  let ks := (List.range (d / 2 + 1)).filter (· ≥ 1)
  ks.foldl (fun (res : Option (Option (List Int))) k =>
    match res with
    | none => none
    | some (some g) => some (some g)
    | some none =>
      let xs := pts.take (k + 1)
      let vals := xs.map (zEval f)
      match xs.zip vals |>.find? (fun p => p.2 = 0) with
      | some p => some (some [-p.1, 1])                      -- an integer root
      | none =>
        let ds := vals.map divisors
        if ds.foldl (fun n l => n * l.length) 1 > cap then none else
        let found := (cartesian ds).findSome? (fun ys =>
          let g := QPoly.trim (lagrange xs ys)
          if g.length ≠ k + 1 then none else
          if !(g.all (fun c => c.den = 1)) then none else
          let gz := g.map (·.num)
          match zDivExact? f gz with
          | some _ => some gz
          | none => none)
        some found) (some none)

inductive Irr
  | yes (why : String)
  | no (factor : List Int)
  | unknown
deriving Repr

/-- irreducibility of a primitive polynomial of positive degree over ℤ -/
def irreducibleZ (f : List Int) : Irr :=
  if zDeg f = 0 then .unknown else
  if zDeg f = 1 then .yes "linear" else
  match certModP f with
  | some q => .yes s!"mod {q}"
  | none =>
    match kronecker f 200000 with
    | none => .unknown
    | some (some g) => .no g
    | some none => .yes "kronecker"

end Factor
end LP
