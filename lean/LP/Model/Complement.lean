/-
  C12 — mirror of the C++ helper `poly::infeasible_regions`: the complement of a feasibility set given as a sorted list of
  disjoint intervals, computed by one pass that remembers where the covered part of the line ends.
  Generic in the end-point type: the driver instantiates `lt` / `eq` with the proved exact comparison of values.
  Core Lean only.
-/
namespace LP
namespace Compl

/-- interval with end points in α; infinite ends are represented by the caller's end-point type -/
structure Itv (α : Type) where
  lo : α
  loOpen : Bool
  hi : α
  hiOpen : Bool
deriving Repr

/-- `last`, `lastOpen`: the covered part of the line ends at `last`; `lastOpen` says that `last` itself is not covered -/
def go {α : Type} (lt eq : α → α → Bool) (ninf pinf : α) : α → Bool → List (Itv α) → List (Itv α)
  | last, lastOpen, [] => if eq last pinf then [] else [⟨last, !lastOpen, pinf, true⟩]
  | last, lastOpen, I :: rest =>
    (if eq I.lo ninf then []
     else if lt last I.lo then [⟨last, !lastOpen, I.lo, !I.loOpen⟩]
     else if lastOpen && I.loOpen && eq last I.lo then [⟨I.lo, false, I.lo, false⟩]
     else []) ++ go lt eq ninf pinf I.hi I.hiOpen rest

/-- the infeasible regions of a feasibility set -/
def complement {α : Type} (lt eq : α → α → Bool) (ninf pinf : α) (S : List (Itv α)) : List (Itv α) :=
  go lt eq ninf pinf ninf false S

end Compl
end LP
