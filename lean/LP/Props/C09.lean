/-
  C09 — querying a number never changes the number.

  Model: the in-place mutation primitives of `lp_algebraic_number_t` (bisection step, refinement with a point,
  collapse to a point, replacement of the polynomial by the gcd, restoration of an earlier interval) as functions
  on `Alg`.  Proved, for every valid representation: each primitive keeps the denoted real and validity
  (`C09_refine`, `C09_refineAt`, `C09_reducePoly`, `C09_restore`), hence every finite sequence of them does
  (`C09_history`).  The C code is tied to this on every run by dumping the raw state of every tracked object after
  every call of a random history and checking, with the proved exact comparison, that the new state denotes the
  same extended real as the creation-time state (`C09_transition_sound`) — whatever caller (comparison,
  arithmetic, hashing, sign / evaluation / root isolation / feasible sets under an assignment) caused the change.
-/
import LP.Props.C08

namespace LP
open QPoly LP.Driver

namespace Alg

theorem C09_refine (a a' : Alg) (x : ℝ) (hv : Valid a) (hx : a.Den x) (h : refine a = some a') :
    a'.Den x ∧ Valid a' := refine_sound a a' x hv hx h

/-- refinement with an arbitrary rational point (incl. collapse to that point) keeps the number -/
theorem C09_refineAt (q : ℚ) (a a' : Alg) (x : ℝ) (hv : Valid a) (hx : a.Den x) (h : refineAt q a = some a') :
    a'.Den x ∧ Valid a' := by
  cases a with
  | rat p =>
    simp only [refineAt, Option.some.injEq] at h
    subst h; exact ⟨hx, hv⟩
  | root f l u =>
    rw [refineAt] at h
    split_ifs at h with hq
    · cases hc : cmpRat (root f l u) q with
      | none => rw [hc] at h; simp at h
      | some c =>
        rw [hc] at h
        simp only [Option.map_some, Option.some.injEq] at h
        have hs := cmpRat_sound _ _ c x hv hx hc
        obtain ⟨hx1, hx2, hx0⟩ := hx
        have hlq : (l : ℝ) < q := by exact_mod_cast hq.1
        have hqu : (q : ℝ) < u := by exact_mod_cast hq.2
        rcases hs with ⟨rfl, hlt⟩ | ⟨rfl, heq⟩ | ⟨rfl, hgt⟩
        · simp only [show ((-1 : Int) = 0) = False by simp, if_false, show ((-1 : Int) < 0) = True by simp, if_true] at h
          subst h
          have hd : (root f l q).Den x := ⟨hx1, hlt, hx0⟩
          exact ⟨hd, x, hd, fun y hy => hv.unique ⟨hy.1, hy.2.1.trans hqu, hy.2.2⟩ ⟨hx1, hx2, hx0⟩⟩
        · simp only [if_true] at h
          subst h
          exact ⟨heq, valid_rat _⟩
        · simp only [show ((1 : Int) = 0) = False by simp, if_false, show ((1 : Int) < 0) = False by simp] at h
          subst h
          have hd : (root f q u).Den x := ⟨hgt, hx2, hx0⟩
          exact ⟨hd, x, hd, fun y hy => hv.unique ⟨hlq.trans hy.1, hy.2.1, hy.2.2⟩ ⟨hx1, hx2, hx0⟩⟩
    · simp only [Option.some.injEq] at h
      subst h; exact ⟨hx, hv⟩

/-- replacing the polynomial by one whose roots are roots of the old one and which has a root in the interval
    (the gcd with the polynomial of an equal number) keeps the number -/
theorem C09_reducePoly (f g : QPoly) (l u : ℚ) (x : ℝ) (hv : Valid (root f l u)) (hx : (root f l u).Den x)
    (hdiv : ∀ y : ℝ, evalR g y = 0 → evalR f y = 0)
    (hroot : ∃ z : ℝ, (l : ℝ) < z ∧ z < (u : ℝ) ∧ evalR g z = 0) :
    (reducePoly g (root f l u)).Den x ∧ Valid (reducePoly g (root f l u)) := by
  obtain ⟨z, hz1, hz2, hz0⟩ := hroot
  have hzx : z = x := hv.unique ⟨hz1, hz2, hdiv z hz0⟩ hx
  subst hzx
  have hd : (root g l u).Den z := ⟨hz1, hz2, hz0⟩
  refine ⟨hd, z, hd, fun y hy => ?_⟩
  exact hv.unique ⟨hy.1, hy.2.1, hdiv y hy.2.2⟩ hx

/-- going back to an earlier isolating interval of the same polynomial keeps the number -/
theorem C09_restore (f : QPoly) (l u l' u' : ℚ) (x : ℝ) (hv : Valid (root f l u)) (hx : (root f l' u').Den x)
    (hl : l ≤ l') (hu : u' ≤ u) :
    (restoreInterval l u (root f l' u')).Den x ∧ Valid (restoreInterval l u (root f l' u')) := by
  have hlR : (l : ℝ) ≤ l' := by exact_mod_cast hl
  have huR : (u' : ℝ) ≤ u := by exact_mod_cast hu
  have hd : (root f l u).Den x := ⟨lt_of_le_of_lt hlR hx.1, lt_of_lt_of_le hx.2.1 huR, hx.2.2⟩
  exact ⟨hd, hv⟩

/-- a mutation step: any of the primitives applied under its guard -/
inductive Step : Alg → Alg → Prop
  | refine {a a'} : refine a = some a' → Step a a'
  | refineAt {a a'} (q : ℚ) : refineAt q a = some a' → Step a a'
  | reduce {f : QPoly} {l u : ℚ} (g : QPoly) : (∀ y : ℝ, evalR g y = 0 → evalR f y = 0) →
      (∃ z : ℝ, (l : ℝ) < z ∧ z < (u : ℝ) ∧ evalR g z = 0) → Step (root f l u) (reducePoly g (root f l u))
  | restore {f : QPoly} {l' u' : ℚ} (l u : ℚ) : Valid (root f l u) → l ≤ l' → u' ≤ u → Step (root f l' u') (restoreInterval l u (root f l' u'))

theorem C09_step (a a' : Alg) (x : ℝ) (hv : Valid a) (hx : a.Den x) (h : Step a a') : a'.Den x ∧ Valid a' := by
  cases h with
  | refine h => exact C09_refine a a' x hv hx h
  | refineAt q h => exact C09_refineAt q a a' x hv hx h
  | reduce g h1 h2 => exact C09_reducePoly _ g _ _ x hv hx h1 h2
  | restore l u hvl hl hu => exact C09_restore _ l u _ _ x hvl hx hl hu

/-- every finite history of mutation steps keeps the number -/
theorem C09_history (a a' : Alg) (x : ℝ) (hv : Valid a) (hx : a.Den x) (h : Relation.ReflTransGen Step a a') :
    a'.Den x ∧ Valid a' := by
  induction h with
  | refl => exact ⟨hx, hv⟩
  | tail _ hs ih => exact C09_step _ _ x ih.2 ih.1 hs

end Alg

/-- the executable transition check used on observed C states: if it accepts, the object still denotes the
    extended real it denoted when it was created -/
theorem C09_transition_sound (init now : Val) (x y : EReal) (hx : ValDen init x) (hy : ValDen now y)
    (h : Val.cmp init now = some 0) : x = y := by
  rcases C08_cmp init now 0 x y hx hy h with ⟨h0, _⟩ | ⟨_, h1⟩ | ⟨h0, _⟩
  · simp at h0
  · exact h1
  · simp at h0

end LP
