import LP.Props.C01
import LP.Props.C01Deriv
import LP.Props.C01Canon
import LP.Props.C01EvalRat
#print axioms LP.Mono.toFinsupp_norm
#print axioms LP.MPoly.den_normalize
#print axioms LP.MPoly.C01_add
#print axioms LP.MPoly.C01_neg
#print axioms LP.MPoly.C01_sub
#print axioms LP.MPoly.C01_mul
#print axioms LP.MPoly.C01_mulInt
#print axioms LP.MPoly.C01_const
#print axioms LP.MPoly.C01_pow
#print axioms LP.MPoly.C01_addMul
#print axioms LP.MPoly.C01_subMul
#print axioms LP.MPoly.C01_shl
#print axioms LP.MPoly.C01_evalInt
#print axioms LP.C01_Z
#print axioms LP.C01_ZMod
#print axioms LP.MPoly.C01_derivative
#print axioms LP.C01_derivative_Z
#print axioms LP.C01_derivative_ZMod
#print axioms LP.Mono.lt_iff_toL
#print axioms LP.Mono.canon_injective
#print axioms LP.MPoly.C01_canonical_unique
#print axioms LP.C01_canonical_unique_Z
#print axioms LP.C01_canonical_unique_ZMod
#print axioms LP.MPoly.C01_evalRat
