/-
  Dense univariate polynomials over ℚ and over a prime field F_p (coefficient lists, low degree first),
  with division and extended Euclid, used by the certificate checkers of C03/C05/C06.  Core Lean only.
-/
import LP.Model.MPoly
namespace LP

/-- dense polynomial over ℚ, low degree first; canonical = no trailing zeros -/
abbrev QPoly := List Rat

namespace QPoly

def trim (p : QPoly) : QPoly := (p.reverse.dropWhile (· = 0)).reverse
def isZero (p : QPoly) : Bool := (trim p).isEmpty
def degree (p : QPoly) : Nat := (trim p).length - 1
def lc (p : QPoly) : Rat := (trim p).getLast?.getD 0

def add : QPoly → QPoly → QPoly
  | [], q => q
  | p, [] => p
  | a :: p, b :: q => (a + b) :: add p q
def smul (c : Rat) (p : QPoly) : QPoly := p.map (c * ·)
def neg (p : QPoly) : QPoly := smul (-1) p
def sub (p q : QPoly) : QPoly := add p (neg q)
/-- multiply by x^k -/
def shift (k : Nat) (p : QPoly) : QPoly := List.replicate k 0 ++ p
def mul : QPoly → QPoly → QPoly
  | [], _ => []
  | a :: p, q => add (smul a q) (shift 1 (mul p q))

def eval (p : QPoly) (x : Rat) : Rat := p.foldr (fun c acc => c + x * acc) 0
/-- coefficients k·c_k, (k+1)·c_{k+1}, … of the list read from index k -/
def derivAux : Nat → QPoly → QPoly
  | _, [] => []
  | k, c :: p => ((k : Rat) * c) :: derivAux (k + 1) p
def derivative (p : QPoly) : QPoly := derivAux 1 p.tail

/-- division with remainder (b ≠ 0): returns (quotient, remainder) -/
def divModLoop (b : QPoly) (db : Nat) (lb : Rat) : Nat → QPoly → QPoly → QPoly × QPoly
  | 0, q, r => (q, r)
  | fuel+1, q, r =>
    let r' := trim r
    if r'.isEmpty ∨ r'.length - 1 < db then (q, r')
    else
      let k := r'.length - 1 - db
      let c := (r'.getLast?.getD 0) / lb
      let t := shift k [c]
      divModLoop b db lb fuel (add q t) (trim (sub r' (mul t b)))

def divMod (a b : QPoly) : QPoly × QPoly :=
  let b' := trim b
  if b'.isEmpty then ([], trim a) else divModLoop b' (b'.length - 1) (b'.getLast?.getD 1) (a.length + 2) [] a

/-- extended Euclid: (g, u, v) with u*a + v*b = g -/
def xgcdLoop : Nat → QPoly → QPoly → QPoly → QPoly → QPoly → QPoly → QPoly × QPoly × QPoly
  | 0, r0, _, s0, _, t0, _ => (r0, s0, t0)
  | fuel+1, r0, r1, s0, s1, t0, t1 =>
    if isZero r1 then (trim r0, trim s0, trim t0)
    else
      let qr := divMod r0 r1
      xgcdLoop fuel r1 qr.2 s1 (trim (sub s0 (mul qr.1 s1))) t1 (trim (sub t0 (mul qr.1 t1)))

def xgcd (a b : QPoly) : QPoly × QPoly × QPoly := xgcdLoop (a.length + b.length + 2) (trim a) (trim b) [1] [] [] [1]

/-- Bezout certificate: `u*a + v*b` is a non-zero constant -/
def bezoutConst (a b u v : QPoly) : Bool :=
  let s := trim (add (mul u a) (mul v b))
  s.length = 1

/-- are a and b coprime over ℚ, with a verified certificate -/
def coprimeCert (a b : QPoly) : Bool :=
  let r := xgcd a b
  bezoutConst a b r.2.1 r.2.2

end QPoly

/-! ### F_p[x] on symmetric or arbitrary integer representatives, reduced mod p into [0,p) -/
abbrev FPoly := List Int
namespace FPoly

def red (p : Nat) (c : Int) : Int := c % (p : Int)
def trim (q : FPoly) : FPoly := (q.reverse.dropWhile (· = 0)).reverse
def norm (p : Nat) (q : FPoly) : FPoly := trim (q.map (red p))
def add (p : Nat) : FPoly → FPoly → FPoly
  | [], q => q.map (red p)
  | q, [] => q.map (red p)
  | a :: r, b :: s => red p (a + b) :: add p r s
def smul (p : Nat) (c : Int) (q : FPoly) : FPoly := q.map (fun x => red p (c * x))
def sub (p : Nat) (a b : FPoly) : FPoly := add p a (smul p (-1) b)
def shift (k : Nat) (q : FPoly) : FPoly := List.replicate k 0 ++ q
def mul (p : Nat) : FPoly → FPoly → FPoly
  | [], _ => []
  | a :: r, q => add p (smul p a q) (shift 1 (mul p r q))
def inv (p : Nat) (c : Int) : Int := ((iInv p c).getD 0) % (p : Int)
def eval (p : Nat) (q : FPoly) (x : Int) : Int := q.foldr (fun c acc => red p (c + x * acc)) 0

def divModLoop (p : Nat) (b : FPoly) (db : Nat) (ilb : Int) : Nat → FPoly → FPoly → FPoly × FPoly
  | 0, q, r => (q, r)
  | fuel+1, q, r =>
    let r' := norm p r
    if r'.isEmpty ∨ r'.length - 1 < db then (q, r')
    else
      let k := r'.length - 1 - db
      let c := red p ((r'.getLast?.getD 0) * ilb)
      let t := shift k [c]
      divModLoop p b db ilb fuel (add p q t) (norm p (sub p r' (mul p t b)))

def divMod (p : Nat) (a b : FPoly) : FPoly × FPoly :=
  let b' := norm p b
  if b'.isEmpty then ([], norm p a) else divModLoop p b' (b'.length - 1) (inv p (b'.getLast?.getD 1)) (a.length + 2) [] a

def xgcdLoop (p : Nat) : Nat → FPoly → FPoly → FPoly → FPoly → FPoly → FPoly → FPoly × FPoly × FPoly
  | 0, r0, _, s0, _, t0, _ => (r0, s0, t0)
  | fuel+1, r0, r1, s0, s1, t0, t1 =>
    if (norm p r1).isEmpty then (norm p r0, norm p s0, norm p t0)
    else
      let qr := divMod p r0 r1
      xgcdLoop p fuel r1 qr.2 s1 (norm p (sub p s0 (mul p qr.1 s1))) t1 (norm p (sub p t0 (mul p qr.1 t1)))

def xgcd (p : Nat) (a b : FPoly) : FPoly × FPoly × FPoly :=
  xgcdLoop p (a.length + b.length + 2) (norm p a) (norm p b) [1] [] [] [1]

def coprimeCert (p : Nat) (a b : FPoly) : Bool :=
  let r := xgcd p a b
  (norm p (add p (mul p r.2.1 a) (mul p r.2.2 b))).length = 1

end FPoly
end LP
