/-
  C14 — the root count over large primes: the number of distinct roots of f ≠ 0 in Z/p is the degree of gcd(f, X^p − X)
  (`roots_count_gcd`: X^p − X splits with the elements of the field as simple roots, so a divisor of it has as many
  distinct roots as its degree, and the roots of the gcd are the roots of f).  The model's count is tied to this in `C14RootCountModel` (`rootCountFp_spec`).
-/
import Mathlib.FieldTheory.Finite.Basic
import Mathlib.Algebra.Polynomial.Splits
import Mathlib.Algebra.Polynomial.FieldDivision

namespace LP
open Polynomial

/-- **the number of distinct roots over Z/p is the degree of gcd(f, X^p − X)** -/
theorem roots_count_gcd (p : ℕ) [hp : Fact p.Prime] (f : (ZMod p)[X]) (hf : f ≠ 0) :
    (EuclideanDomain.gcd f (X ^ p - X)).natDegree = f.roots.toFinset.card := by
  classical
  set T : (ZMod p)[X] := X ^ p - X with hT
  have hcard : Fintype.card (ZMod p) = p := ZMod.card p
  have hT0 : T ≠ 0 := by
    have := FiniteField.X_pow_card_sub_X_ne_zero (ZMod p) (hp.out.one_lt)
    simpa [hT] using this
  have hTroots : T.roots = Finset.univ.val := by
    have := FiniteField.roots_X_pow_card_sub_X (ZMod p)
    rwa [hcard] at this
  have hTdeg : T.natDegree = p := FiniteField.X_pow_card_sub_X_natDegree_eq (ZMod p) hp.out.one_lt
  have hTsplit : Splits T := by
    rw [splits_iff_card_roots, hTroots, hTdeg]
    simp [hcard]
  set g := EuclideanDomain.gcd f T with hg
  have hgT : g ∣ T := EuclideanDomain.gcd_dvd_right f T
  have hg0 : g ≠ 0 := fun h => hT0 (by rw [h] at hgT; exact zero_dvd_iff.1 hgT)
  have hgsplit : Splits g := Splits.of_dvd hTsplit hT0 hgT
  have hle : g.roots ≤ T.roots := Polynomial.roots.le_of_dvd hT0 hgT
  have hnd : g.roots.Nodup := Multiset.nodup_of_le hle (by rw [hTroots]; exact Finset.univ.nodup)
  rw [hgsplit.natDegree_eq_card_roots, ← Multiset.toFinset_card_of_nodup hnd]
  congr 1
  ext a
  rw [Multiset.mem_toFinset, Multiset.mem_toFinset, mem_roots hg0, mem_roots hf, isRoot_gcd_iff_isRoot_left_right]
  constructor
  · exact fun h => h.1
  · intro h
    refine ⟨h, ?_⟩
    have : a ∈ T.roots := by rw [hTroots]; exact Finset.mem_univ_val a
    exact (mem_roots hT0).1 this

end LP
