/-
  C13 — saturated integer counts (`lp_interval_count_int` = LONG_MAX): when the count is reported as saturated, the interval
  contains at least 2^63 - 1 integers (`C13_countInt_saturated`) — infinitely many when an end is infinite; for two finite
  ends the integers of the interval are counted exactly (`finite_ints`, the construction of `C13_countInt`) and the count
  reaches the bound.
-/
import LP.Props.C13Count

set_option linter.unusedSectionVars false

namespace LP
namespace FSet
open VI

/-- the integers of an interval with two finite ends, counted exactly -/
theorem finite_ints (I : VI) (a b : ℚ) (hp' : I.isPoint = false) (hA : I.a = .fin a) (hB : I.b = .fin b) (hab : a < b) :
    ∃ S : Finset ℤ, (∀ z : ℤ, z ∈ S ↔ I.Mem (α := ℚ) (z : ℚ)) ∧
      (S.card : Int) = (if (!I.aOpen && EP.isInt (.fin a)) = true then 1 else 0) +
        (((qFloor b - (if EP.isInt (.fin b) = true then 1 else 0)) + 1 -
          (qCeil a + (if EP.isInt (.fin a) = true then 1 else 0))).toNat : Int) +
        (if (!I.bOpen && EP.isInt (.fin b)) = true then 1 else 0) := by
  have hup : I.upper = I.b := by simp [upper, hp']
  -- the pieces
  set m : ℤ := qCeil a + (if EP.isInt (.fin a) = true then 1 else 0) with hm
  set n : ℤ := qFloor b - (if EP.isInt (.fin b) = true then 1 else 0) with hn
  have hmemz : ∀ z : ℤ, I.Mem (α := ℚ) (z : ℚ) ↔
      ((I.aOpen = false ∧ EP.isInt (.fin a) = true ∧ (z : ℚ) = a) ∨ m ≤ z) ∧
      ((I.bOpen = false ∧ EP.isInt (.fin b) = true ∧ (z : ℚ) = b) ∨ z ≤ n) := by
    intro z
    unfold Mem
    rw [hup]
    simp only [lower, hA, hB]
    rw [lower_int' a I.aOpen z, upper_int' b I.bOpen z]
  let SA : Finset ℤ := if I.aOpen = false ∧ EP.isInt (.fin a) = true then {qCeil a} else ∅
  let SB : Finset ℤ := if I.bOpen = false ∧ EP.isInt (.fin b) = true then {qFloor b} else ∅
  have hSA : ∀ z : ℤ, z ∈ SA ↔ (I.aOpen = false ∧ EP.isInt (.fin a) = true ∧ (z : ℚ) = a) := by
    intro z
    show z ∈ (if I.aOpen = false ∧ EP.isInt (.fin a) = true then ({qCeil a} : Finset ℤ) else ∅) ↔ _
    split_ifs with hc
    · rw [Finset.mem_singleton]
      have := (isInt_ceil a hc.2).1
      constructor
      · intro e; rw [e]; exact ⟨hc.1, hc.2, this⟩
      · rintro ⟨_, _, e⟩
        have : (z : ℚ) = ((qCeil a : ℤ) : ℚ) := by rw [e, this]
        exact_mod_cast this
    · simp only [Finset.notMem_empty, false_iff]
      rintro ⟨h1, h2, _⟩; exact hc ⟨h1, h2⟩
  have hSB : ∀ z : ℤ, z ∈ SB ↔ (I.bOpen = false ∧ EP.isInt (.fin b) = true ∧ (z : ℚ) = b) := by
    intro z
    show z ∈ (if I.bOpen = false ∧ EP.isInt (.fin b) = true then ({qFloor b} : Finset ℤ) else ∅) ↔ _
    split_ifs with hc
    · rw [Finset.mem_singleton]
      have := (isInt_ceil b hc.2).2
      constructor
      · intro e; rw [e]; exact ⟨hc.1, hc.2, this⟩
      · rintro ⟨_, _, e⟩
        have : (z : ℚ) = ((qFloor b : ℤ) : ℚ) := by rw [e, this]
        exact_mod_cast this
    · simp only [Finset.notMem_empty, false_iff]
      rintro ⟨h1, h2, _⟩; exact hc ⟨h1, h2⟩
  -- a closed integer lower end lies below m and below b; a closed integer upper end lies above n and above a
  have hAm : ∀ z : ℤ, z ∈ SA → z < m ∧ (z ≤ n ∨ (I.bOpen = false ∧ EP.isInt (.fin b) = true ∧ (z : ℚ) = b) → True) ∧ (z : ℚ) < b := by
    intro z hz
    obtain ⟨_, hi, e⟩ := (hSA z).1 hz
    have hc := (isInt_ceil a hi).1
    refine ⟨?_, fun _ => trivial, by rw [e]; exact hab⟩
    have : z = qCeil a := by
      have : (z : ℚ) = ((qCeil a : ℤ) : ℚ) := by rw [e, hc]
      exact_mod_cast this
    rw [hm, if_pos hi, this]; omega
  have hBn : ∀ z : ℤ, z ∈ SB → n < z ∧ a < (z : ℚ) := by
    intro z hz
    obtain ⟨_, hi, e⟩ := (hSB z).1 hz
    have hc := (isInt_ceil b hi).2
    refine ⟨?_, by rw [e]; exact hab⟩
    have : z = qFloor b := by
      have : (z : ℚ) = ((qFloor b : ℤ) : ℚ) := by rw [e, hc]
      exact_mod_cast this
    rw [hn, if_pos hi, this]; omega
  -- a (as an integer end) satisfies the upper side, b the lower side
  have hA_up : ∀ z : ℤ, z ∈ SA → (I.bOpen = false ∧ EP.isInt (.fin b) = true ∧ (z : ℚ) = b) ∨ z ≤ n := by
    intro z hz
    have hzb := (hAm z hz).2.2
    right
    have : upperOK (α := ℚ) (.fin b) true (z : ℚ) := by simp [upperOK]; exact hzb
    rcases (upper_int' b true z).1 this with ⟨h0, _⟩ | hh
    · simp at h0
    · exact hh
  have hB_lo : ∀ z : ℤ, z ∈ SB → (I.aOpen = false ∧ EP.isInt (.fin a) = true ∧ (z : ℚ) = a) ∨ m ≤ z := by
    intro z hz
    have hza := (hBn z hz).2
    right
    have : lowerOK (α := ℚ) (.fin a) true (z : ℚ) := by simp [lowerOK]; exact hza
    rcases (lower_int' a true z).1 this with ⟨h0, _⟩ | hh
    · simp at h0
    · exact hh
  refine ⟨SA ∪ Finset.Icc m n ∪ SB, fun z => ?_, ?_⟩
  · rw [hmemz z]
    simp only [Finset.mem_union, Finset.mem_Icc]
    rw [← hSA z, ← hSB z]
    constructor
    · rintro ((hz | ⟨h1, h2⟩) | hz)
      · exact ⟨Or.inl hz, by rw [hSB z]; exact hA_up z hz⟩
      · exact ⟨Or.inr h1, Or.inr h2⟩
      · exact ⟨by rw [hSA z]; exact hB_lo z hz, Or.inl hz⟩
    · rintro ⟨h1 | h1, h2 | h2⟩
      · exact Or.inl (Or.inl h1)
      · exact Or.inl (Or.inl h1)
      · exact Or.inr h2
      · exact Or.inl (Or.inr ⟨h1, h2⟩)
  · -- the count
    have d1 : Disjoint SA (Finset.Icc m n) := by
      rw [Finset.disjoint_left]; intro z hz hz2
      have := (hAm z hz).1; have := (Finset.mem_Icc.1 hz2).1; omega
    have d2 : Disjoint (SA ∪ Finset.Icc m n) SB := by
      rw [Finset.disjoint_left]; intro z hz hz2
      have hb := hBn z hz2
      rcases Finset.mem_union.1 hz with hz1 | hz1
      · have h1 := (hAm z hz1).2.2
        obtain ⟨_, _, e⟩ := (hSB z).1 hz2
        rw [e] at h1; exact lt_irrefl _ h1
      · have := (Finset.mem_Icc.1 hz1).2; omega
    rw [Finset.card_union_of_disjoint d2, Finset.card_union_of_disjoint d1, Int.card_Icc]
    have cA : (SA.card : Int) = if (!I.aOpen && EP.isInt (.fin a)) = true then 1 else 0 := by
      show ((if I.aOpen = false ∧ EP.isInt (.fin a) = true then ({qCeil a} : Finset ℤ) else ∅).card : Int) = _
      cases I.aOpen <;> cases EP.isInt (.fin a) <;> simp
    have cB : (SB.card : Int) = if (!I.bOpen && EP.isInt (.fin b)) = true then 1 else 0 := by
      show ((if I.bOpen = false ∧ EP.isInt (.fin b) = true then ({qFloor b} : Finset ℤ) else ∅).card : Int) = _
      cases I.bOpen <;> cases EP.isInt (.fin b) <;> simp
    push_cast
    rw [cA, cB]


/-- **a saturated count is justified**: the interval contains at least 2^63 - 1 integers -/
theorem C13_countInt_saturated (I : VI) (hw : I.WF) (h : VI.countInt I = none) :
    ∃ S : Finset ℤ, (∀ z ∈ S, I.Mem (α := ℚ) (z : ℚ)) ∧ (2 : Int) ^ 63 - 1 ≤ (S.card : Int) := by
  unfold VI.WF at hw
  unfold VI.countInt at h
  by_cases hp : I.isPoint = true
  · -- a point is never saturated
    rw [if_pos hp] at hw
    obtain ⟨⟨a, ha⟩, _, _⟩ := hw
    have hinf : I.a.isInf = false := by rw [ha]; rfl
    simp [hinf, hp] at h
  · rw [if_neg hp] at hw
    have hp' : I.isPoint = false := by simpa using hp
    obtain ⟨hab, hna, hnb, ha1, hb1⟩ := hw
    have hup : I.upper = I.b := by simp [upper, hp']
    have big : ∀ z0 : ℤ, ((Finset.Icc z0 (z0 + 2 ^ 63)).card : Int) ≥ 2 ^ 63 - 1 := by
      intro z0
      rw [Int.card_Icc]
      have : (z0 + 2 ^ 63 + 1 - z0).toNat = 2 ^ 63 + 1 := by
        have : z0 + 2 ^ 63 + 1 - z0 = ((2 ^ 63 + 1 : ℕ) : ℤ) := by push_cast; ring
        rw [this, Int.toNat_natCast]
      rw [this]; push_cast
    rcases hA : I.a with _ | a | _
    · -- unbounded below
      rcases hB : I.b with _ | b | _
      · exact absurd hB hb1
      · refine ⟨Finset.Icc (qFloor b - 1 - 2 ^ 63) (qFloor b - 1 - 2 ^ 63 + 2 ^ 63), fun z hz => ?_, big _⟩
        have hz2 := (Finset.mem_Icc.1 hz).2
        unfold Mem
        rw [hup]
        simp only [lower, hA, hB, lowerOK, true_and]
        have hfl : ((qFloor b : ℤ) : ℚ) ≤ b := by
          rw [(C17_rat_ops b 0 0 0).2.2.2.1]; exact Int.floor_le b
        have hzb : (z : ℚ) < b := by
          have : (z : ℚ) ≤ ((qFloor b - 1 : ℤ) : ℚ) := by exact_mod_cast (by omega : z ≤ qFloor b - 1)
          push_cast at this; linarith
        cases I.bOpen <;> simp only [upperOK, Bool.false_eq_true, if_false, if_true, Rat.cast_id] <;> linarith
      · refine ⟨Finset.Icc 0 (0 + 2 ^ 63), fun z _ => ?_, big _⟩
        unfold Mem
        rw [hup]
        simp [lower, hA, hB, lowerOK, upperOK]
    · rcases hB : I.b with _ | b | _
      · exact absurd hB hb1
      · -- two finite ends: the exact count reaches the bound
        rw [hA, hB, EP.cmp_fin, cmpQ_lt] at hab
        rw [hA, hB] at h
        simp only [EP.isInf, Bool.false_eq_true, if_false, hp'] at h
        have hce : ceilE (.fin a) = qCeil a := rfl
        have hfl : floorE (.fin b) = qFloor b := rfl
        rw [hce, hfl] at h
        obtain ⟨S, hS, hcard⟩ := finite_ints I a b hp' hA hB hab
        refine ⟨S, fun z hz => (hS z).1 hz, ?_⟩
        rw [hcard]
        have hrA : 0 ≤ (if (!I.aOpen && EP.isInt (.fin a)) = true then (1 : Int) else 0) := by split_ifs <;> omega
        have hrB : 0 ≤ (if (!I.bOpen && EP.isInt (.fin b)) = true then (1 : Int) else 0) := by split_ifs <;> omega
        generalize (if (!I.aOpen && EP.isInt (.fin a)) = true then (1 : Int) else 0) = rA at h hrA ⊢
        generalize (if (!I.bOpen && EP.isInt (.fin b)) = true then (1 : Int) else 0) = rB at h hrB ⊢
        generalize qFloor b - (if EP.isInt (.fin b) = true then 1 else 0) = n at h ⊢
        generalize qCeil a + (if EP.isInt (.fin a) = true then 1 else 0) = m at h ⊢
        by_cases hd : n - m ≥ 0
        · rw [if_pos hd] at h
          rw [Int.toNat_of_nonneg (by omega)]
          split_ifs at h with h1 h2 <;> omega
        · rw [if_neg hd] at h
          simp at h
      · -- unbounded above
        refine ⟨Finset.Icc (qCeil a + 1) (qCeil a + 1 + 2 ^ 63), fun z hz => ?_, big _⟩
        have hz1 := (Finset.mem_Icc.1 hz).1
        unfold Mem
        rw [hup]
        simp only [lower, hA, hB, upperOK, and_true]
        have hcl : a ≤ ((qCeil a : ℤ) : ℚ) := by
          rw [(C17_rat_ops a 0 0 0).2.2.2.2.1]; exact Int.le_ceil a
        have hza : a < (z : ℚ) := by
          have : ((qCeil a + 1 : ℤ) : ℚ) ≤ (z : ℚ) := by exact_mod_cast hz1
          push_cast at this; linarith
        cases I.aOpen <;> simp only [lowerOK, Bool.false_eq_true, if_false, if_true, Rat.cast_id] <;> linarith
    · exact absurd hA ha1


/-- the fold of `lp_feasibility_set_count_int` saturates only with at least 2^63 - 1 integers in the set -/
theorem foldl_countStep_saturated : ∀ (s : List VI) (done : List VI) (c0 : Int) (S0 : Finset ℤ),
    (∀ I ∈ s, I.WF) → (done ++ s).Pairwise (Sep ℚ) →
    (∀ z : ℤ, z ∈ S0 ↔ SetMem ℚ done (z : ℚ)) → (S0.card : Int) = c0 →
    s.foldl countStep (some c0) = none →
    ∃ S : Finset ℤ, (∀ z ∈ S, SetMem ℚ (done ++ s) (z : ℚ)) ∧ (2 : Int) ^ 63 - 1 ≤ (S.card : Int) := by
  intro s
  induction s with
  | nil => intro done c0 S0 _ _ _ _ h; simp at h
  | cons I s ih =>
    intro done c0 S0 hw hsep hS0 hc0 h
    rw [List.foldl_cons] at h
    cases ht : VI.countInt I with
    | none =>
      obtain ⟨S, hS, hc⟩ := C13_countInt_saturated I (hw I (by simp)) ht
      exact ⟨S, fun z hz => ⟨I, by simp, hS z hz⟩, hc⟩
    | some t =>
      obtain ⟨SI, hSI, hcI⟩ := C13_countInt I (hw I (by simp)) t ht
      have hdisj : Disjoint S0 SI := by
        rw [Finset.disjoint_left]
        intro z hz0 hzI
        obtain ⟨J, hJ, hzJ⟩ := (hS0 z).1 hz0
        have hzI' := (hSI z).1 hzI
        have hJI : Sep ℚ J I := by
          have := List.pairwise_append.1 hsep
          exact this.2.2 J hJ I (by simp)
        exact lt_irrefl _ (hJI _ _ hzJ hzI')
      have hunion : ∀ z : ℤ, z ∈ S0 ∪ SI ↔ SetMem ℚ (done ++ [I]) (z : ℚ) := fun z => by
        rw [Finset.mem_union, hS0 z, hSI z, setMem_append]
        simp [SetMem]
      have hcard : ((S0 ∪ SI).card : Int) = c0 + t := by
        rw [Finset.card_union_of_disjoint hdisj]; push_cast; rw [hc0, hcI]
      by_cases hsat : t ≥ 2 ^ 63 - 1 - c0
      · refine ⟨S0 ∪ SI, fun z hz => ?_, by rw [hcard]; omega⟩
        obtain ⟨J, hJ, hzJ⟩ := (hunion z).1 hz
        exact ⟨J, by
          rcases List.mem_append.1 hJ with h1 | h1
          · exact List.mem_append_left _ h1
          · exact List.mem_append_right _ (by simp at h1; rw [h1]; simp), hzJ⟩
      · have hstep : countStep (some c0) I = some (c0 + t) := by
          simp only [countStep, ht]; rw [if_neg hsat]
        rw [hstep] at h
        have := ih (done ++ [I]) (c0 + t) (S0 ∪ SI) (fun J hJ => hw J (List.mem_cons_of_mem _ hJ))
          (by simpa using hsep) hunion hcard h
        simpa using this

/-- **`lp_feasibility_set_count_int` saturates only when the set contains at least 2^63 - 1 integers** -/
theorem C13_set_countInt_saturated (s : List VI) (hn : NFs s) (h : FSet.countInt s = none) :
    ∃ S : Finset ℤ, (∀ z ∈ S, SetMem ℚ s (z : ℚ)) ∧ (2 : Int) ^ 63 - 1 ≤ (S.card : Int) := by
  rw [countInt_eq_foldl] at h
  have := foldl_countStep_saturated s [] 0 ∅ hn.1 (by simpa using nfs_pairwise_sep (α := ℚ) s hn)
    (fun z => by simp [setMem_nil]) (by simp) h
  simpa using this

end FSet
end LP
