/* C04 harness: resultants, principal subresultant coefficients, subresultant chains, in both argument orders.
 *   res resultant|psc|subres <ring> <x> A B => results (arrays as ;-separated lists)
 */
#include "hpoly.h"

/* polynomial with main variable x_{nv-1}, degree exactly d in it, coefficients in the lower variables */
static lp_polynomial_t* gen_main(int nv, unsigned d, int shape) {
  lp_polynomial_t* p = lp_polynomial_new(hp_ctx[0]);
  lp_integer_t one; lp_integer_construct_from_int(lp_Z, &one, 1);
  for (unsigned k = 0; k <= d; ++k) {
    lp_polynomial_t* c = (nv > 1 && chance(50)) ? hp_random_poly(0, nv - 1, 1, 2) : hp_dest(0, 1);
    if (k != d && chance(shape == 1 ? 60 : 25)) { lp_polynomial_delete(c); continue; }      /* sparse: degree gaps */
    if (lp_polynomial_is_zero(c)) { lp_polynomial_delete(c); c = hp_dest(0, 1); }
    lp_polynomial_t* xk = lp_polynomial_alloc(); lp_polynomial_construct_simple(xk, hp_ctx[0], &one, hp_x[nv - 1], k);
    lp_polynomial_mul(c, c, xk); lp_polynomial_add(p, p, c);
    lp_polynomial_delete(xk); lp_polynomial_delete(c);
  }
  lp_integer_destruct(&one);
  return p;
}

#ifdef LPV_HAVE_CXX_SHIM
lp_polynomial_t* lpv_cxx_discriminant(const lp_polynomial_t* p);
#endif

static void res_case(void) {
  int nv = 1 + (int)rnd(3);
  unsigned da = 1 + rnd(3), db = 1 + rnd(3);
  if (chance(8)) da = 4;
  int shape = (int)rnd(3);
  /* sometimes the operands are external polynomials built under the REVERSED variable order; the order is restored before the
     operation, which is then the first call that sees them (sizes and main variables are asked of private twins) */
  int stale = nv > 1 && chance(15);
  char* tokA = 0; char* tokB = 0; lp_polynomial_t* TA = 0; lp_polynomial_t* TB = 0;
  if (stale) hp_stale_begin();
  lp_polynomial_t* A = gen_main(nv, da, shape);
  lp_polynomial_t* B = gen_main(nv, db, shape);
  unsigned w = rnd(100);
  if (w < 20) { /* common factor of degree 1 or 2 in the main variable */
    lp_polynomial_t* g = gen_main(nv, 1 + rnd(2), 0);
    lp_polynomial_mul(A, A, g); lp_polynomial_mul(B, B, g); lp_polynomial_delete(g);
  } else if (w < 28) { lp_polynomial_assign(B, A); }
  else if (w < 36) { lp_polynomial_derivative(B, A); if (lp_polynomial_is_constant(B) || lp_polynomial_top_variable(B) != hp_x[nv - 1]) { lp_polynomial_delete(B); B = gen_main(nv, 1, 0); } }
  else if (w < 56 && nv == 1) {
    /* remainder sequence built bottom-up (r_{i-1} = r_i * B_i + r_{i+1}) with chosen degree gaps: defective chains with
       gaps up to 4 at the first and at later steps (Ducos' optimised S_e with every small exponent) */
    unsigned d2 = rnd(2), g1 = 1 + rnd(4), d1 = d2 + g1; if (d1 > 4) d1 = 4;
    unsigned gq = 1 + rnd(2), gp = rnd(3);
    lp_polynomial_t* r2 = gen_main(1, d2, 0); lp_polynomial_t* r1 = gen_main(1, d1, 0);
    lp_polynomial_t* B1 = gen_main(1, gq, 0); lp_polynomial_t* B2 = gen_main(1, gp, 0);
    lp_polynomial_mul(B, r1, B1); lp_polynomial_add(B, B, r2);          /* Q = r1*B1 + r2 */
    lp_polynomial_mul(A, B, B2); lp_polynomial_add(A, A, r1);           /* P = Q*B2 + r1 */
    lp_polynomial_delete(r1); lp_polynomial_delete(r2); lp_polynomial_delete(B1); lp_polynomial_delete(B2);
    if (chance(30)) { lp_polynomial_t* t = A; A = B; B = t; }
    if (lp_polynomial_is_constant(A) || lp_polynomial_is_constant(B)) { lp_polynomial_delete(A); lp_polynomial_delete(B); return; }
  }
  if (stale) {
    TA = lp_polynomial_new_copy(A); TB = lp_polynomial_new_copy(B);
    tokA = hp_tok(A); tokB = hp_tok(B);
    lp_polynomial_set_external(A); lp_polynomial_set_external(B);
    hp_stale_end();
    lp_polynomial_ensure_order(TA); lp_polynomial_ensure_order(TB);
  }
  const lp_polynomial_t* QA = stale ? TA : A; const lp_polynomial_t* QB = stale ? TB : B;      /* whom to ask about A and B */
  if (lp_polynomial_is_constant(QA) || lp_polynomial_is_constant(QB) ||
      lp_polynomial_degree(QA) + lp_polynomial_degree(QB) > (nv == 1 ? 12u : 7u) ||
      lp_polynomial_top_variable(QA) != hp_x[nv - 1] || lp_polynomial_top_variable(QB) != hp_x[nv - 1]) {
    lp_polynomial_delete(A); lp_polynomial_delete(B); if (TA) { lp_polynomial_delete(TA); lp_polynomial_delete(TB); } free(tokA); free(tokB); return; }
  size_t dA = lp_polynomial_degree(QA), dB = lp_polynomial_degree(QB);
  size_t sz = (dA < dB ? dA : dB) + 1;
#ifdef LPV_HAVE_CXX_SHIM
  if (!stale && chance(12) && dA >= 1 && dA <= 4) {      /* poly::discriminant(A) = resultant(A, A') / lc(A); 1 for degree 1 */
    sb_begin("res", "disc"); sb_sp(); hp_ring_token(0); sb_sp(); sb_ulong(hp_x[nv - 1]); sb_sp(); sb_poly(A); sb_arrow();
    lp_polynomial_t* D = lpv_cxx_discriminant(A);
    sb_sp(); sb_poly(D); sb_emit();
    lp_polynomial_delete(D); lp_polynomial_delete(A); lp_polynomial_delete(B);
    return;
  }
#endif
  unsigned op = rnd(3);
#define RHEAD(nm) sb_begin("res", nm); sb_sp(); hp_ring_token(0); sb_sp(); sb_ulong(hp_x[nv - 1]); sb_sp(); if (tokA) sb_str(tokA); else sb_poly(A); sb_sp(); if (tokB) sb_str(tokB); else sb_poly(B); sb_arrow()
  if (op == 0) {
    lp_polynomial_t* R = hp_dest(0, (int)rnd(3));
    RHEAD("resultant");
    { unsigned al = rnd(6); if (stale && al < 2) al = 3;        /* output aliased with an input (on a copy), or a pre-used object */
      if (al == 0) { lp_polynomial_t* Ac = lp_polynomial_new_copy(A); lp_polynomial_resultant(Ac, Ac, B); sb_sp(); sb_poly(Ac); lp_polynomial_delete(Ac); }
      else if (al == 1) { lp_polynomial_t* Bc = lp_polynomial_new_copy(B); lp_polynomial_resultant(Bc, A, Bc); sb_sp(); sb_poly(Bc); lp_polynomial_delete(Bc); }
      else if (al == 2) { lp_polynomial_t* O = hp_dest(0, 2); lp_polynomial_resultant(O, A, B); sb_sp(); sb_poly(O); lp_polynomial_delete(O); }
      else { lp_polynomial_resultant(R, A, B); sb_sp(); sb_poly(R); } }
    sb_emit();
    lp_polynomial_delete(R);
  } else {
    lp_polynomial_t** out = (lp_polynomial_t**)malloc(sz * sizeof(lp_polynomial_t*));
    for (size_t i = 0; i < sz; ++i) out[i] = lp_polynomial_new(hp_ctx[0]);
    RHEAD(op == 1 ? "psc" : "subres");
    if (op == 1) lp_polynomial_psc(out, A, B); else lp_polynomial_subres(out, A, B);
    sb_sp();
    for (size_t i = 0; i < sz; ++i) { if (i) sb_str(";"); sb_poly(out[i]); lp_polynomial_delete(out[i]); }
    sb_emit();
    free(out);
  }
  lp_polynomial_delete(A); lp_polynomial_delete(B);
  if (TA) { lp_polynomial_delete(TA); lp_polynomial_delete(TB); } free(tokA); free(tokB);
}

int main(int argc, char** argv) {
  uint64_t seed = argc > 1 ? strtoull(argv[1], 0, 10) : 1;
  long n = argc > 2 ? atol(argv[2]) : 1000;
  long only = argc > 3 ? atol(argv[3]) : -1;
  long start = argc > 4 ? atol(argv[4]) : 0;
  lpv_init(); hp_init();
  for (long i = 0; i < n; ++i) {
    if ((only >= 0 && i != only) || i < start) continue;
    lpv_begin_case(seed, i);
    res_case();
  }
  hp_done();
  free(sb_buf);
  return 0;
}
