/-
  C13 — witnesses used by the converse of the intersection status (`C13Converse`): two up-sets and two down-sets of a linear
  order meet as soon as each up-set meets each down-set (`helly1d`); a bound strictly below / above another one is
  witnessed by a number (`low_witness`, `up_witness`, `above_in`), and so is the gap between two intervals of a normal form
  (`gap_witness`).
-/
import LP.Props.C13IntersectNF
import LP.Props.C13Hull

set_option linter.unusedSectionVars false

namespace LP
namespace FSet
open VI

variable {α : Type*} [Field α] [LinearOrder α] [IsStrictOrderedRing α]

/-- two up-sets and two down-sets of a linear order meet as soon as each up-set meets each down-set -/
theorem helly1d (P1 P2 D1 D2 : α → Prop)
    (hP1 : ∀ x y, P1 x → x ≤ y → P1 y) (hP2 : ∀ x y, P2 x → x ≤ y → P2 y)
    (hD1 : ∀ x y, D1 y → x ≤ y → D1 x) (hD2 : ∀ x y, D2 y → x ≤ y → D2 x)
    (h11 : ∃ x, P1 x ∧ D1 x) (h12 : ∃ x, P1 x ∧ D2 x) (h21 : ∃ x, P2 x ∧ D1 x) (h22 : ∃ x, P2 x ∧ D2 x) :
    ∃ x, P1 x ∧ P2 x ∧ D1 x ∧ D2 x := by
  -- up-sets are nested, and so are down-sets
  have nestP : (∀ x, P1 x → P2 x) ∨ (∀ x, P2 x → P1 x) := by
    by_cases h : ∀ x, P1 x → P2 x
    · exact Or.inl h
    · right
      push Not at h
      obtain ⟨x0, h1, h2⟩ := h
      intro y hy
      rcases le_total y x0 with hle | hle
      · exact absurd (hP2 y x0 hy hle) h2
      · exact hP1 x0 y h1 hle
  have nestD : (∀ x, D1 x → D2 x) ∨ (∀ x, D2 x → D1 x) := by
    by_cases h : ∀ x, D1 x → D2 x
    · exact Or.inl h
    · right
      push Not at h
      obtain ⟨x0, h1, h2⟩ := h
      intro y hy
      rcases le_total x0 y with hle | hle
      · exact absurd (hD2 x0 y hy hle) h2
      · exact hD1 y x0 h1 hle
  rcases nestP with hp | hp <;> rcases nestD with hd | hd
  · obtain ⟨x, a, b⟩ := h11; exact ⟨x, a, hp x a, b, hd x b⟩
  · obtain ⟨x, a, b⟩ := h12; exact ⟨x, a, hp x a, hd x b, b⟩
  · obtain ⟨x, a, b⟩ := h21; exact ⟨x, hp x a, a, b, hd x b⟩
  · obtain ⟨x, a, b⟩ := h22; exact ⟨x, hp x a, a, hd x b, b⟩

theorem not_upperOK_mono (e : EP) (o : Bool) (x y : α) (h : ¬ upperOK e o x) (hxy : x ≤ y) : ¬ upperOK e o y :=
  fun hy => h (upperOK_mono e o x y hy hxy)

theorem not_lowerOK_mono (e : EP) (o : Bool) (x y : α) (h : ¬ lowerOK e o y) (hxy : x ≤ y) : ¬ lowerOK e o x :=
  fun hx => h (lowerOK_mono e o x y hx hxy)

/-- a lower bound strictly below another one: some number respects the first and not the second -/
theorem lower_strict (a b : EP) (oa ob : Bool)
    (h : EP.cmp a b < 0 ∨ (a = b ∧ oa = false ∧ ob = true ∧ ∃ q, a = .fin q)) :
    ∃ x : α, lowerOK a oa x ∧ ¬ lowerOK b ob x := by
  rcases h with h | ⟨rfl, rfl, rfl, q, rfl⟩
  · rcases a with _ | p | _ <;> rcases b with _ | q | _ <;> try (simp [EP.cmp] at h)
    · refine ⟨(q : α) - 1, trivial, ?_⟩
      cases ob <;> simp only [lowerOK, Bool.false_eq_true, if_false, if_true] <;> linarith
    · exact ⟨0, trivial, fun hh => hh⟩
    · have hpq : p < q := (cmpQ_lt p q).1 h
      have hpq' : (p : α) < (q : α) := by exact_mod_cast hpq
      refine ⟨((p : α) + q) / 2, ?_, ?_⟩
      · cases oa <;> simp only [lowerOK, Bool.false_eq_true, if_false, if_true] <;> linarith
      · cases ob <;> simp only [lowerOK, Bool.false_eq_true, if_false, if_true] <;> linarith
    · refine ⟨(p : α) + 1, ?_, fun hh => hh⟩
      cases oa <;> simp only [lowerOK, Bool.false_eq_true, if_false, if_true] <;> linarith
  · exact ⟨(q : α), by simp [lowerOK], by simp [lowerOK]⟩

/-- an upper bound strictly above another one: some number respects the first and not the second -/
theorem upper_strict (a b : EP) (oa ob : Bool)
    (h : EP.cmp a b > 0 ∨ (a = b ∧ oa = false ∧ ob = true ∧ ∃ q, a = .fin q)) :
    ∃ x : α, upperOK a oa x ∧ ¬ upperOK b ob x := by
  rcases h with h | ⟨rfl, rfl, rfl, q, rfl⟩
  · rcases a with _ | p | _ <;> rcases b with _ | q | _ <;> try (simp [EP.cmp] at h)
    · refine ⟨(p : α) - 1, ?_, fun hh => hh⟩
      cases oa <;> simp only [upperOK, Bool.false_eq_true, if_false, if_true] <;> linarith
    · have hpq : q < p := (cmpQ_gt p q).1 h
      have hpq' : (q : α) < (p : α) := by exact_mod_cast hpq
      refine ⟨((p : α) + q) / 2, ?_, ?_⟩
      · cases oa <;> simp only [upperOK, Bool.false_eq_true, if_false, if_true] <;> linarith
      · cases ob <;> simp only [upperOK, Bool.false_eq_true, if_false, if_true] <;> linarith
    · exact ⟨0, trivial, fun hh => hh⟩
    · refine ⟨(q : α) + 1, trivial, ?_⟩
      cases ob <;> simp only [upperOK, Bool.false_eq_true, if_false, if_true] <;> linarith
  · exact ⟨(q : α), by simp [upperOK], by simp [upperOK]⟩


theorem cmpUpper_gt_iff (I J : VI) :
    cmpUpper I J > 0 ↔ EP.cmp I.upper J.upper > 0 ∨ (I.upper = J.upper ∧ I.bOpen = false ∧ J.bOpen = true) := by
  unfold cmpUpper
  dsimp only
  by_cases h0 : EP.cmp I.upper J.upper = 0
  · have he := (EP.cmp_eq_zero _ _).1 h0
    rw [h0]
    simp only [ne_eq, not_true_eq_false, if_false, gt_iff_lt, lt_irrefl, false_or]
    cases I.bOpen <;> cases J.bOpen <;> simp [he]
  · have hne : I.upper ≠ J.upper := fun h => h0 ((EP.cmp_eq_zero _ _).2 h)
    simp only [ne_eq, h0, not_false_eq_true, if_true, hne, false_and, or_false]

/-- `I1` starts strictly before `I2`: some number is above the lower bound of `I1` and below that of `I2` -/
theorem low_witness (I1 I2 : VI) (w1 : I1.WF) (h : cmpLower I1 I2 < 0) :
    ∃ x : α, lowerOK I1.lower I1.aOpen x ∧ ¬ lowerOK I2.lower I2.aOpen x := by
  refine lower_strict _ _ _ _ ?_
  rcases (cmpLower_lt_iff I1 I2).1 h with h | ⟨e, o1, o2⟩
  · exact Or.inl h
  · exact Or.inr ⟨e, o1, o2, wf_lower_fin_of_closed I1 w1 o1⟩

/-- `I1` ends strictly after `I2`: some number is below the upper bound of `I1` and above that of `I2` -/
theorem up_witness (I1 I2 : VI) (w1 : I1.WF) (h : cmpUpper I1 I2 > 0) :
    ∃ x : α, upperOK I1.upper I1.bOpen x ∧ ¬ upperOK I2.upper I2.bOpen x := by
  refine upper_strict _ _ _ _ ?_
  rcases (cmpUpper_gt_iff I1 I2).1 h with h | ⟨e, o1, o2⟩
  · exact Or.inl h
  · refine Or.inr ⟨e, o1, o2, ?_⟩
    obtain ⟨u1, u2⟩ := wf_upper_facts I1 w1
    rcases hu : I1.upper with _ | q | _
    · exact absurd hu u1
    · exact ⟨q, rfl⟩
    · have := u2 hu; rw [o1] at this; exact absurd this (by simp)

/-- a number of `I1` above `I2`, when `I1` ends strictly after `I2` -/
theorem above_in (I1 I2 : VI) (w1 : I1.WF) (h : cmpUpper I1 I2 > 0) :
    ∃ x : α, I1.Mem x ∧ ¬ upperOK I2.upper I2.bOpen x := by
  obtain ⟨x0, h1, h2⟩ := up_witness (α := α) I1 I2 w1 h
  obtain ⟨y, hy⟩ := wf_nonempty (α := α) I1 w1
  rcases le_total x0 y with hle | hle
  · exact ⟨y, hy, not_upperOK_mono _ _ x0 y h2 hle⟩
  · exact ⟨x0, ⟨lowerOK_mono _ _ y x0 hy.1 hle, h1⟩, h2⟩

/-- a number in the gap between two intervals of a normal form -/
theorem gap_witness (I J : VI) (wI : I.WF) (wJ : J.WF) (h : Gap I J) :
    ∃ x : α, ¬ upperOK I.upper I.bOpen x ∧ ¬ lowerOK J.lower J.aOpen x := by
  obtain ⟨u1, _⟩ := wf_upper_facts I wI
  obtain ⟨l1, _⟩ := wf_lower_facts J wJ
  unfold Gap at h
  have hl : J.lower = J.a := rfl
  rcases hu : I.upper with _ | p | _
  · exact absurd hu u1
  · rcases hj : J.lower with _ | q | _
    · rw [hu, hj] at h; simp [EP.cmp] at h
    · rw [hu, hj] at h
      rcases h with h | ⟨h, o1, o2⟩
      · have hpq : p < q := (cmpQ_lt p q).1 h
        have hpq' : (p : α) < (q : α) := by exact_mod_cast hpq
        refine ⟨((p : α) + q) / 2, ?_, ?_⟩
        · cases I.bOpen <;> simp only [upperOK, Bool.false_eq_true, if_false, if_true] <;> linarith
        · cases J.aOpen <;> simp only [lowerOK, Bool.false_eq_true, if_false, if_true] <;> linarith
      · have hpq : p = q := (cmpQ_eq p q).1 h
        subst hpq
        rw [o1, o2]
        exact ⟨(p : α), by simp [upperOK], by simp [lowerOK]⟩
    · rw [hl] at hj; exact absurd hj l1
  · rcases hj : J.lower with _ | q | _
    · rw [hu, hj] at h; simp [EP.cmp] at h
    · rw [hu, hj] at h; simp [EP.cmp] at h
    · rw [hl] at hj; exact absurd hj l1

/-- a number above an interval is not in it, nor in any interval below it -/
theorem above_not_mem (I : VI) (x : α) (h : ¬ upperOK I.upper I.bOpen x) : ¬ I.Mem x := fun hm => h hm.2

theorem above_of_sep (J I : VI) (x : α) (hs : Sep α J I) (hneJ : ∃ z : α, J.Mem z) (hne : ∃ y : α, I.Mem y)
    (h : ¬ upperOK I.upper I.bOpen x) : ¬ upperOK J.upper J.bOpen x := by
  intro hj
  obtain ⟨y, hy⟩ := hne
  obtain ⟨z, hz⟩ := hneJ
  have hyx : y < x := by
    by_contra hc
    exact h (upperOK_mono _ _ x y hy.2 (not_lt.1 hc))
  have hzy : z < y := hs z y hz hy
  have hxJ : J.Mem x := ⟨lowerOK_mono _ _ z x hz.1 (le_of_lt (lt_trans hzy hyx)), hj⟩
  exact absurd (hs x y hxJ hy) (not_lt.2 hyx.le)

/-- a number below the lower bound of an interval is not in it, nor in any interval above it -/
theorem below_not_mem_later (I K : VI) (x : α) (hs : Sep α I K) (hne : ∃ y : α, I.Mem y)
    (h : ¬ lowerOK I.lower I.aOpen x) : ¬ K.Mem x := by
  intro hk
  obtain ⟨y, hy⟩ := hne
  have hyx : y < x := hs y x hy hk
  exact h (lowerOK_mono _ _ y x hy.1 hyx.le)

end FSet
end LP
