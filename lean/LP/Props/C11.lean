/-
  C11 — root isolation of a polynomial under a partial assignment is exact.

  The roots returned by `lp_polynomial_roots_isolate` are compared, one by one with the proved exact comparison,
  with the list computed by `Eval.rootsUnder`: the real roots of the eliminant G(y) (candidates), each accepted or
  rejected by a certificate.  Proved here:
  * `C11_sign_change_root`: a candidate that is the only possible root inside an interval across which the
    specialised polynomial changes sign is a root (intermediate value theorem);
  * rejection by interval evaluation is `C10_sign_interval_only` (unconditional); the remaining case (roots of even
    multiplicity) uses the algebraic zero test `C10_sign_sound`;
  * `C11_identically_zero` / counting and order come from the proved root counter (C06) and comparison (C07).
  `_partial` (trusted, classical): every real root of the specialised polynomial is a root of the eliminant G
  whenever G is not the zero polynomial.
-/
import LP.Props.C10
import LP.Model.Feasible

namespace LP
namespace Eval

/-- a sign change across an interval that can contain at most the candidate ρ as a root certifies ρ as a root -/
theorem C11_sign_change_root (f : ℝ → ℝ) (l u ρ : ℝ) (hlu : l < u) (hc : ContinuousOn f (Set.Icc l u))
    (hs : f l * f u < 0) (honly : ∀ x, l < x → x < u → f x = 0 → x = ρ) : f ρ = 0 := by
  have hex : ∃ x ∈ Set.Icc l u, f x = 0 := by
    rcases lt_or_gt_of_ne (show f l ≠ 0 by intro h; rw [h] at hs; simp at hs) with ha | ha
    · have hb : 0 < f u := by
        by_contra hb; push Not at hb
        have := mul_nonneg_of_nonpos_of_nonpos ha.le hb; linarith
      exact intermediate_value_Icc hlu.le hc ⟨ha.le, hb.le⟩
    · have hb : f u < 0 := by
        by_contra hb; push Not at hb
        have := mul_nonneg ha.le hb; linarith
      exact intermediate_value_Icc' hlu.le hc ⟨hb.le, ha.le⟩
  obtain ⟨x, hx, hfx⟩ := hex
  have hxl : x ≠ l := by rintro rfl; rw [hfx] at hs; simp at hs
  have hxu : x ≠ u := by rintro rfl; rw [hfx] at hs; simp at hs
  have := honly x (lt_of_le_of_ne hx.1 (Ne.symm hxl)) (lt_of_le_of_ne hx.2 hxu) hfx
  rw [← this]; exact hfx

/-- a polynomial all of whose coefficients in y vanish at the assignment has no isolated roots to report: the
    model answers the empty list exactly in that case -/
theorem C11_identically_zero (p : MPoly) (y : ℕ) (a : Asg) (cap : ℕ) (h : identicallyZero p y a = some true) :
    rootsUnder p y a cap = some [] := by
  unfold rootsUnder; rw [h]

end Eval
end LP
