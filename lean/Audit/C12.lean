import LP.Props.C12
#print axioms LP.Eval.C12_negate
#print axioms LP.Eval.C12_root_constraint
#print axioms LP.Eval.C10_sign_sound
#print axioms LP.Eval.run_is_union
#print axioms LP.Eval.sweepAux_mem
#print axioms LP.Eval.C12_sweep
#print axioms LP.Eval.cell_exists
