/-
  C07: the model's negation and inverse (through which subtraction and division are validated) denote −α and 1/α.
-/
import LP.Props.C07Exact

namespace LP
open QPoly MPoly

namespace ZAlg

/-- the representation `a` is about the polynomial `f` -/
def PolyOf (a : Alg) (f : QPoly) : Prop :=
  match a with
  | .rat q => evalR f (q : ℝ) = 0
  | .root f' _ _ => f' = f

/-- well-formed pair: the interval representation uses the integer polynomial carried along -/
def WF (x : ZAlg) : Prop := PolyOf x.a (toQ x.f)

theorem polyOf_root (a : Alg) (f : QPoly) (α : ℝ) (hp : PolyOf a f) (hd : a.Den α) : evalR f α = 0 := by
  cases a with
  | rat q => rw [hd]; exact hp
  | root f' l u => rw [← hp]; exact hd.2.2

theorem refine_polyOf (a a' : Alg) (f : QPoly) (α : ℝ) (hv : a.Valid) (hd : a.Den α) (hp : PolyOf a f)
    (h : Alg.refine a = some a') : PolyOf a' f := by
  cases a with
  | rat q => simp only [Alg.refine, Option.some.injEq] at h; subst h; exact hp
  | root f' l u =>
    simp only [Alg.refine] at h
    cases hc : Alg.cmpRat (.root f' l u) ((l + u) / 2) with
    | none => rw [hc] at h; simp at h
    | some c =>
      rw [hc] at h
      simp only [Option.map_some, Option.some.injEq] at h
      have hs := Alg.cmpRat_sound _ _ c α hv hd hc
      by_cases h0 : c = 0
      · rw [if_pos h0] at h; subst h
        subst h0
        have : α = (((l + u) / 2 : ℚ) : ℝ) := by simpa [Alg.CmpIs] using hs
        show evalR f _ = 0
        rw [← this, ← hp]; exact hd.2.2
      · rw [if_neg h0] at h
        by_cases h1 : c < 0
        · rw [if_pos h1] at h; subst h; exact hp
        · rw [if_neg h1] at h; subst h; exact hp

/-! ### negation -/

def flipSigns (cs : List Int) : List Int := cs.zipIdx.map (fun (c : Int × Nat) => if c.2 % 2 = 0 then c.1 else -c.1)

theorem evalR_flip_aux (a : ℝ) : ∀ (l : List Int) (k : ℕ),
    evalR (toQ ((l.zipIdx k).map (fun (c : Int × Nat) => if c.2 % 2 = 0 then c.1 else -c.1))) (-a)
      = (-1) ^ k * evalR (toQ l) a := by
  intro l
  induction l with
  | nil => intro k; simp [toQ, evalR_nil]
  | cons c l ih =>
    intro k
    rw [List.zipIdx_cons, List.map_cons]
    unfold toQ at ih ⊢
    rw [List.map_cons, List.map_cons, evalR_cons, evalR_cons, ih (k + 1)]
    rcases Nat.even_or_odd k with hk | hk
    · have h2 : k % 2 = 0 := Nat.even_iff.1 hk
      rw [if_pos h2, pow_succ, hk.neg_one_pow]
      push_cast; ring
    · have h2 : ¬ k % 2 = 0 := by rw [Nat.odd_iff] at hk; omega
      rw [if_neg h2, pow_succ, hk.neg_one_pow]
      push_cast; ring

theorem evalR_flip (cs : List Int) (a : ℝ) : evalR (toQ (flipSigns cs)) (-a) = evalR (toQ cs) a := by
  have := evalR_flip_aux a cs 0
  simpa [flipSigns] using this

theorem evalR_flip' (cs : List Int) (y : ℝ) : evalR (toQ (flipSigns cs)) y = evalR (toQ cs) (-y) := by
  have := evalR_flip cs (-y)
  rwa [neg_neg] at this

/-- **negation is exact** -/
theorem neg_sound (x : ZAlg) (α : ℝ) (hwf : x.WF) (hv : x.a.Valid) (hd : x.a.Den α) :
    (neg x).a.Den (-α) ∧ (neg x).a.Valid ∧ (neg x).WF ∧ evalR (toQ (neg x).f) (-α) = 0 := by
  have hroot := polyOf_root x.a _ α hwf hd
  obtain ⟨f, a⟩ := x
  simp only at hwf hv hd hroot
  cases a with
  | rat q =>
    have hα : α = (q : ℝ) := hd
    refine ⟨?_, Alg.valid_rat _, ?_, ?_⟩
    · show -α = ((-q : ℚ) : ℝ); rw [hα]; push_cast; rfl
    · show evalR (toQ (flipSigns f)) ((-q : ℚ) : ℝ) = 0
      push_cast; rw [evalR_flip, ← hα]; exact hroot
    · show evalR (toQ (flipSigns f)) (-α) = 0
      rw [evalR_flip]; exact hroot
  | root f' l u =>
    have hden : (Alg.root (toQ (flipSigns f)) (-u) (-l)).Den (-α) := by
      refine ⟨?_, ?_, ?_⟩
      · push_cast; linarith [hd.2.1]
      · push_cast; linarith [hd.1]
      · rw [evalR_flip]; exact hroot
    refine ⟨hden, ⟨-α, hden, ?_⟩, rfl, ?_⟩
    · intro y hy
      have hy : (Alg.root (toQ (flipSigns f)) (-u) (-l)).Den y := hy
      have hy' : (Alg.root f' l u).Den (-y) := by
        refine ⟨?_, ?_, ?_⟩
        · have := hy.2.1; push_cast at this; linarith
        · have := hy.1; push_cast at this; linarith
        · have h3 := hy.2.2
          rw [evalR_flip'] at h3
          have : f' = toQ f := hwf
          rw [this]; exact h3
      have := hv.unique hy' hd
      linarith
    · show evalR (toQ (flipSigns f)) (-α) = 0
      rw [evalR_flip]; exact hroot

/-! ### inverse -/

theorem evalR_reverse (l : QPoly) (y : ℝ) (hy : y ≠ 0) :
    y ^ l.length * evalR l (1 / y) = y * evalR l.reverse y := by
  induction l with
  | nil => simp [evalR_nil]
  | cons c l ih =>
    rw [List.reverse_cons, evalR_append, evalR_cons, evalR_cons, evalR_nil, List.length_cons, List.length_reverse]
    have : y ^ (l.length + 1) * ((c : ℝ) + 1 / y * evalR l (1 / y)) =
        y ^ (l.length + 1) * c + y ^ l.length * evalR l (1 / y) := by
      rw [pow_succ]; field_simp
    rw [this, ih]; ring

theorem toQ_reverse (cs : List Int) : toQ cs.reverse = (toQ cs).reverse := by
  unfold toQ; rw [List.map_reverse]

/-- roots of the reversed polynomial are the inverses of the non-zero roots -/
theorem evalR_reverse_root (cs : List Int) (a : ℝ) (ha : a ≠ 0) :
    evalR (toQ cs.reverse) (1 / a) = 0 ↔ evalR (toQ cs) a = 0 := by
  have hy : (1 / a) ≠ 0 := one_div_ne_zero ha
  have h := evalR_reverse (toQ cs) (1 / a) hy
  rw [one_div_one_div] at h
  rw [toQ_reverse]
  constructor
  · intro h0
    rw [h0, mul_zero] at h
    rcases mul_eq_zero.1 h with h1 | h1
    · exact absurd (pow_eq_zero_iff (by
        intro hl; rw [hl] at h1; simp at h1) |>.1 h1) hy
    · exact h1
  · intro h0
    rw [h0, mul_zero] at h
    rcases mul_eq_zero.1 h.symm with h1 | h1
    · exact absurd h1 hy
    · exact h1

theorem awayFromZero_spec (f : QPoly) : ∀ (fuel : ℕ) (a a' : Alg) (α : ℝ), a.Valid → a.Den α → PolyOf a f →
    awayFromZero fuel a = some a' →
    a'.Valid ∧ a'.Den α ∧ PolyOf a' f ∧ (match a' with | .rat _ => True | .root _ l u => 0 < l ∨ u < 0) := by
  intro fuel
  induction fuel with
  | zero => intro a a' α _ _ _ h; simp [awayFromZero] at h
  | succ fuel ih =>
    intro a a' α hv hd hp h
    cases a with
    | rat q =>
      simp only [awayFromZero, Option.some.injEq] at h
      subst h
      exact ⟨hv, hd, hp, trivial⟩
    | root f' l u =>
      simp only [awayFromZero] at h
      by_cases hz : 0 < l ∨ u < 0
      · rw [if_pos hz] at h
        simp only [Option.some.injEq] at h
        subst h
        exact ⟨hv, hd, hp, hz⟩
      · rw [if_neg hz] at h
        cases hr : Alg.refine (.root f' l u) with
        | none => rw [hr] at h; simp at h
        | some a₁ =>
          rw [hr] at h
          simp only [Option.bind_some] at h
          obtain ⟨d1, v1⟩ := Alg.refine_sound _ a₁ α hv hd hr
          exact ih a₁ a' α v1 d1 (refine_polyOf _ a₁ f α hv hd hp hr) h

/-- **the inverse is exact** -/
theorem inv_sound (x xi : ZAlg) (α : ℝ) (hwf : x.WF) (hv : x.a.Valid) (hd : x.a.Den α) (h : inv x = some xi) :
    α ≠ 0 ∧ xi.a.Den (1 / α) ∧ xi.a.Valid ∧ xi.WF ∧ evalR (toQ xi.f) (1 / α) = 0 := by
  have hroot := polyOf_root x.a _ α hwf hd
  unfold inv at h
  simp only at h
  cases haw : awayFromZero 200 x.a with
  | none => rw [haw] at h; simp at h
  | some a' =>
    rw [haw] at h
    obtain ⟨v', d', p', hz⟩ := awayFromZero_spec (toQ x.f) 200 x.a a' α hv hd hwf haw
    cases a' with
    | rat q =>
      simp only at h
      by_cases hq : q = 0
      · rw [if_pos hq] at h; simp at h
      · rw [if_neg hq] at h
        simp only [Option.some.injEq] at h
        subst h
        have hα : α = (q : ℝ) := d'
        have hα0 : α ≠ 0 := by rw [hα]; exact_mod_cast hq
        have hr := (evalR_reverse_root x.f α hα0).2 hroot
        refine ⟨hα0, ?_, Alg.valid_rat _, ?_, hr⟩
        · show 1 / α = ((1 / q : ℚ) : ℝ); rw [hα]; push_cast; rfl
        · show evalR (toQ x.f.reverse) ((1 / q : ℚ) : ℝ) = 0
          push_cast; rw [← hα]; exact hr
    | root f' l u =>
      simp only [Option.some.injEq] at h
      subst h
      have hf' : f' = toQ x.f := p'
      obtain ⟨hl, hu, _⟩ := d'
      have hlu : (l : ℝ) < u := lt_trans hl hu
      have hsame : (0 : ℝ) < l ∨ (u : ℝ) < 0 := by
        rcases hz with hz | hz
        · left; exact_mod_cast hz
        · right; exact_mod_cast hz
      have hα0 : α ≠ 0 := by
        rcases hsame with hz | hz
        · exact ne_of_gt (lt_trans hz hl)
        · exact ne_of_lt (lt_trans hu hz)
      have hr := (evalR_reverse_root x.f α hα0).2 hroot
      -- x ↦ 1/x is strictly decreasing on an interval that avoids 0
      have inv_between : ∀ (a b c : ℝ), (0 < a ∨ c < 0) → a < b → b < c → 1 / c < 1 / b ∧ 1 / b < 1 / a := by
        intro a b c hs hab hbc
        rcases hs with hs | hs
        · have hb : 0 < b := lt_trans hs hab
          exact ⟨one_div_lt_one_div_of_lt hb hbc, one_div_lt_one_div_of_lt hs hab⟩
        · have hb : b < 0 := lt_trans hbc hs
          exact ⟨one_div_lt_one_div_of_neg_of_lt hs hbc, one_div_lt_one_div_of_neg_of_lt hb hab⟩
      have hden : (Alg.root (toQ x.f.reverse) (1 / u) (1 / l)).Den (1 / α) := by
        obtain ⟨h1, h2⟩ := inv_between l α u hsame hl hu
        exact ⟨by push_cast; exact h1, by push_cast; exact h2, hr⟩
      refine ⟨hα0, hden, ⟨1 / α, hden, ?_⟩, rfl, hr⟩
      intro y hy
      obtain ⟨hy1, hy2, hy3⟩ := hy
      push_cast at hy1 hy2
      have hl0 : (l : ℝ) ≠ 0 := by rcases hsame with hz | hz <;> [exact ne_of_gt hz; exact ne_of_lt (lt_trans hlu hz)]
      have hu0 : (u : ℝ) ≠ 0 := by rcases hsame with hz | hz <;> [exact ne_of_gt (lt_trans hz hlu); exact ne_of_lt hz]
      have hsame' : (0 : ℝ) < 1 / u ∨ 1 / (l : ℝ) < 0 := by
        rcases hsame with hz | hz
        · left; exact one_div_pos.2 (lt_trans hz hlu)
        · right; exact one_div_neg.2 (lt_trans hlu hz)
      have hy0 : y ≠ 0 := by
        rcases hsame' with hz | hz
        · exact ne_of_gt (lt_trans hz hy1)
        · exact ne_of_lt (lt_trans hy2 hz)
      obtain ⟨h1, h2⟩ := inv_between (1 / u) y (1 / l) hsame' hy1 hy2
      rw [one_div_one_div] at h1 h2
      have hy' : (Alg.root f' l u).Den (1 / y) := by
        refine ⟨h1, h2, ?_⟩
        rw [hf']
        have := (evalR_reverse_root x.f (1 / y) (one_div_ne_zero hy0)).1
        rw [one_div_one_div] at this
        exact this hy3
      have := v'.unique hy' ⟨hl, hu, by rw [hf']; exact hroot⟩
      rw [← this, one_div_one_div]

/-- **C07 (subtraction, as the driver checks it)**: `a + (−b) = r` accepted ⇒ ρ = α − β -/
theorem C07_sub_exact (a b r : ZAlg) (α β ρ : ℝ)
    (hwa : a.WF) (hva : a.a.Valid) (ha : a.a.Den α) (hwb : b.WF) (hvb : b.a.Valid) (hb : b.a.Den β)
    (hvr : r.a.Valid) (hr : r.a.Den ρ)
    (h : opEq .add a (neg b) r = some true) : ρ = α - β := by
  obtain ⟨dn, vn, _, rn⟩ := neg_sound b β hwb hvb hb
  have := C07_opEq_sound .add a (neg b) r α (-β) ρ hva ha vn dn hvr hr (polyOf_root _ _ α hwa ha) rn h
  simp only [opVal] at this
  linarith

/-- **C07 (division, as the driver checks it)**: `a · b⁻¹ = r` accepted ⇒ β ≠ 0 and ρ = α / β -/
theorem C07_div_exact (a b bi r : ZAlg) (α β ρ : ℝ)
    (hwa : a.WF) (hva : a.a.Valid) (ha : a.a.Den α) (hwb : b.WF) (hvb : b.a.Valid) (hb : b.a.Den β)
    (hvr : r.a.Valid) (hr : r.a.Den ρ) (hi : inv b = some bi)
    (h : opEq .mul a bi r = some true) : β ≠ 0 ∧ ρ = α / β := by
  obtain ⟨hβ, di, vi, _, ri⟩ := inv_sound b bi β hwb hvb hb hi
  have := C07_opEq_sound .mul a bi r α (1 / β) ρ hva ha vi di hvr hr (polyOf_root _ _ α hwa ha) ri h
  simp only [opVal] at this
  exact ⟨hβ, by rw [this]; ring⟩

/-- the representations the driver builds from the library's output are well-formed by construction -/
example (cs : List Int) (l u : ℚ) : (ZAlg.mk cs (.root (toQ cs) l u)).WF := rfl
example (q : ℚ) : (ofRat q).WF := by
  show evalR (toQ [-q.num, (q.den : Int)]) (q : ℝ) = 0
  simp only [toQ, List.map_cons, List.map_nil, evalR_cons, evalR_nil]
  have h : (q : ℝ) = (q.num : ℝ) / (q.den : ℝ) := by
    have := Rat.cast_def (K := ℝ) q; simpa using this
  have hd : (q.den : ℝ) ≠ 0 := by exact_mod_cast q.den_nz
  rw [h]; push_cast; field_simp; ring

end ZAlg
end LP

namespace LP
open QPoly MPoly
namespace ZAlg

/-! ### n-th roots -/

theorem evalR_replicate_zero (m : ℕ) (z : ℝ) : evalR (List.replicate m (0 : ℚ)) z = 0 := by
  induction m with
  | zero => exact evalR_nil z
  | succ m ih => rw [List.replicate_succ, evalR_cons, ih]; simp

theorem toQ_append (a b : List Int) : toQ (a ++ b) = toQ a ++ toQ b := by unfold toQ; rw [List.map_append]

theorem toQ_replicate_zero (m : ℕ) : toQ (List.replicate m 0) = List.replicate m (0 : ℚ) := by
  unfold toQ; rw [List.map_replicate]; rfl

theorem evalR_substPow_tail (n : ℕ) (hn : 0 < n) (z : ℝ) : ∀ (l : List Int) (k : ℕ), 0 < k →
    z * evalR (toQ ((l.zipIdx k).flatMap
      (fun (c : Int × Nat) => if c.2 = 0 then [c.1] else List.replicate (n - 1) 0 ++ [c.1]))) z =
    z ^ n * evalR (toQ l) (z ^ n) := by
  intro l
  induction l with
  | nil => intro k _; simp [toQ, evalR_nil]
  | cons c l ih =>
    intro k hk
    rw [List.zipIdx_cons, List.flatMap_cons]
    simp only
    rw [if_neg (by omega), toQ_append, toQ_append, evalR_append, evalR_append, toQ_replicate_zero,
      evalR_replicate_zero, zero_add]
    simp only [List.length_append, List.length_replicate]
    have hlen : (toQ [c]).length = 1 := rfl
    have h1 : toQ [c] = [(c : ℚ)] := rfl
    have hcons : toQ (c :: l) = (c : ℚ) :: toQ l := rfl
    have hn1 : n - 1 + 1 = n := by omega
    rw [hlen, hn1, h1, hcons, evalR_cons, evalR_cons, evalR_nil]
    have hz : z * z ^ (n - 1) = z ^ n := by
      rw [← pow_succ']; congr 1
    have ihk := ih (k + 1) (by omega)
    set R := evalR (toQ (List.flatMap (fun (c : Int × Nat) => if c.2 = 0 then [c.1] else List.replicate (n - 1) 0 ++ [c.1])
      (l.zipIdx (k + 1)))) z with hR
    calc z * (z ^ (n - 1) * (((c : ℚ) : ℝ) + z * 0) + z ^ n * R)
        = (z * z ^ (n - 1)) * ((c : ℚ) : ℝ) + z ^ n * (z * R) := by ring
      _ = _ := by rw [hz, ihk]; ring

/-- f(zⁿ) -/
theorem evalR_substPow (cs : List Int) (n : ℕ) (hn : 0 < n) (z : ℝ) :
    evalR (toQ (substPow cs n)) z = evalR (toQ cs) (z ^ n) := by
  unfold substPow
  cases cs with
  | nil => simp [toQ, evalR_nil]
  | cons c l =>
    rw [List.zipIdx_cons, List.flatMap_cons]
    simp only [if_true]
    rw [toQ_append, evalR_append]
    have h1 : toQ [c] = [(c : ℚ)] := rfl
    have hlen : (toQ [c]).length = 1 := rfl
    rw [hlen, pow_one, h1, evalR_cons, evalR_nil, evalR_substPow_tail n hn z l (0 + 1) (by omega)]
    have : toQ (c :: l) = (c : ℚ) :: toQ l := rfl
    rw [this, evalR_cons]; ring

/-- strong well-formedness (what `RawAlg.toZ` builds): points carry their linear polynomial -/
def WFs (x : ZAlg) : Prop :=
  match x.a with
  | .rat q => x.f = [-q.num, (q.den : Int)]
  | .root f' _ _ => f' = toQ x.f

theorem linear_root (q : ℚ) (z : ℝ) (h : evalR (toQ [-q.num, (q.den : Int)]) z = 0) : z = (q : ℝ) := by
  simp only [toQ, List.map_cons, List.map_nil, evalR_cons, evalR_nil] at h
  have hq : (q : ℝ) = (q.num : ℝ) / (q.den : ℝ) := by
    have := Rat.cast_def (K := ℝ) q; simpa using this
  have hd : (q.den : ℝ) ≠ 0 := by exact_mod_cast q.den_nz
  rw [hq, eq_div_iff hd]
  push_cast at h
  linarith

theorem lo_le_hi_den (a : Alg) (ρ : ℝ) (h : a.Den ρ) : (a.lo : ℝ) ≤ ρ ∧ ρ ≤ (a.hi : ℝ) := by
  cases a with
  | rat q => have : ρ = (q : ℝ) := h; rw [this]; exact ⟨le_refl _, le_refl _⟩
  | root f l u => exact ⟨le_of_lt h.1, le_of_lt h.2.1⟩

/-- **n-th roots are exact**: an accepted r is the non-negative real with rⁿ = α -/
theorem isRootN_sound (x : ZAlg) (n : ℕ) (hn : 0 < n) (α : ℝ) (hwf : x.WFs) (hvx : x.a.Valid) (hx : x.a.Den α) :
    ∀ (fuel : ℕ) (r : ZAlg) (ρ : ℝ), r.a.Valid → r.a.Den ρ → isRootN x r n fuel = some true → 0 ≤ ρ ∧ ρ ^ n = α := by
  intro fuel
  induction fuel with
  | zero => intro r ρ _ _ h; simp [isRootN] at h
  | succ fuel ih =>
    intro r ρ hvr hr h
    rw [isRootN] at h
    cases hs : Alg.sgn r.a with
    | none => rw [hs] at h; simp at h
    | some s =>
      rw [hs] at h
      simp only at h
      by_cases hneg : s < 0
      · rw [if_pos hneg] at h; simp at h
      rw [if_neg hneg] at h
      have hρ : 0 ≤ ρ := by
        have := Alg.sgn_sound r.a s ρ hvr hr hs
        rcases this with ⟨h1, _⟩ | ⟨_, h2⟩ | ⟨_, h2⟩
        · omega
        · exact le_of_eq h2.symm
        · exact le_of_lt h2
      refine ⟨hρ, ?_⟩
      obtain ⟨f, a⟩ := x
      cases a with
      | rat q =>
        simp only at h
        have hroot := isRootOf_sound _ r.a ρ hvr hr h
        rw [evalR_substPow _ n hn] at hroot
        have hf : f = [-q.num, (q.den : Int)] := hwf
        rw [hf] at hroot
        have hα : α = (q : ℝ) := hx
        rw [hα]; exact linear_root q _ hroot
      | root f' l u =>
        simp only at h
        cases hir : Alg.isRootOf (toQ (substPow f n)) r.a with
        | none => rw [hir] at h; simp at h
        | some b =>
          rw [hir] at h
          cases b with
          | false => simp at h
          | true =>
            simp only at h
            have hroot := isRootOf_sound _ r.a ρ hvr hr hir
            rw [evalR_substPow _ n hn] at hroot
            by_cases hin : l < r.a.lo ^ n ∧ r.a.hi ^ n < u ∧ 0 ≤ r.a.lo
            · obtain ⟨h1, h2, h3⟩ := hin
              obtain ⟨hlo, hhi⟩ := lo_le_hi_den r.a ρ hr
              have h3' : (0 : ℝ) ≤ (r.a.lo : ℝ) := by exact_mod_cast h3
              have hl : (l : ℝ) < ρ ^ n := by
                have : ((l : ℚ) : ℝ) < ((r.a.lo ^ n : ℚ) : ℝ) := by exact_mod_cast h1
                push_cast at this
                exact lt_of_lt_of_le this (pow_le_pow_left₀ h3' hlo n)
              have hu : ρ ^ n < (u : ℝ) := by
                have : ((r.a.hi ^ n : ℚ) : ℝ) < ((u : ℚ) : ℝ) := by exact_mod_cast h2
                push_cast at this
                exact lt_of_le_of_lt (pow_le_pow_left₀ hρ hhi n) this
              have hf : f' = toQ f := hwf
              exact hvx.unique ⟨hl, hu, by rw [hf]; exact hroot⟩ hx
            · rw [if_neg hin] at h
              by_cases hout : (0 ≤ r.a.lo ∧ u ≤ r.a.lo ^ n) ∨ (0 ≤ r.a.lo ∧ r.a.hi ^ n ≤ l)
              · rw [if_pos hout] at h; simp at h
              rw [if_neg hout] at h
              cases hrf : Alg.refine r.a with
              | none => rw [hrf] at h; simp at h
              | some a' =>
                rw [hrf] at h
                simp only [Option.bind_some] at h
                obtain ⟨d', v'⟩ := Alg.refine_sound r.a a' ρ hvr hr hrf
                exact (ih ⟨r.f, a'⟩ ρ v' d' h).2

end ZAlg
end LP
