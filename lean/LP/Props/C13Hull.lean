/-
  C13 — `lp_feasibility_set_to_interval` returns an interval that contains every number of the set (`C13_toInterval`):
  it runs from the lower bound of the first interval to the upper bound of the last one, and in a normal form every
  interval lies above the first and below the last.
-/
import LP.Props.C13Obs

set_option linter.unusedSectionVars false

namespace LP
namespace FSet
open VI

variable {α : Type*} [Field α] [LinearOrder α] [IsStrictOrderedRing α]

theorem upperOK_mono (e : EP) (o : Bool) (x y : α) (h : upperOK e o y) (hxy : x ≤ y) : upperOK e o x := by
  rcases e with _ | q | _
  · exact h
  · simp only [upperOK] at h ⊢
    cases o <;> simp only [Bool.false_eq_true, if_false, if_true] at h ⊢ <;> linarith
  · trivial

/-- a number that respects a lower and an upper bound lies in the interval constructed from them (also when the
    construction collapses to a point) -/
theorem construct_mem (a u : EP) (ao bo : Bool) (x : α) (h1 : lowerOK a ao x) (h2 : upperOK u bo x) :
    (construct a ao u bo).Mem x := by
  by_cases hc : EP.cmp a u = 0
  · have he : a = u := (EP.cmp_eq_zero _ _).1 hc
    subst he
    unfold construct
    rw [if_pos hc, mem_point]
    rcases a with _ | q | _
    · exact absurd h2 id
    · simp only [lowerOK, upperOK] at h1 h2 ⊢
      simp only [Bool.false_eq_true, if_false]
      have e1 : (q : α) ≤ x := by cases ao <;> simp only [Bool.false_eq_true, if_false, if_true] at h1 <;> linarith
      have e2 : x ≤ (q : α) := by cases bo <;> simp only [Bool.false_eq_true, if_false, if_true] at h2 <;> linarith
      exact ⟨e1, e2⟩
    · exact absurd h1 id
  · exact (mem_construct a u ao bo hc x).2 ⟨h1, h2⟩

/-- **the interval returned for a set in normal form contains the set** -/
theorem C13_toInterval (s : List VI) (hn : NFs s) (H : VI) (h : FSet.toInterval s = some H) (x : α)
    (hx : SetMem α s x) : H.Mem x := by
  have hp := nfs_pairwise_sep (α := α) s hn
  obtain ⟨I, hI, hxI⟩ := hx
  unfold toInterval at h
  cases s with
  | nil => simp at hI
  | cons f r =>
    have hl : (f :: r).getLast? = some ((f :: r).getLast (by simp)) := List.getLast?_eq_some_getLast (by simp)
    simp only [List.head?_cons, hl, Option.some.injEq] at h
    subst h
    set l := (f :: r).getLast (by simp) with hldef
    refine construct_mem _ _ _ _ x ?_ ?_
    · -- above the lower bound of the first interval
      rcases List.mem_cons.1 hI with rfl | hIr
      · exact hxI.1
      · obtain ⟨y, hy⟩ := wf_nonempty (α := α) f (hn.1 f (by simp))
        have hs : Sep α f I := (List.pairwise_cons.1 hp).1 I hIr
        exact lowerOK_mono _ _ y x hy.1 (hs y x hy hxI).le
    · -- below the upper bound of the last interval
      have hsplit : f :: r = (f :: r).dropLast ++ [l] := (List.dropLast_append_getLast (by simp)).symm
      rw [hsplit] at hI hp
      rcases List.mem_append.1 hI with hId | hIl
      · have hlm : l ∈ f :: r := List.getLast_mem _
        obtain ⟨y, hy⟩ := wf_nonempty (α := α) l (hn.1 l hlm)
        have hs : Sep α I l := (List.pairwise_append.1 hp).2.2 I hId l (by simp)
        exact upperOK_mono _ _ x y hy.2 (hs x y hxI hy).le
      · rw [List.mem_singleton] at hIl
        subst hIl
        exact hxI.2

end FSet
end LP
