#!/usr/bin/env python3
"""Translator for table-shaped C code (second tie between model and source).

Reads /repo/src/utils/sign_condition.c through clang's JSON AST and writes lean/LP/Gen/SignCondition.lean: one Lean
definition per C function, obtained mechanically from the statement tree (switch / case / default / return / if / local
assignment; integer comparisons, && and ||, enum constants, struct members of the interval argument, calls to
lp_value_sgn on an end point and to other translated functions).  Every C int is a Lean Int; a C condition `e` is `e ≠ 0`.
The theorems in LP/Props/GenTables.lean relate the generated definitions to the hand-written model on the whole (finite or
symbolic) domain, so a change of a table entry in the C source breaks a proof obligation on the next run.

Anything outside the supported fragment raises Unsupported: the check then reports that the translation tie is broken."""
import json, os, subprocess, sys

REPO = os.environ.get("LPV_REPO", "/repo")
ROOT = os.path.dirname(os.path.dirname(os.path.abspath(__file__)))
OUT = os.path.join(ROOT, "lean", "LP", "Gen", "SignCondition.lean")
SRC = os.path.join(REPO, "src", "utils", "sign_condition.c")
FUNCS = ["lp_sign_condition_negate", "lp_sign_condition_consistent", "lp_sign_condition_consistent_interval", "lp_sign_condition_Zp_valid"]
LEAN_NAME = {"lp_sign_condition_negate": "negate", "lp_sign_condition_consistent": "consistent",
             "lp_sign_condition_consistent_interval": "consistentInterval", "lp_sign_condition_Zp_valid": "zpValid"}
ENUM = ["LP_SGN_LT_0", "LP_SGN_LE_0", "LP_SGN_EQ_0", "LP_SGN_NE_0", "LP_SGN_GT_0", "LP_SGN_GE_0"]


class Unsupported(Exception):
    pass


def gen_inc():
    """include/version.h is produced by cmake's configure step; a tree without it gets a stand-in (see lpv.gen_includes)"""
    if os.path.exists(os.path.join(REPO, "include", "version.h")):
        return []
    import tempfile
    g = os.path.join(tempfile.gettempdir(), "lpv_gen_%d" % os.getpid())
    os.makedirs(g, exist_ok=True)
    import atexit, shutil
    atexit.register(shutil.rmtree, g, True)
    with open(os.path.join(g, "version.h"), "w") as f:
        f.write("#pragma once\n#define LIBPOLY_VERSION_MAJOR 0\n#define LIBPOLY_VERSION_MINOR 0\n#define LIBPOLY_VERSION_PATCH 0\n")
    return ["-I" + g]


def clang_json(filt, src=None):
    cmd = ["clang-14", "-fsyntax-only", "-DNDEBUG", "-Xclang", "-ast-dump=json", "-Xclang", "-ast-dump-filter=" + filt,
           "-I" + os.path.join(REPO, "include"), "-I" + os.path.join(REPO, "src")] + gen_inc() + [src or SRC]
    r = subprocess.run(cmd, capture_output=True, text=True)
    txt = r.stdout
    dec = json.JSONDecoder()
    i = 0
    objs = []
    while i < len(txt):
        while i < len(txt) and txt[i].isspace():
            i += 1
        if i >= len(txt):
            break
        o, i = dec.raw_decode(txt, i)
        objs.append(o)
    return objs


def enum_values():
    """values of the enum constants, from the EnumDecl itself (so a re-ordering of the enum is seen)"""
    vals = {}
    for o in clang_json("lp_sign_condition_enum"):
        if o.get("kind") == "EnumDecl":
            nxt = 0
            for c in o.get("inner", []):
                if c.get("kind") != "EnumConstantDecl":
                    continue
                v = nxt
                for e in c.get("inner", []):
                    lit = find_int_literal(e)
                    if lit is not None:
                        v = lit
                vals[c["name"]] = v
                nxt = v + 1
    if sorted(vals) != sorted(ENUM):
        raise Unsupported("enum lp_sign_condition_enum has constants %s" % sorted(vals))
    return vals


def probe_enum_values(header, names):
    """values of enum constants of an anonymous enum: a probe translation unit re-declares them as initialisers, clang evaluates"""
    import tempfile
    with tempfile.NamedTemporaryFile("w", suffix=".c", delete=False) as f:
        f.write("#include <%s>\nenum lpv_probe_enum { %s };\n" % (header, ", ".join("lpv_probe_%d = %s" % (i, n) for i, n in enumerate(names))))
        path = f.name
    try:
        vals = {}
        for o in clang_json("lpv_probe_enum", path):
            if o.get("kind") == "EnumDecl":
                for c in o.get("inner", []):
                    if c.get("kind") == "EnumConstantDecl" and c["name"].startswith("lpv_probe_"):
                        v = find_int_literal(c)
                        if v is None:
                            raise Unsupported("enum constant without a value")
                        vals[names[int(c["name"][len("lpv_probe_"):])]] = v
        return vals
    finally:
        os.unlink(path)


def find_int_literal(n):
    if n.get("kind") == "IntegerLiteral":
        return int(n["value"])
    if n.get("kind") == "ConstantExpr" and "value" in n:
        return int(n["value"])
    for c in n.get("inner", []):
        v = find_int_literal(c)
        if v is not None:
            return v
    return None


def strip(n):
    while n.get("kind") in ("ImplicitCastExpr", "ParenExpr", "ConstantExpr") and n.get("inner"):
        n = n["inner"][0]
    return n


class Fn:
    def __init__(self, decl, enums, spec=None):
        self.decl = decl
        self.enums = enums
        self.spec = spec or {}
        self.sym = {}          # pointer-valued locals -> symbolic name
        self.params = [c["name"] for c in decl["inner"] if c.get("kind") == "ParmVarDecl"]
        self.body = [c for c in decl["inner"] if c.get("kind") == "CompoundStmt"][0]
        self.uses_interval = "I" in self.params

    # ---------------- expressions (all of type Int)
    def expr(self, n):
        n = strip(n)
        k = n.get("kind")
        if k == "IntegerLiteral":
            return "(%s : Int)" % n["value"]
        if k == "DeclRefExpr":
            rd = n["referencedDecl"]
            if rd["kind"] == "EnumConstantDecl":
                return "(%d : Int)" % self.enums[rd["name"]]
            if rd["kind"] in ("ParmVarDecl", "VarDecl"):
                return rd["name"]
            raise Unsupported("reference to " + rd["kind"])
        if k == "MemberExpr":
            base = strip(n["inner"][0])
            if base.get("kind") == "DeclRefExpr" and "members" in self.spec:
                key = (base["referencedDecl"]["name"], n["name"])
                if key in self.spec["members"]:
                    return self.spec["members"][key]
                raise Unsupported("member %s->%s" % key)
            if base.get("kind") == "DeclRefExpr" and base["referencedDecl"]["name"] == "I" and n["name"] in ("is_point", "a_open", "b_open"):
                return {"is_point": "isPoint", "a_open": "aOpen", "b_open": "bOpen"}[n["name"]]
            raise Unsupported("member " + n.get("name", "?"))
        if k == "CallExpr":
            callee = strip(n["inner"][0])["referencedDecl"]["name"]
            args = n["inner"][1:]
            if "calls" in self.spec:
                key = (callee,) + tuple(self.symbol(a) for a in args)
                if key in self.spec["calls"]:
                    return self.spec["calls"][key]
                raise Unsupported("call %s%s" % (callee, key[1:]))
            if callee == "lp_value_sgn" and len(args) == 1:
                a = strip(args[0])
                if a.get("kind") == "UnaryOperator" and a.get("opcode") == "&":
                    m = strip(a["inner"][0])
                    if m.get("kind") == "MemberExpr" and m["name"] in ("a", "b") and strip(m["inner"][0])["referencedDecl"]["name"] == "I":
                        return {"a": "sgnA", "b": "sgnB"}[m["name"]]
                raise Unsupported("lp_value_sgn of something else than an end point of I")
            if callee in LEAN_NAME and callee != "lp_sign_condition_consistent_interval":
                return "(%s %s)" % (LEAN_NAME[callee], " ".join(self.expr(a) for a in args))
            raise Unsupported("call to " + callee)
        if k == "BinaryOperator":
            op = n["opcode"]
            a, b = self.expr(n["inner"][0]), self.expr(n["inner"][1])
            if op in ("<", "<=", ">", ">=", "==", "!="):
                lop = {"<": "<", "<=": "≤", ">": ">", ">=": "≥", "==": "=", "!=": "≠"}[op]
                return "(if %s %s %s then (1 : Int) else 0)" % (a, lop, b)
            if op == "||":
                return "(if %s ≠ 0 ∨ %s ≠ 0 then (1 : Int) else 0)" % (a, b)
            if op == "&&":
                return "(if %s ≠ 0 ∧ %s ≠ 0 then (1 : Int) else 0)" % (a, b)
            raise Unsupported("binary operator " + op)
        if k == "UnaryOperator" and n.get("opcode") == "-":
            return "(-%s)" % self.expr(n["inner"][0])
        if k == "UnaryOperator" and n.get("opcode") == "!":
            return "(if %s ≠ 0 then (0 : Int) else 1)" % self.expr(n["inner"][0])
        raise Unsupported("expression " + str(k))

    def symbol(self, n):
        """symbolic name of a pointer-valued argument: a parameter, a pointer local, or a call producing a bound"""
        n = strip(n)
        if n.get("kind") == "DeclRefExpr":
            nm = n["referencedDecl"]["name"]
            return self.sym.get(nm, nm)
        if n.get("kind") == "CallExpr":
            callee = strip(n["inner"][0])["referencedDecl"]["name"]
            return callee + "(" + ",".join(self.symbol(a) for a in n["inner"][1:]) + ")"
        raise Unsupported("pointer expression " + str(n.get("kind")))

    @staticmethod
    def has_return(n):
        if n.get("kind") == "ReturnStmt":
            return True
        return any(Fn.has_return(c) for c in n.get("inner", []))

    # ---------------- statements: a list of statements is translated with the continuation `rest`
    def flat(self, stmt):
        return stmt["inner"] if stmt.get("kind") == "CompoundStmt" else [stmt]

    def stmts(self, lst, ind):
        pad = "  " * ind
        if not lst:
            raise Unsupported("control reaches the end of a non-void function")
        s, rest = lst[0], lst[1:]
        k = s.get("kind")
        if k == "NullStmt":
            return self.stmts(rest, ind)
        if k in ("ParenExpr", "CStyleCastExpr"):           # `(void)0` left by assert() under NDEBUG
            if find_int_literal(s) == 0 and not Fn.has_return(s):
                return self.stmts(rest, ind)
            raise Unsupported("expression statement")
        if k == "IfStmt" and self.spec.get("skip_if_param"):
            c = strip(s["inner"][0])
            if c.get("kind") == "DeclRefExpr" and c["referencedDecl"]["name"] == self.spec["skip_if_param"] and len(s["inner"]) == 2:
                # construction of the optional output: no influence on the classification as long as it cannot return
                if Fn.has_return(s["inner"][1]):
                    raise Unsupported("return inside the optional-output block")
                return self.stmts(rest, ind)
        if k == "ReturnStmt":
            return pad + self.expr(s["inner"][0])
        if k == "CompoundStmt":
            return self.stmts(s.get("inner", []) + rest, ind)
        if k == "DeclStmt":
            out = []
            for v in s["inner"]:
                if v.get("kind") != "VarDecl":
                    raise Unsupported("declaration " + v.get("kind", "?"))
                init = [c for c in v.get("inner", [])]
                if "*" in v.get("type", {}).get("qualType", ""):
                    if not init:
                        raise Unsupported("uninitialised pointer local")
                    self.sym[v["name"]] = self.symbol(init[0])
                    continue
                out.append(pad + "let %s : Int := %s" % (v["name"], self.expr(init[0]) if init else "0"))
            return "\n".join(out) + ("\n" if out else "") + self.stmts(rest, ind)
        if k == "BinaryOperator" and s.get("opcode") == "=":
            lhs = strip(s["inner"][0])
            if lhs.get("kind") != "DeclRefExpr" or lhs["referencedDecl"]["kind"] != "VarDecl":
                raise Unsupported("assignment to a non-local")
            return pad + "let %s : Int := %s\n" % (lhs["referencedDecl"]["name"], self.expr(s["inner"][1])) + self.stmts(rest, ind)
        if k == "IfStmt":
            inner = s["inner"]
            cond, thn = inner[0], inner[1]
            els = inner[2] if len(inner) > 2 else None
            r = pad + "if %s ≠ 0 then\n" % self.expr(cond) + self.stmts(self.flat(thn) + rest, ind + 1) + "\n" + pad + "else\n"
            r += self.stmts((self.flat(els) if els else []) + rest, ind + 1)
            return r
        if k == "SwitchStmt":
            scrut = self.expr(s["inner"][0])
            body = [c for c in s["inner"] if c.get("kind") == "CompoundStmt"][0]
            # flatten labels: list of (labels or None for plain statement, stmt)
            items = []

            def add(n):
                if n.get("kind") == "CaseStmt":
                    items.append(("case", find_case_value(n["inner"][0], self.enums)))
                    add(n["inner"][1])
                elif n.get("kind") == "DefaultStmt":
                    items.append(("default", None))
                    add(n["inner"][0])
                else:
                    items.append(("stmt", n))
            for c in body.get("inner", []):
                add(c)
            # for every label: the statements from there to the end of the switch (fall-through), cut at `break`
            def tail(i):
                out = []
                for kind, v in items[i:]:
                    if kind == "stmt":
                        if v.get("kind") == "BreakStmt":
                            return out + rest
                        out.append(v)
                        if v.get("kind") == "ReturnStmt":
                            return out
                return out + rest
            chain = ""
            default_i = None
            cases = []
            for i, (kind, v) in enumerate(items):
                if kind == "case":
                    cases.append((v, i))
                elif kind == "default":
                    default_i = i
            for v, i in cases:
                chain += pad + "if %s = (%d : Int) then\n" % (scrut, v) + self.stmts(tail(i + 1), ind + 1) + "\n" + pad + "else\n"
            chain += self.stmts(tail(default_i + 1) if default_i is not None else rest, ind)
            return chain
        raise Unsupported("statement " + str(k))

    def lean(self):
        name = self.spec.get("name") or LEAN_NAME[self.decl["name"]]
        ps = []
        if "lean_params" in self.spec:
            ps = list(self.spec["lean_params"])
        else:
            for p in self.params:
                if p == "I":
                    ps += ["isPoint", "sgnA", "sgnB", "aOpen", "bOpen"]
                else:
                    ps.append(p)
        sig = "def %s %s : Int :=\n" % (name, " ".join("(%s : Int)" % p for p in ps))
        return sig + self.stmts(self.body.get("inner", []), 1) + "\n"


def find_case_value(n, enums):
    n0 = strip(n)
    if n0.get("kind") == "DeclRefExpr" and n0["referencedDecl"]["kind"] == "EnumConstantDecl":
        return enums[n0["referencedDecl"]["name"]]
    v = find_int_literal(n)
    if v is None:
        raise Unsupported("case label")
    return v


def generate():
    enums = enum_values()
    parts = ["/-\n  GENERATED by tools/translate_tables.py from src/utils/sign_condition.c (clang JSON AST) — do not edit.\n"
             "  C ints are Lean Ints; a C condition e is `e ≠ 0`; the interval argument I is passed as its fields\n"
             "  (is_point, sign of the lower end, sign of the upper end, a_open, b_open).\n-/\nnamespace LP\nnamespace Gen\n"]
    parts.append("/-- values of `enum lp_sign_condition_enum` as found in the header -/\n"
                 "def enumValues : List Int := [%s]\n" % ", ".join(str(enums[e]) for e in ENUM))
    order = ["lp_sign_condition_negate", "lp_sign_condition_consistent", "lp_sign_condition_Zp_valid", "lp_sign_condition_consistent_interval"]
    for f in order:
        decls = [o for o in clang_json(f) if o.get("kind") == "FunctionDecl" and o.get("name") == f and
                 any(c.get("kind") == "CompoundStmt" for c in o.get("inner", []))]
        if len(decls) != 1:
            raise Unsupported("definition of %s not found exactly once" % f)
        parts.append(Fn(decls[0], enums).lean())
    parts.append("end Gen\nend LP\n")
    return "\n".join(parts)


ICMP_ENUM = ["LP_INTERVAL_CMP_LT_NO_INTERSECT", "LP_INTERVAL_CMP_LT_WITH_INTERSECT", "LP_INTERVAL_CMP_LT_WITH_INTERSECT_I1",
             "LP_INTERVAL_CMP_LEQ_WITH_INTERSECT_I2", "LP_INTERVAL_CMP_EQ", "LP_INTERVAL_CMP_GEQ_WITH_INTERSECT_I1",
             "LP_INTERVAL_CMP_GT_WITH_INTERSECT_I2", "LP_INTERVAL_CMP_GT_WITH_INTERSECT", "LP_INTERVAL_CMP_GT_NO_INTERSECT"]
OUT2 = os.path.join(ROOT, "lean", "LP", "Gen", "IntervalCmp.lean")
SRC2 = os.path.join(REPO, "src", "interval", "interval.c")


def generate_icmp():
    """classification part of lp_interval_cmp_with_intersect (src/interval/interval.c); the blocks guarded by `if (P)` only build
    the optional intersection and are skipped after checking that they cannot return"""
    vals = probe_enum_values("interval.h", ICMP_ENUM)
    if not all(k in vals for k in ICMP_ENUM):
        raise Unsupported("enum of lp_interval_cmp_t not found (%s)" % sorted(vals))
    f = "lp_interval_cmp_with_intersect"
    decls = [o for o in clang_json(f, SRC2) if o.get("kind") == "FunctionDecl" and o.get("name") == f and
             any(c.get("kind") == "CompoundStmt" for c in o.get("inner", []))]
    if len(decls) != 1:
        raise Unsupported("definition of %s not found exactly once" % f)
    spec = {
        "name": "intervalCmp",
        "lean_params": ["cmpUb", "cmpLb", "cmpUb1Lb2", "cmpLb1Ub2", "aOpen1", "bOpen1", "aOpen2", "bOpen2"],
        "members": {("I1", "a_open"): "aOpen1", ("I1", "b_open"): "bOpen1", ("I2", "a_open"): "aOpen2", ("I2", "b_open"): "bOpen2"},
        "calls": {("lp_interval_cmp_upper_bounds", "I1", "I2"): "cmpUb",
                  ("lp_interval_cmp_lower_bounds", "I1", "I2"): "cmpLb",
                  ("lp_value_cmp", "lp_interval_get_upper_bound(I1)", "lp_interval_get_lower_bound(I2)"): "cmpUb1Lb2",
                  ("lp_value_cmp", "lp_interval_get_lower_bound(I1)", "lp_interval_get_upper_bound(I2)"): "cmpLb1Ub2"},
        "skip_if_param": "P",
    }
    parts = ["/-\n  GENERATED by tools/translate_tables.py from src/interval/interval.c (lp_interval_cmp_with_intersect, classification\n"
             "  part; clang JSON AST) — do not edit.  Arguments: the two bound comparisons, the comparisons of I1's upper with I2's lower\n"
             "  bound and of I1's lower with I2's upper bound, and the strictness flags.\n-/\nnamespace LP\nnamespace Gen\n"]
    parts.append("/-- values of `lp_interval_cmp_t` as found in the header, in the order LT_NO, LT_WITH, LT_WITH_I1, LEQ_WITH_I2, EQ,\n"
                 "    GEQ_WITH_I1, GT_WITH_I2, GT_WITH, GT_NO -/\n"
                 "def icmpEnumValues : List Int := [%s]\n" % ", ".join(str(vals[e]) for e in ICMP_ENUM))
    parts.append(Fn(decls[0], vals, spec).lean())
    # the two bound comparisons the classification starts from
    for f, lname, which, flag in (("lp_interval_cmp_lower_bounds", "cmpLowerBounds", "lower", "a_open"),
                                  ("lp_interval_cmp_upper_bounds", "cmpUpperBounds", "upper", "b_open")):
        decls = [o for o in clang_json(f, SRC2) if o.get("kind") == "FunctionDecl" and o.get("name") == f and
                 any(c.get("kind") == "CompoundStmt" for c in o.get("inner", []))]
        if len(decls) != 1:
            raise Unsupported("definition of %s not found exactly once" % f)
        sp = {"name": lname, "lean_params": ["cmpBounds", "open1", "open2"],
              "members": {("I1", flag): "open1", ("I2", flag): "open2"},
              "calls": {("lp_value_cmp", "lp_interval_get_%s_bound(I1)" % which, "lp_interval_get_%s_bound(I2)" % which): "cmpBounds"}}
        parts.append(Fn(decls[0], vals, sp).lean())
    parts.append("end Gen\nend LP\n")
    return "\n".join(parts)


def write_if_changed(path, txt):
    os.makedirs(os.path.dirname(path), exist_ok=True)
    old = open(path).read() if os.path.exists(path) else None
    if old != txt:
        open(path, "w").write(txt)
    print("generated %s (%s)" % (path, "unchanged" if old == txt else "updated"))


def main():
    try:
        txt = generate()
        txt2 = generate_icmp()
    except Unsupported as e:
        print("TRANSLATOR-UNSUPPORTED: " + str(e))
        return 3
    write_if_changed(OUT, txt)
    write_if_changed(OUT2, txt2)
    return 0


if __name__ == "__main__":
    sys.exit(main())
