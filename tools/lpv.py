"""Shared machinery for the libpoly Lean-model checks.

Every check:  rebuild libpoly from /repo's working tree (sanitised, guard on) ->
build the Lean library + native driver -> audit the property theorems (axioms,
forbidden tokens) -> run the C harness on the real code -> replay every observation
through the Lean model/validator -> classify -> evidence + VIOLATION lines.
"""
import hashlib, json, os, re, shutil, subprocess, sys, tempfile, time, fcntl

VERIF = os.path.dirname(os.path.dirname(os.path.abspath(__file__)))
REPO = os.environ.get("LPV_REPO", "/repo")
LEAN = os.path.join(VERIF, "lean")
HARNESS = os.path.join(VERIF, "harness")
CACHE = os.environ.get("LPV_CACHE", os.path.join(VERIF, ".cache"))     # sanitised library builds (content addressed)
LOCKDIR = os.path.join(VERIF, ".cache")                                  # lake is serialised across concurrent checks
GUARD = "LIBPOLY_VERIF"
ALLOWED_AXIOMS = {"propext", "Classical.choice", "Quot.sound"}
FORBIDDEN = re.compile(r"\bsorry\b|\badmit\b|^\s*axiom\s|native_decide|bv_decide|implemented_by|\bunsafe\s|maxHeartbeats\s+0\b")

CFLAGS = ["-O1", "-g", "-DNDEBUG", "-D" + GUARD, "-fsanitize=address,undefined",
          "-fno-sanitize-recover=undefined", "-fno-omit-frame-pointer", "-w"]


def log(*a):
    print(*a, file=sys.stderr, flush=True)


def run(cmd, **kw):
    return subprocess.run(cmd, stdout=subprocess.PIPE, stderr=subprocess.STDOUT, text=True, **kw)


# --------------------------------------------------------------------------- C side
def poly_sources():
    txt = open(os.path.join(REPO, "src/CMakeLists.txt")).read()
    def block(name):
        m = re.search(r"set\(%s\s+(.*?)\)" % name, txt, re.S)
        return [l.strip() for l in m.group(1).split() if l.strip()]
    return block("poly_SOURCES"), block("polyxx_SOURCES")


def tree_hash():
    h = hashlib.sha256()
    h.update(" ".join(CFLAGS).encode())
    for root in ("src", "include"):
        for dp, dn, fn in sorted(os.walk(os.path.join(REPO, root))):
            dn.sort()
            for f in sorted(fn):
                p = os.path.join(dp, f)
                h.update(p.encode())
                with open(p, "rb") as fh:
                    h.update(fh.read())
    return h.hexdigest()[:20]


def build_lib():
    """Compile /repo's working tree (C library + C++ wrappers) with sanitizers.
    Content-addressed cache under /verif/.cache so that the 20 checks of one run
    share one compilation; a changed source file gives a new key."""
    os.makedirs(CACHE, exist_ok=True)
    key = tree_hash()
    d = os.path.join(CACHE, "lib-" + key)
    lock = open(os.path.join(CACHE, "lock"), "w")
    fcntl.flock(lock, fcntl.LOCK_EX)
    try:
        if os.path.exists(os.path.join(d, "ok")):
            return d
        # drop older caches (disk is limited)
        for e in os.listdir(CACHE):
            if e.startswith("lib-") and e != "lib-" + key:
                shutil.rmtree(os.path.join(CACHE, e), ignore_errors=True)
        shutil.rmtree(d, ignore_errors=True)
        os.makedirs(d)
        csrc, cxxsrc = poly_sources()
        inc = ["-I" + os.path.join(REPO, "include"), "-I" + os.path.join(REPO, "src")]
        jobs = []
        for s in csrc:
            o = os.path.join(d, s.replace("/", "_") + ".o")
            jobs.append((["gcc", "-std=gnu99"] + CFLAGS + ["-DHAVE_OPEN_MEMSTREAM"] + inc + ["-c", os.path.join(REPO, "src", s), "-o", o], o))
        for s in cxxsrc:
            o = os.path.join(d, s.replace("/", "_") + ".o")
            jobs.append((["g++", "-std=c++11"] + CFLAGS + inc + ["-c", os.path.join(REPO, "src", s), "-o", o], o))
        procs = []
        objs = []
        failed = None
        maxp = 16
        pending = list(jobs)
        while pending or procs:
            while pending and len(procs) < maxp:
                cmd, o = pending.pop(0)
                procs.append((subprocess.Popen(cmd, stdout=subprocess.PIPE, stderr=subprocess.STDOUT, text=True), cmd, o))
            p, cmd, o = procs.pop(0)
            out, _ = p.communicate()
            if p.returncode != 0:
                failed = (cmd, out)
            objs.append(o)
        if failed:
            raise RuntimeError("libpoly does not compile: %s\n%s" % (" ".join(failed[0]), failed[1][-3000:]))
        cobjs = [o for o in objs if not os.path.basename(o).startswith("polyxx_")]
        xobjs = [o for o in objs if os.path.basename(o).startswith("polyxx_")]
        subprocess.check_call(["ar", "rcs", os.path.join(d, "libpoly.a")] + cobjs)
        subprocess.check_call(["ar", "rcs", os.path.join(d, "libpolyxx.a")] + xobjs)
        for o in objs:
            os.remove(o)
        open(os.path.join(d, "ok"), "w").write(key)
        return d
    finally:
        fcntl.flock(lock, fcntl.LOCK_UN)
        lock.close()


def build_harness(name, libdir, scratch):
    src_c = os.path.join(HARNESS, name + ".c")
    src_cc = os.path.join(HARNESS, name + ".cpp")
    exe = os.path.join(scratch, name)
    inc = ["-I" + os.path.join(REPO, "include"), "-I" + os.path.join(REPO, "src"), "-I" + HARNESS]
    shim = os.path.join(HARNESS, name + "_shim.cpp")
    if os.path.exists(src_c) and os.path.exists(shim):
        # C harness with a C++ companion (calls into the polyxx wrappers): compile both, link with g++
        o1 = os.path.join(scratch, name + ".o"); o2 = os.path.join(scratch, name + "_shim.o")
        r = run(["gcc", "-std=gnu99"] + CFLAGS + ["-DHAVE_OPEN_MEMSTREAM", "-DLPV_HAVE_CXX_SHIM"] + inc + ["-c", src_c, "-o", o1])
        if r.returncode == 0:
            r = run(["g++", "-std=c++11"] + CFLAGS + inc + ["-I" + os.path.join(REPO, "include", "polyxx"), "-c", shim, "-o", o2])
        if r.returncode != 0:
            raise RuntimeError("harness %s does not compile against the current tree:\n%s" % (name, r.stdout[-4000:]))
        cmd = ["g++"] + CFLAGS + [o1, o2, os.path.join(libdir, "libpolyxx.a"), os.path.join(libdir, "libpoly.a"), "-lgmpxx", "-lgmp", "-lm", "-o", exe]
    elif os.path.exists(src_c):
        cmd = ["gcc", "-std=gnu99"] + CFLAGS + ["-DHAVE_OPEN_MEMSTREAM"] + inc + [src_c, os.path.join(libdir, "libpoly.a"), "-lgmp", "-lm", "-o", exe]
    else:
        cmd = ["g++", "-std=c++11"] + CFLAGS + inc + [src_cc, os.path.join(libdir, "libpolyxx.a"), os.path.join(libdir, "libpoly.a"), "-lgmpxx", "-lgmp", "-lm", "-o", exe]
    r = run(cmd)
    if r.returncode != 0:
        raise RuntimeError("harness %s does not compile against the current tree:\n%s" % (name, r.stdout[-4000:]))
    return exe


SAN_ENV = {"ASAN_OPTIONS": "detect_leaks=1:abort_on_error=0:exitcode=87:allocator_may_return_null=1",
           "UBSAN_OPTIONS": "print_stacktrace=1:halt_on_error=1:abort_on_error=1",
           "LSAN_OPTIONS": "exitcode=86"}


def run_harness(exe, seed, n, outpath, only=None, timeout=900, extra_env=None, start=0, append=False):
    env = dict(os.environ)
    env.update(SAN_ENV)
    if extra_env:
        env.update(extra_env)
    cmd = [exe, str(seed), str(n), str(only if only is not None else -1), str(start)]
    errpath = outpath + ".err"
    with open(outpath, "a" if append else "w") as fo, open(errpath, "w") as fe:
        try:
            p = subprocess.run(cmd, stdout=fo, stderr=fe, env=env, timeout=timeout)
            rc = p.returncode
        except subprocess.TimeoutExpired:
            rc = -999
    err = open(errpath, errors="replace").read()
    return rc, err


# --------------------------------------------------------------------------- Lean side
_lake_lock = None


def lake(args, timeout=3600):
    os.makedirs(LOCKDIR, exist_ok=True)
    lock = open(os.path.join(LOCKDIR, "lake.lock"), "w")
    fcntl.flock(lock, fcntl.LOCK_EX)
    try:
        return run(["lake"] + args, cwd=LEAN, timeout=timeout)
    finally:
        fcntl.flock(lock, fcntl.LOCK_UN)
        lock.close()


def lean_build(targets):
    r = lake(["build"] + targets)
    broken = []
    if r.returncode != 0:
        for m in re.finditer(r"error: ([\w/\.]+\.lean):(\d+):(\d+): (.*)", r.stdout):
            broken.append("%s:%s %s" % (m.group(1), m.group(2), m.group(4)[:200]))
    return r.returncode == 0, broken, r.stdout


def forbidden_tokens():
    hits = []
    for dp, dn, fn in os.walk(LEAN):
        if ".lake" in dp:
            continue
        for f in fn:
            if not f.endswith(".lean"):
                continue
            p = os.path.join(dp, f)
            incomment = 0
            for i, line in enumerate(open(p, errors="replace"), 1):
                code = line
                # strip block comments (coarse but sufficient: we never put code after a comment close on the same line)
                if incomment:
                    if "-/" in code:
                        incomment = 0
                    continue
                if "/-" in code and "-/" not in code:
                    incomment = 1
                    code = code.split("/-")[0]
                code = re.sub(r"/-.*?-/", "", code)
                code = code.split("--")[0]
                if FORBIDDEN.search(code):
                    hits.append("%s:%d: %s" % (os.path.relpath(p, VERIF), i, line.strip()[:120]))
    return hits


def lean_audit(prop):
    """Run Audit/<prop>.lean (#print axioms for every property theorem).
    Returns (obligations, discharged, details, raw)."""
    f = os.path.join(LEAN, "Audit", prop + ".lean")
    if not os.path.exists(f):
        return 0, 0, [], "no audit file"
    r = lake(["env", "lean", f])
    out = r.stdout
    details = []
    # messages: "'name' depends on axioms: [a, b]"  or "'name' does not depend on any axioms"
    flat = re.sub(r"\s+", " ", out)
    for m in re.finditer(r"'([^']+)' depends on axioms: \[([^\]]*)\]", flat):
        ax = [a.strip() for a in m.group(2).split(",") if a.strip()]
        details.append({"theorem": m.group(1), "axioms": ax, "ok": set(ax) <= ALLOWED_AXIOMS})
    for m in re.finditer(r"'([^']+)' does not depend on any axioms", flat):
        details.append({"theorem": m.group(1), "axioms": [], "ok": True})
    errs = re.findall(r"error: (.*)", out)
    for e in errs:
        details.append({"theorem": "?", "axioms": [], "ok": False, "error": e[:200]})
    wanted = re.findall(r"#print axioms\s+(\S+)", open(f).read())
    have = {d["theorem"] for d in details}
    for w in wanted:
        if w not in have and not any(h.endswith(w) for h in have):
            details.append({"theorem": w, "axioms": [], "ok": False, "error": "not reported"})
    obligations = len(wanted)
    discharged = sum(1 for d in details if d["ok"])
    return obligations, min(discharged, obligations), details, out


def driver_exe():
    return os.path.join(LEAN, ".lake", "build", "bin", "lpdriver")


def run_driver(lines_path, outpath, timeout=3600):
    with open(lines_path) as fi, open(outpath, "w") as fo:
        p = subprocess.run([driver_exe()], stdin=fi, stdout=fo, stderr=subprocess.PIPE, text=True, timeout=timeout)
    return p.returncode, p.stderr


def parse_driver(outpath):
    res = {"viol": [], "disagree": [], "skip": [], "branches": {}, "total": 0, "ok": 0}
    for line in open(outpath, errors="replace"):
        line = line.rstrip("\n")
        if line.startswith("#branch "):
            _, k, n = line.split(" ")
            res["branches"][k] = int(n)
        elif line.startswith("#total "):
            m = re.match(r"#total (\d+) ok=(\d+) viol=(\d+) disagree=(\d+) skip=(\d+)", line)
            res["total"] = int(m.group(1)); res["ok"] = int(m.group(2))
        else:
            m = re.match(r"(\S+) (viol|disagree|skip) (.*?) :: (.*)$", line)
            if not m:
                continue
            idx, kind, msg, orig = m.groups()
            ent = {"case": idx, "msg": msg, "line": orig}
            if kind == "viol":
                ent["cls"] = msg.split(" ")[0]
            res[kind].append(ent)
    return res


# --------------------------------------------------------------------------- findings / evidence
def load_known():
    p = os.path.join(VERIF, "known_findings.json")
    if not os.path.exists(p):
        return []
    return json.load(open(p)).get("findings", [])


def write_evidence(prop, ev):
    os.makedirs(os.path.join(VERIF, "evidence"), exist_ok=True)
    p = os.path.join(VERIF, "evidence", prop + ".json")
    tmp = p + ".tmp"
    json.dump(ev, open(tmp, "w"), indent=1, sort_keys=True)
    os.replace(tmp, p)


def replay_path(prop, tag):
    d = os.path.join(VERIF, "evidence", "replay")
    os.makedirs(d, exist_ok=True)
    return os.path.join(d, "%s_%s.json" % (prop, tag))


def scratch_dir():
    base = os.environ.get("TMPDIR") or "/var/tmp"
    os.makedirs(base, exist_ok=True)
    return tempfile.mkdtemp(prefix="lpv-", dir=base)
