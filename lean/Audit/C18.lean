import LP.Props.C18
#print axioms LP.Mono.toFinsupp_perm
#print axioms LP.MPoly.C18_den_perm
#print axioms LP.MPoly.C18_den_mono_perm
#print axioms LP.MPoly.C18_normalize_perm
#print axioms LP.MPoly.C18_termHash_perm
#print axioms LP.MPoly.C18_hash_perm
#print axioms LP.MPoly.C18_hash_mono_perm
#print axioms LP.C18_ordCmp
