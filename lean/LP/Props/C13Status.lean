/-
  C13 — the status of `lp_feasibility_set_intersect_with_status` is right about what it reports:
  `S1` only when the result is the first operand (interval by interval), `S2` only when the result denotes the second
  operand, `EMPTY` only for the empty result and `NEW` only for a non-empty one (`C13_intersect_status`); and the result of
  the sweep is again a list of non-empty, increasing, pairwise disjoint intervals (`C13_intersect_nf`).
-/
import LP.Props.C13Union

set_option linter.unusedSectionVars false

namespace LP
namespace FSet
open VI

variable {α : Type*} [Field α] [LinearOrder α] [IsStrictOrderedRing α]

/-! ### which interval the classification hands back -/

theorem cwiLt_class_mem (I1 I2 : VI) : (cwiLt I1 I2).1 = .ltNo ∨ (cwiLt I1 I2).1 = .ltWith := by
  unfold cwiLt; split_ifs <;> simp

theorem cwiGt_class_mem (I1 I2 : VI) : (cwiGt I1 I2).1 = .gtNo ∨ (cwiGt I1 I2).1 = .gtWith := by
  unfold cwiGt; split_ifs <;> simp

/-- the classes that keep the first interval return the first interval -/
theorem cwi_returns_I1 (I1 I2 : VI)
    (h : (cmpWithIntersect I1 I2).1 = .ltWithI1 ∨ (cmpWithIntersect I1 I2).1 = .eq ∨ (cmpWithIntersect I1 I2).1 = .geqWithI1) :
    (cmpWithIntersect I1 I2).2 = some I1 := by
  unfold cmpWithIntersect cwiCore at h ⊢
  split_ifs at h ⊢ <;> first
    | rfl
    | (exfalso; simp at h)
    | (exfalso; rcases cwiLt_class_mem I1 I2 with e | e <;> rw [e] at h <;> simp at h)
    | (exfalso; rcases cwiGt_class_mem I1 I2 with e | e <;> rw [e] at h <;> simp at h)

/-- the classes that keep the second interval return the second interval -/
theorem cwi_returns_I2 (I1 I2 : VI)
    (h : (cmpWithIntersect I1 I2).1 = .leqWithI2 ∨ (cmpWithIntersect I1 I2).1 = .gtWithI2) :
    (cmpWithIntersect I1 I2).2 = some I2 := by
  unfold cmpWithIntersect cwiCore at h ⊢
  split_ifs at h ⊢ <;> first
    | rfl
    | (exfalso; simp at h)
    | (exfalso; rcases cwiLt_class_mem I1 I2 with e | e <;> rw [e] at h <;> simp at h)
    | (exfalso; rcases cwiGt_class_mem I1 I2 with e | e <;> rw [e] at h <;> simp at h)

/-- equal intervals denote the same set -/
theorem cwi_eq_mem (I1 I2 : VI) (h : (cmpWithIntersect I1 I2).1 = .eq) (x : α) : I1.Mem x ↔ I2.Mem x := by
  have hs := cwi_spec I1 I2
  rw [h] at hs
  obtain ⟨hu, hl⟩ := hs
  obtain ⟨u1, u2⟩ := cmpUpper_sem (α := α) I1 I2
  obtain ⟨l1, l2⟩ := cmpLower_sem (α := α) I1 I2
  exact ⟨fun m => ⟨l1 (by omega) x m.1, u1 (by omega) x m.2⟩, fun m => ⟨l2 (by omega) x m.1, u2 (by omega) x m.2⟩⟩

/-! ### the flags of the sweep -/

/-- the flag "everything came from the first operand" survives only if the result is the first operand, interval by
    interval -/
theorem intersectLoop_all1 : ∀ (fuel : Nat) (s1 s2 acc : List VI) (a1 a2 : Bool), s1.length + s2.length ≤ fuel →
    (intersectLoop fuel s1 s2 acc a1 a2).2.1 = true →
    a1 = true ∧ (intersectLoop fuel s1 s2 acc a1 a2).1 = acc.reverse ++ s1 := by
  intro fuel
  induction fuel with
  | zero =>
    intro s1 s2 acc a1 a2 hlen h
    have e1 : s1 = [] := List.length_eq_zero_iff.1 (by omega)
    subst e1
    simpa [intersectLoop] using h
  | succ f ih =>
    intro s1 s2 acc a1 a2 hlen h
    cases s1 with
    | nil =>
      cases s2 with
      | nil => simpa [intersectLoop] using h
      | cons I2 r2 => simpa [intersectLoop] using h
    | cons I1 r1 =>
      cases s2 with
      | nil => simp [intersectLoop] at h
      | cons I2 r2 =>
        simp only [List.length_cons] at hlen
        have hret := cwi_returns_I1 I1 I2
        rw [intersectLoop] at h ⊢
        split at h <;> rename_i hc
        all_goals (simp only [hc] at hret ⊢)
        · exact absurd (ih _ _ _ _ _ (by simp only [List.length_cons]; omega) h).1 (by simp)
        · exact absurd (ih _ _ _ _ _ (by simp only [List.length_cons]; omega) h).1 (by simp)
        · have hr := hret (by simp)
          rw [hr] at h ⊢
          obtain ⟨ha, he⟩ := ih _ _ _ _ _ (by simp only [List.length_cons]; omega) h
          exact ⟨ha, by rw [he]; simp⟩
        · exact absurd (ih _ _ _ _ _ (by omega) h).1 (by simp)
        · have hr := hret (by simp)
          rw [hr] at h ⊢
          obtain ⟨ha, he⟩ := ih _ _ _ _ _ (by omega) h
          exact ⟨ha, by rw [he]; simp⟩
        · have hr := hret (by simp)
          rw [hr] at h ⊢
          obtain ⟨ha, he⟩ := ih _ _ _ _ _ (by omega) h
          exact ⟨ha, by rw [he]; simp⟩
        · exact absurd (ih _ _ _ _ _ (by simp only [List.length_cons]; omega) h).1 (by simp)
        · exact absurd (ih _ _ _ _ _ (by simp only [List.length_cons]; omega) h).1 (by simp)
        · obtain ⟨ha, he⟩ := ih _ _ _ _ _ (by simp only [List.length_cons]; omega) h
          exact ⟨ha, he⟩

/-- the flag "everything came from the second operand" survives only if the result denotes the second operand -/
theorem intersectLoop_all2 : ∀ (fuel : Nat) (s1 s2 acc : List VI) (a1 a2 : Bool), s1.length + s2.length ≤ fuel →
    (intersectLoop fuel s1 s2 acc a1 a2).2.2 = true →
    a2 = true ∧ ∀ x : α, SetMem α (intersectLoop fuel s1 s2 acc a1 a2).1 x ↔ (SetMem α acc x ∨ SetMem α s2 x) := by
  intro fuel
  induction fuel with
  | zero =>
    intro s1 s2 acc a1 a2 hlen h
    have e2 : s2 = [] := List.length_eq_zero_iff.1 (by omega)
    subst e2
    refine ⟨by simpa [intersectLoop] using h, fun x => ?_⟩
    simp [intersectLoop, setMem_reverse, setMem_nil]
  | succ f ih =>
    intro s1 s2 acc a1 a2 hlen h
    cases s1 with
    | nil =>
      cases s2 with
      | nil =>
        refine ⟨by simpa [intersectLoop] using h, fun x => ?_⟩
        simp [intersectLoop, setMem_reverse, setMem_nil]
      | cons I2 r2 => simp [intersectLoop] at h
    | cons I1 r1 =>
      cases s2 with
      | nil =>
        refine ⟨by simpa [intersectLoop] using h, fun x => ?_⟩
        simp [intersectLoop, setMem_reverse, setMem_nil]
      | cons I2 r2 =>
        simp only [List.length_cons] at hlen
        have hret := cwi_returns_I2 I1 I2
        have hret1 := cwi_returns_I1 I1 I2
        have heq := cwi_eq_mem (α := α) I1 I2
        rw [intersectLoop] at h ⊢
        split at h <;> rename_i hc
        all_goals (simp only [hc] at hret hret1 heq ⊢)
        · -- ltNo: the first interval is dropped
          obtain ⟨ha, he⟩ := ih _ _ _ _ _ (by simp only [List.length_cons]; omega) h
          exact ⟨ha, he⟩
        · exact absurd (ih _ _ _ _ _ (by simp only [List.length_cons]; omega) h).1 (by simp)
        · exact absurd (ih _ _ _ _ _ (by simp only [List.length_cons]; omega) h).1 (by simp)
        · -- leqWithI2
          have hr := hret (by simp)
          rw [hr] at h ⊢
          obtain ⟨ha, he⟩ := ih _ _ _ _ _ (by omega) h
          refine ⟨ha, fun x => ?_⟩
          rw [he x, setMem_cons, setMem_cons]; tauto
        · -- eq
          have hr := hret1 (by simp)
          rw [hr] at h ⊢
          obtain ⟨ha, he⟩ := ih _ _ _ _ _ (by omega) h
          refine ⟨ha, fun x => ?_⟩
          rw [he x, setMem_cons, setMem_cons, heq trivial x]; tauto
        · exact absurd (ih _ _ _ _ _ (by omega) h).1 (by simp)
        · -- gtWithI2
          have hr := hret (by simp)
          rw [hr] at h ⊢
          obtain ⟨ha, he⟩ := ih _ _ _ _ _ (by simp only [List.length_cons]; omega) h
          refine ⟨ha, fun x => ?_⟩
          rw [he x, setMem_cons, setMem_cons]; tauto
        · exact absurd (ih _ _ _ _ _ (by simp only [List.length_cons]; omega) h).1 (by simp)
        · exact absurd (ih _ _ _ _ _ (by simp only [List.length_cons]; omega) h).1 (by simp)

/-- **the status of the intersection is right about what it reports** -/
theorem C13_intersect_status (s1 s2 : List VI) :
    ((intersect s1 s2).2 = .s1 → (intersect s1 s2).1 = s1) ∧
    ((intersect s1 s2).2 = .s2 → ∀ x : α, SetMem α (intersect s1 s2).1 x ↔ SetMem α s2 x) ∧
    ((intersect s1 s2).2 = .empty → (intersect s1 s2).1 = []) ∧
    ((intersect s1 s2).2 = .new → (intersect s1 s2).1 ≠ []) := by
  unfold intersect
  by_cases he : (s1.isEmpty || s2.isEmpty) = true
  · rw [if_pos he]; simp
  · rw [if_neg he]
    dsimp only
    generalize hr : intersectLoop (s1.length + s2.length + 1) s1 s2 [] true true = r
    refine ⟨fun h => ?_, fun h => ?_, fun h => ?_, fun h => ?_⟩
    · have h1 : r.2.1 = true := by
        cases hb : r.2.1 with
        | true => rfl
        | false => rw [hb] at h; split_ifs at h <;> simp_all
      have := (intersectLoop_all1 (s1.length + s2.length + 1) s1 s2 [] true true (by omega) (by rw [hr]; exact h1)).2
      rw [hr] at this
      simpa using this
    · have h1 : r.2.1 = false := by
        by_contra hc
        simp only [Bool.not_eq_false] at hc
        simp [hc] at h
      have h2 : r.2.2 = true := by
        cases hb : r.2.2 with
        | true => rfl
        | false => rw [h1, hb] at h; split_ifs at h
      intro x
      have := (intersectLoop_all2 (α := α) (s1.length + s2.length + 1) s1 s2 [] true true (by omega) (by rw [hr]; exact h2)).2 x
      rw [hr] at this
      simpa [setMem_nil] using this
    · split_ifs at h with c1 c2 c3
      simpa using c3
    · split_ifs at h with c1 c2 c3
      simpa using c3

/-! ### the result is again increasing and disjoint -/

/-- a real number between two bounds the first of which lies strictly below the second -/
theorem exists_between_bounds (l u : EP) (ol ou : Bool) (h : EP.cmp l u < 0) (hl : l ≠ .pinf) (hu : u ≠ .ninf) :
    ∃ y : α, lowerOK l ol y ∧ upperOK u ou y := by
  cases l with
  | pinf => exact absurd rfl hl
  | ninf =>
    cases u with
    | ninf => exact absurd rfl hu
    | pinf => exact ⟨0, trivial, trivial⟩
    | fin b =>
      refine ⟨(b : α) - 1, trivial, ?_⟩
      unfold upperOK; dsimp only
      split_ifs <;> linarith
  | fin a =>
    cases u with
    | ninf => exact absurd rfl hu
    | pinf =>
      refine ⟨(a : α) + 1, ?_, trivial⟩
      unfold lowerOK; dsimp only
      split_ifs <;> linarith
    | fin b =>
      have hab : a < b := (cmpQ_lt a b).1 (by rwa [EP.cmp_fin] at h)
      have hab' : (a : α) < (b : α) := by exact_mod_cast hab
      refine ⟨((a : α) + b) / 2, ?_, ?_⟩
      · unfold lowerOK; dsimp only
        split_ifs <;> linarith
      · unfold upperOK; dsimp only
        split_ifs <;> linarith

/-- the interval handed back by the classification is not empty when the operands are not -/
theorem cwi_nonempty (I1 I2 P : VI) (h : (cmpWithIntersect I1 I2).2 = some P)
    (n1 : ∃ y : α, I1.Mem y) (n2 : ∃ y : α, I2.Mem y) : ∃ y : α, P.Mem y := by
  obtain ⟨y1, hy1⟩ := n1
  obtain ⟨y2, hy2⟩ := n2
  -- facts about the bounds of non-empty intervals
  have u1 : I1.upper ≠ .ninf := by
    intro e; have := hy1.2; rw [e] at this; exact this
  have l2 : I2.lower ≠ .pinf := by
    intro e; have := hy2.1; rw [e] at this; exact this
  have u2 : I2.upper ≠ .ninf := by
    intro e; have := hy2.2; rw [e] at this; exact this
  have l1 : I1.lower ≠ .pinf := by
    intro e; have := hy1.1; rw [e] at this; exact this
  have point_ne : ∀ v : EP, v ≠ .ninf → v ≠ .pinf → ∃ y : α, (point v).Mem y := by
    intro v h1 h2
    cases v with
    | ninf => exact absurd rfl h1
    | pinf => exact absurd rfl h2
    | fin q => exact ⟨(q : α), by rw [mem_point]; simp [lowerOK, upperOK]⟩
  unfold cmpWithIntersect cwiCore at h
  split_ifs at h
  all_goals first
    | (simp only [Option.some.injEq] at h; subst h; first | exact ⟨y1, hy1⟩ | exact ⟨y2, hy2⟩)
    | skip
  · -- cwiLt
    unfold cwiLt at h
    split_ifs at h with c1 c2 c3
    · simp only [Option.some.injEq] at h; subst h
      have he : I1.upper = I2.lower := (EP.cmp_eq_zero _ _).1 c2
      exact point_ne _ (by show I2.lower ≠ _; rw [← he]; exact u1) l2
    · simp only [Option.some.injEq] at h; subst h
      have hlt : EP.cmp I2.lower I1.upper < 0 := (EP.cmp_antisymm _ _).1 (by omega)
      have hne : EP.cmp I2.lower I1.upper ≠ 0 := by omega
      obtain ⟨y, hy⟩ := exists_between_bounds (α := α) I2.lower I1.upper I2.aOpen I1.bOpen hlt l2 u1
      exact ⟨y, (mem_construct _ _ _ _ hne y).2 hy⟩
  · -- cwiGt
    unfold cwiGt at h
    split_ifs at h with c1 c2 c3
    · simp only [Option.some.injEq] at h; subst h
      have he : I1.lower = I2.upper := (EP.cmp_eq_zero _ _).1 c2
      exact point_ne _ (by show I1.lower ≠ _; rw [he]; exact u2) l1
    · simp only [Option.some.injEq] at h; subst h
      obtain ⟨y, hy⟩ := exists_between_bounds (α := α) I1.lower I2.upper I1.aOpen I2.bOpen c3 l1 u2
      exact ⟨y, (mem_construct _ _ _ _ c2 y).2 hy⟩

/-- `I` lies inside `J` -/
def Sub (I J : VI) : Prop := ∀ x : α, I.Mem x → J.Mem x

theorem sep_of_sub_left (P I J : VI) (h : Sub (α := α) P I) (hs : Sep α I J) : Sep α P J :=
  fun x y hx hy => hs x y (h x hx) hy

theorem sep_of_sub_right (I P J : VI) (h : Sub (α := α) P J) (hs : Sep α I J) : Sep α I P :=
  fun x y hx hy => hs x y hx (h y hy)

/-- invariant of the sweep: the intervals produced so far are non-empty and increasing, and each of them lies
    strictly below everything that remains in the first operand or below everything that remains in the second -/
def SweepInv (acc s1 s2 : List VI) : Prop :=
  (∀ A ∈ acc, ∃ y : α, A.Mem y) ∧ acc.reverse.Pairwise (Sep α) ∧
  ∀ A ∈ acc, (∀ I ∈ s1, Sep α A I) ∨ (∀ J ∈ s2, Sep α A J)

theorem sweepInv_tail1 (acc : List VI) (I1 : VI) (r1 s2 : List VI) (h : SweepInv (α := α) acc (I1 :: r1) s2) :
    SweepInv (α := α) acc r1 s2 :=
  ⟨h.1, h.2.1, fun A hA => (h.2.2 A hA).imp (fun k I hI => k I (List.mem_cons_of_mem _ hI)) id⟩

theorem sweepInv_tail2 (acc : List VI) (s1 : List VI) (I2 : VI) (r2 : List VI) (h : SweepInv (α := α) acc s1 (I2 :: r2)) :
    SweepInv (α := α) acc s1 r2 :=
  ⟨h.1, h.2.1, fun A hA => (h.2.2 A hA).imp id (fun k I hI => k I (List.mem_cons_of_mem _ hI))⟩

/-- pushing a piece of `I1 ∩ I2` keeps the invariant, for the lists that remain after the step (`s1'` is `r1` or
    `I1 :: r1`, `s2'` is `r2` or `I2 :: r2`, and at least one of the two heads is gone) -/
theorem sweepInv_push (acc : List VI) (I1 I2 P : VI) (r1 r2 s1' s2' : List VI)
    (h : SweepInv (α := α) acc (I1 :: r1) (I2 :: r2))
    (hP : ∀ x : α, P.Mem x ↔ (I1.Mem x ∧ I2.Mem x)) (hne : ∃ y : α, P.Mem y)
    (p1 : ∀ I ∈ r1, Sep α I1 I) (p2 : ∀ J ∈ r2, Sep α I2 J)
    (h1 : ∀ I ∈ s1', I ∈ I1 :: r1) (h2 : ∀ J ∈ s2', J ∈ I2 :: r2)
    (hadv : s1' = r1 ∨ s2' = r2) : SweepInv (α := α) (P :: acc) s1' s2' := by
  refine ⟨?_, ?_, ?_⟩
  · intro A hA
    rcases List.mem_cons.1 hA with rfl | hA
    · exact hne
    · exact h.1 A hA
  · rw [List.reverse_cons, List.pairwise_append]
    refine ⟨h.2.1, List.pairwise_singleton _ _, ?_⟩
    intro A hA B hB
    rw [List.mem_singleton] at hB
    subst hB
    rw [List.mem_reverse] at hA
    rcases h.2.2 A hA with k | k
    · exact sep_of_sub_right A _ I1 (fun x hx => ((hP x).1 hx).1) (k I1 List.mem_cons_self)
    · exact sep_of_sub_right A _ I2 (fun x hx => ((hP x).1 hx).2) (k I2 List.mem_cons_self)
  · intro A hA
    rcases List.mem_cons.1 hA with rfl | hA
    · rcases hadv with e | e
      · left; subst e
        intro I hI
        exact sep_of_sub_left _ I1 I (fun x hx => ((hP x).1 hx).1) (p1 I hI)
      · right; subst e
        intro J hJ
        exact sep_of_sub_left _ I2 J (fun x hx => ((hP x).1 hx).2) (p2 J hJ)
    · exact (h.2.2 A hA).imp (fun k I hI => k I (h1 I hI)) (fun k J hJ => k J (h2 J hJ))

theorem intersectLoop_nf : ∀ (fuel : Nat) (s1 s2 acc : List VI) (a1 a2 : Bool),
    NFw α s1 → NFw α s2 → SweepInv (α := α) acc s1 s2 →
    NFw α (intersectLoop fuel s1 s2 acc a1 a2).1 := by
  intro fuel
  have fin : ∀ (acc s1 s2 : List VI), SweepInv (α := α) acc s1 s2 → NFw α acc.reverse :=
    fun acc s1 s2 h => ⟨fun I hI => h.1 I (List.mem_reverse.1 hI), h.2.1⟩
  induction fuel with
  | zero =>
    intro s1 s2 acc a1 a2 _ _ hi
    simpa [intersectLoop] using fin _ _ _ hi
  | succ f ih =>
    intro s1 s2 acc a1 a2 n1 n2 hi
    cases s1 with
    | nil =>
      cases s2 with
      | nil => simpa [intersectLoop] using fin _ _ _ hi
      | cons I2 r2 => simpa [intersectLoop] using fin _ _ _ hi
    | cons I1 r1 =>
      cases s2 with
      | nil => simpa [intersectLoop] using fin _ _ _ hi
      | cons I2 r2 =>
        obtain ⟨⟨hP, hnone⟩, _⟩ := C13_cmp (α := α) I1 I2
        have ne1 := n1.1 I1 List.mem_cons_self
        have ne2 := n2.1 I2 List.mem_cons_self
        have p1 := List.pairwise_cons.1 n1.2
        have p2 := List.pairwise_cons.1 n2.2
        have n1' : NFw α r1 := ⟨fun I hI => n1.1 I (List.mem_cons_of_mem _ hI), p1.2⟩
        have n2' : NFw α r2 := ⟨fun I hI => n2.1 I (List.mem_cons_of_mem _ hI), p2.2⟩
        have push : ∀ (P : VI) (s1' s2' : List VI), (cmpWithIntersect I1 I2).2 = some P →
            (∀ I ∈ s1', I ∈ I1 :: r1) → (∀ J ∈ s2', J ∈ I2 :: r2) → (s1' = r1 ∨ s2' = r2) →
            SweepInv (α := α) (P :: acc) s1' s2' := by
          intro P s1' s2' hp h1 h2 hadv
          rw [hp] at hP
          exact sweepInv_push acc I1 I2 P r1 r2 s1' s2' hi hP (cwi_nonempty I1 I2 P hp ne1 ne2) p1.1 p2.1 h1 h2 hadv
        rw [intersectLoop]
        split <;> rename_i hc
        all_goals (rw [hc] at hnone)
        · exact ih _ _ _ _ _ n1' n2 (sweepInv_tail1 _ _ _ _ hi)
        · have hs : (cmpWithIntersect I1 I2).2 ≠ none := fun h => by simpa using hnone.2 h
          obtain ⟨p, hp⟩ := Option.ne_none_iff_exists'.1 hs
          rw [hp]
          exact ih _ _ _ _ _ n1' n2 (push p r1 (I2 :: r2) hp (fun I hI => List.mem_cons_of_mem _ hI) (fun J hJ => hJ) (Or.inl rfl))
        · have hs : (cmpWithIntersect I1 I2).2 ≠ none := fun h => by simpa using hnone.2 h
          obtain ⟨p, hp⟩ := Option.ne_none_iff_exists'.1 hs
          rw [hp]
          exact ih _ _ _ _ _ n1' n2 (push p r1 (I2 :: r2) hp (fun I hI => List.mem_cons_of_mem _ hI) (fun J hJ => hJ) (Or.inl rfl))
        · have hs : (cmpWithIntersect I1 I2).2 ≠ none := fun h => by simpa using hnone.2 h
          obtain ⟨p, hp⟩ := Option.ne_none_iff_exists'.1 hs
          rw [hp]
          exact ih _ _ _ _ _ n1' n2' (push p r1 r2 hp (fun I hI => List.mem_cons_of_mem _ hI) (fun J hJ => List.mem_cons_of_mem _ hJ) (Or.inl rfl))
        · have hs : (cmpWithIntersect I1 I2).2 ≠ none := fun h => by simpa using hnone.2 h
          obtain ⟨p, hp⟩ := Option.ne_none_iff_exists'.1 hs
          rw [hp]
          exact ih _ _ _ _ _ n1' n2' (push p r1 r2 hp (fun I hI => List.mem_cons_of_mem _ hI) (fun J hJ => List.mem_cons_of_mem _ hJ) (Or.inl rfl))
        · have hs : (cmpWithIntersect I1 I2).2 ≠ none := fun h => by simpa using hnone.2 h
          obtain ⟨p, hp⟩ := Option.ne_none_iff_exists'.1 hs
          rw [hp]
          exact ih _ _ _ _ _ n1' n2' (push p r1 r2 hp (fun I hI => List.mem_cons_of_mem _ hI) (fun J hJ => List.mem_cons_of_mem _ hJ) (Or.inl rfl))
        · have hs : (cmpWithIntersect I1 I2).2 ≠ none := fun h => by simpa using hnone.2 h
          obtain ⟨p, hp⟩ := Option.ne_none_iff_exists'.1 hs
          rw [hp]
          exact ih _ _ _ _ _ n1 n2' (push p (I1 :: r1) r2 hp (fun I hI => hI) (fun J hJ => List.mem_cons_of_mem _ hJ) (Or.inr rfl))
        · have hs : (cmpWithIntersect I1 I2).2 ≠ none := fun h => by simpa using hnone.2 h
          obtain ⟨p, hp⟩ := Option.ne_none_iff_exists'.1 hs
          rw [hp]
          exact ih _ _ _ _ _ n1 n2' (push p (I1 :: r1) r2 hp (fun I hI => hI) (fun J hJ => List.mem_cons_of_mem _ hJ) (Or.inr rfl))
        · exact ih _ _ _ _ _ n1 n2' (sweepInv_tail2 _ _ _ _ hi)

/-- **the intersection of two lists of non-empty, increasing, disjoint intervals is again such a list** -/
theorem C13_intersect_nf (s1 s2 : List VI) (n1 : NFw α s1) (n2 : NFw α s2) : NFw α (intersect s1 s2).1 := by
  unfold intersect
  by_cases he : (s1.isEmpty || s2.isEmpty) = true
  · rw [if_pos he]; exact ⟨by simp, List.Pairwise.nil⟩
  · rw [if_neg he]
    exact intersectLoop_nf _ s1 s2 [] true true n1 n2 ⟨by simp, by simp, by simp⟩

end FSet
end LP
