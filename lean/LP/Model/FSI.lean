/-
  C14 — mirror of src/polynomial/feasibility_set_int.c: subsets of Z_M kept as a strictly
  increasing list of symmetric representatives plus an `inverted` (complement) flag.
  Core Lean only.
-/
import LP.Model.Scalar
namespace LP

/-- `ordered_integer_set_union`: (result, just_i1, just_i2) -/
def ounion : List Int → List Int → List Int × Bool × Bool
  | [], [] => ([], true, true)
  | a :: l1, [] => (a :: l1, true, false)
  | [], b :: l2 => (b :: l2, false, true)
  | a :: l1, b :: l2 =>
    if a < b then
      let r := ounion l1 (b :: l2)
      (a :: r.1, r.2.1, false)
    else if b < a then
      let r := ounion (a :: l1) l2
      (b :: r.1, false, r.2.2)
    else
      let r := ounion l1 l2
      (a :: r.1, r.2.1, r.2.2)
termination_by l1 l2 => l1.length + l2.length

/-- `ordered_integer_set_intersect`: (result, all_i1, all_i2) -/
def ointersect : List Int → List Int → List Int × Bool × Bool
  | [], [] => ([], true, true)
  | [], _ :: _ => ([], true, false)
  | _ :: _, [] => ([], false, true)
  | a :: l1, b :: l2 =>
    if b < a then
      let r := ointersect (a :: l1) l2
      (r.1, r.2.1, false)
    else if a < b then
      let r := ointersect l1 (b :: l2)
      (r.1, false, r.2.2)
    else
      let r := ointersect l1 l2
      (a :: r.1, r.2.1, r.2.2)
termination_by l1 l2 => l1.length + l2.length

/-- `ordered_integer_set_minus`: (i1 \ i2, nothing_removed) -/
def ominus : List Int → List Int → List Int × Bool
  | [], _ => ([], true)
  | a :: l1, [] => (a :: l1, true)
  | a :: l1, b :: l2 =>
    if a = b then
      let r := ominus l1 l2
      (r.1, false)
    else if a < b then
      let r := ominus l1 (b :: l2)
      (a :: r.1, r.2)
    else ominus (a :: l1) l2
termination_by l1 l2 => l1.length + l2.length

/-- finite-field feasibility set -/
structure FSI where
  M : Nat
  elems : List Int
  inverted : Bool
  deriving DecidableEq, Repr

/-- internal status bits (S1, S2) and the external status -/
inductive FStatus | s1 | s2 | new | empty
  deriving DecidableEq, Repr

def statusExt (b1 b2 : Bool) : FStatus := if b1 then .s1 else if b2 then .s2 else .new

namespace FSI

/-- all representatives lb..ub in increasing order -/
def univ (M : Nat) : List Int := (List.range M).map (fun (i : Nat) => lb M + (i : Int))

/-- `lp_feasibility_set_int_invert`: materialise the complement -/
def invert (s : FSI) : FSI :=
  ⟨s.M, (univ s.M).filter (fun v => !s.elems.contains v), !s.inverted⟩

def sizeApprox (s : FSI) : Nat := if s.inverted then s.M - s.elems.length else s.elems.length
/-- size_approx saturates when M does not fit an unsigned long; the model carries that as a flag -/
def sizeApproxC (s : FSI) (fitsUlong : Bool) : Option Nat :=
  if s.inverted then (if fitsUlong then some (s.M - s.elems.length) else none) else some s.elems.length

def isEmpty (s : FSI) : Bool := if s.inverted then s.elems.length = s.M else s.elems.length = 0
def isFull (s : FSI) : Bool := if s.inverted then s.elems.length = 0 else s.elems.length = s.M
def isPoint (s : FSI) : Bool := if s.inverted then s.M = s.elems.length + 1 else s.elems.length = 1
def size (s : FSI) : Int := if s.inverted then (s.M : Int) - s.elems.length else s.elems.length

/-- `lp_feasibility_set_int_contains` (normalises the query first) -/
def contains (s : FSI) (v : Int) : Bool := (s.elems.contains (normalizeM s.M v)) != s.inverted

/-- `lp_feasibility_set_int_intersect_internal` : (result, S1, S2). `big` says that M does not fit
    an unsigned long (then size_approx of an inverted set is ULONG_MAX and the complement is never materialised). -/
def intersectInternal (big : Bool) (s1 s2 : FSI) : FSI × Bool × Bool :=
  if s1.inverted && s2.inverted then
    let r := ounion s1.elems s2.elems
    (⟨s1.M, r.1, true⟩, r.2.1, r.2.2)
  else if !s1.inverted && !s2.inverted then
    let r := ointersect s1.elems s2.elems
    (⟨s1.M, r.1, false⟩, r.2.1, r.2.2)
  else if s1.inverted && !s2.inverted then
    -- swapped call, then invert_i1_i2
    if !big && s2.elems.length > s1.M - s1.elems.length then
      let r := ointersect s2.elems (invert s1).elems
      (⟨s1.M, r.1, false⟩, r.2.2, r.2.1)
    else
      let r := ominus s2.elems s1.elems
      (⟨s1.M, r.1, false⟩, false, r.2)
  else
    if !big && s1.elems.length > s2.M - s2.elems.length then
      let r := ointersect s1.elems (invert s2).elems
      (⟨s1.M, r.1, false⟩, r.2.1, r.2.2)
    else
      let r := ominus s1.elems s2.elems
      (⟨s1.M, r.1, false⟩, r.2, false)

def unionInternal (big : Bool) (s1 s2 : FSI) : FSI × Bool × Bool :=
  if s1.inverted && s2.inverted then
    let r := ointersect s1.elems s2.elems
    (⟨s1.M, r.1, true⟩, r.2.1, r.2.2)
  else if !s1.inverted && !s2.inverted then
    let r := ounion s1.elems s2.elems
    (⟨s1.M, r.1, false⟩, r.2.1, r.2.2)
  else if !s1.inverted && s2.inverted then
    -- swapped call, then invert_i1_i2
    if !big && s1.elems.length > s2.M - s2.elems.length then
      let r := ounion (invert s2).elems s1.elems
      (⟨s1.M, r.1, false⟩, r.2.2, r.2.1)
    else
      let r := ominus s2.elems s1.elems
      (⟨s1.M, r.1, true⟩, false, r.2)
  else
    if !big && s2.elems.length > s1.M - s1.elems.length then
      let r := ounion (invert s1).elems s2.elems
      (⟨s1.M, r.1, false⟩, r.2.1, r.2.2)
    else
      let r := ominus s1.elems s2.elems
      (⟨s1.M, r.1, true⟩, r.2, false)

def withStatus (r : FSI × Bool × Bool) : FSI × FStatus :=
  (r.1, if r.1.isEmpty then .empty else statusExt r.2.1 r.2.2)

def intersect (big : Bool) (s1 s2 : FSI) : FSI × FStatus := withStatus (intersectInternal big s1 s2)
def union (big : Bool) (s1 s2 : FSI) : FSI × FStatus := withStatus (unionInternal big s1 s2)

/-- `lp_feasibility_set_int_eq` -/
def eq (big : Bool) (s1 s2 : FSI) : Bool :=
  if s1.inverted = s2.inverted then s1.elems = s2.elems
  else
    match sizeApproxC s1 (!big), sizeApproxC s2 (!big) with
    | some a, some b => a = b && (ointersect s1.elems s2.elems).1.length = 0
    | _, _ => false

/-- the walk 0, 1, -1, 2, -2, … of `pick_value` on an inverted set (fuel-bounded) -/
def pickWalk (elems : List Int) : Nat → Int → Option Int
  | 0, _ => none
  | fuel+1, v =>
    let v1 := v + 1
    if !elems.contains v1 then some v1
    else if !elems.contains (-v1) then some (-v1)
    else pickWalk elems fuel v1

def pickInverted (s : FSI) : Option Int :=
  if !s.elems.contains 0 then some 0 else pickWalk s.elems (s.M + 1) 0

/-- construction from arbitrary integers: normalise, sort, remove duplicates -/
def insertSorted (x : Int) : List Int → List Int
  | [] => [x]
  | y :: l => if x < y then x :: y :: l else if x = y then y :: l else y :: insertSorted x l

def ofList (M : Nat) (l : List Int) (inverted : Bool) : FSI :=
  ⟨M, (l.map (normalizeM M)).foldr insertSorted [], inverted⟩

end FSI
end LP
