/-
  C12 — the comparison of the library's feasible set with the reference set (`Driver.setMatches`) is sound: if it accepts, the
  intervals returned by the library (end points of any value kind, denoting extended reals) contain exactly the real numbers of
  the reference set (`setMatches_sound`).  Composed with `C12_feasible_exact`: an accepted set is the solution set of the
  constraint (`C12_accepted_set_exact`).
-/
import LP.Props.C12Exact
import LP.Props.C08
import LP.Driver.Eval

namespace LP
open LP.Driver Eval QPoly MPoly

/-- membership of a real in an interval of the library, given the extended reals its end points denote -/
def VInt.mem (g : Val × Bool × Val × Bool) (lo hi : EReal) (v : ℝ) : Prop :=
  (if g.2.1 then lo < (v : EReal) else lo ≤ (v : EReal)) ∧ (if g.2.2.2 then (v : EReal) < hi else (v : EReal) ≤ hi)

/-- an end point accepted by the comparison denotes the reference end point -/
theorem epMatches_sound (rs : List Alg) (xs : List ℝ) (hd : DenList rs xs) (e : EPt) (val : Val) (x : EReal)
    (hx : ValDen val x) (h : epMatches rs e val = some true) : x = EPt.val (fun i => xs.getD i 0) e := by
  cases e with
  | ninf =>
    cases val <;> simp [epMatches] at h
    exact hx
  | pinf =>
    cases val <;> simp [epMatches] at h
    exact hx
  | root i =>
    have key : ∀ (r : Alg) (z : ZAlg), rs[i]? = some r → val.toZ? = some z → (Alg.cmp r z.a).map (· == 0) = some true →
        x = EPt.val (fun i => xs.getD i 0) (.root i) := by
      intro r z hr hz hc
      obtain ⟨ρ, hρ, hvr, hdr⟩ := forall₂_index hd i r hr
      have hxi : xs.getD i 0 = ρ := by simp [List.getD, hρ]
      have hc0 : Alg.cmp r z.a = some 0 := by
        cases hcm : Alg.cmp r z.a with
        | none => rw [hcm] at hc; simp at hc
        | some c => rw [hcm] at hc; simp at hc; rw [hc]
      -- the value denotes a real through the same algebraic number
      have hfin : ∃ (a : ZAlg) (s : ℝ), val.toZ? = some a ∧ a.a.Valid ∧ a.a.Den s ∧ x = (s : EReal) := by
        cases val <;> first | exact hx | (simp [Val.toZ?] at hz)
      obtain ⟨a, s, ha, hva, hda, rfl⟩ := hfin
      rw [hz] at ha
      have haz : z = a := Option.some.inj ha
      subst haz
      rcases Alg.cmp_sound r z.a 0 ρ s hvr hdr hva hda hc0 with ⟨h1, _⟩ | ⟨_, h2⟩ | ⟨h1, _⟩
      · omega
      · show (s : EReal) = ((xs.getD i 0 : ℝ) : EReal)
        rw [hxi, h2]
      · omega
    unfold epMatches at h
    cases hr : rs[i]? with
    | none => cases val <;> simp [hr] at h
    | some r =>
      cases hz : val.toZ? with
      | none => cases val <;> simp_all [Val.toZ?]
      | some z =>
        refine key r z hr hz ?_
        cases val <;> simp_all [Val.toZ?]

/-- existential transfer along two lists related element by element -/
theorem exists_forall₂ {α β : Type} {R : α → β → Prop} {P : α → Prop} {Q : β → Prop} :
    ∀ {l : List α} {l' : List β}, List.Forall₂ R l l' → (∀ a b, R a b → (P a ↔ Q b)) →
      ((∃ a ∈ l, P a) ↔ (∃ b ∈ l', Q b)) := by
  intro l l' h
  induction h with
  | nil => intro _; simp
  | cons h1 _ ih =>
    intro hpq
    simp only [List.mem_cons, exists_eq_or_imp]
    rw [hpq _ _ h1, ih hpq]

theorem zip_forall₂ {α β : Type} {R : α → β → Prop} : ∀ (l : List α) (l' : List β), l.length = l'.length →
    (∀ p ∈ l.zip l', R p.1 p.2) → List.Forall₂ R l l' := by
  intro l
  induction l with
  | nil => intro l' hl _; cases l' with | nil => exact List.Forall₂.nil | cons _ _ => simp at hl
  | cons a l ih =>
    intro l' hl h
    cases l' with
    | nil => simp at hl
    | cons b l' =>
      refine List.Forall₂.cons (h (a, b) (by simp)) (ih l' (by simpa using hl) ?_)
      intro p hp
      exact h p (by simp [hp])

/-- **the set comparison is sound**: an accepted set of the library denotes the reference set -/
theorem setMatches_sound (rs : List Alg) (xs : List ℝ) (hd : DenList rs xs) (want : List SInt)
    (got : List (Val × Bool × Val × Bool)) (den : Val → EReal)
    (hden : ∀ g ∈ got, ValDen g.1 (den g.1) ∧ ValDen g.2.2.1 (den g.2.2.1))
    (h : setMatches rs want got = some true) (v : ℝ) :
    (∃ I ∈ want, SInt.mem (fun i => xs.getD i 0) I v) ↔ (∃ g ∈ got, VInt.mem g (den g.1) (den g.2.2.1) v) := by
  unfold setMatches at h
  by_cases hl : want.length ≠ got.length
  · rw [if_pos hl] at h; simp at h
  · rw [if_neg hl] at h
    have hlen : want.length = got.length := by simpa using hl
    obtain ⟨bs, hm, hall⟩ := Option.map_eq_some_iff.1 h
    have h : ∀ b ∈ bs, b = true := by
      intro b hb
      have := List.all_eq_true.1 hall b hb
      simpa using this
    · have hf := mapM_forall₂ _ _ _ hm
      -- every zipped pair was judged `true`
      have hpair : ∀ p ∈ want.zip got, epMatches rs p.1.lo p.2.1 = some true ∧ epMatches rs p.1.hi p.2.2.2.1 = some true ∧
          p.1.loOpen = p.2.2.1 ∧ p.1.hiOpen = p.2.2.2.2 := by
        intro p hp
        obtain ⟨k, hk, rfl⟩ := List.getElem_of_mem hp
        obtain ⟨b, hb, hfb⟩ := forall₂_index hf k _ (List.getElem?_eq_getElem hk)
        have hbt : b = true := h b (List.mem_of_getElem? hb)
        subst hbt
        dsimp only at hfb
        cases h1 : epMatches rs (want.zip got)[k].1.lo (want.zip got)[k].2.1 with
        | none => rw [h1] at hfb; simp at hfb
        | some a1 =>
          cases h2 : epMatches rs (want.zip got)[k].1.hi (want.zip got)[k].2.2.2.1 with
          | none => rw [h1, h2] at hfb; simp at hfb
          | some a2 =>
            rw [h1, h2] at hfb
            simp only [Option.some.injEq, Bool.and_eq_true, beq_iff_eq] at hfb
            obtain ⟨⟨⟨e1, e2⟩, e3⟩, e4⟩ := hfb
            subst e1; subst e2
            exact ⟨rfl, rfl, e3, e4⟩
      refine exists_forall₂ (R := fun (w : SInt) (g : Val × Bool × Val × Bool) =>
          epMatches rs w.lo g.1 = some true ∧ epMatches rs w.hi g.2.2.1 = some true ∧ w.loOpen = g.2.1 ∧ w.hiOpen = g.2.2.2 ∧ g ∈ got)
        (zip_forall₂ want got hlen (fun p hp => ⟨(hpair p hp).1, (hpair p hp).2.1, (hpair p hp).2.2.1, (hpair p hp).2.2.2,
          (List.of_mem_zip hp).2⟩)) ?_
      intro w g ⟨m1, m2, o1, o2, hg⟩
      obtain ⟨d1, d2⟩ := hden g hg
      have e1 := epMatches_sound rs xs hd w.lo g.1 _ d1 m1
      have e2 := epMatches_sound rs xs hd w.hi g.2.2.1 _ d2 m2
      unfold SInt.mem VInt.mem
      rw [e1, e2, o1, o2]

/-- **C12, end to end for an accepted answer**: when the reference answers and the comparison accepts the set returned by the
    library, a real number lies in the library's set exactly when the (possibly negated) condition holds for the
    specialised polynomial there. -/
theorem C12_accepted_set_exact (p : MPoly) (y : ℕ) (a : Asg) (ν : ℕ → ℝ) (cond : ℕ) (neg : Bool) (cap : ℕ)
    (rs : List Alg) (S : List SInt) (got : List (Val × Bool × Val × Bool)) (den : Val → EReal)
    (hden : AsgDen a ν) (hroots : ∀ xz ∈ a, evalR (ZAlg.toQ xz.2.f) (ν xz.1) = 0) (hya : ∀ xz ∈ a, xz.1 ≠ y)
    (hzp : ∀ t ∈ p, ∀ pr ∈ t.1, pr.1 ≠ zVar) (hza : ∀ xz ∈ a, xz.1 ≠ zVar) (hyz : y ≠ zVar)
    (hnz : identicallyZero p y a = some false)
    (h : feasible p y a cond neg cap = some (rs, S))
    (hgot : ∀ g ∈ got, ValDen g.1 (den g.1) ∧ ValDen g.2.2.1 (den g.2.2.1))
    (hacc : setMatches rs S got = some true) (v : ℝ) :
    (∃ g ∈ got, VInt.mem g (den g.1) (den g.2.2.1) v) ↔
      (if neg then ¬ CondHolds cond (specR p ν y v) else CondHolds cond (specR p ν y v)) := by
  obtain ⟨xs, hd, _, hmem⟩ := C12_feasible_exact p y a ν cond neg cap rs S hden hroots hya hzp hza hyz hnz h
  rw [← setMatches_sound rs xs hd S got den hgot hacc v]
  exact hmem v

end LP
