/-
  C13 — the intersection is returned in normal form: for operands in normal form (well-formed intervals, consecutive ones
  separated by a gap that cannot be closed) every interval of the result of `lp_feasibility_set_intersect_with_status` is
  well-formed and consecutive ones are again separated by such a gap (`C13_intersect_nfs`).  Together with `C13_union_nf`
  every set built from well-formed intervals by unions and intersections is in the normal form that the theorems about
  membership, emptiness, fullness, the single-point test and the integer counts assume.
-/
import LP.Props.C13UnionNF
import LP.Props.C13Status

set_option linter.unusedSectionVars false

namespace LP
namespace FSet
open VI

/-! ### order facts -/

theorem EP.cmp_lt_of_lt_of_le (a b c : EP) (h1 : EP.cmp a b < 0) (h2 : EP.cmp b c ≤ 0) : EP.cmp a c < 0 := by
  rcases lt_or_eq_of_le h2 with h2 | h2
  · exact EP.cmp_lt_trans _ _ _ h1 h2
  · rw [← (EP.cmp_eq_zero _ _).1 h2]; exact h1

theorem EP.cmp_lt_of_le_of_lt (a b c : EP) (h1 : EP.cmp a b ≤ 0) (h2 : EP.cmp b c < 0) : EP.cmp a c < 0 := by
  rcases lt_or_eq_of_le h1 with h1 | h1
  · exact EP.cmp_lt_trans _ _ _ h1 h2
  · rw [(EP.cmp_eq_zero _ _).1 h1]; exact h2

/-- a gap before `I` is a gap before everything that starts no earlier than `I` -/
theorem gap_mono (A I K : VI) (h : Gap A I) (hl : LowLe I K) : Gap A K := by
  unfold Gap at *
  rcases (lowLe_iff I K).1 hl with h2 | ⟨e2, o2⟩
  · rcases h with h1 | ⟨h1, _, _⟩
    · exact Or.inl (EP.cmp_lt_trans _ _ _ h1 h2)
    · rw [(EP.cmp_eq_zero _ _).1 h1]; exact Or.inl h2
  · rw [← e2]
    rcases h with h1 | ⟨h1, b1, b2⟩
    · exact Or.inl h1
    · exact Or.inr ⟨h1, b1, o2 b2⟩

/-- the gap depends on the upper bound of the first interval only -/
theorem gap_congr_left (P I J : VI) (h1 : P.upper = I.upper) (h2 : P.bOpen = I.bOpen) : Gap P J ↔ Gap I J := by
  unfold Gap; rw [h1, h2]

theorem gap_trans (I J K : VI) (h1 : Gap I J) (hw : J.WF) (h2 : Gap J K) : Gap I K := by
  have hj := wf_lower_le_upper J hw
  have h2' : EP.cmp J.upper K.lower ≤ 0 := by
    rcases h2 with h2 | ⟨h2, _⟩
    · exact h2.le
    · exact h2.le
  left
  rcases h1 with h1 | ⟨h1, _, ho⟩
  · exact EP.cmp_lt_of_lt_of_le _ _ _ h1 (EP.cmp_le_trans _ _ _ hj h2')
  · -- the ends touch and `J` is open below: `J` is not a point, so it has positive length
    rw [(EP.cmp_eq_zero _ _).1 h1]
    have hlt : EP.cmp J.lower J.upper < 0 := by
      unfold WF at hw
      by_cases hp : J.isPoint = true
      · rw [if_pos hp] at hw
        rw [hw.2.1] at ho; exact absurd ho (by simp)
      · rw [if_neg hp] at hw
        have : J.upper = J.b := by simp [upper, hp]
        rw [this]; exact hw.1
    exact EP.cmp_lt_of_lt_of_le _ _ _ hlt h2'

theorem nfs_tail (I : VI) (r : List VI) (h : NFs (I :: r)) : NFs r :=
  ⟨fun J hJ => h.1 J (List.mem_cons_of_mem _ hJ), (List.isChain_cons.1 h.2).2⟩

/-- in a normal form the first interval has a gap to every later one -/
theorem nfs_head_gap : ∀ (r : List VI) (I : VI), NFs (I :: r) → ∀ J ∈ r, Gap I J := by
  intro r
  induction r with
  | nil => intro I _ J hJ; simp at hJ
  | cons K r ih =>
    intro I h J hJ
    have hIK : Gap I K := (List.isChain_cons_cons.1 h.2).1
    rcases List.mem_cons.1 hJ with rfl | hJ
    · exact hIK
    · exact gap_trans I K J hIK (h.1 K (by simp)) (ih K (nfs_tail I _ h) J hJ)

/-! ### the bounds of the interval handed back -/

theorem lowLe_of_bounds (I P : VI) (h1 : P.lower = I.lower) (h2 : P.aOpen = I.aOpen) : LowLe I P :=
  (lowLe_iff I P).2 (Or.inr ⟨h1.symm, fun h => by rw [h2]; exact h⟩)

theorem lowLe_flip_of_ge (I1 I2 : VI) (h : cmpLower I1 I2 ≥ 0) : LowLe I2 I1 := by
  unfold LowLe; rw [cmpLower_flip]; omega

theorem wf_point_of (v : EP) (h : ∃ q, v = .fin q) : (point v).WF := by
  unfold WF point
  simp only [if_true, and_self, and_true]
  exact h

theorem wf_mk' (a b : EP) (ao bo : Bool) (h : EP.cmp a b < 0) (h1 : a = .ninf → ao = true) (h2 : b = .pinf → bo = true)
    (h3 : a ≠ .pinf) (h4 : b ≠ .ninf) : (mk' a ao b bo).WF := by
  unfold WF mk'
  simp only [Bool.false_eq_true, if_false]
  exact ⟨h, h1, h2, h3, h4⟩

/-- the interval handed back is well-formed, starts at the later of the two lower bounds and ends at the earlier of the
    two upper bounds -/
theorem cwi_bounds (I1 I2 P : VI) (h : (cmpWithIntersect I1 I2).2 = some P) (w1 : I1.WF) (w2 : I2.WF) :
    P.WF ∧ LowLe I1 P ∧ LowLe I2 P ∧
    ((cmpUpper I1 I2 ≤ 0 ∧ P.upper = I1.upper ∧ P.bOpen = I1.bOpen) ∨
     (cmpUpper I1 I2 ≥ 0 ∧ P.upper = I2.upper ∧ P.bOpen = I2.bOpen)) := by
  have isI1 : cmpUpper I1 I2 ≤ 0 → cmpLower I1 I2 ≥ 0 → I1.WF ∧ LowLe I1 I1 ∧ LowLe I2 I1 ∧
      ((cmpUpper I1 I2 ≤ 0 ∧ I1.upper = I1.upper ∧ I1.bOpen = I1.bOpen) ∨
       (cmpUpper I1 I2 ≥ 0 ∧ I1.upper = I2.upper ∧ I1.bOpen = I2.bOpen)) :=
    fun hu hl => ⟨w1, lowLe_of_bounds _ _ rfl rfl, lowLe_flip_of_ge _ _ hl, Or.inl ⟨hu, rfl, rfl⟩⟩
  have isI2 : cmpUpper I1 I2 ≥ 0 → cmpLower I1 I2 ≤ 0 → I2.WF ∧ LowLe I1 I2 ∧ LowLe I2 I2 ∧
      ((cmpUpper I1 I2 ≤ 0 ∧ I2.upper = I1.upper ∧ I2.bOpen = I1.bOpen) ∨
       (cmpUpper I1 I2 ≥ 0 ∧ I2.upper = I2.upper ∧ I2.bOpen = I2.bOpen)) :=
    fun hu hl => ⟨w2, hl, lowLe_of_bounds _ _ rfl rfl, Or.inr ⟨hu, rfl, rfl⟩⟩
  obtain ⟨u1a, u1b⟩ := wf_upper_facts I1 w1
  obtain ⟨u2a, u2b⟩ := wf_upper_facts I2 w2
  obtain ⟨l1a, l1b⟩ := wf_lower_facts I1 w1
  obtain ⟨l2a, l2b⟩ := wf_lower_facts I2 w2
  unfold cmpWithIntersect cwiCore at h
  split_ifs at h with h1 h2 h3 h4 h5 h6 h7 h8
  · simp only [Option.some.injEq] at h; subst h; exact isI1 (by omega) (by omega)
  · simp only [Option.some.injEq] at h; subst h; exact isI1 (by omega) (by omega)
  · simp only [Option.some.injEq] at h; subst h; exact isI2 (by omega) (by omega)
  · simp only [Option.some.injEq] at h; subst h; exact isI1 (by omega) (by omega)
  · simp only [Option.some.injEq] at h; subst h; exact isI2 (by omega) (by omega)
  · simp only [Option.some.injEq] at h; subst h; exact isI2 (by omega) (by omega)
  · simp only [Option.some.injEq] at h; subst h; exact isI1 (by omega) (by omega)
  · -- I1 starts and ends before I2
    have hl : cmpLower I1 I2 < 0 := by
      by_contra hc
      rcases Int.lt_or_eq_of_le (not_lt.1 hc) with hc | hc
      · exact h2 ⟨h8, hc⟩
      · exact h7 ⟨hc.symm, h8⟩
    unfold cwiLt at h
    split_ifs at h with c1 c2 c3
    · simp only [Option.some.injEq] at h; subst h
      have hc : I1.bOpen = false ∧ I2.aOpen = false := by
        constructor <;> by_contra hh <;> exact c1 ⟨c2, by simp_all⟩
      have he : I1.upper = I2.lower := (EP.cmp_eq_zero _ _).1 c2
      refine ⟨wf_point_of _ (wf_lower_fin_of_closed I2 w2 hc.2), ?_, lowLe_of_bounds _ _ rfl hc.2.symm, Or.inl ⟨h8.le, ?_, hc.1.symm⟩⟩
      · exact lowLe_trans _ _ _ hl.le (lowLe_of_bounds I2 (point I2.a) rfl hc.2.symm)
      · show I2.a = I1.upper
        rw [he]; rfl
    · simp only [Option.some.injEq] at h; subst h
      have hlt : EP.cmp I2.lower I1.upper < 0 := (EP.cmp_antisymm _ _).1 (by omega)
      have hne : EP.cmp I2.lower I1.upper ≠ 0 := by omega
      have hcon : construct I2.lower I2.aOpen I1.upper I1.bOpen = mk' I2.lower I2.aOpen I1.upper I1.bOpen := by
        unfold construct; rw [if_neg hne]
      rw [hcon]
      refine ⟨wf_mk' _ _ _ _ hlt l2b u1b l2a u1a, ?_, lowLe_of_bounds _ _ rfl rfl, Or.inl ⟨h8.le, rfl, rfl⟩⟩
      exact lowLe_trans _ _ _ hl.le (lowLe_of_bounds I2 (mk' I2.lower I2.aOpen I1.upper I1.bOpen) rfl rfl)
  · -- I1 starts and ends after I2
    have hu : cmpUpper I1 I2 > 0 := by
      by_contra hc
      have : cmpUpper I1 I2 = 0 := by omega
      rcases lt_trichotomy (cmpLower I1 I2) 0 with hh | hh | hh
      · exact h5 ⟨this, hh⟩
      · exact h1 ⟨this, hh⟩
      · exact h4 ⟨this, hh⟩
    have hl : cmpLower I1 I2 > 0 := by
      by_contra hc
      rcases Int.lt_or_eq_of_le (not_lt.1 hc) with hc | hc
      · exact h3 ⟨hu, hc⟩
      · exact h6 ⟨hc, hu⟩
    have l21 : LowLe I2 I1 := lowLe_flip_of_ge _ _ hl.le
    unfold cwiGt at h
    split_ifs at h with c1 c2 c3
    · simp only [Option.some.injEq] at h; subst h
      have hc : I1.aOpen = false ∧ I2.bOpen = false := by
        constructor <;> by_contra hh <;> exact c1 ⟨c2, by simp_all⟩
      have he : I1.lower = I2.upper := (EP.cmp_eq_zero _ _).1 c2
      refine ⟨wf_point_of _ (wf_lower_fin_of_closed I1 w1 hc.1), lowLe_of_bounds _ _ rfl hc.1.symm, ?_, Or.inr ⟨hu.le, ?_, hc.2.symm⟩⟩
      · exact lowLe_trans _ _ _ l21 (lowLe_of_bounds I1 (point I1.a) rfl hc.1.symm)
      · show I1.a = I2.upper
        rw [← he]; rfl
    · simp only [Option.some.injEq] at h; subst h
      have hcon : construct I1.lower I1.aOpen I2.upper I2.bOpen = mk' I1.lower I1.aOpen I2.upper I2.bOpen := by
        unfold construct; rw [if_neg c2]
      rw [hcon]
      refine ⟨wf_mk' _ _ _ _ c3 l1b u2b l1a u2a, lowLe_of_bounds _ _ rfl rfl, ?_, Or.inr ⟨hu.le, rfl, rfl⟩⟩
      exact lowLe_trans _ _ _ l21 (lowLe_of_bounds I1 (mk' I1.lower I1.aOpen I2.upper I2.bOpen) rfl rfl)

/-! ### the sweep -/

/-- invariant of the sweep for the strong normal form: the intervals produced so far are well-formed, consecutive ones are
    separated by a gap, and the last one produced has a gap to everything that remains in the first operand or to
    everything that remains in the second -/
def InvS (acc s1 s2 : List VI) : Prop :=
  (∀ A ∈ acc, A.WF) ∧ acc.IsChain (fun B A => Gap A B) ∧
  ∀ A ∈ acc.head?, (∀ I ∈ s1, Gap A I) ∨ (∀ J ∈ s2, Gap A J)

theorem invS_tail1 (acc : List VI) (I1 : VI) (r1 s2 : List VI) (h : InvS acc (I1 :: r1) s2) : InvS acc r1 s2 :=
  ⟨h.1, h.2.1, fun A hA => (h.2.2 A hA).imp (fun k I hI => k I (List.mem_cons_of_mem _ hI)) id⟩

theorem invS_tail2 (acc : List VI) (s1 : List VI) (I2 : VI) (r2 : List VI) (h : InvS acc s1 (I2 :: r2)) : InvS acc s1 r2 :=
  ⟨h.1, h.2.1, fun A hA => (h.2.2 A hA).imp id (fun k I hI => k I (List.mem_cons_of_mem _ hI))⟩

theorem invS_push (acc : List VI) (I1 I2 P : VI) (r1 r2 s1' s2' : List VI) (hi : InvS acc (I1 :: r1) (I2 :: r2))
    (hw : P.WF) (l1 : LowLe I1 P) (l2 : LowLe I2 P)
    (hu : (P.upper = I1.upper ∧ P.bOpen = I1.bOpen ∧ s1' = r1) ∨ (P.upper = I2.upper ∧ P.bOpen = I2.bOpen ∧ s2' = r2))
    (g1 : ∀ I ∈ r1, Gap I1 I) (g2 : ∀ J ∈ r2, Gap I2 J) : InvS (P :: acc) s1' s2' := by
  refine ⟨?_, ?_, ?_⟩
  · intro A hA
    rcases List.mem_cons.1 hA with rfl | hA
    · exact hw
    · exact hi.1 A hA
  · rw [List.isChain_cons]
    refine ⟨fun A hA => ?_, hi.2.1⟩
    rcases hi.2.2 A hA with k | k
    · exact gap_mono A I1 P (k I1 List.mem_cons_self) l1
    · exact gap_mono A I2 P (k I2 List.mem_cons_self) l2
  · intro A hA
    simp only [List.head?_cons, Option.mem_def, Option.some.injEq] at hA
    subst hA
    rcases hu with ⟨e1, e2, e3⟩ | ⟨e1, e2, e3⟩
    · left; subst e3
      intro I hI
      exact (gap_congr_left _ I1 I e1 e2).2 (g1 I hI)
    · right; subst e3
      intro J hJ
      exact (gap_congr_left _ I2 J e1 e2).2 (g2 J hJ)

theorem intersectLoop_nfs : ∀ (fuel : Nat) (s1 s2 acc : List VI) (a1 a2 : Bool),
    NFs s1 → NFs s2 → InvS acc s1 s2 → NFs (intersectLoop fuel s1 s2 acc a1 a2).1 := by
  intro fuel
  have fin : ∀ (acc s1 s2 : List VI), InvS acc s1 s2 → NFs acc.reverse :=
    fun acc s1 s2 h => ⟨fun I hI => h.1 I (List.mem_reverse.1 hI), List.isChain_reverse.2 h.2.1⟩
  induction fuel with
  | zero =>
    intro s1 s2 acc a1 a2 _ _ hi
    simpa [intersectLoop] using fin _ _ _ hi
  | succ f ih =>
    intro s1 s2 acc a1 a2 n1 n2 hi
    cases s1 with
    | nil =>
      cases s2 with
      | nil => simpa [intersectLoop] using fin _ _ _ hi
      | cons I2 r2 => simpa [intersectLoop] using fin _ _ _ hi
    | cons I1 r1 =>
      cases s2 with
      | nil => simpa [intersectLoop] using fin _ _ _ hi
      | cons I2 r2 =>
        have w1 := n1.1 I1 List.mem_cons_self
        have w2 := n2.1 I2 List.mem_cons_self
        have g1 := nfs_head_gap r1 I1 n1
        have g2 := nfs_head_gap r2 I2 n2
        have n1' := nfs_tail I1 r1 n1
        have n2' := nfs_tail I2 r2 n2
        have hs := cwi_spec I1 I2
        have hnone := (C13_cmp (α := ℚ) I1 I2).1.2
        have push : ∀ (P : VI) (s1' s2' : List VI), (cmpWithIntersect I1 I2).2 = some P →
            ((cmpUpper I1 I2 ≤ 0 → s1' = r1) ∧ (cmpUpper I1 I2 ≥ 0 → s2' = r2)) →
            InvS (P :: acc) s1' s2' := by
          intro P s1' s2' hp hadv
          obtain ⟨hw, l1, l2, hu⟩ := cwi_bounds I1 I2 P hp w1 w2
          refine invS_push acc I1 I2 P r1 r2 s1' s2' hi hw l1 l2 ?_ g1 g2
          rcases hu with ⟨c, e1, e2⟩ | ⟨c, e1, e2⟩
          · exact Or.inl ⟨e1, e2, hadv.1 c⟩
          · exact Or.inr ⟨e1, e2, hadv.2 c⟩
        rw [intersectLoop]
        split <;> rename_i hc
        all_goals (rw [hc] at hnone hs; simp only [ClassSpec] at hs)
        · exact ih _ _ _ _ _ n1' n2 (invS_tail1 _ _ _ _ hi)
        · have hsome : (cmpWithIntersect I1 I2).2 ≠ none := fun h => by simpa using hnone.2 h
          obtain ⟨p, hp⟩ := Option.ne_none_iff_exists'.1 hsome
          rw [hp]
          exact ih _ _ _ _ _ n1' n2 (push p _ _ hp ⟨fun _ => rfl, fun c => by omega⟩)
        · have hsome : (cmpWithIntersect I1 I2).2 ≠ none := fun h => by simpa using hnone.2 h
          obtain ⟨p, hp⟩ := Option.ne_none_iff_exists'.1 hsome
          rw [hp]
          exact ih _ _ _ _ _ n1' n2 (push p _ _ hp ⟨fun _ => rfl, fun c => by omega⟩)
        · have hsome : (cmpWithIntersect I1 I2).2 ≠ none := fun h => by simpa using hnone.2 h
          obtain ⟨p, hp⟩ := Option.ne_none_iff_exists'.1 hsome
          rw [hp]
          exact ih _ _ _ _ _ n1' n2' (push p _ _ hp ⟨fun _ => rfl, fun _ => rfl⟩)
        · have hsome : (cmpWithIntersect I1 I2).2 ≠ none := fun h => by simpa using hnone.2 h
          obtain ⟨p, hp⟩ := Option.ne_none_iff_exists'.1 hsome
          rw [hp]
          exact ih _ _ _ _ _ n1' n2' (push p _ _ hp ⟨fun _ => rfl, fun _ => rfl⟩)
        · have hsome : (cmpWithIntersect I1 I2).2 ≠ none := fun h => by simpa using hnone.2 h
          obtain ⟨p, hp⟩ := Option.ne_none_iff_exists'.1 hsome
          rw [hp]
          exact ih _ _ _ _ _ n1' n2' (push p _ _ hp ⟨fun _ => rfl, fun _ => rfl⟩)
        · have hsome : (cmpWithIntersect I1 I2).2 ≠ none := fun h => by simpa using hnone.2 h
          obtain ⟨p, hp⟩ := Option.ne_none_iff_exists'.1 hsome
          rw [hp]
          exact ih _ _ _ _ _ n1 n2' (push p _ _ hp ⟨fun c => by omega, fun _ => rfl⟩)
        · have hsome : (cmpWithIntersect I1 I2).2 ≠ none := fun h => by simpa using hnone.2 h
          obtain ⟨p, hp⟩ := Option.ne_none_iff_exists'.1 hsome
          rw [hp]
          exact ih _ _ _ _ _ n1 n2' (push p _ _ hp ⟨fun c => by omega, fun _ => rfl⟩)
        · exact ih _ _ _ _ _ n1 n2' (invS_tail2 _ _ _ _ hi)

/-- **the intersection of two sets in normal form is in normal form** -/
theorem C13_intersect_nfs (s1 s2 : List VI) (n1 : NFs s1) (n2 : NFs s2) : NFs (intersect s1 s2).1 := by
  unfold intersect
  by_cases he : (s1.isEmpty || s2.isEmpty) = true
  · rw [if_pos he]; exact ⟨by simp, List.IsChain.nil⟩
  · rw [if_neg he]
    exact intersectLoop_nfs _ s1 s2 [] true true n1 n2 ⟨by simp, List.IsChain.nil, by simp⟩

/-- non-vacuity: two sets in normal form with touching open ends, a point and an unbounded interval -/
example : NFs [mk' (.fin 0) true (.fin 1) true, mk' (.fin 1) true (.fin 2) false, point (.fin 3)] ∧
    NFs [mk' .ninf true (.fin 1) true, mk' (.fin 1) true (.fin 3) false] := by
  refine ⟨⟨?_, ?_⟩, ⟨?_, ?_⟩⟩
  · intro I hI
    simp only [List.mem_cons, List.not_mem_nil, or_false] at hI
    rcases hI with rfl | rfl | rfl
    · exact wf_mk' _ _ _ _ (by decide) (by simp) (by simp) (by simp) (by simp)
    · exact wf_mk' _ _ _ _ (by decide) (by simp) (by simp) (by simp) (by simp)
    · exact wf_point_of _ ⟨3, rfl⟩
  · simp only [List.isChain_cons_cons, List.isChain_singleton, and_true, Gap, mk', point, upper, lower]
    decide
  · intro I hI
    simp only [List.mem_cons, List.not_mem_nil, or_false] at hI
    rcases hI with rfl | rfl
    · exact wf_mk' _ _ _ _ (by decide) (by simp) (by simp) (by simp) (by simp)
    · exact wf_mk' _ _ _ _ (by decide) (by simp) (by simp) (by simp) (by simp)
  · simp only [List.isChain_cons_cons, List.isChain_singleton, and_true, Gap, mk', upper, lower]
    decide

end FSet
end LP
