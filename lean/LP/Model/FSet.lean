/-
  C13 — mirror of src/interval/interval.c (interval comparison with intersection, membership,
  integer containment / counting) and src/polynomial/feasibility_set.c (normal-form interval lists:
  intersection with status, union by sort-and-merge, membership by binary search).
  End points are extended rationals; algebraic end points are replaced by the harness with
  order-isomorphic non-integer rational surrogates.  Core Lean only.
-/
import LP.Model.Scalar
namespace LP

/-- an interval end point / value on the extended line -/
inductive EP
  | ninf
  | fin (q : Rat)
  | pinf
  deriving DecidableEq, Repr, Inhabited

namespace EP
/-- `lp_value_cmp` on the extended line -/
def cmp : EP → EP → Int
  | ninf, ninf => 0
  | ninf, _ => -1
  | _, ninf => 1
  | pinf, pinf => 0
  | pinf, _ => 1
  | _, pinf => -1
  | fin a, fin b => cmpQ a b

def isInf : EP → Bool
  | fin _ => false
  | _ => true
def isInt : EP → Bool
  | fin q => q.den = 1
  | _ => false
end EP

/-- `lp_interval_t` -/
structure VI where
  a : EP
  b : EP
  aOpen : Bool
  bOpen : Bool
  isPoint : Bool
  deriving DecidableEq, Repr, Inhabited

namespace VI

def point (v : EP) : VI := ⟨v, v, false, false, true⟩
def mk' (a : EP) (ao : Bool) (b : EP) (bo : Bool) : VI := ⟨a, b, ao, bo, false⟩
def full : VI := mk' .ninf true .pinf true

def lower (I : VI) : EP := I.a
def upper (I : VI) : EP := if I.isPoint then I.a else I.b

/-- `lp_interval_construct`: collapses to a point when the ends coincide -/
def construct (a : EP) (ao : Bool) (b : EP) (bo : Bool) : VI :=
  if EP.cmp a b = 0 then point a else mk' a ao b bo

/-- `lp_interval_cmp_lower_bounds` -/
def cmpLower (I1 I2 : VI) : Int :=
  let c := EP.cmp I1.lower I2.lower
  if c ≠ 0 then c else if I1.aOpen = I2.aOpen then 0 else if I1.aOpen then 1 else -1

/-- `lp_interval_cmp_upper_bounds` -/
def cmpUpper (I1 I2 : VI) : Int :=
  let c := EP.cmp I1.upper I2.upper
  if c ≠ 0 then c else if I1.bOpen = I2.bOpen then 0 else if I1.bOpen then -1 else 1

/-- `lp_interval_cmp_t` -/
inductive ICmp
  | ltNo | ltWith | ltWithI1 | leqWithI2 | eq | geqWithI1 | gtWithI2 | gtWith | gtNo
  deriving DecidableEq, Repr

/-- last block of `lp_interval_cmp_with_intersect`: I1 starts and ends before I2 -/
def cwiLt (I1 I2 : VI) : ICmp × Option VI :=
  if EP.cmp I1.upper I2.lower = 0 ∧ (I1.bOpen = true ∨ I2.aOpen = true) then (.ltNo, none)
  else if EP.cmp I1.upper I2.lower = 0 then (.ltWith, some (point I2.a))
  else if EP.cmp I1.upper I2.lower < 0 then (.ltNo, none)
  else (.ltWith, some (construct I2.lower I2.aOpen I1.upper I1.bOpen))

/-- last block, mirrored: I1 starts and ends after I2 -/
def cwiGt (I1 I2 : VI) : ICmp × Option VI :=
  if EP.cmp I1.lower I2.upper = 0 ∧ (I1.aOpen = true ∨ I2.bOpen = true) then (.gtNo, none)
  else if EP.cmp I1.lower I2.upper = 0 then (.gtWith, some (point I1.a))
  else if EP.cmp I1.lower I2.upper < 0 then (.gtWith, some (construct I1.lower I1.aOpen I2.upper I2.bOpen))
  else (.gtNo, none)

def cwiCore (cu cl : Int) (I1 I2 : VI) : ICmp × Option VI :=
  if cu = 0 ∧ cl = 0 then (.eq, some I1)
  else if cu < 0 ∧ cl > 0 then (.ltWithI1, some I1)
  else if cu > 0 ∧ cl < 0 then (.gtWithI2, some I2)
  else if cu = 0 ∧ cl > 0 then (.geqWithI1, some I1)
  else if cu = 0 ∧ cl < 0 then (.leqWithI2, some I2)
  else if cl = 0 ∧ cu > 0 then (.gtWithI2, some I2)
  else if cl = 0 ∧ cu < 0 then (.ltWithI1, some I1)
  else if cu < 0 then cwiLt I1 I2
  else cwiGt I1 I2

/-- `lp_interval_cmp_with_intersect` -/
def cmpWithIntersect (I1 I2 : VI) : ICmp × Option VI := cwiCore (cmpUpper I1 I2) (cmpLower I1 I2) I1 I2

/-- `lp_interval_cmp_value`: 1 = value below, -1 = value above, 0 = inside -/
def cmpValue (I : VI) (v : EP) : Int :=
  let cav := EP.cmp I.a v
  if I.isPoint then cav
  else if I.aOpen ∧ cav ≥ 0 then 1
  else if ¬ I.aOpen ∧ cav > 0 then 1
  else
    let cvb := EP.cmp v I.b
    if I.bOpen ∧ cvb ≥ 0 then -1
    else if ¬ I.bOpen ∧ cvb > 0 then -1
    else 0

def contains (I : VI) (v : EP) : Bool := cmpValue I v = 0

def ceilE : EP → Int
  | .fin q => qCeil q
  | _ => 0
def floorE : EP → Int
  | .fin q => qFloor q
  | _ => 0

/-- `lp_interval_contains_int` -/
def containsInt (I : VI) : Bool :=
  if I.a.isInf then true
  else
    let aInt := I.a.isInt
    if I.isPoint then aInt
    else if !I.aOpen && aInt then true
    else if I.b.isInf then true
    else
      let bInt := I.b.isInt
      if !I.bOpen && bInt then true
      else
        let m := ceilE I.a + (if aInt then 1 else 0)
        let n := floorE I.b - (if bInt then 1 else 0)
        decide (n ≥ m)

/-- `lp_interval_count_int`; `none` stands for LONG_MAX (infinitely many / overflow) -/
def countInt (I : VI) : Option Int :=
  if I.a.isInf then none
  else
    let aInt := I.a.isInt
    if I.isPoint then some (if aInt then 1 else 0)
    else if I.b.isInf then none
    else
      let bInt := I.b.isInt
      let r0 : Int := (if !I.aOpen && aInt then 1 else 0) + (if !I.bOpen && bInt then 1 else 0)
      let m := ceilE I.a + (if aInt then 1 else 0)
      let n := floorE I.b - (if bInt then 1 else 0)
      let d := n - m
      if d ≥ 0 then
        (if d < 2 ^ 63 - 1 then (let r := r0 + d + 1; if r ≥ 2 ^ 63 then none else some r) else none)
      else some r0

/-- `lp_interval_set_b` on the kept interval during the union merge -/
def setB (I : VI) (b : EP) (bOpen : Bool) : VI :=
  if EP.cmp I.a b ≠ 0 then { I with b := b, bOpen := bOpen, isPoint := false }
  else point b

end VI

/-- feasibility-set intersection status -/
inductive FSStatus | s1 | s2 | empty | new
  deriving DecidableEq, Repr

namespace FSet
open VI

/-- the sweep of `lp_feasibility_set_intersect_with_status`: (result reversed, all_s1, all_s2) -/
def intersectLoop : Nat → List VI → List VI → List VI → Bool → Bool → List VI × Bool × Bool
  | 0, _, _, acc, a1, a2 => (acc.reverse, a1, a2)
  | _, [], [], acc, a1, a2 => (acc.reverse, a1, a2)
  | _, _ :: _, [], acc, _, a2 => (acc.reverse, false, a2)
  | _, [], _ :: _, acc, a1, _ => (acc.reverse, a1, false)
  | fuel+1, I1 :: r1, I2 :: r2, acc, a1, a2 =>
    let c := cmpWithIntersect I1 I2
    let acc' := match c.2 with | some P => P :: acc | none => acc
    match c.1 with
    | .ltNo => intersectLoop fuel r1 (I2 :: r2) acc false a2
    | .ltWith => intersectLoop fuel r1 (I2 :: r2) acc' false false
    | .ltWithI1 => intersectLoop fuel r1 (I2 :: r2) acc' a1 false
    | .leqWithI2 => intersectLoop fuel r1 r2 acc' false a2
    | .eq => intersectLoop fuel r1 r2 acc' a1 a2
    | .geqWithI1 => intersectLoop fuel r1 r2 acc' a1 false
    | .gtWithI2 => intersectLoop fuel (I1 :: r1) r2 acc' false a2
    | .gtWith => intersectLoop fuel (I1 :: r1) r2 acc' false false
    | .gtNo => intersectLoop fuel (I1 :: r1) r2 acc a1 false

def intersect (s1 s2 : List VI) : List VI × FSStatus :=
  if s1.isEmpty || s2.isEmpty then ([], .empty)
  else
    let r := intersectLoop (s1.length + s2.length + 1) s1 s2 [] true true
    let st := if r.2.1 then FSStatus.s1 else if r.2.2 then .s2 else if r.1.isEmpty then .empty else .new
    (r.1, st)

/-- `interval_sort_for_union` as "I1 goes before I2 or ties" -/
def sortKey (I1 I2 : VI) : Int :=
  match (cmpWithIntersect I1 I2).1 with
  | .ltNo => -1 | .ltWith => -1 | .ltWithI1 => 1 | .leqWithI2 => -1 | .eq => 0
  | .geqWithI1 => 1 | .gtWithI2 => -1 | .gtWith => 1 | .gtNo => 1

def insertBy (x : VI) : List VI → List VI
  | [] => [x]
  | y :: l => if sortKey x y ≤ 0 then x :: y :: l else y :: insertBy x l

def sortForUnion (l : List VI) : List VI := l.foldr insertBy []

/-- merge pass of `lp_feasibility_set_add`: `kept` is the reversed list of kept intervals -/
def mergeLoop : List VI → List VI → List VI
  | [], kept => kept.reverse
  | I2 :: rest, [] => mergeLoop rest [I2]
  | I2 :: rest, I1 :: kept =>
    let c := (cmpWithIntersect I1 I2).1
    let merge : Bool :=
      match c with
      | .ltNo => decide (EP.cmp I1.upper I2.lower = 0) && (!I1.bOpen || !I2.aOpen)
      | .ltWith => true | .leqWithI2 => true | .eq => true | .geqWithI1 => true
      | _ => false
    let ignore : Bool := match c with | .gtWithI2 => true | _ => false
    if merge then mergeLoop rest (setB I1 I2.upper I2.bOpen :: kept)
    else if ignore then mergeLoop rest (I1 :: kept)
    else mergeLoop rest (I2 :: I1 :: kept)

def isFull (s : List VI) : Bool :=
  match s with
  | [I] => I.lower = .ninf && I.upper = .pinf
  | _ => false

/-- `lp_feasibility_set_add` (union into the first operand) -/
def add (s frm : List VI) : List VI :=
  if frm.isEmpty then s
  else if isFull s then s
  else mergeLoop (sortForUnion (s ++ frm)) []

/-- binary search of `lp_feasibility_set_contains` over the array, with fuel -/
def containsLoop (arr : Array VI) (v : EP) : Nat → Nat → Nat → Bool
  | 0, _, _ => false
  | fuel+1, l, r =>
    if r > l then
      let m := l + (r - l) / 2
      let c := cmpValue (arr.getD m default) v
      if c > 0 then containsLoop arr v fuel l m
      else if c < 0 then containsLoop arr v fuel (m + 1) r
      else true
    else false

def contains (s : List VI) (v : EP) : Bool := containsLoop s.toArray v (s.length + 1) 0 s.length

def isPoint (s : List VI) : Bool := match s with | [I] => I.isPoint | _ => false
def containsInt (s : List VI) : Bool := s.any VI.containsInt

/-- `lp_feasibility_set_count_int` with LONG_MAX saturation as `none` -/
def countInt (s : List VI) : Option Int :=
  s.foldl (fun acc I => match acc, VI.countInt I with
    | some c, some t => if t ≥ 2 ^ 63 - 1 - c then none else some (c + t)
    | _, _ => none) (some 0)

def isPointInt (s : List VI) : Bool :=
  let r := s.foldl (fun (acc : Option Int) I => match acc with
    | none => none
    | some c => match VI.countInt I with
      | none => none
      | some t => if t > 1 ∨ t + c > 1 then none else some (c + t)) (some 0)
  r = some 1

def toInterval (s : List VI) : Option VI :=
  match s.head?, s.getLast? with
  | some f, some l => some (construct f.a f.aOpen l.upper l.bOpen)
  | _, _ => none

end FSet
end LP
