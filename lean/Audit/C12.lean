import LP.Props.C12
#print axioms LP.Eval.C12_negate
#print axioms LP.Eval.C12_root_constraint
#print axioms LP.Eval.C10_sign_sound
