/-
  C16 — bound inference for sums of univariate quadratics and Fourier–Motzkin resolution of two constraints
  linear in their main variable.  Core Lean only.
-/
import LP.Model.Feasible
namespace LP
open QPoly MPoly

namespace Infer

/-- one summand a·x² + b·x -/
structure Quad where
  x : Nat
  a : Int
  b : Int
deriving Repr

/-- decompose p = Σ (a_k x_k² + b_k x_k) + c over distinct variables; `none` if p has another term -/
def quadShape (p : MPoly) : Option (List Quad × Int) :=
  let ok := p.all (fun t => match t.1 with
    | [] => true
    | [(_, e)] => e = 1 ∨ e = 2
    | _ => false)
  if !ok then none else
  let c := ((p.find? (fun t => t.1.isEmpty)).map (·.2)).getD 0
  let vars := (p.flatMap (fun t => t.1.map (·.1))).eraseDups
  some (vars.map (fun x =>
    { x := x
      a := ((p.find? (fun t => t.1 = [(x, 2)])).map (·.2)).getD 0
      b := ((p.find? (fun t => t.1 = [(x, 1)])).map (·.2)).getD 0 }), c)

/-- σ·p is a sum of squares shape with all a_k > 0:  returns (σ, summands, constant of σ·p) -/
def sosShape (p : MPoly) : Option (Int × List Quad × Int) :=
  match quadShape p with
  | none => none
  | some (qs, c) =>
    if qs.isEmpty then none
    else if qs.all (fun q => q.a > 0) then some (1, qs, c)
    else if qs.all (fun q => q.a < 0) then some (-1, qs.map (fun q => { q with a := -q.a, b := -q.b }), -c)
    else none

/-- D with σ·p = Σ a_k (x_k + b_k/(2a_k))² − D -/
def radius (qs : List Quad) (c : Int) : Rat :=
  qs.foldl (fun acc q => acc + ((q.b * q.b : Int) : Rat) / ((4 * q.a : Int) : Rat)) 0 - (c : Rat)

/-- flip a condition when the polynomial is multiplied by −1 -/
def flipCond (c : Nat) : Nat := match c with | 0 => 4 | 1 => 5 | 4 => 0 | 5 => 1 | c => c

/-- the integer quadratic whose real roots are the end points of the projection on x_k:
    q·(a x² + b x) + p  with  b²/(4a) − D = p/q -/
def projPoly (q : Quad) (D : Rat) : List Int :=
  let t : Rat := ((q.b * q.b : Int) : Rat) / ((4 * q.a : Int) : Rat) - D
  [t.num, (t.den : Int) * q.b, (t.den : Int) * q.a]

inductive Sol
  | empty                 -- the constraint has no real solution
  | box (strict : Bool)   -- solutions project onto the segment between the two roots of `projPoly` (open if strict)
  | unbounded             -- no bounded consequence
deriving Repr, DecidableEq

/-- shape of the solution set of σp (cond) 0 with σp = S − D -/
def solKind (cond : Nat) (D : Rat) : Sol :=
  match cond with
  | 0 => if D ≤ 0 then .empty else .box true
  | 1 => if D < 0 then .empty else .box false
  | 2 => if D < 0 then .empty else .box false
  | _ => .unbounded

/-! ### Fourier–Motzkin -/

/-- drop the leading coefficients (in x) that vanish under the model; returns the reduced polynomial and the
    dropped non-constant coefficients -/
def reductumM (p : MPoly) (x : Nat) (a : Asg) : Nat → Option (MPoly × List MPoly)
  | 0 => none
  | fuel+1 =>
    let d := MPoly.degreeIn x p
    let lc := MPoly.coeffIn none x d p
    if p.isEmpty then some (p, []) else
    match Eval.exactSign lc a with
    | none => none
    | some s =>
      if s ≠ 0 then some (p, [])
      else
        let rest := MPoly.sub none p (MPoly.shl none lc x d)
        if d = 0 then some ([], [])
        else (reductumM rest x a fuel).map (fun r => (r.1, (if lc.all (fun t => t.1.isEmpty) then [] else [lc]) ++ r.2))

/-- normalise to <, <=, =, != -/
def normCons (p : MPoly) (c : Nat) : MPoly × Nat :=
  match c with
  | 4 => (MPoly.neg none p, 0)
  | 5 => (MPoly.neg none p, 1)
  | c => (p, c)

/-- condition of the resolvent (after normalisation); `none` = not resolvable -/
def fmCond (c1 c2 : Nat) : Option Nat :=
  match c1, c2 with
  | 0, 0 => some 0 | 0, 1 => some 0 | 0, 2 => some 0
  | 1, 0 => some 0 | 1, 1 => some 1 | 1, 2 => some 1
  | _, _ => none

structure FM where
  R : MPoly
  cond : Nat
  assumptions : List MPoly

/-- the resolvent of two constraints linear in x (after `reductumM`), if the model permits a positive combination -/
def resolve (p1 : MPoly) (c1 : Nat) (p2 : MPoly) (c2 : Nat) (x : Nat) (a : Asg) : Option (Option FM) :=
  match reductumM p1 x a 10, reductumM p2 x a 10 with
  | some (q1, d1), some (q2, d2) =>
    if MPoly.degreeIn x q1 ≠ 1 ∨ MPoly.degreeIn x q2 ≠ 1 then some none else
    let n1 := normCons q1 c1
    let n2 := normCons q2 c2
    match fmCond n1.2 n2.2 with
    | none => some none
    | some rc =>
      let l1 := MPoly.coeffIn none x 1 n1.1
      let l2 := MPoly.coeffIn none x 1 n2.1
      match Eval.exactSign l1 a, Eval.exactSign l2 a with
      | some s1, some s2 =>
        -- opposite signs, or equal signs with the second constraint an equation (its multiplier may be negative)
        let s1' : Int := if s1 = s2 ∧ n2.2 = 2 then -s1 else s1
        if s1 = s2 ∧ n2.2 ≠ 2 then some none
        else
          let m2 := if s1' > 0 then l1 else MPoly.neg none l1      -- multiplier of the second constraint
          let m1 := if s2 > 0 then l2 else MPoly.neg none l2       -- multiplier of the first constraint (positive)
          let R := MPoly.add none (MPoly.mul none n1.1 m1) (MPoly.mul none n2.1 m2)
          let isConst : MPoly → Bool := fun q => q.all (fun t => t.1.isEmpty)
          some (some { R := R, cond := rc,
                       assumptions := d1 ++ d2 ++ (if isConst l1 then [] else [l1]) ++ (if isConst l2 then [] else [l2]) })
      | _, _ => none
  | _, _ => none

end Infer
end LP
