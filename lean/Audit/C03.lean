import LP.Props.C03
import LP.Props.C03Greatest
import LP.Props.C03Fp
#print axioms LP.QPoly.toPoly_add
#print axioms LP.QPoly.toPoly_mul
#print axioms LP.QPoly.toPoly_trim
#print axioms LP.QPoly.C03_bezout_sound
#print axioms LP.QPoly.C03_coprimeCert_sound
#print axioms LP.MPoly.C03_gcd_divides
#print axioms LP.C03_greatest_of_coprime
#print axioms LP.C03_greatest_univariate
#print axioms LP.FPoly.toPolyF_mul
#print axioms LP.FPoly.coprimeCert_sound
