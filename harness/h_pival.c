/* C15 harness (second part): polynomial evaluation over a box of intervals and the interval form of the sign-condition test.
 *   pi value <order, top variable first> <poly> <k=I;...> => <I>     lp_polynomial_interval_value
 *   pi consint <cond 0..5> <I> => 0|1                               lp_sign_condition_consistent_interval
 * Boxes use finite end points of every exact kind (integer, dyadic, rational), every strictness, point intervals, intervals
 * containing / touching / ending at zero; the sign-condition test also gets infinite ends.
 */
#include "hpoly.h"
#include <sign_condition.h>
#include <assignment.h>
#define main h_interval_main
#include "h_interval.c"
#undef main

static void pival_case(void) {
  int nv = 1 + (int)rnd(4);
  int reversed = chance(30);
  if (reversed) lp_variable_order_reverse(hp_order);
  lp_polynomial_t* p = hp_random_poly(0, nv, 1 + rnd(3), 1 + rnd(5));
  if (chance(25)) { lp_polynomial_t* q = hp_random_poly(0, nv, 2, 2); lp_polynomial_mul(p, p, q); lp_polynomial_delete(q); }
  lp_interval_assignment_t* IM = lp_interval_assignment_new(hp_db);
  vival V[NVARS]; lp_interval_t I[NVARS];
  /* sometimes the assignment was used before: every variable held a narrow interval, then lp_interval_assignment_reset; only
     some variables are set again afterwards and the others must count as unconstrained */
  int reuse = chance(25); int unset[NVARS] = { 0 };
  if (reuse) {
    for (int k = 0; k < NVARS; ++k) { lp_value_t z; lp_integer_t c; lp_integer_construct_from_int(lp_Z, &c, k); lp_value_construct(&z, LP_VALUE_INTEGER, &c);
      lp_interval_t pt; lp_interval_construct_point(&pt, &z); lp_interval_assignment_set_interval(IM, hp_x[k], &pt);
      lp_interval_destruct(&pt); lp_value_destruct(&z); lp_integer_destruct(&c); }
    lp_interval_assignment_reset(IM);
    for (int k = 0; k < NVARS; ++k) unset[k] = chance(40);
  }
  for (int k = 0; k < NVARS; ++k) {
    vival_init(&V[k]); gen_vival(&V[k]);
    if (V[k].ainf || V[k].binf) {           /* finite boxes only: make the end points finite, keep them ordered */
      V[k].ainf = V[k].binf = 0;
      if (!V[k].pt) { int c = mpq_cmp(V[k].a, V[k].b); if (c == 0) { mpq_t one; mpq_init(one); mpq_set_ui(one, 1, 1); mpq_add(V[k].b, V[k].b, one); mpq_clear(one); } else if (c > 0) mpq_swap(V[k].a, V[k].b); }
    }
    vi_from(&I[k], &V[k]);
    if (!unset[k]) lp_interval_assignment_set_interval(IM, hp_x[k], &I[k]);
  }
  sb_begin("pi", reuse ? "stale" : "value"); sb_sp();
  if (reversed) sb_str("0,1,2,3"); else sb_str("3,2,1,0");
  sb_sp(); sb_poly(p); sb_sp();
  for (int k = 0; k < NVARS; ++k) { if (k) sb_str(";"); sb_long(k); sb_str("="); sb_vival(&V[k]); }
  if (reuse) { sb_sp(); int any = 0; for (int k = 0; k < NVARS; ++k) if (unset[k]) { if (any) sb_str(","); sb_long(k); any = 1; } if (!any) sb_str("_"); }
  sb_arrow();
  lp_interval_t out; int pre = (int)rnd(3);
  if (pre == 0) lp_interval_construct_zero(&out); else if (pre == 1) lp_interval_construct_full(&out); else lp_interval_construct_copy(&out, &I[0]);
  lp_polynomial_interval_value(p, IM, &out);
  sb_sp(); sb_vi(&out); sb_emit();
  lp_interval_destruct(&out);
  for (int k = 0; k < NVARS; ++k) { lp_interval_destruct(&I[k]); vival_clear(&V[k]); }
  lp_interval_assignment_delete(IM);
  lp_polynomial_delete(p);
  if (reversed) lp_variable_order_reverse(hp_order);
}

static void consint_case(void) {
  vival X; vival_init(&X); gen_vival(&X);
  if (chance(35)) { mpq_set_si(X.a, 0, 1); if (!X.pt && !X.binf && mpq_sgn(X.b) <= 0) mpq_set_si(X.b, 1 + rnd(3), 1); }       /* lower end 0 */
  else if (chance(35) && !X.pt) { mpq_set_si(X.b, 0, 1); if (!X.ainf && mpq_sgn(X.a) >= 0) mpq_set_si(X.a, -1 - (long)rnd(3), 1); }   /* upper end 0 */
  lp_interval_t A; vi_from(&A, &X);
  for (int c = 0; c < 6; ++c) {
    sb_begin("pi", "consint"); sb_sp(); sb_long(c); sb_sp(); sb_vival(&X); sb_arrow();
    sb_sp(); sb_long(lp_sign_condition_consistent_interval((lp_sign_condition_t)c, &A)); sb_emit();
  }
  lp_interval_destruct(&A); vival_clear(&X);
}

int main(int argc, char** argv) {
  uint64_t seed = argc > 1 ? strtoull(argv[1], 0, 10) : 1;
  long n = argc > 2 ? atol(argv[2]) : 1000;
  long only = argc > 3 ? atol(argv[3]) : -1;
  long start = argc > 4 ? atol(argv[4]) : 0;
  lpv_init(); hp_init();
  for (long i = 0; i < n; ++i) {
    if ((only >= 0 && i != only) || i < start) continue;
    lpv_begin_case(seed, i);
    if (chance(70)) pival_case(); else consint_case();
  }
  hp_done();
  free(sb_buf);
  return 0;
}
