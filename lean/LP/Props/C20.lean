import LP.Model.Containers
namespace LP
theorem C20_placeholder : True := trivial
end LP
