/-
  C19 — reference counting of rings and contexts.
  Invariant proved for every history of holder creations and releases: the counter of a ring equals the
  number of live holders that reference it directly or through a context, the counter of a context equals
  the number of its live holders; hence an object's counter is zero — it is freed — exactly when its last
  holder has gone, and never before.  The C counters are compared with this model after every step of
  every generated history.

  The two other clauses of C19 are decided as follows (see DESIGN): output-operand / alias independence is
  the correspondence of every scalar, interval and polynomial operation with a model that is a function of
  the inputs only, run with pre-used and aliased destinations; memory safety is monitored by sanitizers.
-/
import LP.Model.Refs
import Mathlib.Data.List.Count
import Mathlib.Tactic.Linarith

namespace LP
namespace RefState

/-- holder `h` keeps ring `r` alive, directly or through its context -/
def touchesRing (cr : Nat → Nat) (r : Nat) : Holder → Bool
  | .ringHandle x | .upoly x | .fsi x => x = r
  | .ctxHandle c | .extPoly c | .vec c => cr c = r

/-- the counters are exactly the numbers of live holders -/
def Inv (s : RefState) : Prop :=
  (∀ r, s.ringCnt r = (s.holders.countP (touchesRing s.ctxRing r) : Int)) ∧
  (∀ c, s.ctxCnt c = (s.holders.countP (refsCtx c) : Int))

theorem inv_init (cr : Nat → Nat) : (init cr).Inv := by
  constructor <;> intro _ <;> simp [init]

private theorem countP_erase_int (p : Holder → Bool) (l : List Holder) (a : Holder) (h : a ∈ l) :
    ((l.erase a).countP p : Int) = (l.countP p : Int) - (if p a = true then 1 else 0) := by
  have := List.countP_erase (p := p) (l := l) (a := a)
  rw [this]
  by_cases hp : p a = true
  · have hc : (a ∈ l ∧ p a = true) := ⟨h, hp⟩
    rw [if_pos hc, if_pos hp]
    have hpos : 0 < l.countP p := List.countP_pos_iff.2 ⟨a, h, hp⟩
    omega
  · have hc : ¬ (a ∈ l ∧ p a = true) := fun hh => hp hh.2
    rw [if_neg hc, if_neg hp]; simp

private theorem bump_ctxRing (s : RefState) (h : Holder) (d : Int) : (s.bump h d).ctxRing = s.ctxRing := by
  cases h <;> rfl

private theorem bump_ringCnt (s : RefState) (h : Holder) (d : Int) (r : Nat) :
    (s.bump h d).ringCnt r = s.ringCnt r + (if touchesRing s.ctxRing r h = true then d else 0) := by
  cases h <;> simp only [bump, bumpRing, bumpCtx, touchesRing, decide_eq_true_eq] <;> split_ifs <;> simp_all

private theorem bump_ctxCnt (s : RefState) (h : Holder) (d : Int) (c : Nat) :
    (s.bump h d).ctxCnt c = s.ctxCnt c + (if refsCtx c h = true then d else 0) := by
  cases h <;> simp only [bump, bumpRing, bumpCtx, refsCtx, decide_eq_true_eq] <;> (try split_ifs) <;> simp_all

private theorem rel_pos (s : RefState) (h : Holder) (hm : s.holders.contains h = true) :
    s.rel h = { (s.bump h (-1)) with holders := s.holders.erase h } := by
  simp only [rel, hm, if_true]
private theorem rel_neg (s : RefState) (h : Holder) (hm : ¬ s.holders.contains h = true) :
    s.rel h = s := by
  simp only [rel, hm, if_false]; rfl

theorem inv_acq (s : RefState) (h : Holder) (hi : s.Inv) : (s.acq h).Inv ∧ (s.acq h).ctxRing = s.ctxRing := by
  obtain ⟨h1, h2⟩ := hi
  refine ⟨⟨fun r => ?_, fun c => ?_⟩, bump_ctxRing s h 1⟩
  · show (s.bump h 1).ringCnt r = ((h :: s.holders).countP (touchesRing (s.bump h 1).ctxRing r) : Int)
    rw [bump_ctxRing, bump_ringCnt, h1 r, List.countP_cons]
    split_ifs <;> push_cast <;> omega
  · show (s.bump h 1).ctxCnt c = ((h :: s.holders).countP (refsCtx c) : Int)
    rw [bump_ctxCnt, h2 c, List.countP_cons]
    split_ifs <;> push_cast <;> omega

theorem inv_rel (s : RefState) (h : Holder) (hi : s.Inv) : (s.rel h).Inv ∧ (s.rel h).ctxRing = s.ctxRing := by
  obtain ⟨h1, h2⟩ := hi
  by_cases hm : s.holders.contains h = true
  · rw [rel_pos s h hm]
    have hmem : h ∈ s.holders := by simpa using hm
    refine ⟨⟨fun r => ?_, fun c => ?_⟩, bump_ctxRing s h (-1)⟩
    · show (s.bump h (-1)).ringCnt r = ((s.holders.erase h).countP (touchesRing (s.bump h (-1)).ctxRing r) : Int)
      rw [bump_ctxRing, bump_ringCnt, h1 r, countP_erase_int _ _ _ hmem]
      split_ifs <;> omega
    · show (s.bump h (-1)).ctxCnt c = ((s.holders.erase h).countP (refsCtx c) : Int)
      rw [bump_ctxCnt, h2 c, countP_erase_int _ _ _ hmem]
      split_ifs <;> omega
  · rw [rel_neg s h hm]; exact ⟨⟨h1, h2⟩, rfl⟩

/-- one step preserves the invariant -/
theorem inv_step (s : RefState) (op : RefOp) (hi : s.Inv) : (s.step op).Inv ∧ (s.step op).ctxRing = s.ctxRing := by
  cases op with
  | acquire h => exact inv_acq s h hi
  | release h => exact inv_rel s h hi
  | retarget h h' =>
    show (if s.holders.contains h then (s.rel h).acq h' else s).Inv ∧
      (if s.holders.contains h then (s.rel h).acq h' else s).ctxRing = s.ctxRing
    split_ifs
    · obtain ⟨i1, e1⟩ := inv_rel s h hi
      obtain ⟨i2, e2⟩ := inv_acq _ h' i1
      exact ⟨i2, e2.trans e1⟩
    · exact ⟨hi, rfl⟩

/-- every reachable state satisfies the invariant -/
theorem C19_refs (cr : Nat → Nat) (ops : List RefOp) : (run (init cr) ops).Inv := by
  have gen : ∀ (ops : List RefOp) (s : RefState), s.Inv → (run s ops).Inv := by
    intro ops
    induction ops with
    | nil => intro s h; exact h
    | cons o os ih => intro s h; exact ih _ (inv_step s o h).1
  exact gen ops _ (inv_init cr)

/-- an object is freed (counter zero) exactly when no live holder references it -/
theorem C19_freed_iff (cr : Nat → Nat) (ops : List RefOp) (r c : Nat) :
    ((run (init cr) ops).ringCnt r = 0 ↔ ∀ h ∈ (run (init cr) ops).holders, touchesRing (run (init cr) ops).ctxRing r h = false) ∧
    ((run (init cr) ops).ctxCnt c = 0 ↔ ∀ h ∈ (run (init cr) ops).holders, refsCtx c h = false) := by
  obtain ⟨h1, h2⟩ := C19_refs cr ops
  constructor
  · rw [h1 r]
    constructor
    · intro h0 h hm
      have : (run (init cr) ops).holders.countP (touchesRing (run (init cr) ops).ctxRing r) = 0 := by exact_mod_cast h0
      have := List.countP_eq_zero.1 this h hm
      simpa using this
    · intro hall
      have : (run (init cr) ops).holders.countP (touchesRing (run (init cr) ops).ctxRing r) = 0 :=
        List.countP_eq_zero.2 (fun h hm => by simp [hall h hm])
      exact_mod_cast this
  · rw [h2 c]
    constructor
    · intro h0 h hm
      have : (run (init cr) ops).holders.countP (refsCtx c) = 0 := by exact_mod_cast h0
      have := List.countP_eq_zero.1 this h hm
      simpa using this
    · intro hall
      have : (run (init cr) ops).holders.countP (refsCtx c) = 0 :=
        List.countP_eq_zero.2 (fun h hm => by simp [hall h hm])
      exact_mod_cast this

/-! non-vacuity: a history in which a ring outlives its creator handle through a context holder -/
example : (run (init (fun _ => 0)) [.acquire (.ringHandle 0), .acquire (.ctxHandle 1), .release (.ringHandle 0)]).ringCnt 0 = 1 := by
  decide

/-- an external polynomial re-used as the output of an operation on another context moves its reference: the old
    context (held by nobody else) is freed, the new one gains a holder -/
example : let s := run (init (fun c => c)) [.acquire (.ctxHandle 0), .acquire (.ctxHandle 1), .acquire (.extPoly 0),
      .release (.ctxHandle 0), .retarget (.extPoly 0) (.extPoly 1)]
    s.ctxCnt 0 = 0 ∧ s.ctxCnt 1 = 2 ∧ s.ringCnt 0 = 0 ∧ s.ringCnt 1 = 2 := by
  decide

end RefState
end LP
