import LP.Props.C08
import LP.Props.C07Inv
#print axioms LP.C08_cmp
#print axioms LP.ZAlg.C07_select_sound
#print axioms LP.Alg.cmp_sound
#print axioms LP.Alg.floor_sound
#print axioms LP.ZAlg.C07_opEq_sound
#print axioms LP.ZAlg.C07_sub_exact
#print axioms LP.ZAlg.C07_div_exact
