import LP.Driver.Alg
namespace LP.Driver
open LP LP.QPoly

/-- a value as printed by the harness -/
inductive Val
  | int (z : Int)
  | dy (q : Rat)
  | rat (q : Rat)
  | alg (r : RawAlg)
  | pinf
  | minf
  | none

def pVal? (s : String) : Option Val :=
  if s = "V+inf" then some .pinf
  else if s = "V-inf" then some .minf
  else if s = "Vnone" then some .none
  else if s.startsWith "Vz:" then (pInt? (s.drop 3).toString).map .int
  else if s.startsWith "Vd:" then (pEnd? (s.drop 3).toString).map .dy
  else if s.startsWith "Vq:" then (pRat? (s.drop 3).toString).map .rat
  else if s.startsWith "Va:" then (pRawAlg? (s.drop 3).toString).map .alg
  else Option.none

def Val.kind : Val → String
  | .int _ => "z" | .dy _ => "d" | .rat _ => "q" | .alg r => "a" ++ kindOf r | .pinf => "+inf" | .minf => "-inf" | .none => "none"

/-- finite values as algebraic numbers with a defining integer polynomial -/
def Val.toZ? : Val → Option ZAlg
  | .int z => some (ZAlg.ofRat z)
  | .dy q => some (ZAlg.ofRat q)
  | .rat q => some (ZAlg.ofRat q)
  | .alg r => some r.toZ
  | _ => Option.none

/-- position on the extended line: −∞ ↦ -1, finite ↦ 0, +∞ ↦ 1 -/
def Val.rank : Val → Option Int
  | .none => Option.none
  | .minf => some (-1)
  | .pinf => some 1
  | _ => some 0

/-- extended comparison: -1, 0, 1 -/
def Val.cmp (v w : Val) : Option Int :=
  match v.rank, w.rank with
  | some rv, some rw =>
    if rv = 0 ∧ rw = 0 then
      match v.toZ?, w.toZ? with
      | some a, some b => Alg.cmp a.a b.a
      | _, _ => Option.none
    else some (cmpI rv rw)
  | _, _ => Option.none

def Val.sgn (v : Val) : Option Int := v.cmp (.int 0)

def Val.isInf : Val → Bool | .pinf => true | .minf => true | _ => false

/-- representation check of a result value -/
def valOk (v : Val) : Verdict :=
  match v with
  | .alg r => algOk r
  | .none => .viol "val/repr" "result is 'none'"
  | _ => .ok ""

def checkValCore (op : String) (args res : List String) : Verdict :=
  let cap := 7
  match op, args, res with
  | "cmp", [a, b], [c] =>
    match pVal? a, pVal? b, pInt? c with
    | some a, some b, some c =>
      match a.cmp b with
      | Option.none => .skip "cmp out of fuel"
      | some w => let tag := s!"val/cmp/{a.kind}-{b.kind}/{cmpName w}"
                  if sgnI c = w then .ok tag else .viol tag s!"got {c}, exact {w}"
    | _, _, _ => .skip "parse"
  | "cmpq", [a, q], [c] =>
    match pVal? a, pRat? q, pInt? c with
    | some a, some q, some c =>
      match a.cmp (.rat q) with
      | Option.none => .skip "cmp out of fuel"
      | some w => let tag := s!"val/cmpq/{a.kind}/{cmpName w}"
                  if sgnI c = w then .ok tag else .viol tag s!"got {c}, exact {w}"
    | _, _, _ => .skip "parse"
  | "sgn", [a], [c] =>
    match pVal? a, pInt? c with
    | some a, some c =>
      match a.sgn with
      | Option.none => .skip "fuel"
      | some w => let tag := s!"val/sgn/{a.kind}/{cmpName w}"
                  if sgnI c = w then .ok tag else .viol tag s!"got {c}, exact {w}"
    | _, _ => .skip "parse"
  | "add", [a, b], [r] | "sub", [a, b], [r] | "mul", [a, b], [r] | "div", [a, b], [r] =>
    match pVal? a, pVal? b, pVal? r with
    | some a, some b, some r =>
      match valOk r with
      | .ok _ =>
        let tag := s!"val/{op}/{a.kind}-{b.kind}/{r.kind}"
        if a.isInf ∨ b.isInf then
          -- infinities: the documented cases
          match a.sgn, b.sgn with
          | some sa, some sb =>
            let want : Option Val :=
              if op = "add" then (if a.isInf then some a else some b)
              else if op = "sub" then (if a.isInf then some a else some (if sb > 0 then .minf else .pinf))
              else if op = "mul" then some (if sa * sb > 0 then .pinf else .minf)
              else -- div
                if b.isInf then some (.int 0) else some (if sa * sb > 0 then .pinf else .minf)
            match want with
            | some w => (match r.cmp w with | some 0 => .ok tag | some _ => .viol tag "wrong result with an infinite operand" | Option.none => .skip "fuel")
            | Option.none => .skip "undefined"
          | _, _ => .skip "fuel"
        else
          match a.toZ?, b.toZ?, r.toZ? with
          | some x, some y, some t =>
            if r.isInf then .viol tag "infinite result of finite operands" else
            if op = "add" then judgeOpEq tag .add x y t cap
            else if op = "sub" then judgeOpEq tag .add x (ZAlg.neg y) t cap
            else if op = "mul" then judgeOpEq tag .mul x y t cap
            else match ZAlg.inv y with
              | Option.none => .skip "inverse out of fuel"
              | some yi => judgeOpEq tag .mul x yi t cap
          | _, _, _ => .viol tag "non-finite result of finite operands"
      | v => v
    | _, _, _ => .skip "parse"
  | "neg", [a], [r] | "inv", [a], [r] =>
    match pVal? a, pVal? r with
    | some a, some r =>
      match valOk r with
      | .ok _ =>
        let tag := s!"val/{op}/{a.kind}/{r.kind}"
        if a.isInf then
          let want : Val := if op = "neg" then (match a with | .pinf => .minf | _ => .pinf) else .int 0
          match r.cmp want with | some 0 => .ok tag | some _ => .viol tag "wrong result with an infinite operand" | Option.none => .skip "fuel"
        else
          match a.toZ?, r.toZ? with
          | some x, some t =>
            let want := if op = "neg" then some (ZAlg.neg x) else ZAlg.inv x
            match want with
            | Option.none => .skip "inverse out of fuel"
            | some w =>
              match Alg.valid w.a, Alg.cmp t.a w.a with
              | some true, some c => if c = 0 then .ok tag else .viol tag "result is not the exact value"
              | some false, _ => .skip "model inverse not isolating"
              | _, _ => .skip "cmp out of fuel"
          | _, _ => .viol tag "non-finite result of a finite operand"
      | v => v
    | _, _ => .skip "parse"
  | "pow", [a, n], [r] =>
    match pVal? a, pNat? n, pVal? r with
    | some a, some n, some r =>
      match valOk r with
      | .ok _ =>
        let tag := s!"val/pow/{a.kind}/{n}/{r.kind}"
        if n = 0 then
          (match a with
           | .pinf | .minf => .skip "inf^0"
           | _ =>
             match r.toZ? with
             | some t =>
               (match Alg.cmpRat t.a 1 with
                | some c => if c = 0 then .ok tag else .viol tag "x^0 must be 1 for every finite x, whatever its representation"
                | none => .skip "cmp out of fuel")
             | none => .viol tag "non-finite result of a finite operand")
        else
        match a with
        | .pinf => (match r with | .pinf => .ok tag | _ => .viol tag "(+inf)^n must be +inf")
        | .minf => (match r with
                    | .pinf => if n % 2 = 0 then .ok tag else .viol tag "(-inf)^odd must be -inf"
                    | .minf => if n % 2 = 1 then .ok tag else .viol tag "(-inf)^even must be +inf"
                    | _ => .viol tag "(-inf)^n must be infinite")
        | _ =>
          match a.toZ?, r.toZ? with
          | some x, some t => judgeOpEq tag (.pow n) x (ZAlg.ofRat 0) t cap
          | _, _ => .viol tag "non-finite result of a finite operand"
      | v => v
    | _, _, _ => .skip "parse"
  | "floor", [a], [c] | "ceil", [a], [c] =>
    match pVal? a, pInt? c with
    | some a, some c =>
      match a.toZ? with
      | Option.none => .skip "infinite"
      | some x =>
        match (if op = "floor" then Alg.floor x.a else Alg.ceil x.a) with
        | Option.none => .skip "fuel"
        | some w => let tag := s!"val/{op}/{a.kind}"
                    if c = w then .ok tag else .viol tag s!"got {c}, exact {w}"
    | _, _ => .skip "parse"
  | "isint", [a], [c] =>
    match pVal? a, pInt? c with
    | some a, some c =>
      match a.toZ? with
      | Option.none => .skip "infinite"
      | some x =>
        match Alg.isInteger x.a with
        | Option.none => .skip "fuel"
        | some w => let tag := s!"val/isint/{a.kind}/{w}"
                    if (c ≠ 0) = w then .ok tag else .viol tag s!"got {c}, exact {w}"
    | _, _ => .skip "parse"
  | "ratinfo", [a], ir :: rest =>
    match pVal? a, pInt? ir with
    | some a, some ir =>
      let nonAlg := match a with | .int _ | .dy _ | .rat _ => true | _ => false
      if ir = 0 then
        if nonAlg then .viol "val/ratinfo" "is_rational false for a rational representation" else .ok s!"val/ratinfo/{a.kind}/no"
      else
        match a.toZ?, rest with
        | some x, [q, num, den] =>
          match pRat? q, pInt? num, pInt? den with
          | some q, some num, some den =>
            match Alg.cmpRat x.a q with
            | Option.none => .skip "fuel"
            | some c =>
              if c ≠ 0 then .viol "val/ratinfo" "get_rational is not the value"
              else if num ≠ q.num ∨ den ≠ (q.den : Int) then .viol "val/ratinfo" s!"num/den {num}/{den} is not the reduced form of {showRat q}"
              else .ok s!"val/ratinfo/{a.kind}/yes"
          | _, _, _ => .skip "parse"
        | _, _ => .viol "val/ratinfo" "is_rational true for an infinite value"
    | _, _ => .skip "parse"
  | "between", [a, sa, b, sb], [r] =>
    match pVal? a, pInt? sa, pVal? b, pInt? sb, pVal? r with
    | some a, some sa, some b, some sb, some r =>
      match valOk r with
      | .ok _ =>
        match a.cmp b with
        | Option.none => .skip "fuel"
        | some c =>
          -- the library orders the bounds itself
          let lo := if c ≤ 0 then a else b
          let hi := if c ≤ 0 then b else a
          let slo := if c ≤ 0 then sa else sb
          let shi := if c ≤ 0 then sb else sa
          match lo.cmp r, r.cmp hi with
          | some c1, some c2 =>
            let tag := s!"val/between/{lo.kind}{if slo ≠ 0 then "<" else "<="}.{if shi ≠ 0 then "<" else "<="}{hi.kind}/{r.kind}"
            if r.isInf then .viol tag "infinite value picked" else
            if (c1 < 0 ∨ (c1 = 0 ∧ slo = 0)) ∧ (c2 < 0 ∨ (c2 = 0 ∧ shi = 0)) then .ok tag
            else .viol tag "picked value is outside the bounds"
          | _, _ => .skip "fuel"
      | v => v
    | _, _, _, _, _ => .skip "parse"
  | "hash", [a, b, _p], [h1, h2] =>
    match pVal? a, pVal? b, pNat? h1, pNat? h2 with
    | some a, some b, some h1, some h2 =>
      match a.cmp b with
      | Option.none => .skip "fuel"
      | some c =>
        if c = 0 then (if h1 = h2 then .ok s!"val/hash/equal/{a.kind}-{b.kind}" else .viol "val/hash" s!"equal numbers hash differently ({a.kind} vs {b.kind})")
        else .ok "val/hash/different"
    | _, _, _, _ => .skip "parse"
  | _, _, _ => .skip s!"unknown val op {op}"

/-- a dyadic token `Vd:a@n` must be in lowest terms (odd numerator or n = 0): is_integer, num / den and the hash trust it -/
def dyTokenBad (t : String) : Bool :=
  if t.startsWith "Vd:" then
    match pDy? (t.drop 3).toString with
    | some d => d.n > 0 && d.a % 2 == 0
    | none => false
  else false

def checkVal (op : String) (args res : List String) : Verdict :=
  match (args ++ res).find? dyTokenBad with
  | some t => .viol (if res.contains t then "val/repr" else "state/operand-repr") s!"dyadic value {t} is not normalised"
  | none =>
  match operandsOk (args.filterMap (fun a => if a.startsWith "Va:" then some (a.drop 3).toString else none)) with
  | some msg => .viol "state/operand-repr" msg
  | none => checkValCore op args res

end LP.Driver
