import LP.Props.C17
import LP.Props.C17Q
#print axioms LP.C17_inRingM_iff
#print axioms LP.C17_range_unique
#print axioms LP.C17_normalize
#print axioms LP.C17_normalize_zmod
#print axioms LP.C17_normalize_id
#print axioms LP.C17_ring_ops
#print axioms LP.C17_Z_ops
#print axioms LP.C17_inv
#print axioms LP.C17_div_exact
#print axioms LP.C17_div_exact_Z
#print axioms LP.C17_divides_iff
#print axioms LP.C17_divides_prime_iff
#print axioms LP.C17_divides_Z_iff
#print axioms LP.C17_sgn_cmp
#print axioms LP.Dy.C17_dy_normalize
#print axioms LP.Dy.C17_dy_canonical
#print axioms LP.Dy.C17_dy_ops
#print axioms LP.Dy.C17_dy_ops_nonorm
#print axioms LP.Dy.C17_dy_cmp
#print axioms LP.Dy.C17_dy_observers
#print axioms LP.Dy.C17_dy_root
#print axioms LP.Dy.C17_dy_between
#print axioms LP.C17_rat_ops
#print axioms LP.C17_double
