/-
  The resultant property, proved for the model's Sylvester determinant (no appeal to a theory of resultants):
  if P and Q (polynomials over ℤ in the variables of an assignment ν) both vanish at ν, and x is a variable in
  which at least one of them has positive degree, then `resultantSpec none x P Q` vanishes at ν.

  Proof: the Sylvester matrix S of P, Q in x, evaluated at ν, kills the non-zero vector (β^{N-1}, …, β, 1) with
  β = ν x — row i of S times that vector is β^e · P(ν) or β^e · Q(ν) — hence det S = 0; the model's Laplace
  expansion is `Matrix.det` (C04_det) and evaluation is a ring homomorphism.
-/
import LP.Props.C04
import Mathlib.LinearAlgebra.Matrix.ToLinearEquiv
import Mathlib.Algebra.BigOperators.Intervals
import Mathlib.Data.Real.Basic

namespace LP
open MvPolynomial

namespace Mono

theorem degreeIn_cons (x : ℕ) (p : ℕ × ℕ) (m : Mono) :
    degreeIn x (p :: m) = (if p.1 = x then p.2 else 0) + degreeIn x m := by
  unfold degreeIn
  have gen : ∀ (l : List (ℕ × ℕ)) (a : ℕ), l.foldl (fun acc p => acc + p.2) a = a + l.foldl (fun acc p => acc + p.2) 0 := by
    intro l
    induction l with
    | nil => intro a; simp
    | cons q l ih => intro a; rw [List.foldl_cons, List.foldl_cons, ih (a + q.2), ih (0 + q.2)]; omega
  by_cases h : p.1 = x
  · rw [List.filter_cons_of_pos (by simpa using h), List.foldl_cons, gen, if_pos h]; omega
  · rw [List.filter_cons_of_neg (by simpa using h), if_neg h]; omega

/-- split a monomial into its x-part and the rest -/
theorem toFinsupp_split (x : ℕ) (m : Mono) :
    toFinsupp m = Finsupp.single x (degreeIn x m) + toFinsupp (without x m) := by
  induction m with
  | nil => simp [degreeIn, without, toFinsupp_nil]
  | cons p m ih =>
    rw [toFinsupp_cons, degreeIn_cons, ih]
    unfold without
    by_cases h : p.1 = x
    · rw [if_pos h, List.filter_cons_of_neg (by simpa using h), h, Finsupp.single_add]
      abel
    · rw [if_neg h, List.filter_cons_of_pos (by simpa using h), toFinsupp_cons]
      simp only [zero_add]
      abel

end Mono

namespace MPoly

theorem compatible_none (R : Type) [CommRing R] : Compatible none R := fun _ => rfl

/-- real value of a polynomial at a point -/
noncomputable def evalAt (ν : ℕ → ℝ) (p : MPoly) : ℝ := MvPolynomial.eval ν (den ℝ p)

theorem evalAt_nil (ν : ℕ → ℝ) : evalAt ν [] = 0 := by simp [evalAt, den_nil]

/-- value of a single term: the x-part factors out -/
theorem eval_term_split (ν : ℕ → ℝ) (x : ℕ) (m : Mono) (c : ℤ) :
    MvPolynomial.eval ν (monomial (Mono.toFinsupp m) ((c : ℤ) : ℝ)) =
      ν x ^ Mono.degreeIn x m * MvPolynomial.eval ν (monomial (Mono.toFinsupp (Mono.without x m)) ((c : ℤ) : ℝ)) := by
  rw [eval_monomial, eval_monomial]
  conv_lhs => rw [Mono.toFinsupp_split x m]
  rw [Finsupp.prod_add_index' (by intro a; simp) (by intro a b₁ b₂; rw [pow_add])]
  rw [Finsupp.prod_single_index (by simp)]
  ring

theorem mem_degree_le (x : ℕ) (p : MPoly) : ∀ t ∈ p, Mono.degreeIn x t.1 ≤ degreeIn x p := by
  unfold degreeIn
  have gen : ∀ (l : MPoly) (a : ℕ), a ≤ l.foldl (fun acc t => max acc (Mono.degreeIn x t.1)) a ∧
      ∀ t ∈ l, Mono.degreeIn x t.1 ≤ l.foldl (fun acc t => max acc (Mono.degreeIn x t.1)) a := by
    intro l
    induction l with
    | nil => intro a; simp
    | cons q l ih =>
      intro a
      rw [List.foldl_cons]
      obtain ⟨h1, h2⟩ := ih (max a (Mono.degreeIn x q.1))
      refine ⟨le_trans (le_max_left _ _) h1, ?_⟩
      intro t ht
      rw [List.mem_cons] at ht
      rcases ht with rfl | ht
      · exact le_trans (le_max_right _ _) h1
      · exact h2 t ht
  exact (gen p 0).2

/-- the coefficient of x^k, before normalisation -/
def rawCoeff (x k : ℕ) (p : MPoly) : MPoly :=
  p.filterMap (fun t => if Mono.degreeIn x t.1 = k then some (Mono.without x t.1, t.2) else none)

theorem evalAt_coeffIn (ν : ℕ → ℝ) (x k : ℕ) (p : MPoly) :
    evalAt ν (coeffIn none x k p) = evalAt ν (rawCoeff x k p) := by
  unfold evalAt coeffIn rawCoeff
  rw [den_normalize (compatible_none ℝ)]

theorem evalAt_rawCoeff_cons (ν : ℕ → ℝ) (x k : ℕ) (t : Term) (p : MPoly) :
    evalAt ν (rawCoeff x k (t :: p)) =
      (if Mono.degreeIn x t.1 = k then MvPolynomial.eval ν (monomial (Mono.toFinsupp (Mono.without x t.1)) ((t.2 : ℤ) : ℝ)) else 0)
        + evalAt ν (rawCoeff x k p) := by
  unfold evalAt rawCoeff
  rw [List.filterMap_cons]
  by_cases h : Mono.degreeIn x t.1 = k
  · simp only [h, if_true, den_cons, map_add]
  · simp only [h, if_false, zero_add]

/-- **decomposition by powers of x** -/
theorem evalAt_decompose (ν : ℕ → ℝ) (x : ℕ) (p : MPoly) (D : ℕ) (hD : ∀ t ∈ p, Mono.degreeIn x t.1 ≤ D) :
    evalAt ν p = ∑ k ∈ Finset.range (D + 1), evalAt ν (coeffIn none x k p) * ν x ^ k := by
  simp only [evalAt_coeffIn]
  induction p with
  | nil => simp [rawCoeff, evalAt_nil]
  | cons t p ih =>
    have ih' := ih (fun s hs => hD s (List.mem_cons_of_mem _ hs))
    have ht := hD t List.mem_cons_self
    simp only [evalAt_rawCoeff_cons, add_mul, Finset.sum_add_distrib]
    rw [← ih']
    have : evalAt ν (t :: p) = MvPolynomial.eval ν (monomial (Mono.toFinsupp t.1) ((t.2 : ℤ) : ℝ)) + evalAt ν p := by
      unfold evalAt; rw [den_cons, map_add]
    rw [this]
    congr 1
    rw [Finset.sum_eq_single (Mono.degreeIn x t.1)]
    · rw [if_pos rfl, eval_term_split ν x t.1 t.2]; ring
    · intro b _ hb
      rw [if_neg (Ne.symm hb)]; ring
    · intro h
      exfalso; apply h; rw [Finset.mem_range]; omega

/-! ### Horner sums over rows -/

/-- Σ_j l[j] · β^(len-1-j) -/
def hornerR (β : ℝ) (l : List ℝ) : ℝ := l.foldl (fun acc c => acc * β + c) 0

theorem hornerR_foldl (β : ℝ) (l : List ℝ) (a : ℝ) :
    l.foldl (fun acc c => acc * β + c) a = a * β ^ l.length + hornerR β l := by
  unfold hornerR
  induction l generalizing a with
  | nil => simp
  | cons c l ih =>
    rw [List.foldl_cons, List.foldl_cons, ih (a * β + c), ih (0 * β + c)]
    simp only [List.length_cons]
    ring

theorem hornerR_append (β : ℝ) (a b : List ℝ) : hornerR β (a ++ b) = hornerR β a * β ^ b.length + hornerR β b := by
  unfold hornerR
  rw [List.foldl_append, hornerR_foldl]
  rfl

theorem hornerR_replicate_zero (β : ℝ) (k : ℕ) : hornerR β (List.replicate k 0) = 0 := by
  induction k with
  | zero => rfl
  | succ k ih =>
    rw [List.replicate_succ, show (0 : ℝ) :: List.replicate k 0 = [0] ++ List.replicate k 0 from rfl, hornerR_append, ih]
    simp [hornerR]

theorem hornerR_eq_sum (β : ℝ) (l : List ℝ) :
    hornerR β l = ∑ j ∈ Finset.range l.length, l.getD j 0 * β ^ (l.length - 1 - j) := by
  induction l using List.reverseRecOn with
  | nil => simp [hornerR]
  | append_singleton l c ih =>
    rw [hornerR_append, ih, List.length_append, List.length_singleton, Finset.sum_range_succ]
    have hlast : (l ++ [c]).getD l.length 0 = c := by simp [List.getD_eq_getElem?_getD]
    rw [hlast]
    have : hornerR β [c] = c := by simp [hornerR]
    rw [this, Finset.sum_mul]
    congr 1
    · apply Finset.sum_congr rfl
      intro j hj
      rw [Finset.mem_range] at hj
      have hget : (l ++ [c]).getD j 0 = l.getD j 0 := by
        simp [List.getD_eq_getElem?_getD, List.getElem?_append_left hj]
      rw [hget, mul_assoc, ← pow_add]
      congr 2
      omega
    · simp

/-- a Sylvester row applied to the vector of powers of β -/
theorem hornerR_rowOf (ν : ℕ → ℝ) (x : ℕ) (p : MPoly) (width shift : ℕ)
    (hw : shift + degreeIn x p + 1 ≤ width) :
    hornerR (ν x) ((rowOf none x p (degreeIn x p) width shift).map (evalAt ν)) =
      evalAt ν p * ν x ^ (width - shift - degreeIn x p - 1) := by
  unfold rowOf
  rw [List.map_append, List.map_append, hornerR_append, hornerR_append]
  have z1 : (List.replicate shift ([] : MPoly)).map (evalAt ν) = List.replicate shift 0 := by
    rw [List.map_replicate, evalAt_nil]
  have z2 : (List.replicate (width - shift - degreeIn x p - 1) ([] : MPoly)).map (evalAt ν) =
      List.replicate (width - shift - degreeIn x p - 1) 0 := by
    rw [List.map_replicate, evalAt_nil]
  rw [z1, z2, hornerR_replicate_zero, hornerR_replicate_zero, List.length_replicate]
  simp only [zero_mul, zero_add, add_zero]
  congr 1
  -- the coefficients, highest first
  rw [hornerR_eq_sum, List.length_map, List.length_map, List.length_range]
  rw [evalAt_decompose ν x p (degreeIn x p) (mem_degree_le x p)]
  rw [← Finset.sum_range_reflect]
  apply Finset.sum_congr rfl
  intro j hj
  rw [Finset.mem_range] at hj
  have hidx : ∀ i, i < degreeIn x p + 1 →
      (List.map (evalAt ν) (List.map (fun t => coeffIn none x (degreeIn x p - t) p) (List.range (degreeIn x p + 1)))).getD i 0 =
      evalAt ν (coeffIn none x (degreeIn x p - i) p) := by
    intro i hi
    simp [List.getD_eq_getElem?_getD, hi]
  have e1 : degreeIn x p + 1 - 1 - j = degreeIn x p - j := by omega
  have e2 : degreeIn x p + 1 - 1 - (degreeIn x p - j) = j := by omega
  have e3 : degreeIn x p - (degreeIn x p - j) = j := by omega
  rw [e1, hidx (degreeIn x p - j) (by omega), e2, e3]


theorem rowOf_length (K : Ring) (x : ℕ) (p : MPoly) (deg width shift : ℕ) (h : shift + deg + 1 ≤ width) :
    (rowOf K x p deg width shift).length = width := by
  unfold rowOf
  simp only [List.length_append, List.length_replicate, List.length_map, List.length_range]
  omega

theorem take_getD_self (r : List MPoly) (N : ℕ) (hN : 0 < N) (hr : r.length = N) :
    r.take (N - 1) ++ [r.getD (N - 1) []] = r := by
  have hlt : N - 1 < r.length := by omega
  rw [List.getD_eq_getElem?_getD, List.getElem?_eq_getElem hlt]
  simp only [Option.getD_some]
  conv_rhs => rw [← List.take_append_drop (N - 1) r]
  congr 1
  rw [List.drop_eq_getElem_cons hlt]
  have : r.drop (N - 1 + 1) = [] := by
    apply List.drop_of_length_le; omega
  rw [this]

/-- the rows of the Sylvester matrix of order 0 -/
theorem sylvester_rows (x : ℕ) (p q : MPoly) :
    let m := degreeIn x p
    let n := degreeIn x q
    ∀ i, i < m + n →
      (sylvesterK none x p q 0).getD i [] =
        if i < n then rowOf none x p m (m + n) i else rowOf none x q n (m + n) (i - n) := by
  intro m n i hi
  unfold sylvesterK
  simp only [Nat.sub_zero]
  show ((List.map (fun i => rowOf none x p m (m + n) i) (List.range n)) ++
        (List.map (fun i => rowOf none x q n (m + n) i) (List.range m))).getD i [] = _
  rw [List.getD_eq_getElem?_getD]
  by_cases h : i < n
  · rw [if_pos h, List.getElem?_append_left (by simpa using h)]
    simp [h]
  · rw [if_neg h, List.getElem?_append_right (by simpa using (not_lt.1 h))]
    have : i - n < m := by omega
    simp [this]

/-- **the resultant property**: the model's Sylvester determinant vanishes wherever both polynomials vanish -/
theorem resultant_vanishes (ν : ℕ → ℝ) (x : ℕ) (p q : MPoly)
    (hpos : 0 < degreeIn x p + degreeIn x q)
    (hp : evalAt ν p = 0) (hq : evalAt ν q = 0) :
    evalAt ν (resultantSpec none x p q) = 0 := by
  set m := degreeIn x p with hm
  set n := degreeIn x q with hn
  set N := m + n with hN
  set M := sylvesterK none x p q 0 with hM
  -- shape of the matrix
  have hlen : M.length = N := by
    rw [hM]; unfold sylvesterK
    simp only [Nat.sub_zero, List.length_append, List.length_map, List.length_range]
    omega
  have hrowlen : ∀ r ∈ M, r.length = N := by
    intro r hr
    rw [hM] at hr; unfold sylvesterK at hr
    simp only [Nat.sub_zero, List.mem_append, List.mem_map, List.mem_range] at hr
    rcases hr with ⟨i, hi, rfl⟩ | ⟨i, hi, rfl⟩
    · exact rowOf_length _ _ _ _ _ _ (by omega)
    · exact rowOf_length _ _ _ _ _ _ (by omega)
  -- the square matrix of the specification is M itself
  have hsq : M.map (fun r => r.take (N - 0 - 1) ++ [r.getD (N - 0 - 1 - 0) []]) = M := by
    conv_rhs => rw [← List.map_id M]
    apply List.map_congr_left
    intro r hr
    simp only [Nat.sub_zero, id]
    exact take_getD_self r N hpos (hrowlen r hr)
  have hspec : resultantSpec none x p q = det none (N + 1) M := by
    unfold resultantSpec pscSpec sresCoeff
    simp only [Nat.mul_zero, Nat.sub_zero]
    rw [← hm, ← hn, ← hN, ← hM]
    have := hsq
    simp only [Nat.sub_zero] at this
    rw [this]
  rw [hspec]
  unfold evalAt
  rw [C04_det (compatible_none ℝ) N M (N + 1) hlen hrowlen (by omega)]
  rw [RingHom.map_det]
  -- the kernel vector
  set β := ν x with hβ
  let w : Fin N → ℝ := fun j => β ^ (N - 1 - j.val)
  have hw : w ≠ 0 := by
    intro h0
    have := congrFun h0 ⟨N - 1, by omega⟩
    simp only [w, Pi.zero_apply] at this
    have e : N - 1 - (N - 1) = 0 := by omega
    rw [e, pow_zero] at this
    exact one_ne_zero this
  apply Matrix.exists_mulVec_eq_zero_iff.1
  refine ⟨w, hw, ?_⟩
  funext i
  simp only [Matrix.mulVec, dotProduct, Pi.zero_apply, RingHom.mapMatrix_apply, Matrix.map_apply, matDen]
  -- the i-th row as a Horner sum
  have hrow : (∑ j : Fin N, (MvPolynomial.eval ν) (den ℝ ((M.getD i.val []).getD j.val [])) * w j) =
      hornerR β ((M.getD i.val []).map (evalAt ν)) := by
    have hl : (M.getD i.val []).length = N := by
      apply hrowlen
      rw [List.getD_eq_getElem?_getD, List.getElem?_eq_getElem (by rw [hlen]; exact i.isLt)]
      exact List.getElem_mem _
    rw [hornerR_eq_sum, List.length_map, hl, ← Fin.sum_univ_eq_sum_range (fun j => ((M.getD i.val []).map (evalAt ν)).getD j 0 * β ^ (N - 1 - j)) N]
    apply Finset.sum_congr rfl
    intro j _
    have : ((M.getD i.val []).map (evalAt ν)).getD j.val 0 = evalAt ν ((M.getD i.val []).getD j.val []) := by
      have hj : j.val < (M.getD i.val []).length := by rw [hl]; exact j.isLt
      generalize M.getD i.val [] = row at hj ⊢
      rw [List.getD_eq_getElem?_getD, List.getD_eq_getElem?_getD, List.getElem?_map, List.getElem?_eq_getElem hj]
      rfl
    rw [this]; rfl
  rw [hrow, hM, sylvester_rows x p q i.val (by rw [← hm, ← hn]; exact i.isLt)]
  rw [← hm, ← hn]
  by_cases hi : i.val < n
  · rw [if_pos hi, hm, hornerR_rowOf ν x p (degreeIn x p + n) i.val (by omega), hp, zero_mul]
  · rw [if_neg hi, hn, Nat.add_comm m (degreeIn x q), hornerR_rowOf ν x q (degreeIn x q + m) (i.val - degreeIn x q) (by omega), hq, zero_mul]

end MPoly
end LP
