import LP.Model.Factor
import LP.Driver.FSI
import LP.Driver.Poly
namespace LP.Driver
open LP LP.Factor

/-- x^e mod f over F_p by square and multiply (e as a natural number) -/
def fpPowMod (p : Nat) (b f : FPoly) : Nat → Nat → FPoly
  | 0, _ => [1]
  | fuel+1, e =>
    if e = 0 then [1] else
    let h := fpPowMod p b f fuel (e / 2)
    let h2 := (FPoly.divMod p (FPoly.mul p h h) f).2
    if e % 2 = 1 then (FPoly.divMod p (FPoly.mul p h2 b) f).2 else h2

/-- number of distinct roots of f in F_p = deg gcd(f, x^p − x) -/
def rootCountFp (p : Nat) (f : FPoly) : Nat :=
  let f' := FPoly.norm p f
  if f'.length ≤ 1 then 0 else
  let xp := fpPowMod p [0, 1] f' 4096 p
  let g := (FPoly.xgcd p f' (FPoly.sub p xp [0, 1])).1
  fpDeg p g

def symRep (p : Nat) (c : Int) : Int := let r := c % (p : Int); if 2 * r > (p : Int) then r - p else r
def fpEvalAt (p : Nat) (f : FPoly) (x : Int) : Int := FPoly.eval p f x

def pIntAsg? (s : String) : Option (List (Nat × Int)) :=
  (s.splitOn ";").mapM (fun e => match e.splitOn "=" with
    | [i, v] => do
        let i ← pNat? i
        let v ← pInt? v
        some (i, v)
    | _ => none)

/-- evaluate an integer polynomial at integer points modulo p, leaving the variable `y` free: dense list in y -/
def specialise (p : Nat) (q : MPoly) (asg : List (Nat × Int)) (y : Nat) : FPoly :=
  let d := MPoly.degreeIn y q
  (List.range (d + 1)).map (fun k =>
    let c := MPoly.coeffIn none y k q
    (MPoly.evalInt c (fun v => ((asg.find? (fun a => a.1 = v)).map (·.2)).getD 0)) % (p : Int))

def checkZp (op : String) (args res : List String) : Verdict :=
  match op, args, res with
  | "roots", [ps, fl, fs], ns :: rs =>
    match pNat? ps, pNat? fl, pUPoly? fs, pNat? ns, rs.mapM pInt? with
    | some p, some flag, some f, some n, some roots =>
      let tag := s!"zp/roots/{if p < 1000 then (if flag = 4 then "rabin-hook" else "brute") else "rabin"}"
      if n ≠ roots.length then .viol tag "size" else
      if !(roots.all (inRingM p)) then .viol tag "root outside the symmetric range" else
      if roots.eraseDups.length ≠ roots.length then .viol tag "duplicate root" else
      if !(roots.all (fun r => fpEvalAt p f r = 0)) then .viol tag "a returned element is not a root" else
      let want : Nat := if p ≤ 20000 then ((List.range p).filter (fun (v : Nat) => fpEvalAt p f (v : Int) = 0)).length else rootCountFp p f
      if want ≠ n then .viol tag s!"{n} roots returned, {want} distinct roots in the field" else
      .ok s!"{tag}/{if n = 0 then "0" else if n = 1 then "1" else "many"}"
    | _, _, _, _, _ => .skip "parse"
  | "fs", [ps, Ps, cs, ng, as, prs], [ss, bs] =>
    match pNat? ps, pPolyRaw? Ps, pNat? cs, pNat? ng, pIntAsg? as, pList? pInt? prs, pFSI? 0 ss, pList? pInt? bs with
    | some p, some raw, some c, some ng, some asg, some probes, some set0, some bits =>
      let set : FSI := { set0 with M := p }
      let q := MPoly.normalize none raw
      let f := specialise p q asg 2
      let eqWanted : Bool := (c = 2) != (ng ≠ 0)       -- EQ not negated, or NE negated
      let sat : Int → Bool := fun v => (fpEvalAt p f v = 0) == eqWanted
      let tag := s!"zp/fs/{if p < 1000 then "small" else "large"}/{if eqWanted then "eq" else "ne"}"
      if !(reprOk set) then .viol tag s!"set representation not sorted / not in range: {showFSI set}" else
      -- the listed elements must be exactly the roots
      if !(set.elems.all (fun r => fpEvalAt p f r = 0)) ∧ !(FPoly.norm p f).isEmpty ∧ (FPoly.norm p f).length > 1 then .viol tag "a listed element is not a root of the specialised polynomial" else
      let semOk : Bool :=
        if p ≤ 20000 then (FSI.univ p).all (fun v => set.contains v == sat v)
        else probes.all (fun v => set.contains (symRep p v) == sat v) &&
             ((FPoly.norm p f).length ≤ 1 || set.elems.length = rootCountFp p f)
      if !semOk then .viol tag "the set is not the solution set of the constraint" else
      if probes.length ≠ bits.length then .skip "parse bits" else
      if !((probes.zip bits).all (fun pb => (pb.2 ≠ 0) == sat pb.1)) then .viol tag "lp_feasibility_set_int_contains disagrees with the constraint" else
      .ok tag
    | _, _, _, _, _, _, _, _ => .skip "parse"
  | "evalc", [ps, Ps, cs, as], [b] =>
    match pNat? ps, pPolyRaw? Ps, pNat? cs, pIntAsg? as, pInt? b with
    | some p, some raw, some c, some asg, some b =>
      let q := MPoly.normalize none raw
      let v := (MPoly.evalInt q (fun x => ((asg.find? (fun a => a.1 = x)).map (·.2)).getD 0)) % (p : Int)
      let want : Bool := if c = 2 then v = 0 else v ≠ 0
      if (b ≠ 0) = want then .ok s!"zp/evalc/{c}" else .viol "zp/evalc" s!"got {b}, value {v} mod {p}"
    | _, _, _, _, _ => .skip "parse"
  | "reduce", [ps, Ps], [Rs] =>
    match pNat? ps, pPolyRaw? Ps, pPolyRaw? Rs with
    | some p, some raw, some rraw =>
      let A := MPoly.normalize (some p) raw
      let R := MPoly.normalize (some p) rraw
      if !(rawCanonical (some p) rraw) then .viol "zp/reduce" "result not canonical" else
      if (MPoly.vars R).any (fun v => MPoly.degreeIn v R ≥ p) then .viol "zp/reduce" "a degree is not below p" else
      -- same function on F_p^2
      let pts := (List.range p).flatMap (fun a => (List.range p).map (fun b => (a, b)))
      let same := pts.all (fun ab =>
        let asg : Nat → Int := fun v => if v = 0 then (ab.1 : Int) else (ab.2 : Int)
        (MPoly.evalInt A asg) % (p : Int) = (MPoly.evalInt R asg) % (p : Int))
      if same then .ok "zp/reduce" else .viol "zp/reduce" "the reduced polynomial is a different function on the field"
    | _, _, _ => .skip "parse"
  | _, _, _ => .skip s!"unknown zp op {op}"

end LP.Driver
