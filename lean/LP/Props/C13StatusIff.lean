/-
  C13 — the intersection status says exactly which operand the result equals (operands in normal form, non-empty):
  `S1` ⇔ the first operand is contained in the second (`C13_status_s1_iff`), `S2` ⇔ the second is contained in the first and
  the first is not contained in the second (`C13_status_s2_iff`, S1 has priority), `NEW` / `EMPTY` only when neither is
  contained in the other (`C13_status_new_or_empty`).  The second flag is reduced to the first by symmetry: the
  classification of a pair read in the other order is the mirrored class (`cwi_mirror`), so sweeping the operands in the other
  order exchanges the flags (`intersectLoop_flags_swap`).
-/
import LP.Props.C13Converse

set_option linter.unusedSectionVars false

namespace LP
namespace FSet
open VI

/-- the class of the pair read in the other order -/
def ICmp.mirror : ICmp → ICmp
  | .ltNo => .gtNo | .ltWith => .gtWith | .ltWithI1 => .gtWithI2 | .leqWithI2 => .geqWithI1 | .eq => .eq
  | .geqWithI1 => .leqWithI2 | .gtWithI2 => .ltWithI1 | .gtWith => .ltWith | .gtNo => .ltNo

theorem cwiGt_mirror (I1 I2 : VI) : (cwiGt I2 I1).1 = ICmp.mirror (cwiLt I1 I2).1 := by
  unfold cwiGt cwiLt
  rw [EP.cmp_flip I1.upper I2.lower]
  generalize EP.cmp I1.upper I2.lower = t
  cases I1.bOpen <;> cases I2.aOpen <;> simp only [Bool.false_eq_true, or_self, or_true, true_or, and_false, and_true] <;>
    split_ifs <;> first | rfl | omega

theorem cwiLt_mirror (I1 I2 : VI) : (cwiLt I2 I1).1 = ICmp.mirror (cwiGt I1 I2).1 := by
  unfold cwiGt cwiLt
  rw [EP.cmp_flip I1.lower I2.upper]
  generalize EP.cmp I1.lower I2.upper = t
  cases I1.aOpen <;> cases I2.bOpen <;> simp only [Bool.false_eq_true, or_self, or_true, true_or, and_false, and_true] <;>
    split_ifs <;> first | rfl | omega

theorem cwiCore_class (cu cl : Int) (I1 I2 : VI) :
    (cwiCore cu cl I1 I2).1 =
      if cu < 0 then (if cl < 0 then (cwiLt I1 I2).1 else .ltWithI1)
      else if cu = 0 then (if cl < 0 then .leqWithI2 else if cl = 0 then .eq else .geqWithI1)
      else (if cl ≤ 0 then .gtWithI2 else (cwiGt I1 I2).1) := by
  unfold cwiCore
  split_ifs <;> first | rfl | omega

/-- **the classification is symmetric**: reading the pair in the other order gives the mirrored class -/
theorem cwi_mirror (I1 I2 : VI) : (cmpWithIntersect I2 I1).1 = ICmp.mirror (cmpWithIntersect I1 I2).1 := by
  unfold cmpWithIntersect
  rw [cwiCore_class, cwiCore_class, cmpUpper_flip I1 I2, cmpLower_flip I1 I2]
  generalize cmpUpper I1 I2 = cu
  generalize cmpLower I1 I2 = cl
  rcases lt_trichotomy cu 0 with hu | hu | hu <;> rcases lt_trichotomy cl 0 with hl | hl | hl
  · rw [if_neg (by omega), if_neg (by omega), if_neg (by omega), if_pos hu, if_pos hl]; exact cwiGt_mirror I1 I2
  · subst hl; rw [if_neg (by omega), if_neg (by omega), if_pos (by omega), if_pos hu, if_neg (by omega)]; rfl
  · rw [if_neg (by omega), if_neg (by omega), if_pos (by omega), if_pos hu, if_neg (by omega)]; rfl
  · subst hu; simp only [neg_zero, lt_irrefl, if_false, if_true]
    rw [if_neg (by omega), if_neg (by omega), if_pos hl]; rfl
  · subst hu; subst hl; simp only [neg_zero, lt_irrefl, if_false, if_true]; rfl
  · subst hu; simp only [neg_zero, lt_irrefl, if_false, if_true]
    rw [if_pos (by omega), if_neg (by omega), if_neg (by omega)]; rfl
  · rw [if_pos (by omega), if_neg (by omega), if_neg (by omega), if_neg (by omega), if_pos (by omega)]; rfl
  · subst hl; rw [if_pos (by omega), if_neg (by omega), if_neg (by omega), if_neg (by omega), if_pos (by omega)]; rfl
  · rw [if_pos (by omega), if_pos (by omega), if_neg (by omega), if_neg (by omega), if_neg (by omega)]
    exact cwiLt_mirror I1 I2


/-- **the flags of the sweep are symmetric**: sweeping the operands in the other order exchanges the two flags -/
theorem intersectLoop_flags_swap : ∀ (fuel : Nat) (s1 s2 acc acc' : List VI) (a1 a2 : Bool),
    (intersectLoop fuel s2 s1 acc' a2 a1).2 =
      ((intersectLoop fuel s1 s2 acc a1 a2).2.2, (intersectLoop fuel s1 s2 acc a1 a2).2.1) := by
  intro fuel
  induction fuel with
  | zero => intro s1 s2 acc acc' a1 a2; simp [intersectLoop]
  | succ f ih =>
    intro s1 s2 acc acc' a1 a2
    cases s1 with
    | nil =>
      cases s2 with
      | nil => simp [intersectLoop]
      | cons I2 r2 => simp [intersectLoop]
    | cons I1 r1 =>
      cases s2 with
      | nil => simp [intersectLoop]
      | cons I2 r2 =>
        have hm := cwi_mirror I1 I2
        rw [intersectLoop, intersectLoop]
        cases hc : (cmpWithIntersect I1 I2).1 <;> rw [hc] at hm <;> simp only [ICmp.mirror] at hm <;>
          simp only [hm] <;> exact ih _ _ _ _ _ _


variable {α : Type*} [Field α] [LinearOrder α] [IsStrictOrderedRing α]

/-- converse of the status, second flag -/
theorem intersectLoop_not_all2 (fuel : Nat) (s1 s2 acc : List VI) (a1 a2 : Bool) (n1 : NFs s1) (n2 : NFs s2)
    (hlen : s1.length + s2.length ≤ fuel) (h : (intersectLoop fuel s1 s2 acc a1 a2).2.2 = false) :
    a2 = false ∨ ∃ x : α, SetMem α s2 x ∧ ¬ SetMem α s1 x := by
  have hsw := intersectLoop_flags_swap fuel s1 s2 acc [] a1 a2
  have h' : (intersectLoop fuel s2 s1 [] a2 a1).2.1 = false := by rw [hsw]; exact h
  have hK : ∀ I ∈ s2.head?, ∃ x : α, I.Mem x ∧ AboveP none x := by
    intro I hI
    have hIm : I ∈ s2 := by
      cases s2 with
      | nil => simp at hI
      | cons K r => simp only [List.head?_cons, Option.mem_def, Option.some.injEq] at hI; subst hI; simp
    obtain ⟨x, hx⟩ := wf_nonempty (α := α) I (n2.1 I hIm)
    exact ⟨x, hx, fun p hp => by simp at hp⟩
  rcases intersectLoop_not_all1 (α := α) fuel s2 s1 [] a2 a1 none n2 (by simpa using n1) hK (by omega) h' with h1 | ⟨x, hx1, hx2, _⟩
  · exact Or.inl h1
  · exact Or.inr ⟨x, hx1, hx2⟩

/-- **the status is S1 exactly when the first operand is contained in the second** (operands in normal form, non-empty) -/
theorem C13_status_s1_iff (s1 s2 : List VI) (n1 : NFs s1) (n2 : NFs s2) (e1 : s1 ≠ []) (e2 : s2 ≠ []) :
    (intersect s1 s2).2 = .s1 ↔ ∀ x : α, SetMem α s1 x → SetMem α s2 x := by
  constructor
  · intro hst x hx
    have hres := (C13_intersect_status (α := α) s1 s2).1 hst
    have := (C13_intersect (α := α) s1 s2 (nfs_nfw s1 n1) (nfs_nfw s2 n2) x).1 (by rw [hres]; exact hx)
    exact this.2
  · intro hsub
    by_contra hne
    unfold intersect at hne
    have hemp : (s1.isEmpty || s2.isEmpty) = false := by
      cases s1 <;> cases s2 <;> simp_all
    rw [if_neg (by simp [hemp])] at hne
    dsimp only at hne
    have hflag : (intersectLoop (s1.length + s2.length + 1) s1 s2 [] true true).2.1 = false := by
      cases hb : (intersectLoop (s1.length + s2.length + 1) s1 s2 [] true true).2.1 with
      | false => rfl
      | true => rw [hb] at hne; simp at hne
    have hK : ∀ I ∈ s1.head?, ∃ x : α, I.Mem x ∧ AboveP none x := by
      intro I hI
      have hIm : I ∈ s1 := by
        cases s1 with
        | nil => simp at hI
        | cons K r => simp only [List.head?_cons, Option.mem_def, Option.some.injEq] at hI; subst hI; simp
      obtain ⟨x, hx⟩ := wf_nonempty (α := α) I (n1.1 I hIm)
      exact ⟨x, hx, fun p hp => by simp at hp⟩
    rcases intersectLoop_not_all1 (α := α) _ s1 s2 [] true true none n1 (by simpa using n2) hK (by omega) hflag with h1 | ⟨x, hx1, hx2, _⟩
    · exact absurd h1 (by simp)
    · exact hx2 (hsub x hx1)

/-- **the status is S2 exactly when the second operand is contained in the first and the first is not contained in the
    second** -/
theorem C13_status_s2_iff (s1 s2 : List VI) (n1 : NFs s1) (n2 : NFs s2) (e1 : s1 ≠ []) (e2 : s2 ≠ []) :
    (intersect s1 s2).2 = .s2 ↔
      (¬ ∀ x : α, SetMem α s1 x → SetMem α s2 x) ∧ (∀ x : α, SetMem α s2 x → SetMem α s1 x) := by
  have hs1 := C13_status_s1_iff (α := α) s1 s2 n1 n2 e1 e2
  constructor
  · intro hst
    refine ⟨fun hsub => ?_, fun x hx => ?_⟩
    · have := hs1.2 hsub
      rw [hst] at this; exact absurd this (by simp)
    · have hden := (C13_intersect_status (α := α) s1 s2).2.1 hst x
      exact ((C13_intersect (α := α) s1 s2 (nfs_nfw s1 n1) (nfs_nfw s2 n2) x).1 (hden.2 hx)).1
  · rintro ⟨hns, hsub⟩
    have hne1 : (intersect s1 s2).2 ≠ .s1 := fun h => hns (hs1.1 h)
    unfold intersect at hne1 ⊢
    have hemp : (s1.isEmpty || s2.isEmpty) = false := by
      cases s1 <;> cases s2 <;> simp_all
    rw [if_neg (by simp [hemp])] at hne1 ⊢
    dsimp only at hne1 ⊢
    have hflag1 : (intersectLoop (s1.length + s2.length + 1) s1 s2 [] true true).2.1 = false := by
      cases hb : (intersectLoop (s1.length + s2.length + 1) s1 s2 [] true true).2.1 with
      | false => rfl
      | true => rw [hb] at hne1; simp at hne1
    have hflag2 : (intersectLoop (s1.length + s2.length + 1) s1 s2 [] true true).2.2 = true := by
      cases hb : (intersectLoop (s1.length + s2.length + 1) s1 s2 [] true true).2.2 with
      | true => rfl
      | false =>
        rcases intersectLoop_not_all2 (α := α) _ s1 s2 [] true true n1 n2 (by omega) hb with h2 | ⟨x, hx1, hx2⟩
        · exact absurd h2 (by simp)
        · exact absurd (hsub x hx1) hx2
    rw [hflag1, hflag2]; simp

/-- **NEW and EMPTY are reported only when neither operand is contained in the other** -/
theorem C13_status_new_or_empty (s1 s2 : List VI) (n1 : NFs s1) (n2 : NFs s2) (e1 : s1 ≠ []) (e2 : s2 ≠ [])
    (h : (intersect s1 s2).2 = .new ∨ (intersect s1 s2).2 = .empty) :
    (¬ ∀ x : α, SetMem α s1 x → SetMem α s2 x) ∧ (¬ ∀ x : α, SetMem α s2 x → SetMem α s1 x) := by
  have hs1 := C13_status_s1_iff (α := α) s1 s2 n1 n2 e1 e2
  have hs2 := C13_status_s2_iff (α := α) s1 s2 n1 n2 e1 e2
  have hn1 : ¬ ∀ x : α, SetMem α s1 x → SetMem α s2 x := by
    intro hsub
    have := hs1.2 hsub
    rcases h with h | h <;> rw [this] at h <;> exact absurd h (by simp)
  refine ⟨hn1, fun hsub => ?_⟩
  have := hs2.2 ⟨hn1, hsub⟩
  rcases h with h | h <;> rw [this] at h <;> exact absurd h (by simp)

end FSet
end LP
