"""Per-property configuration of the checks."""

def _dest_of(toks):
    """destination kind printed by the harness for this observation, or None"""
    fam = toks[1] if len(toks) > 1 else ""
    if len(toks) > 2 and "@" in toks[2]:
        return toks[2].split("@", 1)[1]
    if fam in ("dy", "rat", "qi", "di") and len(toks) > 3:
        return toks[3]
    if fam == "poly" and len(toks) > 4:
        return toks[4]
    return None


def _c19_viol_filter(viols):
    """an output-operand defect shows only with non-fresh destinations: drop violation classes that also fail on fresh outputs
    (those are arithmetic defects and belong to the property of that operation)"""
    fresh_classes = set()
    for v in viols:
        toks = v.get("line", "").split(" ")
        if _dest_of(toks) in ("f", "-", None):
            fresh_classes.add(v.get("cls"))
    return [v for v in viols if v.get("cls") not in fresh_classes or v.get("cls", "").startswith("refs")]


def _dest_nonfresh(toks, res):
    # toks = [case, family, op, dest, ...]
    return len(toks) > 3 and toks[3] in ("p", "a", "b")

PROPS = {
    "C17": {
        "level": "proof",
        "lean_targets": ["LP.Props.C17", "LP.Props.C17Dy", "LP.Props.C17Q"],
        "harnesses": [{"name": "h_scalar", "quick": 120000, "thorough": 1500000}],
        "select": lambda t: t[1] in ("int", "dy", "rat"),
        "nontrivial": lambda t, r: (t[1] == "int" and t[3] != "Z") or _dest_nonfresh(t, r) or any(len(x) > 19 for x in t[3:]),
        "rule": "random scalar operations (seeded splitmix64; small, boundary 2^k±d and multi-limb operands; 36 moduli prime/composite/"
                "multi-limb; destinations fresh/pre-used/aliased). Non-trivial = operation in a proper ring Z_m, or destination "
                "pre-used/aliased, or a multi-limb operand; distinct = distinct (op, ring, operands, destination kind).",
        "trusted_base": ["GMP mpz/mpq semantics (tdiv, powm_ui, invert, gcdext, scan1, root, set_d) modelled on Int/Rat"],
        "assumptions": ["inputs respect the documented preconditions (operands in the ring, divisor divides, invertible argument)"],
    },
    "C15": {
        "level": "proof",
        "lean_targets": ["LP.Props.C15", "LP.Props.C15V", "LP.Props.C15P", "LP.Props.GenTables"],
        "gen_tables": True,
        "harnesses": [{"name": "h_interval", "quick": 60000, "thorough": 400000},
                      {"name": "h_pival", "quick": 5000, "thorough": 50000},
                      {"name": "h_vialg", "quick": 4000, "thorough": 40000}],
        "select": lambda t: t[1] in ("qi", "di", "vi", "vil", "pi", "via"),
        "nontrivial": lambda t, r: True,
        "rule": "exhaustive: all 45 intervals with end points in {-2..2} (points and every open/closed pattern), all 2025 ordered pairs "
                "x {add,sub,mul}, neg, pow 0..4, sgn, for rational and dyadic intervals; then random intervals (small-pool end points so that "
                "ties are frequent, symmetric intervals, multi-limb dyadics). Distinct = distinct (type, op, operands, destination kind); "
                "every case is an interval operation, hence non-trivial.",
        "trusted_base": ["exact rational/dyadic arithmetic of C17 below the interval layer"],
        "assumptions": ["value intervals (lp_interval_*) are replayed with integer/dyadic/rational/infinite end points; algebraic end points are not replayed (see DESIGN)"],
    },
    "C14": {
        "level": "proof",
        "lean_targets": ["LP.Props.C14", "LP.Props.C14Eval", "LP.Props.C14PowMod", "LP.Props.C14RootCount", "LP.Props.C14RootCountModel"],
        "harnesses": [{"name": "h_fsi", "quick": 4000, "thorough": 60000, "thorough_env": {"LPV_EXH7": "1"}},
                      {"name": "h_zp", "quick": 1500, "thorough": 40000}],
        "select": lambda t: t[1] in ("fsi", "zp"),
        "nontrivial": lambda t, r: t[2] in ("intersect", "union", "eq", "add", "contains", "pick", "roots", "feasible"),
        "rule": "exhaustive: p in {2,3,5} (thorough: also 7): every ordered pair of subsets in all four listed/complemented representation "
                "combinations through intersect/union (with and without status), add, assign, eq, and per set isempty/isfull/ispoint/size/pick/"
                "contains on -p-1..p+1; random: p in {7,11,13,101,997,1009,10007,2^61-1,2^89-1} with overlapping element pools, boundary "
                "residues and unnormalised inputs. Non-trivial = binary set operation, membership or pick; distinct = distinct line.",
        "trusted_base": ["qsort + unique in the constructor modelled as insertion into a sorted duplicate-free list"],
        "assumptions": ["operands are over the same field (documented precondition)"],
    },
    "C13": {
        "level": "proof",
        "lean_targets": ["LP.Props.C13", "LP.Props.GenTables", "LP.Props.C13Union", "LP.Props.C13UnionNF", "LP.Props.C13Contains", "LP.Props.C13Int", "LP.Props.C13Obs", "LP.Props.C13Count", "LP.Props.C13Status", "LP.Props.C13IntersectNF", "LP.Props.C13PointInt", "LP.Props.C13Hull", "LP.Props.C13Witness", "LP.Props.C13Converse", "LP.Props.C13StatusIff", "LP.Props.C13CountSat", "LP.Props.C13PointIntIff"],
        "gen_tables": True,
        "harnesses": [{"name": "h_fset", "quick": 3000, "thorough": 40000, "thorough_env": {"LPV_EXH4": "1"}}],
        "select": lambda t: t[1] == "fset",
        "nontrivial": lambda t, r: t[2] in ("intersect", "add", "icmp", "contains", "pick", "countint", "containsint"),
        "rule": "exhaustive: every ordered pair of the 128 normal-form sets over the atoms of the line cut at {0,1,2} (thorough: 512 sets over "
                "{0,1,2,3}) through intersect-with-status, union (add) and interval comparison, plus all unary observers and membership of every "
                "end point and mid point; random: pools of 2-6 values mixing integers, rationals, dyadics, algebraic numbers (surrogates) and "
                "infinities. Non-trivial = binary operation, comparison, membership, picking or integer counting; distinct = distinct line.",
        "trusted_base": ["algebraic end points are replaced by order-isomorphic non-integer dyadic surrogates chosen inside their refined isolating intervals (harness code)",
                         "qsort modelled as insertion sort by the same comparator"],
        "assumptions": ["operands are in normal form (constructed from atom masks)"],
    },
    "C20": {
        "level": "proof",
        "lean_targets": ["LP.Props.C20", "LP.Props.C20Heap", "LP.Props.C20HeapOrder", "LP.Props.C20HeapRemove", "LP.Props.C20HeapRefine", "LP.Props.C20HSet", "LP.Props.C20HSetProbe", "LP.Props.C20HSetRemove", "LP.Props.C20HSetRefine", "LP.Props.C20HSetIntersect"],
        "harnesses": [{"name": "h_container", "quick": 20000, "thorough": 300000}],
        "select": lambda t: t[1] in ("hset", "heap", "pvec"),
        "nontrivial": lambda t, r: len(t) > 3 and t[3].count(",") >= 3,
        "rule": "random operation histories (insert copy/move/vector, remove, contains, size, intersect, clear, close+enumerate; heap push/"
                "push_move/push_vector/pop/peek/remove/clear; vector push/push_move/at) over a pool of ~800 distinct polynomials whose real "
                "lp_polynomial_hash values are reported; element choice is biased to a few hash&63 slots (one near the end of the table) "
                "so that collision chains, wrap-around, removal inside chains and growth across the 70% threshold occur. Non-trivial = "
                "history with at least 4 operations; distinct = distinct history.",
        "trusted_base": ["elements are abstracted to (identity, reported hash): lp_polynomial_eq/lp_polynomial_hash themselves belong to C18"],
        "assumptions": ["table theorems (C20_hset_refines ...): elements with equal keys (equal polynomials) carry equal hashes"],
    },
    "C01": {
        "level": "proof",
        "lean_targets": ["LP.Props.C01", "LP.Props.C01Deriv", "LP.Props.C01Canon", "LP.Props.C01EvalRat"],
        "harnesses": [{"name": "h_poly", "quick": 40000, "thorough": 600000}],
        "select": lambda t: t[1] in ("poly", "up"),
        "nontrivial": lambda t, r: len(r) > 0 and ("+" in r[0] or "," in r[0] or t[2] in ("evalint", "evalrat")),
        "rule": "random multivariate polynomials (1-4 variables, degree <= 3 per variable, <= 5 terms, small and multi-limb coefficients, "
                "cancellation pairs p / -p+small) and univariate polynomials (degree <= 6) over Z, Z_5, Z_13, Z_2, Z_6, Z_8, Z_101 and a "
                "multi-limb modulus; operations add/sub/mul/neg/mul_integer/pow/add_mul/sub_mul/shl/derivative/add_monomial/assign/"
                "evaluate/convert with destinations fresh, constant, unrelated polynomial, alias of either operand, and in-place growth "
                "after cancellation. Non-trivial = result with at least two terms or an evaluation; distinct = distinct line.",
        "trusted_base": ["operands are read back through lp_polynomial_traverse / lp_upolynomial_unpack (the same API users see)"],
        "assumptions": ["shift only by the main variable of a non-constant polynomial (documented precondition)"],
    },
    "C02": {
        "level": "proof",
        "lean_targets": ["LP.Props.C02"],
        "harnesses": [{"name": "h_div", "quick": 12000, "thorough": 200000}],
        "select": lambda t: t[1] in ("div", "udiv"),
        "nontrivial": lambda t, r: True,
        "rule": "instances A = Q0*B + R0 over Z, Z_5, Z_13 in 1-3 variables (degree gaps via x^k*A + small, vanishing remainders, scaled "
                "non-primitive divisors, divisors in lower variables or constants, monic divisors for exact division with remainder), "
                "through div/rem/divrem/prem/pdivrem/sprem/spdivrem/reduce/divides and the univariate div_exact/div_rem_exact/rem_exact/"
                "div_pseudo/divides. Every case is a division instance, hence non-trivial; distinct = distinct line.",
        "trusted_base": ["divisibility oracle = executable single-divisor division with multiply-back (sound by theorem; its completeness is not proved)"],
        "assumptions": ["documented domain: divisor non-zero, main variable of the divisor not above that of the dividend, exact variants only on exactly divisible inputs"],
    },
    "C18": {
        "level": "proof",
        "lean_targets": ["LP.Props.C18"],
        "harnesses": [{"name": "h_order", "quick": 6000, "thorough": 100000}],
        "select": lambda t: t[1] in ("ord", "poly", "gcd"),
        "nontrivial": lambda t, r: t[1] == "ord" and (t[2] != "check" or t[3] != t[4]),
        "rule": "histories on a private context: random permutation of 4 variables as the order (sometimes with variables left out), then "
                "4-12 steps of push/pop/reverse/clear+re-push interleaved with arithmetic on external and non-external polynomials, "
                "explicit re-ordering, equality/hash/cmp against an equal polynomial rebuilt along another route under the current order, "
                "and in-place modification after the hash was taken. Non-trivial = an ord observation made after the order changed, or "
                "any equality/keep observation; distinct = distinct line.",
        "trusted_base": ["the layout of an object is modelled by the order in force when it was last (re)ordered (tracked by the harness)"],
        "assumptions": [],
    },
    "C19": {
        "level": "proof",
        "lean_targets": ["LP.Props.C19"],
        "harnesses": [{"name": "h_mem", "quick": 6000, "thorough": 100000},
                      {"name": "h_scalar", "quick": 40000, "thorough": 400000},
                      {"name": "h_interval", "quick": 20000, "thorough": 200000},
                      {"name": "h_poly", "quick": 20000, "thorough": 200000},
                      {"name": "h_fsi", "quick": 1500, "thorough": 20000},
                      {"name": "h_container", "quick": 4000, "thorough": 40000},
                      {"name": "h_div", "quick": 4000, "thorough": 40000},
                      {"name": "h_gcd", "quick": 2500, "thorough": 30000},
                      {"name": "h_res", "quick": 1200, "thorough": 15000},
                      {"name": "h_value", "quick": 250, "thorough": 4000},
                      {"name": "h_alg", "quick": 250, "thorough": 4000},
                      {"name": "h_vialg", "quick": 1500, "thorough": 20000},
                      {"name": "h_infer", "quick": 1500, "thorough": 20000}],
        "select": lambda t: t[1] in ("refs", "div", "gcd", "res", "vil", "via") or (t[1] == "inf" and t[2] == "fmout") or _dest_of(t) in ("p", "a", "b", "c", "s"),
        "nontrivial": lambda t, r: True,
        "viol_filter": _c19_viol_filter,
        "rule": "(1) reference-count histories (create/attach/detach/destroy of rings and contexts, external polynomials, vectors, "
                "univariate polynomials, finite-field sets) with the ref_count fields read after every step; (2) every scalar, interval and "
                "polynomial operation whose destination is a pre-used object of another shape, a constant, or an alias of an input "
                "(division family: quotient / remainder / multiplier outputs in all three prior states, incl. constant operands); "
                "(3) all of these plus the set/container histories run under ASan+UBSan+LSan, any report is a violation. Counted cases = "
                "reference histories and operations with a non-fresh destination; distinct = distinct line.",
        "trusted_base": ["memory-safety clause is monitored by sanitizers on the generated runs, not proved",
                         "variable_db / variable_order counters are opaque structs: their lifetime is observed only through the sanitizers"],
        "assumptions": ["holders are released at most once (balanced histories)"],
    },
    "C03": {
        "level": "proof",
        "lean_targets": ["LP.Props.C03", "LP.Props.C03Greatest", "LP.Props.C03Fp"],
        "harnesses": [{"name": "h_gcd", "quick": 6000, "thorough": 80000}],
        "select": lambda t: t[1] in ("gcd", "ugcd"),
        "nontrivial": lambda t, r: True,
        "rule": "operands p = g0*a, q = g0*b over Z (1-3 variables) and univariate over Z, Z_5, Z_13 with numeric, monomial, trivial and "
                "polynomial common factors g0, plus zero, equal and coprime operands; every gcd is computed under three strategy settings "
                "(default / heuristic discarded / univariate shortcut disabled) through the LIBPOLY_VERIF hooks. Every case is non-trivial "
                "(a gcd-family computation); distinct = distinct line.",
        "trusted_base": ["coprimality certificates: Bezout identity over Q[x] at an integer specialisation that keeps a leading coefficient + coprime integer contents; "
                         "the argument that such certificates exclude every common factor is classical and not formalised (the Bezout and divisibility parts are proved)"],
        "assumptions": ["extended gcd / Bezout only over prime fields and within the documented degree bounds"],
    },
    "C04": {
        "level": "proof",
        "lean_targets": ["LP.Props.C04"],
        "harnesses": [{"name": "h_res", "quick": 2500, "thorough": 12000}],
        "select": lambda t: t[1] == "res",
        "nontrivial": lambda t, r: True,
        "rule": "pairs of polynomials with the same main variable, degrees 1-4 (Sylvester order <= 7), dense and sparse (degree gaps, "
                "defective chains), coefficients constant or polynomial in 1-2 further variables, common factors of degree 1-2, equal "
                "operands, p with p'; resultant, psc and subresultant chain in the argument order given (m<n, m=n, m>n all occur). "
                "Every case is non-trivial; distinct = distinct line.",
        "trusted_base": ["the Sylvester / subresultant matrices of Model/Resultant.lean are the executable specification (classical determinantal definition); C04_det proves that the model's Laplace expansion is Matrix.det of the denoted matrix for every size; the identification of that determinant with Mathlib's Polynomial.resultant (a reindexing of the same matrix) is not formalised"],
        "assumptions": ["Sylvester order capped at 7 (larger instances are skipped and counted)"],
    },
    "C06": {
        "level": "proof",
        "lean_targets": ["LP.Props.C06"],
        "harnesses": [{"name": "h_roots", "quick": 1500, "thorough": 6000}],
        "select": lambda t: t[1] == "roots",
        "nontrivial": lambda t, r: True,
        "rule": "non-constant integer polynomials of degree <= 9 built from irreducible blocks with known root structure (rational, dyadic, "
                "quadratic/cubic/quartic irrational, no real roots, clusters at distance 2^-k, magnitudes 2^-10..2^3, multiplicities 1-3), "
                "Mignotte-like and random polynomials; isolation, counting over rational intervals of every strictness whose ends are often "
                "roots, counting over R, Sturm sequences. Every case is non-trivial; distinct = distinct line.",
        "trusted_base": ["the verified root counter (Model/RootCount) answers `none` when its fuel is exhausted; such cases are counted as skipped"],
        "assumptions": ["degree <= 9"],
    },
    "C07": {
        "level": "proof",
        "lean_targets": ["LP.Props.C07", "LP.Props.C07Exact", "LP.Props.C07Inv"],
        "harnesses": [{"name": "h_alg", "quick": 400, "thorough": 2500}],
        "select": lambda t: t[1] == "alg",
        "nontrivial": lambda t, r: True,
        "rule": "pools of real algebraic numbers per case: all real roots (conjugates included) of quadratic / cubic blocks, dyadic "
                "points, rationals disguised as algebraic (q*x-p), dyadic neighbours at distance 2^-3..2^-33 of pool members, and results of "
                "earlier operations (degree <= 4); add, sub, mul, div, neg, inv, pow 0-4, positive root 2-4, cmp (number, integer, dyadic, "
                "rational), sgn, floor, ceiling, is_integer, is_rational + to_rational, to_double. Every line is non-trivial.",
        "trusted_base": ["the line parser / printer of the driver (RawAlg.toZ builds the well-formed pairs the theorems assume: WF / WFs hold by construction); the harness's read-out of the C structs"],
        "assumptions": ["operands with deg f + deg g <= 7 (larger eliminants are skipped and counted)"],
    },
    "C08": {
        "level": "proof",
        "lean_targets": ["LP.Props.C08", "LP.Props.C07Exact", "LP.Props.C07Inv"],
        "harnesses": [{"name": "h_value", "quick": 400, "thorough": 8000}],
        "select": lambda t: t[1] == "val",
        "nontrivial": lambda t, r: True,
        "rule": "pools of values per case: rational numbers in every representation that can hold them (integer, dyadic, rational, "
                "algebraic point / linear polynomial), irrational algebraic numbers, rational roots hidden in reducible quadratics, "
                "+-infinity; cmp over all representation pairs, cmp_rational, sgn, add/sub/mul/div/neg/inv/pow incl. the defined infinite "
                "cases, floor/ceiling/is_integer, is_rational + get_rational/num/den, get_value_between with all strictness patterns, "
                "hash_approx of pairs biased to equal numbers in different representations. Every line is non-trivial.",
        "trusted_base": ["as C07: driver parsing / value-to-model conversion (Driver/Value.lean) and the harness read-out; the table of infinite operands is the documented one, written by hand"],
        "assumptions": ["operands with deg f + deg g <= 7; undefined infinite combinations (inf-inf, 0*inf, inf/inf, x^0) are not generated"],
    },
    "C09": {
        "level": "proof",
        "lean_targets": ["LP.Props.C09"],
        "harnesses": [{"name": "h_hist", "quick": 150, "thorough": 3000}],
        "select": lambda t: t[1] in ("hist", "val") or (t[1] == "ev" and t[2] == "keep"),
        "nontrivial": lambda t, r: True,
        "rule": "histories of 25-50 public calls over a pool of values (irrational algebraic numbers incl. conjugates, rationals hidden in "
                "reducible quadratics, rationals as algebraic / rational values), copies taken and destroyed at random times, and three "
                "values stored in an assignment: cmp, cmp_rational, sgn, floor, hash_approx, to_double, add, mul, refine_const, "
                "get_value_between, polynomial sgn / evaluate / roots_isolate / constraint feasible set under the assignment. After every "
                "call every tracked object whose raw state changed is dumped and compared with its creation-time representation.",
        "trusted_base": ["the harness reads struct lp_algebraic_number_struct fields directly (f, I, sgn_at_a, sgn_at_b)"],
        "assumptions": [],
    },
    "C10": {
        "level": "proof",
        "lean_targets": ["LP.Props.C10", "LP.Props.Elim", "LP.Props.GenTables"],
        "gen_tables": True,
        "harnesses": [{"name": "h_eval", "quick": 700, "thorough": 15000}],
        "select": lambda t: t[1] == "ev" and t[2] in ("sgn", "value", "cons"),
        "nontrivial": lambda t, r: True,
        "rule": "polynomials in three variables under total assignments: (sqrt2, sqrt3, sqrt6) with signs, conjugate pairs, 1+-sqrt3, "
                "cubic root of 2 and the golden ratio, rationals in every representation, random tuples; polynomials q*T + c with T "
                "vanishing on the tuple and c in {0, +-1} (also scaled by 2^10..2^40), random polynomials, and d*x0 - n with n/d inside the "
                "isolating interval of a root of a - M(x+..+x^n) (zero-test bound family); sgn, evaluate, constraint_evaluate (six "
                "conditions), 20% under the reversed variable order. Every line is non-trivial.",
        "trusted_base": ["none beyond the common base: the resultant property used for the answer 0 is proved (resultant_vanishes, eliminant_root, C10_sign_exact)"],
        "assumptions": ["largest elimination step of Sylvester order <= 8; above that only certified non-zero signs are judged"],
    },
    "C11": {
        "level": "proof",
        "lean_targets": ["LP.Props.C11", "LP.Props.C11Roots", "LP.Props.C12Exact", "LP.Props.C11Fallback2"],
        "harnesses": [{"name": "h_eval", "quick": 150, "thorough": 1200, "env": {"LPV_EVAL_MODE": "roots"}}],
        "select": lambda t: t[1] == "ev" and t[2] == "roots",
        "nontrivial": lambda t, r: True,
        "rule": "polynomials with main variable y as products of 1-2 factors (y-L, y^2-L, L1*y-L2, (y-L)^2, L1*y^2+L2*y+L3, y^2+L^2+1, "
                "y^2-2, y^3-L) with coefficients L in {constants, x0, x1, x0+x1, x0*x1, x0^2-2, x1^2-3, x0-1, x0*x1-x2, 2*x0}, optionally "
                "times a content factor that may vanish, under the C10 value tuples (algebraically dependent algebraic numbers, rationals "
                "in all representations): rational specialisations, algebraic elimination with spurious conjugate roots, vanishing leading "
                "coefficients and contents, multiple and rational roots. Every line is non-trivial.",
        "trusted_base": ["driver parsing and the comparison loop that matches the library's roots one by one against the model list (uses the proved Alg.cmp)"],
        "assumptions": ["algebraic zero tests of Sylvester order <= 8; otherwise the case is skipped and counted"],
    },
    "C12": {
        "level": "proof",
        "lean_targets": ["LP.Props.C12", "LP.Props.C12Exact", "LP.Props.C12Compl", "LP.Props.C12Glue", "LP.Props.GenTables"],
        "gen_tables": True,
        "harnesses": [{"name": "h_eval", "quick": 250, "thorough": 1000, "env": {"LPV_EVAL_MODE": "fs"}}],
        "select": lambda t: t[1] == "ev" and t[2] in ("fs", "rfs"),
        "nontrivial": lambda t, r: True,
        "rule": "the C11 polynomial / assignment families with all six sign conditions, both polarities, and root constraints with root "
                "indices 0..deg+1. Every line is non-trivial.",
        "trusted_base": ["driver parsing and the interval-by-interval comparison of the library's set with the reference set (end points by the proved Alg.cmp); as C11 the eliminant-free fallback is outside C12_feasible_exact"],
        "assumptions": ["as C11"],
    },
    "C16": {
        "level": "proof",
        "lean_targets": ["LP.Props.C16", "LP.Props.C16Fm"],
        "harnesses": [{"name": "h_infer", "quick": 1500, "thorough": 40000}],
        "select": lambda t: t[1] == "inf" and t[2] != "fmout",      # the state of the output object is C19's business
        "nontrivial": lambda t, r: not (len(r) >= 1 and r[0] == "0"),
        "rule": "bounds: sums of univariate quadratics a_k x_k^2 + b_k x_k over 1-4 distinct variables plus a constant, coefficients of "
                "either sign (8% mixed signs), optional cross / cubic terms, the whole polynomial negated in 35%, all six conditions, "
                "both polarities, with the explanation polynomial of every bounded variable; fm: pairs [V*y^2 +] L*y + N with L in "
                "{+-1..3, x0, x0-1, x1, x0^2-2, -x1, x0+x1}, V vanishing under the model, N random, all 36 condition pairs, rational and "
                "sqrt2 models. Non-trivial = the library made a claim (rc != 0 / ok = 1).",
        "trusted_base": ["projection end points are compared through the proved algebraic-number comparison"],
        "assumptions": [],
    },
    "C05": {
        "level": "proof",
        "lean_targets": ["LP.Props.C05", "LP.Props.C03Fp", "LP.Props.C05ModP", "LP.Props.C05FpBasic", "LP.Props.C05FpDiv", "LP.Props.C05FpIrr", "LP.Props.C05CertModP", "LP.Props.C05Unique"],
        "harnesses": [{"name": "h_factor", "quick": 600, "thorough": 6000}],
        "select": lambda t: t[1] == "fac",
        "nontrivial": lambda t, r: True,
        "rule": "Z[x]: products of 1-5 irreducible blocks (linear incl. non-monic, quadratic, cubic, quartic incl. x^4+1 and "
                "x^4-10x^2+1 which split modulo every prime) with multiplicities 1-3 and a content, 20% with five small linear / "
                "quadratic factors (recombination after lifting); Z_p[x] for p = 2, 5, 13: products of random polynomials with "
                "multiplicities incl. multiples of p; multivariate: products of small polynomials in 1-3 variables with multiplicities and "
                "integer content; square-free, full and content-free factorization. Every line is non-trivial.",
        "trusted_base": ["the irreducibility of the Z[x] building blocks is re-certified by the model on every line (irreducible modulo a prime not dividing the leading coefficient, or Kronecker's method); trial division over F_p"],
        "assumptions": ["degree <= 10 over Z, <= 9 over Z_2 / Z_5, <= 6 over Z_13; multivariate discriminants of Sylvester order <= 7"],
    },
}
