import LP.Model.MPoly
import LP.Model.GcdCheck
import LP.Model.Resultant
import LP.Driver.Scalar
namespace LP.Driver
open LP

/-- `c*x1^2*x3^1` -/
def pTerm? (s : String) : Option Term :=
  match s.splitOn "*" with
  | [] => none
  | c :: vs => do
      let c ← pInt? c
      let m ← vs.mapM (fun v =>
        if v.startsWith "x" then
          match (v.drop 1).toString.splitOn "^" with
          | [x, e] => do
              let x ← pNat? x
              let e ← pNat? e
              some (x, e)
          | _ => none
        else none)
      some (m, c)

/-- raw term list as printed by the harness (`0` = no terms) -/
def pPolyRaw? (s : String) : Option MPoly :=
  if s = "0" then some [] else (s.splitOn "+").mapM pTerm?

def showMono (m : Mono) : String := "".intercalate (m.map (fun p => s!"*x{p.1}^{p.2}"))
def showPoly (p : MPoly) : String :=
  if p.isEmpty then "0" else "+".intercalate (p.map (fun t => s!"{t.2}{showMono t.1}"))

/-- the traversal must list every monomial once, with a non-zero coefficient in the ring's range -/
def rawCanonical (K : Ring) (raw : MPoly) : Bool :=
  let ms := raw.map (fun t => Mono.norm t.1)
  raw.all (fun t => t.2 ≠ 0 && inRing K t.2 && t.1.all (fun p => p.2 > 0)) && ms.eraseDups.length = ms.length

/-- univariate dense list `u:c0,c1,…` as a polynomial in variable `x` -/
def pUPoly? (s : String) : Option (List Int) :=
  if s.startsWith "u:" then pList? pInt? (s.drop 2).toString else none

def upolyToMPoly (K : Ring) (x : Nat) (cs : List Int) : MPoly :=
  MPoly.normalize K (cs.zipIdx.map (fun p => ((if p.2 = 0 then [] else [(x, p.2)]), p.1)))

def showUPoly (cs : List Int) : String := "u:" ++ ",".intercalate (cs.map toString)

/-- dense coefficient list of a canonical polynomial in the single variable `x` -/
def mpolyToDense (x : Nat) (p : MPoly) : List Int :=
  let d := MPoly.degreeIn x p
  (List.range (d + 1)).map (fun i => ((p.find? (fun t => Mono.degreeIn x t.1 = i)).map (·.2)).getD 0)

def upCanonical (K : Ring) (cs : List Int) : Bool :=
  cs.all (inRing K) && (cs.length = 1 || cs.getLast? ≠ some 0) && !cs.isEmpty

def polyEq (K : Ring) (rawGot : MPoly) (want : MPoly) : Bool := MPoly.normalize K rawGot = want

def judgePoly (K : Ring) (tag cls : String) (got : String) (want : MPoly) : Verdict :=
  match pPolyRaw? got with
  | none => .skip "bad result polynomial"
  | some raw =>
    if !rawCanonical K raw then .viol "poly-canon" s!"result not canonical (zero/duplicate/out-of-range term): {got}"
    else if polyEq K raw want then .ok tag
    else .viol cls s!"got {got} want {showPoly want}"

def ringTag (K : Ring) (prime : Bool) : String := match K with | none => "Z" | some _ => if prime then "Zp" else "Zc"

def checkPoly (op : String) (args res : List String) : Verdict :=
  match args with
  | rs :: dest :: rest =>
    (match pRing? rs with
     | none => .skip "bad ring"
     | some (K, prime) =>
       let tag := s!"{op}/{ringTag K prime}/{dest}"
       let P (s : String) : Option MPoly := (pPolyRaw? s).map (MPoly.normalize K)
       let nPolyArgs : Nat := match op with
         | "add" | "sub" | "mul" => 2
         | "addmul" | "submul" => 3
         | "fromuni" | "simple" => 0
         | _ => 1
       let inputsOk : Bool := (rest.take nPolyArgs).all (fun s => match pPolyRaw? s with | some raw => rawCanonical K raw | none => true)
       if !inputsOk then .viol "poly-canon" "an operand is not in canonical form" else
       match op, rest, res with
       | "add", [a, b], [r] => (match P a, P b with | some a, some b => judgePoly K tag "poly-add" r (MPoly.add K a b) | _, _ => .skip "bad")
       | "sub", [a, b], [r] => (match P a, P b with | some a, some b => judgePoly K tag "poly-sub" r (MPoly.sub K a b) | _, _ => .skip "bad")
       | "mul", [a, b], [r] => (match P a, P b with | some a, some b => judgePoly K tag "poly-mul" r (MPoly.mul K a b) | _, _ => .skip "bad")
       | "neg", [a], [r] => (match P a with | some a => judgePoly K tag "poly-neg" r (MPoly.neg K a) | _ => .skip "bad")
       | "assign", [a], [r] => (match P a with | some a => judgePoly K tag "poly-assign" r a | _ => .skip "bad")
       | "shrink", [a], [r] => (match P a with | some a => judgePoly K tag "poly-shrink" r a | _ => .skip "bad")
       | "mulint", [a, c], [r] => (match P a, pInt? c with | some a, some c => judgePoly K tag "poly-mulint" r (MPoly.mulInt K a c) | _, _ => .skip "bad")
       | "pow", [a, n], [r] => (match P a, pNat? n with | some a, some n => judgePoly K tag "poly-pow" r (MPoly.pow K a n) | _, _ => .skip "bad")
       | "addmul", [s, a, b], [r] => (match P s, P a, P b with
           | some s, some a, some b => judgePoly K tag "poly-addmul" r (MPoly.addMul K s a b) | _, _, _ => .skip "bad")
       | "submul", [s, a, b], [r] => (match P s, P a, P b with
           | some s, some a, some b => judgePoly K tag "poly-submul" r (MPoly.subMul K s a b) | _, _, _ => .skip "bad")
       | "shl", [a, x, n], [r] => (match P a, pNat? x, pNat? n with
           | some a, some x, some n => judgePoly K tag "poly-shl" r (MPoly.shl K a x n) | _, _, _ => .skip "bad")
       | "deriv", [a, x], [r] => (match P a, pInt? x with
           | some a, some x => judgePoly K tag "poly-deriv" r (if x < 0 then [] else MPoly.derivative K a x.toNat) | _, _ => .skip "bad")
       | "obs", [a], [z, c, d, tv] =>
         -- structural observers must agree with the denoted polynomial
         (match P a with
          | some a =>
            let isC := a.all (fun t => t.1.isEmpty)
            let top := (MPoly.vars a).foldl max 0
            let wantDeg := if isC then 0 else MPoly.degreeIn top a
            if (z = "1") ≠ a.isEmpty then .viol "poly-obs" s!"is_zero = {z} for {showPoly a}"
            else if (c = "1") ≠ isC then .viol "poly-obs" s!"is_constant = {c} for {showPoly a}"
            else if d ≠ toString wantDeg then .viol "poly-obs" s!"degree = {d} for {showPoly a} (degree {wantDeg} in its top variable)"
            else if !isC ∧ tv ≠ toString top then .viol "poly-obs" s!"top variable = {tv} for {showPoly a}"
            else .ok "poly/obs"
          | none => .skip "bad")
       | "simple", [c, x, n], [r, z, k, d] =>
         (match pInt? c, pNat? x, pNat? n with
          | some c, some x, some n =>
            let want := MPoly.normalize K [((if n = 0 then [] else [(x, n)]), c)]
            let isC := want.all (fun t => t.1.isEmpty)
            match judgePoly K tag "poly-simple" r want with
            | .ok _ =>
              if (z = "1") ≠ want.isEmpty then .viol "poly-simple" s!"is_zero = {z} for {c}*x{x}^{n}"
              else if (k = "1") ≠ isC then .viol "poly-simple" s!"is_constant = {k} for {c}*x{x}^{n} = {showPoly want}"
              else if d ≠ toString (if isC then 0 else n) then .viol "poly-simple" s!"degree = {d} for {c}*x{x}^{n} = {showPoly want}"
              else .ok s!"poly/simple/{if want.isEmpty then "zero" else if isC then "const" else "proper"}"
            | v => v
          | _, _, _ => .skip "bad")
       | "addmono", [a, t], [r] => (match P a, pTerm? t with
           | some a, some t => judgePoly K tag "poly-addmono" r (MPoly.add K a [t]) | _, _ => .skip "bad")
       | "evalint", [a, vs], [r] => (match P a, pList? pInt? vs with
           | some a, some vs =>
             let v := MPoly.evalInt a (fun i => vs.getD i 0)
             expectEq tag "poly-evalint" r (toString (norm K v))
           | _, _ => .skip "bad")
       | "touni", [a], [r] => (match P a, pUPoly? r with
           | some a, some cs =>
             if !upCanonical K cs then .viol "up-canon" s!"univariate result not canonical {r}" else
             let x := (MPoly.vars a).headD 0
             if mpolyToDense x a = cs then .ok tag else .viol "poly-touni" s!"got {r} want {showUPoly (mpolyToDense x a)}"
           | _, _ => .skip "bad")
       | "fromuni", [u, x], [r] => (match pUPoly? u, pNat? x with
           | some cs, some x => judgePoly K tag "poly-fromuni" r (upolyToMPoly K x cs) | _, _ => .skip "bad")
       | _, _, _ => .skip s!"unknown poly op {op}")
  | _ => .skip "short poly line"

def judgeUP (K : Ring) (tag cls : String) (got : String) (want : MPoly) : Verdict :=
  match pUPoly? got with
  | none => .skip "bad univariate result"
  | some cs =>
    if !upCanonical K cs then .viol "up-canon" s!"univariate result not canonical (zero leading coefficient / out of range): {got}"
    else if upolyToMPoly K 0 cs = want then .ok tag
    else .viol cls s!"got {got} want {showUPoly (mpolyToDense 0 want)}"

def checkUP (op : String) (args res : List String) : Verdict :=
  match args with
  | rs :: rest =>
    (match pRing? rs with
     | none => .skip "bad ring"
     | some (K, prime) =>
       let tag := s!"{op}/{ringTag K prime}"
       let U (s : String) : Option MPoly := (pUPoly? s).map (upolyToMPoly K 0)
       let inputsOk : Bool := rest.all (fun s => match pUPoly? s with | some cs => op = "copyK" || upCanonical K cs | none => true)
       if !inputsOk then .viol "up-canon" "a univariate operand is not canonical" else
       match op, rest, res with
       | "add", [a, b], [r] => (match U a, U b with | some a, some b => judgeUP K tag "up-add" r (MPoly.add K a b) | _, _ => .skip "bad")
       | "sub", [a, b], [r] => (match U a, U b with | some a, some b => judgeUP K tag "up-sub" r (MPoly.sub K a b) | _, _ => .skip "bad")
       | "mul", [a, b], [r] => (match U a, U b with | some a, some b => judgeUP K tag "up-mul" r (MPoly.mul K a b) | _, _ => .skip "bad")
       | "neg", [a], [r] => (match U a with | some a => judgeUP K tag "up-neg" r (MPoly.neg K a) | _ => .skip "bad")
       | "cmp", [a, b], [c1, c2] => (match U a, U b, pInt? c1, pInt? c2 with
           | some a, some b, some c1, some c2 =>
             let same := MPoly.normalize K a = MPoly.normalize K b
             if same ≠ (c1 = 0) then .viol "up-cmp" s!"cmp = {c1} for {if same then "equal" else "different"} polynomials"
             else if c2 ≠ -c1 then .viol "up-cmp" s!"cmp is not antisymmetric: {c1} and {c2}"
             else .ok s!"{tag}/{if same then "eq" else "ne"}"
           | _, _, _, _ => .skip "bad")
       | "mulc", [a, c], [r] => (match U a, pInt? c with | some a, some c => judgeUP K tag "up-mulc" r (MPoly.mulInt K a c) | _, _ => .skip "bad")
       | "pow", [a, n], [r] => (match U a, pNat? n with | some a, some n => judgeUP K tag "up-pow" r (MPoly.pow K a n) | _, _ => .skip "bad")
       | "deriv", [a], [r] => (match U a with | some a => judgeUP K tag "up-deriv" r (MPoly.derivative K a 0) | _ => .skip "bad")
       | "construct", [cs], [r] => (match pList? pInt? cs with | some cs => judgeUP K tag "up-construct" r (upolyToMPoly K 0 cs) | _ => .skip "bad")
       | "copyK", [a], [r] => (match pUPoly? a with | some cs => judgeUP K tag "up-copyK" r (upolyToMPoly K 0 cs) | _ => .skip "bad")
       | "evalint", [a, x], [r] => (match U a, pInt? x with
           | some a, some x => expectEq tag "up-evalint" r (toString (norm K (MPoly.evalInt a (fun _ => x)))) | _, _ => .skip "bad")
       | "evalrat", [a, x], [r] => (match U a, pRat? x with
           | some a, some x => expectEq tag "up-evalrat" r (showRat (MPoly.evalRat a (fun _ => x))) | _, _ => .skip "bad")
       | "sgnrat", [a, x], [r] => (match U a, pRat? x with
           | some a, some x => expectEq tag "up-sgnrat" r (toString (sgnQ (MPoly.evalRat a (fun _ => x)))) | _, _ => .skip "bad")
       | _, _, _ => .skip s!"unknown up op {op}")
  | _ => .skip "short up line"

end LP.Driver

namespace LP.Driver
open LP

/-- exists k ≤ kmax with lc^k * A = D*B + R -/
def findPseudoK (K : Ring) (x : Nat) (A B D R : MPoly) (kmax : Nat) : Option Nat :=
  (List.range (kmax + 1)).find? (fun k => MPoly.checkReduceIdentity K (MPoly.pow K (MPoly.lcIn K x B) k) A D B R)

def degOk (x : Nat) (B R : MPoly) : Bool :=
  R.isEmpty || MPoly.degreeIn x R < MPoly.degreeIn x B || MPoly.degreeIn x R = 0

def checkDiv (op : String) (args res : List String) : Verdict :=
  match args with
  | [rs, xs, a, b] =>
    (match pRing? rs, pInt? xs, pPolyRaw? a, pPolyRaw? b with
     | some (K, prime), some xi, some ra, some rb =>
       if !(rawCanonical K ra && rawCanonical K rb) then .viol "poly-canon" "operand not canonical" else
       let A := MPoly.normalize K ra
       let B := MPoly.normalize K rb
       let x := xi.toNat
       let dA := MPoly.degreeIn x A
       let dB := MPoly.degreeIn x B
       let kmax := if dA ≥ dB then dA - dB + 1 else 0
       let tag := s!"{op}/{ringTag K prime}/{if dB = 0 then "B-const-in-x" else if dA < dB then "dA<dB" else if dA - dB ≥ 2 then "gap" else "near"}"
       let R? (s : String) : Option MPoly := match pPolyRaw? s with
         | some raw => if rawCanonical K raw then some (MPoly.normalize K raw) else none
         | none => none
       match op, res with
       | "div", [d] => (match R? d with
           | some D => if MPoly.mul K D B = A then .ok tag else .viol "div-exact" s!"D*B ≠ A: D={showPoly D}"
           | none => .viol "poly-canon" "result not canonical")
       | "rem", [r] => (match R? r with
           | some R =>
             (match MPoly.divExact? K prime (MPoly.sub K A R) B with
              | some _ => if degOk x B R then .ok tag else .viol "div-degree" s!"deg_x R not below deg_x B: R={showPoly R}"
              | none => .viol "div-rem" s!"A - R is not a multiple of B: R={showPoly R}")
           | none => .viol "poly-canon" "result not canonical")
       | "divrem", [d, r] => (match R? d, R? r with
           | some D, some R =>
             if !(MPoly.checkReduceIdentity K (MPoly.const K 1) A D B R) then .viol "div-divrem" s!"A ≠ D*B + R: D={showPoly D} R={showPoly R}"
             else if !degOk x B R then .viol "div-degree" s!"deg_x R not below deg_x B: R={showPoly R}"
             else .ok tag
           | _, _ => .viol "poly-canon" "result not canonical")
       | "prem", [r] => (match R? r with
           | some R =>
             let hit := (List.range (kmax + 1)).find? (fun k =>
               (MPoly.divExact? K prime (MPoly.sub K (MPoly.mul K (MPoly.pow K (MPoly.lcIn K x B) k) A) R) B).isSome)
             (match hit with
              | some k => if degOk x B R then .ok (tag ++ (if k = kmax then "/k=max" else "/k<max")) else .viol "div-degree" s!"deg_x R not below deg_x B: R={showPoly R}"
              | none => .viol "div-prem" s!"no k ≤ {kmax} with lc(B)^k*A - R a multiple of B: R={showPoly R}")
           | none => .viol "poly-canon" "result not canonical")
       | "sprem", [r] => (match R? r with
           | some R =>
             let hit := (List.range (kmax + 1)).find? (fun k =>
               (MPoly.divExact? K prime (MPoly.sub K (MPoly.mul K (MPoly.pow K (MPoly.lcIn K x B) k) A) R) B).isSome)
             (match hit with
              | some _ => if degOk x B R then .ok tag else .viol "div-degree" s!"deg_x R not below deg_x B: R={showPoly R}"
              | none => .viol "div-sprem" s!"no k ≤ {kmax} with lc(B)^k*A - R a multiple of B: R={showPoly R}")
           | none => .viol "poly-canon" "result not canonical")
       | "pdivrem", [d, r] => (match R? d, R? r with
           | some D, some R =>
             (match findPseudoK K x A B D R kmax with
              | some k => if degOk x B R then .ok (tag ++ (if k = kmax then "/k=max" else "/k<max")) else .viol "div-degree" s!"deg_x R not below deg_x B: R={showPoly R}"
              | none => .viol "div-pdivrem" s!"no k ≤ {kmax} with lc(B)^k*A = D*B + R: D={showPoly D} R={showPoly R}")
           | _, _ => .viol "poly-canon" "result not canonical")
       | "spdivrem", [d, r] => (match R? d, R? r with
           | some D, some R =>
             (match findPseudoK K x A B D R kmax with
              | some _ => if degOk x B R then .ok tag else .viol "div-degree" s!"deg_x R not below deg_x B: R={showPoly R}"
              | none => .viol "div-spdivrem" s!"no k ≤ {kmax} with lc(B)^k*A = D*B + R: D={showPoly D} R={showPoly R}")
           | _, _ => .viol "poly-canon" "result not canonical")
       | "reduce", [p, q, r] => (match R? p, R? q, R? r with
           | some P, some Q, some R =>
             if !(MPoly.checkReduceIdentity K P A Q B R) then .viol "div-reduce" s!"P*A ≠ Q*B + R: P={showPoly P} Q={showPoly Q} R={showPoly R}"
             else if (MPoly.vars P).contains x then .viol "div-reduce-P" s!"P contains the main variable: P={showPoly P}"
             else if !degOk x B R then .viol "div-degree" s!"deg_x R not below deg_x B: R={showPoly R}"
             else if !(MPoly.isLcPower K x B P kmax) then .viol "div-dense-power" s!"dense reduction: P={showPoly P} is not lc(B)^{kmax}"
             else .ok tag
           | _, _, _ => .viol "poly-canon" "result not canonical")
       | "divides", [r] =>
           (match K with
            | some _ => if !prime then .skip "divides in composite ring" else
                let want := (MPoly.divExact? K prime A B).isSome
                if (r ≠ "0") = want then .ok (tag ++ s!"/{want}") else .viol "div-divides" s!"got {r}, a quotient {if want then "exists" else "does not exist"}"
            | none =>
                let want := (MPoly.divExact? K prime A B).isSome
                if (r ≠ "0") = want then .ok (tag ++ s!"/{want}") else .viol "div-divides" s!"got {r}, a quotient {if want then "exists" else "does not exist"}")
       | _, _ => .skip s!"unknown div op {op}"
     | _, _, _, _ => .skip "bad div line")
  | _ => .skip "div arity"

def checkUDiv (op : String) (args res : List String) : Verdict :=
  match args with
  | [rs, a, b] =>
    (match pRing? rs, pUPoly? a, pUPoly? b with
     | some (K, prime), some ca, some cb =>
       if !(upCanonical K ca && upCanonical K cb) then .viol "up-canon" "operand not canonical" else
       let A := upolyToMPoly K 0 ca
       let B := upolyToMPoly K 0 cb
       let dA := MPoly.degreeIn 0 A
       let dB := MPoly.degreeIn 0 B
       let tag := s!"{op}/{ringTag K prime}"
       let U? (s : String) : Option MPoly := match pUPoly? s with
         | some cs => if upCanonical K cs then some (upolyToMPoly K 0 cs) else none
         | none => none
       let degR (R : MPoly) : Bool := R.isEmpty || MPoly.degreeIn 0 R < dB
       match op, res with
       | "divexact", [d] => (match U? d with
           | some D => if MPoly.mul K D B = A then .ok tag else .viol "udiv-exact" s!"D*B ≠ A"
           | none => .viol "up-canon" "result not canonical")
       | "divrem", [d, r] => (match U? d, U? r with
           | some D, some R =>
             if !(MPoly.checkReduceIdentity K (MPoly.const K 1) A D B R) then .viol "udiv-divrem" "A ≠ D*B + R"
             else if !degR R then .viol "udiv-degree" "deg R not below deg B" else .ok tag
           | _, _ => .viol "up-canon" "result not canonical")
       | "rem", [r] => (match U? r with
           | some R =>
             (match MPoly.divExact? K prime (MPoly.sub K A R) B with
              | some _ => if degR R then .ok tag else .viol "udiv-degree" "deg R not below deg B"
              | none => .viol "udiv-rem" "A - R is not a multiple of B")
           | none => .viol "up-canon" "result not canonical")
       | "pseudo", [d, r] => (match U? d, U? r with
           | some D, some R =>
             let k := dA - dB + 1
             if !(MPoly.checkReduceIdentity K (MPoly.pow K (MPoly.lcIn K 0 B) k) A D B R) then .viol "udiv-pseudo" s!"lc(q)^{k}*p ≠ div*q + rem"
             else if !degR R then .viol "udiv-degree" "deg rem not below deg q" else .ok tag
           | _, _ => .viol "up-canon" "result not canonical")
       | "divides", [r] =>
           if K.isSome && !prime then .skip "divides in composite ring" else
           let want := (MPoly.divExact? K prime A B).isSome
           if (r ≠ "0") = want then .ok (tag ++ s!"/{want}") else .viol "udiv-divides" s!"got {r}, a quotient {if want then "exists" else "does not exist"}"
       | _, _ => .skip s!"unknown udiv op {op}"
     | _, _, _ => .skip "bad udiv line")
  | _ => .skip "udiv arity"

end LP.Driver

namespace LP.Driver
open LP

def pVarList? (s : String) : Option (List Nat) := pList? pNat? s

def checkOrd (op : String) (args res : List String) : Verdict :=
  match op, args, res with
  | "check", [l, c, p], r :: rest =>
    (match pVarList? l, pVarList? c, pPolyRaw? p with
     | some L, some C, some raw =>
       let want := layoutInOrder L C (raw.map (fun t => (Mono.norm t.1, t.2)))
       let tag := s!"check/{if want then "in" else "out"}/{if L = C then "same" else "changed"}"
       if r ≠ (if want then "1" else "0") then .viol "ord-check" s!"check_order answered {r}, the layout is {if want then "" else "not "}in order"
       else if rest = ["0"] then .viol "ord-external" "external polynomial still out of order after use"
       else .ok tag
     | _, _, _ => .skip "bad")
  | "keep", [rs, before], [after, inOrd] =>
    (match pRing? rs, pPolyRaw? before, pPolyRaw? after with
     | some (K, _), some b, some a =>
       if !rawCanonical K a then .viol "poly-canon" "re-ordered polynomial not canonical"
       else if MPoly.normalize K b ≠ MPoly.normalize K a then .viol "ord-keep" s!"re-ordering changed the polynomial: {after}"
       else if inOrd ≠ "1" then .viol "ord-check" "check_order is false right after ensure_order"
       else .ok "keep"
     | _, _, _ => .skip "bad")
  | "found", [w], [f] =>
    if f = "1" then .ok s!"ord/container/{w}"
    else .viol "ord-container" "a polynomial inserted into a hash set after an order change is not found under an equal key"
  | "cleaned", [_], [a, b] =>
    if a = "1" ∧ b = "1" then .ok "cleaned" else .viol "ord-external" s!"external operand of eq/cmp left out of order after the call ({a} {b})"
  | "eqhash", [rs, p, q], [e, hp, hq, c] =>
    (match pRing? rs, pPolyRaw? p, pPolyRaw? q with
     | some (K, _), some p, some q =>
       let same := MPoly.normalize K p = MPoly.normalize K q
       if same then
         (if e ≠ "1" then .viol "ord-eq" s!"equal polynomials reported different (eq={e}, hashes {hp} {hq})"
          else if hp ≠ hq then .viol "ord-hash" s!"equal polynomials hash differently: {hp} {hq}"
          else if c ≠ "0" then .viol "ord-cmp" "equal polynomials compare non-zero"
          else if hp ≠ toString (MPoly.hash p) then .disagree s!"hash value {hp} differs from the mirror of coefficient_hash {MPoly.hash p}"
          else .ok "eqhash/equal")
       else
         (if e ≠ "0" then .viol "ord-eq" "different polynomials reported equal"
          else if c = "0" then .viol "ord-cmp" "different polynomials compare zero"
          else .ok "eqhash/different")
     | _, _, _ => .skip "bad")
  | _, _, _ => .skip s!"unknown ord op {op}"

end LP.Driver

namespace LP.Driver
open LP

def certTag : MPoly.Cert → String
  | .yes => "certified" | .no => "refuted" | .unknown => "inconclusive"

/-- multivariate gcd / lcm / pp / cont over Z -/
def checkGcd (op : String) (args res : List String) : Verdict :=
  let K : Ring := none
  let R? (s : String) : Option MPoly := match pPolyRaw? s with
    | some raw => if rawCanonical K raw then some (MPoly.normalize K raw) else none
    | none => none
  match op, args, res with
  | "gcd", [_, flags, p, q, g0], [g] =>
    (match R? p, R? q, R? g0, R? g with
     | some P, some Q, some G0, some G =>
       let tag := s!"gcd/flags{flags}/{if P.isEmpty ∨ Q.isEmpty then "zero" else if P = Q then "equal" else if G0.length ≤ 1 then "small-common" else "poly-common"}"
       -- a known common divisor must divide the gcd
       if !(P.isEmpty ∧ Q.isEmpty) ∧ (MPoly.divExact? K false G G0).isNone then
         .viol "gcd-greatest" s!"the common divisor {showPoly G0} does not divide the returned gcd {showPoly G}"
       else
         (match MPoly.checkGcdZ P Q G with
          | .yes => .ok (tag ++ "/certified")
          | .no => .viol "gcd-gcd" s!"returned {showPoly G}: does not divide both operands, or the cofactors share a factor"
          | .unknown => .ok (tag ++ "/common-divisor-only"))
     | _, _, _, _ => .viol "poly-canon" "gcd operand/result not canonical")
  | "lcm", [_, _, p, q], [l] =>
    (match R? p, R? q, R? l with
     | some P, some Q, some L =>
       -- p | l, q | l and p*q/l is a gcd of p and q
       (match MPoly.divExact? K false L P, MPoly.divExact? K false L Q, MPoly.divExact? K false (MPoly.mul K P Q) L with
        | some _, some _, some G =>
          (match MPoly.checkGcdZ P Q G with
           | .yes => .ok "lcm/certified"
           | .no => .viol "gcd-lcm" s!"p*q/lcm = {showPoly G} is not a gcd"
           | .unknown => .ok "lcm/multiple-only")
        | _, _, _ => .viol "gcd-lcm" s!"lcm {showPoly L} is not a common multiple dividing p*q")
     | _, _, _ => .viol "poly-canon" "lcm operand/result not canonical")
  | "ppcont", [_, xs, p], [pp, c] =>
    (match pInt? xs, R? p, R? pp, R? c with
     | some x, some P, some PP, some C =>
       if MPoly.mul K PP C ≠ P then .viol "gcd-ppcont" s!"cont*pp ≠ p: pp={showPoly PP} cont={showPoly C}"
       else if MPoly.lcSign PP ≤ 0 then .viol "gcd-ppsign" s!"primitive part has non-positive leading coefficient: {showPoly PP}"
       else if x < 0 then (if PP = [([], 1)] then .ok "ppcont/constant" else .viol "gcd-ppcont" "primitive part of a constant is not 1")
       else if (MPoly.vars C).contains x.toNat then .viol "gcd-ppcont" "content contains the main variable"
       else
         (match MPoly.primitiveIn K x.toNat PP with
          | .yes => .ok "ppcont/certified"
          | .no => .viol "gcd-primitive" s!"primitive part {showPoly PP} has non-trivial content"
          | .unknown => .ok "ppcont/product-only")
     | _, _, _, _ => .viol "poly-canon" "pp/cont operand/result not canonical")
  | _, _, _ => .skip s!"unknown gcd op {op}"

def upToQ (cs : List Int) : QPoly := cs.map (fun (c : Int) => (c : Rat))

/-- univariate gcd family -/
def checkUGcd (op : String) (args res : List String) : Verdict :=
  match args with
  | rs :: rest =>
    (match pRing? rs with
     | none => .skip "bad ring"
     | some (K, prime) =>
       let U? (s : String) : Option (List Int) := match pUPoly? s with
         | some cs => if upCanonical K cs then some cs else none
         | none => none
       let M (cs : List Int) : MPoly := upolyToMPoly K 0 cs
       match op, rest, res with
       | "gcd", [flags, p, q, g0], [g] =>
         (match U? p, U? q, U? g0, U? g with
          | some p, some q, some g0, some g =>
            let P := M p; let Q := M q; let G := M g; let G0 := M g0
            let tag := s!"ugcd/{ringTag K prime}/flags{flags}"
            if P.isEmpty ∧ Q.isEmpty then (if G.isEmpty then .ok (tag ++ "/zero") else .viol "ugcd-gcd" "gcd(0,0) ≠ 0") else
            if (MPoly.divExact? K prime G G0).isNone then .viol "ugcd-greatest" s!"the common divisor {showUPoly g0} does not divide the returned gcd {showUPoly g}" else
            (match MPoly.divExact? K prime P G, MPoly.divExact? K prime Q G with
             | some A, some B =>
               (match K with
                | none =>
                  (match MPoly.coprimeCheck A B with
                   | .yes => .ok (tag ++ "/certified")
                   | .no => .viol "ugcd-gcd" s!"cofactors of {showUPoly g} share a factor"
                   | .unknown => .ok (tag ++ "/common-divisor-only"))
                | some M' =>
                  if g.getLast? ≠ some 1 then .viol "ugcd-monic" s!"gcd over a prime field is not monic: {showUPoly g}"
                  else if (A.isEmpty ∧ B.isEmpty) ∨ FPoly.coprimeCert M' (mpolyToDense 0 A) (mpolyToDense 0 B) then .ok (tag ++ "/certified")
                  else .viol "ugcd-gcd" s!"cofactors of {showUPoly g} are not coprime over the field")
             | _, _ => .viol "ugcd-gcd" s!"returned {showUPoly g} does not divide both operands")
          | _, _, _, _ => .viol "up-canon" "gcd operand/result not canonical")
       | "ppcont", [p], [pp, c, isPrim] =>
         (match U? p, U? pp, pInt? c with
          | some p, some pp, some c =>
            let P := M p; let PP := M pp
            if MPoly.mulInt K PP c ≠ P then .viol "ugcd-ppcont" "cont*pp ≠ p"
            else if MPoly.intContent PP ≠ 1 then .viol "ugcd-primitive" s!"primitive part {showUPoly pp} has content {MPoly.intContent PP}"
            else if pp.getLast?.getD 0 ≤ 0 then .viol "ugcd-ppsign" "primitive part has non-positive leading coefficient"
            else if isPrim ≠ "1" then .viol "ugcd-isprimitive" "is_primitive false on a primitive part"
            else .ok "uppcont"
          | _, _, _ => .viol "up-canon" "ppcont operand/result not canonical")
       | "xgcd", [p, q], [g, u, v] =>
         (match K, U? p, U? q, U? g, U? u, U? v with
          | some M', some p, some q, some g, some u, some v =>
            let P := M p; let Q := M q; let G := M g
            if MPoly.add K (MPoly.mul K (M u) P) (MPoly.mul K (M v) Q) ≠ G then .viol "ugcd-xgcd" "u*p + v*q ≠ g"
            else if g.getLast? ≠ some 1 then .viol "ugcd-monic" "extended gcd is not monic"
            else
              (match MPoly.divExact? K prime P G, MPoly.divExact? K prime Q G with
               | some A, some B =>
                 if FPoly.coprimeCert M' (mpolyToDense 0 A) (mpolyToDense 0 B) then .ok "xgcd/certified"
                 else .viol "ugcd-gcd" "cofactors of the extended gcd are not coprime"
               | _, _ => .viol "ugcd-gcd" "extended gcd does not divide both operands")
          | _, _, _, _, _, _ => .viol "up-canon" "xgcd operand/result not canonical")
       | "bezout", [p, q, r], [u, v] =>
         (match U? p, U? q, U? r, U? u, U? v with
          | some p, some q, some r, some u, some v =>
            if MPoly.add K (MPoly.mul K (M u) (M p)) (MPoly.mul K (M v) (M q)) ≠ M r then .viol "ugcd-bezout" "u*p + v*q ≠ r"
            else if !((M u).isEmpty || u.length < q.length) || !((M v).isEmpty || v.length < p.length) then .viol "ugcd-bezout-degree" "degree bounds deg u < deg q, deg v < deg p violated"
            else .ok "bezout"
          | _, _, _, _, _ => .viol "up-canon" "bezout operand/result not canonical")
       | _, _, _ => .skip s!"unknown ugcd op {op}")
  | _ => .skip "short ugcd line"

end LP.Driver

namespace LP.Driver
open LP

def checkRes (op : String) (args res : List String) : Verdict :=
  let K : Ring := none
  match op, args, res with
  | "disc", [_, xs, a], [d] =>
    -- poly::discriminant: D * lc(A) = Sylvester determinant of (A, dA/dx); D = 1 for degree 1
    (match pNat? xs, pPolyRaw? a, pPolyRaw? d with
     | some x, some ra, some rd =>
       if !(rawCanonical K ra && rawCanonical K rd) then .viol "poly-canon" "operand/result not canonical" else
       let A := MPoly.normalize K ra
       let D := MPoly.normalize K rd
       let m := MPoly.degreeIn x A
       if m = 1 then (if D = MPoly.const K 1 then .ok "disc/deg1" else .viol "res-disc" s!"discriminant of a linear polynomial is {showPoly D}")
       else
         let dA := MPoly.derivative K A x
         let want := MPoly.resultantSpec K x A dA
         if MPoly.mul K D (MPoly.coeffIn K x m A) = want then .ok s!"disc/deg{m}"
         else .viol "res-disc" s!"disc*lc = {showPoly (MPoly.mul K D (MPoly.coeffIn K x m A))}, Sylvester determinant of (p, p') = {showPoly want}"
     | _, _, _ => .skip "bad disc line")
  | _, _, _ =>
  match args, res with
  | [_, xs, a, b], [r] =>
    (match pNat? xs, pPolyRaw? a, pPolyRaw? b with
     | some x, some ra, some rb =>
       if !(rawCanonical K ra && rawCanonical K rb) then .viol "poly-canon" "operand not canonical" else
       let A := MPoly.normalize K ra
       let B := MPoly.normalize K rb
       let m := MPoly.degreeIn x A
       let n := MPoly.degreeIn x B
       -- Laplace expansion skips zero entries: banded integer matrices are cheap, parametric ones are not
       let uni := (A ++ B).all (fun t => t.1.all (fun pr => pr.1 == x))
       if m + n > (if uni then 12 else 7) then .skip "order above the determinant cap" else
       let tag := s!"{op}/{if m < n then "m<n" else if m = n then "m=n" else "m>n"}/order{m + n}"
       let outs := r.splitOn ";"
       let parsed := outs.mapM (fun s => match pPolyRaw? s with
         | some raw => if rawCanonical K raw then some (MPoly.normalize K raw) else none
         | none => none)
       match op, parsed with
       | _, none => .viol "poly-canon" "result not canonical"
       | "resultant", some [R] =>
         let want := MPoly.resultantSpec K x A B
         if R = want then .ok tag else .viol "res-resultant" s!"got {showPoly R} Sylvester determinant {showPoly want}"
       | "psc", some ps =>
         let bad := ps.zipIdx.find? (fun e => e.1 ≠ MPoly.pscSpec K x A B e.2)
         (match bad with
          | none => if ps.length = min m n + 1 then .ok tag else .viol "res-psc" "wrong number of psc"
          | some e => .viol "res-psc" s!"psc[{e.2}] = {showPoly e.1}, Sylvester sub-determinant {showPoly (MPoly.pscSpec K x A B e.2)}")
       | "subres", some ss =>
         let bad := ss.zipIdx.find? (fun e => e.1 ≠ MPoly.sresSpec K x A B e.2)
         (match bad with
          | none => if ss.length = min m n + 1 then .ok tag else .viol "res-subres" "wrong chain length"
          | some e => .viol "res-subres" s!"S[{e.2}] = {showPoly e.1}, determinant polynomial {showPoly (MPoly.sresSpec K x A B e.2)}")
       | _, _ => .skip "bad res shape"
     | _, _, _ => .skip "bad res line")
  | _, _ => .skip "res arity"

end LP.Driver
