/-
  C13 — integer containment (`lp_interval_contains_int`, `lp_feasibility_set_contains_int`): the test answers true exactly
  when the denoted set contains an integer (`C13_containsInt`, `C13_set_containsInt`), for all well-formed intervals.
-/
import LP.Props.C13
import LP.Props.C17Q

set_option linter.unusedSectionVars false

namespace LP
namespace FSet
open VI

theorem isInt_iff (q : ℚ) : EP.isInt (.fin q) = true ↔ ∃ z : ℤ, q = z := by
  have := (C17_rat_ops q 0 0 0).2.2.2.2.2.1
  unfold qIsInteger at this
  simpa [EP.isInt] using this

/-- integers admitted by a finite lower bound, in the branch of `lp_interval_contains_int` that computes `m` -/
theorem lower_int (a : ℚ) (o : Bool) (z : ℤ) (h : ¬ (o = false ∧ EP.isInt (.fin a) = true)) :
    lowerOK (α := ℚ) (.fin a) o (z : ℚ) ↔ qCeil a + (if EP.isInt (.fin a) = true then 1 else 0) ≤ z := by
  have hc : qCeil a = ⌈a⌉ := (C17_rat_ops a 0 0 0).2.2.2.2.1
  rw [hc]
  by_cases hi : EP.isInt (.fin a) = true
  · obtain ⟨k, rfl⟩ := (isInt_iff a).1 hi
    have ho : o = true := by cases o <;> simp_all
    subst ho
    simp only [lowerOK, if_true, hi, Int.ceil_intCast, Rat.cast_intCast]
    constructor
    · intro hh; have : k < z := by exact_mod_cast hh
      omega
    · intro hh; have : k < z := by omega
      exact_mod_cast this
  · simp only [hi, Bool.false_eq_true, if_false, add_zero]
    have hne : ∀ w : ℤ, a ≠ w := fun w hw => hi ((isInt_iff a).2 ⟨w, hw⟩)
    cases o <;> simp only [lowerOK, Bool.false_eq_true, if_false, if_true, Rat.cast_id]
    · exact Int.ceil_le.symm
    · constructor
      · intro hh; exact Int.ceil_le.2 hh.le
      · intro hh
        have h1 : a ≤ z := Int.ceil_le.1 hh
        exact lt_of_le_of_ne h1 (hne z)

theorem upper_int (b : ℚ) (o : Bool) (z : ℤ) (h : ¬ (o = false ∧ EP.isInt (.fin b) = true)) :
    upperOK (α := ℚ) (.fin b) o (z : ℚ) ↔ z ≤ qFloor b - (if EP.isInt (.fin b) = true then 1 else 0) := by
  have hc : qFloor b = ⌊b⌋ := (C17_rat_ops b 0 0 0).2.2.2.1
  rw [hc]
  by_cases hi : EP.isInt (.fin b) = true
  · obtain ⟨k, rfl⟩ := (isInt_iff b).1 hi
    have ho : o = true := by cases o <;> simp_all
    subst ho
    simp only [upperOK, if_true, hi, Int.floor_intCast, Rat.cast_intCast]
    constructor
    · intro hh; have : z < k := by exact_mod_cast hh
      omega
    · intro hh; have : z < k := by omega
      exact_mod_cast this
  · simp only [hi, Bool.false_eq_true, if_false, sub_zero]
    have hne : ∀ w : ℤ, b ≠ w := fun w hw => hi ((isInt_iff b).2 ⟨w, hw⟩)
    cases o <;> simp only [upperOK, Bool.false_eq_true, if_false, if_true, Rat.cast_id]
    · exact Int.le_floor.symm
    · constructor
      · intro hh; exact Int.le_floor.2 hh.le
      · intro hh
        have h1 : (z : ℚ) ≤ b := Int.le_floor.1 hh
        exact lt_of_le_of_ne h1 (fun e => hne z e.symm)

/-- **`lp_interval_contains_int`** answers true exactly when the interval contains an integer. -/
theorem C13_containsInt (I : VI) (hw : I.WF) : VI.containsInt I = true ↔ ∃ z : ℤ, I.Mem (α := ℚ) (z : ℚ) := by
  unfold VI.WF at hw
  unfold VI.containsInt
  by_cases hp : I.isPoint = true
  · -- a point: contains an integer iff its value is one
    rw [if_pos hp] at hw
    obtain ⟨⟨a, ha⟩, ho1, ho2⟩ := hw
    have hinf : I.a.isInf = false := by rw [ha]; rfl
    simp only [hinf, Bool.false_eq_true, if_false, hp, if_true]
    rw [ha, isInt_iff]
    unfold Mem
    simp only [lower, upper, hp, if_true, ha, ho1, ho2, lowerOK, upperOK, Bool.false_eq_true, if_false, Rat.cast_id]
    constructor
    · rintro ⟨z, rfl⟩; exact ⟨z, le_refl _, le_refl _⟩
    · rintro ⟨z, h1, h2⟩; exact ⟨z, le_antisymm h1 h2⟩
  · rw [if_neg hp] at hw
    have hp' : I.isPoint = false := by simpa using hp
    obtain ⟨hab, hna, hnb, ha1, hb1⟩ := hw
    have hup : I.upper = I.b := by simp [upper, hp']
    unfold Mem
    rw [hup]
    simp only [lower, hp', Bool.false_eq_true, if_false]
    rcases hA : I.a with _ | a | _
    · -- (-inf, b): some integer lies below b
      simp only [EP.isInf, if_true, true_iff]
      rcases hB : I.b with _ | b | _
      · exact absurd hB hb1
      · refine ⟨⌊b⌋ - 1, trivial, ?_⟩
        have h1 : ((⌊b⌋ : ℤ) : ℚ) ≤ b := Int.floor_le b
        have : (((⌊b⌋ - 1 : ℤ)) : ℚ) < b := by push_cast; linarith
        cases I.bOpen <;> simp only [upperOK, Bool.false_eq_true, if_false, if_true, Rat.cast_id]
        · exact this.le
        · exact this
      · exact ⟨0, trivial, trivial⟩
    · simp only [EP.isInf, Bool.false_eq_true, if_false]
      by_cases h1 : (!I.aOpen && EP.isInt (.fin a)) = true
      · -- the closed integer lower end itself
        rw [if_pos h1]
        simp only [Bool.and_eq_true, Bool.not_eq_true'] at h1
        obtain ⟨k, rfl⟩ := (isInt_iff a).1 h1.2
        simp only [true_iff]
        refine ⟨k, by simp [lowerOK, h1.1], ?_⟩
        rcases hB : I.b with _ | b | _
        · exact absurd hB hb1
        · rw [hA, hB, EP.cmp_fin, cmpQ_lt] at hab
          cases I.bOpen <;> simp only [upperOK, Bool.false_eq_true, if_false, if_true, Rat.cast_id]
          · exact hab.le
          · exact hab
        · trivial
      · rw [if_neg h1]
        have h1' : ¬ (I.aOpen = false ∧ EP.isInt (.fin a) = true) := by
          intro hh; apply h1; simp [hh.1, hh.2]
        rcases hB : I.b with _ | b | _
        · exact absurd hB hb1
        · simp only [EP.isInf, Bool.false_eq_true, if_false]
          by_cases h2 : (!I.bOpen && EP.isInt (.fin b)) = true
          · rw [if_pos h2]
            simp only [Bool.and_eq_true, Bool.not_eq_true'] at h2
            obtain ⟨k, rfl⟩ := (isInt_iff b).1 h2.2
            simp only [true_iff]
            rw [hA, hB, EP.cmp_fin, cmpQ_lt] at hab
            refine ⟨k, ?_, by simp [upperOK, h2.1]⟩
            cases I.aOpen <;> simp only [lowerOK, Bool.false_eq_true, if_false, if_true, Rat.cast_id]
            · exact hab.le
            · exact hab
          · rw [if_neg h2]
            have h2' : ¬ (I.bOpen = false ∧ EP.isInt (.fin b) = true) := by
              intro hh; apply h2; simp [hh.1, hh.2]
            have hce : ceilE (.fin a) = qCeil a := rfl
            have hfl : floorE (.fin b) = qFloor b := rfl
            rw [decide_eq_true_eq, hce, hfl]
            constructor
            · intro hmn
              refine ⟨qCeil a + (if EP.isInt (.fin a) = true then 1 else 0), ?_, ?_⟩
              · exact (lower_int a I.aOpen _ h1').2 (le_refl _)
              · exact (upper_int b I.bOpen _ h2').2 hmn
            · rintro ⟨z, hz1, hz2⟩
              have e1 := (lower_int a I.aOpen z h1').1 hz1
              have e2 := (upper_int b I.bOpen z h2').1 hz2
              exact le_trans e1 e2
        · -- (a, +inf): some integer lies above a
          simp only [EP.isInf, if_true, true_iff]
          refine ⟨⌈a⌉ + 1, ?_, trivial⟩
          have h3 : a ≤ ((⌈a⌉ : ℤ) : ℚ) := Int.le_ceil a
          have : a < (((⌈a⌉ + 1 : ℤ)) : ℚ) := by push_cast; linarith
          cases I.aOpen <;> simp only [lowerOK, Bool.false_eq_true, if_false, if_true, Rat.cast_id]
          · exact this.le
          · exact this
    · exact absurd hA ha1

/-- **`lp_feasibility_set_contains_int`** -/
theorem C13_set_containsInt (s : List VI) (hw : ∀ I ∈ s, I.WF) :
    FSet.containsInt s = true ↔ ∃ z : ℤ, SetMem ℚ s (z : ℚ) := by
  unfold FSet.containsInt SetMem
  rw [List.any_eq_true]
  constructor
  · rintro ⟨I, hI, h⟩
    obtain ⟨z, hz⟩ := (C13_containsInt I (hw I hI)).1 h
    exact ⟨z, I, hI, hz⟩
  · rintro ⟨z, I, hI, hz⟩
    exact ⟨I, hI, (C13_containsInt I (hw I hI)).2 ⟨z, hz⟩⟩

end FSet
end LP
