/-
  Soundness of the algebraic-number model `LP.Model.Alg` (T7): a representation accepted by `valid` denotes
  exactly one real; comparison with rationals, refinement, comparison of two numbers, floor are exact
  whenever they answer (`some`).
-/
import LP.Props.RootCount

namespace LP
namespace Alg
open QPoly

/-- `a` denotes the real `x` -/
def Den : Alg → ℝ → Prop
  | rat q, x => x = (q : ℝ)
  | root f l u, x => (l : ℝ) < x ∧ x < (u : ℝ) ∧ evalR f x = 0

/-- the representation denotes exactly one real number -/
def Valid (a : Alg) : Prop := ∃! x, a.Den x

theorem valid_rat (q : ℚ) : Valid (rat q) := ⟨(q : ℝ), rfl, fun _ h => h⟩

theorem countOpen_sound (f : QPoly) (l u : ℚ) (n : ℕ) (h : countOpen f l u = some n) :
    ∃ rs : List ℝ, rs.length = n ∧ Enumerates rs (fun x => (l : ℝ) < x ∧ x < (u : ℝ) ∧ evalR f x = 0) := by
  unfold countOpen at h
  split_ifs at h with hlu
  · obtain ⟨rs, hlen, hpw, hmem⟩ := countIn_sound f l true u true n h
    refine ⟨rs, hlen, hpw, fun x => ?_⟩
    rw [hmem x]
    simp only [InI, if_true]
    tauto
  · cases h
    refine ⟨[], rfl, List.Pairwise.nil, fun x => ?_⟩
    simp only [List.not_mem_nil, false_iff, not_and]
    intro h1 h2
    have : (u : ℝ) ≤ l := by exact_mod_cast (not_lt.1 hlu)
    linarith

/-- **validity**: an accepted representation denotes exactly one real number -/
theorem valid_sound (a : Alg) (h : valid a = some true) : Valid a := by
  cases a with
  | rat q => exact valid_rat q
  | root f l u =>
    rw [valid] at h
    split_ifs at h with hc
    swap
    · simp at h
    cases hn : countOpen f l u with
    | none => rw [hn] at h; simp at h
    | some n =>
      rw [hn] at h
      simp only [Option.map_some, Option.some.injEq, beq_iff_eq] at h
      subst h
      obtain ⟨rs, hlen, _, hmem⟩ := countOpen_sound f l u 1 hn
      obtain ⟨x, rfl⟩ := List.length_eq_one_iff.1 hlen
      refine ⟨x, (hmem x).1 (List.mem_singleton_self x), fun y hy => ?_⟩
      exact List.mem_singleton.1 ((hmem y).2 hy)

/-- outcome of a comparison -/
def CmpIs (c : Int) (x y : ℝ) : Prop := (c = -1 ∧ x < y) ∨ (c = 0 ∧ x = y) ∨ (c = 1 ∧ y < x)

theorem cmpQ_is (p q : ℚ) : CmpIs (cmpQ p q) (p : ℝ) (q : ℝ) := by
  unfold cmpQ CmpIs
  split_ifs with h1 h2
  · left; exact ⟨rfl, by exact_mod_cast h1⟩
  · right; right; exact ⟨rfl, by exact_mod_cast h2⟩
  · right; left
    refine ⟨rfl, ?_⟩
    have : p = q := le_antisymm (not_lt.1 h2) (not_lt.1 h1)
    rw [this]

/-- **comparison with a rational is exact** -/
theorem cmpRat_sound (a : Alg) (q : ℚ) (c : Int) (x : ℝ) (hv : Valid a) (hx : a.Den x)
    (h : cmpRat a q = some c) : CmpIs c x (q : ℝ) := by
  cases a with
  | rat p =>
    simp only [cmpRat, Option.some.injEq] at h
    subst h
    have : x = (p : ℝ) := hx
    rw [this]; exact cmpQ_is p q
  | root f l u =>
    obtain ⟨hx1, hx2, hx0⟩ := hx
    rw [cmpRat] at h
    by_cases h1 : q ≤ l
    · rw [if_pos h1] at h; cases h
      right; right
      refine ⟨rfl, ?_⟩
      have : (q : ℝ) ≤ l := by exact_mod_cast h1
      linarith
    rw [if_neg h1] at h
    by_cases h2 : u ≤ q
    · rw [if_pos h2] at h; cases h
      left
      refine ⟨rfl, ?_⟩
      have : (u : ℝ) ≤ q := by exact_mod_cast h2
      linarith
    rw [if_neg h2] at h
    have hlq : (l : ℝ) < q := by exact_mod_cast (not_le.1 h1)
    have hqu : (q : ℝ) < u := by exact_mod_cast (not_le.1 h2)
    by_cases h3 : QPoly.eval f q = 0
    · rw [if_pos h3] at h; cases h
      right; left
      refine ⟨rfl, ?_⟩
      have h0 : evalR f q = 0 := by rw [← eval_cast, h3]; simp
      exact hv.unique ⟨hx1, hx2, hx0⟩ ⟨hlq, hqu, h0⟩
    rw [if_neg h3] at h
    have h0 : evalR f q ≠ 0 := by rw [← eval_cast]; exact_mod_cast h3
    cases hn : countOpen f l q with
    | none => rw [hn] at h; simp at h
    | some n =>
      rw [hn] at h
      simp only [Option.map_some, Option.some.injEq] at h
      obtain ⟨rs, hlen, _, hmem⟩ := countOpen_sound f l q n hn
      by_cases hn0 : n = 0
      · rw [if_pos hn0] at h; subst h
        right; right
        refine ⟨rfl, ?_⟩
        subst hn0
        have hnil : rs = [] := List.length_eq_zero_iff.1 hlen
        rcases lt_trichotomy x (q : ℝ) with hlt | heq | hgt
        · have := (hmem x).2 ⟨hx1, hlt, hx0⟩
          rw [hnil] at this; simp at this
        · rw [heq] at hx0; exact absurd hx0 h0
        · exact hgt
      · rw [if_neg hn0] at h; subst h
        left
        refine ⟨rfl, ?_⟩
        obtain ⟨y, hy⟩ : ∃ y, y ∈ rs := by
          cases rs with
          | nil => simp at hlen; exact absurd hlen.symm hn0
          | cons y _ => exact ⟨y, List.mem_cons_self⟩
        obtain ⟨hy1, hy2, hy0⟩ := (hmem y).1 hy
        have : y = x := hv.unique ⟨hy1, hy2.trans hqu, hy0⟩ ⟨hx1, hx2, hx0⟩
        rw [← this]; exact hy2

/-- sign -/
theorem sgn_sound (a : Alg) (c : Int) (x : ℝ) (hv : Valid a) (hx : a.Den x) (h : sgn a = some c) :
    CmpIs c x 0 := by
  have := cmpRat_sound a 0 c x hv hx h
  simpa using this

/-- **refinement keeps the number** -/
theorem refine_sound (a a' : Alg) (x : ℝ) (hv : Valid a) (hx : a.Den x) (h : refine a = some a') :
    a'.Den x ∧ Valid a' := by
  cases a with
  | rat q =>
    simp only [refine, Option.some.injEq] at h
    subst h; exact ⟨hx, hv⟩
  | root f l u =>
    unfold refine at h
    simp only at h
    cases hc : cmpRat (root f l u) ((l + u) / 2) with
    | none => rw [hc] at h; simp at h
    | some c =>
      rw [hc] at h
      simp only [Option.map_some, Option.some.injEq] at h
      have hs := cmpRat_sound _ _ c x hv hx hc
      obtain ⟨hx1, hx2, hx0⟩ := hx
      have hden : ∀ y, a'.Den y → (root f l u).Den y → True := fun _ _ _ => trivial
      rcases hs with ⟨rfl, hlt⟩ | ⟨rfl, heq⟩ | ⟨rfl, hgt⟩
      · simp only [show ((-1 : Int) = 0) = False by simp, if_false, show ((-1 : Int) < 0) = True by simp, if_true] at h
        subst h
        have hd : (root f l ((l + u) / 2)).Den x := ⟨hx1, hlt, hx0⟩
        refine ⟨hd, x, hd, fun y hy => ?_⟩
        have hm : (((l + u) / 2 : ℚ) : ℝ) < u := by
          have : (l : ℝ) < u := hx1.trans hx2
          push_cast; linarith
        exact hv.unique ⟨hy.1, hy.2.1.trans hm, hy.2.2⟩ ⟨hx1, hx2, hx0⟩
      · simp only [if_true] at h
        subst h
        exact ⟨heq, valid_rat _⟩
      · simp only [show ((1 : Int) = 0) = False by simp, if_false, show ((1 : Int) < 0) = False by simp] at h
        subst h
        have hd : (root f ((l + u) / 2) u).Den x := ⟨hgt, hx2, hx0⟩
        refine ⟨hd, x, hd, fun y hy => ?_⟩
        have hm : (l : ℝ) < (((l + u) / 2 : ℚ) : ℝ) := by
          have : (l : ℝ) < u := hx1.trans hx2
          push_cast; linarith
        exact hv.unique ⟨hm.trans hy.1, hy.2.1, hy.2.2⟩ ⟨hx1, hx2, hx0⟩

/-! ### certified gcd: common roots -/

theorem evalR_add (a b : QPoly) (x : ℝ) : evalR (QPoly.add a b) x = evalR a x + evalR b x := by
  unfold evalR toPolyR; rw [toPoly_add, Polynomial.map_add, Polynomial.eval_add]

theorem evalR_eq_of_eqQ (a b : QPoly) (h : eqQ a b = true) (x : ℝ) : evalR a x = evalR b x := by
  unfold evalR toPolyR; rw [toPoly_eq_of_eqQ a b h]

theorem gcdCert_sound (f g h : QPoly) (hc : gcdCert f g = some h) (x : ℝ) :
    evalR h x = 0 ↔ (evalR f x = 0 ∧ evalR g x = 0) := by
  unfold gcdCert at hc
  simp only at hc
  split_ifs at hc with hz hall
  cases hc
  simp only [Bool.and_eq_true] at hall
  obtain ⟨⟨e1, e2⟩, e3⟩ := hall
  have r1 := evalR_eq_of_eqQ _ _ e1 x
  have r2 := evalR_eq_of_eqQ _ _ e2 x
  have r3 := evalR_eq_of_eqQ _ _ e3 x
  rw [evalR_mul] at r1 r2
  rw [evalR_add, evalR_mul, evalR_mul] at r3
  constructor
  · intro h0
    rw [h0, mul_zero] at r1 r2
    exact ⟨r1.symm, r2.symm⟩
  · rintro ⟨hf, hg⟩
    rw [hf, hg, mul_zero, mul_zero, add_zero] at r3
    exact r3.symm

/-- **comparison of two algebraic numbers is exact** -/
theorem cmpLoop_sound : ∀ (fuel : ℕ) (a b : Alg) (c : Int) (x y : ℝ), Valid a → a.Den x → Valid b → b.Den y →
    cmpLoop fuel a b = some c → CmpIs c x y := by
  intro fuel
  induction fuel with
  | zero => intro a b c x y _ _ _ _ h; simp [cmpLoop] at h
  | succ fuel ih =>
    intro a b c x y hva hx hvb hy h
    cases a with
    | rat p =>
      rw [cmpLoop] at h
      cases hc : cmpRat b p with
      | none => rw [hc] at h; simp at h
      | some c' =>
        rw [hc] at h
        simp only [Option.map_some, Option.some.injEq] at h
        subst h
        have := cmpRat_sound b p c' y hvb hy hc
        have hxp : x = (p : ℝ) := hx
        rw [hxp]
        rcases this with ⟨rfl, hlt⟩ | ⟨rfl, heq⟩ | ⟨rfl, hgt⟩
        · right; right; exact ⟨by simp, hlt⟩
        · right; left; exact ⟨by simp, heq.symm⟩
        · left; exact ⟨by simp, hgt⟩
    | root f l u =>
      cases b with
      | rat q =>
        rw [cmpLoop] at h
        have := cmpRat_sound _ q c x hva hx h
        have hyq : y = (q : ℝ) := hy
        rw [hyq]; exact this
      | root g l' u' =>
        rw [cmpLoop] at h
        obtain ⟨hx1, hx2, hx0⟩ := hx
        obtain ⟨hy1, hy2, hy0⟩ := hy
        by_cases h1 : u ≤ l'
        · rw [if_pos h1] at h; cases h
          left; refine ⟨rfl, ?_⟩
          have : (u : ℝ) ≤ l' := by exact_mod_cast h1
          linarith
        rw [if_neg h1] at h
        by_cases h2 : u' ≤ l
        · rw [if_pos h2] at h; cases h
          right; right; refine ⟨rfl, ?_⟩
          have : (u' : ℝ) ≤ l := by exact_mod_cast h2
          linarith
        rw [if_neg h2] at h
        cases hg : gcdCert f g with
        | none => rw [hg] at h; simp at h
        | some hh =>
          rw [hg] at h
          simp only at h
          cases hn : (if hh.length ≤ 1 then some 0 else countOpen hh (max l l') (min u u')) with
          | none => rw [hn] at h; simp at h
          | some n =>
            rw [hn] at h
            simp only at h
            by_cases hn1 : n ≥ 1
            · rw [if_pos hn1] at h; cases h
              right; left; refine ⟨rfl, ?_⟩
              split_ifs at hn with hlen
              · cases hn; omega
              · obtain ⟨rs, hl, _, hmem⟩ := countOpen_sound hh _ _ n hn
                obtain ⟨z, hz⟩ : ∃ z, z ∈ rs := by
                  cases rs with
                  | nil => simp at hl; omega
                  | cons z _ => exact ⟨z, List.mem_cons_self⟩
                obtain ⟨hz1, hz2, hz0⟩ := (hmem z).1 hz
                obtain ⟨hzf, hzg⟩ := (gcdCert_sound f g hh hg z).1 hz0
                have hz1' : (l : ℝ) < z ∧ (l' : ℝ) < z := by
                  have : ((max l l' : ℚ) : ℝ) = max (l : ℝ) (l' : ℝ) := by push_cast; rfl
                  rw [this] at hz1
                  exact ⟨lt_of_le_of_lt (le_max_left _ _) hz1, lt_of_le_of_lt (le_max_right _ _) hz1⟩
                have hz2' : z < (u : ℝ) ∧ z < (u' : ℝ) := by
                  have : ((min u u' : ℚ) : ℝ) = min (u : ℝ) (u' : ℝ) := by push_cast; rfl
                  rw [this] at hz2
                  exact ⟨lt_of_lt_of_le hz2 (min_le_left _ _), lt_of_lt_of_le hz2 (min_le_right _ _)⟩
                have ex : z = x := hva.unique ⟨hz1'.1, hz2'.1, hzf⟩ ⟨hx1, hx2, hx0⟩
                have ey : z = y := hvb.unique ⟨hz1'.2, hz2'.2, hzg⟩ ⟨hy1, hy2, hy0⟩
                rw [← ex, ← ey]
            · rw [if_neg hn1] at h
              cases ha' : refine (root f l u) with
              | none => rw [ha'] at h; simp at h
              | some a' =>
                cases hb' : refine (root g l' u') with
                | none => rw [ha', hb'] at h; simp at h
                | some b' =>
                  rw [ha', hb'] at h
                  simp only at h
                  obtain ⟨da, va⟩ := refine_sound _ a' x hva ⟨hx1, hx2, hx0⟩ ha'
                  obtain ⟨db, vb⟩ := refine_sound _ b' y hvb ⟨hy1, hy2, hy0⟩ hb'
                  exact ih a' b' c x y va da vb db h

theorem cmp_sound (a b : Alg) (c : Int) (x y : ℝ) (hva : Valid a) (hx : a.Den x) (hvb : Valid b) (hy : b.Den y)
    (h : cmp a b = some c) : CmpIs c x y := cmpLoop_sound 300 a b c x y hva hx hvb hy h

/-- **floor is exact** -/
theorem floorLoop_sound : ∀ (fuel : ℕ) (a : Alg) (n : Int) (x : ℝ), Valid a → a.Den x →
    floorLoop fuel a = some n → (n : ℝ) ≤ x ∧ x < (n : ℝ) + 1 := by
  intro fuel
  induction fuel with
  | zero => intro a n x _ _ h; simp [floorLoop] at h
  | succ fuel ih =>
    intro a n x hv hx h
    cases a with
    | rat q =>
      rw [floorLoop] at h
      simp only [Option.some.injEq] at h
      subst h
      have hxq : x = (q : ℝ) := hx
      rw [hxq]
      constructor
      · have := Rat.floor_le q
        exact_mod_cast this
      · have := Rat.lt_floor_add_one q
        exact_mod_cast this
    | root f l u =>
      rw [floorLoop] at h
      obtain ⟨hx1, hx2, hx0⟩ := hx
      by_cases h1 : u ≤ ((l.floor + 1 : Int) : Rat)
      · rw [if_pos h1] at h
        simp only [Option.some.injEq] at h
        subst h
        have hfl : ((l.floor : ℚ) : ℝ) ≤ l := by
          have := Rat.floor_le l
          exact_mod_cast this
        have hu : (u : ℝ) ≤ (l.floor : ℝ) + 1 := by
          have : ((u : ℚ) : ℝ) ≤ (((l.floor + 1 : Int) : ℚ) : ℝ) := by exact_mod_cast h1
          push_cast at this; exact this
        constructor
        · have : ((l.floor : ℤ) : ℝ) = ((l.floor : ℚ) : ℝ) := by push_cast; rfl
          rw [this]; linarith
        · linarith
      · rw [if_neg h1] at h
        simp only at h
        cases hc : cmpRat (root f l u) ((l.floor + 1 : Int) : Rat) with
        | none => rw [hc] at h; simp at h
        | some c =>
          rw [hc] at h
          simp only at h
          have hs := cmpRat_sound _ _ c x hv ⟨hx1, hx2, hx0⟩ hc
          have hk1 : (l : ℝ) < (((l.floor + 1 : Int) : ℚ) : ℝ) := by
            have := Rat.lt_floor_add_one l
            exact_mod_cast this
          have hk2 : (((l.floor + 1 : Int) : ℚ) : ℝ) < u := by exact_mod_cast (not_le.1 h1)
          rcases hs with ⟨rfl, hlt⟩ | ⟨rfl, heq⟩ | ⟨rfl, hgt⟩
          · simp only [show ((-1 : Int) = 0) = False by simp, if_false, show ((-1 : Int) < 0) = True by simp, if_true] at h
            have hd : (root f l ((l.floor + 1 : Int) : Rat)).Den x := ⟨hx1, hlt, hx0⟩
            refine ih _ n x ⟨x, hd, fun y hy => ?_⟩ hd h
            exact hv.unique ⟨hy.1, hy.2.1.trans hk2, hy.2.2⟩ ⟨hx1, hx2, hx0⟩
          · simp only [if_true, Option.some.injEq] at h
            subst h
            rw [heq]; push_cast
            constructor <;> linarith
          · simp only [show ((1 : Int) = 0) = False by simp, if_false, show ((1 : Int) < 0) = False by simp] at h
            have hd : (root f ((l.floor + 1 : Int) : Rat) u).Den x := ⟨hgt, hx2, hx0⟩
            refine ih _ n x ⟨x, hd, fun y hy => ?_⟩ hd h
            exact hv.unique ⟨hk1.trans hy.1, hy.2.1, hy.2.2⟩ ⟨hx1, hx2, hx0⟩

theorem floor_sound (a : Alg) (n : Int) (x : ℝ) (hv : Valid a) (hx : a.Den x) (h : floor a = some n) :
    (n : ℝ) ≤ x ∧ x < (n : ℝ) + 1 := floorLoop_sound 100 a n x hv hx h

end Alg
end LP
