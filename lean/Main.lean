import LP.Driver.Scalar
import LP.Driver.Interval
import LP.Driver.FSI
import LP.Driver.FSet
import LP.Driver.Containers
import LP.Driver.Poly
import LP.Driver.Refs
import LP.Driver.Roots
import LP.Driver.Alg
import LP.Driver.Value
import LP.Driver.Hist
import LP.Driver.Eval
import LP.Driver.Infer
import LP.Driver.Factor
import LP.Driver.Zp
import LP.Driver.PIval
import Std.Data.HashMap
open LP LP.Driver

/-- Dispatch one protocol line `idx family op args… => results…`. -/
def checkLine (line : String) : String × String × Verdict :=
  match line.splitOn " => " with
  | [lhs, rhs] =>
    let l := (lhs.trimAscii.toString.splitOn " ").filter (· ≠ "")
    let r := (rhs.trimAscii.toString.splitOn " ").filter (· ≠ "")
    match l with
    | idx :: fam :: opd :: args =>
      -- `op@d`: the harness may append the state of the destination (f fresh, p pre-used, a / b alias of an input)
      let op := (opd.splitOn "@").headD opd
      let v := match fam with
        | "int" => checkInt op args r
        | "dy" => checkDy op args r
        | "rat" => checkRat op args r
        | "qi" => checkQI "qi" op args r
        | "di" => checkQI "di" op args r
        | "vi" => checkVI op args r
        | "vil" => checkVIL op args r
        | "pi" => checkPI op args r
        | "via" => checkVIA op args r
        | "fsi" => checkFSI op args r
        | "fset" => checkFSet op args r
        | "hset" => checkHSet args r
        | "heap" => checkHeap args r
        | "pvec" => checkPVec args r
        | "poly" => checkPoly op args r
        | "up" => checkUP op args r
        | "div" => checkDiv op args r
        | "udiv" => checkUDiv op args r
        | "ord" => checkOrd op args r
        | "gcd" => checkGcd op args r
        | "res" => checkRes op args r
        | "roots" => checkRoots op args r
        | "alg" => checkAlg op args r
        | "val" => checkVal op args r
        | "hist" => checkHist op args r
        | "ev" => checkEval2 op args r
        | "inf" => checkInfer op args r
        | "fac" => checkFactor op args r
        | "zp" => checkZp op args r
        | "ugcd" => checkUGcd op args r
        | "refs" => if op = "vdb" then checkVdb args r else if op = "vlist" ∨ op = "asg" then checkVlist op args r else checkRefs args r
        | _ => Verdict.skip s!"unknown family {fam}"
      (idx, fam, v)
    | _ => ("?", "?", .skip "short line")
  | _ => ("?", "?", .skip "no =>")

structure Stats where
  branches : Std.HashMap String Nat := {}
  total : Nat := 0
  ok : Nat := 0
  viol : Nat := 0
  disagree : Nat := 0
  skip : Nat := 0

partial def loop (h : IO.FS.Stream) (st : Stats) : IO Stats := do
  let line ← h.getLine
  if line.isEmpty then return st
  let t := line.trimAscii.toString
  if t.isEmpty || t.startsWith "#" then loop h st else
  let (idx, fam, v) := checkLine t
  let st := { st with total := st.total + 1 }
  match v with
  | .ok b =>
    let key := fam ++ ":" ++ b
    loop h { st with ok := st.ok + 1, branches := st.branches.insert key (st.branches.getD key 0 + 1) }
  | .viol .. => IO.println s!"{idx} {v.render} :: {t}"; loop h { st with viol := st.viol + 1 }
  | .disagree .. => IO.println s!"{idx} {v.render} :: {t}"; loop h { st with disagree := st.disagree + 1 }
  | .skip .. => IO.println s!"{idx} {v.render} :: {t}"; loop h { st with skip := st.skip + 1 }

def main : IO Unit := do
  let st ← loop (← IO.getStdin) {}
  for (k, n) in st.branches.toList do
    IO.println s!"#branch {k} {n}"
  IO.println s!"#total {st.total} ok={st.ok} viol={st.viol} disagree={st.disagree} skip={st.skip}"
