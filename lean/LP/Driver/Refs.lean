import LP.Model.Refs
import LP.Driver.Scalar
namespace LP.Driver
open LP

def pHolder? (s : String) : Option Holder :=
  match s.splitOn ":" with
  | [k, i] => (pNat? i).bind (fun i => match k with
      | "R" => some (.ringHandle i) | "C" => some (.ctxHandle i) | "P" => some (.extPoly i)
      | "V" => some (.vec i) | "U" => some (.upoly i) | "F" => some (.fsi i) | _ => none)
  | _ => none

def pRefOp? (s : String) : Option RefOp :=
  if s.startsWith "+" then (pHolder? (s.drop 1).toString).map RefOp.acquire
  else if s.startsWith "-" then (pHolder? (s.drop 1).toString).map RefOp.release
  else if s.startsWith ">" then
    match (s.drop 1).toString.splitOn ":" with
    | ["P", c, c'] => match pNat? c, pNat? c' with
      | some c, some c' => some (RefOp.retarget (.extPoly c) (.extPoly c'))
      | _, _ => none
    | ["U", r, r'] => match pNat? r, pNat? r' with
      | some r, some r' => some (RefOp.retarget (.upoly r) (.upoly r'))
      | _, _ => none
    | _ => none
  else none

/-- `refs run <ctx->ring map> <ops> => <snapshots>`; a snapshot lists ring counts then context counts, `x` = freed -/
def checkRefs (args res : List String) : Verdict :=
  match args, res with
  | [mapS, opsS], [snapS] =>
    (match pList? pNat? mapS, (opsS.splitOn ",").mapM pRefOp? with
     | some cmap, some ops =>
       let ctxRing : Nat → Nat := fun c => cmap.getD c 0
       let nr := 3
       let nc := cmap.length
       let snaps := snapS.splitOn ";"
       let rec go (s : RefState) (ops : List RefOp) (snaps : List String) (i : Nat) : Verdict :=
         match ops, snaps with
         | [], _ => .ok s!"refs/{if i > 20 then "long" else "short"}"
         | o :: os, sn :: sns =>
           let s' := s.step o
           let want := ",".intercalate (((List.range nr).map (fun r => if s'.ringCnt r = 0 then "x" else toString (s'.ringCnt r))) ++
                                        ((List.range nc).map (fun c => if s'.ctxCnt c = 0 then "x" else toString (s'.ctxCnt c))))
           if sn = want then go s' os sns (i + 1)
           else if sn.startsWith "!" then
             .viol s!"refs-output/{(sn.drop 1).toString}" s!"op {i}: the result written into an external polynomial of another context differs from the result with a fresh output, or does not carry the context of the inputs"
           else .viol "refs-count" s!"after op {i}: counts {sn}, holders imply {want}"
         | _, [] => .skip "missing snapshot"
       go (RefState.init ctxRing) ops snaps 0
     | _, _ => .skip "bad refs line")
  | _, _ => .skip "bad refs shape"

/-- `refs vdb <ops> => <id=name;…>`: ids distinct, every name retrievable -/
def checkVdb (args res : List String) : Verdict :=
  match args, res with
  | [opsS], [gotS] =>
    let ops := (opsS.splitOn ",").map (fun o =>
      match ((o.drop 1).toString).splitOn ":" with
      | [i, n] => (pNat? i).map (fun i => (o.startsWith "a", i, n))
      | _ => none)
    if ops.any (·.isNone) then .skip "bad vdb line" else
    let ops := ops.filterMap id
    let ids := ops.map (·.2.1)
    let got := (gotS.splitOn ";").map (fun e => match e.splitOn "=" with | [i, n] => (pNat? i).map (fun i => (i, n)) | _ => none)
    if got.any (·.isNone) then .skip "bad vdb result" else
    let got := got.filterMap id
    match (List.range ids.length).find? (fun k => (ids.take k).contains (ids.getD k 0)) with
    | some k => .viol "refs-vdb" s!"operation {k} returned / used the id {ids.getD k 0} that was already taken"
    | none =>
      if got.length ≠ ops.length then .viol "refs-vdb" "result list has the wrong length" else
      match (ops.zip got).find? (fun p => p.1.2.1 ≠ p.2.1 ∨ p.1.2.2 ≠ p.2.2) with
      | some p => .viol "refs-vdb" s!"variable {p.1.2.1} was named {p.1.2.2} but get_name answers {p.2.2}"
      | none => .ok s!"refs/vdb/{if ops.any (·.1) then "with-add" else "new-only"}"
  | _, _ => .skip "bad vdb shape"

/-- `refs vlist <ops> => ok | <first disagreement>`: the harness keeps the shadow (present variables, slots) itself -/
def checkVlist (what : String) (_args res : List String) : Verdict :=
  match res with
  | ["ok"] => .ok s!"refs/{what}"
  | [m] => .viol s!"refs-{what}" s!"the object disagrees with the shadow of its history: {m}"
  | _ => .skip "bad vlist line"

end LP.Driver
