import LP.Props.C14
import LP.Props.C14Eval
import LP.Props.C14PowMod
import LP.Props.C14RootCount
import LP.Props.C14RootCountModel
#print axioms LP.ounion_mem
#print axioms LP.ounion_sorted
#print axioms LP.ounion_flags
#print axioms LP.ointersect_mem
#print axioms LP.ointersect_sorted
#print axioms LP.ointersect_flags
#print axioms LP.ominus_mem
#print axioms LP.ominus_sorted
#print axioms LP.ominus_flag
#print axioms LP.FSI.invert_spec
#print axioms LP.FSI.C14_intersect
#print axioms LP.FSI.C14_union
#print axioms LP.FSI.C14_intersect_status
#print axioms LP.FSI.C14_union_status
#print axioms LP.FSI.card_range
#print axioms LP.FSI.C14_observers
#print axioms LP.FSI.C14_ofList
#print axioms LP.FSI.C14_pick_partial
#print axioms LP.FPoly.C14_eval_spec
#print axioms LP.FPoly.C14_eval_zero_iff
#print axioms LP.FPoly.fpPowMod_spec
#print axioms LP.roots_count_gcd
#print axioms LP.FPoly.xgcd_gcd
#print axioms LP.FPoly.rootCountFp_spec
