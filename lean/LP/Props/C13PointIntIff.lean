/-
  C13 — `lp_feasibility_set_is_point_int` answers true exactly for the sets in normal form that contain exactly one integer
  (`C13_isPointInt_iff`): the converse of `C13_isPointInt_sound` uses that a saturated count needs at least 2^63 - 1 integers
  (`C13_set_countInt_saturated`) and that the saturating count only grows (`foldl_countStep_ge`).
-/
import LP.Props.C13PointInt
import LP.Props.C13CountSat

namespace LP
namespace FSet
open VI

/-- counts are not negative -/
theorem countInt_nonneg (I : VI) (hw : I.WF) (t : Int) (h : VI.countInt I = some t) : 0 ≤ t := by
  obtain ⟨S, _, hc⟩ := C13_countInt I hw t h
  rw [← hc]; exact Int.natCast_nonneg _

/-- the saturating count only grows -/
theorem foldl_countStep_ge : ∀ (s : List VI) (c r : Int), (∀ I ∈ s, I.WF) →
    s.foldl countStep (some c) = some r → c ≤ r := by
  intro s
  induction s with
  | nil => intro c r _ h; simp at h; omega
  | cons I s ih =>
    intro c r hw h
    rw [List.foldl_cons] at h
    cases ht : VI.countInt I with
    | none =>
      have : countStep (some c) I = none := by simp [countStep, ht]
      rw [this, foldl_countStep_none] at h; simp at h
    | some t =>
      have ht0 := countInt_nonneg I (hw I (by simp)) t ht
      by_cases hsat : t ≥ 2 ^ 63 - 1 - c
      · have : countStep (some c) I = none := by simp only [countStep, ht]; rw [if_pos hsat]
        rw [this, foldl_countStep_none] at h; simp at h
      · have hstep : countStep (some c) I = some (c + t) := by simp only [countStep, ht]; rw [if_neg hsat]
        rw [hstep] at h
        have := ih (c + t) r (fun J hJ => hw J (List.mem_cons_of_mem _ hJ)) h
        omega

/-- when the saturating count ends at most at 1, the early-exit count computes the same number -/
theorem foldl_countStep_pointStep : ∀ (s : List VI) (c r : Int), (∀ I ∈ s, I.WF) → 0 ≤ c → r ≤ 1 →
    s.foldl countStep (some c) = some r → s.foldl pointStep (some c) = some r := by
  intro s
  induction s with
  | nil => intro c r _ _ _ h; simpa using h
  | cons I s ih =>
    intro c r hw hc0 hr h
    rw [List.foldl_cons] at h ⊢
    cases ht : VI.countInt I with
    | none =>
      have : countStep (some c) I = none := by simp [countStep, ht]
      rw [this, foldl_countStep_none] at h; simp at h
    | some t =>
      have ht0 := countInt_nonneg I (hw I (by simp)) t ht
      by_cases hsat : t ≥ 2 ^ 63 - 1 - c
      · have : countStep (some c) I = none := by simp only [countStep, ht]; rw [if_pos hsat]
        rw [this, foldl_countStep_none] at h; simp at h
      · have hstep : countStep (some c) I = some (c + t) := by simp only [countStep, ht]; rw [if_neg hsat]
        rw [hstep] at h
        have hge := foldl_countStep_ge s (c + t) r (fun J hJ => hw J (List.mem_cons_of_mem _ hJ)) h
        have hp : pointStep (some c) I = some (c + t) := by
          simp only [pointStep, ht]
          rw [if_neg]
          push Not
          constructor <;> omega
        rw [hp]
        exact ih (c + t) r (fun J hJ => hw J (List.mem_cons_of_mem _ hJ)) (by omega) hr h

/-- **a set in normal form with exactly one integer passes the single-integer test** (converse of
    `C13_isPointInt_sound`) -/
theorem C13_isPointInt_complete (s : List VI) (hn : NFs s) (z0 : ℤ)
    (h : ∀ z : ℤ, SetMem ℚ s (z : ℚ) ↔ z = z0) : FSet.isPointInt s = true := by
  -- the count is not saturated and equals 1
  have hcount : FSet.countInt s = some 1 := by
    cases hc : FSet.countInt s with
    | none =>
      exfalso
      obtain ⟨S, hS, hcard⟩ := C13_set_countInt_saturated s hn hc
      have hsub : S ⊆ {z0} := fun z hz => Finset.mem_singleton.2 ((h z).1 (hS z hz))
      have := Finset.card_le_card hsub
      rw [Finset.card_singleton] at this
      have : (S.card : Int) ≤ 1 := by exact_mod_cast this
      omega
    | some c =>
      obtain ⟨S, hS, hcard⟩ := C13_set_countInt s hn c hc
      have : S = {z0} := by
        ext z; rw [hS z, h z, Finset.mem_singleton]
      rw [this, Finset.card_singleton] at hcard
      rw [← hcard]; rfl
  rw [isPointInt_eq_foldl]
  rw [countInt_eq_foldl] at hcount
  have := foldl_countStep_pointStep s 0 1 hn.1 (by omega) (by omega) hcount
  simp [this]

/-- **`lp_feasibility_set_is_point_int`, both directions** -/
theorem C13_isPointInt_iff (s : List VI) (hn : NFs s) :
    FSet.isPointInt s = true ↔ ∃ z0 : ℤ, ∀ z : ℤ, SetMem ℚ s (z : ℚ) ↔ z = z0 :=
  ⟨C13_isPointInt_sound s hn, fun ⟨z0, h⟩ => C13_isPointInt_complete s hn z0 h⟩

end FSet
end LP
