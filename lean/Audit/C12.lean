import LP.Props.C12Glue
import LP.Props.GenTables
import LP.Props.C12
import LP.Props.C12Exact
import LP.Props.C12Compl
#print axioms LP.Eval.C12_negate
#print axioms LP.Eval.C12_root_constraint
#print axioms LP.Eval.C10_sign_sound
#print axioms LP.Eval.run_is_union
#print axioms LP.Eval.sweepAux_mem
#print axioms LP.Eval.C12_sweep
#print axioms LP.Eval.cell_exists
#print axioms LP.Eval.separate_spec
#print axioms LP.Eval.samples_spec
#print axioms LP.Eval.sign_const
#print axioms LP.Eval.cellSign_correct
#print axioms LP.Eval.C12_feasible_exact
#print axioms LP.Eval.identicallyZero_sound
#print axioms LP.Eval.C12_feasible_exact_zero
#print axioms LP.Compl.go_mem
#print axioms LP.Compl.C12_complement_exact
#print axioms LP.Gen.enum_order
#print axioms LP.Gen.negate_eq
#print axioms LP.Gen.consistent_eq
#print axioms LP.Gen.zpValid_eq
#print axioms LP.Gen.consistentInterval_eq
#print axioms LP.epMatches_sound
#print axioms LP.setMatches_sound
#print axioms LP.C12_accepted_set_exact
