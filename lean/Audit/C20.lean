import LP.Props.C20
#print axioms LP.C20_placeholder
