/-
  C13 — `lp_feasibility_set_is_point_int` answers true only for a set in normal form that contains exactly one integer
  (`C13_isPointInt_sound`): its early-exit count agrees with the saturating count of `lp_feasibility_set_count_int`, which
  is the number of integers in the set (`C13_set_countInt`).
-/
import LP.Props.C13Count

namespace LP
namespace FSet
open VI

/-- one step of the early-exit count -/
def pointStep (acc : Option Int) (I : VI) : Option Int :=
  match acc with
  | none => none
  | some c => match VI.countInt I with
    | none => none
    | some t => if t > 1 ∨ t + c > 1 then none else some (c + t)

theorem isPointInt_eq_foldl (s : List VI) : FSet.isPointInt s = decide (s.foldl pointStep (some 0) = some 1) := rfl

theorem foldl_pointStep_none (s : List VI) : s.foldl pointStep none = none := by
  induction s with
  | nil => rfl
  | cons I s ih => simpa [List.foldl, pointStep] using ih

/-- while the early-exit count goes on, the saturating count computes the same number -/
theorem foldl_pointStep_countStep : ∀ (s : List VI) (c r : Int), c ≤ 1 →
    s.foldl pointStep (some c) = some r → s.foldl countStep (some c) = some r := by
  intro s
  induction s with
  | nil => intro c r _ h; simpa using h
  | cons I s ih =>
    intro c r hc h
    simp only [List.foldl] at h ⊢
    cases ht : VI.countInt I with
    | none =>
      have : pointStep (some c) I = none := by simp [pointStep, ht]
      rw [this, foldl_pointStep_none] at h
      exact absurd h (by simp)
    | some t =>
      by_cases hb : t > 1 ∨ t + c > 1
      · have : pointStep (some c) I = none := by simp [pointStep, ht, hb]
        rw [this, foldl_pointStep_none] at h
        exact absurd h (by simp)
      · have h1 : pointStep (some c) I = some (c + t) := by simp [pointStep, ht, hb]
        have h2 : countStep (some c) I = some (c + t) := by
          simp only [countStep, ht]
          rw [if_neg]
          push Not at hb
          omega
        rw [h1] at h
        rw [h2]
        push Not at hb
        exact ih (c + t) r (by omega) h

/-- **a set in normal form that passes the single-integer test contains exactly one integer** -/
theorem C13_isPointInt_sound (s : List VI) (hn : NFs s) (h : FSet.isPointInt s = true) :
    ∃ z0 : ℤ, ∀ z : ℤ, SetMem ℚ s (z : ℚ) ↔ z = z0 := by
  rw [isPointInt_eq_foldl] at h
  have h1 : s.foldl pointStep (some 0) = some 1 := by simpa using h
  have h2 : FSet.countInt s = some 1 := by
    rw [countInt_eq_foldl]; exact foldl_pointStep_countStep s 0 1 (by omega) h1
  obtain ⟨S, hS, hc⟩ := C13_set_countInt s hn 1 h2
  have hc1 : S.card = 1 := by exact_mod_cast hc
  obtain ⟨z0, hz0⟩ := Finset.card_eq_one.1 hc1
  refine ⟨z0, fun z => ?_⟩
  rw [← hS z, hz0, Finset.mem_singleton]

end FSet
end LP
