/-
  C07 — algebraic numbers form an ordered field under the provided operations.

  Observations (sign, comparison with numbers / integers / dyadics / rationals, floor, ceiling, integrality,
  approximations) are judged by the exact procedures of `LP.Model.Alg`, proved correct in `LP.Props.Alg`
  (`cmp_sound`, `cmpRat_sound`, `sgn_sound`, `floor_sound`, `valid_sound`).
  Arithmetic results are judged by `LP.Model.AlgOps`: the model computes the eliminant of x ⊕ y as a Sylvester
  determinant (C04 reference), encloses the exact value by closed interval arithmetic on the isolating
  intervals and refines until exactly one root of the eliminant is enclosed.  Proved here:
  * `image_encloses`: the closed interval image contains x + y, x · y, xⁿ for all reals in the operand
    intervals;
  * `C07_select_sound`: if the exact value v is a root of the eliminant inside J, J holds exactly one root, and
    the checker accepts the library's result t (a certified root inside J), then t denotes v.
  `_partial` (trusted, classical): that the Sylvester determinant vanishes at the exact value
  (Res_y(f(z−y), g(y)) at x+y etc.) is not formalised.
-/
import LP.Props.Alg
import LP.Props.C06
import LP.Model.AlgOps

namespace LP
open QPoly

namespace ZAlg

theorem ciOf_mem (a : Alg) (x : ℝ) (h : a.Den x) : (ciOf a).memR x := by
  cases a with
  | rat q => have : x = (q : ℝ) := h; rw [this]; exact ⟨le_refl _, le_refl _⟩
  | root f l u => exact ⟨le_of_lt h.1, le_of_lt h.2.1⟩

theorem ciPow_mem (X : CI) (x : ℝ) (h : X.memR x) : ∀ n, (ciPow X n).memR (x ^ n) := by
  intro n
  induction n with
  | zero =>
    have := CI.mem_pt 1
    simpa [ciPow] using this
  | succ n ih =>
    rw [ciPow, pow_succ, mul_comm]
    exact CI.mem_mul h ih

/-- the closed interval image encloses the exact result -/
theorem image_encloses (a b : Alg) (x y : ℝ) (hx : a.Den x) (hy : b.Den y) :
    (image .add a b).memR (x + y) ∧ (image .mul a b).memR (x * y) ∧ ∀ n, (image (.pow n) a b).memR (x ^ n) :=
  ⟨CI.mem_add (ciOf_mem a x hx) (ciOf_mem b y hy), CI.mem_mul (ciOf_mem a x hx) (ciOf_mem b y hy),
   fun n => ciPow_mem _ x (ciOf_mem a x hx) n⟩

/-- **selection is sound**: an accepted result denotes the exact value, provided the exact value is a root of
    the eliminant inside the interval -/
theorem C07_select_sound (R : QPoly) (J : CI) (t : Alg) (xt v : ℝ)
    (hcount : countIn R J.lo false J.hi false = some 1)
    (hv0 : evalR R v = 0) (hvJ : J.memR v)
    (htv : t.Valid) (htx : t.Den xt)
    (hacc : isThe R J t = some true) : xt = v := by
  obtain ⟨rs, hlen, _, hmem⟩ := countIn_sound R J.lo false J.hi false 1 hcount
  obtain ⟨w, rfl⟩ := List.length_eq_one_iff.1 hlen
  have hvw : v = w := by
    have : v ∈ [w] := (hmem v).2 ⟨⟨by simpa using hvJ.1, by simpa using hvJ.2⟩, hv0⟩
    simpa using this
  unfold isThe at hacc
  cases h1 : Alg.cmpRat t J.lo with
  | none => rw [h1] at hacc; simp at hacc
  | some c1 =>
    cases h2 : Alg.cmpRat t J.hi with
    | none => rw [h1, h2] at hacc; simp at hacc
    | some c2 =>
      rw [h1, h2] at hacc
      simp only at hacc
      split_ifs at hacc with hc
      · simp at hacc
      rw [not_or, not_lt, not_lt] at hc
      have s1 := Alg.cmpRat_sound t J.lo c1 xt htv htx h1
      have s2 := Alg.cmpRat_sound t J.hi c2 xt htv htx h2
      have hlo : (J.lo : ℝ) ≤ xt := by
        rcases s1 with ⟨h, _⟩ | ⟨_, h⟩ | ⟨_, h⟩
        · omega
        · exact le_of_eq h.symm
        · exact le_of_lt h
      have hhi : xt ≤ (J.hi : ℝ) := by
        rcases s2 with ⟨_, h⟩ | ⟨_, h⟩ | ⟨h, _⟩
        · exact le_of_lt h
        · exact le_of_eq h
        · omega
      have hroot := isRootOf_sound R t xt htv htx hacc
      have : xt ∈ [w] := (hmem xt).2 ⟨⟨by simpa using hlo, by simpa using hhi⟩, hroot⟩
      rw [hvw]; simpa using this

end ZAlg

/-- re-exports: the observation checks are exact -/
theorem C07_cmp (a b : Alg) (c : Int) (x y : ℝ) (hva : a.Valid) (hx : a.Den x) (hvb : b.Valid) (hy : b.Den y)
    (h : Alg.cmp a b = some c) : Alg.CmpIs c x y := Alg.cmp_sound a b c x y hva hx hvb hy h

theorem C07_cmp_rat (a : Alg) (q : ℚ) (c : Int) (x : ℝ) (hv : a.Valid) (hx : a.Den x)
    (h : Alg.cmpRat a q = some c) : Alg.CmpIs c x (q : ℝ) := Alg.cmpRat_sound a q c x hv hx h

theorem C07_floor (a : Alg) (n : Int) (x : ℝ) (hv : a.Valid) (hx : a.Den x) (h : Alg.floor a = some n) :
    (n : ℝ) ≤ x ∧ x < (n : ℝ) + 1 := Alg.floor_sound a n x hv hx h

end LP
