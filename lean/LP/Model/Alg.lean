/-
  T7 — real algebraic numbers as a rational point or a polynomial over ℚ with an open isolating interval.
  Validity, exact comparison (with rationals and with each other), sign, floor, refinement.  Every decision
  is an `Option`: `none` = fuel exhausted.  Core Lean only.
-/
import LP.Model.RootCount
namespace LP
open QPoly

inductive Alg
  | rat (q : Rat)
  | root (f : QPoly) (l u : Rat)
deriving Repr

namespace Alg

/-- number of distinct roots of `f` in the open interval (l, u); sound for every f, terminates (within the fuel)
    when f is square-free -/
def countOpen (f : QPoly) (l u : Rat) : Option Nat :=
  if l < u then countIn f l true u true else some 0

/-- the representation denotes exactly one real number -/
def valid : Alg → Option Bool
  | rat _ => some true
  | root f l u => if l < u ∧ !(QPoly.isZero f) then (countOpen f l u).map (· == 1) else some false

/-- compare with a rational: -1 if α < q, 0 if equal, 1 if α > q  (α valid) -/
def cmpRat : Alg → Rat → Option Int
  | rat p, q => some (cmpQ p q)
  | root f l u, q =>
    if q ≤ l then some 1
    else if u ≤ q then some (-1)
    else if QPoly.eval f q = 0 then some 0
    else (countOpen f l q).map (fun n => if n = 0 then 1 else -1)

def sgn (a : Alg) : Option Int := cmpRat a 0

/-- halve the isolating interval -/
def refine : Alg → Option Alg
  | rat q => some (rat q)
  | root f l u =>
    let m := (l + u) / 2
    (cmpRat (root f l u) m).map (fun c => if c = 0 then rat m else if c < 0 then root f l m else root f m u)

/-- mirror of `lp_algebraic_number_refine_with_point`: narrow the interval with a rational inside it -/
def refineAt (q : Rat) : Alg → Option Alg
  | rat p => some (rat p)
  | root f l u =>
    if l < q ∧ q < u then
      (cmpRat (root f l u) q).map (fun c => if c = 0 then rat q else if c < 0 then root f l q else root f q u)
    else some (root f l u)

/-- mirror of `lp_algebraic_number_reduce_polynomial`: replace the defining polynomial by a divisor -/
def reducePoly (g : QPoly) : Alg → Alg
  | rat p => rat p
  | root _ l u => root g l u

/-- mirror of `lp_algebraic_number_restore_interval`: go back to an earlier (wider) isolating interval -/
def restoreInterval (l u : Rat) : Alg → Alg
  | rat p => rat p
  | root f _ _ => root f l u

def lo : Alg → Rat | rat q => q | root _ l _ => l
def hi : Alg → Rat | rat q => q | root _ _ u => u
def width (a : Alg) : Rat := a.hi - a.lo

def refineN : Nat → Alg → Option Alg
  | 0, a => some a
  | n+1, a => (refine a).bind (refineN n)

/-- refine until the interval is shorter than eps -/
def refineTo (eps : Rat) : Nat → Alg → Option Alg
  | 0, _ => none
  | n+1, a => if a.width < eps then some a else (refine a).bind (refineTo eps n)

/-- certified gcd over ℚ: h divides f and g and is a combination of them -/
def gcdCert (f g : QPoly) : Option QPoly :=
  let r := xgcd f g
  let h := r.1
  if QPoly.isZero h then none else
  let qf := divMod f h
  let qg := divMod g h
  if eqQ (mul qf.1 h) f && eqQ (mul qg.1 h) g && eqQ (add (mul r.2.1 f) (mul r.2.2 g)) h then some h else none

/-- exact comparison of two valid algebraic numbers -/
def cmpLoop : Nat → Alg → Alg → Option Int
  | 0, _, _ => none
  | fuel+1, a, b =>
    match a, b with
    | rat p, b => (cmpRat b p).map (fun c => -c)
    | root f l u, rat q => cmpRat (root f l u) q
    | root f l u, root g l' u' =>
      if u ≤ l' then some (-1)
      else if u' ≤ l then some 1
      else
        -- overlapping: equal iff the gcd has a root in the intersection
        match gcdCert f g with
        | none => none
        | some h =>
          match (if h.length ≤ 1 then some 0 else countOpen h (max l l') (min u u')) with
          | none => none
          | some n =>
            if n ≥ 1 then some 0
            else
              match refine (root f l u), refine (root g l' u') with
              | some a', some b' => cmpLoop fuel a' b'
              | _, _ => none

def cmp (a b : Alg) : Option Int := cmpLoop 300 a b

/-- floor of a valid algebraic number -/
def floorLoop : Nat → Alg → Option Int
  | 0, _ => none
  | _+1, rat q => some q.floor
  | fuel+1, root f l u =>
    if u ≤ ((l.floor + 1 : Int) : Rat) then
      -- ⌊l⌋ ≤ l < α < u ≤ ⌊l⌋ + 1
      some l.floor
    else
      let k : Int := l.floor + 1          -- an integer in (l, u)
      match cmpRat (root f l u) k with
      | none => none
      | some c => if c = 0 then some k else if c < 0 then floorLoop fuel (root f l k) else floorLoop fuel (root f k u)

def floor (a : Alg) : Option Int := floorLoop 100 a

def ceil (a : Alg) : Option Int :=
  match a with
  | rat q => some q.ceil
  | _ => (floor a).bind (fun n => (cmpRat a n).map (fun c => if c = 0 then n else n + 1))

def isInteger (a : Alg) : Option Bool := (floor a).bind (fun n => (cmpRat a n).map (· == 0))

/-- is the number rational (exact: a rational root of f in the interval)?  Decided via rational-root candidates
    being unnecessary: α is rational iff the factor of f vanishing at α is linear; not needed by the checks. -/
def ofCell (f : QPoly) : Cell → Alg
  | .pt q => rat q
  | .iv l u => root f l u

/-- is the (valid) number a root of `f`?  `some true` only with a certificate -/
def isRootOf (f : QPoly) (a : Alg) : Option Bool :=
  match a with
  | .rat q => some (QPoly.eval f q == 0)
  | .root g l u =>
    match gcdCert g f with
    | none => none
    | some h => if h.length ≤ 1 then some false else (countOpen h l u).map (· ≥ 1)

end Alg
end LP
