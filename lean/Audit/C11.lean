import LP.Props.C11
#print axioms LP.Eval.C11_sign_change_root
#print axioms LP.Eval.C11_identically_zero
#print axioms LP.Eval.C10_sign_interval_only
#print axioms LP.Eval.C10_sign_sound
#print axioms LP.QPoly.realRoots_sound
#print axioms LP.Alg.cmp_sound
