/* C++ side of h_res: poly::discriminant on a C polynomial */
#include <polyxx.h>
extern "C" lp_polynomial_t* lpv_cxx_discriminant(const lp_polynomial_t* p) {
  poly::Polynomial P(p);
  poly::Polynomial D = poly::discriminant(P);
  return lp_polynomial_new_copy(D.get_internal());
}
