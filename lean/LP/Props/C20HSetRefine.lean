/-
  C20 — the open-addressing hash set refines the mathematical set, for EVERY history of insertions and removals
  (`C20_hset_refines`): after any history the table satisfies its invariants (`Good`: probe chains unbroken, load-factor
  bookkeeping, a free slot) and represents the reference set of keys (`Link`: same keys, no key twice).  Consequences, for all
  histories: every answer of insert / remove is the answer of the set (`C20_hset_answers`: "was new" / "was there"),
  `contains` is membership (`C20_hset_contains`), the size field is the cardinality and the enumeration after `close` lists
  every key exactly once (`C20_hset_enumeration`).  Hypothesis `U`/`hU`: within the elements in play, equal keys (equal
  polynomials) have equal hashes — colliding hashes of different keys are allowed and are the interesting case.
  One step: `step_ok` (built on `insert_good`, `remove_good`, `probe_finds`, `probe_misses`).
-/
import LP.Props.C20HSetRemove
namespace LP
namespace HSet

/-- under the invariants a stored key is found by the probe -/
theorem probe_finds (s : HSet) (hg : Good s) (y e : Elem) (hy : y ∈ slots s.data) (hk : y.key = e.key)
    (hh : y.hash = e.hash) : ∃ j, probe s.data e.key s.data.size (home s.data.size e) = some (j, true) := by
  obtain ⟨j, hj, hyj⟩ := (mem_slots_iff _ _).1 hy
  obtain ⟨d, hd, hdj, hall⟩ := hg.pc j y hj hyj
  have hn : 0 < s.data.size := by omega
  have hhome : home s.data.size e = home s.data.size y := by unfold home; rw [hh]
  exact probe_walk s.data e.key d s.data.size (home s.data.size e) hd (Nat.mod_lt _ hn)
    ⟨y, by rw [hhome, hdj]; exact hyj, hk⟩ (by rw [hhome]; exact hall)

/-- under the invariants a key that is not stored is reported as absent (the probe stops at an empty slot) -/
theorem probe_misses (s : HSet) (hg : Good s) (e : Elem) (hno : ∀ y ∈ slots s.data, y.key ≠ e.key) :
    ∃ i, probe s.data e.key s.data.size (home s.data.size e) = some (i, false) := by
  have hs : 0 < s.data.size := by have := hg.pos; omega
  obtain ⟨r, hp⟩ := good_probe s hg e.key (home s.data.size e) (Nat.mod_lt _ hs)
  obtain ⟨i, found⟩ := r
  cases found with
  | false => exact ⟨i, hp⟩
  | true =>
    obtain ⟨y, hy, hk⟩ := (probe_spec s.data e.key _ _ i true hp).1 rfl
    have hi := probe_lt s.data e.key _ _ i true (Nat.mod_lt _ hs) hp
    exact absurd hk (hno y ((mem_slots_iff _ _).2 ⟨i, hi, hy⟩))

/-! ### the reference and the refinement -/

def opElem : SOp → Elem
  | .insert e => e
  | .remove e => e

/-- the reference: a set of keys -/
def specStep (S : SpecSet) : SOp → SpecSet
  | .insert e => S.ins e.key
  | .remove e => S.del e.key

/-- what an operation answers: "inserted" / "removed" -/
def answer (s : HSet) : SOp → Bool
  | .insert e => (insert s e).2
  | .remove e => (remove s e).2

def specAnswer (S : SpecSet) : SOp → Bool
  | .insert e => !S.has e.key
  | .remove e => S.has e.key

/-- the table `s` represents the key set `S`; `U` is the universe of elements in play (equal keys there have equal hashes) -/
structure Link (U : Elem → Prop) (s : HSet) (S : SpecSet) : Prop where
  keys : ∀ key, (∃ y ∈ slots s.data, y.key = key) ↔ key ∈ S.keys
  nodup : ((slots s.data).map (·.key)).Nodup
  snodup : S.keys.Nodup
  univ : ∀ y ∈ slots s.data, U y

theorem link_empty (U : Elem → Prop) : Link U HSet.empty ⟨[]⟩ := by
  have : slots HSet.empty.data = [] := by simp [HSet.empty, slots]
  refine ⟨fun key => ?_, ?_, ?_, ?_⟩ <;> simp [this]

/-- **one operation: the invariants are kept, the table goes on representing the reference, the answers agree** -/
theorem step_ok (U : Elem → Prop) (hU : ∀ x y, U x → U y → x.key = y.key → x.hash = y.hash)
    (s : HSet) (S : SpecSet) (op : SOp) (hg : Good s) (hl : Link U s S) (hop : U (opElem op)) :
    Good (applySOp s op) ∧ Link U (applySOp s op) (specStep S op) ∧ answer s op = specAnswer S op := by
  have hs : 0 < s.data.size := by have := hg.pos; omega
  cases op with
  | insert e =>
    have he : U e := hop
    refine ⟨insert_good s e hg, ?_⟩
    show Link U (insert s e).1 (S.ins e.key) ∧ (insert s e).2 = !S.has e.key
    by_cases hin : e.key ∈ S.keys
    · -- the key is there: nothing happens
      have hhas : S.has e.key = true := by simpa [SpecSet.has] using hin
      obtain ⟨y, hy, hyk⟩ := (hl.keys e.key).2 hin
      obtain ⟨j, hp⟩ := probe_finds s hg y e hy hyk (hU y e (hl.univ y hy) he hyk)
      have hr : (insert s e).2 = false := by unfold insert; rw [hp]
      rw [C20_hset_insert_found s e hr, hr, hhas]
      refine ⟨?_, rfl⟩
      have : S.ins e.key = S := by unfold SpecSet.ins; rw [if_pos hhas]
      rw [this]; exact hl
    · -- a new key
      have hhas : S.has e.key = false := by simpa [SpecSet.has] using hin
      have hno : ∀ y ∈ slots s.data, y.key ≠ e.key := fun y hy hk => hin ((hl.keys e.key).1 ⟨y, hy, hk⟩)
      obtain ⟨i, hp⟩ := probe_misses s hg e hno
      have hr : (insert s e).2 = true := by
        unfold insert; rw [hp]
      have hperm := C20_hset_insert_perm_any s e hs hr
      rw [closeList_eq, closeList_eq] at hperm
      rw [hr, hhas]
      refine ⟨?_, rfl⟩
      have hins : S.ins e.key = ⟨e.key :: S.keys⟩ := by unfold SpecSet.ins; rw [hhas]; rfl
      rw [hins]
      refine ⟨fun key => ?_, ?_, ?_, ?_⟩
      · constructor
        · rintro ⟨y, hy, hk⟩
          rcases List.mem_cons.1 (hperm.subset hy) with rfl | hy'
          · rw [← hk]; exact List.mem_cons_self
          · exact List.mem_cons_of_mem _ ((hl.keys key).1 ⟨y, hy', hk⟩)
        · intro hk
          rcases List.mem_cons.1 hk with rfl | hk'
          · exact ⟨e, hperm.symm.subset List.mem_cons_self, rfl⟩
          · obtain ⟨y, hy, hyk⟩ := (hl.keys key).2 hk'
            exact ⟨y, hperm.symm.subset (List.mem_cons_of_mem _ hy), hyk⟩
      · have := (hperm.map (·.key)).nodup_iff.2 (by
          rw [List.map_cons, List.nodup_cons]
          refine ⟨?_, hl.nodup⟩
          intro hm
          obtain ⟨y, hy, hk⟩ := List.mem_map.1 hm
          exact hno y hy hk)
        exact this
      · exact List.nodup_cons.2 ⟨hin, hl.snodup⟩
      · intro y hy
        rcases List.mem_cons.1 (hperm.subset hy) with rfl | hy'
        · exact he
        · exact hl.univ y hy'
  | remove e =>
    have he : U e := hop
    refine ⟨remove_good s e hg, ?_⟩
    show Link U (remove s e).1 (S.del e.key) ∧ (remove s e).2 = S.has e.key
    by_cases hin : e.key ∈ S.keys
    · -- the key is there: exactly its element goes
      have hhas : S.has e.key = true := by simpa [SpecSet.has] using hin
      obtain ⟨y, hy, hyk⟩ := (hl.keys e.key).2 hin
      obtain ⟨j, hp⟩ := probe_finds s hg y e hy hyk (hU y e (hl.univ y hy) he hyk)
      have hr : (remove s e).2 = true := by unfold remove; rw [hp]
      obtain ⟨x, hxk, hperm⟩ := C20_hset_remove_perm s e hs hr
      rw [closeList_eq, closeList_eq] at hperm
      rw [hr, hhas]
      refine ⟨?_, rfl⟩
      -- the remaining elements have other keys
      have hnd : ((x :: slots (remove s e).1.data).map (·.key)).Nodup :=
        (hperm.map (·.key)).nodup_iff.2 hl.nodup
      rw [List.map_cons, List.nodup_cons] at hnd
      refine ⟨fun key => ?_, hnd.2, ?_, ?_⟩
      · unfold SpecSet.del
        simp only [List.mem_filter, decide_eq_true_eq]
        constructor
        · rintro ⟨z, hz, hk⟩
          refine ⟨(hl.keys key).1 ⟨z, hperm.subset (List.mem_cons_of_mem _ hz), hk⟩, ?_⟩
          intro hke
          apply hnd.1
          rw [hxk, ← hke, ← hk]
          exact List.mem_map.2 ⟨z, hz, rfl⟩
        · rintro ⟨hk, hne⟩
          obtain ⟨z, hz, hzk⟩ := (hl.keys key).2 hk
          rcases List.mem_cons.1 (hperm.symm.subset hz) with rfl | hz'
          · exact absurd (hzk.symm.trans hxk) hne
          · exact ⟨z, hz', hzk⟩
      · unfold SpecSet.del; exact hl.snodup.filter _
      · intro z hz
        exact hl.univ z (hperm.subset (List.mem_cons_of_mem _ hz))
    · -- the key is not there: nothing happens
      have hhas : S.has e.key = false := by simpa [SpecSet.has] using hin
      have hno : ∀ y ∈ slots s.data, y.key ≠ e.key := fun y hy hk => hin ((hl.keys e.key).1 ⟨y, hy, hk⟩)
      obtain ⟨i, hp⟩ := probe_misses s hg e hno
      have hr : (remove s e).2 = false := by unfold remove; rw [hp]
      rw [C20_hset_remove_missing s e hr, hr, hhas]
      refine ⟨?_, rfl⟩
      have : S.del e.key = S := by
        unfold SpecSet.del
        congr
        refine List.filter_eq_self.2 (fun k hk => ?_)
        have : k ≠ e.key := fun h => hin (h ▸ hk)
        simpa using this
      rw [this]; exact hl


/-- the table and the reference after a history -/
def run (ops : List SOp) : HSet := ops.foldl applySOp HSet.empty
def specRun (ops : List SOp) : SpecSet := ops.foldl specStep ⟨[]⟩

theorem run_ok (U : Elem → Prop) (hU : ∀ x y, U x → U y → x.key = y.key → x.hash = y.hash) :
    ∀ (ops : List SOp) (s : HSet) (S : SpecSet), Good s → Link U s S → (∀ op ∈ ops, U (opElem op)) →
      Good (ops.foldl applySOp s) ∧ Link U (ops.foldl applySOp s) (ops.foldl specStep S) := by
  intro ops
  induction ops with
  | nil => intro s S hg hl _; exact ⟨hg, hl⟩
  | cons op ops ih =>
    intro s S hg hl hops
    obtain ⟨hg', hl', _⟩ := step_ok U hU s S op hg hl (hops op List.mem_cons_self)
    exact ih _ _ hg' hl' (fun o ho => hops o (List.mem_cons_of_mem _ ho))

/-- **the hash set refines the mathematical set, for every history of insertions and removals**: after any history
    the table is in its invariants and represents the reference set of keys -/
theorem C20_hset_refines (U : Elem → Prop) (hU : ∀ x y, U x → U y → x.key = y.key → x.hash = y.hash)
    (ops : List SOp) (hops : ∀ op ∈ ops, U (opElem op)) : Good (run ops) ∧ Link U (run ops) (specRun ops) :=
  run_ok U hU ops _ _ good_empty (link_empty U) hops

/-- **every answer of insert / remove after any history is the answer of the mathematical set** -/
theorem C20_hset_answers (U : Elem → Prop) (hU : ∀ x y, U x → U y → x.key = y.key → x.hash = y.hash)
    (ops : List SOp) (hops : ∀ op ∈ ops, U (opElem op)) (op : SOp) (hop : U (opElem op)) :
    answer (run ops) op = specAnswer (specRun ops) op := by
  obtain ⟨hg, hl⟩ := C20_hset_refines U hU ops hops
  exact (step_ok U hU _ _ op hg hl hop).2.2

/-- **membership after any history is membership in the mathematical set** -/
theorem C20_hset_contains (U : Elem → Prop) (hU : ∀ x y, U x → U y → x.key = y.key → x.hash = y.hash)
    (ops : List SOp) (hops : ∀ op ∈ ops, U (opElem op)) (e : Elem) (he : U e) :
    (run ops).contains e = (specRun ops).has e.key := by
  obtain ⟨hg, hl⟩ := C20_hset_refines U hU ops hops
  by_cases hin : e.key ∈ (specRun ops).keys
  · have hhas : (specRun ops).has e.key = true := by simpa [SpecSet.has] using hin
    obtain ⟨y, hy, hyk⟩ := (hl.keys e.key).2 hin
    obtain ⟨j, hp⟩ := probe_finds _ hg y e hy hyk (hU y e (hl.univ y hy) he hyk)
    rw [hhas]; unfold contains; rw [hp]
  · have hhas : (specRun ops).has e.key = false := by simpa [SpecSet.has] using hin
    have hno : ∀ y ∈ slots (run ops).data, y.key ≠ e.key := fun y hy hk => hin ((hl.keys e.key).1 ⟨y, hy, hk⟩)
    obtain ⟨i, hp⟩ := probe_misses _ hg e hno
    rw [hhas]; unfold contains; rw [hp]

/-- **size and enumeration after any history**: the size field is the cardinality of the set, and the enumeration after
    `close` lists every key of the set exactly once -/
theorem C20_hset_enumeration (U : Elem → Prop) (hU : ∀ x y, U x → U y → x.key = y.key → x.hash = y.hash)
    (ops : List SOp) (hops : ∀ op ∈ ops, U (opElem op)) :
    (keys (run ops)).Perm (specRun ops).keys ∧ (run ops).size = (specRun ops).keys.length := by
  obtain ⟨hg, hl⟩ := C20_hset_refines U hU ops hops
  have hperm : (keys (run ops)).Perm (specRun ops).keys := by
    unfold keys
    rw [closeList_eq]
    refine (List.perm_ext_iff_of_nodup hl.nodup hl.snodup).2 (fun k => ?_)
    rw [← hl.keys k, List.mem_map]
  refine ⟨hperm, ?_⟩
  rw [hg.cnt, ← hperm.length_eq]
  unfold keys
  rw [closeList_eq, List.length_map]

/-- non-vacuity: a universe in which the hash is a function of the key -/
example : ∃ U : Elem → Prop, (∀ x y, U x → U y → x.key = y.key → x.hash = y.hash) ∧ U ⟨3, 3⟩ ∧ U ⟨7, 67⟩ :=
  ⟨fun x => x.hash = (x.key * 64 + 3) % 192, fun x y hx hy hk => by rw [hx, hy, hk], by decide, by decide⟩

end HSet
end LP
