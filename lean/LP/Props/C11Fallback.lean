/-
  C11 — soundness of the eliminant-free isolation `isoLoopM` (used when the eliminant degenerates to 0): a successful run
  returns cells that contain every root of the specialised polynomial in the open interval, one root per cell, in
  increasing order.  Same argument as `isoLoop_sound`: interval exclusion, sign-definite derivative ⇒ strict
  monotonicity (mean value theorem, with `hasDerivAt_specR`), exact signs at rational points (`C10_sign_exact`), bisection.
-/
import LP.Props.C11Deriv
import Mathlib.Analysis.Calculus.Deriv.MeanValue

namespace LP
open QPoly MPoly

namespace Eval

/-- `L` describes exactly the roots of `f` in the open interval (a, b) -/
structure IsolatesF (f : ℝ → ℝ) (a b : ℚ) (L : List Cell) : Prop where
  complete : ∀ x : ℝ, (a : ℝ) < x → x < (b : ℝ) → f x = 0 → ∃ c ∈ L, c.memR x
  within : ∀ c ∈ L, ∀ x, c.memR x → (a : ℝ) < x ∧ x < (b : ℝ)
  unique : ∀ c ∈ L, ∃! x, c.memR x ∧ f x = 0
  sorted : L.Pairwise (fun c d => ∀ x y, c.memR x → d.memR y → x < y)

theorem isolatesF_nil (f : ℝ → ℝ) (a b : ℚ) (h : ∀ x : ℝ, (a : ℝ) < x → x < (b : ℝ) → f x ≠ 0) : IsolatesF f a b [] :=
  ⟨fun x h1 h2 h3 => absurd h3 (h x h1 h2), by simp, by simp, List.Pairwise.nil⟩

/-- joining the two halves of a bisection -/
theorem isolatesF_join (f : ℝ → ℝ) (a m b : ℚ) (ham : a < m) (hmb : m < b) (Lf Rt : List Cell)
    (iL : IsolatesF f a m Lf) (iR : IsolatesF f m b Rt) (mid : Bool) (hmid : mid = true ↔ f (m : ℝ) = 0) :
    IsolatesF f a b (Lf ++ (if mid then [Cell.pt m] else []) ++ Rt) := by
  have hamR : (a : ℝ) < m := by exact_mod_cast ham
  have hmbR : (m : ℝ) < b := by exact_mod_cast hmb
  cases mid with
  | true =>
    have h0R : f (m : ℝ) = 0 := hmid.1 rfl
    simp only [if_true]
    refine ⟨?_, ?_, ?_, ?_⟩
    · intro x hx1 hx2 hx
      rcases lt_trichotomy x (m : ℝ) with hlt | heq | hgt
      · obtain ⟨c, hc, hcx⟩ := iL.complete x hx1 hlt hx
        exact ⟨c, by simp [hc], hcx⟩
      · exact ⟨Cell.pt m, by simp, heq⟩
      · obtain ⟨c, hc, hcx⟩ := iR.complete x hgt hx2 hx
        exact ⟨c, by simp [hc], hcx⟩
    · intro c hc x hcx
      simp only [List.mem_append, List.mem_singleton] at hc
      rcases hc with (hc | hc) | hc
      · have := iL.within c hc x hcx; exact ⟨this.1, this.2.trans hmbR⟩
      · subst hc; have : x = (m : ℝ) := hcx; rw [this]; exact ⟨hamR, hmbR⟩
      · have := iR.within c hc x hcx; exact ⟨hamR.trans this.1, this.2⟩
    · intro c hc
      simp only [List.mem_append, List.mem_singleton] at hc
      rcases hc with (hc | hc) | hc
      · exact iL.unique c hc
      · subst hc
        exact ⟨(m : ℝ), ⟨rfl, h0R⟩, fun y hy => hy.1⟩
      · exact iR.unique c hc
    · rw [List.pairwise_append]
      refine ⟨?_, iR.sorted, ?_⟩
      · rw [List.pairwise_append]
        refine ⟨iL.sorted, List.pairwise_singleton _ _, ?_⟩
        intro c hc d hd x y hx hy
        rw [List.mem_singleton] at hd; subst hd
        have : y = (m : ℝ) := hy
        rw [this]; exact (iL.within c hc x hx).2
      · intro c hc d hd x y hx hy
        have hy' := (iR.within d hd y hy).1
        simp only [List.mem_append, List.mem_singleton] at hc
        rcases hc with hc | hc
        · exact ((iL.within c hc x hx).2).trans hy'
        · subst hc; have : x = (m : ℝ) := hx; rw [this]; exact hy'
  | false =>
    have h0R : f (m : ℝ) ≠ 0 := fun h => by have := hmid.2 h; cases this
    simp only [Bool.false_eq_true, if_false, List.append_nil]
    refine ⟨?_, ?_, ?_, ?_⟩
    · intro x hx1 hx2 hx
      rcases lt_trichotomy x (m : ℝ) with hlt | heq | hgt
      · obtain ⟨c, hc, hcx⟩ := iL.complete x hx1 hlt hx
        exact ⟨c, by simp [hc], hcx⟩
      · rw [heq] at hx; exact absurd hx h0R
      · obtain ⟨c, hc, hcx⟩ := iR.complete x hgt hx2 hx
        exact ⟨c, by simp [hc], hcx⟩
    · intro c hc x hcx
      rw [List.mem_append] at hc
      rcases hc with hc | hc
      · have := iL.within c hc x hcx; exact ⟨this.1, this.2.trans hmbR⟩
      · have := iR.within c hc x hcx; exact ⟨hamR.trans this.1, this.2⟩
    · intro c hc
      rw [List.mem_append] at hc
      rcases hc with hc | hc
      · exact iL.unique c hc
      · exact iR.unique c hc
    · rw [List.pairwise_append]
      refine ⟨iL.sorted, iR.sorted, ?_⟩
      intro c hc d hd x y hx hy
      exact ((iL.within c hc x hx).2).trans (iR.within d hd y hy).1

/-- the side conditions on the assignment -/
structure Ctx (y : ℕ) (a : Asg) (ν : ℕ → ℝ) : Prop where
  den : AsgDen a ν
  roots : ∀ xz ∈ a, evalR (ZAlg.toQ xz.2.f) (ν xz.1) = 0
  ya : ∀ xz ∈ a, xz.1 ≠ y
  za : ∀ xz ∈ a, xz.1 ≠ zVar

theorem ctx_refine (y : ℕ) (a : Asg) (ν : ℕ → ℝ) (h : Ctx y a ν) (fuel : ℕ) :
    Ctx y (if fuel % 2 = 0 then (refineAll a).getD a else a) ν := by
  by_cases hf : fuel % 2 = 0
  · rw [if_pos hf]
    cases hr : refineAll a with
    | none => simpa using h
    | some a' =>
      simp only [Option.getD_some]
      obtain ⟨hd, hmap⟩ := asgDen_refine a a' ν h.den hr
      have key : ∀ xz ∈ a', ∃ xz0 ∈ a, xz0.1 = xz.1 ∧ xz0.2.f = xz.2.f := by
        intro xz hxz
        have : (xz.1, xz.2.f) ∈ a'.map (fun xz => (xz.1, xz.2.f)) := List.mem_map.2 ⟨xz, hxz, rfl⟩
        rw [hmap, List.mem_map] at this
        obtain ⟨xz0, h0, heq⟩ := this
        simp only [Prod.mk.injEq] at heq
        exact ⟨xz0, h0, heq.1, heq.2⟩
      refine ⟨hd, ?_, ?_, ?_⟩
      · intro xz hxz
        obtain ⟨xz0, h0, e1, e2⟩ := key xz hxz
        rw [← e1, ← e2]; exact h.roots xz0 h0
      · intro xz hxz
        obtain ⟨xz0, h0, e1, _⟩ := key xz hxz
        rw [← e1]; exact h.ya xz0 h0
      · intro xz hxz
        obtain ⟨xz0, h0, e1, _⟩ := key xz hxz
        rw [← e1]; exact h.za xz0 h0
  · rw [if_neg hf]; exact h

/-- the box with the main variable ranging over [lo, hi] encloses every point with ρ ∈ [lo, hi] -/
theorem boxY_mem (a : Asg) (ν : ℕ → ℝ) (hden : AsgDen a ν) (y : ℕ) (lo hi : ℚ) (ρ : ℝ) (h1 : (lo : ℝ) ≤ ρ) (h2 : ρ ≤ (hi : ℝ)) (x : ℕ) :
    (boxY a y lo hi x).memR (Function.update ν y ρ x) := by
  unfold boxY
  by_cases hx : x = y
  · subst hx; simp only [if_true, Function.update_self]; exact ⟨h1, h2⟩
  · rw [if_neg hx, Function.update_of_ne hx]; exact box_mem a ν hden x

theorem signIs_zero_iff (s : Int) (v : ℝ) (h : SignIs s v) : s = 0 ↔ v = 0 := by
  rcases h with ⟨rfl, hv⟩ | ⟨rfl, hv⟩ | ⟨rfl, hv⟩
  · constructor
    · intro h; omega
    · intro h; rw [h] at hv; exact absurd hv (lt_irrefl _)
  · constructor
    · intro h; omega
    · intro h; rw [h] at hv; exact absurd hv (lt_irrefl _)
  · exact ⟨fun _ => hv, fun _ => rfl⟩

theorem signIs_mul_neg (s t : Int) (u v : ℝ) (hs : SignIs s u) (ht : SignIs t v) : s * t < 0 ↔ u * v < 0 := by
  rcases hs with ⟨rfl, hu⟩ | ⟨rfl, hu⟩ | ⟨rfl, hu⟩ <;> rcases ht with ⟨rfl, hv⟩ | ⟨rfl, hv⟩ | ⟨rfl, hv⟩
  · constructor
    · intro h; omega
    · intro h; exact absurd h (not_lt.2 (le_of_lt (mul_pos hu hv)))
  · exact ⟨fun _ => mul_neg_of_pos_of_neg hu hv, fun _ => by norm_num⟩
  · constructor
    · intro h; omega
    · intro h; rw [hv, mul_zero] at h; exact absurd h (lt_irrefl _)
  · exact ⟨fun _ => mul_neg_of_neg_of_pos hu hv, fun _ => by norm_num⟩
  · constructor
    · intro h; omega
    · intro h; exact absurd h (not_lt.2 (le_of_lt (mul_pos_of_neg_of_neg hu hv)))
  · constructor
    · intro h; omega
    · intro h; rw [hv, mul_zero] at h; exact absurd h (lt_irrefl _)
  · constructor
    · intro h; omega
    · intro h; rw [hu, zero_mul] at h; exact absurd h (lt_irrefl _)
  · constructor
    · intro h; omega
    · intro h; rw [hu, zero_mul] at h; exact absurd h (lt_irrefl _)
  · constructor
    · intro h; omega
    · intro h; rw [hu, zero_mul] at h; exact absurd h (lt_irrefl _)

/-- the polynomial does not depend on the auxiliary variable of the eliminant construction (semantic form) -/
def ZFree (p : MPoly) : Prop := ∀ (ν₀ : ℕ → ℝ) (v : ℝ), evalRealM p (Function.update ν₀ zVar v) = evalRealM p ν₀

theorem zfree_of_syntactic (p : MPoly) (hzp : ∀ t ∈ p, ∀ pr ∈ t.1, pr.1 ≠ zVar) : ZFree p :=
  fun ν₀ v => MPoly.evalRealM_update p ν₀ zVar v hzp

/-- exact sign at a rational point, for polynomials that are semantically free of the auxiliary variable -/
theorem sign_at_rat_sem (p : MPoly) (a : Asg) (ν : ℕ → ℝ) (y : ℕ) (q : ℚ) (s : Int) (hctx : Ctx y a ν) (hz : ZFree p) (hyz : y ≠ zVar)
    (h : exactSign p ((y, ZAlg.ofRat q) :: a) = some s) : SignIs s (specR p ν y (q : ℝ)) := by
  apply C10_sign_exact_sem p _ _ s
    (asgDen_cons a ν y (ZAlg.ofRat q) (q : ℝ) hctx.den hctx.ya (Alg.valid_rat q) (show (ZAlg.ofRat q).a.Den (q : ℝ) from rfl))
    (hroots_cons a ν y _ _ hctx.roots hctx.ya (ofRat_root q)) (fun v => hz _ v) _ h
  intro xz hxz
  rw [List.mem_cons] at hxz
  rcases hxz with rfl | hxz
  · exact hyz
  · exact hctx.za xz hxz

/-- **soundness of the eliminant-free isolation** -/
theorem isoLoopM_sound (p : MPoly) (y : ℕ) (ν : ℕ → ℝ)
    (hz : ZFree p) (hyz : y ≠ zVar) :
    ∀ (fuel budget : ℕ) (a : Asg) (lo hi : ℚ) (L : List Cell) (b' : ℕ), lo < hi → Ctx y a ν →
      isoLoopM p (MPoly.derivative none p y) y fuel budget a lo hi = some (L, b') →
      IsolatesF (specR p ν y) lo hi L := by
  intro fuel
  induction fuel with
  | zero => intro budget a lo hi L b' _ _ h; simp [isoLoopM] at h
  | succ fuel ih =>
    intro budget a lo hi L b' hlh hctx h
    cases budget with
    | zero => simp [isoLoopM] at h
    | succ budget =>
      have hlhR : (lo : ℝ) < hi := by exact_mod_cast hlh
      rw [isoLoopM] at h
      simp only at h
      have henc : ∀ (q : MPoly) (ρ : ℝ), (lo : ℝ) ≤ ρ → ρ ≤ (hi : ℝ) →
          (ievalM q (boxY a y lo hi)).memR (specR q ν y ρ) := by
        intro q ρ h1 h2
        exact ievalM_encloses q _ _ (boxY_mem a ν hctx.den y lo hi ρ h1 h2)
      by_cases hex : 0 < (ievalM p (boxY a y lo hi)).lo ∨ (ievalM p (boxY a y lo hi)).hi < 0
      · rw [if_pos hex] at h
        simp only [Option.some.injEq, Prod.mk.injEq] at h
        rw [← h.1]
        apply isolatesF_nil
        intro x hx1 hx2 hx0
        have := henc p x hx1.le hx2.le
        rw [hx0] at this
        rcases hex with hpos | hneg
        · have : ((ievalM p (boxY a y lo hi)).lo : ℝ) ≤ 0 := this.1
          have h' : (0 : ℝ) < ((ievalM p (boxY a y lo hi)).lo : ℝ) := by exact_mod_cast hpos
          linarith
        · have : (0 : ℝ) ≤ ((ievalM p (boxY a y lo hi)).hi : ℝ) := this.2
          have h' : ((ievalM p (boxY a y lo hi)).hi : ℝ) < 0 := by exact_mod_cast hneg
          linarith
      rw [if_neg hex] at h
      by_cases hw : hi - lo < 1 / 65536
      · rw [if_pos hw] at h; simp at h
      rw [if_neg hw] at h
      have sgnAt : ∀ (q : ℚ) (s : Int), exactSign p ((y, ZAlg.ofRat q) :: a) = some s → SignIs s (specR p ν y (q : ℝ)) :=
        fun q s hs => sign_at_rat_sem p a ν y q s hctx hz hyz hs
      by_cases hmono : 0 < (ievalM (MPoly.derivative none p y) (boxY a y lo hi)).lo ∨
          (ievalM (MPoly.derivative none p y) (boxY a y lo hi)).hi < 0
      · -- strictly monotone on [lo, hi]
        rw [if_pos hmono] at h
        have hm : StrictMonoOn (specR p ν y) (Set.Icc (lo : ℝ) hi) ∨ StrictAntiOn (specR p ν y) (Set.Icc (lo : ℝ) hi) := by
          have hd : ∀ x ∈ interior (Set.Icc (lo : ℝ) hi), deriv (specR p ν y) x = specR (MPoly.derivative none p y) ν y x :=
            fun x _ => (hasDerivAt_specR p ν y x).deriv
          have hin : ∀ x ∈ interior (Set.Icc (lo : ℝ) hi), (lo : ℝ) ≤ x ∧ x ≤ (hi : ℝ) := by
            intro x hx; rw [interior_Icc] at hx; exact ⟨hx.1.le, hx.2.le⟩
          rcases hmono with hpos | hneg
          · left
            apply strictMonoOn_of_deriv_pos (convex_Icc _ _) (continuous_specR p ν y).continuousOn
            intro x hx
            rw [hd x hx]
            have := (henc (MPoly.derivative none p y) x (hin x hx).1 (hin x hx).2).1
            have h' : (0 : ℝ) < ((ievalM (MPoly.derivative none p y) (boxY a y lo hi)).lo : ℝ) := by exact_mod_cast hpos
            linarith
          · right
            apply strictAntiOn_of_deriv_neg (convex_Icc _ _) (continuous_specR p ν y).continuousOn
            intro x hx
            rw [hd x hx]
            have := (henc (MPoly.derivative none p y) x (hin x hx).1 (hin x hx).2).2
            have h' : ((ievalM (MPoly.derivative none p y) (boxY a y lo hi)).hi : ℝ) < 0 := by exact_mod_cast hneg
            linarith
        cases hsl : exactSign p ((y, ZAlg.ofRat lo) :: a) with
        | none => rw [hsl] at h; simp at h
        | some sl =>
          cases hsu : exactSign p ((y, ZAlg.ofRat hi) :: a) with
          | none => rw [hsl, hsu] at h; simp at h
          | some su =>
            rw [hsl, hsu] at h
            simp only at h
            have hiff := signIs_mul_neg sl su _ _ (sgnAt lo sl hsl) (sgnAt hi su hsu)
            by_cases hch : sl * su < 0
            · rw [if_pos hch] at h
              simp only [Option.some.injEq, Prod.mk.injEq] at h
              rw [← h.1]
              obtain ⟨x, hx, hux⟩ := unique_root_of_mono (specR p ν y) lo hi hlhR (continuous_specR p ν y).continuousOn hm (hiff.1 hch)
              refine ⟨?_, ?_, ?_, List.pairwise_singleton _ _⟩
              · intro z hz1 hz2 _
                exact ⟨_, List.mem_singleton_self _, ⟨hz1, hz2⟩⟩
              · intro c hc z hz
                rw [List.mem_singleton] at hc; subst hc; exact hz
              · intro c hc
                rw [List.mem_singleton] at hc; subst hc
                exact ⟨x, hx, hux⟩
            · rw [if_neg hch] at h
              simp only [Option.some.injEq, Prod.mk.injEq] at h
              rw [← h.1]
              exact isolatesF_nil _ _ _ (fun x hx1 hx2 =>
                no_root_of_mono (specR p ν y) lo hi hm (fun hc => hch (hiff.2 hc)) x hx1 hx2)
      · -- bisection
        rw [if_neg hmono] at h
        set m : ℚ := (lo + hi) / 2 with hm
        have ham : lo < m := by rw [hm]; linarith
        have hmb : m < hi := by rw [hm]; linarith
        cases hsm : exactSign p ((y, ZAlg.ofRat m) :: a) with
        | none => rw [hsm] at h; simp at h
        | some sm =>
          rw [hsm] at h
          simp only at h
          have hctx' := ctx_refine y a ν hctx fuel
          cases hL : isoLoopM p (MPoly.derivative none p y) y fuel budget (if fuel % 2 = 0 then (refineAll a).getD a else a) lo m with
          | none => rw [hL] at h; simp at h
          | some r1 =>
            obtain ⟨Lf, b1⟩ := r1
            rw [hL] at h
            simp only at h
            cases hR : isoLoopM p (MPoly.derivative none p y) y fuel b1 (if fuel % 2 = 0 then (refineAll a).getD a else a) m hi with
            | none => rw [hR] at h; simp at h
            | some r2 =>
              obtain ⟨Rt, b2⟩ := r2
              rw [hR] at h
              simp only [Option.some.injEq, Prod.mk.injEq] at h
              rw [← h.1]
              have iL := ih budget _ lo m Lf b1 ham hctx' hL
              have iR := ih b1 _ m hi Rt b2 hmb hctx' hR
              have hz := signIs_zero_iff sm _ (sgnAt m sm hsm)
              have := isolatesF_join (specR p ν y) lo m hi ham hmb Lf Rt iL iR (decide (sm = 0)) (by
                rw [decide_eq_true_eq]; exact hz)
              simpa using this

end Eval
end LP
