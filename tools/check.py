#!/usr/bin/env python3
"""check.py <PROP> [--tier quick|thorough] [--seed N] [--replay FILE]

Exit 0: property held on everything explored (known findings are printed as
KNOWN-FINDING lines).  Exit 1 + `VIOLATION property=<id> replay=<path>` otherwise.
"""
import argparse, json, os, re, shutil, sys, time
sys.path.insert(0, os.path.dirname(os.path.abspath(__file__)))
import lpv
from props import PROPS


def main():
    ap = argparse.ArgumentParser()
    ap.add_argument("prop")
    ap.add_argument("--tier", default=os.environ.get("VERIF_TIER", "quick"))
    ap.add_argument("--seed", type=int, default=int(os.environ.get("VERIF_SEED", "1")))
    ap.add_argument("--replay")
    a = ap.parse_args()
    prop = a.prop
    if prop not in PROPS:
        print("unknown property", prop)
        return 2
    cfg = PROPS[prop]
    tier = a.tier if a.tier in ("quick", "thorough") else "quick"
    t0 = time.time()
    violations = []     # (replay_path, suffix)
    known_hits = []
    notes = []
    scratch = lpv.scratch_dir()
    if not a.replay:
        rd = os.path.join(lpv.EVID, "replay")
        if os.path.isdir(rd):
            for f in os.listdir(rd):
                if f.startswith(prop + "_"):
                    os.remove(os.path.join(rd, f))
    try:
        rc = body(prop, cfg, tier, a.seed, a.replay, scratch, violations, known_hits, notes, t0)
    finally:
        shutil.rmtree(scratch, ignore_errors=True)
    return rc


def save_replay(prop, tag, payload):
    p = lpv.replay_path(prop, re.sub(r"[^A-Za-z0-9_.-]", "_", tag))
    json.dump(payload, open(p, "w"), indent=1)
    return p


def body(prop, cfg, tier, seed, replay, scratch, violations, known_hits, notes, t0):
    ev_cov = {}
    # ---------------------------------------------------------------- translator tie: regenerate the table model from the source
    gen_broken = []
    if cfg.get("gen_tables"):
        r = lpv.run([sys.executable, os.path.join(os.path.dirname(os.path.abspath(__file__)), "translate_tables.py")])
        ev_cov["translator"] = (r.stdout or "").strip().splitlines()[-1:] if r.stdout else []
        if r.returncode != 0:
            gen_broken.append("translator tools/translate_tables.py: " + (r.stdout or "")[-300:].strip())
            notes.append("table translator failed on the current source")
    # ---------------------------------------------------------------- Lean: build + audit
    targets = cfg.get("lean_targets", []) + ["lpdriver"]
    ok, broken, out = lpv.lean_build(targets)
    proof_broken = list(gen_broken)
    if ok and gen_broken:
        ok = False
    if cfg.get("gen_tables") and (not ok) and any("GenTables" in b for b in broken):
        # the generated tables no longer match the model: enumerate the finite domain for the differing entries
        lpv.lake(["build", "LP.Gen.SignCondition", "LP.Gen.IntervalCmp", "LP.Gen.IcmpModel", "LP.Model.Feasible", "LP.Model.IntervalPoly"])
        r = lpv.lake(["env", "lean", "--run", "Gen/TableDiff.lean"])
        mism = [l for l in (r.stdout or "").splitlines() if l.startswith("MISMATCH")]
        if mism:
            p = save_replay(prop, "table-entry", {"kind": "table-entry-differs-from-model", "property": prop, "entries": mism[:40],
                                                   "how": "python3 tools/translate_tables.py && cd lean && lake env lean --run Gen/TableDiff.lean"})
            print("VIOLATION property=%s replay=%s" % (prop, p))
            violations.append(p)
    if not ok:
        drv_ok = os.path.exists(lpv.driver_exe())
        proof_broken = proof_broken + (broken or ([] if gen_broken else ["lake build failed: " + out[-400:]]))
        notes.append("lean build failed: %s" % "; ".join(proof_broken[:5]))
        if not drv_ok:
            p = save_replay(prop, "lean-build", {"kind": "lean-build-failed", "errors": proof_broken, "log_tail": out[-3000:]})
            print("VIOLATION property=%s replay=%s no-failing-input-found" % (prop, p))
            write_ev(prop, cfg, tier, seed, t0, ev_cov, 1, notes)
            return 1
    forb = lpv.forbidden_tokens()
    obligations, discharged, details, raw = lpv.lean_audit(prop)
    bad_thms = [d for d in details if not d["ok"]]
    ev_cov["obligations"] = obligations
    ev_cov["discharged"] = discharged if not forb else 0
    ev_cov["theorems"] = [{"name": d["theorem"], "axioms": d["axioms"]} for d in details if d["ok"]]
    ev_cov["checker_cmd"] = "cd /verif/lean && lake build %s && lake env lean Audit/%s.lean  (kernel re-check: lake env leanchecker %s)" % (
        " ".join(cfg.get("lean_targets", [])), prop, " ".join(cfg.get("lean_targets", [])))
    ev_cov["trusted_base"] = cfg.get("trusted_base", []) + [
        "Lean 4.33 kernel; axioms allowed: propext, Classical.choice, Quot.sound (checked by #print axioms on every run)",
        "Mathlib v4.33 as compiled library of kernel-checked proofs",
        "hand-written model tied to /repo by the correspondence harness (C harness + native lpdriver); GMP/libc/compiler semantics trusted",
    ]
    if forb:
        notes.append("forbidden tokens in Lean sources: %s" % forb[:5])
    if tier == "thorough" and ok and cfg.get("lean_targets"):
        lc = []
        for t in cfg["lean_targets"]:
            r = lpv.lake(["env", "leanchecker", t])
            lc.append({"module": t, "ok": r.returncode == 0})
            if r.returncode != 0:
                bad_thms.append({"theorem": t, "error": "leanchecker: " + r.stdout[-300:]})
        ev_cov["leanchecker"] = lc

    # ---------------------------------------------------------------- C side
    try:
        libdir = lpv.build_lib()
    except RuntimeError as e:
        # the tree does not compile: nothing can be claimed
        p = save_replay(prop, "build", {"kind": "repo-build-failed", "error": str(e)[-3000:]})
        print("VIOLATION property=%s replay=%s no-failing-input-found" % (prop, p))
        write_ev(prop, cfg, tier, seed, t0, ev_cov, 1, notes + ["repo build failed"])
        return 1

    known = [k for k in lpv.load_known() if k.get("property") == prop and k.get("status") == "known"]
    total_eval = 0
    nontrivial = set()
    samples = []
    branches = {}
    disagreements = []
    viols = []
    crashes = []
    skipped = 0
    runs = []
    if replay:
        rp = json.load(open(replay))
        runs = [(rp["harness"], rp["seed"], rp["n"], rp.get("case"), rp.get("env"))]
    else:
        seeds = [seed] if tier == "quick" else [seed, seed + 1000, seed + 2000]
        for h in cfg["harnesses"]:
            n = h["quick"] if tier == "quick" else h["thorough"]
            for s in seeds:
                env = dict(h.get("env") or {})
                if tier == "thorough":
                    env.update(h.get("thorough_env") or {})
                runs.append((h["name"], s, n, None, env or None))
    exes = {}
    for (hname, s, n, only, henv) in runs:
        if hname not in exes:
            try:
                exes[hname] = lpv.build_harness(hname, libdir, scratch)
            except RuntimeError as e:
                p = save_replay(prop, "harness-build", {"kind": "harness-build-failed", "harness": hname, "error": str(e)[-3000:]})
                print("VIOLATION property=%s replay=%s no-failing-input-found" % (prop, p))
                write_ev(prop, cfg, tier, seed, t0, ev_cov, 1, notes + ["harness build failed (API changed?)"])
                return 1
        lines = os.path.join(scratch, "%s-%s.lines" % (hname, s))
        start = 0
        attempts = 0
        slow_reruns = 0
        while True:
          rc, err = lpv.run_harness(exes[hname], s, n, lines, only=only, extra_env=henv, start=start, append=(attempts > 0))
          attempts += 1
          if rc == 0:
            break
          if rc == -999:
            # the whole run hit the wall-clock limit of one harness invocation (large n, loaded machine): not a property of the
            # library (hangs inside a case are caught by the per-case watchdog of the harness) - resume after the last case seen
            last = None
            for l in open(lines, errors="replace"):
                t = l.split(" ", 1)[0]
                if t.isdigit():
                    last = int(t)
            if last is not None and last + 1 > start and attempts < 25:
                start = last + 1
                notes.append("harness %s seed %s resumed at case %d after the per-invocation time limit" % (hname, s, start))
                continue
          if rc == 99 and only is None and slow_reruns < 2:
            # the per-case CPU budget ran out.  Slow is not wrong: the case is run again on its own with six times the budget; if it
            # finishes, its lines replace the partial ones and the run goes on after it.  Only a case that does not finish then
            # either (or a third case running out of budget in one run) is reported as a hang.
            m0 = None
            for l in open(lines, errors="replace"):
                if l.startswith("#died"):
                    m0 = re.search(r"case=(\d+)", l)
            if m0:
                c = int(m0.group(1))
                slow_reruns += 1
                one = lines + ".case%d" % c
                env2 = dict(henv or {}); env2["LPV_TIMEOUT_SCALE"] = "6"
                rc2, err2 = lpv.run_harness(exes[hname], s, n, one, only=c, extra_env=env2, timeout=3600)
                if rc2 == 0:
                    kept = [l for l in open(lines, errors="replace") if not l.startswith("#died") and l.split(" ", 1)[0] != str(c)]
                    with open(lines, "w") as fo:
                        fo.writelines(kept)
                        fo.writelines(open(one, errors="replace").readlines())
                    notes.append("harness %s seed %s case %d is slow: it ran out of the per-case CPU budget and finished within six times that budget" % (hname, s, c))
                    start = c + 1
                    continue
                rc, err = rc2, err2
                with open(lines, "a") as fo:
                    fo.writelines([l for l in open(one, errors="replace") if l.startswith("#died")])
          if True:
            died = None
            for l in open(lines, errors="replace"):
                if l.startswith("#died"):
                    died = l.strip()
            kind = "timeout" if rc == -999 else "hang" if rc == 99 else ("sanitizer" if rc in (86, 87, 88) or "Sanitizer" in err or "runtime error" in err else "crash")
            summ = ""
            m = re.search(r"(ERROR: \w+Sanitizer: [^\n]*|runtime error: [^\n]*|SUMMARY: [^\n]*)", err)
            if m:
                summ = m.group(1)
            crashes.append({"harness": hname, "seed": s, "n": n, "rc": rc, "kind": kind, "died": died, "summary": summ, "stderr_tail": err[-1500:]})
            m2 = re.search(r"case=(\d+)", died or "")
            if only is not None or not m2 or attempts >= 25 or rc == -999:
                break
            start = int(m2.group(1)) + 1     # resume after the case that died
        dout = os.path.join(scratch, "%s-%s.verdicts" % (hname, s))
        drc, derr = lpv.run_driver(lines, dout)
        if drc != 0:
            notes.append("driver failed rc=%s %s" % (drc, derr[-300:]))
            p = save_replay(prop, "driver", {"kind": "driver-failed", "stderr": derr[-2000:]})
            print("VIOLATION property=%s replay=%s no-failing-input-found" % (prop, p))
            write_ev(prop, cfg, tier, seed, t0, ev_cov, 1, notes)
            return 1
        res = lpv.parse_driver(dout)
        total_eval += res["total"]
        for k, v in res["branches"].items():
            branches[k] = branches.get(k, 0) + v
        skipped += len(res["skip"])
        for v in res["viol"]:
            v.update({"harness": hname, "seed": s, "n": n, "env": henv})
            viols.append(v)
        for v in res["disagree"]:
            v.update({"harness": hname, "seed": s, "n": n, "env": henv})
            disagreements.append(v)
        # distinct non-trivial inputs + samples, measured from the lines themselves
        sel = cfg.get("select")
        nt = cfg.get("nontrivial")
        k = 0
        for l in open(lines, errors="replace"):
            if l.startswith("#"):
                continue
            parts = l.rstrip("\n").split(" => ")
            if len(parts) != 2:
                continue
            toks = parts[0].split(" ")
            if len(toks) < 3:
                continue
            if sel and not sel(toks):
                continue
            key = " ".join(toks[1:])
            if nt is None or nt(toks, parts[1].split(" ")):
                nontrivial.add(hash(key))
            if k % 997 == 0 and len(samples) < 12:
                samples.append(" ".join(toks[1:]) + " => " + parts[1])
            k += 1
        if res["skip"][:3]:
            notes.append("skipped (outside modelled domain / fuel): %d e.g. %s" % (len(res["skip"]), res["skip"][0]["msg"][:100]))

    # ---------------------------------------------------------------- classify
    def is_known(v):
        for kf in known:
            if kf.get("cls") and v.get("cls") != kf["cls"]:
                continue
            pat = kf.get("match")
            if pat and not re.search(pat, v.get("line", "") + " " + v.get("died", "")):
                continue
            return kf
        return None

    if cfg.get("viol_filter"):
        viols = cfg["viol_filter"](viols)
    reported = 0
    seen_cls = {}
    for v in viols:
        kf = is_known(v)
        if kf:
            if kf["id"] not in [k["id"] for k in known_hits]:
                known_hits.append(kf)
            continue
        c = v.get("cls", "?")
        seen_cls[c] = seen_cls.get(c, 0) + 1
        if seen_cls[c] > 1:
            continue            # one replay per class is enough
        p = save_replay(prop, "%s_%s_%s" % (c, v["seed"], v["case"]), {
            "kind": "property-violated-on-input", "property": prop, "class": c, "harness": v["harness"], "seed": v["seed"],
            "n": v["n"], "case": int(v["case"]) if v["case"].isdigit() else None, "env": v.get("env"),
            "observation": v["line"], "verdict": v["msg"],
            "how": "python3 tools/check.py %s --replay <this file>" % prop})
        print("VIOLATION property=%s replay=%s" % (prop, p))
        reported += 1
    seen_crash = set()
    for c in crashes:
        v = {"cls": "crash-" + c["kind"], "line": (c.get("died") or "") + " " + c.get("summary", ""), "died": c.get("died") or ""}
        mm = re.search(r"during: \d+ (\S+ \S+)", c.get("died") or "")
        sig = (c["kind"], mm.group(1) if mm else c.get("summary", ""))
        if sig in seen_crash:
            continue
        seen_crash.add(sig)
        kf = is_known(v)
        if kf:
            if kf["id"] not in [k["id"] for k in known_hits]:
                known_hits.append(kf)
            continue
        case = None
        m = re.search(r"case=(\d+)", c.get("died") or "")
        if m:
            case = int(m.group(1))
        p = save_replay(prop, "crash_%s_%s" % (c["seed"], case), {
            "kind": "crash-or-sanitizer-report", "property": prop, "harness": c["harness"], "seed": c["seed"], "n": c["n"],
            "case": case, "detail": c})
        print("VIOLATION property=%s replay=%s" % (prop, p))
        reported += 1
    for kf in known_hits:
        print("KNOWN-FINDING: property=%s %s" % (prop, kf.get("what", kf["id"])))
    if reported == 0:
        # model/code correspondence or proof obligation broken without a failing input
        reasons = []
        if disagreements:
            reasons.append({"correspondence": [d["line"] + " :: " + d["msg"] for d in disagreements[:10]]})
        if bad_thms or proof_broken:
            reasons.append({"theorems_not_checked": [b.get("theorem") for b in bad_thms] + proof_broken})
        if forb:
            reasons.append({"forbidden_tokens": forb})
        if obligations == 0 and cfg.get("lean_targets"):
            reasons.append({"audit": "no theorem audited"})
        if reasons:
            p = save_replay(prop, "unproved", {"kind": "no-failing-input-found", "property": prop, "reasons": reasons,
                                               "searched": {"evaluations": total_eval, "harnesses": [r[0] for r in runs]}})
            print("VIOLATION property=%s replay=%s no-failing-input-found" % (prop, p))
            reported += 1

    ev_cov.update({
        "evaluations": total_eval,
        "distinct_nontrivial": len(nontrivial),
        "rule": cfg.get("rule", ""),
        "samples": samples or ["(none)"],
        "traces_validated_against_impl": total_eval,
        "model_branches_hit": dict(sorted(branches.items())),
        "skipped_inconclusive": skipped,
        "disagreements_model_vs_impl": len(disagreements),
        "violating_observations": len(viols),
        "crashes": len(crashes),
        "known_findings_hit": [k["id"] for k in known_hits],
        "exhaustive": False,
    })
    write_ev(prop, cfg, tier, seed, t0, ev_cov, reported, notes)
    return 1 if reported else 0


def write_ev(prop, cfg, tier, seed, t0, cov, nviol, notes):
    ev = {
        "property_id": prop, "tier": tier, "seed": seed, "level": cfg.get("level", "proof"),
        "coverage": cov, "assumptions": cfg.get("assumptions", []) + notes,
        "wall_s": round(time.time() - t0, 2), "violations": nviol,
    }
    lpv.write_evidence(prop, ev)


if __name__ == "__main__":
    sys.exit(main())
