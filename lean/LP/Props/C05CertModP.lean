/-
  C05 — the verdict "irreducible modulo a prime" of the validator is sound end to end (`C05_certModP_sound`): for a primitive
  coefficient list, if `certModP` finds a prime of its table that does not divide the leading coefficient and modulo which the
  exhaustive trial division finds no divisor, the denoted polynomial is irreducible in ℤ[X].  Chain: the primes of the table are
  prime (norm_num), reading the list modulo q is the reduction of the polynomial (`map_toPolyZ`), the list's leading
  coefficient is the polynomial's (`leadingCoeff_toPolyZ`), `irreducibleFp_sound`, `C05_irreducible_of_mod_p`.
-/
import LP.Props.C05FpIrr
import LP.Props.C05ModP
import LP.Props.C05
import Mathlib.Tactic.NormNum.Prime

set_option linter.unusedSectionVars false

namespace LP
open Polynomial Factor FPoly

/-- reducing the coefficients modulo q is reading the same list modulo q -/
theorem map_toPolyZ (q : Nat) (f : List Int) :
    (toPolyZ f).map (Int.castRingHom (ZMod q)) = toPolyF q f := by
  induction f with
  | nil => simp [toPolyZ_nil, toPolyF_nil]
  | cons c f ih =>
    rw [toPolyZ_cons, toPolyF_cons, Polynomial.map_add, Polynomial.map_mul, Polynomial.map_C, Polynomial.map_X, ih]
    simp

/-- irreducibility modulo a prime, with the hypothesis on the leading coefficient stated through degrees -/
theorem C05_irreducible_of_mod_p' (f : ℤ[X]) (hprim : f.IsPrimitive) (p : ℕ) [Fact p.Prime]
    (hdeg : (f.map (Int.castRingHom (ZMod p))).natDegree = f.natDegree)
    (hirr : Irreducible (f.map (Int.castRingHom (ZMod p)))) : Irreducible f := by
  refine C05_irreducible_of_mod_p f hprim p ?_ hirr
  intro h0
  -- the leading coefficient vanishes modulo p: the degree drops, or the reduction is zero
  have hf0 : f ≠ 0 := fun h => by
    apply hirr.ne_zero; rw [h]; simp
  have hm0 : f.map (Int.castRingHom (ZMod p)) ≠ 0 := hirr.ne_zero
  have hc : (f.map (Int.castRingHom (ZMod p))).coeff f.natDegree = 0 := by
    rw [coeff_map]; simpa using h0
  have : (f.map (Int.castRingHom (ZMod p))).leadingCoeff = 0 := by
    rw [leadingCoeff, hdeg]; exact hc
  exact hm0 (leadingCoeff_eq_zero.1 this)


theorem toPolyZ_append (a b : List Int) : toPolyZ (a ++ b) = toPolyZ a + X ^ a.length * toPolyZ b := by
  induction a with
  | nil => simp [toPolyZ_nil]
  | cons x a ih =>
    rw [List.cons_append, toPolyZ_cons, toPolyZ_cons, ih, List.length_cons, pow_succ]
    ring

theorem coeff_toPolyZ_of_ge (q : List Int) : ∀ m, q.length ≤ m → (toPolyZ q).coeff m = 0 := by
  induction q with
  | nil => intro m _; simp [toPolyZ_nil]
  | cons c q ih =>
    intro m hm
    rw [List.length_cons] at hm
    obtain ⟨m', rfl⟩ : ∃ m', m = m' + 1 := ⟨m - 1, by omega⟩
    rw [toPolyZ_cons, coeff_add, coeff_C_succ, zero_add, coeff_X_mul]
    exact ih m' (by omega)

theorem zTrim_last_ne_zero (f : List Int) (c : Int) (h : (zTrim f).getLast? = some c) : c ≠ 0 := by
  unfold zTrim at h
  rw [List.getLast?_reverse] at h
  have hd : ∀ l : List Int, ∀ x, (l.dropWhile (· = 0)).head? = some x → x ≠ 0 := by
    intro l
    induction l with
    | nil => intro x hx; simp at hx
    | cons a l ih =>
      intro x hx
      by_cases ha : a = 0
      · rw [List.dropWhile_cons_of_pos (by simpa using ha)] at hx; exact ih x hx
      · rw [List.dropWhile_cons_of_neg (by simpa using ha)] at hx
        simp only [List.head?_cons, Option.some.injEq] at hx
        rw [← hx]; exact ha
  exact hd _ c h

/-- the leading coefficient read off the list is the leading coefficient of the denoted polynomial -/
theorem leadingCoeff_toPolyZ (f : List Int) : (toPolyZ f).leadingCoeff = zLc f := by
  unfold zLc
  rw [← toPolyZ_trim f]
  rcases List.eq_nil_or_concat (zTrim f) with h | ⟨init, c, h⟩
  · rw [h]; simp [toPolyZ_nil]
  · have hl : (zTrim f).getLast? = some c := by rw [h]; simp
    have hc0 := zTrim_last_ne_zero f c hl
    rw [hl, Option.getD_some, h, List.concat_eq_append, toPolyZ_append, toPolyZ_cons, toPolyZ_nil, mul_zero, add_zero]
    have hC : (C c : ℤ[X]) ≠ 0 := fun h0 => hc0 (C_eq_zero.1 h0)
    have hdeg1 : (toPolyZ init).degree < (X ^ init.length * C c : ℤ[X]).degree := by
      rw [degree_mul, degree_X_pow, degree_C hc0, add_zero]
      exact (degree_lt_iff_coeff_zero _ _).2 (fun m hm => coeff_toPolyZ_of_ge init m hm)
    rw [leadingCoeff_add_of_degree_lt hdeg1, leadingCoeff_mul, leadingCoeff_X_pow, one_mul, leadingCoeff_C]

/-- **the verdict "irreducible modulo a prime" of the validator is sound**: a primitive coefficient list accepted by
    `certModP` denotes an irreducible polynomial of ℤ[X] -/
theorem C05_certModP_sound (f : List Int) (q : Nat) (h : certModP f = some q) (hprim : (toPolyZ f).IsPrimitive) :
    Irreducible (toPolyZ f) := by
  unfold certModP at h
  have hmem := List.mem_of_find?_eq_some h
  have hpred := List.find?_some h
  simp only [Bool.and_eq_true, decide_eq_true_eq, beq_iff_eq, ne_eq] at hpred
  obtain ⟨hlc, hirr⟩ := hpred
  have hq : q.Prime := by
    simp only [smallPrimes, List.mem_cons, List.not_mem_nil, or_false] at hmem
    rcases hmem with rfl | rfl | rfl | rfl | rfl | rfl | rfl | rfl | rfl <;> norm_num
  have : Fact q.Prime := ⟨hq⟩
  have hF := irreducibleFp_sound q f hirr
  rw [← map_toPolyZ] at hF
  refine C05_irreducible_of_mod_p (toPolyZ f) hprim q ?_ hF
  rw [leadingCoeff_toPolyZ]
  intro h0
  apply hlc
  exact Int.emod_eq_zero_of_dvd ((ZMod.intCast_zmod_eq_zero_iff_dvd _ q).1 h0)

end LP
