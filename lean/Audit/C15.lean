import LP.Props.C15
#print axioms LP.QI.C15_add
#print axioms LP.QI.C15_neg
#print axioms LP.QI.C15_sub
#print axioms LP.QI.C15_mul
#print axioms LP.QI.C15_pow
#print axioms LP.QI.C15_sgn
#print axioms LP.QI.C15_exact_points
#print axioms LP.QI.C15_real
