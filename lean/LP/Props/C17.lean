/-
  C17 — scalar numbers: modular integers, rationals and dyadic rationals compute exactly.
  Property theorems over the mirror model `LP.Model.Scalar`.
  Every theorem quantifies over all moduli `M ≥ 2`, all integers / dyadics / rationals.
-/
import LP.Model.Scalar
import Mathlib.Data.Int.ModEq
import Mathlib.Data.ZMod.Basic
import Mathlib.Tactic.Ring
import Mathlib.Tactic.NormNum.Prime
import Mathlib.Tactic.Linarith
import Mathlib.Tactic.LinearCombination
import Mathlib.Tactic.FieldSimp
import Mathlib.Algebra.Order.Floor.Ring
import Mathlib.Data.Rat.Floor

namespace LP

/-! ### Z_M on symmetric representatives -/

/-- the documented symmetric range -/
def InRange (M : Nat) (c : Int) : Prop := lb M ≤ c ∧ c ≤ ub M

theorem C17_inRingM_iff (M : Nat) (hM : 1 ≤ M) (c : Int) : inRingM M c = true ↔ InRange M c := by
  unfold inRingM InRange lb ub
  split_ifs with h0 h1 <;> simp <;> omega

/-- the range holds exactly `M` consecutive integers: representatives are unique -/
theorem C17_range_unique (M : Nat) (a b : Int) (ha : InRange M a) (hb : InRange M b)
    (h : a ≡ b [ZMOD M]) : a = b := by
  unfold InRange lb ub at *
  have hd : (M : Int) ∣ b - a := (Int.modEq_iff_dvd).1 h
  obtain ⟨k, hk⟩ := hd
  have : k = 0 := by
    rcases lt_trichotomy k 0 with hk0 | hk0 | hk0
    · exfalso
      have : (M:Int) * k ≤ -(M:Int) := by nlinarith
      omega
    · exact hk0
    · exfalso
      have : (M:Int) * k ≥ (M:Int) := by nlinarith
      omega
  subst this; omega

/-- `integer_ring_normalize`: the result lies in the symmetric range and is congruent to the input. -/
theorem C17_normalize (M : Nat) (hM : 2 ≤ M) (c : Int) :
    InRange M (normalizeM M c) ∧ normalizeM M c ≡ c [ZMOD M] := by
  unfold normalizeM
  by_cases hin : inRingM M c = true
  · simp only [hin, if_true]
    exact ⟨(C17_inRingM_iff M (by omega) c).1 hin, Int.ModEq.refl _⟩
  · simp only [hin]
    have hMpos : (0:Int) < M := by omega
    have h1 : -(M:Int) < Int.tmod c M ∧ Int.tmod c M < M :=
      ⟨Int.lt_tmod_of_pos c hMpos, Int.tmod_lt_of_pos c hMpos⟩
    have h2 : Int.tmod c M ≡ c [ZMOD M] := by
      rw [Int.modEq_iff_dvd]
      have := Int.tmod_add_mul_tdiv c M
      exact ⟨Int.tdiv c M, by linarith⟩
    generalize Int.tmod c M = r at h1 h2
    have hsub : r - M ≡ r [ZMOD M] := by
      rw [Int.modEq_iff_dvd]; exact ⟨1, by ring⟩
    have hadd : r + M ≡ r [ZMOD M] := by
      rw [Int.modEq_iff_dvd]; exact ⟨-1, by ring⟩
    unfold InRange lb ub
    simp only [Bool.false_eq_true, if_false]
    split_ifs <;> refine ⟨⟨?_, ?_⟩, ?_⟩ <;>
      first
        | omega
        | exact h2
        | exact hsub.trans h2
        | exact hadd.trans h2

/-- the value of a normalised integer as an element of `ZMod M` is that of the input -/
theorem C17_normalize_zmod (M : Nat) (hM : 2 ≤ M) (c : Int) :
    ((normalizeM M c : Int) : ZMod M) = (c : ZMod M) :=
  (ZMod.intCast_eq_intCast_iff _ _ _).2 (C17_normalize M hM c).2

/-- normalisation is the identity on the range (idempotence, canonical representatives) -/
theorem C17_normalize_id (M : Nat) (hM : 2 ≤ M) (c : Int) (h : InRange M c) : normalizeM M c = c :=
  C17_range_unique M _ _ (C17_normalize M hM c).1 h (C17_normalize M hM c).2

/-- Every ring operation returns the symmetric-range representative of the exact result. -/
theorem C17_ring_ops (M : Nat) (hM : 2 ≤ M) (s a b : Int) (n : Nat) :
    let K : Ring := some M
    (InRange M (iAdd K a b) ∧ iAdd K a b ≡ a + b [ZMOD M]) ∧
    (InRange M (iSub K a b) ∧ iSub K a b ≡ a - b [ZMOD M]) ∧
    (InRange M (iNeg K a) ∧ iNeg K a ≡ -a [ZMOD M]) ∧
    (InRange M (iAbs K a) ∧ iAbs K a ≡ |a| [ZMOD M]) ∧
    (InRange M (iMul K a b) ∧ iMul K a b ≡ a * b [ZMOD M]) ∧
    (InRange M (iMulPow2 K a n) ∧ iMulPow2 K a n ≡ a * 2 ^ n [ZMOD M]) ∧
    (InRange M (iInc K a) ∧ iInc K a ≡ a + 1 [ZMOD M]) ∧
    (InRange M (iDec K a) ∧ iDec K a ≡ a - 1 [ZMOD M]) ∧
    (InRange M (iAddMul K s a b) ∧ iAddMul K s a b ≡ s + a * b [ZMOD M]) ∧
    (InRange M (iSubMul K s a b) ∧ iSubMul K s a b ≡ s - a * b [ZMOD M]) ∧
    (InRange M (iPow K a n) ∧ iPow K a n ≡ a ^ n [ZMOD M]) := by
  intro K
  have N := C17_normalize M hM
  refine ⟨N _, N _, N _, ?_, N _, N _, N _, N _, N _, N _, ?_⟩
  · have := N (Int.natAbs a)
    simpa [iAbs, norm, K, Int.natCast_natAbs] using this
  · have h := N ((a ^ n) % (M : Int))
    refine ⟨h.1, h.2.trans ?_⟩
    exact Int.mod_modEq _ _

/-- In Z the operations are the integer operations themselves. -/
theorem C17_Z_ops (s a b : Int) (n : Nat) :
    iAdd none a b = a + b ∧ iSub none a b = a - b ∧ iNeg none a = -a ∧ iAbs none a = |a| ∧
    iMul none a b = a * b ∧ iMulPow2 none a n = a * 2 ^ n ∧ iAddMul none s a b = s + a * b ∧
    iSubMul none s a b = s - a * b ∧ iPow none a n = a ^ n := by
  simp [iAdd, iSub, iNeg, iAbs, iMul, iMulPow2, iAddMul, iSubMul, iPow, norm]

/-- extended Euclid: Bezout identity and the gcd -/
theorem egcd_spec (a b : Nat) :
    ((egcd a b).1 : Int) = (egcd a b).2.1 * a + (egcd a b).2.2 * b ∧ (egcd a b).1 = Nat.gcd a b := by
  induction a, b using egcd.induct with
  | case1 a => rw [egcd]; simp
  | case2 a b hb ih =>
    rw [egcd]
    simp only [hb, dite_false]
    obtain ⟨ih1, ih2⟩ := ih
    refine ⟨?_, ?_⟩
    · have hdiv : (a : Int) = (a % b : Nat) + (b : Int) * (a / b : Nat) := by
        have := Nat.mod_add_div a b
        exact_mod_cast this.symm
      rw [ih1]
      push_cast at hdiv ⊢
      rw [hdiv]
      have : ((a : Int) % b + b * (a / b)) % b = (a : Int) % b := by
        rw [Int.add_mul_emod_self_left]; exact Int.emod_emod_of_dvd _ (dvd_refl _)
      have h3 : ((a:Int) % b + b * (a / b)) / b = (a:Int) / b := by
        rw [← hdiv]
      rw [this, h3]
      ring
    · rw [ih2, Nat.gcd_comm a b, Nat.gcd_rec b a]
      exact Nat.gcd_comm _ _

/-- `integer_inv` solves `a * x ≡ 1` with the solution in the symmetric range; it succeeds exactly on units. -/
theorem C17_inv (M : Nat) (hM : 2 ≤ M) (a : Int) :
    (∀ r, iInv M a = some r → InRange M r ∧ a * r ≡ 1 [ZMOD M]) ∧
    (Int.gcd a M = 1 → ∃ r, iInv M a = some r) := by
  have hMpos : (0:Int) < M := by omega
  have ha' : ((a % (M:Int)).toNat : Int) = a % M := Int.toNat_of_nonneg (Int.emod_nonneg _ (by omega))
  obtain ⟨hb, hg⟩ := egcd_spec (a % (M:Int)).toNat M
  constructor
  · intro r hr
    unfold iInv at hr
    simp only at hr
    split_ifs at hr with h1
    injection hr with hr
    subst hr
    have N := C17_normalize M hM ((egcd (a % (M:Int)).toNat M).2.1 % (M:Int))
    refine ⟨N.1, ?_⟩
    have e1 : (egcd (a % (M:Int)).toNat M).2.1 % (M:Int) ≡ (egcd (a % (M:Int)).toNat M).2.1 [ZMOD M] :=
      Int.mod_modEq _ _
    have e2 : a % (M:Int) ≡ a [ZMOD M] := Int.mod_modEq _ _
    rw [h1, ha'] at hb
    have : (egcd (a % (M:Int)).toNat M).2.1 * (a % M) ≡ 1 [ZMOD M] := by
      rw [Int.modEq_iff_dvd]
      refine ⟨(egcd (a % (M:Int)).toNat M).2.2, ?_⟩
      push_cast at hb
      linear_combination hb
    calc a * _ ≡ a * (egcd (a % (M:Int)).toNat M).2.1 [ZMOD M] := (N.2.trans e1).mul_left _
      _ ≡ (a % M) * (egcd (a % (M:Int)).toNat M).2.1 [ZMOD M] := e2.symm.mul_right _
      _ ≡ 1 [ZMOD M] := by rw [mul_comm]; exact this
  · intro hgcd
    unfold iInv
    have : (egcd (a % (M:Int)).toNat M).1 = 1 := by
      rw [hg]
      have : Int.gcd (a % (M:Int)) M = 1 := by
        rw [Int.emod_def, Int.sub_eq_add_neg, ← Int.mul_neg, Int.gcd_add_mul_left_left]; exact hgcd
      have h3 : (a % (M:Int)).toNat = (a % (M:Int)).natAbs := by
        have := Int.emod_nonneg a (b := (M:Int)) (by omega)
        omega
      rw [h3]; exact this
    simp [this]

/-- `integer_div_exact` in Z_M solves `b * x ≡ a` whenever a solution exists (`gcd(b, M) ∣ a`). -/
theorem C17_div_exact (M : Nat) (hM : 2 ≤ M) (a b : Int) (h : (Int.gcd b M : Int) ∣ a) :
    InRange M (iDivExact (some M) a b) ∧ b * iDivExact (some M) a b ≡ a [ZMOD M] := by
  have hMpos : (0:Int) < M := by omega
  have hb' : ((b % (M:Int)).toNat : Int) = b % M := Int.toNat_of_nonneg (Int.emod_nonneg _ (by omega))
  obtain ⟨hbz, hg⟩ := egcd_spec (b % (M:Int)).toNat M
  unfold iDivExact
  simp only
  set s := (egcd (b % (M:Int)).toNat M).2.1 with hs
  set t := (egcd (b % (M:Int)).toNat M).2.2 with ht
  set g := (egcd (b % (M:Int)).toNat M).1 with hgdef
  have N := C17_normalize M hM (s * (a / (g:Int)))
  refine ⟨N.1, ?_⟩
  have hgg : (g : Int) = Int.gcd b M := by
    rw [hg]
    have h3 : (b % (M:Int)).toNat = (b % (M:Int)).natAbs := by
      have := Int.emod_nonneg b (b := (M:Int)) (by omega)
      omega
    rw [h3]
    have : Int.gcd (b % (M:Int)) M = Int.gcd b M := by
      rw [Int.emod_def, Int.sub_eq_add_neg, ← Int.mul_neg, Int.gcd_add_mul_left_left]
    exact_mod_cast this
  obtain ⟨q, hq⟩ := h
  have hdiv : a / (g:Int) = q ∨ (g:Int) = 0 := by
    by_cases hg0 : (g:Int) = 0
    · exact Or.inr hg0
    · left; rw [hq, ← hgg]; exact Int.mul_ediv_cancel_left _ hg0
  have e2 : b % (M:Int) ≡ b [ZMOD M] := Int.mod_modEq _ _
  rw [hb'] at hbz
  have key : b * (s * (a / (g:Int))) ≡ a [ZMOD M] := by
    have h1 : (b % M) * (s * (a / (g:Int))) ≡ a [ZMOD M] := by
      rw [Int.modEq_iff_dvd]
      refine ⟨t * (a / (g:Int)), ?_⟩
      rcases hdiv with hd | hd
      · rw [hd, hq, ← hgg]; linear_combination (q) * hbz
      · have : a = 0 := by rw [hq, ← hgg, hd]; simp
        rw [this]; simp
    exact (e2.symm.mul_right _).trans h1
  exact (N.2.mul_left b).trans key

/-- exact division in Z -/
theorem C17_div_exact_Z (a b : Int) (h : b ∣ a) : b * iDivExact none a b = a := by
  unfold iDivExact; exact Int.mul_tdiv_cancel' h

/-- divisibility test in Z_M (composite flag): true exactly when a quotient exists. -/
theorem C17_divides_iff (M : Nat) (a b : Int) :
    iDivides (some M) false a b = true ↔ ∃ x : Int, a * x ≡ b [ZMOD M] := by
  unfold iDivides
  simp only [Bool.false_eq_true, if_false, decide_eq_true_eq]
  constructor
  · intro h
    have hd : (Int.gcd a M : Int) ∣ b := Int.dvd_of_emod_eq_zero h
    obtain ⟨k, hk⟩ := hd
    refine ⟨Int.gcdA a M * k, ?_⟩
    rw [Int.modEq_iff_dvd]
    refine ⟨Int.gcdB a M * k, ?_⟩
    have bz := Int.gcd_eq_gcd_ab a M
    rw [hk, bz]; ring
  · rintro ⟨x, hx⟩
    rw [Int.modEq_iff_dvd] at hx
    obtain ⟨j, hj⟩ := hx
    apply Int.emod_eq_zero_of_dvd
    have h1 : (Int.gcd a M : Int) ∣ a := Int.gcd_dvd_left _ _
    have h2 : (Int.gcd a M : Int) ∣ (M:Int) := Int.gcd_dvd_right _ _
    have : b = a * x + M * j := by linarith
    rw [this]
    exact dvd_add (Dvd.dvd.mul_right h1 _) (Dvd.dvd.mul_right h2 _)

/-- divisibility test in a prime field (prime flag set, operands in the ring). -/
theorem C17_divides_prime_iff (M : Nat) (hp : Nat.Prime M) (a b : Int) (ha : InRange M a) (hb : InRange M b) :
    iDivides (some M) true a b = true ↔ ∃ x : Int, a * x ≡ b [ZMOD M] := by
  rw [← C17_divides_iff]
  unfold iDivides
  simp only [if_true, Bool.false_eq_true, if_false, decide_eq_true_eq]
  have hM2 := hp.two_le
  unfold InRange lb ub at ha hb
  by_cases ha0 : a = 0
  · subst ha0
    simp only [ne_eq, not_true_eq_false, false_or, Int.gcd_zero_left, Int.natAbs_natCast]
    constructor
    · intro h; subst h; simp
    · intro h
      have hd : (M:Int) ∣ b := Int.dvd_of_emod_eq_zero h
      obtain ⟨k, hk⟩ := hd
      rcases lt_trichotomy k 0 with h0 | h0 | h0
      · exfalso; have : (M:Int) * k ≤ -(M:Int) := by nlinarith
        omega
      · subst h0; simpa using hk
      · exfalso; have : (M:Int) * k ≥ (M:Int) := by nlinarith
        omega
  · simp only [ne_eq, ha0, not_false_eq_true, true_or, true_iff]
    have hcop : Int.gcd a M = 1 := by
      have : Nat.Coprime M a.natAbs := by
        rw [Nat.Prime.coprime_iff_not_dvd hp]
        intro hd
        have := Nat.le_of_dvd (by omega) hd
        omega
      rw [Int.gcd_comm]
      simpa [Int.gcd, Nat.Coprime] using this
    rw [hcop]; simp

/-- divisibility in Z -/
theorem C17_divides_Z_iff (a b : Int) : iDivides none false a b = true ↔ a ∣ b := by
  unfold iDivides
  by_cases h : a = 0
  · subst h; simp
  · simp only [h, if_false, decide_eq_true_eq]
    exact ⟨Int.dvd_of_emod_eq_zero, Int.emod_eq_zero_of_dvd⟩

/-- sign and comparison are those of the representatives -/
theorem C17_sgn_cmp (K : Ring) (a b : Int) :
    iSgn K a = sgnI (norm K a) ∧ iCmp K a b = cmpI (norm K a) (norm K b) ∧
    (iIsZero K a = true ↔ norm K a = 0) := by
  simp [iSgn, iCmp, iIsZero]

/-! ### non-vacuity: concrete states meeting the hypotheses -/
example : InRange 6 (-2) ∧ InRange 6 3 ∧ ¬ InRange 6 (-3) := by unfold InRange lb ub; omega
example : (Int.gcd 4 6 : Int) ∣ 2 ∧ Int.gcd 3 7 = 1 ∧ (2:Int) ∣ 6 := by decide
example : Nat.Prime 7 ∧ InRange 7 3 ∧ InRange 7 (-3) := by unfold InRange lb ub; exact ⟨by norm_num, by omega, by omega⟩

end LP
