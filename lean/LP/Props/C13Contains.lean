/-
  C13 — membership by binary search (`lp_feasibility_set_contains`).  For every list of non-empty, increasing, pairwise
  separated intervals (the normal form) and every finite value, the binary search answers true exactly when the value lies in
  the denoted set (`C13_contains`).
-/
import LP.Props.C13

set_option linter.unusedSectionVars false

namespace LP

variable {α : Type*} [Field α] [LinearOrder α] [IsStrictOrderedRing α]

namespace FSet
open VI

/-- point intervals are closed and finite (part of well-formedness) -/
def PointOK (I : VI) : Prop := I.isPoint = true → (∃ a, I.a = .fin a) ∧ I.aOpen = false ∧ I.bOpen = false

theorem lower_fail (e : EP) (o : Bool) (x y : α) (hx : ¬ lowerOK e o x) (hy : lowerOK e o y) : x < y := by
  rcases e with _ | a | _
  · exact absurd trivial hx
  · simp only [lowerOK] at hx hy
    cases o <;> simp only [Bool.false_eq_true, if_false, if_true, not_le, not_lt] at hx hy <;> linarith
  · exact absurd hy id

theorem upper_fail (e : EP) (o : Bool) (x y : α) (hx : ¬ upperOK e o x) (hy : upperOK e o y) : y < x := by
  rcases e with _ | a | _
  · exact absurd hy id
  · simp only [upperOK] at hx hy
    cases o <;> simp only [Bool.false_eq_true, if_false, if_true, not_le, not_lt] at hx hy <;> linarith
  · exact absurd trivial hx

/-- `lp_interval_cmp_value` on a finite value: 0 inside, positive when the value lies below the whole interval, negative when
    it lies above -/
theorem cmpValue_sem (I : VI) (q : Rat) (hw : PointOK I) :
    (cmpValue I (.fin q) = 0 ↔ I.Mem ((q : ℚ) : α)) ∧
    (cmpValue I (.fin q) > 0 → ∀ y : α, I.Mem y → ((q : ℚ) : α) < y) ∧
    (cmpValue I (.fin q) < 0 → ∀ y : α, I.Mem y → y < ((q : ℚ) : α)) := by
  have h0 : cmpValue I (.fin q) = 0 ↔ I.Mem ((q : ℚ) : α) := by
    have := C13_contains_interval (α := α) I q hw
    unfold VI.contains at this
    simpa using this
  refine ⟨h0, ?_, ?_⟩
  · intro hpos y hy
    unfold cmpValue at hpos
    by_cases hp : I.isPoint = true
    · obtain ⟨⟨a, ha⟩, ho1, ho2⟩ := hw hp
      simp only [hp, if_true, ha, EP.cmp_fin] at hpos
      have hqa : q < a := (cmpQ_gt a q).1 hpos
      have hya : (a : α) ≤ y := by
        have := hy.1
        simp only [lower, ha, ho1, lowerOK, Bool.false_eq_true, if_false] at this
        exact this
      have : (q : α) < (a : α) := by exact_mod_cast hqa
      linarith
    · have hp' : I.isPoint = false := by simpa using hp
      simp only [hp', Bool.false_eq_true, if_false] at hpos
      -- the value fails the lower bound
      have hfail : ¬ lowerOK I.a I.aOpen ((q : ℚ) : α) := by
        rw [← cmp_lower_ok (α := α) I.a I.aOpen q]
        intro hh
        cases hao : I.aOpen <;> simp only [hao, Bool.false_eq_true, false_and, true_and, not_false_eq_true, not_true_eq_false,
          and_true, true_and, not_le, not_lt, ge_iff_le, gt_iff_lt] at hh hpos <;> split_ifs at hpos <;> omega
      exact lower_fail _ _ _ _ hfail hy.1
  · intro hneg y hy
    unfold cmpValue at hneg
    by_cases hp : I.isPoint = true
    · obtain ⟨⟨a, ha⟩, ho1, ho2⟩ := hw hp
      simp only [hp, if_true, ha, EP.cmp_fin] at hneg
      have hqa : a < q := (cmpQ_lt a q).1 hneg
      have hya : y ≤ (a : α) := by
        have := hy.2
        simp only [upper, hp, if_true, ha, ho2, upperOK, Bool.false_eq_true, if_false] at this
        exact this
      have : (a : α) < (q : α) := by exact_mod_cast hqa
      linarith
    · have hp' : I.isPoint = false := by simpa using hp
      simp only [hp', Bool.false_eq_true, if_false] at hneg
      have hfail : ¬ upperOK I.b I.bOpen ((q : ℚ) : α) := by
        rw [← cmp_upper_ok (α := α) I.b I.bOpen q]
        intro hh
        cases hao : I.aOpen <;> cases hbo : I.bOpen <;>
          simp only [hao, hbo, Bool.false_eq_true, false_and, true_and, not_false_eq_true, not_true_eq_false,
            and_true, true_and, not_le, not_lt, ge_iff_le, gt_iff_lt] at hh hneg <;> split_ifs at hneg <;> omega
      have hup : I.upper = I.b := by simp [upper, hp']
      have := hy.2
      rw [hup] at this
      exact upper_fail _ _ _ _ hfail this

/-- the `i`-th interval (default outside the list) -/
def nth (s : List VI) (i : Nat) : VI := s.getD i default

theorem getD_toArray (s : List VI) (i : Nat) : s.toArray.getD i default = nth s i := by
  unfold nth
  simp [Array.getD, List.getD]
  split <;> simp_all

theorem nth_eq (s : List VI) (i : Nat) (hi : i < s.length) : nth s i = s[i] := by
  unfold nth
  simp [List.getD, hi]

theorem sep_of_lt (s : List VI) (hn : NFw α s) (i j : Nat) (hij : i < j) (hj : j < s.length) :
    Sep α (nth s i) (nth s j) := by
  have hi : i < s.length := lt_trans hij hj
  have := List.pairwise_iff_getElem.1 hn.2 i j hi hj hij
  rw [nth_eq s i hi, nth_eq s j hj]
  exact this

theorem nonempty_nth (s : List VI) (hn : NFw α s) (i : Nat) (hi : i < s.length) : ∃ y : α, (nth s i).Mem y := by
  rw [nth_eq s i hi]
  exact hn.1 _ (List.getElem_mem hi)

theorem setMem_iff_nth (s : List VI) (x : α) : SetMem α s x ↔ ∃ i, i < s.length ∧ (nth s i).Mem x := by
  unfold SetMem
  constructor
  · rintro ⟨I, hI, hm⟩
    obtain ⟨i, hi, rfl⟩ := List.getElem_of_mem hI
    exact ⟨i, hi, by rw [nth_eq s i hi]; exact hm⟩
  · rintro ⟨i, hi, hm⟩
    rw [nth_eq s i hi] at hm
    exact ⟨_, List.getElem_mem hi, hm⟩

/-- invariant of the binary search: everything left of `l` lies below the value, everything from `r` on lies above it -/
theorem containsLoop_sem (s : List VI) (hn : NFw α s) (hw : ∀ I ∈ s, PointOK I) (q : Rat) :
    ∀ (fuel l r : Nat), r ≤ s.length → r - l < fuel →
      (∀ i, i < l → i < s.length → ¬ (nth s i).Mem ((q : ℚ) : α)) →
      (∀ i, r ≤ i → i < s.length → ¬ (nth s i).Mem ((q : ℚ) : α)) →
      (containsLoop s.toArray (.fin q) fuel l r = true ↔ SetMem α s ((q : ℚ) : α)) := by
  intro fuel
  induction fuel with
  | zero => intro l r _ h; omega
  | succ fuel ih =>
    intro l r hr hf hl hrr
    have hwn : ∀ i, i < s.length → PointOK (nth s i) := by
      intro i hi; rw [nth_eq s i hi]; exact hw _ (List.getElem_mem hi)
    unfold containsLoop
    by_cases hlr : r > l
    · rw [if_pos hlr]
      simp only
      rw [getD_toArray]
      have hm : l + (r - l) / 2 < s.length := by omega
      have hml : l ≤ l + (r - l) / 2 := by omega
      have hmr : l + (r - l) / 2 < r := by omega
      obtain ⟨c0, cpos, cneg⟩ := cmpValue_sem (α := α) (nth s (l + (r - l) / 2)) q (hwn _ hm)
      by_cases hc1 : cmpValue (nth s (l + (r - l) / 2)) (.fin q) > 0
      · rw [if_pos hc1]
        -- the value lies below the middle interval, hence below every later one
        refine ih l (l + (r - l) / 2) (by omega) (by omega) hl ?_
        intro i hi hil hmem
        rcases Nat.eq_or_lt_of_le hi with he | hlt
        · rw [← he] at hmem
          exact lt_irrefl _ (cpos hc1 _ hmem)
        · obtain ⟨y, hy⟩ := nonempty_nth s hn _ hm
          have h1 := cpos hc1 y hy
          have h2 := sep_of_lt s hn _ i hlt hil y _ hy hmem
          exact lt_irrefl _ (lt_trans h1 h2)
      · rw [if_neg hc1]
        by_cases hc2 : cmpValue (nth s (l + (r - l) / 2)) (.fin q) < 0
        · rw [if_pos hc2]
          refine ih (l + (r - l) / 2 + 1) r hr (by omega) ?_ hrr
          intro i hi hil hmem
          by_cases hil' : i < l
          · exact hl i hil' hil hmem
          · rcases Nat.eq_or_lt_of_le (Nat.lt_succ_iff.1 hi) with he | hlt
            · rw [he] at hmem
              exact lt_irrefl _ (cneg hc2 _ hmem)
            · obtain ⟨y, hy⟩ := nonempty_nth s hn _ hm
              have h1 := cneg hc2 y hy
              have h2 := sep_of_lt s hn i _ hlt hm _ y hmem hy
              exact lt_irrefl _ (lt_trans h2 h1)
        · rw [if_neg hc2]
          have h0 : cmpValue (nth s (l + (r - l) / 2)) (.fin q) = 0 := by omega
          simp only [true_iff]
          exact (setMem_iff_nth s _).2 ⟨_, hm, c0.1 h0⟩
    · rw [if_neg hlr]
      simp only [Bool.false_eq_true, false_iff]
      intro hmem
      obtain ⟨i, hi, hm⟩ := (setMem_iff_nth s _).1 hmem
      by_cases hil : i < l
      · exact hl i hil hi hm
      · exact hrr i (by omega) hi hm

/-- **Membership by binary search** agrees with the denoted set, for every feasibility set in normal form and every finite
    value. -/
theorem C13_contains (s : List VI) (hn : NFw α s) (hw : ∀ I ∈ s, PointOK I) (q : Rat) :
    FSet.contains s (.fin q) = true ↔ SetMem α s ((q : ℚ) : α) := by
  unfold FSet.contains
  exact containsLoop_sem s hn hw q (s.length + 1) 0 s.length (le_refl _) (by omega)
    (fun i hi => by omega) (fun i hi hil => by omega)

/-! non-vacuity: a two-interval set in normal form, probed inside, at an excluded end point and between the intervals -/
example : FSet.contains [VI.mk' .ninf true (.fin 0) false, VI.point (.fin 1)] (.fin 0) = true ∧
    FSet.contains [VI.mk' .ninf true (.fin 0) false, VI.point (.fin 1)] (.fin 1) = true ∧
    FSet.contains [VI.mk' .ninf true (.fin 0) false, VI.point (.fin 1)] (.fin (1/2)) = false := by
  decide +kernel

end FSet
end LP
