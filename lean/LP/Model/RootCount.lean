/-
  T6 — verified real-root counter for polynomials over ℚ (dense lists, low degree first).
  Exclusion by closed-interval Horner evaluation, uniqueness by a sign-definite derivative, bisection
  otherwise.  All results are `Option`: `none` = fuel exhausted (inconclusive), never a wrong answer
  (soundness theorems in `LP.Props.RootCount`).  Core Lean only.
-/
import LP.Model.QPoly
namespace LP
namespace QPoly

/-- closed rational interval `[lo, hi]` -/
structure CI where
  lo : Rat
  hi : Rat
deriving Repr

namespace CI
def pt (c : Rat) : CI := ⟨c, c⟩
def add (x y : CI) : CI := ⟨x.lo + y.lo, x.hi + y.hi⟩
def mul (x y : CI) : CI :=
  ⟨min (min (x.lo * y.lo) (x.lo * y.hi)) (min (x.hi * y.lo) (x.hi * y.hi)),
   max (max (x.lo * y.lo) (x.lo * y.hi)) (max (x.hi * y.lo) (x.hi * y.hi))⟩
def excl0 (x : CI) : Bool := decide (0 < x.lo) || decide (x.hi < 0)
end CI

/-- Horner evaluation over a closed interval: an enclosure of `{p(x) | x ∈ X}` -/
def ieval (p : QPoly) (X : CI) : CI := p.foldr (fun c acc => CI.add (CI.pt c) (CI.mul X acc)) (CI.pt 0)

/-- Taylor shift: the coefficients of p(m + h) as a polynomial in h -/
def taylor : QPoly → Rat → QPoly
  | [], _ => []
  | c :: p, m => add [c] (mul [m, 1] (taylor p m))

/-- centred form: evaluate p(m + h) for h ∈ [lo − m, hi − m] around the midpoint m.  Unlike plain Horner
    evaluation it does not lose precision far from the origin. -/
def ievalC (p : QPoly) (X : CI) : CI :=
  let m := (X.lo + X.hi) / 2
  ieval (taylor p m) ⟨X.lo - m, X.hi - m⟩

/-- description of the real roots inside an open interval: exact rational roots and open intervals
    holding exactly one root each, in increasing order -/
inductive Cell
  | pt (q : Rat)
  | iv (l u : Rat)
deriving Repr, DecidableEq

/-- roots of `p` in the open interval (a, b); `dp` must be the derivative of `p` -/
def isoLoop (p dp : QPoly) : Nat → Rat → Rat → Option (List Cell)
  | 0, _, _ => none
  | fuel+1, a, b =>
    if (ievalC p ⟨a, b⟩).excl0 then some []
    else if (ievalC dp ⟨a, b⟩).excl0 then
      (if eval p a * eval p b < 0 then some [Cell.iv a b] else some [])
    else
      match isoLoop p dp fuel a ((a + b) / 2), isoLoop p dp fuel ((a + b) / 2) b with
      | some L, some R => some (L ++ (if eval p ((a + b) / 2) = 0 then [Cell.pt ((a + b) / 2)] else []) ++ R)
      | _, _ => none

def isoFuel : Nat := 200

/-- roots in the open interval (a, b), a < b -/
def isolateOpen (p : QPoly) (a b : Rat) : Option (List Cell) :=
  if isZero p then none else isoLoop p (derivative p) isoFuel a b

/-- number of distinct roots of `p` in an interval with the given end-point strictness (a ≤ b) -/
def countIn (p : QPoly) (a : Rat) (aOpen : Bool) (b : Rat) (bOpen : Bool) : Option Nat :=
  if a = b then (if aOpen ∨ bOpen then some 0 else some (if eval p a = 0 then 1 else 0))
  else if b < a then some 0
  else (isolateOpen p a b).map (fun L =>
    L.length + (if !aOpen ∧ eval p a = 0 then 1 else 0) + (if !bOpen ∧ eval p b = 0 then 1 else 0))

def absQ (c : Rat) : Rat := if c < 0 then -c else c

/-- Cauchy bound: every real root of a non-zero `p` lies in (−B, B) -/
def rootBound (p : QPoly) : Rat :=
  let t := trim p
  let lc := t.getLast?.getD 1
  1 + (t.dropLast.foldl (fun m c => max m (absQ c / absQ lc)) 0)

/-- all real roots of a non-zero polynomial -/
def isolateAll (p : QPoly) : Option (List Cell) :=
  let B := rootBound p
  isolateOpen p (-B) B

/-! ### square-free part with a certificate -/

def powQ (p : QPoly) : Nat → QPoly
  | 0 => [1]
  | n+1 => mul p (powQ p n)

def eqQ (a b : QPoly) : Bool := trim a = trim b

/-- `s` has the same roots as `p`: p = s·g and g ∣ sⁿ (every root of g is a root of s) -/
def sameRootsCert (p s g h : QPoly) (n : Nat) : Bool :=
  eqQ (mul s g) p && eqQ (mul g h) (powQ s n)

/-- square-free part of a non-zero p together with the certificate data (s, g, h, n) -/
def sqfreePart (p : QPoly) : Option QPoly :=
  let p := trim p
  let g := (xgcd p (derivative p)).1
  if g.length ≤ 1 then some p else
  let s := (divMod p g).1
  let n := p.length
  let h := (divMod (powQ s n) g).1
  if sameRootsCert p s g h n then some s else none

/-- distinct real roots of a non-zero polynomial (through its square-free part) -/
def realRoots (p : QPoly) : Option (List Cell) := (sqfreePart p).bind (fun s => if isZero s then none else isolateAll s)

/-- distinct roots in an interval -/
def countRootsIn (p : QPoly) (a : Rat) (aOpen : Bool) (b : Rat) (bOpen : Bool) : Option Nat :=
  (sqfreePart p).bind (fun s => countIn s a aOpen b bOpen)

def sgnAt (p : QPoly) (x : Rat) : Int := sgnQ (eval p x)

/-- sign variations of a list of signs (zeros dropped) -/
def signVar (l : List Int) : Nat :=
  let nz := l.filter (· ≠ 0)
  ((nz.zip nz.tail).filter (fun p => p.1 * p.2 < 0)).length

/-- sign of p at −∞ / +∞ -/
def sgnAtInf (p : QPoly) (plus : Bool) : Int :=
  let t := trim p
  if t.isEmpty then 0 else
  let s := sgnQ (t.getLast?.getD 0)
  if plus ∨ (t.length - 1) % 2 = 0 then s else -s

end QPoly
end LP
