import LP.Props.C04
#print axioms LP.MPoly.getD_removeAt
#print axioms LP.MPoly.foldl_laplace
#print axioms LP.MPoly.C04_det
