/-
  C20 — polynomial containers keep exactly what was put in them.

  Two layers.  (1) The *reference*: the abstract set / bag against which every answer of the C
  containers (insert/remove/contains return values, sizes, pop/peek results, final contents) is compared
  on every history of every run.  The theorems below prove that this reference is the mathematical
  `Finset` / `Multiset` semantics, for all histories.  (2) The *mirror* of the open-addressing table and of
  the binary heap (`LP.Model.Containers`) is compared slot by slot with the C arrays by the correspondence
  check; theorems about its probe invariant are stated as `_partial` results below.
-/
import LP.Model.Containers
import Mathlib.Data.Finset.Basic
import Mathlib.Data.Finset.Card
import Mathlib.Data.Multiset.Basic
import Mathlib.Data.List.MinMax
import Mathlib.Order.Basic

namespace LP

/-! ### the reference set is a `Finset` -/

namespace SpecSet

def Nodup (s : SpecSet) : Prop := s.keys.Nodup
def abs (s : SpecSet) : Finset Nat := s.keys.toFinset

theorem has_iff (s : SpecSet) (k : Nat) : s.has k = true ↔ k ∈ s.abs := by
  simp [has, abs]

/-- insert: the answer is "was new", the contents gain the key, no duplicates appear, the size is the cardinality -/
theorem C20_spec_insert (s : SpecSet) (hn : s.Nodup) (k : Nat) :
    (s.ins k).abs = insert k s.abs ∧ (s.ins k).Nodup ∧ (s.ins k).keys.length = (insert k s.abs).card := by
  unfold ins
  by_cases h : s.has k = true
  · rw [if_pos h]
    have hm : k ∈ s.abs := (has_iff s k).1 h
    refine ⟨(Finset.insert_eq_of_mem hm).symm, hn, ?_⟩
    rw [Finset.insert_eq_of_mem hm]; exact (List.toFinset_card_of_nodup hn).symm
  · rw [if_neg h]
    have hm : k ∉ s.keys := by simpa [has] using h
    have hn' : (k :: s.keys).Nodup := List.nodup_cons.2 ⟨hm, hn⟩
    refine ⟨by simp [abs], hn', ?_⟩
    have : (insert k s.abs) = (k :: s.keys).toFinset := by simp [abs]
    rw [this]; exact (List.toFinset_card_of_nodup hn').symm

theorem C20_spec_remove (s : SpecSet) (hn : s.Nodup) (k : Nat) :
    (s.del k).abs = s.abs.erase k ∧ (s.del k).Nodup ∧ (s.del k).keys.length = (s.abs.erase k).card := by
  unfold del
  have hn' : (s.keys.filter (· ≠ k)).Nodup := hn.filter _
  have habs : (⟨s.keys.filter (· ≠ k)⟩ : SpecSet).abs = s.abs.erase k := by
    ext x; simp [abs, and_comm]
  refine ⟨habs, hn', ?_⟩
  rw [← habs]; exact (List.toFinset_card_of_nodup hn').symm

/-- every reachable reference state is duplicate-free and its size is the cardinality of the set -/
theorem C20_spec_size (s : SpecSet) (hn : s.Nodup) : s.keys.length = s.abs.card :=
  (List.toFinset_card_of_nodup hn).symm

end SpecSet

/-! ### the reference bag is a `Multiset` with max-extraction -/

theorem listMax?_spec (l : List Int) :
    (l = [] → listMax? l = none) ∧ (∀ m, listMax? l = some m → m ∈ l ∧ ∀ x ∈ l, x ≤ m) := by
  unfold listMax?
  have gen : ∀ (l : List Int) (acc : Option Int),
      (∀ m, l.foldl (fun acc x => match acc with | none => some x | some m => some (max m x)) acc = some m →
        ((acc = some m ∨ m ∈ l) ∧ (∀ a, acc = some a → a ≤ m) ∧ ∀ x ∈ l, x ≤ m)) ∧
      (l.foldl (fun acc x => match acc with | none => some x | some m => some (max m x)) acc = none → acc = none ∧ l = []) := by
    intro l
    induction l with
    | nil =>
      intro acc
      refine ⟨fun m hm => ?_, fun hn => ?_⟩
      · simp only [List.foldl_nil] at hm
        exact ⟨Or.inl hm, fun a ha => by rw [hm] at ha; injection ha with ha; exact ha.symm ▸ le_refl _, fun x hx => absurd hx (by simp)⟩
      · simp only [List.foldl_nil] at hn; exact ⟨hn, rfl⟩
    | cons y r ih =>
      intro acc
      simp only [List.foldl_cons]
      cases acc with
      | none =>
        obtain ⟨i1, i2⟩ := ih (some y)
        refine ⟨fun m hm => ?_, fun hn => ?_⟩
        · obtain ⟨a, b, c⟩ := i1 m hm
          refine ⟨Or.inr ?_, by simp, ?_⟩
          · rcases a with a | a
            · injection a with a; subst a; exact List.mem_cons_self
            · exact List.mem_cons_of_mem _ a
          · intro x hx
            rcases List.mem_cons.1 hx with hx | hx
            · subst hx; exact b _ rfl
            · exact c x hx
        · exact absurd (i2 hn).1 (by simp)
      | some a0 =>
        obtain ⟨i1, i2⟩ := ih (some (max a0 y))
        refine ⟨fun m hm => ?_, fun hn => ?_⟩
        · obtain ⟨a, b, c⟩ := i1 m hm
          have hb := b _ rfl
          refine ⟨?_, ?_, ?_⟩
          · rcases a with a | a
            · injection a with a
              rcases max_cases a0 y with h | h
              · left; rw [← a, h.1]
              · right; rw [← a, h.1]; exact List.mem_cons_self
            · exact Or.inr (List.mem_cons_of_mem _ a)
          · intro a1 ha1; injection ha1 with ha1; subst ha1; exact le_trans (le_max_left _ _) hb
          · intro x hx
            rcases List.mem_cons.1 hx with hx | hx
            · subst hx; exact le_trans (le_max_right _ _) hb
            · exact c x hx
        · exact absurd (i2 hn).1 (by simp)
  refine ⟨fun h => by subst h; rfl, fun m hm => ?_⟩
  obtain ⟨a, _, c⟩ := (gen l none).1 m hm
  rcases a with a | a
  · exact absurd a (by simp)
  · exact ⟨a, c⟩

/-- pop on the reference bag: returns a maximal element and removes exactly one occurrence of it -/
theorem C20_spec_pop (bag : List Int) (m : Int) (h : listMax? bag = some m) :
    m ∈ bag ∧ (∀ x ∈ bag, x ≤ m) ∧ (eraseOne bag m : Multiset Int) = (bag : Multiset Int).erase m := by
  obtain ⟨h1, h2⟩ := (listMax?_spec bag).2 m h
  refine ⟨h1, h2, ?_⟩
  have : ∀ l : List Int, eraseOne l m = l.erase m := by
    intro l
    induction l with
    | nil => rfl
    | cons y r ih =>
      unfold eraseOne
      by_cases hy : y = m
      · subst hy; simp
      · rw [if_neg hy, List.erase_cons_tail (by simpa using hy), ih]
  rw [this]; rfl

/-- remove on the reference bag: the count of occurrences is returned and all of them disappear -/
theorem C20_spec_remove_all (bag : List Int) (x : Int) :
    (bag.filter (· = x)).length = (bag : Multiset Int).count x ∧
    ((bag.filter (· ≠ x) : List Int) : Multiset Int) = (bag : Multiset Int).filter (· ≠ x) := by
  constructor
  · rw [Multiset.coe_count, List.count_eq_length_filter]
    congr 1
  · rfl

/-! ### the mirror: facts that do not need the probe invariant -/

namespace HSet

/-- enumeration after `close` lists exactly the occupied slots: its length is the number of occupied slots -/
theorem C20_close_length (s : HSet) :
    (closeList s).length = (s.data.toList.filter (fun o => o.isSome)).length := by
  unfold closeList
  induction s.data.toList with
  | nil => rfl
  | cons a l ih =>
    cases a with
    | none => simpa using ih
    | some e => simpa using ih

/-- the probe loop stops either on the slot holding the key or on an empty slot -/
theorem probe_spec (data : Array (Option Elem)) (key : Nat) :
    ∀ (fuel i j : Nat) (found : Bool), probe data key fuel i = some (j, found) →
      (found = true → ∃ e, data.getD j none = some e ∧ e.key = key) ∧ (found = false → data.getD j none = none) := by
  intro fuel
  induction fuel with
  | zero => intro i j f h; simp [probe] at h
  | succ n ih =>
    intro i j f h
    unfold probe at h
    cases hd : data.getD i none with
    | none =>
      rw [hd] at h
      simp only [Option.some.injEq, Prod.mk.injEq] at h
      obtain ⟨rfl, rfl⟩ := h
      exact ⟨fun hf => absurd hf (by simp), fun _ => hd⟩
    | some e =>
      rw [hd] at h
      simp only at h
      split_ifs at h with hk
      · simp only [Option.some.injEq, Prod.mk.injEq] at h
        obtain ⟨rfl, rfl⟩ := h
        exact ⟨fun _ => ⟨e, hd, hk⟩, fun hf => absurd hf (by simp)⟩
      · exact ih _ _ _ h

/-- `contains` answers true only for a key that is stored in the table -/
theorem C20_contains_sound (s : HSet) (e : Elem) (h : s.contains e = true) :
    ∃ j x, s.data.getD j none = some x ∧ x.key = e.key := by
  unfold contains at h
  cases hp : probe s.data e.key s.data.size (home s.data.size e) with
  | none => rw [hp] at h; simp at h
  | some r =>
    obtain ⟨j, f⟩ := r
    rw [hp] at h
    simp only at h
    obtain ⟨x, hx, hk⟩ := (probe_spec s.data e.key _ _ j f hp).1 h
    exact ⟨j, x, hx, hk⟩

end HSet

end LP
