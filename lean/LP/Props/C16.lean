/-
  C16 — bound inference and Fourier–Motzkin resolution only derive consequences.

  Bound inference: for A = Σ_k (a_k x_k² + b_k x_k) + c with all a_k of one sign the validator decides the claims of
  the library exactly: D = Σ b_k²/(4a_k) − c, the projection of the solution set on x_k is the segment between the
  real roots of a_k x² + b_k x + b_k²/(4a_k) − D, compared with the inferred end points by the proved algebraic
  comparison; a conflict is accepted only when the solution set is empty; the explanation polynomial must have
  exactly the inferred end points as real roots (proved root counter).  Proved here (real arithmetic, all inputs):
  * `C16_complete_square`, `C16_summand_le`, `C16_between_roots(_strict)`: a point satisfying the constraint has
    every coordinate between the two roots of its projection polynomial;
  * `C16_no_solution`: with D < 0 (or D = 0 and a strict condition) there is no real solution.
  Fourier–Motzkin: `C16_fm_elim` (the positive combination cancels the main variable) and `C16_fm_lt / _le / _eq`
  (the resolvent holds wherever both premises hold and the leading coefficients have the recorded signs).
  The instance data (which combination the C code formed, which assumptions it recorded, whether the main variable
  really disappeared) is checked per output by the driver.
-/
import LP.Props.C12
import LP.Model.Infer
import Mathlib.Tactic.Positivity
import Mathlib.Tactic.NormNum
import Mathlib.Tactic.FieldSimp

namespace LP
namespace Infer

/-- completing the square -/
theorem C16_complete_square (a b x : ℝ) (ha : a ≠ 0) :
    a * x ^ 2 + b * x = a * (x + b / (2 * a)) ^ 2 - b ^ 2 / (4 * a) := by
  field_simp; ring

/-- a summand of a sum of non-negative reals is bounded by the sum -/
theorem C16_summand_le (l : List ℝ) (hl : ∀ s ∈ l, 0 ≤ s) (s : ℝ) (hs : s ∈ l) : s ≤ l.sum :=
  List.single_le_sum hl s hs

/-- a point where a·(x−r1)(x−r2) ≤ 0 with a > 0 lies between the roots -/
theorem C16_between_roots (a r1 r2 x : ℝ) (ha : 0 < a) (h12 : r1 ≤ r2) (h : a * ((x - r1) * (x - r2)) ≤ 0) :
    r1 ≤ x ∧ x ≤ r2 := by
  have hp : (x - r1) * (x - r2) ≤ 0 := by
    by_contra hc; push Not at hc
    have := mul_pos ha hc; linarith
  constructor
  · by_contra hc; push Not at hc
    have h1 : x - r1 < 0 := by linarith
    have h2 : x - r2 < 0 := by linarith
    have := mul_pos_of_neg_of_neg h1 h2; linarith
  · by_contra hc; push Not at hc
    have h1 : 0 < x - r1 := by linarith
    have h2 : 0 < x - r2 := by linarith
    have := mul_pos h1 h2; linarith

theorem C16_between_roots_strict (a r1 r2 x : ℝ) (ha : 0 < a) (h12 : r1 ≤ r2) (h : a * ((x - r1) * (x - r2)) < 0) :
    r1 < x ∧ x < r2 := by
  have hp : (x - r1) * (x - r2) < 0 := by
    by_contra hc; push Not at hc
    have := mul_nonneg ha.le hc; linarith
  constructor
  · by_contra hc; push Not at hc
    have h1 : x - r1 ≤ 0 := by linarith
    have h2 : x - r2 ≤ 0 := by linarith
    have := mul_nonneg_of_nonpos_of_nonpos h1 h2; linarith
  · by_contra hc; push Not at hc
    have h1 : 0 ≤ x - r1 := by linarith
    have h2 : 0 ≤ x - r2 := by linarith
    have := mul_nonneg h1 h2; linarith

/-- the projection step: if Σ_j a_j (x_j+β_j)² ≤ D with all a_j > 0 then the k-th summand alone is ≤ D -/
theorem C16_projection (sq : List ℝ) (hsq : ∀ s ∈ sq, 0 ≤ s) (D : ℝ) (h : sq.sum ≤ D) (s : ℝ) (hs : s ∈ sq) : s ≤ D :=
  le_trans (C16_summand_le sq hsq s hs) h

/-- no real solution when the radius is negative (or zero under a strict condition) -/
theorem C16_no_solution (sq : List ℝ) (hsq : ∀ s ∈ sq, 0 ≤ s) (D : ℝ) :
    (D < 0 → ¬ sq.sum ≤ D) ∧ (D ≤ 0 → ¬ sq.sum < D) := by
  have h0 : 0 ≤ sq.sum := List.sum_nonneg hsq
  constructor
  · intro hD h; linarith
  · intro hD h; linarith

/-! ### Fourier–Motzkin -/

/-- the positive combination |l2|·(l1 x + r1) + |l1|·(l2 x + r2) with l1 > 0 > l2 does not contain x -/
theorem C16_fm_elim (l1 l2 r1 r2 x : ℝ) :
    (-l2) * (l1 * x + r1) + l1 * (l2 * x + r2) = (-l2) * r1 + l1 * r2 := by ring

/-- strict premise: the resolvent is strict -/
theorem C16_fm_lt (l1 l2 r1 r2 x : ℝ) (h1 : 0 < l1) (h2 : l2 < 0) (hp1 : l1 * x + r1 < 0) (hp2 : l2 * x + r2 ≤ 0) :
    (-l2) * r1 + l1 * r2 < 0 := by
  rw [← C16_fm_elim l1 l2 r1 r2 x]
  have a := mul_neg_of_pos_of_neg (neg_pos.2 h2) hp1
  have b := mul_nonpos_of_nonneg_of_nonpos h1.le hp2
  linarith

theorem C16_fm_le (l1 l2 r1 r2 x : ℝ) (h1 : 0 < l1) (h2 : l2 < 0) (hp1 : l1 * x + r1 ≤ 0) (hp2 : l2 * x + r2 ≤ 0) :
    (-l2) * r1 + l1 * r2 ≤ 0 := by
  rw [← C16_fm_elim l1 l2 r1 r2 x]
  have a := mul_nonpos_of_nonneg_of_nonpos (neg_pos.2 h2).le hp1
  have b := mul_nonpos_of_nonneg_of_nonpos h1.le hp2
  linarith

/-- second premise an equation: any multiplier may be used for it; m1 > 0 multiplies the inequality -/
theorem C16_fm_eq (m1 m2 P1 P2 : ℝ) (hm1 : 0 < m1) (hp2 : P2 = 0) :
    (P1 < 0 → m1 * P1 + m2 * P2 < 0) ∧ (P1 ≤ 0 → m1 * P1 + m2 * P2 ≤ 0) := by
  subst hp2
  constructor
  · intro h; have := mul_neg_of_pos_of_neg hm1 h; linarith
  · intro h; have := mul_nonpos_of_nonneg_of_nonpos hm1.le h; linarith

/-- table of resolvent conditions: strict as soon as one inequality premise is strict -/
theorem C16_fmCond_table : fmCond 0 0 = some 0 ∧ fmCond 0 1 = some 0 ∧ fmCond 1 0 = some 0 ∧ fmCond 1 1 = some 1 ∧
    fmCond 0 2 = some 0 ∧ fmCond 1 2 = some 1 ∧ fmCond 2 0 = none ∧ fmCond 3 0 = none ∧ fmCond 0 3 = none := by
  decide

end Infer
end LP
