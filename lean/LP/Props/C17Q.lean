/-
  C17 (continued) — n-th root approximation, value picking between rationals, doubles, rationals.
-/
import LP.Props.C17Dy
import Mathlib.Tactic.IntervalCases

namespace LP

/-! ### integer n-th root -/

theorem irootAux_spec (n a : Nat) : ∀ (fuel lo hi : Nat), lo ^ n ≤ a → a < hi ^ n → hi - lo ≤ fuel + 1 →
    (irootAux n a fuel lo hi) ^ n ≤ a ∧ a < (irootAux n a fuel lo hi + 1) ^ n := by
  intro fuel
  induction fuel with
  | zero =>
    intro lo hi h1 h2 h3
    unfold irootAux
    exact ⟨h1, lt_of_lt_of_le h2 (Nat.pow_le_pow_left (by omega) n)⟩
  | succ f ih =>
    intro lo hi h1 h2 h3
    rw [irootAux]
    by_cases hc : hi ≤ lo + 1
    · rw [if_pos hc]
      exact ⟨h1, lt_of_lt_of_le h2 (Nat.pow_le_pow_left (by omega) n)⟩
    · rw [if_neg hc]
      simp only []
      by_cases hm : ((lo + hi) / 2) ^ n ≤ a
      · rw [if_pos hm]; exact ih _ _ hm h2 (by omega)
      · rw [if_neg hm]; exact ih _ _ h1 (by omega) (by omega)

theorem iroot_spec (n a : Nat) (hn : 0 < n) : (iroot n a) ^ n ≤ a ∧ a < (iroot n a + 1) ^ n := by
  unfold iroot
  rw [if_neg (by omega)]
  apply irootAux_spec
  · rw [Nat.zero_pow hn]; omega
  · calc a < a + 1 := by omega
      _ = (a + 1) ^ 1 := by ring
      _ ≤ (a + 1) ^ n := Nat.pow_le_pow_right (by omega) hn
  · omega

namespace Dy

private theorem round_up_dvd (k0 n : Nat) (hn : 0 < n) : n ∣ k0 + (n - k0 % n) % n := by
  by_cases h : k0 % n = 0
  · rw [h, Nat.sub_zero, Nat.mod_self, Nat.add_zero]; exact Nat.dvd_of_mod_eq_zero h
  · have hlt : k0 % n < n := Nat.mod_lt _ hn
    rw [Nat.mod_eq_of_lt (by omega)]
    refine ⟨k0 / n + 1, ?_⟩
    have := Nat.div_add_mod k0 n
    have h2 : n * (k0 / n + 1) = n * (k0 / n) + n := by ring
    omega

private theorem root_core (x : Dy) (k n : Nat) (_hn : 0 < n) (hk : n ∣ k) (hxk : x.n ≤ k) (hx : 0 ≤ x.a) (r : Nat) :
    ((normalize ⟨(r:Int), k / n⟩).toRat) ^ n = ((r ^ n : Nat) : ℚ) / 2 ^ k ∧
    x.toRat = (((x.a * 2 ^ (k - x.n)).toNat : Nat) : ℚ) / 2 ^ k ∧
    0 ≤ (normalize ⟨(r:Int), k / n⟩).toRat := by
  have hp : ∀ m : Nat, (0:ℚ) < 2 ^ m := fun m => by positivity
  refine ⟨?_, ?_, ?_⟩
  · rw [(C17_dy_normalize _).1, toRat_def]; simp only
    rw [div_pow, ← pow_mul, Nat.div_mul_cancel hk]; push_cast; ring
  · have hv : (((x.a * 2 ^ (k - x.n)).toNat : Nat) : Int) = x.a * 2 ^ (k - x.n) :=
      Int.toNat_of_nonneg (by positivity)
    have hvq : (((x.a * 2 ^ (k - x.n)).toNat : Nat) : ℚ) = (x.a : ℚ) * 2 ^ (k - x.n) := by exact_mod_cast hv
    rw [hvq, toRat_def]
    have : (2:ℚ) ^ k = 2 ^ (k - x.n) * 2 ^ x.n := by rw [← pow_add]; congr 1; omega
    rw [this]; field_simp
  · rw [(C17_dy_normalize _).1, toRat_def]; simp only; positivity

/-- `dyadic_rational_root_approx` (n ≥ 1, normalised argument ≥ 0): the floor variant is a lower bound
    of the n-th root, the ceiling variant an upper bound, both non-negative and canonical, and the
    `exact` flag is returned only when the result is the root itself. -/
theorem C17_dy_root (x : Dy) (n prec : Nat) (hn : 0 < n) (hx : 0 ≤ x.a) (hxn : x.Normalized) :
    let lo := rootApprox x n prec false
    let hi := rootApprox x n prec true
    0 ≤ lo.1.toRat ∧ lo.1.toRat ^ n ≤ x.toRat ∧ x.toRat ≤ hi.1.toRat ^ n ∧
    (lo.2 = true → lo.1.toRat ^ n = x.toRat) ∧ (hi.2 = true → hi.1.toRat ^ n = x.toRat) ∧
    lo.1.Normalized ∧ hi.1.Normalized := by
  intro lo hi
  by_cases h0 : x.a = 0
  · have e1 : lo = (⟨x.a, x.n⟩, true) := by simp [lo, rootApprox, h0]
    have e2 : hi = (⟨x.a, x.n⟩, true) := by simp [hi, rootApprox, h0]
    have hz : (⟨x.a, x.n⟩ : Dy).toRat = 0 := by rw [toRat_def, h0]; simp
    have hxz : x.toRat = 0 := by rw [toRat_def, h0]; simp
    rw [e1, e2]; simp only [hz]
    have z : (0:ℚ) ^ n = 0 := zero_pow (by omega)
    exact ⟨le_refl _, by rw [z], by rw [z], fun _ => z, fun _ => z, hxn, hxn⟩
  · set k0 := (if x.n < prec then prec else x.n) with hk0
    set k := k0 + (n - k0 % n) % n with hkdef
    have hk : n ∣ k := round_up_dvd k0 n hn
    have hxk : x.n ≤ k := by
      have : x.n ≤ k0 := by rw [hk0]; split_ifs <;> omega
      omega
    set v := (x.a * 2 ^ (k - x.n)).toNat with hvdef
    obtain ⟨s1, s2⟩ := iroot_spec n v hn
    set r := iroot n v with hr
    have hlo : lo = (normalize ⟨(r:Int), k / n⟩, decide (r ^ n = v)) := by
      simp [lo, rootApprox, h0, ← hk0, ← hkdef, ← hvdef, ← hr]
    have hhi : hi = (normalize ⟨((if ¬ (r ^ n = v) then r + 1 else r : Nat) : Int), k / n⟩, decide (r ^ n = v)) := by
      simp only [hi, rootApprox, h0, if_false, ← hk0, ← hkdef, ← hvdef, ← hr]
      congr 2
      by_cases he : r ^ n = v <;> simp [he]
    obtain ⟨c1, c2, c3⟩ := root_core x k n hn hk hxk hx r
    have hp : (0:ℚ) < 2 ^ k := by positivity
    rw [hlo, hhi]
    simp only [decide_eq_true_eq]
    refine ⟨c3, ?_, ?_, ?_, ?_, (C17_dy_normalize _).2, (C17_dy_normalize _).2⟩
    · rw [c1, c2]
      exact div_le_div_of_nonneg_right (by exact_mod_cast s1) hp.le
    · by_cases he : r ^ n = v
      · simp only [he, not_true_eq_false, if_false]
        rw [c1, c2, he]
      · simp only [he, not_false_eq_true, if_true]
        obtain ⟨d1, _, _⟩ := root_core x k n hn hk hxk hx (r + 1)
        rw [d1, c2]
        exact div_le_div_of_nonneg_right (by exact_mod_cast s2.le) hp.le
    · intro he; rw [c1, c2, he]
    · intro he
      simp only [he, not_true_eq_false, if_false]
      rw [c1, c2, he]

/-! ### picking a dyadic between two rationals -/

theorem betweenLoop_spec (a b : ℚ) : ∀ (fuel : Nat) (lo hi d : Dy), betweenLoop a b fuel lo hi = some d →
    a < d.toRat ∧ d.toRat < b ∧ d.Normalized := by
  intro fuel
  induction fuel with
  | zero => intro lo hi d h; simp [betweenLoop] at h
  | succ f ih =>
    intro lo hi d h
    unfold betweenLoop at h
    simp only at h
    split_ifs at h with h1 h2
    · exact ih _ _ _ h
    · exact ih _ _ _ h
    · injection h with h
      subst h
      exact ⟨not_le.1 h1, not_le.1 h2, (C17_dy_ops (add lo hi) (add lo hi) 0 1).2.2.2.2.1.2⟩

/-- `dyadic_rational_get_value_between`: for `a < b` the value returned lies strictly between. -/
theorem C17_dy_between (a b : ℚ) (hab : a < b) (fuel : Nat) (d : Dy) (h : valueBetween a b fuel = some d) :
    a < d.toRat ∧ d.toRat < b ∧ d.Normalized := by
  unfold valueBetween at h
  simp only at h
  have hfl : ((⌊(a + b) / 2⌋ : Int) : ℚ) ≤ (a + b) / 2 := Int.floor_le _
  have hfl2 : (a + b) / 2 < ((⌊(a + b) / 2⌋ : Int) : ℚ) + 1 := Int.lt_floor_add_one _
  have hrf : ((a + b) / 2).floor = ⌊(a + b) / 2⌋ := rfl
  rw [hrf] at h
  split_ifs at h with h1 h2
  · injection h with h; subst h
    have e := (C17_dy_normalize ⟨⌊(a + b) / 2⌋, 0⟩)
    refine ⟨?_, ?_, e.2⟩
    · rw [e.1, toRat_def]; simpa using h1
    · rw [e.1, toRat_def]; simp only [pow_zero, div_one]; linarith
  · injection h with h; subst h
    have e := (C17_dy_normalize ⟨⌊(a + b) / 2⌋ + 1, 0⟩)
    refine ⟨?_, ?_, e.2⟩
    · rw [e.1, toRat_def]; simp only [pow_zero, div_one]; push_cast; linarith
    · rw [e.1, toRat_def]; simp only [pow_zero, div_one]; push_cast at h2 ⊢; linarith
  · exact betweenLoop_spec a b fuel _ _ d h

end Dy

/-! ### rationals (`mpq` wrappers) and doubles -/

theorem qPowLoop_spec : ∀ (fuel n : Nat) (result tmp : ℚ), n < 2 ^ fuel →
    qPowLoop fuel n result tmp = result * tmp ^ n := by
  intro fuel
  induction fuel with
  | zero => intro n r t h; have : n = 0 := by omega
            subst this; simp [qPowLoop]
  | succ f ih =>
    intro n r t h
    unfold qPowLoop
    split_ifs with h0 h1
    · subst h0; simp
    · rw [ih _ _ _ (by omega)]
      have : n = 2 * (n / 2) + 1 := by omega
      conv_rhs => rw [this]
      rw [pow_succ, pow_mul]; ring
    · rw [ih _ _ _ (by omega)]
      have : n = 2 * (n / 2) := by omega
      conv_rhs => rw [this]
      rw [pow_mul]; ring

/-- rational operations are exact (core `Rat` is a canonical form by construction). -/
theorem C17_rat_ops (a : ℚ) (n : Nat) (num den : Int) :
    qPow a n = a ^ n ∧ qMul2exp a n = a * 2 ^ n ∧ qDiv2exp a n = a / 2 ^ n ∧
    qFloor a = ⌊a⌋ ∧ qCeil a = ⌈a⌉ ∧ (qIsInteger a = true ↔ ∃ z : Int, a = z) ∧
    qOfDiv num den = (num : ℚ) / den ∧ (a.num : ℚ) / a.den = a ∧ Nat.Coprime a.num.natAbs a.den ∧ 0 < a.den := by
  refine ⟨?_, ?_, ?_, ?_, ?_, ?_, ?_, ?_, a.reduced, a.den_pos⟩
  · unfold qPow; rw [qPowLoop_spec _ _ _ _ (Nat.lt_two_pow_self.trans_le (Nat.pow_le_pow_right (by omega) (by omega)))]; ring
  · unfold qMul2exp; push_cast; ring
  · unfold qDiv2exp; push_cast; ring
  · unfold qFloor; exact (Rat.floor_def' (q := a)).symm
  · unfold qCeil cdiv
    have : ⌈a⌉ = -⌊-a⌋ := by rw [Int.floor_neg, neg_neg]
    rw [this, Rat.floor_def' (q := -a)]; simp
  · unfold qIsInteger
    simp only [decide_eq_true_eq]
    constructor
    · intro h; exact ⟨a.num, by rw [← Rat.num_div_den a, h]; simp⟩
    · rintro ⟨z, hz⟩; rw [hz]; simp
  · unfold qOfDiv; exact Rat.divInt_eq_div num den
  · exact Rat.num_div_den a

/-- the two decodings of a double (as dyadic and as rational) denote the same number, the dyadic one canonical. -/
theorem C17_double (bits : Nat) : (doubleToDy bits).toRat = doubleToRat bits ∧ (doubleToDy bits).Normalized := by
  unfold doubleToDy doubleToRat
  simp only
  split_ifs with h
  · refine ⟨?_, (Dy.C17_dy_normalize _).2⟩
    rw [(Dy.C17_dy_normalize _).1, Dy.toRat_def]; simp
  · refine ⟨?_, (Dy.C17_dy_normalize _).2⟩
    rw [(Dy.C17_dy_normalize _).1, Dy.toRat_def]
    simp only
    rw [Rat.mkRat_eq_div]; push_cast; rfl

end LP

/-! ### non-vacuity: concrete states meeting the hypotheses -/
namespace LP
example : (⟨3, 2⟩ : Dy).Normalized ∧ (0:Int) ≤ (⟨3, 2⟩ : Dy).a := by unfold Dy.Normalized; simp
example : (1/3 : ℚ) < 1/2 := by norm_num
end LP
