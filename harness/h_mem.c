/* C19 harness (reference counting): histories of construct / attach / detach / destroy over rings and
 * contexts and their holders; after every step the ref_count fields of every live ring and context are
 * reported.  An object is freed exactly when its last holder goes away (freed objects are printed as x and
 * never touched again: the sanitizers watch for use-after-free, double free and leaks at exit).
 *   refs run <ctx->ring map> <ops> => <snapshot;snapshot;...>
 */
#include "hpoly.h"
#include <polynomial_vector.h>
#include <feasibility_set_int.h>

#define NR 3
#define NC 4
#define MAXH 64
typedef struct { char kind; int target; void* obj; } holder;

static void mem_case(void) {
  lp_variable_db_t* db = lp_variable_db_new(); lp_variable_order_t* ord = lp_variable_order_new();
  lp_variable_t x = lp_variable_db_new_variable(db, "x"); lp_variable_order_push(ord, x);
  static const char* mods[NR] = { "7", "13", "101" };
  lp_int_ring_t* ring[NR]; int ring_live[NR]; long ring_handles[NR];
  lp_polynomial_context_t* ctx[NC]; int ctx_ring[NC]; long ctx_handles[NC]; int ctx_created[NC];
  long ring_expect[NR], ctx_expect[NC];       /* only used to know when an object has been freed */
  holder hs[MAXH]; int nh = 0;
  for (int r = 0; r < NR; ++r) { ring[r] = 0; ring_live[r] = 0; ring_handles[r] = 0; ring_expect[r] = 0; }
  for (int c = 0; c < NC; ++c) { ctx[c] = 0; ctx_ring[c] = (int)rnd(NR); ctx_handles[c] = 0; ctx_expect[c] = 0; ctx_created[c] = 0; }
  int nops = 6 + (int)rnd(40);
  sb_begin("refs", "run"); sb_sp();
  for (int c = 0; c < NC; ++c) { if (c) sb_str(","); sb_long(ctx_ring[c]); }
  sb_sp();
  char snaps[1 << 15]; size_t sl = 0; snaps[0] = 0;
  int first = 1;
  for (int k = 0; k < nops; ++k) {
    char opbuf[32]; opbuf[0] = 0;
    unsigned w = rnd(100);
    int r = (int)rnd(NR), c = (int)rnd(NC);
    if (w < 12) { /* ring handle: create or attach */
      if (!ring_live[r]) { mpz_t M; mpz_init_set_str(M, mods[r], 10); ring[r] = lp_int_ring_create(M, 1); mpz_clear(M); ring_live[r] = 1; }
      else lp_int_ring_attach(ring[r]);
      ring_handles[r]++; ring_expect[r]++; snprintf(opbuf, sizeof opbuf, "+R:%d", r);
    } else if (w < 20) { if (!ring_live[r] || !ring_handles[r]) continue;
      ring_handles[r]--; ring_expect[r]--; snprintf(opbuf, sizeof opbuf, "-R:%d", r);
      lp_int_ring_detach(ring[r]); if (!ring_expect[r]) ring_live[r] = 0;
    } else if (w < 32) { /* context handle */
      int rr = ctx_ring[c]; if (!ring_live[rr]) continue;
      if (!ctx_expect[c]) { ctx[c] = lp_polynomial_context_new(ring[rr], db, ord); }
      else lp_polynomial_context_attach(ctx[c]);
      ctx_handles[c]++; ctx_expect[c]++; ring_expect[rr]++; snprintf(opbuf, sizeof opbuf, "+C:%d", c);
    } else if (w < 40) { if (!ctx_expect[c] || !ctx_handles[c]) continue;
      int rr = ctx_ring[c];
      ctx_handles[c]--; ctx_expect[c]--; ring_expect[rr]--; snprintf(opbuf, sizeof opbuf, "-C:%d", c);
      lp_polynomial_context_detach(ctx[c]); if (!ring_expect[rr]) ring_live[rr] = 0;
    } else if (w < 70 && nh < MAXH) { /* new holder */
      unsigned t = rnd(4);
      if (t == 0) { if (!ctx_expect[c]) continue; lp_polynomial_t* p = lp_polynomial_new(ctx[c]); lp_polynomial_set_external(p);
        hs[nh].kind = 'P'; hs[nh].target = c; hs[nh].obj = p; nh++; ctx_expect[c]++; ring_expect[ctx_ring[c]]++; snprintf(opbuf, sizeof opbuf, "+P:%d", c); }
      else if (t == 1) { if (!ctx_expect[c]) continue; lp_polynomial_vector_t* v = lp_polynomial_vector_new(ctx[c]);
        hs[nh].kind = 'V'; hs[nh].target = c; hs[nh].obj = v; nh++; ctx_expect[c]++; ring_expect[ctx_ring[c]]++; snprintf(opbuf, sizeof opbuf, "+V:%d", c); }
      else if (t == 2) { if (!ring_live[r]) continue; lp_upolynomial_t* u = lp_upolynomial_construct_power(ring[r], 1 + rnd(3), 1);
        hs[nh].kind = 'U'; hs[nh].target = r; hs[nh].obj = u; nh++; ring_expect[r]++; snprintf(opbuf, sizeof opbuf, "+U:%d", r); }
      else { if (!ring_live[r]) continue; lp_feasibility_set_int_t* s = chance(50) ? lp_feasibility_set_int_new_full(ring[r]) : lp_feasibility_set_int_new_empty(ring[r]);
        hs[nh].kind = 'F'; hs[nh].target = r; hs[nh].obj = s; nh++; ring_expect[r]++; snprintf(opbuf, sizeof opbuf, "+F:%d", r); }
    } else { if (!nh) continue;
      int i = (int)rnd(nh); holder h = hs[i]; hs[i] = hs[--nh];
      snprintf(opbuf, sizeof opbuf, "-%c:%d", h.kind, h.target);
      int rr = (h.kind == 'P' || h.kind == 'V') ? ctx_ring[h.target] : h.target;
      if (h.kind == 'P') { lp_polynomial_delete((lp_polynomial_t*)h.obj); ctx_expect[h.target]--; }
      else if (h.kind == 'V') { lp_polynomial_vector_delete((lp_polynomial_vector_t*)h.obj); ctx_expect[h.target]--; }
      else if (h.kind == 'U') lp_upolynomial_delete((lp_upolynomial_t*)h.obj);
      else lp_feasibility_set_int_delete((lp_feasibility_set_int_t*)h.obj);
      ring_expect[rr]--; if (!ring_expect[rr]) ring_live[rr] = 0;
    }
    if (!opbuf[0]) continue;
    if (!first) sb_str(","); first = 0; sb_str(opbuf); NOTE("%.3000s", sb_buf);
    /* snapshot of the real counters (freed objects are not touched) */
    if (sl) snaps[sl++] = ';';
    for (int i = 0; i < NR; ++i) { if (i) snaps[sl++] = ','; if (ring_live[i]) sl += (size_t)snprintf(snaps + sl, sizeof snaps - sl, "%zu", ring[i]->ref_count); else snaps[sl++] = 'x'; }
    for (int i = 0; i < NC; ++i) { snaps[sl++] = ','; if (ctx_expect[i]) sl += (size_t)snprintf(snaps + sl, sizeof snaps - sl, "%zu", ctx[i]->ref_count); else snaps[sl++] = 'x'; }
    snaps[sl] = 0;
  }
  if (first) { sb_reset(); }
  else { sb_arrow(); sb_sp(); sb_str(snaps); sb_emit(); }
  /* release everything that is still held */
  while (nh) { holder h = hs[--nh];
    if (h.kind == 'P') lp_polynomial_delete((lp_polynomial_t*)h.obj); else if (h.kind == 'V') lp_polynomial_vector_delete((lp_polynomial_vector_t*)h.obj);
    else if (h.kind == 'U') lp_upolynomial_delete((lp_upolynomial_t*)h.obj); else lp_feasibility_set_int_delete((lp_feasibility_set_int_t*)h.obj); }
  for (int i = 0; i < NC; ++i) while (ctx_handles[i]-- > 0) lp_polynomial_context_detach(ctx[i]);
  for (int i = 0; i < NR; ++i) while (ring_handles[i]-- > 0) lp_int_ring_detach(ring[i]);
  lp_variable_order_detach(ord); lp_variable_db_detach(db);
}

int main(int argc, char** argv) {
  uint64_t seed = argc > 1 ? strtoull(argv[1], 0, 10) : 1;
  long n = argc > 2 ? atol(argv[2]) : 1000;
  long only = argc > 3 ? atol(argv[3]) : -1;
  long start = argc > 4 ? atol(argv[4]) : 0;
  lpv_init();
  for (long i = 0; i < n; ++i) {
    if ((only >= 0 && i != only) || i < start) continue;
    lpv_begin_case(seed, i);
    mem_case();
  }
  free(sb_buf);
  return 0;
}
