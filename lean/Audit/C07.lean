import LP.Props.C07
#print axioms LP.ZAlg.image_encloses
#print axioms LP.ZAlg.C07_select_sound
#print axioms LP.C07_cmp
#print axioms LP.C07_cmp_rat
#print axioms LP.C07_floor
#print axioms LP.Alg.sgn_sound
#print axioms LP.Alg.valid_sound
#print axioms LP.Alg.refine_sound
