/-
  C20 — the array of the binary heap always holds exactly the multiset pushed minus the elements popped or removed:
  `heapify_up` / `heapify_down` only swap elements (`siftUp_perm`, `siftDown_perm`), so `push` adds exactly its argument
  (`C20_heap_push_perm`) and `pop` removes exactly one occurrence of the element it returns (`C20_heap_pop_perm`).
  (That the element returned is a maximal one is checked by the correspondence against the reference bag, whose `pop`
  is proved to return a maximum — `C20_spec_pop`.)
-/
import LP.Model.Containers

namespace LP
namespace Heap

theorem swap_size (a : Array Int) (i j : Nat) : (swap a i j).size = a.size := by
  unfold swap; simp

theorem swap_perm (a : Array Int) (i j : Nat) (hi : i < a.size) (hj : j < a.size) : (swap a i j).Perm a := by
  have : swap a i j = a.swap i j hi hj := by
    unfold swap Array.swap
    simp [Array.getD, hi, hj, Array.set!, Array.setIfInBounds, Array.size_set]
  rw [this]
  exact Array.swap_perm hi hj

/-- `heapify_up` permutes the array -/
theorem siftUp_perm : ∀ (fuel : Nat) (a : Array Int) (pos : Nat), pos ≤ a.size → (siftUp a fuel pos).Perm a := by
  intro fuel
  induction fuel with
  | zero => intro a pos _; exact Array.Perm.refl _
  | succ f ih =>
    intro a pos hp
    unfold siftUp
    split
    · rename_i hc
      have h1 : pos / 2 - 1 < a.size := by omega
      have h2 : pos - 1 < a.size := by omega
      refine Array.Perm.trans (ih _ _ ?_) (swap_perm a _ _ h1 h2)
      rw [swap_size]; omega
    · exact Array.Perm.refl _

/-- `heapify_down` permutes the array -/
theorem siftDown_perm : ∀ (fuel : Nat) (a : Array Int) (size pos : Nat), size ≤ a.size → 1 ≤ pos →
    (siftDown a size fuel pos).Perm a := by
  intro fuel
  induction fuel with
  | zero => intro a size pos _ _; exact Array.Perm.refl _
  | succ f ih =>
    intro a size pos hs hp
    unfold siftDown
    split
    · rename_i hc
      dsimp only
      have ho : ∀ o : Nat, (o = 2 * pos + 1 ∧ 2 * pos + 1 ≤ size) ∨ o = 2 * pos →
          (if a.getD (pos - 1) 0 ≥ a.getD (o - 1) 0 then a else siftDown (swap a (pos - 1) (o - 1)) size f o).Perm a := by
        intro o hcase
        split
        · exact Array.Perm.refl _
        · have h1 : pos - 1 < a.size := by omega
          have h2 : o - 1 < a.size := by omega
          refine Array.Perm.trans (ih _ _ _ ?_ (by omega)) (swap_perm a _ _ h1 h2)
          rw [swap_size]; exact hs
      split
      · rename_i hr
        exact ho _ (Or.inl ⟨rfl, hr.1⟩)
      · exact ho _ (Or.inr rfl)
    · exact Array.Perm.refl _

/-- **push adds exactly its argument** -/
theorem C20_heap_push_perm (h : Heap) (x : Int) : (push h x).data.Perm (h.data.push x) := by
  unfold push
  exact siftUp_perm _ _ _ (Nat.le_refl _)

theorem pop_core_perm (l : List Int) (top : Int) (h : l.head? = some top) :
    (((l.toArray.set! 0 l.toArray.back!).pop).push top).Perm l.toArray := by
  cases l with
  | nil => simp at h
  | cons t rest =>
    simp only [List.head?_cons, Option.some.injEq] at h
    subst h
    rcases List.eq_nil_or_concat rest with rfl | ⟨mid, lst, rfl⟩
    · simp [Array.back!, Array.set!, Array.setIfInBounds]
    · rw [Array.perm_iff_toList_perm]
      simp [Array.back!, Array.set!, Array.setIfInBounds]
      have e : lst :: (mid ++ [lst]) = (lst :: mid) ++ [lst] := rfl
      rw [e, List.dropLast_concat]
      exact (List.perm_append_singleton t (lst :: mid)).trans ((List.perm_append_singleton lst mid).symm.cons t)


/-- **pop removes exactly one occurrence of the element it returns** (which is the first element of the array) -/
theorem C20_heap_pop_perm (h : Heap) (top : Int) (ht : h.data[0]? = some top) :
    (pop h).2 = some top ∧ ((pop h).1.data.push top).Perm h.data := by
  unfold pop
  rw [ht]
  refine ⟨rfl, ?_⟩
  dsimp only
  have hl : h.data.toList.head? = some top := by
    rw [List.head?_eq_getElem?]; simpa using ht
  have core := pop_core_perm h.data.toList top hl
  simp only [Array.toArray_toList] at core
  refine Array.Perm.trans ?_ core
  exact Array.Perm.push top (siftDown_perm _ _ _ _ (Nat.le_refl _) (Nat.le_refl _))

/-- an empty heap pops nothing -/
theorem C20_heap_pop_empty (h : Heap) (ht : h.data[0]? = none) : pop h = (h, none) := by
  unfold pop; rw [ht]

end Heap
end LP
