/-
  C03 / C05 over Z_p — basic facts about coefficient lists modulo a prime: the degree of the denoted polynomial of (Z/p)[X]
  is the length of the normalised list minus one (`natDegree_norm`), the normalised list is empty exactly for the zero
  polynomial (`norm_eq_nil_iff`), subtraction (`toPolyF_sub`), shifts (`toPolyF_shift`), and the inverse (`inv_spec`).
-/
import LP.Props.C03Fp
import LP.Props.C17
import Mathlib.Algebra.Polynomial.Degree.Lemmas
import Mathlib.Algebra.Polynomial.FieldDivision

namespace LP
namespace FPoly
open Polynomial

variable (p : Nat)

theorem toPolyF_append (a b : FPoly) : toPolyF p (a ++ b) = toPolyF p a + X ^ a.length * toPolyF p b := by
  induction a with
  | nil => simp [toPolyF_nil]
  | cons x a ih =>
    rw [List.cons_append, toPolyF_cons, toPolyF_cons, ih, List.length_cons, pow_succ]
    ring

theorem toPolyF_shift (k : Nat) (q : FPoly) : toPolyF p (shift k q) = X ^ k * toPolyF p q := by
  unfold shift
  rw [toPolyF_append]
  have : toPolyF p (List.replicate k 0) = 0 := by
    induction k with
    | zero => rfl
    | succ k ih => rw [List.replicate_succ, toPolyF_cons, ih]; simp
  rw [this, zero_add, List.length_replicate]

theorem coeff_toPolyF_of_ge (q : FPoly) : ∀ m, q.length ≤ m → (toPolyF p q).coeff m = 0 := by
  induction q with
  | nil => intro m _; simp [toPolyF_nil]
  | cons c q ih =>
    intro m hm
    rw [List.length_cons] at hm
    obtain ⟨m', rfl⟩ : ∃ m', m = m' + 1 := ⟨m - 1, by omega⟩
    rw [toPolyF_cons, coeff_add, coeff_C_succ, zero_add, coeff_X_mul]
    exact ih m' (by omega)

theorem degree_toPolyF_lt (q : FPoly) : (toPolyF p q).degree < q.length :=
  (degree_lt_iff_coeff_zero _ _).2 (fun m hm => coeff_toPolyF_of_ge p q m hm)

/-- the entries of a normalised list are residues in [0, p), the last one is not 0 -/
theorem norm_entries (hp : 0 < p) (q : FPoly) : ∀ c ∈ norm p q, 0 ≤ c ∧ c < p := by
  intro c hc
  unfold norm trim at hc
  rw [List.mem_reverse] at hc
  have hsub := List.dropWhile_sublist (fun x : Int => decide (x = 0)) (l := (q.map (red p)).reverse)
  have := hsub.subset hc
  rw [List.mem_reverse, List.mem_map] at this
  obtain ⟨y, _, hy⟩ := this
  have hp' : (0 : Int) < p := by exact_mod_cast hp
  rw [← hy]; unfold red
  exact ⟨Int.emod_nonneg _ (by omega), Int.emod_lt_of_pos _ hp'⟩

theorem norm_last_ne_zero (q : FPoly) (c : Int) (h : (norm p q).getLast? = some c) : c ≠ 0 := by
  unfold norm trim at h
  rw [List.getLast?_reverse] at h
  have hd : ∀ l : List Int, ∀ x, (l.dropWhile (· = 0)).head? = some x → x ≠ 0 := by
    intro l
    induction l with
    | nil => intro x hx; simp at hx
    | cons a l ih =>
      intro x hx
      by_cases ha : a = 0
      · rw [List.dropWhile_cons_of_pos (by simpa using ha)] at hx; exact ih x hx
      · rw [List.dropWhile_cons_of_neg (by simpa using ha)] at hx
        simp only [List.head?_cons, Option.some.injEq] at hx
        rw [← hx]; exact ha
  exact hd _ c h

theorem cast_ne_zero_of_range (hp : 0 < p) (c : Int) (h0 : 0 ≤ c) (h1 : c < p) (hne : c ≠ 0) : ((c : Int) : ZMod p) ≠ 0 := by
  intro h
  have hd : (p : Int) ∣ c := (ZMod.intCast_zmod_eq_zero_iff_dvd _ p).1 h
  obtain ⟨k, hk⟩ := hd
  have hp' : (0 : Int) < p := by exact_mod_cast hp
  have : k = 0 := by
    rcases lt_trichotomy k 0 with hk0 | hk0 | hk0
    · have : (p : Int) * k < 0 := Int.mul_neg_of_pos_of_neg hp' hk0
      omega
    · exact hk0
    · have : (p : Int) * k ≥ p * 1 := Int.mul_le_mul_of_nonneg_left (by omega) (by omega)
      omega
  rw [this] at hk; simp at hk; exact hne hk

/-- **degree = length − 1 for a non-empty normalised list**, and its leading coefficient is the last entry -/
theorem natDegree_norm [hpr : Fact p.Prime] (q : FPoly) (hne : norm p q ≠ []) :
    (toPolyF p q).natDegree = (norm p q).length - 1 ∧
    (toPolyF p q).leadingCoeff = (((norm p q).getLast?.getD 0 : Int) : ZMod p) ∧ toPolyF p q ≠ 0 := by
  have hp : 0 < p := hpr.out.pos
  rw [← toPolyF_norm p q]
  generalize hn : norm p q = n at hne
  obtain ⟨init, c, rfl⟩ : ∃ init c, n = init ++ [c] := by
    rcases List.eq_nil_or_concat n with h | ⟨i, c, h⟩
    · exact absurd h hne
    · exact ⟨i, c, by rw [h, List.concat_eq_append]⟩
  have hlast : (norm p q).getLast? = some c := by rw [hn]; simp
  have hc0 := norm_last_ne_zero p q c hlast
  have hcr := norm_entries p hp q c (by rw [hn]; simp)
  have hcz := cast_ne_zero_of_range p hp c hcr.1 hcr.2 hc0
  rw [toPolyF_append, toPolyF_cons, toPolyF_nil, mul_zero, add_zero]
  have hdeg1 : (toPolyF p init).degree < (X ^ init.length * C ((c : Int) : ZMod p)).degree := by
    rw [degree_mul, degree_X_pow, degree_C hcz, add_zero]
    exact degree_toPolyF_lt p init
  have hlead : (X ^ init.length * C ((c : Int) : ZMod p)).leadingCoeff = ((c : Int) : ZMod p) := by
    rw [leadingCoeff_mul, leadingCoeff_X_pow, one_mul, leadingCoeff_C]
  refine ⟨?_, ?_, ?_⟩
  · rw [natDegree_add_eq_right_of_degree_lt hdeg1]
    have hC : (C ((c : Int) : ZMod p)) ≠ 0 := fun h => hcz (C_eq_zero.1 h)
    rw [natDegree_mul (pow_ne_zero _ X_ne_zero) hC, natDegree_X_pow, natDegree_C]
    simp
  · rw [leadingCoeff_add_of_degree_lt hdeg1, hlead]; simp
  · intro h0
    have : (toPolyF p init + X ^ init.length * C ((c : Int) : ZMod p)).leadingCoeff = 0 := by rw [h0]; simp
    rw [leadingCoeff_add_of_degree_lt hdeg1, hlead] at this
    exact hcz this


theorem norm_eq_nil_iff [Fact p.Prime] (q : FPoly) : norm p q = [] ↔ toPolyF p q = 0 := by
  constructor
  · intro h; rw [← toPolyF_norm p q, h, toPolyF_nil]
  · intro h
    by_contra hne
    exact (natDegree_norm p q hne).2.2 h

theorem toPolyF_sub (a b : FPoly) : toPolyF p (sub p a b) = toPolyF p a - toPolyF p b := by
  unfold sub
  rw [toPolyF_add, toPolyF_smul]
  push_cast
  simp [sub_eq_add_neg]

/-- the modular inverse used by the division is the inverse in the field -/
theorem inv_spec [hpr : Fact p.Prime] (c : Int) (hc : ((c : Int) : ZMod p) ≠ 0) :
    ((inv p c : Int) : ZMod p) * ((c : Int) : ZMod p) = 1 := by
  have hp2 : 2 ≤ p := hpr.out.two_le
  have hnd : ¬ (p : Int) ∣ c := fun h => hc ((ZMod.intCast_zmod_eq_zero_iff_dvd c p).2 h)
  have hg : Int.gcd c p = 1 := by
    have hcop : Nat.Coprime c.natAbs p := by
      rw [Nat.coprime_comm]
      refine (Nat.Prime.coprime_iff_not_dvd hpr.out).2 (fun h => hnd ?_)
      exact Int.natCast_dvd.2 h
    simpa [Int.gcd] using hcop
  obtain ⟨r, hr⟩ := (C17_inv p hp2 c).2 hg
  obtain ⟨_, hmod⟩ := (C17_inv p hp2 c).1 r hr
  unfold inv
  rw [hr, Option.getD_some, ZMod.intCast_mod]
  have := (ZMod.intCast_eq_intCast_iff (c * r) 1 p).2 hmod
  push_cast at this
  rw [mul_comm]; exact this

end FPoly
end LP
