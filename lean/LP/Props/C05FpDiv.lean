/-
  C03 / C05 over Z_p — the division with remainder used by the validators is the division of (Z/p)[X], p prime
  (`divMod_spec`: a = q·b + r with deg r < deg b; `divMod_zero_iff`: the remainder is zero exactly when b divides a).
  Loop invariant `divModLoop_spec`: the identity is kept, the remainder loses its leading term in every step (the modular
  inverse is the inverse of the field, `inv_spec` from `C17_inv`), the fuel suffices.
-/
import LP.Props.C05FpBasic
import Mathlib.Data.List.DropRight

set_option linter.unusedSectionVars false

namespace LP
namespace FPoly
open Polynomial

variable (p : Nat) [hpr : Fact p.Prime]

/-- size of a remainder: 0 for the zero polynomial, degree + 1 otherwise -/
noncomputable def msize (r : FPoly) : Nat := if toPolyF p r = 0 then 0 else (toPolyF p r).natDegree + 1

/-- **the division loop over Z_p**: the quotient–remainder identity is kept and the remainder ends with a degree below
    that of the divisor -/
theorem divModLoop_spec (b : FPoly) (hb : norm p b = b) (hbne : b ≠ []) :
    ∀ (fuel : Nat) (q r : FPoly), msize p r ≤ fuel + (b.length - 1) →
      toPolyF p (divModLoop p b (b.length - 1) (inv p (b.getLast?.getD 1)) fuel q r).1 * toPolyF p b +
        toPolyF p (divModLoop p b (b.length - 1) (inv p (b.getLast?.getD 1)) fuel q r).2 =
        toPolyF p q * toPolyF p b + toPolyF p r ∧
      (toPolyF p (divModLoop p b (b.length - 1) (inv p (b.getLast?.getD 1)) fuel q r).2).degree < (toPolyF p b).degree := by
  have hp : 0 < p := hpr.out.pos
  have hbn : norm p b ≠ [] := by rw [hb]; exact hbne
  obtain ⟨hBdeg, hBlc, hB0⟩ := natDegree_norm p b hbn
  rw [hb] at hBdeg hBlc
  -- the leading coefficient of b and its inverse
  obtain ⟨lb, hlb⟩ : ∃ lb, b.getLast? = some lb := by
    cases hl : b.getLast? with
    | none => rw [List.getLast?_eq_none_iff] at hl; exact absurd hl hbne
    | some x => exact ⟨x, rfl⟩
  have hlb0 : ((lb : Int) : ZMod p) ≠ 0 := by
    have h1 := norm_last_ne_zero p b lb (by rw [hb]; exact hlb)
    have h2 := norm_entries p hp b lb (by rw [hb]; exact List.mem_of_getLast? hlb)
    exact cast_ne_zero_of_range p hp lb h2.1 h2.2 h1
  rw [hlb, Option.getD_some] at hBlc ⊢
  have hinv := inv_spec p lb hlb0
  intro fuel
  induction fuel with
  | zero =>
    intro q r hm
    unfold divModLoop
    refine ⟨rfl, ?_⟩
    show (toPolyF p r).degree < (toPolyF p b).degree
    unfold msize at hm
    by_cases h0 : toPolyF p r = 0
    · rw [h0, degree_zero]; exact bot_lt_iff_ne_bot.2 (fun h => hB0 (degree_eq_bot.1 h))
    · rw [if_neg h0] at hm
      exact degree_lt_degree (by omega)
  | succ f ih =>
    intro q r hm
    unfold divModLoop
    dsimp only
    by_cases hstop : (norm p r).isEmpty = true ∨ (norm p r).length - 1 < b.length - 1
    · rw [if_pos hstop]
      refine ⟨by rw [toPolyF_norm], ?_⟩
      rw [toPolyF_norm]
      rcases hstop with he | hl
      · have : norm p r = [] := by simpa using he
        rw [(norm_eq_nil_iff p r).1 this, degree_zero]
        exact bot_lt_iff_ne_bot.2 (fun h => hB0 (degree_eq_bot.1 h))
      · by_cases hrn : norm p r = []
        · rw [(norm_eq_nil_iff p r).1 hrn, degree_zero]
          exact bot_lt_iff_ne_bot.2 (fun h => hB0 (degree_eq_bot.1 h))
        · have := (natDegree_norm p r hrn).1
          exact degree_lt_degree (by omega)
    · rw [if_neg hstop]
      push Not at hstop
      obtain ⟨hne, hge⟩ := hstop
      have hrn : norm p r ≠ [] := by simpa using hne
      obtain ⟨hRdeg, hRlc, hR0⟩ := natDegree_norm p r hrn
      -- the cancelling term
      set k := (norm p r).length - 1 - (b.length - 1) with hk
      set c := red p (((norm p r).getLast?.getD 0) * inv p lb) with hc
      have hT : toPolyF p (shift k [c]) = X ^ k * C ((c : Int) : ZMod p) := by
        rw [toPolyF_shift, toPolyF_cons, toPolyF_nil]; simp
      have hcval : ((c : Int) : ZMod p) = (toPolyF p r).leadingCoeff * (((inv p lb : Int)) : ZMod p) := by
        rw [hc, cast_red, hRlc]; push_cast; rfl
      have hc0 : ((c : Int) : ZMod p) ≠ 0 := by
        rw [hcval]
        refine mul_ne_zero (leadingCoeff_ne_zero.2 hR0) (fun h => ?_)
        rw [h, zero_mul] at hinv; exact zero_ne_one hinv
      have hTB0 : X ^ k * C ((c : Int) : ZMod p) * toPolyF p b ≠ 0 :=
        mul_ne_zero (mul_ne_zero (pow_ne_zero _ X_ne_zero) (fun h => hc0 (C_eq_zero.1 h))) hB0
      have hdegTB : (X ^ k * C ((c : Int) : ZMod p) * toPolyF p b).degree = (toPolyF p r).degree := by
        rw [degree_eq_natDegree hTB0, degree_eq_natDegree hR0,
          natDegree_mul (mul_ne_zero (pow_ne_zero _ X_ne_zero) (fun h => hc0 (C_eq_zero.1 h))) hB0,
          natDegree_mul (pow_ne_zero _ X_ne_zero) (fun h => hc0 (C_eq_zero.1 h)), natDegree_X_pow, natDegree_C, hBdeg, hRdeg]
        congr 1; omega
      have hlcTB : (toPolyF p r).leadingCoeff = (X ^ k * C ((c : Int) : ZMod p) * toPolyF p b).leadingCoeff := by
        rw [leadingCoeff_mul, leadingCoeff_mul, leadingCoeff_X_pow, one_mul, leadingCoeff_C, hBlc, hcval, mul_assoc, hinv,
          mul_one]
      have hlt : (toPolyF p r - X ^ k * C ((c : Int) : ZMod p) * toPolyF p b).degree < (toPolyF p r).degree :=
        degree_sub_lt_left hdegTB.symm hR0 hlcTB
      -- the new remainder
      have hnew : toPolyF p (norm p (sub p (norm p r) (mul p (shift k [c]) b))) =
          toPolyF p r - X ^ k * C ((c : Int) : ZMod p) * toPolyF p b := by
        rw [toPolyF_norm, toPolyF_sub, toPolyF_norm, toPolyF_mul, hT]
      have hmeas : msize p (norm p (sub p (norm p r) (mul p (shift k [c]) b))) ≤ f + (b.length - 1) := by
        unfold msize at hm ⊢
        rw [if_neg hR0] at hm
        rw [hnew]
        by_cases h0 : toPolyF p r - X ^ k * C ((c : Int) : ZMod p) * toPolyF p b = 0
        · rw [if_pos h0]; omega
        · rw [if_neg h0]
          have := natDegree_lt_natDegree h0 hlt
          omega
      obtain ⟨ih1, ih2⟩ := ih (add p q (shift k [c])) (norm p (sub p (norm p r) (mul p (shift k [c]) b))) hmeas
      refine ⟨?_, ih2⟩
      rw [ih1, hnew, toPolyF_add, hT]
      ring


theorem trim_idem (q : FPoly) : trim (trim q) = trim q := by
  unfold trim
  rw [List.reverse_reverse, List.dropWhile_idempotent]

theorem norm_idem (q : FPoly) : norm p (norm p q) = norm p q := by
  have hp : 0 < p := hpr.out.pos
  have hmap : (norm p q).map (red p) = norm p q := by
    conv_rhs => rw [← List.map_id (norm p q)]
    apply List.map_congr_left
    intro c hc
    obtain ⟨h0, h1⟩ := norm_entries p hp q c hc
    unfold red
    exact Int.emod_eq_of_lt h0 h1
  show trim ((norm p q).map (red p)) = norm p q
  rw [hmap]
  unfold norm
  exact trim_idem _

theorem msize_le_length (r : FPoly) : msize p r ≤ r.length := by
  unfold msize
  by_cases h0 : toPolyF p r = 0
  · rw [if_pos h0]; omega
  · rw [if_neg h0]
    have := degree_toPolyF_lt p r
    rw [degree_eq_natDegree h0] at this
    have : (toPolyF p r).natDegree < r.length := by exact_mod_cast this
    omega

/-- **division with remainder over Z_p is the polynomial division**: identity and degree bound -/
theorem divMod_spec (a b : FPoly) (hb : norm p b ≠ []) :
    toPolyF p a = toPolyF p (divMod p a b).1 * toPolyF p b + toPolyF p (divMod p a b).2 ∧
    (toPolyF p (divMod p a b).2).degree < (toPolyF p b).degree := by
  unfold divMod
  dsimp only
  have hne : (norm p b).isEmpty = false := by simpa using hb
  rw [if_neg (by simp [hne])]
  have := divModLoop_spec p (norm p b) (norm_idem p b) hb (a.length + 2) [] a
    (by have := msize_le_length p a; omega)
  rw [toPolyF_norm] at this
  obtain ⟨h1, h2⟩ := this
  refine ⟨?_, h2⟩
  rw [h1, toPolyF_nil, zero_mul, zero_add]

/-- the remainder is zero exactly when the divisor divides -/
theorem divMod_zero_iff (a b : FPoly) (hb : norm p b ≠ []) :
    (norm p (divMod p a b).2).isEmpty = true ↔ toPolyF p b ∣ toPolyF p a := by
  obtain ⟨h1, h2⟩ := divMod_spec p a b hb
  rw [List.isEmpty_iff, norm_eq_nil_iff]
  constructor
  · intro h0
    rw [h1, h0, add_zero]
    exact Dvd.intro_left _ rfl
  · intro hd
    have hdr : toPolyF p b ∣ toPolyF p (divMod p a b).2 := by
      have : toPolyF p (divMod p a b).2 = toPolyF p a - toPolyF p (divMod p a b).1 * toPolyF p b := by
        rw [h1]; ring
      rw [this]
      exact dvd_sub hd (Dvd.intro_left _ rfl)
    exact eq_zero_of_dvd_of_degree_lt hdr h2

end FPoly
end LP
