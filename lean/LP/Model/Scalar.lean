/-
  C17 — mirror of src/number/integer.h (ring Z_M on symmetric representatives),
  src/number/dyadic_rational.h/.c and the thin GMP wrappers of src/number/rational.h.
  Core Lean only (this file is linked into the native driver).
-/
import LP.Model.Util
namespace LP

/-! ## integer.h -/

/-- lower bound of the symmetric range, as computed by `lp_int_ring_create`. -/
def lb (M : Nat) : Int := -(((M:Int) - 1) / 2)
/-- upper bound of the symmetric range. -/
def ub (M : Nat) : Int := (M:Int) / 2

/-- `integer_in_ring` for a proper ring. -/
def inRingM (M : Nat) (c : Int) : Bool :=
  if c = 0 then true else if c > 0 then decide (c ≤ ub M) else decide (lb M ≤ c)

/-- `integer_ring_normalize` for a proper ring. -/
def normalizeM (M : Nat) (c : Int) : Int :=
  if inRingM M c then c else
    let r := Int.tmod c M
    if r > 0 then (if r > ub M then r - M else r)
    else if r < 0 then (if r < lb M then r + M else r)
    else r

/-- the coefficient ring: `none` is Z, `some M` is Z_M. -/
abbrev Ring := Option Nat

def norm (K : Ring) (c : Int) : Int :=
  match K with
  | none => c
  | some M => normalizeM M c

def inRing (K : Ring) (c : Int) : Bool :=
  match K with
  | none => true
  | some M => inRingM M c

def iAdd (K : Ring) (a b : Int) : Int := norm K (a + b)
def iSub (K : Ring) (a b : Int) : Int := norm K (a - b)
def iNeg (K : Ring) (a : Int) : Int := norm K (-a)
def iAbs (K : Ring) (a : Int) : Int := norm K (Int.natAbs a)
def iMul (K : Ring) (a b : Int) : Int := norm K (a * b)
def iMulPow2 (K : Ring) (a : Int) (n : Nat) : Int := norm K (a * 2 ^ n)
def iInc (K : Ring) (a : Int) : Int := norm K (a + 1)
def iDec (K : Ring) (a : Int) : Int := norm K (a - 1)
def iAddMul (K : Ring) (s a b : Int) : Int := norm K (s + a * b)
def iSubMul (K : Ring) (s a b : Int) : Int := norm K (s - a * b)

/-- `integer_pow`: `mpz_powm_ui` yields the residue in `[0, M)`, then normalisation. -/
def iPow (K : Ring) (a : Int) (n : Nat) : Int :=
  match K with
  | none => a ^ n
  | some M => normalizeM M ((a ^ n) % (M : Int))

/-- `integer_inv` (`mpz_invert` then normalise); `none` when `a` is not invertible (outside the documented domain). -/
def iInv (M : Nat) (a : Int) : Option Int :=
  let a' := (a % (M : Int)).toNat
  let r := egcd a' M
  if r.1 = 1 then some (normalizeM M (r.2.1 % (M : Int))) else none

/-- `integer_div_exact`. In Z_M the C code returns `c1 * (a / g)` with `g = gcd(b, M) = c1*b + c2*M`;
    the cofactor is determined modulo `M/g` only, so results are compared through the congruence. -/
def iDivExact (K : Ring) (a b : Int) : Int :=
  match K with
  | none => Int.tdiv a b
  | some M =>
    let b' := (b % (M : Int)).toNat
    let r := egcd b' M
    normalizeM M (r.2.1 * (a / (r.1 : Int)))

/-- `integer_divides` (truth value). `isPrime` is the flag stored in the ring. -/
def iDivides (K : Ring) (isPrime : Bool) (a b : Int) : Bool :=
  match K with
  | none => if a = 0 then decide (b = 0) else decide (b % a = 0)
  | some M =>
    if isPrime then decide (a ≠ 0 ∨ b = 0)
    else decide (b % (Int.gcd a M : Int) = 0)

def iSgn (K : Ring) (c : Int) : Int := sgnI (norm K c)
def iCmp (K : Ring) (a b : Int) : Int := cmpI (norm K a) (norm K b)
def iIsZero (K : Ring) (c : Int) : Bool := decide (norm K c = 0)

/-! ## dyadic_rational.h -/

structure Dy where
  a : Int
  n : Nat
  deriving DecidableEq, Repr, Inhabited

namespace Dy

def toRat (q : Dy) : Rat := (q.a : Rat) / ((2 ^ q.n : Nat) : Rat)

/-- strip common factors of two: at most `n` halvings while the numerator is even. -/
def normAux (a : Int) : Nat → Dy
  | 0 => ⟨a, 0⟩
  | n+1 => if a % 2 = 0 then normAux (a / 2) n else ⟨a, n+1⟩

/-- `dyadic_rational_normalize` -/
def normalize (q : Dy) : Dy := if q.a = 0 then ⟨0, 0⟩ else normAux q.a q.n

/-- `dyadic_rational_is_normalized` as the mathematical invariant. -/
def isNormalized (q : Dy) : Bool := (q.a = 0 ∧ q.n = 0) ∨ (q.a % 2 ≠ 0) ∨ (q.a ≠ 0 ∧ q.n = 0)

def ofInt (a : Int) (n : Nat) : Dy := normalize ⟨a, n⟩

def add (x y : Dy) : Dy :=
  if x.n = y.n then normalize ⟨x.a + y.a, x.n⟩
  else if x.n > y.n then normalize ⟨x.a + y.a * 2 ^ (x.n - y.n), x.n⟩
  else normalize ⟨x.a * 2 ^ (y.n - x.n) + y.a, y.n⟩

def addInteger (x : Dy) (b : Int) : Dy :=
  if x.n > 0 then normalize ⟨x.a + b * 2 ^ x.n, x.n⟩ else normalize ⟨x.a + b, x.n⟩

def sub (x y : Dy) : Dy :=
  if x.n = y.n then normalize ⟨x.a - y.a, x.n⟩
  else if x.n > y.n then normalize ⟨x.a - y.a * 2 ^ (x.n - y.n), x.n⟩
  else normalize ⟨x.a * 2 ^ (y.n - x.n) - y.a, y.n⟩

/-- `dyadic_rational_neg` (writes both fields). -/
def neg (x : Dy) : Dy := ⟨-x.a, x.n⟩

def mul (x y : Dy) : Dy := normalize ⟨x.a * y.a, x.n + y.n⟩

/-- `dyadic_rational_mul_2exp` -/
def mul2exp (x : Dy) (k : Nat) : Dy :=
  if x.n ≥ k then ⟨x.a, x.n - k⟩ else ⟨x.a * 2 ^ (k - x.n), 0⟩

def div2exp (x : Dy) (k : Nat) : Dy := normalize ⟨x.a, x.n + k⟩

def pow (x : Dy) (k : Nat) : Dy := ⟨x.a ^ k, x.n * k⟩

def sgn (x : Dy) : Int := sgnI x.a

/-- `dyadic_rational_cmp` -/
def cmp (x y : Dy) : Int :=
  let sx := sgnI x.a
  let sy := sgnI y.a
  if sx = sy then
    if sx = 0 then 0
    else if x.n = y.n then cmpI x.a y.a
    else if x.n > y.n then cmpI x.a (y.a * 2 ^ (x.n - y.n))
    else cmpI (x.a * 2 ^ (y.n - x.n)) y.a
  else sx - sy

def floor (x : Dy) : Int := if x.n > 0 then x.a / 2 ^ x.n else x.a
def ceil (x : Dy) : Int := if x.n > 0 then cdiv x.a (2 ^ x.n) else x.a
def getNum (x : Dy) : Int := x.a
def getDen (x : Dy) : Int := 2 ^ x.n
def isInteger (x : Dy) : Bool := x.n = 0

/-- `dyadic_rational_root_approx`: floor (or ceiling) of the n-th root of `a ≥ 0` with at least
    `prec` fractional bits; returns (result, exact). -/
def rootApprox (x : Dy) (n prec : Nat) (ceil : Bool) : Dy × Bool :=
  if x.a = 0 then (⟨x.a, x.n⟩, true) else
    let k0 := if x.n < prec then prec else x.n
    let k := k0 + (n - k0 % n) % n
    let v := (x.a * 2 ^ (k - x.n)).toNat
    let r := iroot n v
    let exact := decide (r ^ n = v)
    let r' := if ceil ∧ ¬ exact then r + 1 else r
    (normalize ⟨(r' : Int), k / n⟩, exact)

/-- the bisection loop of `dyadic_rational_get_value_between` (fuel-bounded). -/
def betweenLoop (a b : Rat) : Nat → Dy → Dy → Option Dy
  | 0, _, _ => none
  | fuel+1, lo, hi =>
    let m := div2exp (add lo hi) 1
    if a ≥ m.toRat then betweenLoop a b fuel m hi
    else if b ≤ m.toRat then betweenLoop a b fuel lo m
    else some m

/-- `dyadic_rational_get_value_between` for `a < b`. -/
def valueBetween (a b : Rat) (fuel : Nat) : Option Dy :=
  let m := (a + b) / 2
  let fl := m.floor
  let ce := fl + 1
  if a < (fl : Rat) then some (normalize ⟨fl, 0⟩)
  else if b > (ce : Rat) then some (normalize ⟨ce, 0⟩)
  else betweenLoop a b fuel (normalize ⟨fl, 0⟩) (normalize ⟨ce, 0⟩)

end Dy

/-! ## IEEE-754 binary64 decoding (`mpq_set_d`) -/

/-- exact value of the finite double with the given bit pattern, as (mantissa, exponent of two). -/
def doubleParts (bits : Nat) : Int × Int :=
  let s := bits / 2 ^ 63
  let e : Nat := (bits / 2 ^ 52) % 2 ^ 11
  let m : Nat := bits % 2 ^ 52
  let mant : Nat := if e = 0 then m else m + 2 ^ 52
  let ex : Int := if e = 0 then -1074 else (e : Int) - 1075
  ((if s = 1 then -(mant : Int) else (mant : Int)), ex)

def doubleIsFinite (bits : Nat) : Bool := (bits / 2 ^ 52) % 2 ^ 11 ≠ 2047

def doubleToRat (bits : Nat) : Rat :=
  let p := doubleParts bits
  if p.2 ≥ 0 then ((p.1 * 2 ^ p.2.toNat : Int) : Rat) else mkRat p.1 (2 ^ (-p.2).toNat)

def doubleToDy (bits : Nat) : Dy :=
  let p := doubleParts bits
  if p.2 ≥ 0 then Dy.normalize ⟨p.1 * 2 ^ p.2.toNat, 0⟩ else Dy.normalize ⟨p.1, (-p.2).toNat⟩

/-! ## rational.h (GMP `mpq` wrappers; core `Rat` is the canonical-form model) -/

def qOfDiv (num den : Int) : Rat := Rat.divInt num den
def qOfDy (d : Dy) : Rat := d.toRat
/-- `rational_pow` (square and multiply loop). -/
def qPowLoop : Nat → Nat → Rat → Rat → Rat
  | 0, _, result, _ => result
  | fuel+1, n, result, tmp =>
    if n = 0 then result else
      qPowLoop fuel (n / 2) (if n % 2 = 1 then result * tmp else result) (tmp * tmp)
def qPow (a : Rat) (n : Nat) : Rat := qPowLoop (n + 1) n 1 a
def qMul2exp (a : Rat) (n : Nat) : Rat := a * ((2 ^ n : Nat) : Rat)
def qDiv2exp (a : Rat) (n : Nat) : Rat := a / ((2 ^ n : Nat) : Rat)
def qFloor (a : Rat) : Int := a.num / (a.den : Int)
def qCeil (a : Rat) : Int := cdiv a.num (a.den : Int)
def qIsInteger (a : Rat) : Bool := a.den = 1

end LP
