/* C15 harness (third part): value intervals whose end points are irrational algebraic numbers (the end points of sums,
 * products and powers are then computed by lower / upper approximations and must be made open unless exact).
 *   via add|mul <I1> <I2> => <R>      via pow <I> <n> => <R>
 * Intervals are printed as [V] or (V~V] with the value tokens of halg.h.
 */
#include "halg.h"
#include <interval.h>

static void sb_vinterval(const lp_interval_t* I) {
  if (I->is_point) { sb_str("["); sb_val(&I->a); sb_str("]"); return; }
  sb_str(I->a_open ? "(" : "["); sb_val(&I->a); sb_str("~"); sb_val(&I->b); sb_str(I->b_open ? ")" : "]");
}

/* end-point pool: +-sqrt2, +-sqrt3, +-sqrt5, +-sqrt7 and rationals of every exact kind; index = position on the line */
typedef struct { double approx; lp_value_t v; } epnt;
static epnt EP[40]; static int nep;

static void ep_add_root(long m, int neg) {
  long c[3] = { -m, 0, 1 };
  lp_upolynomial_t* f = lp_upolynomial_construct_from_long(lp_Z, 2, c);
  lp_algebraic_number_t roots[2]; size_t n = 0;
  lp_upolynomial_roots_isolate(f, roots, &n);
  lp_value_construct(&EP[nep].v, LP_VALUE_ALGEBRAIC, &roots[neg ? 0 : 1]);
  EP[nep].approx = lp_value_to_double(&EP[nep].v); ++nep;
  for (size_t i = 0; i < n; ++i) lp_algebraic_number_destruct(&roots[i]);
  lp_upolynomial_delete(f);
}
static void ep_add_rat(long num, unsigned long den, int kind) {
  lp_rational_t q; lp_rational_construct_from_int(&q, num, den);
  if (kind == 0 && den == 1) { lp_integer_t z; lp_integer_construct_from_int(lp_Z, &z, num); lp_value_construct(&EP[nep].v, LP_VALUE_INTEGER, &z); lp_integer_destruct(&z); }
  else if (kind <= 1 && (den & (den - 1)) == 0) { lp_dyadic_rational_t d; lp_dyadic_rational_construct_from_int(&d, num, __builtin_ctzl(den)); lp_value_construct(&EP[nep].v, LP_VALUE_DYADIC_RATIONAL, &d); lp_dyadic_rational_destruct(&d); }
  else lp_value_construct(&EP[nep].v, LP_VALUE_RATIONAL, &q);
  EP[nep].approx = (double)num / (double)den; ++nep;
  lp_rational_destruct(&q);
}
static int ep_cmp(const void* a, const void* b) { double x = ((const epnt*)a)->approx, y = ((const epnt*)b)->approx; return x < y ? -1 : x > y; }
static void ep_build(void) {
  nep = 0;
  static const long ms[] = { 2, 3, 5, 7 };
  for (int i = 0; i < 4; ++i) { ep_add_root(ms[i], 0); ep_add_root(ms[i], 1); }
  for (long k = -3; k <= 3; ++k) ep_add_rat(k, 1, (int)rnd(3));
  ep_add_rat(1, 2, 1); ep_add_rat(-1, 2, 1); ep_add_rat(3, 2, 2); ep_add_rat(-5, 2, 1); ep_add_rat(7, 3, 2); ep_add_rat(-4, 3, 2); ep_add_rat(5, 1, 0); ep_add_rat(-5, 1, 0);
  qsort(EP, nep, sizeof EP[0], ep_cmp);
}
static void ep_clear(void) { for (int i = 0; i < nep; ++i) lp_value_destruct(&EP[i].v); nep = 0; }

static void gen_interval(lp_interval_t* I, int want_alg) {
  for (;;) {
    int i = (int)rnd(nep), j = (int)rnd(nep);
    if (chance(15)) j = i;
    if (i > j) { int t = i; i = j; j = t; }
    int alg = EP[i].v.type == LP_VALUE_ALGEBRAIC || EP[j].v.type == LP_VALUE_ALGEBRAIC;
    if (want_alg && !alg) continue;
    if (i == j) { lp_interval_construct_point(I, &EP[i].v); return; }     /* point intervals, irrational ones included */
    lp_interval_construct(I, &EP[i].v, (int)rnd(2), &EP[j].v, (int)rnd(2));
    return;
  }
}

static void via_case(void) {
  ep_build();
  lp_interval_t A, B, R;
  gen_interval(&A, 1); gen_interval(&B, chance(60));
  unsigned op = rnd(3);
  unsigned pre = rnd(3);
  if (pre == 0) lp_interval_construct_zero(&R); else if (pre == 1) lp_interval_construct_full(&R); else lp_interval_construct_copy(&R, &B);
  if (op < 2) {
    sb_begin("via", op == 0 ? "add" : "mul"); sb_sp(); sb_vinterval(&A); sb_sp(); sb_vinterval(&B); sb_arrow();
    if (op == 0) lp_interval_add(&R, &A, &B); else lp_interval_mul(&R, &A, &B);
  } else {
    unsigned n = rnd(5);
    sb_begin("via", "pow"); sb_sp(); sb_vinterval(&A); sb_sp(); sb_ulong(n); sb_arrow();
    lp_interval_pow(&R, &A, n);
  }
  sb_sp(); sb_vinterval(&R); sb_emit();
  lp_interval_destruct(&A); lp_interval_destruct(&B); lp_interval_destruct(&R);
  ep_clear();
}

int main(int argc, char** argv) {
  uint64_t seed = argc > 1 ? strtoull(argv[1], 0, 10) : 1;
  long n = argc > 2 ? atol(argv[2]) : 1000;
  long only = argc > 3 ? atol(argv[3]) : -1;
  long start = argc > 4 ? atol(argv[4]) : 0;
  lpv_init(); hp_init();
  for (long i = 0; i < n; ++i) {
    if ((only >= 0 && i != only) || i < start) continue;
    lpv_begin_case(seed, i);
    via_case();
  }
  hp_done();
  free(sb_buf);
  return 0;
}
