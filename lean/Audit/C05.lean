import LP.Props.C05
import LP.Props.C03Fp
import LP.Props.C05ModP
import LP.Props.C05FpDiv
import LP.Props.C05FpIrr
import LP.Props.C05CertModP
import LP.Props.C05Unique
#print axioms LP.Factor.toPolyZ_mul
#print axioms LP.Factor.toPolyZ_pow
#print axioms LP.Factor.toPolyZ_trim
#print axioms LP.Factor.toPolyZ_product
#print axioms LP.Factor.C05_product_sound
#print axioms LP.QPoly.C05_sqfree_cert_sound
#print axioms LP.QPoly.C03_coprimeCert_sound
#print axioms LP.FPoly.coprimeCert_sound
#print axioms LP.C05_irreducible_of_mod_p
#print axioms LP.C05_irreducible_of_degree_one
#print axioms LP.FPoly.natDegree_norm
#print axioms LP.FPoly.divModLoop_spec
#print axioms LP.FPoly.divMod_spec
#print axioms LP.FPoly.divMod_zero_iff
#print axioms LP.FPoly.monics_complete
#print axioms LP.FPoly.irreducible_of_no_small_monic_divisor
#print axioms LP.FPoly.irreducibleFp_sound
#print axioms LP.leadingCoeff_toPolyZ
#print axioms LP.C05_certModP_sound
#print axioms LP.C05_factorization_unique
