/* C07 harness: real algebraic numbers.
 * A pool is built per case from the real roots of small integer polynomials (conjugates included, so that sums and
 * products collapse to rationals), dyadic points, rationals disguised as algebraic numbers (3x-1), close rational
 * neighbours of pool members, and results of earlier operations.  Operands are printed BEFORE each call (calls
 * refine their const operands in place).
 *   alg add|sub|mul|div A B => R      alg neg|inv A => R      alg pow|root A n => R
 *   alg cmp A B => c   alg cmpz|cmpd|cmpq A x => c   alg sgn|floor|ceil|isint A => v
 *   alg rat A => is_rational to_rational      alg dbl A => to_double (exact rational value of the double)
 */
#include "halg.h"

#define POOL 24
static lp_algebraic_number_t pool[POOL]; static int npool;

static const long blocks[][6] = {
  /* deg, c0.. */
  {2, -2, 0, 1}, {2, -3, 0, 1}, {2, -1, -1, 1}, {2, -1, 0, 2}, {2, -5, 0, 1}, {2, -2, -2, 1}, {2, -1, -4, 4}, {2, -8, 0, 1}, {2, -2, 0, 9},
  {3, -2, 0, 0, 1}, {3, 1, -3, 0, 1}, {3, -1, -1, 0, 1}, {2, -6, 0, 1}, {2, 1, -3, 1}, {2, -7, 2, 1},
  /* reducible (non-minimal defining polynomials, kept whole by root isolation): (x^2-2)(x-3), (x^2-2)(2x-1), (x^2-3)(x+1),
     (x^2-2)(x^2-3), (x^2-2)(x-1)(x-2), (x^2-x-1)(x-2) */
  {3, 6, -2, -3, 1}, {3, 2, -4, -1, 2}, {3, -3, -3, 1, 1}, {4, 6, 0, -5, 0, 1}, {4, -4, 6, 0, -3, 1}, {3, 2, 1, -3, 1},
};
#define NBLOCKS (sizeof blocks / sizeof blocks[0])

/* the same number built through the public constructor from a caller-chosen isolating interval: wide (several integers
   inside), end points with different denominators, anywhere between the neighbouring roots */
static void dy_between(lp_dyadic_rational_t* out, const lp_dyadic_rational_t* lo, const lp_dyadic_rational_t* hi) {
  /* lo + t*(hi - lo), t in {1/8, 1/4, 1/2, 3/4, 7/8} */
  static const long tn[] = { 1, 1, 1, 3, 7 }; static const unsigned tk[] = { 3, 2, 1, 2, 3 };
  unsigned w = rnd(5);
  lp_dyadic_rational_t d; lp_dyadic_rational_construct(&d);
  lp_dyadic_rational_sub(&d, hi, lo);
  lp_dyadic_rational_t m; lp_dyadic_rational_construct_from_int(&m, tn[w], 0);
  lp_dyadic_rational_mul(&d, &d, &m);
  lp_dyadic_rational_div_2exp(&d, &d, tk[w]);
  lp_dyadic_rational_add(out, lo, &d);
  lp_dyadic_rational_destruct(&m); lp_dyadic_rational_destruct(&d);
}
static void pool_add_wide(const lp_upolynomial_t* f, const lp_algebraic_number_t* roots, size_t n, size_t i) {
  if (roots[i].I.is_point || npool >= POOL - 6) return;
  lp_dyadic_rational_t lo, hi, l, u, three;
  lp_dyadic_rational_construct_from_int(&three, 1 + (long)rnd(4), 0);
  lp_dyadic_rational_construct(&lo); lp_dyadic_rational_construct(&hi); lp_dyadic_rational_construct(&l); lp_dyadic_rational_construct(&u);
  if (i > 0) lp_dyadic_rational_assign(&lo, roots[i - 1].I.is_point ? &roots[i - 1].I.a : &roots[i - 1].I.b);
  else lp_dyadic_rational_sub(&lo, &roots[i].I.a, &three);
  if (i + 1 < n) lp_dyadic_rational_assign(&hi, &roots[i + 1].I.a);
  else lp_dyadic_rational_add(&hi, &roots[i].I.b, &three);
  dy_between(&l, &lo, &roots[i].I.a); dy_between(&u, &roots[i].I.b, &hi);
  if (chance(50)) { /* a lower end close to zero with a fine denominator, when it still isolates the root */
    static const long sn[] = { 1, 1, 1, -1, -1, -1, 3, -3 }; static const unsigned sk[] = { 3, 2, 1, 3, 2, 1, 3, 2 };
    unsigned w = rnd(8); lp_dyadic_rational_t c; lp_dyadic_rational_construct_from_int(&c, sn[w], sk[w]);
    if (lp_dyadic_rational_cmp(&lo, &c) < 0 && lp_dyadic_rational_cmp(&c, &roots[i].I.a) < 0) lp_dyadic_rational_assign(&l, &c);
    lp_dyadic_rational_destruct(&c);
  }
  if (chance(50)) { /* an upper end with a coarse denominator: integer or half-integer */
    lp_integer_t z; lp_integer_construct(&z); lp_dyadic_rational_ceiling(&roots[i].I.b, &z);
    lp_dyadic_rational_t c; lp_dyadic_rational_construct_from_integer(&c, &z);
    lp_dyadic_rational_t e; lp_dyadic_rational_construct_from_int(&e, (long)rnd(6), 1);      /* + 0, 1/2, .., 5/2 */
    lp_dyadic_rational_add(&c, &c, &e);
    if (lp_dyadic_rational_cmp(&roots[i].I.b, &c) <= 0 && lp_dyadic_rational_cmp(&c, &hi) < 0) lp_dyadic_rational_assign(&u, &c);
    lp_dyadic_rational_destruct(&c); lp_dyadic_rational_destruct(&e); lp_integer_destruct(&z);
  }
  lp_dyadic_interval_t I; lp_dyadic_interval_construct(&I, &l, 1, &u, 1);
  lp_algebraic_number_construct(&pool[npool++], lp_upolynomial_construct_copy(f), &I);
  lp_dyadic_interval_destruct(&I);
  { /* what the constructor made of the interval is observed at once (floor / ceiling / integrality rely on its normalisation) */
    const lp_algebraic_number_t* a = &pool[npool - 1]; lp_integer_t z; lp_integer_construct(&z);
    sb_begin("alg", "floor"); sb_sp(); sb_alg(a); sb_arrow(); lp_algebraic_number_floor(a, &z); sb_sp(); sb_mpz(&z); sb_emit();
    sb_begin("alg", "ceil"); sb_sp(); sb_alg(a); sb_arrow(); lp_algebraic_number_ceiling(a, &z); sb_sp(); sb_mpz(&z); sb_emit();
    sb_begin("alg", "isint"); sb_sp(); sb_alg(a); sb_arrow(); sb_sp(); sb_long(lp_algebraic_number_is_integer(a)); sb_emit();
    lp_integer_destruct(&z);
  }
  lp_dyadic_rational_destruct(&lo); lp_dyadic_rational_destruct(&hi); lp_dyadic_rational_destruct(&l); lp_dyadic_rational_destruct(&u); lp_dyadic_rational_destruct(&three);
}

static void pool_add_roots(const long* b) {
  lp_upolynomial_t* f = lp_upolynomial_construct_from_long(lp_Z, b[0], b + 1);
  lp_algebraic_number_t roots[4]; size_t n = 0;
  lp_upolynomial_roots_isolate(f, roots, &n);
  if (n && chance(35)) pool_add_wide(f, roots, n, rnd(n));
  for (size_t i = 0; i < n; ++i) { if (npool < POOL - 6) pool[npool++] = roots[i]; else lp_algebraic_number_destruct(&roots[i]); }
  lp_upolynomial_delete(f);
}

static void pool_add_rational(long num, long den) {
  lp_rational_t q; lp_rational_construct_from_int(&q, num, den);
  lp_algebraic_number_construct_from_rational(&pool[npool++], &q);
  lp_rational_destruct(&q);
}

/* a dyadic rational close to pool[i] (after k refinements of a copy) */
static void pool_add_neighbour(int i, int k) {
  lp_algebraic_number_t c; lp_algebraic_number_construct_copy(&c, &pool[i]);
  for (int j = 0; j < k && c.f; ++j) lp_algebraic_number_refine(&c);
  lp_dyadic_rational_t m; lp_dyadic_rational_construct(&m);
  lp_algebraic_number_get_dyadic_midpoint(&c, &m);
  lp_algebraic_number_construct_from_dyadic_rational(&pool[npool++], &m);
  lp_dyadic_rational_destruct(&m); lp_algebraic_number_destruct(&c);
}

static void build_pool(void) {
  npool = 0;
  int nb = 1 + rnd(2);
  for (int i = 0; i < nb; ++i) pool_add_roots(blocks[rnd(NBLOCKS)]);
  if (chance(50)) pool_add_roots(blocks[rnd(9)]);
  int nr = 1 + rnd(3);
  for (int i = 0; i < nr && npool < POOL - 4; ++i) {
    unsigned k = rnd(6);
    if (k == 0) lp_algebraic_number_construct_zero(&pool[npool++]);
    else if (k == 1) lp_algebraic_number_construct_one(&pool[npool++]);
    else if (k == 2) pool_add_rational(rnd_in(-5, 5), 1);
    else if (k == 3) pool_add_rational(rnd_in(-7, 7), 1 << rnd(4));
    else pool_add_rational(rnd_in(-7, 7), 1 + rnd(7));
  }
  /* unit fractions and p/q with small p: their inverses and quotients are integers (or dyadic) reached through isolating
     intervals that are not aligned with the bisection grid */
  if (chance(45) && npool < POOL - 4) { long k = 2 + rnd(40); pool_add_rational(chance(50) ? 1 : -1, k); if (chance(50)) pool_add_rational(rnd_in(1, 4) * (chance(50) ? 1 : -1), k); }
  if (npool > 0 && chance(40) && npool < POOL - 2) pool_add_neighbour(rnd(npool), 3 + rnd(30));
}

static int degree_of(const lp_algebraic_number_t* a) { return a->f ? (int)lp_upolynomial_degree(a->f) : 1; }

static void push_result(lp_algebraic_number_t* r) {
  if (npool < POOL && degree_of(r) <= 4) { pool[npool++] = *r; }
  else lp_algebraic_number_destruct(r);
}

static void one_op(void) {
  int i = rnd(npool), j = rnd(npool);
  lp_algebraic_number_t* a = &pool[i]; lp_algebraic_number_t* b = &pool[j];
  unsigned op = rnd(100);
  lp_algebraic_number_t r;
  if (op < 40) {                     /* binary arithmetic */
    if (degree_of(a) + degree_of(b) > 6) return;
    unsigned k = rnd(4);
    const char* name = k == 0 ? "add" : k == 1 ? "sub" : k == 2 ? "mul" : "div";
    if (k == 3 && lp_algebraic_number_sgn(b) == 0) return;
    unsigned dk = rnd(4); char nm[16]; snprintf(nm, sizeof nm, "%s@%c", name, "fpab"[dk]);
    const lp_algebraic_number_t* A2 = a; const lp_algebraic_number_t* B2 = b;
    sb_begin("alg", nm); sb_sp(); sb_alg(a); sb_sp(); sb_alg(b); sb_arrow();
    /* destination: fresh zero, pre-used (any pool member), or an alias (copy) of an operand */
    if (dk == 0) lp_algebraic_number_construct_zero(&r);
    else if (dk == 1) lp_algebraic_number_construct_copy(&r, &pool[rnd(npool)]);
    else if (dk == 2) { lp_algebraic_number_construct_copy(&r, a); A2 = &r; }
    else { lp_algebraic_number_construct_copy(&r, b); B2 = &r; }
    if (k == 0) lp_algebraic_number_add(&r, A2, B2); else if (k == 1) lp_algebraic_number_sub(&r, A2, B2);
    else if (k == 2) lp_algebraic_number_mul(&r, A2, B2); else lp_algebraic_number_div(&r, A2, B2);
    sb_sp(); sb_alg(&r); sb_emit();
    push_result(&r);
  } else if (op < 50) {              /* neg, inv */
    int inv = chance(50);
    if (inv && lp_algebraic_number_sgn(a) == 0) return;
    unsigned dk = rnd(3); char nm[16]; snprintf(nm, sizeof nm, "%s@%c", inv ? "inv" : "neg", "fpa"[dk]);
    const lp_algebraic_number_t* A2 = a;
    sb_begin("alg", nm); sb_sp(); sb_alg(a); sb_arrow();
    if (dk == 0) lp_algebraic_number_construct_zero(&r);
    else if (dk == 1) lp_algebraic_number_construct_copy(&r, &pool[rnd(npool)]);
    else { lp_algebraic_number_construct_copy(&r, a); A2 = &r; }
    if (inv) lp_algebraic_number_inv(&r, A2); else lp_algebraic_number_neg(&r, A2);
    sb_sp(); sb_alg(&r); sb_emit();
    push_result(&r);
  } else if (op < 60) {              /* pow, root */
    int root = chance(50); unsigned n = root ? 2 + rnd(3) : rnd(5);
    if (degree_of(a) > 3) return;
    if (root && lp_algebraic_number_sgn(a) < 0) return;
    unsigned dk = rnd(3); char nm[16]; snprintf(nm, sizeof nm, "%s@%c", root ? "root" : "pow", "fpa"[dk]);
    const lp_algebraic_number_t* A2 = a;
    sb_begin("alg", nm); sb_sp(); sb_alg(a); sb_sp(); sb_ulong(n); sb_arrow();
    if (dk == 0) lp_algebraic_number_construct_zero(&r);
    else if (dk == 1) lp_algebraic_number_construct_copy(&r, &pool[rnd(npool)]);
    else { lp_algebraic_number_construct_copy(&r, a); A2 = &r; }
    if (root) lp_algebraic_number_positive_root(&r, A2, n); else lp_algebraic_number_pow(&r, A2, n);
    sb_sp(); sb_alg(&r); sb_emit();
    push_result(&r);
  } else if (op < 72) {
    sb_begin("alg", "cmp"); sb_sp(); sb_alg(a); sb_sp(); sb_alg(b); sb_arrow();
    int c = lp_algebraic_number_cmp(a, b);
    sb_sp(); sb_long(c); sb_emit();
  } else if (op < 80) {              /* compare with integer / dyadic / rational near the number */
    unsigned k = rnd(3);
    lp_rational_t q; lp_rational_construct(&q);
    if (chance(60)) { lp_algebraic_number_t c; lp_algebraic_number_construct_copy(&c, a); for (unsigned t = rnd(12); t > 0 && c.f; --t) lp_algebraic_number_refine(&c);
      lp_algebraic_number_get_rational_midpoint(&c, &q); lp_algebraic_number_destruct(&c); }
    else { lp_rational_destruct(&q); lp_rational_construct_from_int(&q, rnd_in(-6, 6), 1 + rnd(5)); }
    /* the value of another pool member: for non-minimal defining polynomials these are the OTHER roots of a's polynomial */
    int exactz = 0;
    if (chance(35) && lp_algebraic_number_is_rational(b)) { lp_algebraic_number_to_rational(b, &q); exactz = lp_algebraic_number_is_integer(b); }
    /* an integer root of a's own (non-minimal) defining polynomial: f(z) = 0 says nothing about a == z */
    if (!exactz && a->f && chance(30)) {
      long cand[13]; int nc = 0; lp_integer_t z; lp_integer_construct(&z);
      for (long t = -6; t <= 6; ++t) { lp_integer_assign_int(lp_Z, &z, t); if (lp_upolynomial_sgn_at_integer(a->f, &z) == 0) cand[nc++] = t; }
      if (nc) { lp_rational_destruct(&q); lp_rational_construct_from_int(&q, cand[rnd(nc)], 1); exactz = 1; }
      lp_integer_destruct(&z);
    }
    if (exactz) k = chance(60) ? 0 : 2;
    if (k == 0) {
      lp_integer_t z; lp_integer_construct(&z); lp_rational_floor(&q, &z); if (!exactz && chance(50)) lp_integer_inc(lp_Z, &z);
      sb_begin("alg", "cmpz"); sb_sp(); sb_alg(a); sb_sp(); sb_mpz(&z); sb_arrow();
      int c = lp_algebraic_number_cmp_integer(a, &z); sb_sp(); sb_long(c); sb_emit();
      lp_integer_destruct(&z);
    } else if (k == 1) {
      lp_dyadic_rational_t d; lp_dyadic_rational_construct(&d);
      lp_algebraic_number_t c; lp_algebraic_number_construct_copy(&c, a); for (unsigned t = rnd(10); t > 0 && c.f; --t) lp_algebraic_number_refine(&c);
      lp_algebraic_number_get_dyadic_midpoint(&c, &d); lp_algebraic_number_destruct(&c);
      sb_begin("alg", "cmpd"); sb_sp(); sb_alg(a); sb_sp(); sb_dyq(&d); sb_arrow();
      int cc = lp_algebraic_number_cmp_dyadic_rational(a, &d); sb_sp(); sb_long(cc); sb_emit();
      lp_dyadic_rational_destruct(&d);
    } else {
      sb_begin("alg", "cmpq"); sb_sp(); sb_alg(a); sb_sp(); sb_mpq(&q); sb_arrow();
      int c = lp_algebraic_number_cmp_rational(a, &q); sb_sp(); sb_long(c); sb_emit();
    }
    lp_rational_destruct(&q);
  } else if (op < 92) {
    unsigned k = rnd(4);
    lp_integer_t z; lp_integer_construct(&z);
    if (k == 0) { sb_begin("alg", "sgn"); sb_sp(); sb_alg(a); sb_arrow(); int s = lp_algebraic_number_sgn(a); sb_sp(); sb_long(s); sb_emit(); }
    else if (k == 1) { sb_begin("alg", "floor"); sb_sp(); sb_alg(a); sb_arrow(); lp_algebraic_number_floor(a, &z); sb_sp(); sb_mpz(&z); sb_emit(); }
    else if (k == 2) { sb_begin("alg", "ceil"); sb_sp(); sb_alg(a); sb_arrow(); lp_algebraic_number_ceiling(a, &z); sb_sp(); sb_mpz(&z); sb_emit(); }
    else { sb_begin("alg", "isint"); sb_sp(); sb_alg(a); sb_arrow(); int s = lp_algebraic_number_is_integer(a); sb_sp(); sb_long(s); sb_emit(); }
    lp_integer_destruct(&z);
  } else if (op < 96) {
    lp_rational_t q; lp_rational_construct(&q);
    sb_begin("alg", "rat"); sb_sp(); sb_alg(a); sb_arrow();
    int ir = lp_algebraic_number_is_rational(a);
    lp_algebraic_number_to_rational(a, &q);
    sb_sp(); sb_long(ir); sb_sp(); sb_mpq(&q); sb_emit();
    lp_rational_destruct(&q);
  } else {
    sb_begin("alg", "dbl"); sb_sp(); sb_alg(a); sb_arrow();
    double d = lp_algebraic_number_to_double(a);
    mpq_t q; mpq_init(q); mpq_set_d(q, d);
    sb_sp(); sb_mpq(q); sb_emit();
    mpq_clear(q);
  }
}

int main(int argc, char** argv) {
  uint64_t seed = argc > 1 ? strtoull(argv[1], 0, 10) : 1;
  long n = argc > 2 ? atol(argv[2]) : 1000;
  long only = argc > 3 ? atol(argv[3]) : -1;
  long start = argc > 4 ? atol(argv[4]) : 0;
  lpv_init(); hp_init();
  for (long i = 0; i < n; ++i) {
    if ((only >= 0 && i != only) || i < start) continue;
    lpv_begin_case(seed, i);
    build_pool();
    int nops = 4 + rnd(8);
    for (int k = 0; k < nops; ++k) one_op();
    for (int k = 0; k < npool; ++k) lp_algebraic_number_destruct(&pool[k]);
    npool = 0;
  }
  hp_done();
  free(sb_buf);
  return 0;
}
