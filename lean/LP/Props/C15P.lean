/-
  C15 — polynomial evaluation over a box of intervals encloses the value at every point of the box
  (`polyValue_encloses`, for the mirror of `coefficient_interval_value`), and the interval form of the sign-condition test
  answers true only if every point of the interval satisfies the condition (`consistentInterval_sound`).
-/
import LP.Model.IntervalPoly
import LP.Props.C15
import LP.Props.C13
import LP.Props.Elim

namespace LP
open MPoly

namespace QI

theorem list_range_sum (f : ℕ → ℝ) (n : ℕ) : ((List.range n).map f).sum = ∑ i ∈ Finset.range n, f i := by
  induction n with
  | zero => simp
  | succ n ih => rw [List.range_succ, List.map_append, List.sum_append, ih, Finset.sum_range_succ]; simp

theorem mono_degree_le' (y : ℕ) : ∀ (p : MPoly) (acc : ℕ),
    acc ≤ p.foldl (fun acc t => max acc (Mono.degreeIn y t.1)) acc ∧
    ∀ t ∈ p, Mono.degreeIn y t.1 ≤ p.foldl (fun acc t => max acc (Mono.degreeIn y t.1)) acc := by
  intro p
  induction p with
  | nil => intro acc; exact ⟨le_refl _, fun t ht => by simp at ht⟩
  | cons t p ih =>
    intro acc
    rw [List.foldl_cons]
    obtain ⟨h1, h2⟩ := ih (max acc (Mono.degreeIn y t.1))
    refine ⟨le_trans (le_max_left _ _) h1, fun t' ht' => ?_⟩
    rw [List.mem_cons] at ht'
    rcases ht' with rfl | ht'
    · exact le_trans (le_max_right _ _) h1
    · exact h2 t' ht'

theorem constVal_eval (p : MPoly) (c : Int) (h : constVal p = some c) (ν : ℕ → ℝ) : evalAt ν p = (c : ℝ) := by
  unfold constVal at h
  match p, h with
  | [], h => simp only [Option.some.injEq] at h; subst h; simp [evalAt_nil]
  | [([], c')], h =>
    simp only [Option.some.injEq] at h; subst h
    rw [evalAt_cons, evalAt_nil]
    simp [Mono.toFinsupp_nil]

/-- the inner loop: the accumulator encloses the partial sum -/
theorem sumPowers_encloses (X : QI) (x : ℕ) (p : MPoly) (sub : MPoly → Option QI) (ν : ℕ → ℝ)
    (hX : X.WF) (hXm : X.Mem (ν x))
    (hsub : ∀ c V, sub c = some V → V.Mem (evalAt ν c) ∧ V.WF) :
    ∀ (is : List ℕ) (acc V : QI) (a : ℝ), acc.Mem a → acc.WF → sumPowers X x p sub is acc = some V →
      V.Mem (a + (is.map (fun i => evalAt ν (MPoly.coeffIn none x i p) * ν x ^ i)).sum) ∧ V.WF := by
  intro is
  induction is with
  | nil =>
    intro acc V a ha hw h
    simp only [sumPowers, Option.some.injEq] at h
    subst h
    simpa using ⟨ha, hw⟩
  | cons i is ih =>
    intro acc V a ha hw h
    rw [sumPowers] at h
    by_cases hc : (MPoly.coeffIn none x i p).isEmpty = true
    · rw [if_pos hc] at h
      have h0 : evalAt ν (MPoly.coeffIn none x i p) = 0 := by
        have : MPoly.coeffIn none x i p = [] := List.isEmpty_iff.1 hc
        rw [this, evalAt_nil]
      have := ih acc V a ha hw h
      rw [List.map_cons, List.sum_cons, h0, zero_mul, zero_add]
      exact this
    · rw [if_neg hc] at h
      cases hs : sub (MPoly.coeffIn none x i p) with
      | none => rw [hs] at h; simp at h
      | some Vc =>
        rw [hs] at h
        simp only at h
        obtain ⟨hVc, hVw⟩ := hsub _ Vc hs
        obtain ⟨hp1, hp2⟩ := C15_pow X hX i (ν x) hXm
        obtain ⟨hm1, hm2⟩ := C15_mul (pow X i) Vc hp2 hVw _ _ hp1 hVc
        obtain ⟨ha1, ha2⟩ := C15_add acc (mul (pow X i) Vc) hw hm2 _ _ ha hm1
        have := ih _ V _ ha1 ha2 h
        rw [List.map_cons, List.sum_cons]
        have e : a + ν x ^ i * evalAt ν (MPoly.coeffIn none x i p) +
            (is.map (fun i => evalAt ν (MPoly.coeffIn none x i p) * ν x ^ i)).sum =
            a + (evalAt ν (MPoly.coeffIn none x i p) * ν x ^ i +
            (is.map (fun i => evalAt ν (MPoly.coeffIn none x i p) * ν x ^ i)).sum) := by ring
        rw [← e]; exact this

/-- **C15 (polynomial over a box)**: the interval computed by the mirror of `coefficient_interval_value` contains the value
    of the polynomial at every point of the box -/
theorem polyValue_encloses (box : ℕ → QI) (hbox : ∀ x, (box x).WF) (ν : ℕ → ℝ) (hν : ∀ x, (box x).Mem (ν x)) :
    ∀ (vars : List ℕ) (p : MPoly) (V : QI), polyValue box vars p = some V → V.Mem (evalAt ν p) ∧ V.WF := by
  intro vars
  induction vars with
  | nil =>
    intro p V h
    simp only [polyValue] at h
    cases hc : constVal p with
    | none => rw [hc] at h; simp at h
    | some c =>
      rw [hc] at h
      have h : QI.point (c : ℚ) = V := by simpa using h
      subst h
      rw [constVal_eval p c hc ν]
      refine ⟨by rw [mem_point]; norm_num, ?_⟩
      intro hp; cases hp
  | cons x rest ih =>
    intro p V h
    rw [polyValue] at h
    by_cases hd : MPoly.degreeIn x p = 0
    · rw [if_pos hd] at h
      exact ih p V h
    · rw [if_neg hd] at h
      have h0 : (point 0).Mem (0 : ℝ) := by rw [mem_point]; simp
      have hw0 : (point 0).WF := by intro hp; simp [point] at hp
      obtain ⟨h1, h2⟩ := sumPowers_encloses (box x) x p (polyValue box rest) ν (hbox x) (hν x)
        (fun c V hc => ih c V hc) _ (point 0) V 0 h0 hw0 h
      refine ⟨?_, h2⟩
      rw [zero_add, list_range_sum] at h1
      rw [evalAt_decompose ν x p (MPoly.degreeIn x p) (by
        unfold MPoly.degreeIn; exact (mono_degree_le' x p 0).2)]
      exact h1

end QI

namespace VI

variable {α : Type*} [Field α] [LinearOrder α] [IsStrictOrderedRing α]

/-- the sign condition `c` (0..5 = `<, <=, ==, !=, >, >=`) holds at x -/
def CondAt (c : ℕ) (x : α) : Prop :=
  match c with | 0 => x < 0 | 1 => x ≤ 0 | 2 => x = 0 | 3 => x ≠ 0 | 4 => 0 < x | _ => 0 ≤ x

theorem sgnQ_cases (q : ℚ) : (0 < q ∧ sgnQ q = 1) ∨ (q < 0 ∧ sgnQ q = -1) ∨ (q = 0 ∧ sgnQ q = 0) := by
  unfold sgnQ
  rcases lt_trichotomy q 0 with h | h | h
  · right; left; refine ⟨h, ?_⟩; rw [if_neg (not_lt.2 (le_of_lt h)), if_pos h]
  · right; right; refine ⟨h, ?_⟩; subst h; simp
  · left; exact ⟨h, by rw [if_pos h]⟩
theorem sgnQ_pos (q : ℚ) : sgnQ q > 0 ↔ 0 < q := by
  rcases sgnQ_cases q with ⟨h1, h2⟩ | ⟨h1, h2⟩ | ⟨h1, h2⟩ <;> rw [h2] <;> constructor <;> intro h <;> first | omega | linarith | exact h1
theorem sgnQ_neg (q : ℚ) : sgnQ q < 0 ↔ q < 0 := by
  rcases sgnQ_cases q with ⟨h1, h2⟩ | ⟨h1, h2⟩ | ⟨h1, h2⟩ <;> rw [h2] <;> constructor <;> intro h <;> first | omega | linarith | exact h1
theorem sgnQ_zero (q : ℚ) : sgnQ q = 0 ↔ q = 0 := by
  rcases sgnQ_cases q with ⟨h1, h2⟩ | ⟨h1, h2⟩ | ⟨h1, h2⟩ <;> rw [h2] <;> constructor <;> intro h <;> first | omega | linarith | exact h1

/-- x lies below an upper end whose sign test says "negative" -/
theorem upper_neg (e : EP) (o : Bool) (x : α) (hu : upperOK e o x) (h : EP.sgn e < 0 ∨ (EP.sgn e = 0 ∧ o = true)) : x < 0 := by
  cases e with
  | ninf => exact absurd hu (by simp [upperOK])
  | pinf => simp [EP.sgn] at h
  | fin q =>
    simp only [upperOK] at hu
    simp only [EP.sgn] at h
    rcases h with h | ⟨h, ho⟩
    · have hq : (q : α) < 0 := by exact_mod_cast (sgnQ_neg q).1 h
      cases o <;> simp at hu <;> linarith
    · have hq : (q : α) = 0 := by exact_mod_cast (sgnQ_zero q).1 h
      subst ho; simp at hu; linarith

theorem upper_nonpos (e : EP) (o : Bool) (x : α) (hu : upperOK e o x) (h : EP.sgn e ≤ 0) : x ≤ 0 := by
  cases e with
  | ninf => exact absurd hu (by simp [upperOK])
  | pinf => simp [EP.sgn] at h
  | fin q =>
    simp only [upperOK] at hu
    simp only [EP.sgn] at h
    have hq : (q : α) ≤ 0 := by
      have : q ≤ 0 := by
        by_contra hc; push Not at hc
        have := (sgnQ_pos q).2 hc; omega
      exact_mod_cast this
    cases o <;> simp at hu <;> linarith

theorem lower_pos (e : EP) (o : Bool) (x : α) (hl : lowerOK e o x) (h : EP.sgn e > 0 ∨ (EP.sgn e = 0 ∧ o = true)) : 0 < x := by
  cases e with
  | pinf => exact absurd hl (by simp [lowerOK])
  | ninf => simp [EP.sgn] at h
  | fin q =>
    simp only [lowerOK] at hl
    simp only [EP.sgn] at h
    rcases h with h | ⟨h, ho⟩
    · have hq : (0 : α) < (q : α) := by exact_mod_cast (sgnQ_pos q).1 h
      cases o <;> simp at hl <;> linarith
    · have hq : (q : α) = 0 := by exact_mod_cast (sgnQ_zero q).1 h
      subst ho; simp at hl; linarith

theorem lower_nonneg (e : EP) (o : Bool) (x : α) (hl : lowerOK e o x) (h : EP.sgn e ≥ 0) : 0 ≤ x := by
  cases e with
  | pinf => exact absurd hl (by simp [lowerOK])
  | ninf => simp [EP.sgn] at h
  | fin q =>
    simp only [lowerOK] at hl
    simp only [EP.sgn] at h
    have hq : (0 : α) ≤ (q : α) := by
      have : 0 ≤ q := by
        by_contra hc; push Not at hc
        have := (sgnQ_neg q).2 hc; omega
      exact_mod_cast this
    cases o <;> simp at hl <;> linarith

/-- **C15 (interval form of the sign-condition test)**: `true` only if every point of the interval satisfies the condition -/
theorem consistentInterval_sound (c : ℕ) (I : VI) (hwf : I.WF) (h : consistentInterval c I = true) (x : α) (hx : I.Mem x) :
    CondAt c x := by
  unfold consistentInterval at h
  by_cases hp : I.isPoint = true
  · -- a point: x is the point
    rw [if_pos hp] at h
    unfold WF at hwf
    rw [if_pos hp] at hwf
    obtain ⟨⟨q, hq⟩, ho1, ho2⟩ := hwf
    have hxq : x = (q : α) := by
      unfold Mem lower upper at hx
      rw [if_pos hp, hq, ho1, ho2] at hx
      simp only [lowerOK, upperOK, Bool.false_eq_true, if_false] at hx
      exact le_antisymm hx.2 hx.1
    rw [hq] at h
    simp only [EP.sgn] at h
    match c with
    | 0 => have h := of_decide_eq_true h; show x < 0; rw [hxq]; exact_mod_cast (sgnQ_neg q).1 h
    | 1 =>
      have h := of_decide_eq_true h; show x ≤ 0; rw [hxq]
      have : q ≤ 0 := by by_contra hc; push Not at hc; have := (sgnQ_pos q).2 hc; omega
      exact_mod_cast this
    | 2 => have h := of_decide_eq_true h; show x = 0; rw [hxq]; exact_mod_cast (sgnQ_zero q).1 h
    | 3 =>
      have h := of_decide_eq_true h
      show x ≠ 0; rw [hxq]; intro h0; apply h; apply (sgnQ_zero q).2; exact_mod_cast h0
    | 4 => have h := of_decide_eq_true h; show 0 < x; rw [hxq]; exact_mod_cast (sgnQ_pos q).1 h
    | (n + 5) =>
      have h := of_decide_eq_true h; show 0 ≤ x; rw [hxq]
      have : 0 ≤ q := by by_contra hc; push Not at hc; have := (sgnQ_neg q).2 hc; omega
      exact_mod_cast this
  · rw [if_neg hp] at h
    have hp' : I.isPoint = false := by simpa using hp
    unfold Mem lower upper at hx
    rw [if_neg hp] at hx
    obtain ⟨hl, hu⟩ := hx
    match c with
    | 0 =>
      simp only [Bool.or_eq_true, decide_eq_true_eq, Bool.and_eq_true] at h
      exact upper_neg I.b I.bOpen x hu h
    | 1 =>
      simp only [decide_eq_true_eq] at h
      exact upper_nonpos I.b I.bOpen x hu h
    | 2 => simp at h
    | 3 =>
      simp only [Bool.or_eq_true, decide_eq_true_eq, Bool.and_eq_true, gt_iff_lt] at h
      show x ≠ 0
      rcases h with h | h
      · exact ne_of_lt (upper_neg I.b I.bOpen x hu h)
      · exact ne_of_gt (lower_pos I.a I.aOpen x hl h)
    | 4 =>
      simp only [gt_iff_lt, Bool.or_eq_true, decide_eq_true_eq, Bool.and_eq_true] at h
      exact lower_pos I.a I.aOpen x hl h
    | (n + 5) =>
      simp only [ge_iff_le, decide_eq_true_eq] at h
      exact lower_nonneg I.a I.aOpen x hl h

end VI
end LP
