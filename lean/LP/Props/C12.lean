/-
  C12 — feasible sets of polynomial and root constraints are the exact solution sets.

  The sets returned by `lp_polynomial_constraint_get_feasible_set` / `_root_constraint_get_feasible_set` are
  compared interval by interval (end points by the proved exact comparison, strictness flags literally) with the
  model: exact roots (C11), exact cell signs at rational sample points (C10), and the sweep of maximal runs of
  satisfied cells.  Proved here:
  * `C12_negate`: the negation table of the six sign conditions;
  * `C12_root_constraint`: for every root value r, index, condition and polarity, a real v lies in the model's
    root-constraint set iff the (possibly negated) condition holds for sign(v − r); with fewer roots the
    un-negated constraint is false everywhere and the negated one true everywhere.
-/
import LP.Props.C11
import Mathlib.Data.EReal.Basic
import Mathlib.Tactic.IntervalCases

namespace LP
namespace Eval

/-- negating a sign condition negates its truth value on every sign -/
theorem C12_negate (c : ℕ) (s : Int) : consistent (negateCond c) s = !consistent c s := by
  have key : ∀ c' : ℕ, c' < 5 → consistent (negateCond c') s = !consistent c' s := by
    intro c' hc
    rcases lt_trichotomy s 0 with h | h | h
    · have a1 : s ≤ 0 := le_of_lt h
      have a2 : ¬ 0 < s := by omega
      have a3 : ¬ 0 ≤ s := by omega
      have a4 : s ≠ 0 := by omega
      interval_cases c' <;> simp [negateCond, consistent, h, a1, a2, a3, a4]
    · subst h
      interval_cases c' <;> simp [negateCond, consistent]
    · have a1 : ¬ s ≤ 0 := by omega
      have a2 : ¬ s < 0 := by omega
      have a3 : 0 ≤ s := le_of_lt h
      have a4 : s ≠ 0 := by omega
      interval_cases c' <;> simp [negateCond, consistent, h, a1, a2, a3, a4]
  by_cases hc : c < 5
  · exact key c hc
  · obtain ⟨c', rfl⟩ := Nat.exists_eq_add_of_le (not_lt.1 hc)
    have e1 : negateCond (5 + c') = 0 := by unfold negateCond; split <;> first | omega | rfl
    have e2 : consistent (5 + c') s = decide (s ≥ 0) := by unfold consistent; split <;> first | omega | rfl
    rw [e1, e2]; simp only [consistent]; by_cases h1 : s < 0 <;> simp [h1] <;> omega

/-- value of an end point, given the roots -/
noncomputable def EPt.val (r : ℕ → ℝ) : EPt → EReal
  | .ninf => ⊥
  | .root i => (r i : EReal)
  | .pinf => ⊤

/-- membership of a real in a feasible interval -/
def SInt.mem (r : ℕ → ℝ) (I : SInt) (v : ℝ) : Prop :=
  (if I.loOpen then EPt.val r I.lo < (v : EReal) else EPt.val r I.lo ≤ (v : EReal)) ∧
  (if I.hiOpen then (v : EReal) < EPt.val r I.hi else (v : EReal) ≤ EPt.val r I.hi)

/-- sign of v − r -/
noncomputable def sgnSub (v r : ℝ) : Int := if v < r then -1 else if v = r then 0 else 1

/-- **root constraints**: y cond root_k — exact for every condition, polarity and real v -/
theorem C12_root_constraint (r : ℕ → ℝ) (n k cond : ℕ) (neg : Bool) (v : ℝ) :
    (∃ I ∈ rootFeasible n k cond neg, SInt.mem r I v) ↔
      (if k < n then consistent (if neg then negateCond cond else cond) (sgnSub v (r k)) = true else neg = true) := by
  unfold rootFeasible
  by_cases hk : k ≥ n
  · rw [if_pos hk, if_neg (not_lt.2 hk)]
    cases neg
    · simp
    · simp only [if_true, List.mem_singleton, exists_eq_left]
      simp [SInt.mem, EPt.val]
  · rw [if_neg hk, if_pos (not_le.1 hk)]
    generalize (if neg = true then negateCond cond else cond) = c
    unfold consistent sgnSub
    rcases lt_trichotomy v (r k) with h | h | h
    · have h' : ((v : ℝ) : EReal) < ((r k : ℝ) : EReal) := by exact_mod_cast h
      split <;> simp [SInt.mem, EPt.val, h, h', le_of_lt h', not_lt.2 (le_of_lt h'), ne_of_lt h, not_le.2 h']
    · subst h
      split <;> simp [SInt.mem, EPt.val]
    · have h' : ((r k : ℝ) : EReal) < ((v : ℝ) : EReal) := by exact_mod_cast h
      have hn : ¬ v < r k := not_lt.2 (le_of_lt h)
      have hne : v ≠ r k := ne_of_gt h
      split <;> simp [SInt.mem, EPt.val, h', le_of_lt h', not_lt.2 (le_of_lt h'), hn, hne, not_le.2 h']

end Eval
end LP
