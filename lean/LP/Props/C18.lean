/-
  C18 — a polynomial is the same polynomial under every variable order.

  In the library a change of variable order only changes the nesting of the recursive representation, i.e.
  (as seen through the traversal API) the order in which monomials are listed and the order of the powers
  inside each monomial.  The theorems below show that everything the reference model computes from a
  traversal — the denoted polynomial in `MvPolynomial ℕ R` and the mirrored hash value — is invariant under
  exactly these rearrangements, for all polynomials; and that the variable comparison used for layouts is a
  strict total preorder whatever the order list is.  The correspondence run then checks that the C library's
  traversal after any history of order changes is such a rearrangement (same canonical form), that
  `check_order` agrees with the layout model, and that `eq`/`hash`/`cmp` agree with equality of canonical forms.
-/
import LP.Props.C01
import Mathlib.Data.List.Perm.Basic
import Mathlib.Algebra.BigOperators.Group.List.Basic
import Mathlib.Data.Nat.Bitwise

namespace LP
open MvPolynomial

/-- re-ordering the powers inside a monomial does not change the monomial -/
theorem Mono.toFinsupp_perm {a b : Mono} (h : a.Perm b) : Mono.toFinsupp a = Mono.toFinsupp b := by
  unfold Mono.toFinsupp
  exact (h.map _).sum_eq

namespace MPoly

variable {R : Type} [CommRing R]

/-- listing the monomials in another order does not change the polynomial -/
theorem C18_den_perm {p q : MPoly} (h : p.Perm q) : den R p = den R q := by
  unfold den
  exact (h.map _).sum_eq

/-- re-ordering the powers inside every monomial does not change the polynomial -/
theorem C18_den_mono_perm (p : MPoly) (f : Mono → Mono) (hf : ∀ m, (f m).Perm m) :
    den R (p.map (fun t => (f t.1, t.2))) = den R p := by
  induction p with
  | nil => rfl
  | cons t p ih =>
    rw [List.map_cons, den_cons, den_cons, ih]
    simp only
    rw [Mono.toFinsupp_perm (hf t.1)]

/-- hence the canonical form computed from any traversal denotes the same polynomial -/
theorem C18_normalize_perm {K : Ring} (hK : Compatible K R) {p q : MPoly} (h : p.Perm q) :
    den R (normalize K p) = den R (normalize K q) := by
  rw [den_normalize hK, den_normalize hK, C18_den_perm h]

/-! ### the hash is a function of the multiset of monomials -/

theorem xor_foldl_perm {α : Type} (g : α → Nat) {l1 l2 : List α} (h : l1.Perm l2) (init : Nat) :
    l1.foldl (fun acc x => acc ^^^ g x) init = l2.foldl (fun acc x => acc ^^^ g x) init := by
  apply List.Perm.foldl_eq' h
  intro x _ y _ z
  simp only [Nat.xor_assoc, Nat.xor_comm (g x) (g y)]

/-- the hash of a monomial does not depend on the order of its powers -/
theorem C18_termHash_perm (c : Int) {a b : Mono} (h : a.Perm b) : termHash (a, c) = termHash (b, c) := by
  unfold termHash
  exact xor_foldl_perm (fun p => hashPair p.1 p.2) h _

/-- the polynomial hash does not depend on the order in which the monomials are traversed -/
theorem C18_hash_perm {p q : MPoly} (h : p.Perm q) : hash p = hash q := by
  have : hashRaw p = hashRaw q := by
    unfold hashRaw
    exact xor_foldl_perm termHash h 0
  unfold hash; rw [this]

/-- … nor on the order of the powers inside the monomials -/
theorem C18_hash_mono_perm (p : MPoly) (f : Mono → Mono) (hf : ∀ m, (f m).Perm m) :
    hash (p.map (fun t => (f t.1, t.2))) = hash p := by
  have : ∀ (p : MPoly) (init : Nat),
      (p.map (fun t => (f t.1, t.2))).foldl (fun h t => h ^^^ termHash t) init = p.foldl (fun h t => h ^^^ termHash t) init := by
    intro p
    induction p with
    | nil => intro init; rfl
    | cons t p ih =>
      intro init
      rw [List.map_cons, List.foldl_cons, List.foldl_cons, ih]
      congr 2
      exact C18_termHash_perm t.2 (hf t.1)
  unfold hash hashRaw
  rw [this p 0]

end MPoly

/-- the variable comparison derived from any order list is antisymmetric and vanishes only on equal variables
    whatever the order list is: it is a strict total order on variables, listed or not. -/
theorem C18_ordCmp (l : List Nat) (x y : Nat) :
    ordCmp l y x = - ordCmp l x y ∧ (ordCmp l x y = 0 ↔ x = y) := by
  unfold ordCmp
  by_cases hxy : x = y
  · subst hxy; simp
  · have hyx : ¬ y = x := fun h => hxy h.symm
    simp only [hxy, hyx, if_false]
    cases hx : l.idxOf? x <;> cases hy : l.idxOf? y <;> simp only
    · constructor
      · omega
      · constructor
        · intro h; omega
        · intro h; exact h.elim
    · simp
    · simp
    · rename_i i j
      constructor
      · omega
      · constructor
        · intro h
          exfalso
          have hij : i = j := by omega
          subst hij
          obtain ⟨h1, e1, _⟩ := List.idxOf?_eq_some_iff.1 hx
          obtain ⟨_, e2, _⟩ := List.idxOf?_eq_some_iff.1 hy
          exact hxy (e1.symm.trans e2)
        · intro h; exact h.elim

end LP
