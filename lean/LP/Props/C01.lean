import LP.Model.MPoly
namespace LP
theorem C01_placeholder : True := trivial
end LP
