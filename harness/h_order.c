/* C18 harness: a polynomial is the same polynomial under every variable order.
 * Histories interleave order changes (push / pop / reverse / clear + re-push of a permutation, variables left
 * out of the order) with operations on external (auto re-ordered) and non-external polynomials.
 *   ord check <L> <C> <poly> => 0/1     L = order in force when the object was last (re)ordered, C = current order
 *   ord keep <before> => <after>         traversal before / after re-ordering
 *   ord eqhash <p> <q> => eq hash_p hash_q cmp
 *   poly <op> ... (as in h_poly) under whatever order is in force
 */
#include "hpoly.h"
#include <polynomial_vector.h>
#include <polynomial_heap.h>
#include <polynomial_hash_set.h>

static lp_variable_order_t* ord; static lp_polynomial_context_t* octx[2]; static int oring[2] = { 0, 1 };

typedef struct { lp_variable_t v[NVARS]; int n; } olist;
static olist cur;

static void sb_olist(const olist* o) { if (!o->n) { sb_str("_"); return; } for (int i = 0; i < o->n; ++i) { if (i) sb_str(","); sb_ulong(o->v[i]); } }

static void order_set_perm(void) {
  lp_variable_order_clear(ord); cur.n = 0;
  int idx[NVARS] = { 0, 1, 2, 3 };
  for (int i = NVARS - 1; i > 0; --i) { int j = (int)rnd(i + 1); int t = idx[i]; idx[i] = idx[j]; idx[j] = t; }
  int k = chance(70) ? NVARS : (int)rnd(NVARS + 1);     /* sometimes leave variables out of the order */
  for (int i = 0; i < k; ++i) { lp_variable_order_push(ord, hp_x[idx[i]]); cur.v[cur.n++] = hp_x[idx[i]]; }
}
static void order_mutate(void) {
  unsigned k = rnd(10);
  if (k < 3 && cur.n > 0) { lp_variable_order_pop(ord); cur.n--; }
  else if (k < 5) { /* push a variable that is not in the order */
    for (int i = 0; i < NVARS; ++i) { int in = 0; for (int j = 0; j < cur.n; ++j) if (cur.v[j] == hp_x[i]) in = 1;
      if (!in) { lp_variable_order_push(ord, hp_x[i]); cur.v[cur.n++] = hp_x[i]; break; } }
  }
  else if (k < 8) { lp_variable_order_reverse(ord); for (int i = 0, j = cur.n - 1; i < j; ++i, --j) { lp_variable_t t = cur.v[i]; cur.v[i] = cur.v[j]; cur.v[j] = t; } }
  else order_set_perm();
}

typedef struct { lp_polynomial_t* p; olist L; int external; int ri; } obj;

static lp_polynomial_t* rnd_poly(int r) {
  /* like hp_random_poly but in our own context */
  lp_polynomial_t* p = lp_polynomial_new(octx[r]);
  int nt = 1 + (int)rnd(5);
  lp_integer_t c; lp_integer_construct(&c);
  for (int t = 0; t < nt; ++t) {
    hp_gen_coeff(&c, oring[r]);
    lp_polynomial_t* m = lp_polynomial_alloc(); lp_polynomial_construct_simple(m, octx[r], &c, hp_x[0], 0);
    for (int i = 0; i < NVARS; ++i) if (chance(50)) {
      lp_integer_t one; lp_integer_construct_from_int(lp_Z, &one, 1);
      lp_polynomial_t* s = lp_polynomial_alloc(); lp_polynomial_construct_simple(s, octx[r], &one, hp_x[i], 1 + rnd(2));
      lp_polynomial_mul(m, m, s); lp_polynomial_delete(s); lp_integer_destruct(&one);
    }
    lp_polynomial_add(p, p, m); lp_polynomial_delete(m);
  }
  lp_integer_destruct(&c);
  return p;
}

/* rebuild an equal polynomial along another route: sum of its monomials in reverse traversal order, built under the current order */
typedef struct { lp_polynomial_t* acc; int r; } rebuild_t;
static void rebuild_cb(const lp_polynomial_context_t* ctx, lp_monomial_t* m, void* data) {
  rebuild_t* rb = (rebuild_t*)data; (void)ctx;
  lp_polynomial_t* t = lp_polynomial_alloc(); lp_polynomial_construct_simple(t, octx[rb->r], &m->a, hp_x[0], 0);
  for (size_t i = m->n; i-- > 0;) {
    lp_integer_t one; lp_integer_construct_from_int(lp_Z, &one, 1);
    lp_polynomial_t* s = lp_polynomial_alloc(); lp_polynomial_construct_simple(s, octx[rb->r], &one, m->p[i].x, m->p[i].d);
    lp_polynomial_mul(t, s, t); lp_polynomial_delete(s); lp_integer_destruct(&one);
  }
  lp_polynomial_add(rb->acc, t, rb->acc);
  lp_polynomial_delete(t);
}
static lp_polynomial_t* rebuild(const lp_polynomial_t* p, int r) {
  rebuild_t rb; rb.acc = lp_polynomial_new(octx[r]); rb.r = r;
  lp_polynomial_traverse(p, rebuild_cb, &rb);
  return rb.acc;
}

static void emit_check(obj* o) {
  /* ask first: printing an external polynomial re-orders it */
  int in_order = lp_polynomial_check_order(o->p);
  olist L = o->L;
  sb_begin("ord", "check"); sb_sp(); sb_olist(&L); sb_sp(); sb_olist(&cur); sb_sp(); sb_poly(o->p); sb_arrow();
  sb_sp(); sb_long(in_order);
  if (o->external) { o->L = cur; sb_sp(); sb_long(lp_polynomial_check_order(o->p)); }   /* after the automatic re-ordering */
  sb_emit();
}
static void emit_eqhash(const lp_polynomial_t* p, const lp_polynomial_t* q, int ri) {
  sb_begin("ord", "eqhash"); sb_sp(); hp_ring_token(ri); sb_sp(); sb_poly(p); sb_sp(); sb_poly(q); sb_arrow();
  int e = lp_polynomial_eq(p, q); size_t hp = lp_polynomial_hash(p), hq = lp_polynomial_hash(q); int c = lp_polynomial_cmp(p, q);
  sb_sp(); sb_long(e); sb_sp(); sb_ulong(hp); sb_sp(); sb_ulong(hq); sb_sp(); sb_long(sgn_of(c)); sb_emit();
}
/* bring a non-external object to the current order before it is used as an operand */
static void reorder(obj* o) {
  sb_begin("ord", "keep"); sb_sp(); hp_ring_token(o->ri); sb_sp(); sb_poly(o->p); sb_arrow();
  lp_polynomial_ensure_order(o->p); o->L = cur;
  sb_sp(); sb_poly(o->p); sb_sp(); sb_long(lp_polynomial_check_order(o->p)); sb_emit();
}

static void order_case(void) {
  int r = (int)rnd(2); int ri = oring[r];
  order_set_perm();
  obj o[3];
  for (int i = 0; i < 3; ++i) { o[i].p = rnd_poly(r); o[i].L = cur; o[i].external = (i != 1); o[i].ri = ri; if (o[i].external) lp_polynomial_set_external(o[i].p); }
  int steps = 4 + (int)rnd(8);
  for (int s = 0; s < steps; ++s) {
    unsigned k = rnd(10);
    if (k < 4 && chance(35)) {
      /* two external representations of one polynomial; the order changes; eq / cmp is the FIRST call that sees them
         (operands are printed from tokens taken before the change: printing re-orders an external polynomial) */
      int i = chance(50) ? 0 : 2;
      lp_polynomial_t* twin = rebuild(o[i].p, r); lp_polynomial_set_external(twin);
      if (chance(30)) { lp_polynomial_t* one = lp_polynomial_alloc(); lp_integer_t c; lp_integer_construct_from_int(lp_Z, &c, 1);
        lp_polynomial_construct_simple(one, octx[r], &c, hp_x[rnd(NVARS)], rnd(2)); lp_polynomial_add(twin, twin, one); lp_polynomial_delete(one); lp_integer_destruct(&c); }
      sb_reset(); sb_poly(o[i].p); char* tp = strdup(sb_buf);
      sb_reset(); sb_poly(twin); char* tq = strdup(sb_buf);
      order_mutate();
      int swap = chance(50);
      const lp_polynomial_t* A = swap ? twin : o[i].p; const lp_polynomial_t* B = swap ? o[i].p : twin;
      int which = (int)rnd(2);
      int e = -1, c = 0;
      if (which == 0) { e = lp_polynomial_eq(A, B); c = lp_polynomial_cmp(A, B); } else { c = lp_polynomial_cmp(A, B); e = lp_polynomial_eq(A, B); }
      int ordA = lp_polynomial_check_order(A), ordB = lp_polynomial_check_order(B);
      size_t hA = lp_polynomial_hash(A), hB = lp_polynomial_hash(B);
      sb_begin("ord", "eqhash"); sb_sp(); hp_ring_token(ri); sb_sp(); sb_str(swap ? tq : tp); sb_sp(); sb_str(swap ? tp : tq); sb_arrow();
      sb_sp(); sb_long(e); sb_sp(); sb_ulong(hA); sb_sp(); sb_ulong(hB); sb_sp(); sb_long(sgn_of(c)); sb_emit();
      sb_begin("ord", "cleaned"); sb_sp(); sb_long(which); sb_arrow(); sb_sp(); sb_long(ordA); sb_sp(); sb_long(ordB); sb_emit();
      free(tp); free(tq);
      o[i].L = cur;
      lp_polynomial_delete(twin);
      for (int t = 0; t < 3; ++t) emit_check(&o[t]);
    }
    else if (k < 4 && chance(45)) {
      /* arithmetic / gcd whose operands were created under the previous order and are first seen by this call
         (tokens taken before the change: printing would re-order the external operands) */
      sb_reset(); sb_poly(o[0].p); char* t0 = strdup(sb_buf);
      sb_reset(); sb_poly(o[2].p); char* t2 = strdup(sb_buf);
      order_mutate();
      int swap = chance(50);
      const lp_polynomial_t* A = swap ? o[2].p : o[0].p; const lp_polynomial_t* B = swap ? o[0].p : o[2].p;
      lp_polynomial_t* R = lp_polynomial_new(octx[r]);
      unsigned w = rnd(ri == 0 ? 4 : 3);
      /* a multivariate gcd of two dense random polynomials in four variables can take minutes (it finishes; observed: 133 s under the
         sanitizers, reported as a hang by the watchdog - a false alarm): only small operands go to the gcd */
      if (w == 3) { int terms = 2; for (const char* c = t0; *c; ++c) if (*c == '+') ++terms; for (const char* c = t2; *c; ++c) if (*c == '+') ++terms; if (terms > 6) w = 2; }
      if (w == 3) {
        lp_polynomial_gcd(R, A, B);
        sb_begin("gcd", "gcd"); sb_sp(); hp_ring_token(ri); sb_sp(); sb_long(0); sb_sp(); sb_str(swap ? t2 : t0); sb_sp(); sb_str(swap ? t0 : t2); sb_sp(); sb_str("1"); sb_arrow();
      } else {
        if (w == 0) lp_polynomial_add(R, A, B); else if (w == 1) lp_polynomial_sub(R, A, B); else lp_polynomial_mul(R, A, B);
        sb_begin("poly", w == 0 ? "add" : w == 1 ? "sub" : "mul"); sb_sp(); hp_ring_token(ri); sb_sp(); sb_str("f"); sb_sp(); sb_str(swap ? t2 : t0); sb_sp(); sb_str(swap ? t0 : t2); sb_arrow();
      }
      sb_sp(); sb_poly(R); sb_emit();
      sb_begin("ord", "cleaned"); sb_sp(); sb_long(2 + (long)w); sb_arrow(); sb_sp(); sb_long(lp_polynomial_check_order(A)); sb_sp(); sb_long(lp_polynomial_check_order(B)); sb_emit();
      free(t0); free(t2);
      o[0].L = cur; o[2].L = cur;
      { obj t; t.p = R; t.L = cur; t.external = 0; t.ri = ri; emit_check(&t); }
      lp_polynomial_delete(R);
      for (int t = 0; t < 3; ++t) emit_check(&o[t]);
    }
    else if (k < 4 && chance(40)) {
      /* a result delivered into an EXTERNAL target through a temporary and a swap (get_coefficient, psc, reduce_degree_Zp):
         the target is still external afterwards, so it follows the next order change by itself */
      int i = chance(50) ? 0 : 2;
      lp_polynomial_t* T = rnd_poly(r); lp_polynomial_set_external(T);
      unsigned w = rnd(ri == 0 ? 2 : 3);
      lp_polynomial_t* dA = lp_polynomial_new(octx[r]); lp_polynomial_derivative(dA, o[i].p);
      if (w == 1 && (lp_polynomial_is_constant(o[i].p) || lp_polynomial_is_constant(dA) || lp_polynomial_top_variable(dA) != lp_polynomial_top_variable(o[i].p))) w = 0;
      if (w == 0) lp_polynomial_get_coefficient(T, o[i].p, lp_polynomial_is_constant(o[i].p) ? 0 : rnd(lp_polynomial_degree(o[i].p) + 1));
      else if (w == 1) {
        size_t sz = lp_polynomial_degree(dA) + 1;
        lp_polynomial_t** out = (lp_polynomial_t**)malloc(sz * sizeof(lp_polynomial_t*));
        for (size_t j = 0; j < sz; ++j) out[j] = j == 0 ? T : lp_polynomial_new(octx[r]);
        lp_polynomial_psc(out, o[i].p, dA);
        for (size_t j = 1; j < sz; ++j) lp_polynomial_delete(out[j]);
        free(out);
      } else lp_polynomial_reduce_degree_Zp(T, o[i].p);
      lp_polynomial_delete(dA);
      o[i].L = cur;
      order_mutate();
      lp_polynomial_t* F = rebuild(T, r);
      emit_eqhash(T, F, ri);
      { obj t; t.p = T; t.L = cur; t.external = 1; t.ri = ri; emit_check(&t); }
      lp_polynomial_delete(F); lp_polynomial_delete(T);
      for (int t = 0; t < 3; ++t) emit_check(&o[t]);
    }
    else if (k < 4 && chance(35)) {
      /* a copy (new_copy / construct_copy / assign) taken from an external polynomial that has not been touched since the order
         changed: the copy is a new object, created under the current order, so it must be laid out in the current order */
      int i = chance(50) ? 0 : 2;
      order_mutate();
      unsigned w = rnd(3);
      lp_polynomial_t* C;
      if (w == 0) C = lp_polynomial_new_copy(o[i].p);
      else if (w == 1) { C = lp_polynomial_alloc(); lp_polynomial_construct_copy(C, o[i].p); }
      else { C = rnd_poly(r); lp_polynomial_assign(C, o[i].p); }
      { obj t; t.p = C; t.L = cur; t.external = 0; t.ri = ri; emit_check(&t); }
      emit_eqhash(C, o[i].p, ri);
      o[i].L = cur;
      /* and it can be used as an operand at once */
      lp_polynomial_t* R = lp_polynomial_new(octx[r]);
      sb_begin("poly", "sub"); sb_sp(); hp_ring_token(ri); sb_sp(); sb_str("f"); sb_sp(); sb_poly(C); sb_sp(); sb_poly(o[i].p); sb_arrow();
      lp_polynomial_sub(R, C, o[i].p); sb_sp(); sb_poly(R); sb_emit();
      sb_begin("poly", "obs"); sb_sp(); hp_ring_token(ri); sb_sp(); sb_str("f"); sb_sp(); sb_poly(R); sb_arrow();
      sb_sp(); sb_long(lp_polynomial_is_zero(R)); sb_sp(); sb_long(lp_polynomial_is_constant(R)); sb_sp(); sb_ulong(lp_polynomial_degree(R)); sb_sp(); sb_str("-"); sb_emit();
      lp_polynomial_delete(R); lp_polynomial_delete(C);
      for (int t = 0; t < 3; ++t) emit_check(&o[t]);
    }
    else if (k < 4 && chance(35)) {
      /* an external polynomial that has not been touched since the order changed goes into a container (copy or move): what the
         container hands back is a new non-external object of the current order, equal to the polynomial that went in */
      int i = chance(50) ? 0 : 2;
      lp_polynomial_t* src = lp_polynomial_new_copy(o[i].p); lp_polynomial_set_external(src);
      order_mutate();
      unsigned w = rnd(6);
      lp_polynomial_t* back = 0; int found = 1;
      if (w < 2) {
        lp_polynomial_vector_t* v = lp_polynomial_vector_new(octx[r]);
        if (w == 0) lp_polynomial_vector_push_back(v, src); else lp_polynomial_vector_push_back_move(v, src);
        back = lp_polynomial_vector_at(v, 0);
        lp_polynomial_vector_delete(v);
      } else if (w < 4) {
        lp_polynomial_heap_t* h = lp_polynomial_heap_new(lp_polynomial_cmp);
        if (w == 2) lp_polynomial_heap_push(h, src); else lp_polynomial_heap_push_move(h, src);
        back = lp_polynomial_heap_pop(h);
        lp_polynomial_heap_delete(h);
      } else {
        lp_polynomial_hash_set_t* hs = lp_polynomial_hash_set_new();
        if (w == 4) lp_polynomial_hash_set_insert(hs, src); else lp_polynomial_hash_set_insert_move(hs, src);
        lp_polynomial_t* q = rebuild(o[i].p, r);
        found = lp_polynomial_hash_set_contains(hs, q);
        lp_polynomial_delete(q);
        lp_polynomial_hash_set_close(hs);
        back = lp_polynomial_new_copy(hs->data[0]);
        lp_polynomial_hash_set_delete(hs);
      }
      o[i].L = cur;
      { obj t; t.p = back; t.L = cur; t.external = 0; t.ri = ri; emit_check(&t); }
      emit_eqhash(back, o[i].p, ri);
      sb_begin("ord", "found"); sb_sp(); sb_long((long)w); sb_arrow(); sb_sp(); sb_long(found); sb_emit();
      lp_polynomial_delete(back); lp_polynomial_delete(src);
      for (int t = 0; t < 3; ++t) emit_check(&o[t]);
    }
    else if (k < 4) { order_mutate(); for (int i = 0; i < 3; ++i) emit_check(&o[i]); }
    else if (k < 6) { /* arithmetic under the current order */
      int i = (int)rnd(3), j = (int)rnd(3);
      if (!o[i].external) reorder(&o[i]);
      if (!o[j].external) reorder(&o[j]);
      lp_polynomial_t* R = lp_polynomial_new(octx[r]);
      unsigned w = rnd(3);
      sb_begin("poly", w == 0 ? "add" : w == 1 ? "sub" : "mul"); sb_sp(); hp_ring_token(ri); sb_sp(); sb_str("f"); sb_sp(); sb_poly(o[i].p); sb_sp(); sb_poly(o[j].p); sb_arrow();
      if (w == 0) lp_polynomial_add(R, o[i].p, o[j].p); else if (w == 1) lp_polynomial_sub(R, o[i].p, o[j].p); else lp_polynomial_mul(R, o[i].p, o[j].p);
      sb_sp(); sb_poly(R); sb_emit();
      if (o[i].external) o[i].L = cur;
      if (o[j].external) o[j].L = cur;
      /* the result is laid out in the current order */
      obj t; t.p = R; t.L = cur; t.external = 0; t.ri = ri; emit_check(&t);
      lp_polynomial_delete(R);
    }
    else if (k < 8) { /* equality / hash of an equal polynomial built along another route under the current order */
      int i = (int)rnd(3);
      if (!o[i].external) reorder(&o[i]);
      lp_polynomial_t* q = rebuild(o[i].p, r);
      emit_eqhash(o[i].p, q, ri);
      if (o[i].external) o[i].L = cur;
      if (chance(50)) { lp_polynomial_t* one = lp_polynomial_alloc(); lp_integer_t c; lp_integer_construct_from_int(lp_Z, &c, 1);
        lp_polynomial_construct_simple(one, octx[r], &c, hp_x[rnd(NVARS)], rnd(2)); lp_polynomial_add(q, q, one);
        emit_eqhash(o[i].p, q, ri); lp_polynomial_delete(one); lp_integer_destruct(&c); }
      lp_polynomial_delete(q);
    }
    else { /* in-place modification after the hash has been taken, then compare with a fresh equal object */
      int i = (int)rnd(3);
      if (!o[i].external) reorder(&o[i]);
      lp_polynomial_t* w = lp_polynomial_new_copy(o[i].p);
      (void)lp_polynomial_hash(w);
      lp_polynomial_t* t = rnd_poly(r);
      unsigned how = rnd(4);
      if (how == 0) lp_polynomial_add(w, w, t); else if (how == 1) lp_polynomial_mul(w, w, t);
      else if (how == 2) lp_polynomial_add_mul(w, t, t); else { lp_polynomial_assign(w, t); }
      lp_polynomial_t* expect = lp_polynomial_new(octx[r]);
      if (how == 0) lp_polynomial_add(expect, o[i].p, t); else if (how == 1) lp_polynomial_mul(expect, o[i].p, t);
      else if (how == 2) { lp_polynomial_mul(expect, t, t); lp_polynomial_add(expect, expect, o[i].p); } else lp_polynomial_assign(expect, t);
      lp_polynomial_t* fresh = rebuild(expect, r);
      emit_eqhash(w, fresh, ri);
      if (o[i].external) o[i].L = cur;
      lp_polynomial_delete(w); lp_polynomial_delete(t); lp_polynomial_delete(expect); lp_polynomial_delete(fresh);
    }
  }
  for (int i = 0; i < 3; ++i) lp_polynomial_delete(o[i].p);
}

int main(int argc, char** argv) {
  uint64_t seed = argc > 1 ? strtoull(argv[1], 0, 10) : 1;
  long n = argc > 2 ? atol(argv[2]) : 1000;
  long only = argc > 3 ? atol(argv[3]) : -1;
  long start = argc > 4 ? atol(argv[4]) : 0;
  lpv_init(); hp_init();
  ord = lp_variable_order_new();
  octx[0] = lp_polynomial_context_new(hp_ring[0], hp_db, ord);
  octx[1] = lp_polynomial_context_new(hp_ring[1], hp_db, ord);
  for (long i = 0; i < n; ++i) {
    if ((only >= 0 && i != only) || i < start) continue;
    lpv_begin_case(seed, i);
    order_case();
  }
  lp_polynomial_context_detach(octx[0]); lp_polynomial_context_detach(octx[1]); lp_variable_order_detach(ord);
  hp_done();
  free(sb_buf);
  return 0;
}
