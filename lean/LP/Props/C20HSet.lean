/-
  C20 — the open-addressing table never loses or duplicates an element: writing into an empty slot adds exactly that
  element to the enumeration (`slots_fill`), clearing a slot removes exactly its element (`slots_clear`), the backward
  shift of `lp_polynomial_hash_set_remove` only moves elements (`shiftBack_perm`); hence a successful insert (without
  growth: `C20_hset_insert_perm`; with growth, which re-hashes every element into a free slot of the doubled table:
  `extend_perm`, `C20_hset_insert_perm_any`) enumerates the old elements plus the new one and a successful remove enumerates the
  old elements minus the removed one (`C20_hset_remove_perm`).  What is *not* proved is that every stored element is
  reachable by its probe sequence (the probe-chain invariant): that part of the refinement is tied by the correspondence.
-/
import LP.Props.C20

namespace LP
namespace HSet

/-- the elements of a slot array in slot order -/
def slots (data : Array (Option Elem)) : List Elem := data.toList.filterMap id

theorem closeList_eq (s : HSet) : closeList s = slots s.data := rfl

theorem getD_toList (data : Array (Option Elem)) (i : Nat) (hi : i < data.size) :
    data.getD i none = data.toList[i]'(by simpa using hi) := by
  simp [Array.getD, hi]

theorem list_split {α : Type} (l : List α) (i : Nat) (hi : i < l.length) :
    l = l.take i ++ l[i] :: l.drop (i + 1) := by
  conv_lhs => rw [← List.take_append_drop i l]
  rw [List.drop_eq_getElem_cons hi]

/-- writing `some e` into an empty slot adds exactly `e` -/
theorem slots_fill (data : Array (Option Elem)) (i : Nat) (e : Elem) (hi : i < data.size)
    (hn : data.getD i none = none) : (slots (data.set! i (some e))).Perm (e :: slots data) := by
  unfold slots
  have hl : i < data.toList.length := by simpa using hi
  have hnone : data.toList[i] = none := by rw [← getD_toList data i hi]; exact hn
  have h1 : (data.set! i (some e)).toList = data.toList.take i ++ some e :: data.toList.drop (i + 1) := by
    simp only [Array.set!_eq_setIfInBounds, Array.toList_setIfInBounds]
    exact List.set_eq_take_append_cons_drop.trans (by simp; intro h; omega)
  have h2 := list_split data.toList i hl
  rw [hnone] at h2
  rw [h1]
  conv_rhs => rw [h2]
  simp only [List.filterMap_append, List.filterMap_cons, id_eq]
  exact List.perm_middle

/-- clearing a slot that holds `e` removes exactly `e` -/
theorem slots_clear (data : Array (Option Elem)) (i : Nat) (e : Elem) (hi : i < data.size)
    (hs : data.getD i none = some e) : (e :: slots (data.set! i none)).Perm (slots data) := by
  unfold slots
  have hl : i < data.toList.length := by simpa using hi
  have hsome : data.toList[i] = some e := by rw [← getD_toList data i hi]; exact hs
  have h1 : (data.set! i none).toList = data.toList.take i ++ none :: data.toList.drop (i + 1) := by
    simp only [Array.set!_eq_setIfInBounds, Array.toList_setIfInBounds]
    exact List.set_eq_take_append_cons_drop.trans (by simp; intro h; omega)
  have h2 := list_split data.toList i hl
  rw [hsome] at h2
  rw [h1]
  conv_rhs => rw [h2]
  simp only [List.filterMap_append, List.filterMap_cons, id_eq]
  exact List.perm_middle.symm


theorem getD_set!' (a : Array (Option Elem)) (i k : Nat) (v : Option Elem) (hi : i < a.size) :
    (a.set! i v).getD k none = if k = i then v else a.getD k none := by
  simp only [Array.getD_eq_getD_getElem?, Array.set!_eq_setIfInBounds, Array.getElem?_setIfInBounds]
  by_cases e : i = k
  · subst e; simp [hi]
  · simp [e, Ne.symm e]

/-- the backward shift after a removal only moves elements -/
theorem shiftBack_perm : ∀ (fuel : Nat) (data : Array (Option Elem)) (hole j0 : Nat), hole < data.size →
    data.getD hole none = none → (slots (shiftBack data fuel hole j0)).Perm (slots data) := by
  intro fuel
  induction fuel with
  | zero => intro data hole j0 _ _; exact List.Perm.refl _
  | succ f ih =>
    intro data hole j0 hh hn
    unfold shiftBack
    dsimp only
    have hj : (j0 + 1) % data.size < data.size := Nat.mod_lt _ (by omega)
    generalize (j0 + 1) % data.size = j at hj ⊢
    cases hd : data.getD j none with
    | none => exact List.Perm.refl _
    | some e =>
      dsimp only
      split
      · have hne : j ≠ hole := by
          intro h; rw [h, hn] at hd; exact absurd hd (by simp)
        have h1 := slots_fill data hole e hh hn
        have hsz : (data.set! hole (some e)).size = data.size := by simp
        have hd1 : (data.set! hole (some e)).getD j none = some e := by
          rw [getD_set!' _ _ _ _ hh, if_neg hne]; exact hd
        have h2 := slots_clear (data.set! hole (some e)) j e (by rw [hsz]; exact hj) hd1
        have h3 : (slots ((data.set! hole (some e)).set! j none)).Perm (slots data) :=
          (List.perm_cons e).1 (h2.trans h1)
        refine (ih _ j j (by simp; exact hj) ?_).trans h3
        rw [getD_set!' _ _ _ _ (by rw [hsz]; exact hj), if_pos rfl]
      · exact ih _ hole j hh hn

theorem probe_lt (data : Array (Option Elem)) (key : Nat) : ∀ (fuel i j : Nat) (found : Bool), i < data.size →
    probe data key fuel i = some (j, found) → j < data.size := by
  intro fuel
  induction fuel with
  | zero => intro i j f _ h; simp [probe] at h
  | succ n ih =>
    intro i j f hi h
    unfold probe at h
    cases hd : data.getD i none with
    | none =>
      rw [hd] at h
      simp only [Option.some.injEq, Prod.mk.injEq] at h
      rw [← h.1]; exact hi
    | some e =>
      rw [hd] at h
      simp only at h
      split_ifs at h with hk
      · simp only [Option.some.injEq, Prod.mk.injEq] at h
        rw [← h.1]; exact hi
      · exact ih _ _ _ (Nat.mod_lt _ (by omega)) h

/-- **a successful insert that does not grow the table adds exactly the new element** -/
theorem C20_hset_insert_perm (s : HSet) (e : Elem) (hs : 0 < s.data.size) (hins : (insert s e).2 = true)
    (hng : ¬ s.size + 1 > s.threshold) : (closeList (insert s e).1).Perm (e :: closeList s) := by
  unfold insert at hins ⊢
  cases hp : probe s.data e.key s.data.size (home s.data.size e) with
  | none => rw [hp] at hins; simp at hins
  | some r =>
    obtain ⟨i, found⟩ := r
    rw [hp] at hins
    cases found with
    | true => simp at hins
    | false =>
      dsimp only
      rw [if_neg hng]
      have hi := probe_lt s.data e.key _ _ i false (Nat.mod_lt _ hs) hp
      have hn := (probe_spec s.data e.key _ _ i false hp).2 rfl
      exact slots_fill s.data i e hi hn

/-- an insert that finds the key changes nothing -/
theorem C20_hset_insert_found (s : HSet) (e : Elem) (hins : (insert s e).2 = false) : (insert s e).1 = s := by
  unfold insert at hins ⊢
  cases hp : probe s.data e.key s.data.size (home s.data.size e) with
  | none => rfl
  | some r =>
    obtain ⟨i, found⟩ := r
    rw [hp] at hins
    cases found with
    | true => rfl
    | false => simp at hins

/-- **a successful remove takes out exactly one element, with the key asked for** -/
theorem C20_hset_remove_perm (s : HSet) (e : Elem) (hs : 0 < s.data.size) (hrem : (remove s e).2 = true) :
    ∃ x : Elem, x.key = e.key ∧ (x :: closeList (remove s e).1).Perm (closeList s) := by
  unfold remove at hrem ⊢
  cases hp : probe s.data e.key s.data.size (home s.data.size e) with
  | none => rw [hp] at hrem; simp at hrem
  | some r =>
    obtain ⟨i, found⟩ := r
    rw [hp] at hrem
    cases found with
    | false => simp at hrem
    | true =>
      dsimp only
      have hi := probe_lt s.data e.key _ _ i true (Nat.mod_lt _ hs) hp
      obtain ⟨x, hx, hk⟩ := (probe_spec s.data e.key _ _ i true hp).1 rfl
      refine ⟨x, hk, ?_⟩
      have h1 := slots_clear s.data i x hi hx
      have h2 : (slots (removeAt s.data i)).Perm (slots (s.data.set! i none)) := by
        unfold removeAt
        refine shiftBack_perm _ _ i i (by simp; exact hi) ?_
        rw [getD_set!' _ _ _ _ hi, if_pos rfl]
      exact (List.Perm.cons x h2).trans h1

/-- a remove that does not find the key changes nothing -/
theorem C20_hset_remove_missing (s : HSet) (e : Elem) (hrem : (remove s e).2 = false) : (remove s e).1 = s := by
  unfold remove at hrem ⊢
  cases hp : probe s.data e.key s.data.size (home s.data.size e) with
  | none => rfl
  | some r =>
    obtain ⟨i, found⟩ := r
    rw [hp] at hrem
    cases found with
    | false => rfl
    | true => simp at hrem

theorem probeEmpty_finds (data : Array (Option Elem)) : ∀ (fuel i : Nat), i < data.size →
    (∃ d, d < fuel ∧ data.getD ((i + d) % data.size) none = none) →
    ∃ j, probeEmpty data fuel i = some j ∧ j < data.size ∧ data.getD j none = none := by
  intro fuel
  induction fuel with
  | zero => intro i _ ⟨d, hd, _⟩; omega
  | succ f ih =>
    intro i hi ⟨d, hd, hn⟩
    unfold probeEmpty
    cases hg : data.getD i none with
    | none => exact ⟨i, rfl, hi, hg⟩
    | some x =>
      dsimp only
      have hd0 : d ≠ 0 := by
        intro h0
        subst h0
        rw [Nat.add_zero, Nat.mod_eq_of_lt hi, hg] at hn
        exact absurd hn (by simp)
      refine ih ((i + 1) % data.size) (Nat.mod_lt _ (by omega)) ⟨d - 1, by omega, ?_⟩
      rw [Nat.mod_add_mod]
      have : i + 1 + (d - 1) = i + d := by omega
      rw [this]; exact hn

theorem exists_offset (n i k : Nat) (hi : i < n) (hk : k < n) : ∃ d, d < n ∧ (i + d) % n = k := by
  by_cases h : i ≤ k
  · refine ⟨k - i, by omega, ?_⟩
    have : i + (k - i) = k := by omega
    rw [this, Nat.mod_eq_of_lt hk]
  · refine ⟨k + n - i, by omega, ?_⟩
    have : i + (k + n - i) = k + n := by omega
    rw [this, Nat.add_mod_right, Nat.mod_eq_of_lt hk]

theorem filterMap_id_length (l : List (Option Elem)) (h : ∀ x ∈ l, x ≠ none) : (l.filterMap id).length = l.length := by
  induction l with
  | nil => rfl
  | cons a l ih =>
    cases a with
    | none => exact absurd rfl (h none (by simp))
    | some e =>
      have := ih (fun x hx => h x (List.mem_cons_of_mem _ hx))
      simpa using this

theorem exists_none (data : Array (Option Elem)) (h : (slots data).length < data.size) :
    ∃ k, k < data.size ∧ data.getD k none = none := by
  by_contra hc
  have hall : ∀ x ∈ data.toList, x ≠ none := by
    intro x hx hxn
    obtain ⟨k, hk, rfl⟩ := List.getElem_of_mem hx
    have hk' : k < data.size := by simpa using hk
    exact hc ⟨k, hk', by rw [getD_toList data k hk']; exact hxn⟩
  have := filterMap_id_length data.toList hall
  unfold slots at h
  rw [this] at h
  simp at h

/-- one step of the re-hash of `lp_polynomial_hash_set_extend` -/
def rehashStep (N : Nat) (acc : Array (Option Elem)) (slot : Option Elem) : Array (Option Elem) :=
  match slot with
  | none => acc
  | some e =>
    match probeEmpty acc N (home N e) with
    | some i => acc.set! i (some e)
    | none => acc

theorem extend_data (s : HSet) :
    (extend s).data = s.data.foldl (rehashStep (s.data.size * 2)) (Array.replicate (s.data.size * 2) none) := by
  unfold extend
  dsimp only
  congr

/-- the re-hash of the growth: every element of the list finds a free slot -/
theorem extend_fold (N : Nat) : ∀ (l : List (Option Elem)) (acc : Array (Option Elem)) (pre : List Elem),
    acc.size = N → (slots acc).Perm pre → pre.length + l.length < N →
    (l.foldl (rehashStep N) acc).size = N ∧ (slots (l.foldl (rehashStep N) acc)).Perm (pre ++ l.filterMap id) := by
  intro l
  induction l with
  | nil => intro acc pre hs hp _; simpa using ⟨hs, hp⟩
  | cons a l ih =>
    intro acc pre hs hp hlen
    simp only [List.length_cons] at hlen
    cases a with
    | none =>
      simp only [List.foldl_cons, List.filterMap_cons, id_eq, rehashStep]
      exact ih acc pre hs hp (by omega)
    | some e =>
      simp only [List.foldl_cons, List.filterMap_cons, id_eq]
      have hN : 0 < N := by omega
      have hfree : (slots acc).length < acc.size := by rw [hp.length_eq, hs]; omega
      obtain ⟨k, hk, hkn⟩ := exists_none acc hfree
      have hhome : home N e < acc.size := by rw [hs]; exact Nat.mod_lt _ hN
      obtain ⟨d, hd, hdk⟩ := exists_offset acc.size (home N e) k hhome hk
      obtain ⟨j, hj, hjs, hjn⟩ := probeEmpty_finds acc acc.size (home N e) hhome ⟨d, hd, by rw [hdk]; exact hkn⟩
      rw [hs] at hj
      have hstep : rehashStep N acc (some e) = acc.set! j (some e) := by
        unfold rehashStep; dsimp only; rw [hj]
      rw [hstep]
      have h1 := slots_fill acc j e hjs hjn
      have := ih (acc.set! j (some e)) (pre ++ [e]) (by simp [hs])
        (h1.trans ((List.Perm.cons e hp).trans (List.perm_append_singleton e pre).symm)) (by simp; omega)
      simpa [List.append_assoc] using this

/-- the growth of the table only moves elements -/
theorem extend_perm (s : HSet) (hs : 0 < s.data.size) : (closeList (extend s)).Perm (closeList s) := by
  rw [closeList_eq, closeList_eq, extend_data, ← Array.foldl_toList]
  have := (extend_fold (s.data.size * 2) s.data.toList (Array.replicate (s.data.size * 2) none) []
    (by simp) (by simp [slots]) (by simp; omega)).2
  simpa [slots] using this

/-- **a successful insert adds exactly the new element, whether or not the table grows** -/
theorem C20_hset_insert_perm_any (s : HSet) (e : Elem) (hs : 0 < s.data.size) (hins : (insert s e).2 = true) :
    (closeList (insert s e).1).Perm (e :: closeList s) := by
  by_cases hng : ¬ s.size + 1 > s.threshold
  · exact C20_hset_insert_perm s e hs hins hng
  · have hg : s.size + 1 > s.threshold := by simpa using hng
    unfold insert at hins ⊢
    cases hp : probe s.data e.key s.data.size (home s.data.size e) with
    | none => rw [hp] at hins; simp at hins
    | some r =>
      obtain ⟨i, found⟩ := r
      rw [hp] at hins
      cases found with
      | true => simp at hins
      | false =>
        dsimp only
        rw [if_pos hg]
        have hi := probe_lt s.data e.key _ _ i false (Nat.mod_lt _ hs) hp
        have hn := (probe_spec s.data e.key _ _ i false hp).2 rfl
        refine (extend_perm _ (by simp; exact hs)).trans ?_
        exact slots_fill s.data i e hi hn


theorem extend_size (s : HSet) (hs : 0 < s.data.size) : (extend s).data.size = s.data.size * 2 := by
  rw [extend_data, ← Array.foldl_toList]
  exact (extend_fold (s.data.size * 2) s.data.toList (Array.replicate (s.data.size * 2) none) []
    (by simp) (by simp [slots]) (by simp; omega)).1

theorem shiftBack_size : ∀ (fuel : Nat) (data : Array (Option Elem)) (hole j0 : Nat),
    (shiftBack data fuel hole j0).size = data.size := by
  intro fuel
  induction fuel with
  | zero => intro data hole j0; rfl
  | succ f ih =>
    intro data hole j0
    unfold shiftBack
    dsimp only
    cases data.getD ((j0 + 1) % data.size) none with
    | none => rfl
    | some e =>
      dsimp only
      split
      · rw [ih]; simp
      · rw [ih]

/-- the operations of a history of the table -/
inductive SOp | insert (e : Elem) | remove (e : Elem)

def applySOp (s : HSet) : SOp → HSet
  | .insert e => (insert s e).1
  | .remove e => (remove s e).1

/-- the slot array is never empty, after every history (so the hypotheses of the theorems above hold in every reachable state) -/
theorem C20_hset_reachable_size (ops : List SOp) : 0 < (ops.foldl applySOp HSet.empty).data.size := by
  suffices H : ∀ (ops : List SOp) (s : HSet), 0 < s.data.size → 0 < (ops.foldl applySOp s).data.size from
    H ops _ (by simp [HSet.empty, defaultSize])
  intro ops
  induction ops with
  | nil => intro s hs; exact hs
  | cons op ops ih =>
    intro s hs
    refine ih _ ?_
    cases op with
    | insert e =>
      show 0 < (insert s e).1.data.size
      unfold insert
      cases hp : probe s.data e.key s.data.size (home s.data.size e) with
      | none => exact hs
      | some r =>
        obtain ⟨i, found⟩ := r
        cases found with
        | true => exact hs
        | false =>
          dsimp only
          split
          · rw [extend_size _ (by simp; exact hs)]; simp; exact hs
          · simp; exact hs
    | remove e =>
      show 0 < (remove s e).1.data.size
      unfold remove
      cases hp : probe s.data e.key s.data.size (home s.data.size e) with
      | none => exact hs
      | some r =>
        obtain ⟨i, found⟩ := r
        cases found with
        | false => exact hs
        | true =>
          dsimp only
          unfold removeAt
          rw [shiftBack_size]; simp; exact hs

end HSet
end LP
