/-
  C15 — interval arithmetic never loses a point (rational and dyadic intervals).
  For every ordered field `α` (in particular ℝ), every pair of well-formed intervals with any
  open/closed pattern, and every `x ∈ I₁`, `y ∈ I₂`: `x + y`, `x - y`, `x * y`, `-x`, `x ^ n`
  belong to the interval computed by the model; point operands give exact point results.
-/
import LP.Lemmas.Interval
import Mathlib.Algebra.Order.Ring.Abs
import Mathlib.Algebra.Order.Field.Rat
import Mathlib.Data.Rat.Cast.Order
import Mathlib.Data.Real.Basic
import Mathlib.Tactic.Push

set_option linter.unusedSectionVars false

namespace LP
namespace QI

variable {α : Type*} [Field α] [LinearOrder α] [IsStrictOrderedRing α]

/-- the set of numbers denoted by an interval -/
def Mem (I : QI) (x : α) : Prop :=
  if I.isPoint then x = (I.a : α)
  else (if I.aOpen then (I.a : α) < x else (I.a : α) ≤ x) ∧ (if I.bOpen then x < (I.b : α) else x ≤ (I.b : α))

/-- well-formedness of the C object: a proper interval has `a < b` -/
def WF (I : QI) : Prop := I.isPoint = false → I.a < I.b

theorem mem_point (q : Rat) (x : α) : (point q).Mem x ↔ x = (q : α) := by simp [Mem, point]

theorem mem_mk' (a b : Rat) (ao bo : Bool) (x : α) :
    (mk' a ao b bo).Mem x ↔ (if ao then (a : α) < x else (a : α) ≤ x) ∧ (if bo then x < (b : α) else x ≤ (b : α)) := by
  unfold Mem mk'
  simp only [Bool.false_eq_true, if_false]

/-- weak bounds of a member of a proper interval -/
theorem Mem.bounds {I : QI} {x : α} (h : I.Mem x) (hp : I.isPoint = false) : (I.a : α) ≤ x ∧ x ≤ (I.b : α) := by
  unfold Mem at h
  rw [hp] at h
  simp only [Bool.false_eq_true, if_false] at h
  constructor
  · by_cases ho : I.aOpen = true
    · rw [if_pos ho] at h; exact h.1.le
    · rw [if_neg ho] at h; exact h.1
  · by_cases ho : I.bOpen = true
    · rw [if_pos ho] at h; exact h.2.le
    · rw [if_neg ho] at h; exact h.2

theorem Mem.a_closed {I : QI} {x : α} (h : I.Mem x) (hp : I.isPoint = false) (hx : x = (I.a : α)) : I.aOpen = false := by
  unfold Mem at h
  rw [hp] at h
  simp only [Bool.false_eq_true, if_false] at h
  by_contra ho
  have ho' : I.aOpen = true := by simpa using ho
  rw [if_pos ho', hx] at h
  exact lt_irrefl _ h.1

theorem Mem.b_closed {I : QI} {x : α} (h : I.Mem x) (hp : I.isPoint = false) (hx : x = (I.b : α)) : I.bOpen = false := by
  unfold Mem at h
  rw [hp] at h
  simp only [Bool.false_eq_true, if_false] at h
  by_contra ho
  have ho' : I.bOpen = true := by simpa using ho
  rw [if_pos ho', hx] at h
  exact lt_irrefl _ h.2

/-- assemble membership in `mk'` from weak bounds plus "not equal when open" -/
theorem mem_mk'_of (a b : Rat) (ao bo : Bool) (x : α) (h1 : (a : α) ≤ x) (h2 : x ≤ (b : α))
    (h3 : ao = true → x ≠ (a : α)) (h4 : bo = true → x ≠ (b : α)) : (mk' a ao b bo).Mem x := by
  rw [mem_mk']
  constructor
  · by_cases h : ao = true
    · rw [if_pos h]; exact lt_of_le_of_ne h1 (Ne.symm (h3 h))
    · rw [if_neg h]; exact h1
  · by_cases h : bo = true
    · rw [if_pos h]; exact lt_of_le_of_ne h2 (h4 h)
    · rw [if_neg h]; exact h2

/-! ### addition, negation, subtraction -/

theorem C15_add (I1 I2 : QI) (h1 : I1.WF) (h2 : I2.WF) (x y : α) (hx : I1.Mem x) (hy : I2.Mem y) :
    (add I1 I2).Mem (x + y) ∧ (add I1 I2).WF := by
  unfold add
  by_cases p1 : I1.isPoint = true <;> by_cases p2 : I2.isPoint = true
  · simp only [p1, p2, and_self, if_true]
    have ex : x = (I1.a : α) := by simpa [Mem, p1] using hx
    have ey : y = (I2.a : α) := by simpa [Mem, p2] using hy
    exact ⟨by rw [mem_point, ex, ey]; push_cast; ring, by simp [WF, point]⟩
  · have p2' : I2.isPoint = false := by simpa using p2
    have ex : x = (I1.a : α) := by simpa [Mem, p1] using hx
    simp only [p1, p2', Bool.false_eq_true, and_false, if_false, if_true]
    unfold Mem at hy
    rw [p2'] at hy
    simp only [Bool.false_eq_true, if_false] at hy
    refine ⟨?_, fun _ => by have := h2 p2'; simp only [mk']; linarith⟩
    rw [mem_mk', ex]; push_cast
    constructor
    · by_cases ho : I2.aOpen = true
      · rw [if_pos ho] at hy ⊢; linarith [hy.1]
      · rw [if_neg ho] at hy ⊢; linarith [hy.1]
    · by_cases ho : I2.bOpen = true
      · rw [if_pos ho] at hy ⊢; linarith [hy.2]
      · rw [if_neg ho] at hy ⊢; linarith [hy.2]
  · have p1' : I1.isPoint = false := by simpa using p1
    have ey : y = (I2.a : α) := by simpa [Mem, p2] using hy
    simp only [p1', p2, Bool.false_eq_true, false_and, if_false, if_true]
    unfold Mem at hx
    rw [p1'] at hx
    simp only [Bool.false_eq_true, if_false] at hx
    refine ⟨?_, fun _ => by have := h1 p1'; simp only [mk']; linarith⟩
    rw [mem_mk', ey]; push_cast
    constructor
    · by_cases ho : I1.aOpen = true
      · rw [if_pos ho] at hx ⊢; linarith [hx.1]
      · rw [if_neg ho] at hx ⊢; linarith [hx.1]
    · by_cases ho : I1.bOpen = true
      · rw [if_pos ho] at hx ⊢; linarith [hx.2]
      · rw [if_neg ho] at hx ⊢; linarith [hx.2]
  · have p1' : I1.isPoint = false := by simpa using p1
    have p2' : I2.isPoint = false := by simpa using p2
    simp only [p1', p2', Bool.false_eq_true, and_self, if_false]
    obtain ⟨bx1, bx2⟩ := hx.bounds p1'
    obtain ⟨by1, by2⟩ := hy.bounds p2'
    refine ⟨?_, fun _ => by have := h1 p1'; have := h2 p2'; simp only [mk']; linarith⟩
    apply mem_mk'_of
    · push_cast; linarith
    · push_cast; linarith
    · intro ho he
      push_cast at he
      have e1 : x = (I1.a : α) := by linarith
      have e2 : y = (I2.a : α) := by linarith
      have := hx.a_closed p1' e1
      have := hy.a_closed p2' e2
      simp_all
    · intro ho he
      push_cast at he
      have e1 : x = (I1.b : α) := by linarith
      have e2 : y = (I2.b : α) := by linarith
      have := hx.b_closed p1' e1
      have := hy.b_closed p2' e2
      simp_all

theorem C15_neg (I : QI) (h : I.WF) (x : α) (hx : I.Mem x) : (neg I).Mem (-x) ∧ (neg I).WF := by
  unfold neg
  by_cases p : I.isPoint = true
  · simp only [p, if_true]
    have ex : x = (I.a : α) := by simpa [Mem, p] using hx
    exact ⟨by rw [mem_point, ex]; push_cast; ring, by simp [WF, point]⟩
  · have p' : I.isPoint = false := by simpa using p
    simp only [p', Bool.false_eq_true, if_false]
    unfold Mem at hx
    rw [p'] at hx
    simp only [Bool.false_eq_true, if_false] at hx
    refine ⟨?_, fun _ => by have := h p'; simp only [mk']; linarith⟩
    rw [mem_mk']; push_cast
    constructor
    · by_cases ho : I.bOpen = true
      · rw [if_pos ho] at hx ⊢; linarith [hx.2]
      · rw [if_neg ho] at hx ⊢; linarith [hx.2]
    · by_cases ho : I.aOpen = true
      · rw [if_pos ho] at hx ⊢; linarith [hx.1]
      · rw [if_neg ho] at hx ⊢; linarith [hx.1]

theorem C15_sub (I1 I2 : QI) (h1 : I1.WF) (h2 : I2.WF) (x y : α) (hx : I1.Mem x) (hy : I2.Mem y) :
    (sub I1 I2).Mem (x - y) ∧ (sub I1 I2).WF := by
  unfold sub
  have n := C15_neg I2 h2 y hy
  have := C15_add I1 (neg I2) h1 n.2 x (-y) hx n.1
  rwa [← sub_eq_add_neg] at this

/-! ### multiplication -/

theorem mulPoint_mem (p : Rat) (I : QI) (hI : I.WF) (hp : I.isPoint = false) (y : α) (hy : I.Mem y) :
    (mulPoint p I).Mem ((p : α) * y) ∧ (mulPoint p I).WF := by
  unfold mulPoint
  unfold Mem at hy
  rw [hp] at hy
  simp only [Bool.false_eq_true, if_false] at hy
  have hab := hI hp
  rcases lt_trichotomy p 0 with hneg | hz | hpos
  · have hn : ¬ (p = 0) := ne_of_lt hneg
    have hn2 : ¬ (p > 0) := not_lt.2 hneg.le
    simp only [hn, hn2, if_false]
    have hpα : (p : α) < 0 := by exact_mod_cast hneg
    refine ⟨?_, fun _ => by simp only [mk']; exact mul_lt_mul_of_neg_left hab hneg⟩
    rw [mem_mk']; push_cast
    constructor
    · by_cases ho : I.bOpen = true
      · rw [if_pos ho] at hy ⊢; exact mul_lt_mul_of_neg_left hy.2 hpα
      · rw [if_neg ho] at hy ⊢; exact mul_le_mul_of_nonpos_left hy.2 hpα.le
    · by_cases ho : I.aOpen = true
      · rw [if_pos ho] at hy ⊢; exact mul_lt_mul_of_neg_left hy.1 hpα
      · rw [if_neg ho] at hy ⊢; exact mul_le_mul_of_nonpos_left hy.1 hpα.le
  · subst hz
    simp only [if_true]
    exact ⟨by rw [mem_point]; simp, by simp [WF, point]⟩
  · have hn : ¬ (p = 0) := ne_of_gt hpos
    simp only [hn, hpos, if_false, if_true]
    have hpα : (0 : α) < (p : α) := by exact_mod_cast hpos
    refine ⟨?_, fun _ => by simp only [mk']; exact mul_lt_mul_of_pos_left hab hpos⟩
    rw [mem_mk']; push_cast
    constructor
    · by_cases ho : I.aOpen = true
      · rw [if_pos ho] at hy ⊢; exact mul_lt_mul_of_pos_left hy.1 hpα
      · rw [if_neg ho] at hy ⊢; exact mul_le_mul_of_nonneg_left hy.1 hpα.le
    · by_cases ho : I.bOpen = true
      · rw [if_pos ho] at hy ⊢; exact mul_lt_mul_of_pos_left hy.2 hpα
      · rw [if_neg ho] at hy ⊢; exact mul_le_mul_of_nonneg_left hy.2 hpα.le

/-- a closed end point 0 -/
theorem closedZeroEnd_of_a {I : QI} {x : α} (h : I.Mem x) (hp : I.isPoint = false) (hx : x = (I.a : α)) (h0 : x = 0) :
    closedZeroEnd I = true := by
  have := h.a_closed hp hx
  have ha : I.a = 0 := by
    have : (I.a : α) = 0 := by rw [← hx]; exact h0
    exact_mod_cast this
  simp [closedZeroEnd, ha, this]

theorem closedZeroEnd_of_b {I : QI} {x : α} (h : I.Mem x) (hp : I.isPoint = false) (hx : x = (I.b : α)) (h0 : x = 0) :
    closedZeroEnd I = true := by
  have := h.b_closed hp hx
  have hb : I.b = 0 := by
    have : (I.b : α) = 0 := by rw [← hx]; exact h0
    exact_mod_cast this
  simp [closedZeroEnd, hb, this]

theorem mulGeneral_mem (I1 I2 : QI) (h1 : I1.WF) (h2 : I2.WF) (p1 : I1.isPoint = false) (p2 : I2.isPoint = false)
    (x y : α) (hx : I1.Mem x) (hy : I2.Mem y) : (mulGeneral I1 I2).Mem (x * y) ∧ (mulGeneral I1 I2).WF := by
  obtain ⟨ax, xb⟩ := hx.bounds p1
  obtain ⟨cy, yd⟩ := hy.bounds p2
  have hab : (I1.a : α) < I1.b := by exact_mod_cast h1 p1
  have hcd : (I2.a : α) < I2.b := by exact_mod_cast h2 p2
  unfold mulGeneral
  simp only
  set c0 : EPt := (I1.a * I2.a, I1.aOpen || I2.aOpen) with hc0
  set c1 : EPt := (I1.a * I2.b, I1.aOpen || I2.bOpen) with hc1
  set c2 : EPt := (I1.b * I2.a, I1.bOpen || I2.aOpen) with hc2
  set c3 : EPt := (I1.b * I2.b, I1.bOpen || I2.bOpen) with hc3
  obtain ⟨lm, lle, lop⟩ := foldLo_spec [c1, c2, c3] c0
  obtain ⟨hm, hle, hop⟩ := foldHi_spec [c1, c2, c3] c0
  set lo := [c1, c2, c3].foldl betterLo c0 with hlo
  set hi := [c1, c2, c3].foldl betterHi c0 with hhi
  have m0 : c0 ∈ [c0, c1, c2, c3] := by simp
  have m1 : c1 ∈ [c0, c1, c2, c3] := by simp
  have m2 : c2 ∈ [c0, c1, c2, c3] := by simp
  have m3 : c3 ∈ [c0, c1, c2, c3] := by simp
  -- casts of the corner values
  have v0 : ((c0.1 : Rat) : α) = (I1.a : α) * I2.a := by simp [hc0]
  have v1 : ((c1.1 : Rat) : α) = (I1.a : α) * I2.b := by simp [hc1]
  have v2 : ((c2.1 : Rat) : α) = (I1.b : α) * I2.a := by simp [hc2]
  have v3 : ((c3.1 : Rat) : α) = (I1.b : α) * I2.b := by simp [hc3]
  have castle : ∀ {u v : Rat}, u ≤ v → (u : α) ≤ (v : α) := fun h => by exact_mod_cast h
  -- the common contradiction: the value is attained, but the corresponding end is reported open
  have attained : ∀ (e : EPt), (∀ c ∈ [c0, c1, c2, c3], c.1 = e.1 → e.2 = true → c.2 = true) →
      x * y = (e.1 : α) →
      ((x = (I1.a : α) ∨ x = (I1.b : α)) ∧ (y = (I2.a : α) ∨ y = (I2.b : α))) ∨ (x = 0 ∧ (x = (I1.a : α) ∨ x = (I1.b : α))) ∨
        (y = 0 ∧ (y = (I2.a : α) ∨ y = (I2.b : α))) →
      (if e.1 = 0 ∧ (closedZeroEnd I1 || closedZeroEnd I2) = true then false else e.2) = true → False := by
    intro e eop hxy hatt hopen
    have hcz : ¬ (e.1 = 0 ∧ (closedZeroEnd I1 || closedZeroEnd I2) = true) := by
      intro hc; rw [if_pos hc] at hopen; exact absurd hopen (by simp)
    rw [if_neg hcz] at hopen
    have ez : x * y = 0 → e.1 = 0 := by
      intro h0; rw [hxy] at h0; exact_mod_cast h0
    rcases hatt with ⟨hxa, hyc⟩ | ⟨hx0, hxa⟩ | ⟨hy0, hyc⟩
    · -- attained at a corner whose two coordinates are closed
      have corner : ∀ (c : EPt) (px py : Rat) (fo go : Bool), c ∈ [c0, c1, c2, c3] → c = (px * py, fo || go) →
          x = (px : α) → y = (py : α) → fo = false → go = false → False := by
        intro c px py fo go hc hce hxp hyp hf hg
        have hv : c.1 = e.1 := by
          have : ((c.1 : Rat) : α) = (e.1 : α) := by rw [← hxy, hce, hxp, hyp]; push_cast; rfl
          exact_mod_cast this
        have := eop c hc hv hopen
        rw [hce, hf, hg] at this
        simp at this
      rcases hxa with hxa | hxa <;> rcases hyc with hyc | hyc
      · exact corner c0 _ _ _ _ m0 hc0 hxa hyc (hx.a_closed p1 hxa) (hy.a_closed p2 hyc)
      · exact corner c1 _ _ _ _ m1 hc1 hxa hyc (hx.a_closed p1 hxa) (hy.b_closed p2 hyc)
      · exact corner c2 _ _ _ _ m2 hc2 hxa hyc (hx.b_closed p1 hxa) (hy.a_closed p2 hyc)
      · exact corner c3 _ _ _ _ m3 hc3 hxa hyc (hx.b_closed p1 hxa) (hy.b_closed p2 hyc)
    · apply hcz
      refine ⟨ez (by rw [hx0]; ring), ?_⟩
      rcases hxa with hxa | hxa
      · simp [closedZeroEnd_of_a hx p1 hxa hx0]
      · simp [closedZeroEnd_of_b hx p1 hxa hx0]
    · apply hcz
      refine ⟨ez (by rw [hy0]; ring), ?_⟩
      rcases hyc with hyc | hyc
      · simp [closedZeroEnd_of_a hy p2 hyc hy0]
      · simp [closedZeroEnd_of_b hy p2 hyc hy0]
  -- bounds
  have L : (lo.1 : α) ≤ x * y := by
    rcases IntervalLemmas.corner_lower _ _ _ _ x y ax xb cy yd with h | h | h | h
    · exact (castle (lle c0 m0)).trans (by rw [v0]; exact h)
    · exact (castle (lle c1 m1)).trans (by rw [v1]; exact h)
    · exact (castle (lle c2 m2)).trans (by rw [v2]; exact h)
    · exact (castle (lle c3 m3)).trans (by rw [v3]; exact h)
  have U : x * y ≤ (hi.1 : α) := by
    rcases IntervalLemmas.corner_upper _ _ _ _ x y ax xb cy yd with h | h | h | h
    · exact h.trans (by rw [← v0]; exact castle (hle c0 m0))
    · exact h.trans (by rw [← v1]; exact castle (hle c1 m1))
    · exact h.trans (by rw [← v2]; exact castle (hle c2 m2))
    · exact h.trans (by rw [← v3]; exact castle (hle c3 m3))
  refine ⟨?_, ?_⟩
  · apply mem_mk'_of _ _ _ _ _ L U
    · intro hopen he
      refine attained lo (fun c hc => lop c hc) he ?_ hopen
      apply IntervalLemmas.attain _ _ _ _ x y hab hcd ax xb cy yd
      · rw [he, ← v0]; exact castle (lle c0 m0)
      · rw [he, ← v1]; exact castle (lle c1 m1)
      · rw [he, ← v2]; exact castle (lle c2 m2)
      · rw [he, ← v3]; exact castle (lle c3 m3)
    · intro hopen he
      refine attained hi (fun c hc => hop c hc) he ?_ hopen
      apply IntervalLemmas.attain_upper _ _ _ _ x y hab hcd ax xb cy yd
      · rw [he, ← v0]; exact castle (hle c0 m0)
      · rw [he, ← v1]; exact castle (hle c1 m1)
      · rw [he, ← v2]; exact castle (hle c2 m2)
      · rw [he, ← v3]; exact castle (hle c3 m3)
  · -- the result is a proper interval: lo < hi, because the corner products are not all equal
    intro _
    simp only [mk']
    have hab' := h1 p1
    have hcd' := h2 p2
    by_contra hnot
    have hle' : hi.1 ≤ lo.1 := not_lt.1 hnot
    have eqall : ∀ c ∈ [c0, c1, c2, c3], c.1 = lo.1 := fun c hc =>
      le_antisymm ((hle c hc).trans hle') (lle c hc)
    have e0 := eqall c0 m0
    have e1 := eqall c1 m1
    have e2 := eqall c2 m2
    have e3 := eqall c3 m3
    simp only [hc0, hc1, hc2, hc3] at e0 e1 e2 e3
    have k1 : I1.a * (I2.b - I2.a) = 0 := by linarith
    have k2 : I1.b * (I2.b - I2.a) = 0 := by linarith
    have hne : I2.b - I2.a ≠ 0 := by linarith
    have a0 : I1.a = 0 := (mul_eq_zero.1 k1).resolve_right hne
    have b0 : I1.b = 0 := (mul_eq_zero.1 k2).resolve_right hne
    linarith

/-- `*_interval_mul`: the product interval contains every product, and is a point exactly for point operands. -/
theorem C15_mul (I1 I2 : QI) (h1 : I1.WF) (h2 : I2.WF) (x y : α) (hx : I1.Mem x) (hy : I2.Mem y) :
    (mul I1 I2).Mem (x * y) ∧ (mul I1 I2).WF := by
  unfold mul
  by_cases p1 : I1.isPoint = true <;> by_cases p2 : I2.isPoint = true
  · simp only [p1, p2, if_true]
    have ex : x = (I1.a : α) := by simpa [Mem, p1] using hx
    have ey : y = (I2.a : α) := by simpa [Mem, p2] using hy
    exact ⟨by rw [mem_point, ex, ey]; push_cast; ring, by simp [WF, point]⟩
  · have p2' : I2.isPoint = false := by simpa using p2
    have ex : x = (I1.a : α) := by simpa [Mem, p1] using hx
    simp only [p1, p2', Bool.false_eq_true, if_false, if_true]
    rw [ex]; exact mulPoint_mem _ _ h2 p2' y hy
  · have p1' : I1.isPoint = false := by simpa using p1
    have ey : y = (I2.a : α) := by simpa [Mem, p2] using hy
    simp only [p1', p2, Bool.false_eq_true, if_false, if_true]
    rw [ey, mul_comm]; exact mulPoint_mem _ _ h1 p1' x hx
  · have p1' : I1.isPoint = false := by simpa using p1
    have p2' : I2.isPoint = false := by simpa using p2
    simp only [p1', p2', Bool.false_eq_true, if_false]
    exact mulGeneral_mem I1 I2 h1 h2 p1' p2' x y hx hy

/-- exactness on points: all binary operations and powers of point intervals are the exact point. -/
theorem C15_exact_points (p q : Rat) (n : Nat) :
    add (point p) (point q) = point (p + q) ∧ sub (point p) (point q) = point (p - q) ∧
    mul (point p) (point q) = point (p * q) ∧ neg (point p) = point (-p) ∧ pow (point p) n = point (p ^ n) := by
  refine ⟨by simp [add, point], by simp [sub, add, neg, point, sub_eq_add_neg], by simp [mul, point], by simp [neg, point], ?_⟩
  unfold pow
  by_cases h : n = 0
  · subst h; simp
  · simp [h, point]

/-! ### sign of an interval and powers -/

theorem sgn_char (I : QI) (h : I.WF) (p : I.isPoint = false) :
    (0 < sgn I ↔ (0 < I.a ∨ (I.a = 0 ∧ I.aOpen = true))) ∧
    (sgn I < 0 ↔ (I.b < 0 ∨ (I.b = 0 ∧ I.bOpen = true))) ∧
    (sgn I = 0 ↔ ((I.a < 0 ∨ (I.a = 0 ∧ I.aOpen = false)) ∧ (0 < I.b ∨ (I.b = 0 ∧ I.bOpen = false)))) := by
  have hab := h p
  unfold sgn sgnQ
  simp only [p, Bool.false_eq_true, if_false]
  rcases lt_trichotomy I.a 0 with ha | ha | ha <;> rcases lt_trichotomy I.b 0 with hb | hb | hb <;>
    cases hao : I.aOpen <;> cases hbo : I.bOpen <;>
    simp_all [not_lt.2 (le_of_lt _)] <;> (try linarith) <;> (try (constructor <;> linarith))

/-- `*_interval_sgn`: +1 / -1 only if every member is positive / negative, 0 only if 0 is a member. -/
theorem C15_sgn (I : QI) (h : I.WF) :
    (0 < sgn I → ∀ x : α, I.Mem x → 0 < x) ∧ (sgn I < 0 → ∀ x : α, I.Mem x → x < 0) ∧ (sgn I = 0 → I.Mem (0 : α)) := by
  by_cases p : I.isPoint = true
  · have hs : sgn I = sgnQ I.a := by simp [sgn, p]
    rw [hs]
    unfold sgnQ
    refine ⟨?_, ?_, ?_⟩
    · intro hpos x hx
      have ex : x = (I.a : α) := by simpa [Mem, p] using hx
      have : 0 < I.a := by by_contra hn; simp [hn] at hpos; split_ifs at hpos <;> omega
      rw [ex]; exact_mod_cast this
    · intro hneg x hx
      have ex : x = (I.a : α) := by simpa [Mem, p] using hx
      have : I.a < 0 := by
        by_contra hn
        by_cases h0 : I.a > 0 <;> simp [hn, h0] at hneg
      rw [ex]; exact_mod_cast this
    · intro hz
      have : I.a = 0 := by
        by_contra hn
        rcases lt_or_gt_of_ne hn with h1 | h1
        · simp [h1, not_lt.2 h1.le] at hz
        · simp [h1] at hz
      simp [Mem, p, this]
  · have p' : I.isPoint = false := by simpa using p
    obtain ⟨c1, c2, c3⟩ := sgn_char I h p'
    refine ⟨?_, ?_, ?_⟩
    · intro hpos x hx
      obtain ⟨bx, _⟩ := hx.bounds p'
      rcases c1.1 hpos with ha | ⟨ha, hao⟩
      · have : (0 : α) < I.a := by exact_mod_cast ha
        linarith
      · unfold Mem at hx
        rw [p'] at hx
        simp only [Bool.false_eq_true, if_false, hao, if_true] at hx
        have : (I.a : α) = 0 := by exact_mod_cast ha
        rw [this] at hx; exact hx.1
    · intro hneg x hx
      obtain ⟨_, bx⟩ := hx.bounds p'
      rcases c2.1 hneg with hb | ⟨hb, hbo⟩
      · have : (I.b : α) < 0 := by exact_mod_cast hb
        linarith
      · unfold Mem at hx
        rw [p'] at hx
        simp only [Bool.false_eq_true, if_false, hbo, if_true] at hx
        have : (I.b : α) = 0 := by exact_mod_cast hb
        rw [this] at hx; exact hx.2
    · intro hz
      obtain ⟨ha, hb⟩ := c3.1 hz
      unfold Mem
      rw [p']
      simp only [Bool.false_eq_true, if_false]
      constructor
      · rcases ha with ha | ⟨ha, hao⟩
        · have : (I.a : α) < 0 := by exact_mod_cast ha
          split_ifs <;> linarith
        · have : (I.a : α) = 0 := by exact_mod_cast ha
          simp [hao, this]
      · rcases hb with hb | ⟨hb, hbo⟩
        · have : (0 : α) < I.b := by exact_mod_cast hb
          split_ifs <;> linarith
        · have : (I.b : α) = 0 := by exact_mod_cast hb
          simp [hbo, this]

private theorem even_pow_mono {n : Nat} (hn : Even n) (u v : α) (h : |u| ≤ |v|) : u ^ n ≤ v ^ n := by
  rw [← Even.pow_abs hn u, ← Even.pow_abs hn v]
  exact pow_le_pow_left₀ (abs_nonneg u) h n

private theorem even_pow_inj {n : Nat} (hn : Even n) (hn0 : n ≠ 0) (u v : α) (h : u ^ n = v ^ n) : |u| = |v| := by
  rw [← Even.pow_abs hn u, ← Even.pow_abs hn v] at h
  exact (pow_left_inj₀ (abs_nonneg u) (abs_nonneg v) hn0).1 h

/-- `*_interval_pow`: contains `x ^ n` for every member `x`, for every exponent. -/
theorem C15_pow (I : QI) (h : I.WF) (n : Nat) (x : α) (hx : I.Mem x) : (pow I n).Mem (x ^ n) ∧ (pow I n).WF := by
  unfold pow
  by_cases hn0 : n = 0
  · subst hn0
    simp only [if_true, pow_zero]
    exact ⟨by rw [mem_point]; simp, by simp [WF, point]⟩
  simp only [hn0, if_false]
  by_cases p : I.isPoint = true
  · simp only [p, if_true]
    have ex : x = (I.a : α) := by simpa [Mem, p] using hx
    exact ⟨by rw [mem_point, ex]; push_cast; rfl, by simp [WF, point]⟩
  have p' : I.isPoint = false := by simpa using p
  simp only [p', Bool.false_eq_true, if_false]
  have hab := h p'
  obtain ⟨ax, xb⟩ := hx.bounds p'
  by_cases hodd : n % 2 = 1
  · simp only [hodd, if_true]
    have ho : Odd n := Nat.odd_iff.2 hodd
    have sm : StrictMono fun a : α => a ^ n := Odd.strictMono_pow ho
    have smq : StrictMono fun a : ℚ => a ^ n := Odd.strictMono_pow ho
    refine ⟨?_, fun _ => by simp only [mk']; exact smq hab⟩
    apply mem_mk'_of
    · push_cast; exact sm.monotone ax
    · push_cast; exact sm.monotone xb
    · intro hopen he
      push_cast at he
      have := sm.injective he
      have := hx.a_closed p' this
      simp_all
    · intro hopen he
      push_cast at he
      have := sm.injective he
      have := hx.b_closed p' this
      simp_all
  · simp only [hodd, if_false]
    have hev : Even n := Nat.even_iff.2 (by omega)
    obtain ⟨c1, c2, c3⟩ := sgn_char I h p'
    have castpos : ∀ {u : ℚ}, 0 ≤ u → (0:α) ≤ (u:α) := fun h => by exact_mod_cast h
    by_cases hs0 : sgn I = 0
    · simp only [hs0, if_true]
      obtain ⟨ha, hb⟩ := c3.1 hs0
      have ha0 : (I.a : α) ≤ 0 := by
        rcases ha with ha | ha
        · exact_mod_cast ha.le
        · exact_mod_cast ha.1.le
      have hb0 : (0 : α) ≤ I.b := by
        rcases hb with hb | hb
        · exact_mod_cast hb.le
        · exact_mod_cast hb.1.ge
      -- |x| ≤ |a| for x ≤ 0 and |x| ≤ |b| for x ≥ 0
      have up_b : 0 ≤ x → x ^ n ≤ (I.b : α) ^ n := fun hx0 => pow_le_pow_left₀ hx0 xb n
      have up_a : x ≤ 0 → x ^ n ≤ (I.a : α) ^ n := fun hx0 => by
        apply even_pow_mono hev
        rw [abs_of_nonpos hx0, abs_of_nonpos ha0]; linarith
      have eq_b : 0 ≤ x → x ^ n = (I.b : α) ^ n → x = (I.b : α) := fun hx0 he =>
        (pow_left_inj₀ hx0 hb0 hn0).1 he
      have eq_a : x ≤ 0 → x ^ n = (I.a : α) ^ n → x = (I.a : α) := fun hx0 he => by
        have := even_pow_inj hev hn0 _ _ he
        rw [abs_of_nonpos hx0, abs_of_nonpos ha0] at this; linarith
      have xn0 : (0 : α) ≤ x ^ n := Even.pow_nonneg hev x
      by_cases hsel : endpointLt (I.b ^ n) (!I.bOpen) (I.a ^ n) (!I.aOpen) = true
      · rw [if_pos hsel]
        rw [endpointLt_iff] at hsel
        have hsel' : I.b ^ n < I.a ^ n ∨ (I.b ^ n = I.a ^ n ∧ I.bOpen = true ∧ I.aOpen = false) := by
          rcases hsel with h | ⟨h1, h2, h3⟩
          · exact Or.inl h
          · exact Or.inr ⟨h1, by simpa using h2, by simpa using h3⟩
        have hba : (I.b : α) ^ n ≤ (I.a : α) ^ n := by
          rcases hsel' with h | h
          · exact_mod_cast h.le
          · exact_mod_cast h.1.le
        refine ⟨?_, ?_⟩
        · apply mem_mk'_of
          · simpa using xn0
          · push_cast
            rcases le_total 0 x with hx0 | hx0
            · exact (up_b hx0).trans hba
            · exact up_a hx0
          · intro hf; simp at hf
          · intro hopen he
            push_cast at he
            rcases le_total 0 x with hx0 | hx0
            · have hbe : (I.b : α) ^ n = (I.a : α) ^ n := le_antisymm hba (by rw [← he]; exact up_b hx0)
              rcases hsel' with h | h
              · have : (I.b : α) ^ n < (I.a : α) ^ n := by exact_mod_cast h
                linarith
              · rw [h.2.2] at hopen; simp at hopen
            · have := hx.a_closed p' (eq_a hx0 he)
              rw [this] at hopen; simp at hopen
        · intro _
          simp only [mk']
          have hbn : (0 : ℚ) ≤ I.b ^ n := Even.pow_nonneg hev _
          rcases hsel' with h | h
          · linarith
          · rcases lt_or_eq_of_le (Even.pow_nonneg hev I.a) with h0 | h0
            · exact h0
            · exfalso
              have a0 : I.a = 0 := by
                by_contra hne; exact (pow_ne_zero n hne) h0.symm
              have b0 : I.b = 0 := by
                by_contra hne; exact (pow_ne_zero n hne) (by rw [h.1, ← h0])
              linarith
      · rw [if_neg hsel]
        rw [endpointLt_iff] at hsel
        push Not at hsel
        have hab' : (I.a : α) ^ n ≤ (I.b : α) ^ n := by exact_mod_cast hsel.1
        refine ⟨?_, ?_⟩
        · apply mem_mk'_of
          · simpa using xn0
          · push_cast
            rcases le_total 0 x with hx0 | hx0
            · exact up_b hx0
            · exact (up_a hx0).trans hab'
          · intro hf; simp at hf
          · intro hopen he
            push_cast at he
            rcases le_total 0 x with hx0 | hx0
            · have := hx.b_closed p' (eq_b hx0 he)
              rw [this] at hopen; simp at hopen
            · have hae : (I.a : α) ^ n = (I.b : α) ^ n := le_antisymm hab' (by rw [← he]; exact up_a hx0)
              have hxa := hx.a_closed p' (eq_a hx0 (by rw [he, hae]))
              have hq : I.b ^ n = I.a ^ n := by exact_mod_cast hae.symm
              exact hsel.2 hq (by simp [hopen]) (by simp [hxa])
        · intro _
          simp only [mk']
          have han : (0 : ℚ) ≤ I.a ^ n := Even.pow_nonneg hev _
          rcases lt_or_eq_of_le (Even.pow_nonneg hev I.b) with h0 | h0
          · exact h0
          · exfalso
            have b0 : I.b = 0 := by
              by_contra hne; exact (pow_ne_zero n hne) h0.symm
            have a0 : I.a = 0 := by
              by_contra hne
              have : I.a ^ n ≤ 0 := by rw [h0]; exact hsel.1
              exact (pow_ne_zero n hne) (le_antisymm this han)
            linarith
    · simp only [hs0, if_false]
      by_cases hsp : sgn I > 0
      · simp only [hsp, if_true]
        have ha0q : 0 ≤ I.a := by
          rcases c1.1 hsp with h | h
          · exact h.le
          · exact h.1.ge
        have ha0 : (0 : α) ≤ I.a := castpos ha0q
        have hx0 : 0 ≤ x := ha0.trans ax
        refine ⟨?_, fun _ => by simp only [mk']; exact pow_lt_pow_left₀ hab ha0q hn0⟩
        apply mem_mk'_of
        · push_cast; exact pow_le_pow_left₀ ha0 ax n
        · push_cast; exact pow_le_pow_left₀ hx0 xb n
        · intro hopen he
          push_cast at he
          have := (pow_left_inj₀ hx0 ha0 hn0).1 he
          have := hx.a_closed p' this
          simp_all
        · intro hopen he
          push_cast at he
          have := (pow_left_inj₀ hx0 (hx0.trans xb) hn0).1 he
          have := hx.b_closed p' this
          simp_all
      · simp only [hsp, if_false]
        have hsn : sgn I < 0 := by omega
        have hb0q : I.b ≤ 0 := by
          rcases c2.1 hsn with h | h
          · exact h.le
          · exact h.1.le
        have hb0 : (I.b : α) ≤ 0 := by exact_mod_cast hb0q
        have hx0 : x ≤ 0 := xb.trans hb0
        have ha0 : (I.a : α) ≤ 0 := ax.trans hx0
        refine ⟨?_, fun _ => ?_⟩
        · apply mem_mk'_of
          · push_cast
            apply even_pow_mono hev
            rw [abs_of_nonpos hb0, abs_of_nonpos hx0]; linarith
          · push_cast
            apply even_pow_mono hev
            rw [abs_of_nonpos hx0, abs_of_nonpos ha0]; linarith
          · intro hopen he
            push_cast at he
            have := even_pow_inj hev hn0 _ _ he
            rw [abs_of_nonpos hx0, abs_of_nonpos hb0] at this
            have := hx.b_closed p' (by linarith)
            simp_all
          · intro hopen he
            push_cast at he
            have := even_pow_inj hev hn0 _ _ he
            rw [abs_of_nonpos hx0, abs_of_nonpos ha0] at this
            have := hx.a_closed p' (by linarith)
            simp_all
        · simp only [mk']
          have : (-I.b) ^ n < (-I.a) ^ n := pow_lt_pow_left₀ (by linarith) (by linarith) hn0
          rwa [Even.neg_pow hev, Even.neg_pow hev] at this

/-- the statement over the reals, all operations at once -/
theorem C15_real (I1 I2 : QI) (h1 : I1.WF) (h2 : I2.WF) (n : Nat) (x y : ℝ) (hx : I1.Mem x) (hy : I2.Mem y) :
    (add I1 I2).Mem (x + y) ∧ (sub I1 I2).Mem (x - y) ∧ (mul I1 I2).Mem (x * y) ∧ (neg I1).Mem (-x) ∧ (pow I1 n).Mem (x ^ n) :=
  ⟨(C15_add I1 I2 h1 h2 x y hx hy).1, (C15_sub I1 I2 h1 h2 x y hx hy).1, (C15_mul I1 I2 h1 h2 x y hx hy).1,
   (C15_neg I1 h1 x hx).1, (C15_pow I1 h1 n x hx).1⟩

/-! non-vacuity: concrete intervals meeting the hypotheses (the tie cases of the case split) -/
example : (mk' (-2) false 2 true).WF ∧ (mk' (-2) false 2 true).Mem (-2 : ℝ) := by
  constructor
  · intro _; norm_num [mk']
  · rw [mem_mk']; norm_num
example : (mk' 0 true 1 true).Mem ((1:ℝ)/2) ∧ (mk' 0 false 1 false).Mem (0 : ℝ) := by
  constructor <;> rw [mem_mk'] <;> norm_num

end QI
end LP
