/* C08 harness: lp_value_t over all representations.
 * Pool per case: a few rational numbers, each in every representation that can hold it (integer, dyadic, rational,
 * algebraic point / linear polynomial), irrational algebraic numbers (incl. numbers that are secretly rational roots of
 * a reducible quadratic), +-infinity.
 *   val cmp V W => c          val cmpq V q => c        val sgn V => s
 *   val add|sub|mul|div V W => R     val neg|inv V => R     val pow V n => R
 *   val floor|ceil V => z     val isint V => b      val ratinfo V => is_rational [q num den]
 *   val between V sa W sb => R
 *   val hash V W prec => h1 h2
 */
#include "halg.h"

#define POOL 40
static lp_value_t pool[POOL]; static int npool;

static const long vblocks[][5] = {
  {2, -2, 0, 1}, {2, -3, 0, 1}, {2, -1, -1, 1}, {2, -1, 0, 2}, {2, 5, -16, 3}, {2, -1, 1, 6}, {2, -2, -5, 3}, {3, -2, 0, 0, 1}, {2, -5, 0, 1}, {3, 1, -3, 0, 1},
};
#define NVBLOCKS (sizeof vblocks / sizeof vblocks[0])

static void add_rational_reps(long num, unsigned long den) {
  lp_rational_t q; lp_rational_construct_from_int(&q, num, den);
  /* rational */
  if (npool < POOL) lp_value_construct(&pool[npool++], LP_VALUE_RATIONAL, &q);
  /* algebraic */
  if (npool < POOL && chance(70)) { lp_algebraic_number_t a; lp_algebraic_number_construct_from_rational(&a, &q);
    lp_value_construct(&pool[npool++], LP_VALUE_ALGEBRAIC, &a); lp_algebraic_number_destruct(&a); }
  /* dyadic, integer */
  if ((den & (den - 1)) == 0) {
    unsigned n = 0; while ((1ul << n) < den) ++n;
    lp_dyadic_rational_t d; lp_dyadic_rational_construct_from_int(&d, num, n);
    if (npool < POOL) lp_value_construct(&pool[npool++], LP_VALUE_DYADIC_RATIONAL, &d);
    lp_dyadic_rational_destruct(&d);
  }
  if (lp_rational_is_integer(&q)) {
    lp_integer_t z; lp_integer_construct(&z); lp_rational_get_num(&q, &z);
    if (npool < POOL) lp_value_construct(&pool[npool++], LP_VALUE_INTEGER, &z);
    lp_integer_destruct(&z);
  }
  lp_rational_destruct(&q);
}

static void add_roots(const long* b) {
  lp_upolynomial_t* f = lp_upolynomial_construct_from_long(lp_Z, b[0], b + 1);
  lp_algebraic_number_t roots[4]; size_t n = 0;
  lp_upolynomial_roots_isolate(f, roots, &n);
  for (size_t i = 0; i < n; ++i) {
    if (npool < POOL - 8) lp_value_construct(&pool[npool++], LP_VALUE_ALGEBRAIC, &roots[i]);
    lp_algebraic_number_destruct(&roots[i]);
  }
  lp_upolynomial_delete(f);
}

static void build_pool(void) {
  npool = 0;
  add_roots(vblocks[rnd(NVBLOCKS)]);
  if (chance(60)) add_roots(vblocks[rnd(NVBLOCKS)]);
  int nr = 2 + rnd(3);
  for (int i = 0; i < nr; ++i) {
    unsigned k = rnd(5);
    if (k == 0) add_rational_reps(rnd_in(-3, 3), 1);
    else if (k == 1) add_rational_reps(rnd_in(-9, 9), 1ul << (1 + rnd(3)));
    else if (k == 2) add_rational_reps(rnd_in(-7, 7), 3);
    else if (k == 3) add_rational_reps(0, 1);
    else add_rational_reps(rnd_in(-20, 20), 1 + rnd(9));
  }
  if (chance(40) && npool < POOL) lp_value_construct(&pool[npool++], LP_VALUE_PLUS_INFINITY, 0);
  if (chance(40) && npool < POOL) lp_value_construct(&pool[npool++], LP_VALUE_MINUS_INFINITY, 0);
}

static int is_inf(const lp_value_t* v) { return v->type == LP_VALUE_PLUS_INFINITY || v->type == LP_VALUE_MINUS_INFINITY; }
static int alg_degree(const lp_value_t* v) { return v->type == LP_VALUE_ALGEBRAIC && v->value.a.f ? (int)lp_upolynomial_degree(v->value.a.f) : 1; }

static void one_op(void) {
  const lp_value_t* a = &pool[rnd(npool)]; const lp_value_t* b = &pool[rnd(npool)];
  unsigned op = rnd(100);
  lp_value_t r; lp_value_construct_none(&r);
  if (op < 22) {
    sb_begin("val", "cmp"); sb_sp(); sb_val(a); sb_sp(); sb_val(b); sb_arrow();
    int c = lp_value_cmp(a, b); sb_sp(); sb_long(c); sb_emit();
  } else if (op < 27) {
    lp_rational_t q; lp_rational_construct_from_int(&q, rnd_in(-9, 9), 1 + rnd(6));
    sb_begin("val", "cmpq"); sb_sp(); sb_val(a); sb_sp(); sb_mpq(&q); sb_arrow();
    int c = lp_value_cmp_rational(a, &q); sb_sp(); sb_long(c); sb_emit();
    lp_rational_destruct(&q);
  } else if (op < 31) {
    sb_begin("val", "sgn"); sb_sp(); sb_val(a); sb_arrow(); int s = lp_value_sgn(a); sb_sp(); sb_long(s); sb_emit();
  } else if (op < 55) {
    unsigned k = rnd(4);
    const char* name = k == 0 ? "add" : k == 1 ? "sub" : k == 2 ? "mul" : "div";
    if (alg_degree(a) + alg_degree(b) > 6) goto done;
    /* undefined combinations */
    if (k == 0 && is_inf(a) && is_inf(b) && a->type != b->type) goto done;
    if (k == 1 && is_inf(a) && is_inf(b) && a->type == b->type) goto done;
    if (k == 2 && ((is_inf(a) && lp_value_sgn(b) == 0) || (is_inf(b) && lp_value_sgn(a) == 0))) goto done;
    if (k == 3 && (lp_value_sgn(b) == 0 || (is_inf(a) && is_inf(b)))) goto done;
    { /* destination: fresh (none), pre-used with a value of any kind, or an alias (copy) of an operand */
      unsigned dk = rnd(4); char nm[16];
      const lp_value_t* A2 = a; const lp_value_t* B2 = b;
      if (dk == 1) { lp_value_destruct(&r); lp_value_construct_copy(&r, &pool[rnd(npool)]); }
      else if (dk == 2) { lp_value_destruct(&r); lp_value_construct_copy(&r, a); A2 = &r; }
      else if (dk == 3) { lp_value_destruct(&r); lp_value_construct_copy(&r, b); B2 = &r; }
      snprintf(nm, sizeof nm, "%s@%c", name, "fpab"[dk]);
      sb_begin("val", nm); sb_sp(); sb_val(a); sb_sp(); sb_val(b); sb_arrow();
      if (k == 0) lp_value_add(&r, A2, B2); else if (k == 1) lp_value_sub(&r, A2, B2); else if (k == 2) lp_value_mul(&r, A2, B2); else lp_value_div(&r, A2, B2);
      sb_sp(); sb_val(&r); sb_emit(); }
  } else if (op < 62) {
    int inv = chance(50);
    if (inv && lp_value_sgn(a) == 0) goto done;
    { unsigned dk = rnd(3); char nm[16]; const lp_value_t* A2 = a;
      if (dk == 1) { lp_value_destruct(&r); lp_value_construct_copy(&r, &pool[rnd(npool)]); }
      else if (dk == 2) { lp_value_destruct(&r); lp_value_construct_copy(&r, a); A2 = &r; }
      snprintf(nm, sizeof nm, "%s@%c", inv ? "inv" : "neg", "fpa"[dk]);
      sb_begin("val", nm); sb_sp(); sb_val(a); sb_arrow();
      if (inv) lp_value_inv(&r, A2); else lp_value_neg(&r, A2);
      sb_sp(); sb_val(&r); sb_emit(); }
  } else if (op < 68) {
    unsigned n = rnd(5);        /* 0 included: x^0 = 1 in every representation */
    if (alg_degree(a) > 3) goto done;
    { unsigned dk = rnd(3); char nm[16]; const lp_value_t* A2 = a;
      if (dk == 1) { lp_value_destruct(&r); lp_value_construct_copy(&r, &pool[rnd(npool)]); }
      else if (dk == 2) { lp_value_destruct(&r); lp_value_construct_copy(&r, a); A2 = &r; }
      snprintf(nm, sizeof nm, "pow@%c", "fpa"[dk]);
      sb_begin("val", nm); sb_sp(); sb_val(a); sb_sp(); sb_ulong(n); sb_arrow();
      lp_value_pow(&r, A2, n);
      sb_sp(); sb_val(&r); sb_emit(); }
  } else if (op < 76) {
    if (is_inf(a)) goto done;
    unsigned k = rnd(3);
    lp_integer_t z; lp_integer_construct(&z);
    if (k == 0) { sb_begin("val", "floor"); sb_sp(); sb_val(a); sb_arrow(); lp_value_floor(a, &z); sb_sp(); sb_mpz(&z); sb_emit(); }
    else if (k == 1) { sb_begin("val", "ceil"); sb_sp(); sb_val(a); sb_arrow(); lp_value_ceiling(a, &z); sb_sp(); sb_mpz(&z); sb_emit(); }
    else { sb_begin("val", "isint"); sb_sp(); sb_val(a); sb_arrow(); int s = lp_value_is_integer(a); sb_sp(); sb_long(s); sb_emit(); }
    lp_integer_destruct(&z);
  } else if (op < 82) {
    sb_begin("val", "ratinfo"); sb_sp(); sb_val(a); sb_arrow();
    int ir = lp_value_is_rational(a);
    sb_sp(); sb_long(ir);
    if (ir) {
      lp_rational_t q; lp_rational_construct(&q); lp_integer_t num, den; lp_integer_construct(&num); lp_integer_construct(&den);
      lp_value_get_rational(a, &q); lp_value_get_num(a, &num); lp_value_get_den(a, &den);
      sb_sp(); sb_mpq(&q); sb_sp(); sb_mpz(&num); sb_sp(); sb_mpz(&den);
      lp_rational_destruct(&q); lp_integer_destruct(&num); lp_integer_destruct(&den);
    }
    sb_emit();
  } else if (op < 86) {
    /* both bounds inside one unit interval, one of them a dyadic point that the bisection of (n, n+1) hits exactly */
    long n = rnd_in(-3, 3); unsigned j = 1 + rnd(4); long k = 1 + 2 * (long)rnd(1u << (j - 1));       /* k odd, k/2^j in (0,1) */
    lp_value_t lo, hi; lp_rational_t ql, qh;
    lp_rational_construct_from_int(&qh, n * (1L << j) + k, 1ul << j);
    lp_rational_construct_from_int(&ql, 3 * (n * (1L << j) + k) - 1, 3ul << j);               /* hi - 1/(3*2^j) */
    if (chance(50)) { lp_value_construct(&hi, LP_VALUE_RATIONAL, &qh); }
    else { lp_dyadic_rational_t d; lp_dyadic_rational_construct_from_int(&d, n * (1L << j) + k, j); lp_value_construct(&hi, LP_VALUE_DYADIC_RATIONAL, &d); lp_dyadic_rational_destruct(&d); }
    lp_value_construct(&lo, LP_VALUE_RATIONAL, &ql);
    int swap = chance(30), sl = chance(50), sh = chance(60);
    const lp_value_t* A = swap ? &hi : &lo; const lp_value_t* B = swap ? &lo : &hi;
    int sA = swap ? sh : sl, sB = swap ? sl : sh;
    if (chance(30)) { /* mirror: the dyadic point is the lower bound */
      lp_rational_t t; lp_rational_construct_from_int(&t, 3 * (n * (1L << j) + k) + 1, 3ul << j);
      lp_value_destruct(&lo); lp_value_construct(&lo, LP_VALUE_RATIONAL, &t); lp_rational_destruct(&t);
      A = &hi; B = &lo; sA = sh; sB = sl;
    }
    sb_begin("val", "between"); sb_sp(); sb_val(A); sb_sp(); sb_long(sA); sb_sp(); sb_val(B); sb_sp(); sb_long(sB); sb_arrow();
    lp_value_get_value_between(A, sA, B, sB, &r);
    sb_sp(); sb_val(&r); sb_emit();
    lp_value_destruct(&lo); lp_value_destruct(&hi); lp_rational_destruct(&ql); lp_rational_destruct(&qh);
  } else if (op < 94) {
    int sa = chance(50), sbb = chance(50);
    int c = lp_value_cmp(a, b);
    if (c == 0) { if (is_inf(a)) goto done; sa = 0; sbb = 0; }
    sb_begin("val", "between"); sb_sp(); sb_val(a); sb_sp(); sb_long(sa); sb_sp(); sb_val(b); sb_sp(); sb_long(sbb); sb_arrow();
    lp_value_get_value_between(a, sa, b, sbb, &r);
    sb_sp(); sb_val(&r); sb_emit();
  } else {
    unsigned prec = rnd(12);
    if (is_inf(a)) goto done;
    if (chance(75)) { /* another representation of the same number, if the pool has one */
      int start = rnd(npool);
      for (int t = 0; t < npool; ++t) { const lp_value_t* c = &pool[(start + t) % npool]; if (c != a && !is_inf(c) && lp_value_cmp(a, c) == 0) { b = c; break; } }
    }
    sb_begin("val", "hash"); sb_sp(); sb_val(a); sb_sp(); sb_val(b); sb_sp(); sb_ulong(prec); sb_arrow();
    size_t h1 = lp_value_hash_approx(a, prec), h2 = lp_value_hash_approx(b, prec);
    sb_sp(); sb_ulong(h1); sb_sp(); sb_ulong(h2); sb_emit();
  }
done:
  lp_value_destruct(&r);
}

int main(int argc, char** argv) {
  uint64_t seed = argc > 1 ? strtoull(argv[1], 0, 10) : 1;
  long n = argc > 2 ? atol(argv[2]) : 1000;
  long only = argc > 3 ? atol(argv[3]) : -1;
  long start = argc > 4 ? atol(argv[4]) : 0;
  lpv_init(); hp_init();
  for (long i = 0; i < n; ++i) {
    if ((only >= 0 && i != only) || i < start) continue;
    lpv_begin_case(seed, i);
    build_pool();
    int nops = 6 + rnd(10);
    for (int k = 0; k < nops; ++k) one_op();
    for (int k = 0; k < npool; ++k) lp_value_destruct(&pool[k]);
    npool = 0;
  }
  hp_done();
  free(sb_buf);
  return 0;
}
