import LP.Model.Scalar
namespace LP.Driver
open LP

def pRing? (s : String) : Option (Ring × Bool) :=
  if s = "Z" then some (none, false)
  else if s.startsWith "Zp" then (pNat? (s.drop 2).toString).map (fun m => (some m, true))
  else if s.startsWith "Zc" then (pNat? (s.drop 2).toString).map (fun m => (some m, false))
  else none

def pDy? (s : String) : Option Dy :=
  match s.splitOn "@" with
  | [a, n] => do
      let a ← pInt? a
      let n ← pNat? n
      some ⟨a, n⟩
  | _ => none

def showDy (d : Dy) : String := s!"{d.a}@{d.n}"

private def eqI (branch cls : String) (got : String) (want : Int) : Verdict :=
  expectEq branch cls got (toString want)

private def sgnNorm (s : String) : String :=
  match pInt? s with
  | some v => toString (sgnI v)
  | none => s

def checkInt (op : String) (args res : List String) : Verdict :=
  match args with
  | [] => .skip "no ring"
  | rs :: rest =>
    match pRing? rs with
    | none => .skip "bad ring"
    | some (K, isPrime) =>
      let ints := rest.mapM pInt?
      match ints, res with
      | some xs, [r] =>
        let tag := op ++ (match K with | none => "/Z" | some _ => if isPrime then "/Zp" else "/Zc")
        match op, xs with
        | "construct", [c] =>
            eqI (tag ++ (if inRing K c then "/in" else "/out")) "int-normalize" r (norm K c)
        | "add", [a, b] => eqI tag "int-add" r (iAdd K a b)
        | "sub", [a, b] => eqI tag "int-sub" r (iSub K a b)
        | "neg", [a] => eqI tag "int-neg" r (iNeg K a)
        | "abs", [a] => eqI tag "int-abs" r (iAbs K a)
        | "mul", [a, b] => eqI tag "int-mul" r (iMul K a b)
        | "mulint", [a, b] => eqI tag "int-mulint" r (iMul K a b)
        | "mulpow2", [a, n] => eqI tag "int-mulpow2" r (iMulPow2 K a n.toNat)
        | "pow", [a, n] => eqI tag "int-pow" r (iPow K a n.toNat)
        | "inc", [a] => eqI tag "int-inc" r (iInc K a)
        | "dec", [a] => eqI tag "int-dec" r (iDec K a)
        | "addmul", [s, a, b] => eqI tag "int-addmul" r (iAddMul K s a b)
        | "submul", [s, a, b] => eqI tag "int-submul" r (iSubMul K s a b)
        | "addmulint", [s, a, b] => eqI tag "int-addmulint" r (iAddMul K s a b)
        | "inv", [a] =>
            (match K with
             | some M =>
               (match iInv M a with
                | some w => eqI tag "int-inv" r w
                | none => .skip "not invertible")
             | none => .skip "inv in Z")
        | "divexact", [a, b] =>
            (match K, pInt? r with
             | none, some _ => eqI tag "int-divexact" r (iDivExact K a b)
             | some M, some d =>
               -- property-level oracle: b*d ≡ a (mod M), d in range
               if (b * d - a) % (M : Int) = 0 ∧ inRingM M d then
                 (if d = iDivExact K a b then .ok tag else .ok (tag ++ "/other-cofactor"))
               else .viol "int-divexact" s!"got={d} model={iDivExact K a b}"
             | _, none => .skip "bad result")
        | "divides", [a, b] =>
            (match pInt? r with
             | some t =>
               let want := iDivides K isPrime a b
               if (decide (t ≠ 0)) = want then .ok (tag ++ (if want then "/t" else "/f"))
               else .viol "int-divides" s!"got={t} want={want}"
             | none => .skip "bad result")
        | "sgn", [a] => eqI tag "int-sgn" (sgnNorm r) (iSgn K a)
        | "cmp", [a, b] => eqI tag "int-cmp" (sgnNorm r) (iCmp K a b)
        | "iszero", [a] => expectEq tag "int-iszero" r (if iIsZero K a then "1" else "0")
        | _, _ => .skip s!"unknown int op {op}"
      | _, _ => .skip "bad int args"

def checkDy (op : String) (args res : List String) : Verdict :=
  -- first arg is the destination kind (information only)
  match args with
  | [] => .skip "no dest"
  | dest :: rest =>
    let tag := s!"{op}/{dest}"
    let eqD (cls : String) (r : String) (w : Dy) : Verdict := expectEq tag cls r (showDy w)
    match op, rest, res with
    | "ofint", [a, n], [r] =>
        (match pInt? a, pNat? n with
         | some a, some n => eqD "dy-ofint" r (Dy.ofInt a n)
         | _, _ => .skip "bad")
    | "ofdouble", [bits], [r] =>
        (match pNat? bits with
         | some b => if doubleIsFinite b then eqD "dy-ofdouble" r (doubleToDy b) else .skip "nonfinite"
         | none => .skip "bad")
    | "add", [x, y], [r] =>
        (match pDy? x, pDy? y with
         | some x, some y => eqD "dy-add" r (Dy.add x y) | _, _ => .skip "bad")
    | "sub", [x, y], [r] =>
        (match pDy? x, pDy? y with
         | some x, some y => eqD "dy-sub" r (Dy.sub x y) | _, _ => .skip "bad")
    | "mul", [x, y], [r] =>
        (match pDy? x, pDy? y with
         | some x, some y => eqD "dy-mul" r (Dy.mul x y) | _, _ => .skip "bad")
    | "addint", [x, b], [r] =>
        (match pDy? x, pInt? b with
         | some x, some b => eqD "dy-addint" r (Dy.addInteger x b) | _, _ => .skip "bad")
    | "neg", [x], [r] =>
        (match pDy? x with | some x => eqD "dy-neg" r (Dy.neg x) | _ => .skip "bad")
    | "mul2exp", [x, k], [r] =>
        (match pDy? x, pNat? k with
         | some x, some k => eqD "dy-mul2exp" r (Dy.mul2exp x k) | _, _ => .skip "bad")
    | "div2exp", [x, k], [r] =>
        (match pDy? x, pNat? k with
         | some x, some k => eqD "dy-div2exp" r (Dy.div2exp x k) | _, _ => .skip "bad")
    | "pow", [x, k], [r] =>
        (match pDy? x, pNat? k with
         | some x, some k => eqD "dy-pow" r (Dy.pow x k) | _, _ => .skip "bad")
    | "cmp", [x, y], [r] =>
        (match pDy? x, pDy? y with
         | some x, some y => expectEq tag "dy-cmp" (sgnNorm r) (toString (sgnI (Dy.cmp x y)))
         | _, _ => .skip "bad")
    | "cmpq", [x, q], [r] =>
        (match pDy? x, pRat? q with
         | some x, some q => expectEq tag "dy-cmpq" (sgnNorm r) (toString (cmpQ x.toRat q))
         | _, _ => .skip "bad")
    | "cmpint", [x, z], [r] =>
        (match pDy? x, pInt? z with
         | some x, some z => expectEq tag "dy-cmpint" (sgnNorm r) (toString (sgnI (Dy.cmp x (Dy.ofInt z 0))))
         | _, _ => .skip "bad")
    | "sgn", [x], [r] =>
        (match pDy? x with | some x => expectEq tag "dy-sgn" (sgnNorm r) (toString x.sgn) | _ => .skip "bad")
    | "floor", [x], [r] =>
        (match pDy? x with | some x => expectEq tag "dy-floor" r (toString x.floor) | _ => .skip "bad")
    | "ceil", [x], [r] =>
        (match pDy? x with | some x => expectEq tag "dy-ceil" r (toString x.ceil) | _ => .skip "bad")
    | "num", [x], [r] =>
        (match pDy? x with | some x => expectEq tag "dy-num" r (toString x.getNum) | _ => .skip "bad")
    | "den", [x], [r] =>
        (match pDy? x with | some x => expectEq tag "dy-den" r (toString x.getDen) | _ => .skip "bad")
    | "isint", [x], [r] =>
        (match pDy? x with
         | some x => expectEq tag "dy-isint" r (if x.isInteger then "1" else "0") | _ => .skip "bad")
    | "torat", [x], [r] =>
        (match pDy? x with | some x => expectEq tag "dy-torat" r (showRat x.toRat) | _ => .skip "bad")
    | "between", [a, b], [r] =>
        (match pRat? a, pRat? b, pDy? r with
         | some a, some b, some got =>
           -- property-level oracle: a < got < b and normalised
           if a < got.toRat ∧ got.toRat < b ∧ got.isNormalized then
             (match Dy.valueBetween a b 4096 with
              | some w => if w = got then .ok tag else .disagree s!"between model={showDy w} got={showDy got}"
              | none => .skip "fuel")
           else .viol "dy-between" s!"got={showDy got} not strictly inside ({showRat a},{showRat b})"
         | _, _, _ => .skip "bad")
    | "root", [x, n, prec, c], [r, ex] =>
        (match pDy? x, pNat? n, pNat? prec, pNat? c with
         | some x, some n, some prec, some c =>
           let w := Dy.rootApprox x n prec (c = 1)
           expectEq tag "dy-root" s!"{r} {ex}" s!"{showDy w.1} {if w.2 then 1 else 0}"
         | _, _, _, _ => .skip "bad")
    | _, _, _ => .skip s!"unknown dy op {op}"

def checkRat (op : String) (args res : List String) : Verdict :=
  match args with
  | [] => .skip "no dest"
  | dest :: rest =>
    let tag := s!"{op}/{dest}"
    let eqQ (cls : String) (r : String) (w : Rat) : Verdict := expectEq tag cls r (showRat w)
    let q1 (f : Rat → Verdict) : Verdict :=
      match rest with
      | [x] => (match pRat? x with | some x => f x | none => .skip "bad")
      | _ => .skip "arity"
    let q2 (f : Rat → Rat → Verdict) : Verdict :=
      match rest with
      | [x, y] => (match pRat? x, pRat? y with | some x, some y => f x y | _, _ => .skip "bad")
      | _ => .skip "arity"
    let qn (f : Rat → Nat → Verdict) : Verdict :=
      match rest with
      | [x, y] => (match pRat? x, pNat? y with | some x, some y => f x y | _, _ => .skip "bad")
      | _ => .skip "arity"
    match op, res with
    | "ofdiv", [r] =>
        (match rest with
         | [n, d] => (match pInt? n, pInt? d with
            | some n, some d => if d = 0 then .skip "den0" else eqQ "rat-ofdiv" r (qOfDiv n d)
            | _, _ => .skip "bad")
         | _ => .skip "arity")
    | "ofint", [r] =>
        (match rest with
         | [n, d] => (match pInt? n, pNat? d with
            | some n, some d => if d = 0 then .skip "den0" else eqQ "rat-ofint" r (mkRat n d)
            | _, _ => .skip "bad")
         | _ => .skip "arity")
    | "ofdouble", [r] =>
        (match rest with
         | [b] => (match pNat? b with
            | some b => if doubleIsFinite b then eqQ "rat-ofdouble" r (doubleToRat b) else .skip "nonfinite"
            | none => .skip "bad")
         | _ => .skip "arity")
    | "ofdy", [r] =>
        (match rest with
         | [d] => (match pDy? d with | some d => eqQ "rat-ofdy" r (qOfDy d) | none => .skip "bad")
         | _ => .skip "arity")
    | "add", [r] => q2 fun x y => eqQ "rat-add" r (x + y)
    | "sub", [r] => q2 fun x y => eqQ "rat-sub" r (x - y)
    | "mul", [r] => q2 fun x y => eqQ "rat-mul" r (x * y)
    | "div", [r] => q2 fun x y => if y = 0 then .skip "div0" else eqQ "rat-div" r (x / y)
    | "neg", [r] => q1 fun x => eqQ "rat-neg" r (-x)
    | "inv", [r] => q1 fun x => if x = 0 then .skip "inv0" else eqQ "rat-inv" r x⁻¹
    | "pow", [r] => qn fun x n => eqQ "rat-pow" r (qPow x n)
    | "mul2exp", [r] => qn fun x n => eqQ "rat-mul2exp" r (qMul2exp x n)
    | "div2exp", [r] => qn fun x n => eqQ "rat-div2exp" r (qDiv2exp x n)
    | "addint", [r] =>
        (match rest with
         | [x, z] => (match pRat? x, pInt? z with
            | some x, some z => eqQ "rat-addint" r (x + (z : Rat)) | _, _ => .skip "bad")
         | _ => .skip "arity")
    | "cmp", [r] => q2 fun x y => expectEq tag "rat-cmp" (sgnNorm r) (toString (cmpQ x y))
    | "sgn", [r] => q1 fun x => expectEq tag "rat-sgn" (sgnNorm r) (toString (sgnQ x))
    | "floor", [r] => q1 fun x => expectEq tag "rat-floor" r (toString (qFloor x))
    | "ceil", [r] => q1 fun x => expectEq tag "rat-ceil" r (toString (qCeil x))
    | "num", [r] => q1 fun x => expectEq tag "rat-num" r (toString x.num)
    | "den", [r] => q1 fun x => expectEq tag "rat-den" r (toString x.den)
    | "isint", [r] => q1 fun x => expectEq tag "rat-isint" r (if qIsInteger x then "1" else "0")
    | _, _ => .skip s!"unknown rat op {op}"

end LP.Driver
