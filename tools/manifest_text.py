HOOK_COMMITS = ["bc7826eeb31079b932557c6566a10da9b9acc9ce", "657055896c7fdd0911821ba159a78378f19a9d6a"]
_PENDING = "check not built yet in this round (planned, see DESIGN.md section 9); not a statement that the technique cannot apply"
NOT_APPLICABLE = {}
TEXT = {
 "C17": {
  "text": "Lean mirror of integer.h / dyadic_rational.h / rational.h; theorems for every modulus m>=2 and every operand state that each "
          "operation returns the symmetric-range representative of the exact result, dyadic/rational results are exact and canonical; "
          "tied to the C code by replaying ~1.5e5 real calls (incl. pre-used and aliased outputs) through the model on every run.",
  "design_ref": "5.17",
  "note": "GMP semantics modelled on Int/Rat; hand mirror tied by correspondence only; theorem list and axioms in evidence/C17.json",
  "technique": "Lean 4 proof over mirror model + differential correspondence harness",
 },
 "C15": {
  "text": "Lean mirror of rational/dyadic interval add, sub, neg, mul, pow, sgn; theorems over every ordered field (instantiated at R): "
          "for all well-formed intervals with any open/closed pattern and all members x, y the result contains x+y, x-y, x*y, -x, x^n "
          "(tie cases, zero edges and symmetric even powers are the proof's case split), point operands give the exact point. Tied to "
          "the C code by an exhaustive sweep over all interval pairs with end points in {-2..2} plus random intervals on every run. "
          "General value intervals (lp_interval_add/mul/pow/sgn) with integer/dyadic/rational/infinite end points are mirrored too; their general product is proved to coincide with the rational model on finite end points (so the enclosure theorem transfers), infinite end points are covered by correspondence and a lost-point search only. Polynomial evaluation over a box "
          "(lp_polynomial_interval_value): Lean mirror of coefficient_interval_value (powers of the top variable, zero coefficients skipped, "
          "accumulation from the point 0) with polyValue_encloses - for every finite box of well-formed intervals, every variable order and "
          "every point of the box the value of the polynomial lies in the computed interval - tied by exact equality of the returned interval "
          "(h_pival, both variable orders, pre-used outputs). Interval form of the sign-condition test "
          "(lp_sign_condition_consistent_interval): mirror + consistentInterval_sound - an answer true implies that every member of the "
          "interval (finite or infinite ends, any strictness) satisfies the condition - tied by equality of the answers for all six conditions. Value intervals with irrational algebraic end points (h_vialg: "
          "+-sqrt2..+-sqrt7 against rationals of every exact kind): end points are then approximations, so the oracle is property-level - "
          "rational sample points of both operands (closed ends, points just inside, the middle), located by the proved exact "
          "comparison, and every x+y, x*y, x^n must lie in the returned interval.",
  "design_ref": "5.15",
  "note": "hand mirror of arithmetic.c tied by correspondence; algebraic end points not replayed; exact scalar arithmetic trusted from C17",
  "technique": "Lean 4 proof over mirror model + exhaustive/differential correspondence harness",
 },
 "C14": {
  "text": "Lean mirror of feasibility_set_int.c (sorted-list sweeps union/intersect/minus, complement materialisation, the four "
          "representation combinations, status bits, contains/isEmpty/isFull, constructor). Theorems for all M and all sets satisfying "
          "the representation invariant: results keep the invariant, denote exactly the union/intersection, status S1/S2/EMPTY is "
          "correct, emptiness/fullness/membership agree with the denoted subset. Tied to the C code exhaustively for p<=5 (p<=7 "
          "thorough) over all subset pairs x 4 representations and by random sets for larger/multi-limb primes. Root finding and "
          "constraints (h_zp): every result of lp_upolynomial_roots_find_Zp (brute force, randomised finder above the threshold incl. "
          "multi-limb primes, and the randomised finder forced below it by the LIBPOLY_VERIF hook) must consist of distinct field "
          "elements in the symmetric range that are roots - judged by the model's Horner evaluation mod p, which is proved to be the "
          "evaluation in (Z/p)[X] (C14_eval_spec, C14_eval_zero_iff) - as many as the field has (exhaustive evaluation for p <= 20000, "
          "deg gcd(f, x^p - x) by the model's modular powering otherwise - the powering is proved to be exponentiation modulo f, "
          "fpPowMod_spec, on top of the proved division divMod_spec, and the number of distinct roots is the degree of gcd(f, X^p - X), "
          "roots_count_gcd, and the model's extended Euclid returns that gcd, xgcd_gcd - altogether rootCountFp_spec: the model's count is "
          "the number of distinct roots for every prime below 2^4096); constraint feasible sets over Z_p must satisfy the set "
          "representation invariant and be exactly the solution set (all residues for small p; probes + root count for large p), "
          "lp_feasibility_set_int_contains must agree on every probe; constraint_evaluate_Zp and reduce_degree_Zp (same function on "
          "Z_p^2, degrees < p) are compared exactly.",
  "design_ref": "5.14",
  "note": "size/isPoint/eq and the in-range claim of value picking are tied by (exhaustive) correspondence only, not yet proved; qsort modelled as sorted insertion; the root-finding part is validator style (no theorem about gcd(f, x^p - x)); found and fixed: unsorted roots in constraint sets for large primes, a leak",
  "technique": "Lean 4 proof over mirror model + exhaustive/differential correspondence harness",
 },
 "C13": {
  "text": "Lean mirror of interval comparison-with-intersection, feasibility-set intersection with status, union by sort-and-merge, "
          "binary-search membership, integer containment/counting. Proved for every ordered field (incl. R), all intervals: the 9-way "
          "comparison returns exactly the intersection (none iff disjoint) and names the true relation of the upper bounds; the "
          "intersection sweep denotes exactly the intersection of the operands for all lists of non-empty, increasing, disjoint "
          "intervals; the interval membership test agrees with the denoted set. The union (concatenate, insertion sort by the 9-way "
          "comparison, fuse pass) contains exactly the numbers of either operand for all lists of well-formed intervals (C13_union: the "
          "sort key is a total preorder on lower bounds, the fuse decision is right in each of the nine classes) and is returned in normal "
          "form - well-formed intervals, consecutive ones separated by a gap that cannot be closed (C13_union_nf; gap_sep: such a gap "
          "separates the sets); membership by binary search agrees with the denoted set for every list in normal form and every finite "
          "value (C13_contains, loop invariant over the array bounds); lp_interval_contains_int / lp_feasibility_set_contains_int answer "
          "true exactly when an integer lies in the set (C13_containsInt, C13_set_containsInt, via floor / ceiling); a list in that "
          "normal form is non-empty, increasing and pairwise separated (nfs_nfw, so the theorems about normal forms apply to every "
          "union), and emptiness, the single-point test and fullness agree with the denoted set (C13_isEmpty, C13_isPoint, "
          "C13_isFull: a normal form containing every real is the single interval (-inf,+inf)); a count reported by "
          "lp_interval_count_int is the number of integers in the interval (C13_countInt: closed integer ends plus the integers m..n "
          "strictly inside, disjoint), and so is a count reported for a whole set in normal form (C13_set_countInt: fold invariant, the "
          "integer sets of separated intervals are disjoint); the status of an intersection is right about what it reports - S1 only when "
          "the result is the first operand interval by interval, S2 only when it denotes the second, EMPTY only for the empty result, NEW "
          "only for a non-empty one (C13_intersect_status, through the flag lemmas intersectLoop_all1 / _all2) - and the result of the "
          "sweep is again a list of non-empty, increasing, pairwise disjoint intervals (C13_intersect_nf, sweep invariant), and for operands "
          "in normal form it is in the same normal form - well-formed intervals with gaps that cannot be closed (C13_intersect_nfs; "
          "cwi_bounds: the piece handed back starts at the later lower bound and ends at the earlier upper bound), so the theorems "
          "about normal forms apply to everything built by unions and intersections; a set in normal form that passes "
          "lp_feasibility_set_is_point_int contains exactly one integer, and conversely (C13_isPointInt_iff: the early-exit count agrees with the "
          "saturating count) and the interval of lp_feasibility_set_to_interval contains the whole set (C13_toInterval). The status is also "
          "complete: for non-empty operands in normal form it is S1 exactly when the first operand is contained in the second "
          "(C13_status_s1_iff), S2 exactly when the second is contained in the first and the first not in the second (C13_status_s2_iff), and "
          "NEW / EMPTY only when neither is contained in the other (C13_status_new_or_empty) - the witness that a cleared flag is "
          "justified is a number in a gap of the normal form (helly1d, witness_low, witness_high, intersectLoop_not_all1), and the second "
          "flag follows from the first by the symmetry of the classification (cwi_mirror, intersectLoop_flags_swap). A saturated count (LONG_MAX) is "
          "reported only when the interval / the set contains at least 2^63 - 1 integers (C13_countInt_saturated, "
          "C13_set_countInt_saturated). Picking is tied by correspondence only (exhaustive over all "
          "128x128 normal-form sets on the atoms of {0,1,2}, 512x512 in the thorough tier, plus random pools with algebraic end points, "
          "half of them handed over with the unrefined isolating interval of the root isolation; pick / contains_int / count_int also on "
          "every interval separately).",
  "design_ref": "5.13",
  "note": "value picking is correspondence only; algebraic end points enter the model as order-isomorphic dyadic surrogates chosen by the harness",
  "technique": "Lean 4 proof over mirror model + exhaustive/differential correspondence harness",
 },
 "C20": {
  "text": "Every answer of the C hash set, heap and vector on every generated history (return values of insert/move/remove/contains/"
          "intersect/insert_vector, sizes, pop/peek results, enumeration after close, final contents) is compared with an abstract "
          "reference (duplicate-free list as set, list as bag with max-extraction) that is PROVED in Lean to be the Finset/Multiset "
          "semantics for all states; the slot-exact mirror of the open-addressing table (probing, backward-shift deletion, growth) and "
          "of the binary heap is additionally compared slot by slot. Mirror-level theorems so far: probe postcondition, soundness of "
          "contains, enumeration length; for the heap mirror, heapify_up / heapify_down only permute the array (siftUp_perm, "
          "siftDown_perm), so push adds exactly its argument and pop removes exactly one occurrence of the element it returns "
          "(C20_heap_push_perm, C20_heap_pop_perm), and remove takes out copies of its argument only, as many as it reports, and all of them "
          "(C20_heap_remove_perm, C20_heap_remove_all): the array is always the multiset pushed minus popped or removed, for every history. The heap order "
          "is an invariant of every history: heapify_up restores it from 'broken between one position and its parent' (siftUp_ok), "
          "heapify_down from 'broken between one position and its children' (siftDown_ok), so push, pop and remove keep it "
          "(C20_heap_push_ok, C20_heap_pop_ok, C20_heap_remove_ok), every heap reachable from the empty one is in heap order "
          "(C20_heap_reachable_ok), and the element returned by peek / pop is at least every element of the array (C20_heap_peek_max); "
          "altogether the heap refines the reference bag for every history and every answer agrees - pop returns a maximum of the bag, "
          "remove reports the multiplicity (C20_heap_refines, C20_heap_answers). "
          "The table mirror refines the mathematical set for EVERY history of insertions and removals (C20_hset_refines): the probe-chain "
          "invariant (every stored element sits at an offset from its home slot with no empty slot on the way) is kept by insert, by "
          "the re-hash of the growth (insert_pc, extend_pc, insert_good) and by the backward shift of a removal (shiftBack_pc: loop "
          "invariant SInv kept when the next element moves into the hole and when it stays, and giving the invariant everywhere at the "
          "first empty slot; the C distance test is read as a comparison of offsets, dist_eq; remove_good); no element is lost or "
          "duplicated (shiftBack_perm, extend_perm). Hence, for all histories and colliding hashes: every answer of insert / remove is "
          "the answer of the set (C20_hset_answers), contains is membership (C20_hset_contains), the size field is the cardinality and "
          "the enumeration after close lists every key exactly once (C20_hset_enumeration). Hypothesis: equal keys (equal polynomials) "
          "have equal hashes. lp_polynomial_hash_set_intersect keeps the invariants and leaves exactly the elements to keep (intersect_ok: the "
          "backward shift only moves elements towards the original hole, shiftBack_src, so everything in front of the current slot was "
          "examined and kept), which extends the refinement to every history of insertions, removals and intersections "
          "(C20_hset_refines2, C20_hset_observers2). clear / insert_vector of the table and the vector are tied by correspondence only.",
  "design_ref": "5.20",
  "note": "proved for every history: the heap mirror (multiset and heap order) and the table mirror under insert / remove / intersect (refinement to the mathematical set); the mirrors are tied to the C arrays slot by slot on 20k histories per quick run (forced collisions, wrap-around, growth); clear / insert_vector / vector: correspondence only; elements abstracted to (identity, reported hash)",
  "technique": "Lean 4 proved reference semantics + slot-exact mirror model + history-based differential correspondence",
 },
 "C01": {
  "text": "Reference model of Z[x1..xn] / Z_m[x1..xn] (term lists, normalise = sort + combine + drop zeros + symmetric residues) proved "
          "in Lean to be the ring MvPolynomial N R for R = Z and R = ZMod m, every m >= 2: add, sub, neg, mul, scalar product, power, "
          "fused multiply-add/sub, shift by x^n, constants and integer evaluation denote the ring operations and the partial derivative "
          "denotes MvPolynomial.pderiv (C01_derivative) for ALL term lists; canonical term lists are a normal form - two canonical "
          "lists denoting the same polynomial are equal, over Z and every Z_m (C01_canonical_unique: the monomial order is a strict total "
          "order, canonical monomials are determined by their exponent vectors, coefficients in the range have unique residues); evaluation at a rational point is the ring evaluation through Z -> Q "
          "(C01_evalRat). Every "
          "result of the C library (multivariate and univariate types, all rings incl. composite and multi-limb moduli, all destination/"
          "alias patterns, in-place growth after cancellation) is compared with this reference on every run, and the C output itself is "
          "checked to be canonical (no zero/duplicate terms, residues in range, non-zero leading coefficient).",
  "design_ref": "5.1",
  "note": "reference (not mirror) model: the recursive coefficient_t layout is not modelled, only its observable traversal",
  "technique": "Lean 4 proved reference model (MvPolynomial denotation) + differential correspondence harness",
 },
 "C02": {
  "text": "Verified validators: every (P, Q, R), exact quotient and divisibility answer returned by the C code is decided by executable "
          "checkers over the C01 reference model, proved sound in Lean for Z and every Z_m: accepted identity => P*A = Q*B + R in "
          "MvPolynomial, accepted quotient => Q*B = A, accepted multiplier => P = lc(B)^k, degree read from the term list bounds the "
          "true degree. Dense reduction must hit k = deg A - deg B + 1 exactly, P must be free of the main variable, R must have "
          "smaller degree; pseudo-remainders are accepted for some k up to that bound. Divisibility is compared with a division "
          "algorithm whose positive answers carry a multiply-back certificate.",
  "design_ref": "5.2",
  "note": "validator style (the reduce loop is not mirrored); completeness of the divisibility oracle (answer 'no quotient') rests on the unproved termination/completeness of single-divisor division; composite moduli are excluded from divisibility (no cancellation law)",
  "technique": "Lean 4 proved checker soundness (MvPolynomial) + per-output validation of the C results",
 },
 "C18": {
  "text": "Proved in Lean for all polynomials: the denotation in MvPolynomial and the bit-exact mirror of the library's hash are "
          "invariant under re-listing the monomials and re-ordering the powers inside monomials (the only things an order change does "
          "to a traversal); the variable comparison derived from any order list is an antisymmetric total comparison. The run then "
          "checks on histories of push/pop/reverse/clear interleaved with operations on external and non-external polynomials that "
          "traversals keep the same canonical form, check_order equals the recursive-layout model, eq/cmp agree with equality of "
          "canonical forms (also after in-place modification following a hash query), and the C hash equals the mirrored hash.",
  "design_ref": "5.18",
  "note": "the recursive layout (coefficient_order) is modelled only through its traversal and a layout-in-order predicate; uniqueness of the canonical form is not yet proved, so 'eq iff same denotation' rests on canonical-form comparison",
  "technique": "Lean 4 invariance theorems + hash mirror + history-based correspondence",
 },
 "C19": {
  "text": "Three clauses. (a) Reference counting: protocol model of rings/contexts and their holders with the invariant 'counter = number "
          "of live holders (directly or through a context)' PROVED in Lean for every history, hence an object is freed exactly when its "
          "last holder goes; the C ref_count fields are compared with the model after every step of generated histories. The histories "
          "include holders that MOVE their reference (RefOp.retarget): an external polynomial that holds context c written by one of 21 "
          "output operations whose inputs live in context c2 (result compared with a fresh output, context of the result checked), and "
          "lp_upolynomial_set_ring; a variable-database family checks that ids stay distinct and names retrievable. (b) Output/"
          "alias independence: the models of C17/C15/C01 are functions of the inputs only, and every scalar, interval and polynomial "
          "operation is replayed with pre-used destinations of other shapes and with destinations aliasing an input; a violation class "
          "is attributed to C19 only if it does not also occur with fresh outputs. (c) Memory safety: all these runs and the set/container "
          "histories execute under ASan+UBSan+LSan with a per-case watchdog; any report, crash, hang or leak is a violation.",
  "design_ref": "5.19",
  "note": "clause (c) is runtime monitoring on generated inputs, not proof (no executable Lean model can exhibit out-of-bounds access); variable_db/variable_order counters are opaque and observed only via sanitizers; found and fixed through the moving-holder histories: lp_polynomial_swap reference accounting, lp_polynomial_neg / lp_polynomial_resultant output context, lp_upolynomial_set_ring use-after-free, lp_variable_db_add_variable size, external mark lost by lp_polynomial_constraint_resolve_fm",
  "technique": "Lean 4 invariant proof (refcount protocol) + correspondence with aliased/pre-used outputs + sanitizer monitoring",
 },
 "C05": {
  "text": "Every factorization returned by lp_upolynomial_factor_square_free, lp_upolynomial_factor (Z and Z_p), "
          "lp_polynomial_factor_square_free and lp_polynomial_factor_content_free is judged per output: exact product of constant and "
          "factors with multiplicities (proved: the list arithmetic is a ring homomorphism into Z[X], so an accepted product check is "
          "an identity there: C05_product_sound); every factor square-free and distinct factors coprime by verified Bezout "
          "certificates over Q / F_p (proved: an accepted certificate implies Squarefree / IsCoprime - over Q C05_sqfree_cert_sound, "
          "C03_coprimeCert_sound, over F_p FPoly.coprimeCert_sound; the division with remainder over F_p used for the divisibility tests is "
          "the division of (Z/p)[X], divMod_spec / divMod_zero_iff) or, multivariate, by non-vanishing discriminants / resultants in every variable (reference of C04); "
          "full factorization over F_p compared with the model's complete trial-division factorization (monic factors, "
          "multiplicities); full factorization over Z compared with the irreducible blocks the input was built from, each block "
          "re-certified irreducible on every line (irreducible modulo a prime not dividing the leading coefficient, or Kronecker), a "
          "reducible returned factor is reported with the block that divides it. The verdict 'irreducible modulo a prime' is proved end to end (C05_certModP_sound): "
          "the enumeration of monic polynomials over F_p is complete (monics_complete), the division test is the divisibility of "
          "(Z/p)[X] (divMod_zero_iff), no monic divisor of degree <= deg/2 means irreducible (irreducibleFp_sound), and a primitive "
          "integer polynomial whose leading coefficient survives and whose reduction is irreducible is irreducible "
          "(C05_irreducible_of_mod_p; also degree one: C05_irreducible_of_degree_one). Unique factorization in Z[X] as used for the comparison with the blocks is "
          "C05_factorization_unique. Not formalised: Kronecker's search (the fallback verdict).",
  "design_ref": "5.5",
  "note": "found and fixed: lp_upolynomial_factor over Z with a non-monic primitive part returned reducible factors (former known finding D28, repaired by the monic transformation); two memory leaks in the Z factorization",
  "technique": "Lean 4 proved certificate soundness (product homomorphism, Bezout => squarefree / coprime) + per-output validation of the C results",
 },
 "C16": {
  "text": "Bound inference: for A = sum_k (a_k x_k^2 + b_k x_k) + c with all a_k of one sign the validator decides every claim exactly: "
          "D = sum b_k^2/(4a_k) - c, projection of the solution set on x_k = segment between the real roots of "
          "a_k x^2 + b_k x + b_k^2/(4a_k) - D (compared with the inferred end points by the proved algebraic comparison, strictness "
          "included), conflict accepted only for an empty solution set, no bounded interval accepted for >, >=, != shapes, explanation "
          "polynomial univariate with exactly the inferred end points as real roots (proved root counter). Proved over the reals for "
          "all inputs: completing the square, a summand of a sum of non-negative terms is bounded by the sum, a point with "
          "a(x-r1)(x-r2) <= 0 (< 0) lies (strictly) between the roots, emptiness for D < 0 / D = 0 strict (C16_complete_square, "
          "C16_projection, C16_between_roots(_strict), C16_no_solution). Fourier-Motzkin: the driver requires the resolvent to be free "
          "of the main variable, recomputes the positive combination with the model (model-based reductum, normalisation to <, <=, =, "
          "exact signs of the leading coefficients under the model, condition table, recorded assumptions) and compares; proved: the "
          "combination cancels the main variable and is < 0 / <= 0 wherever both premises hold and the leading coefficients have the "
          "recorded signs, an equation premise may take any multiplier (C16_fm_elim, C16_fm_lt, C16_fm_le, C16_fm_eq, C16_fmCond_table; combined: every condition the table permits holds for the "
          "positive combination, C16_fm_sound, and the normalisation of > / >= by negation keeps the meaning, C16_normCons_sound).",
  "design_ref": "5.16",
  "note": "found and fixed: resolve_fm accepted equal leading-coefficient signs (resolvent still contained the variable) and refused opposite signs",
  "technique": "Lean 4 proved real-arithmetic soundness lemmas + exact per-output validation of the C results",
 },
 "C11": {
  "text": "lp_polynomial_roots_isolate under a partial assignment is compared root by root (proved exact comparison) with the model: "
          "candidates = real roots of the eliminant G(y) obtained by eliminating the assigned variables with Sylvester determinants "
          "(isolated by the proved root counter), each candidate accepted by a sign change of the specialised polynomial across its "
          "isolating interval (C11_sign_change_root, intermediate value theorem), rejected by interval evaluation "
          "(C10_sign_interval_only, unconditional), or decided by the algebraic zero test (C10_sign_sound) for roots of even "
          "multiplicity; identically vanishing specialisations give no roots (C11_identically_zero). The whole reference is proved: "
          "C11_rootsUnder_exact - whenever rootsUnder answers, its list denotes exactly the distinct real roots of the specialised "
          "polynomial, strictly increasing, each a valid algebraic number (uses elimY_root: every root of the specialisation is a root "
          "of the eliminant, from resultant_vanishes; realRoots_isolates; isRootAt_sound; continuity of the specialisation). The "
          "eliminant-free fallback used when the eliminant degenerates to 0 is proved as well: rootsByIntervals_sound (reduceLeading_spec: "
          "leading coefficients that vanish exactly are dropped without changing the function; rootBoundM_spec: Cauchy bound from interval "
          "enclosures of the coefficients via Mathlib's cauchyBound; isoLoopM_sound: exclusion / strict monotonicity from the sign of the "
          "derivative, hasDerivAt_specR, mean value theorem / bisection). Generator: rational specialisations, algebraic "
          "coefficients with spurious conjugate candidates, vanishing leading coefficients and contents, double and rational roots.",
  "design_ref": "5.11",
  "note": "cases whose algebraic zero test exceeds Sylvester order 8, or whose eliminant degenerates to 0 while the specialisation does not, are skipped and counted",
  "technique": "Lean 4 proved certificates (validator) + per-output validation of the C results",
 },
 "C12": {
  "text": "lp_polynomial_constraint_get_feasible_set and lp_polynomial_root_constraint_get_feasible_set are compared interval by interval "
          "(end points by the proved exact comparison, strictness flags literally, number of intervals = normal form) with the model: "
          "exact roots (C11), exact signs of the specialised polynomial at rational sample points of the 2n+1 cells (C10), sweep of the "
          "maximal runs of satisfied cells; all six sign conditions, both polarities, root indices 0..deg+1; the truth-value evaluator "
          "lp_polynomial_root_constraint_evaluate is called with the main variable assigned to the roots, points between them, outer "
          "points and random values and compared with consistent(cond, cmp(value, root_k)) (false with fewer roots). Proved: the negation table "
          "(C12_negate) and, for every root value, index, condition, polarity and real v, membership in the model's root-constraint set "
          "iff the (possibly negated) condition holds for sign(v - root_k), false / true everywhere with fewer roots "
          "(C12_root_constraint); and the sweep is exact: for strictly increasing roots and any satisfaction vector of the 2n+1 cells, a "
          "real v lies in one of the returned intervals iff the cell containing v is satisfied (C12_sweep, via run_is_union: the interval "
          "from the lower boundary of cell s to the upper boundary of cell e is the union of the cells s..e; cell_exists: the cells "
          "cover the line). The links are composed in one theorem: C12_feasible_exact - whenever the reference `feasible` answers, "
          "its root list denotes exactly the real roots of the specialised polynomial and a real v lies in the returned set iff the "
          "(possibly negated) condition holds for the specialised polynomial at v (uses C11_rootsUnder_exact, separate_spec, "
          "samples_spec, sign_at_rat = C10_sign_exact at rational points, sign_const = intermediate value theorem, C12_sweep); "
          "C12_feasible_exact_zero covers specialisations that vanish identically (identicallyZero_sound). The comparison itself is "
          "proved sound: if setMatches accepts, the intervals returned by the library (end points of any value kind, each denoting an "
          "extended real) contain exactly the reals of the reference set (setMatches_sound, from epMatches_sound = Alg.cmp_sound per end "
          "point), hence C12_accepted_set_exact: an accepted library set IS the solution set of the constraint. Second tie: the negation and "
          "consistency tables of the model are proved equal to definitions regenerated from src/utils/sign_condition.c by a clang-AST "
          "translator on every run (Props/GenTables: negate_eq, consistent_eq, consistentInterval_eq).",
  "design_ref": "5.12",
  "note": "the C++ helpers are reached through a C++ companion of the harness (h_eval_shim.cpp): poly::infeasible_regions must equal the one-pass complement of the feasible set returned for the same constraint (C12_complement_exact: that complement is exact for every sorted list of disjoint non-empty intervals), poly::isolate_real_roots goes through the same root validation as the C entry point",
  "technique": "Lean 4 proved root-constraint table and sign procedure (validator) + per-output validation of the C results",
 },
 "C10": {
  "text": "lp_polynomial_sgn / _evaluate / _constraint_evaluate are judged on every run by the exact-sign procedure of the Lean model: "
          "closed interval evaluation of the polynomial over the isolating intervals of the assigned algebraic numbers, refined until 0 is "
          "excluded; when it cannot be excluded the variables are eliminated from z - p(x) by Sylvester determinants and the answer 0 is "
          "given only when 0 is the unique root of the square-free eliminant inside the enclosure. Proved for every integer polynomial, "
          "every assignment of valid algebraic numbers and every number of refinement rounds: the interval evaluation encloses the real "
          "value (ievalM_encloses), refinement keeps the point (refineAll_sound), and the sign answered is the sign of the real value "
          "(C10_sign_exact, unconditional: the resultant property is proved for the model's Sylvester determinant - if both polynomials "
          "vanish at a point, the determinant does, because the matrix kills the vector of powers (resultant_vanishes) - and lifted "
          "through the iterated elimination (eliminant_root)); the six sign conditions (C10_consistent). Values are accepted only through the "
          "proved root selection (C07_select_sound). Generator: algebraically dependent tuples (sqrt2, sqrt3, sqrt6; conjugates; cubic "
          "roots), exact zeros, near zeros (zero + 1 scaled by up to 2^40), vanishing leading coefficients, a family stressing the "
          "root-separation bound of the C zero test, 20% under the reversed variable order. After every query the assignment is read "
          "again (ev keep): every value must be well-formed and compare equal (exact comparison) to what it was before.",
  "design_ref": "5.10",
  "note": "elimination steps of Sylvester order > 8 are skipped and counted (only certified non-zero signs are judged there); the D21 hypothesis (root lower bound) did not manifest end-to-end in 8000 targeted cases",
  "technique": "Lean 4 proved exact-sign procedure (validator) + per-output validation of the C results",
 },
 "C09": {
  "text": "Model: the in-place mutation primitives of lp_algebraic_number_t (bisection step, refinement with a point incl. collapse to "
          "a point, replacement of the polynomial by a gcd, restoration of an earlier interval). Proved for every valid representation "
          "and every finite history of primitives applied under their guards: the denoted real and validity are preserved (C09_refine, "
          "C09_refineAt, C09_reducePoly, C09_restore, C09_step, C09_history by induction over the history). Tie: histories of 25-50 "
          "public calls (cmp, cmp_rational, sgn, floor, hash, to_double, add, mul, refine_const, get_value_between, copies and "
          "destructions, polynomial sgn / evaluate / roots_isolate / feasible sets under an assignment holding pool values); after every "
          "call the raw fields of every tracked object that changed are dumped and the driver checks, with the proved exact comparison, "
          "that the state is a sound representation (isolating interval, cached signs) of the same extended real as at creation "
          "(C09_transition_sound); observations made along the way are validated exactly (C07/C08 oracles), so repeated observations "
          "can only repeat the same answer. Copies taken at any time are tracked against the original's creation-time denotation.",
  "design_ref": "5.9",
  "note": "found and fixed: the interval cache restore of coefficient_sgn/evaluate overwrote rational algebraic model values (e.g. 4/3 as 3x-4) with the [0,0] placeholder",
  "technique": "Lean 4 invariant proof over the mutation primitives (induction over histories) + proved transition checker on observed C states",
 },
 "C08": {
  "text": "Every lp_value_* answer is judged through the denotation of the value as an extended real: integer / dyadic / rational / "
          "algebraic representations are mapped into the algebraic-number model whose exact comparison is proved correct, infinities to "
          "the ends of the line. C08_cmp proves that the judged comparison is the order of the denoted extended reals whatever the "
          "representations (hence total, antisymmetric, transitive, representation independent). On every run the harness compares "
          "lp_value_cmp over all representation pairs (incl. the same number in 2-4 representations), cmp_rational, sgn, "
          "add/sub/mul/div/neg/inv/pow (exact value by the C07 eliminant validator; infinite operands by the documented table), "
          "floor/ceiling/is_integer (exact), is_rational + get_rational/num/den (exact value, reduced form, positive denominator), "
          "get_value_between under every strictness pattern (bounds by exact comparison), hash_approx of equal numbers in different "
          "representations (must agree).",
  "design_ref": "5.8",
  "note": "found and fixed: (+inf)^n returned -inf. The mirror of the type lattice planned in DESIGN was replaced by per-output validation against the denotation",
  "technique": "Lean 4 proved exact comparison of denotations (validator) + per-output validation of the C results",
 },
 "C07": {
  "text": "Every result of lp_algebraic_number_add/sub/neg/mul/inv/div/pow/positive_root and every observation (cmp with numbers, "
          "integers, dyadics, rationals; sgn; floor; ceiling; is_integer; is_rational + to_rational; to_double) is judged on every run by "
          "the Lean model of real algebraic numbers. Observations: exact decision procedures proved correct for every valid "
          "representation (Alg.cmp_sound, cmpRat_sound, sgn_sound, floor_sound, valid_sound: the answer, when given, is the order / sign / "
          "floor of the denoted real). Arithmetic: the model builds the eliminant of x+y, x*y, x^n itself as a Sylvester determinant, "
          "encloses the exact value by closed interval arithmetic (image_encloses, proved) and refines until exactly one root of the "
          "eliminant is enclosed; C07_opEq_sound / C07_result_exact prove, with no assumption left, that an accepted result denotes exactly "
          "alpha+beta, alpha*beta, alpha^n (via resultant_vanishes: the model's Sylvester determinant vanishes at common zeros, "
          "eliminant_vanishes, selectLoop_spec, C07_select_sound). sub/div/neg/inv/root are reduced to these and the reductions are proved "
          "too: neg_sound, inv_sound (reversed polynomial, interval away from 0), C07_sub_exact, C07_div_exact, isRootN_sound "
          "(r >= 0, r^n inside x's isolating interval and f(r^n) = 0 => r^n = x). "
          "Results are also checked for the representation invariants (open isolating interval shorter than 1 without integers, cached "
          "end-point signs, exactly one root). Non-vacuity: kernel-evaluated examples (sqrt2*sqrt2 = 2, sqrt2+sqrt3, (sqrt2)^3) in C07Exact.",
  "design_ref": "5.7",
  "note": "eliminants with deg f + deg g > 7 are skipped and counted; approximations are required to be within 2^-30 (relative for doubles)",
  "technique": "Lean 4 proved exact comparison / selection (validator) + per-output validation of the C results",
 },
 "C06": {
  "text": "lp_upolynomial_roots_isolate / roots_count / sturm_sequence are judged on every run by a verified real-root counter written in "
          "Lean (interval Horner exclusion, sign-definite derivative => strict monotonicity, bisection; square-free part with a "
          "multiply-back certificate; Cauchy root bound). Proved for every polynomial over Q, every interval and strictness pattern, with "
          "no bound on degree: a count answered by the model is the length of a strictly increasing list enumerating exactly the real "
          "roots in the interval (C06_count, C06_count_all); an isolation output accepted by the checker (valid isolating representations, "
          "certified roots of the input, consecutive items strictly increasing by the proved exact comparison, as many items as distinct "
          "roots) enumerates every real root exactly once in increasing order (C06_isolate_accept). The model answers `none` when its fuel "
          "runs out (counted as skipped, 0 on the generated inputs). Sturm clause: V(a)-V(b) of the returned chain is compared with the "
          "proved count on a grid around the roots and at +-inf; Sturm's theorem itself is not formalised (partial).",
  "design_ref": "5.6",
  "note": "found and fixed: closed lower end counted a root when f(a) != 0; point intervals read the unconstructed upper end",
  "technique": "Lean 4 proved root counter / algebraic-number comparison (validator) + per-output validation of the C results",
 },
 "C04": {
  "text": "Every resultant, psc sequence and subresultant chain returned by the C library (lp_polynomial_resultant / _psc / _subres, in the "
          "argument order given, deg p <, =, > deg q, dense and defective chains, Z and Z_p coefficients in up to two further variables) is "
          "compared on every run with the determinantal definition evaluated by the Lean model: Sylvester matrix of order k over the proved "
          "reference ring (C01) and Laplace expansion. Proved in Lean for every matrix size: the model's Laplace expansion denotes "
          "Matrix.det of the denoted matrix over MvPolynomial N R (C04_det), on top of the C01 homomorphism theorems for +,-,*. "
          "Not formalised (stated as trusted): that this determinant is Mathlib's Polynomial.resultant (same matrix up to reindexing).",
  "design_ref": "5.4",
  "note": "Sylvester order capped at 7; found and fixed: psc/subres sign for deg A < deg B",
  "technique": "Lean 4 proved determinant reference (Laplace = Matrix.det over the proved polynomial ring) + differential correspondence on every output",
 },
 "C03": {
  "text": "Per-output validation of gcd / lcm / content / primitive part / extended gcd / Bezout by certificate checkers, under all three "
          "internal gcd strategies (LIBPOLY_VERIF hooks). Proved in Lean: an accepted gcd divides both operands (MvPolynomial Z); the "
          "dense-list arithmetic over Q is a ring homomorphism into Polynomial Q and an accepted Bezout certificate implies IsCoprime, "
          "so the univariate coprimality check is sound, and with coprime cofactors every common divisor divides the gcd "
          "(C03_greatest_of_coprime, C03_greatest_univariate). For several variables greatestness is decided by (a) the constructed common factor g0 having to "
          "divide the answer, (b) coprime integer contents of the cofactors, (c) a verified Bezout identity at a specialisation that "
          "keeps a leading coefficient, for every shared variable; the step from (b)+(c) to 'no common factor' is classical and not "
          "formalised. Over Z_p: monic gcd, verified Bezout identity of the cofactors (sound: the list arithmetic mod p is the arithmetic of "
          "(Z/p)[X] and an accepted certificate proves IsCoprime there, FPoly.coprimeCert_sound), u*p+v*q identities and degree bounds.",
  "design_ref": "5.3",
  "note": "validator style; 'inconclusive' certificate searches are accepted on the strength of the known common divisor only and counted in the evidence (model_branches_hit: */common-divisor-only)",
  "technique": "Lean 4 proved certificate soundness (divisibility, Bezout => coprime) + per-output validation under all gcd strategies",
 },
}
