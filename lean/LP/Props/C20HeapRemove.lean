/-
  C20 — `lp_polynomial_heap_remove` takes out EVERY copy of its argument (`C20_heap_remove_all`): the loop starts over after
  each removal and its fuel covers all the passes (`removeLoop_none_left`), so with `C20_heap_remove_perm` the number it
  reports is the multiplicity of the argument.
-/
import LP.Props.C20HeapOrder
import Mathlib.Tactic.Ring
import Mathlib.Tactic.Linarith

namespace LP
namespace Heap

/-- the loop of `lp_polynomial_heap_remove` leaves no copy of `x`: after every removal it starts over, and its fuel covers
    all the passes -/
theorem removeLoop_none_left (x : Int) : ∀ (fuel i : Nat) (a : Array Int) (cnt : Nat),
    i ≤ a.size → (a.size + 1) * (a.size + 1) ≤ fuel + i → (∀ k, k < i → a.getD k 0 ≠ x) →
    ∀ k, k < (removeLoop x fuel i a cnt).1.size → (removeLoop x fuel i a cnt).1.getD k 0 ≠ x := by
  intro fuel
  induction fuel with
  | zero =>
    intro i a cnt hi hf _
    exfalso
    have : (a.size + 1) * (a.size + 1) ≥ a.size + 1 := Nat.le_mul_of_pos_left _ (by omega)
    omega
  | succ f ih =>
    intro i a cnt hi hf hpre
    unfold removeLoop
    by_cases hge : i ≥ a.size
    · simp only [if_pos hge]
      intro k hk
      exact hpre k (by omega)
    · simp only [if_neg hge]
      by_cases hx : a.getD i 0 = x
      · simp only [if_pos hx]
        -- one element less: the loop starts over
        generalize ha2 : (if i < ((a.set! i a.back!).pop).size then
            siftDown (siftUp ((a.set! i a.back!).pop) (((a.set! i a.back!).pop).size + 1) (i + 1)) ((a.set! i a.back!).pop).size
              (((a.set! i a.back!).pop).size + 1) (i + 1) else (a.set! i a.back!).pop) = a2
        have hsz1 : ((a.set! i a.back!).pop).size = a.size - 1 := by simp
        have hsz2 : a2.size = a.size - 1 := by
          rw [← ha2]
          split
          · have p1 := siftUp_perm (((a.set! i a.back!).pop).size + 1) ((a.set! i a.back!).pop) (i + 1) (by omega)
            have p2 := siftDown_perm (((a.set! i a.back!).pop).size + 1)
              (siftUp ((a.set! i a.back!).pop) (((a.set! i a.back!).pop).size + 1) (i + 1))
              ((a.set! i a.back!).pop).size (i + 1) (by rw [perm_size p1]) (by omega)
            rw [perm_size p2, perm_size p1, hsz1]
          · exact hsz1
        refine ih 0 a2 (cnt + 1) (by omega) ?_ (fun k hk => by omega)
        rw [hsz2]
        have hs : 1 ≤ a.size := by omega
        obtain ⟨t, ht⟩ : ∃ t, a.size = t + 1 := ⟨a.size - 1, by omega⟩
        rw [ht] at hf ⊢
        have e : (t + 1 + 1) * (t + 1 + 1) = (t + 1 - 1 + 1) * (t + 1 - 1 + 1) + 2 * t + 3 := by
          have : t + 1 - 1 = t := by omega
          rw [this]; ring
        omega
      · simp only [if_neg hx]
        refine ih (i + 1) a cnt (by omega) (by omega) (fun k hk => ?_)
        rcases Nat.lt_or_ge k i with h | h
        · exact hpre k h
        · have : k = i := by omega
          rw [this]; exact hx

/-- **remove takes out every copy of its argument**: what is left is the array without `x`, and the number reported is the
    multiplicity of `x` -/
theorem C20_heap_remove_all (h : Heap) (x : Int) :
    (∀ k, k < (remove h x).1.data.size → (remove h x).1.data.getD k 0 ≠ x) ∧
    (remove h x).2 = h.data.toList.count x := by
  have hnone : ∀ k, k < (remove h x).1.data.size → (remove h x).1.data.getD k 0 ≠ x := by
    unfold remove
    exact removeLoop_none_left x _ 0 h.data 0 (Nat.zero_le _) (by omega) (fun k hk => by omega)
  refine ⟨hnone, ?_⟩
  have hperm := C20_heap_remove_perm h x
  have hc := hperm.count_eq x
  rw [List.count_append, List.count_replicate_self] at hc
  have h0 : (remove h x).1.data.toList.count x = 0 := by
    rw [List.count_eq_zero]
    intro hm
    obtain ⟨k, hk, hkx⟩ := List.getElem_of_mem hm
    have hk' : k < (remove h x).1.data.size := by simpa using hk
    apply hnone k hk'
    simp only [Array.getD, hk', dite_true]
    simpa using hkx
  omega

end Heap
end LP
