import LP.Props.C13Count
import LP.Props.C13Status
import LP.Props.C13IntersectNF
import LP.Props.C13PointInt
import LP.Props.C13Hull
import LP.Props.C13StatusIff
import LP.Props.C13CountSat
import LP.Props.C13PointIntIff
import LP.Props.C13Obs
import LP.Props.GenTables
import LP.Props.C13
import LP.Props.C13Union
import LP.Props.C13UnionNF
import LP.Props.C13Contains
import LP.Props.C13Int
#print axioms LP.cmpUpper_sem
#print axioms LP.cmpLower_sem
#print axioms LP.VI.C13_cmp
#print axioms LP.FSet.intersectLoop_sem
#print axioms LP.FSet.C13_intersect
#print axioms LP.FSet.C13_contains_interval
#print axioms LP.Gen.cwi_class
#print axioms LP.Gen.table_eq
#print axioms LP.Gen.intervalCmp_eq
#print axioms LP.Gen.icmp_enum_order
#print axioms LP.Gen.cmpLowerBounds_eq
#print axioms LP.Gen.cmpUpperBounds_eq
#print axioms LP.FSet.C13_union
#print axioms LP.FSet.C13_union_nf
#print axioms LP.FSet.gap_sep
#print axioms LP.FSet.C13_contains
#print axioms LP.FSet.C13_containsInt
#print axioms LP.FSet.C13_set_containsInt
#print axioms LP.FSet.nfs_nfw
#print axioms LP.FSet.C13_isEmpty
#print axioms LP.FSet.C13_isPoint
#print axioms LP.FSet.C13_isFull
#print axioms LP.FSet.C13_countInt
#print axioms LP.FSet.C13_set_countInt
#print axioms LP.FSet.C13_intersect_status
#print axioms LP.FSet.C13_intersect_nf
#print axioms LP.FSet.intersectLoop_all1
#print axioms LP.FSet.intersectLoop_all2
#print axioms LP.FSet.C13_intersect_nfs
#print axioms LP.FSet.cwi_bounds
#print axioms LP.FSet.C13_isPointInt_sound
#print axioms LP.FSet.C13_toInterval
#print axioms LP.FSet.helly1d
#print axioms LP.FSet.witness_low
#print axioms LP.FSet.witness_high
#print axioms LP.FSet.intersectLoop_not_all1
#print axioms LP.FSet.cwi_mirror
#print axioms LP.FSet.intersectLoop_flags_swap
#print axioms LP.FSet.intersectLoop_not_all2
#print axioms LP.FSet.C13_status_s1_iff
#print axioms LP.FSet.C13_status_s2_iff
#print axioms LP.FSet.C13_status_new_or_empty
#print axioms LP.FSet.finite_ints
#print axioms LP.FSet.C13_countInt_saturated
#print axioms LP.FSet.C13_set_countInt_saturated
#print axioms LP.FSet.C13_isPointInt_complete
#print axioms LP.FSet.C13_isPointInt_iff
