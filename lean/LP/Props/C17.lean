import LP.Model.Scalar
namespace LP
theorem C17_placeholder : True := trivial
end LP
