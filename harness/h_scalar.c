/* C17 harness: integer ring ops, dyadic rationals, rationals.
 * Every operation is run with its destination chosen among
 *   f = fresh object, p = object pre-used with unrelated content,
 *   a / b = the destination IS the first / second input (aliasing).
 */
#include "common.h"
#include <limits.h>
#include <poly.h>
#include <integer.h>
#include <rational.h>
#include <dyadic_rational.h>
#include "number/dyadic_rational.h"

/* ---------------- rings ---------------- */
static const char* moduli[] = {
  "2","3","4","5","6","7","8","9","10","11","12","13","15","16","17","25","27","30","32","36","49","64","97","101","997","1009",
  "1024","10007","65536","4294967296","2305843009213693951" /* 2^61-1 */, "18446744073709551616" /* 2^64 */,
  "18446744073709551629", "618970019642690137449562111" /* 2^89-1 */, "618970019642690137449562112",
  "340282366920938463463374607431768211507"
};
#define NMOD (sizeof moduli / sizeof moduli[0])

static lp_int_ring_t* rings[NMOD];
static int ring_prime[NMOD];

static void ring_token(int ri) {
  if (ri < 0) { sb_str("Z"); return; }
  sb_str(ring_prime[ri] ? "Zp" : "Zc"); sb_str(moduli[ri]);
}

/* generate an element in the ring (normalised) */
static void gen_in_ring(const lp_int_ring_t* K, int ri, mpz_t z) {
  mpz_t t; mpz_init(t);
  if (K && chance(35)) {
    /* boundary residues */
    switch (rnd(6)) {
    case 0: mpz_set(t, &K->lb); break;
    case 1: mpz_set(t, &K->ub); break;
    case 2: mpz_add_ui(t, &K->lb, 1); break;
    case 3: mpz_sub_ui(t, &K->ub, 1); break;
    case 4: mpz_set_ui(t, 0); break;
    default: mpz_set_si(t, chance(50) ? 1 : -1); break;
    }
  } else {
    gen_mpz(t);
  }
  (void)ri;
  lp_integer_assign(K, z, t);
  mpz_clear(t);
}

static const char* DEST = "fpab";

static void do_int_case(void) {
  int ri = chance(20) ? -1 : (int)rnd(NMOD);
  lp_int_ring_t* K = ri < 0 ? lp_Z : rings[ri];
  mpz_t a, b, s, fresh, pre, r;
  mpz_init(a); mpz_init(b); mpz_init(s); mpz_init(fresh); mpz_init(pre); mpz_init(r);
  gen_in_ring(K, ri, a); gen_in_ring(K, ri, b); gen_in_ring(K, ri, s);
  gen_mpz(pre);
  int dk = rnd(4);
  mpz_ptr out = dk == 0 ? fresh : dk == 1 ? pre : dk == 2 ? a : b;
  unsigned op = rnd(22);
  switch (op) {
  case 0: { /* construct from arbitrary integer */
    mpz_t c; mpz_init(c); gen_mpz(c);
    if (K && chance(40)) { /* near multiples of M and of M/2 */
      mpz_t m; mpz_init(m); mpz_mul_si(m, &K->M, rnd_in(-3, 3)); if (chance(50)) mpz_add(m, m, &K->ub); if (chance(30)) mpz_add(m, m, &K->lb);
      mpz_add_ui(m, m, 0); mpz_t d; mpz_init(d); mpz_set_si(d, rnd_in(-2, 2)); mpz_add(c, m, d); mpz_clear(d); mpz_clear(m);
    }
    sb_begin("int", "construct"); sb_sp(); ring_token(ri); sb_sp(); sb_mpz(c); sb_arrow();
    lp_integer_t x; lp_integer_construct_copy(K, &x, c);
    sb_sp(); sb_mpz(&x); sb_emit();
    lp_integer_destruct(&x); mpz_clear(c);
    break; }
  case 1: case 2: case 3: { /* add sub mul */
    const char* nm = op == 1 ? "add" : op == 2 ? "sub" : "mul";
    sb_begin("int", nm); sb_sp(); ring_token(ri); sb_sp(); sb_mpz(a); sb_sp(); sb_mpz(b); sb_arrow();
    if (op == 1) lp_integer_add(K, out, a, b); else if (op == 2) lp_integer_sub(K, out, a, b); else lp_integer_mul(K, out, a, b);
    sb_sp(); sb_mpz(out); sb_emit();
    break; }
  case 4: case 5: { /* neg abs */
    if (dk == 3) out = a;
    sb_begin("int", op == 4 ? "neg" : "abs"); sb_sp(); ring_token(ri); sb_sp(); sb_mpz(a); sb_arrow();
    if (op == 4) lp_integer_neg(K, out, a); else lp_integer_abs(K, out, a);
    sb_sp(); sb_mpz(out); sb_emit();
    break; }
  case 6: { /* mul_int */
    if (dk == 3) out = a;
    long m = rnd_in(-1000, 1000);
    sb_begin("int", "mulint"); sb_sp(); ring_token(ri); sb_sp(); sb_mpz(a); sb_sp(); sb_long(m); sb_arrow();
    lp_integer_mul_int(K, out, a, m);
    sb_sp(); sb_mpz(out); sb_emit();
    break; }
  case 7: { /* mul_pow2 */
    if (dk == 3) out = a;
    unsigned n = rnd(chance(80) ? 10 : 130);
    sb_begin("int", "mulpow2"); sb_sp(); ring_token(ri); sb_sp(); sb_mpz(a); sb_sp(); sb_ulong(n); sb_arrow();
    lp_integer_mul_pow2(K, out, a, n);
    sb_sp(); sb_mpz(out); sb_emit();
    break; }
  case 8: { /* pow */
    if (dk == 3) out = a;
    unsigned n = rnd(chance(80) ? 6 : 40);
    if (!K && mpz_sizeinbase(a, 2) > 64 && n > 8) n = 3;
    sb_begin("int", "pow"); sb_sp(); ring_token(ri); sb_sp(); sb_mpz(a); sb_sp(); sb_ulong(n); sb_arrow();
    lp_integer_pow(K, out, a, n);
    sb_sp(); sb_mpz(out); sb_emit();
    break; }
  case 9: case 10: { /* inc dec (in place) */
    sb_begin("int", op == 9 ? "inc" : "dec"); sb_sp(); ring_token(ri); sb_sp(); sb_mpz(a); sb_arrow();
    if (op == 9) lp_integer_inc(K, a); else lp_integer_dec(K, a);
    sb_sp(); sb_mpz(a); sb_emit();
    break; }
  case 11: case 12: { /* add_mul sub_mul: s += a*b ; s may alias a or b */
    mpz_ptr acc = dk == 2 ? a : dk == 3 ? b : s;
    sb_begin("int", op == 11 ? "addmul" : "submul"); sb_sp(); ring_token(ri); sb_sp(); sb_mpz(acc); sb_sp(); sb_mpz(a); sb_sp(); sb_mpz(b); sb_arrow();
    if (op == 11) lp_integer_add_mul(K, acc, a, b); else lp_integer_sub_mul(K, acc, a, b);
    sb_sp(); sb_mpz(acc); sb_emit();
    break; }
  case 13: { /* add_mul_int */
    int m = (int)rnd_in(-50, 50);
    if (chance(12)) { static const int edge[] = { INT_MIN, INT_MIN + 1, INT_MAX, INT_MAX - 1, -65536, 65536 }; m = edge[rnd(6)]; }
    mpz_ptr acc = dk == 2 ? a : s;
    sb_begin("int", "addmulint"); sb_sp(); ring_token(ri); sb_sp(); sb_mpz(acc); sb_sp(); sb_mpz(a); sb_sp(); sb_long(m); sb_arrow();
    lp_integer_add_mul_int(K, acc, a, m);
    sb_sp(); sb_mpz(acc); sb_emit();
    break; }
  case 14: { /* inv: need gcd(a, M) = 1 */
    if (!K) break;
    mpz_t g; mpz_init(g); mpz_gcd(g, a, &K->M);
    int okk = mpz_cmp_ui(g, 1) == 0; mpz_clear(g);
    if (!okk) break;
    if (dk == 3) out = a;
    sb_begin("int", "inv"); sb_sp(); ring_token(ri); sb_sp(); sb_mpz(a); sb_arrow();
    lp_integer_inv(K, out, a);
    sb_sp(); sb_mpz(out); sb_emit();
    break; }
  case 15: case 16: { /* div_exact: make a divisible */
    if (K) {
      /* a := b * s in the ring, so gcd(b,M) | a */
      if (mpz_sgn(b) == 0 && ring_prime[ri]) mpz_set_ui(b, 1);
      lp_integer_mul(K, a, b, s);
    } else {
      if (mpz_sgn(b) == 0) mpz_set_si(b, -3);
      mpz_mul(a, b, s);
    }
    sb_begin("int", "divexact"); sb_sp(); ring_token(ri); sb_sp(); sb_mpz(a); sb_sp(); sb_mpz(b); sb_arrow();
    lp_integer_div_exact(K, out, a, b);
    sb_sp(); sb_mpz(out); sb_emit();
    break; }
  case 17: case 18: { /* divides */
    if (chance(40)) { if (K) lp_integer_mul(K, b, a, s); else mpz_mul(b, a, s); }
    if (chance(10)) mpz_set_ui(a, 0);
    if (chance(10)) mpz_set_ui(b, 0);
    sb_begin("int", "divides"); sb_sp(); ring_token(ri); sb_sp(); sb_mpz(a); sb_sp(); sb_mpz(b); sb_arrow();
    int d = lp_integer_divides(K, a, b);
    sb_sp(); sb_long(d); sb_emit();
    break; }
  case 19: { /* sgn / iszero on arbitrary (not necessarily normalised) integer */
    mpz_t c; mpz_init(c); gen_mpz(c);
    if (K && chance(50)) { mpz_mul_si(c, &K->M, rnd_in(-2, 2)); mpz_add_ui(c, c, rnd(3)); }
    sb_begin("int", "sgn"); sb_sp(); ring_token(ri); sb_sp(); sb_mpz(c); sb_arrow();
    sb_sp(); sb_long(lp_integer_sgn(K, c)); sb_emit();
    sb_begin("int", "iszero"); sb_sp(); ring_token(ri); sb_sp(); sb_mpz(c); sb_arrow();
    sb_sp(); sb_long(lp_integer_is_zero(K, c)); sb_emit();
    mpz_clear(c);
    break; }
  case 20: case 21: { /* cmp */
    mpz_t c, d; mpz_init(c); mpz_init(d); gen_mpz(c); gen_mpz(d);
    if (chance(30)) mpz_set(d, c);
    if (K && chance(40)) { mpz_add(d, c, &K->M); }
    sb_begin("int", "cmp"); sb_sp(); ring_token(ri); sb_sp(); sb_mpz(c); sb_sp(); sb_mpz(d); sb_arrow();
    sb_sp(); sb_long(sgn_of(lp_integer_cmp(K, c, d))); sb_emit();
    mpz_clear(c); mpz_clear(d);
    break; }
  }
  mpz_clear(a); mpz_clear(b); mpz_clear(s); mpz_clear(fresh); mpz_clear(pre); mpz_clear(r);
}

/* ---------------- dyadic ---------------- */
static void sb_dy(const lp_dyadic_rational_t* d) { sb_mpz(&d->a); sb_str("@"); sb_ulong(d->n); }

static void gen_dy(lp_dyadic_rational_t* d) {
  /* d is constructed */
  mpz_t z; mpz_init(z);
  if (chance(60)) gen_mpz_small(z, 40); else gen_mpz(z);
  unsigned long n = chance(25) ? 0 : chance(80) ? rnd(8) : rnd(200);
  lp_dyadic_rational_t t; lp_dyadic_rational_construct_from_integer(&t, z);
  lp_dyadic_rational_div_2exp(d, &t, n);
  lp_dyadic_rational_destruct(&t);
  mpz_clear(z);
}

static void do_dy_case(void) {
  lp_dyadic_rational_t a, b, fresh, pre;
  lp_dyadic_rational_construct(&a); lp_dyadic_rational_construct(&b);
  lp_dyadic_rational_construct(&fresh); lp_dyadic_rational_construct(&pre);
  gen_dy(&a); gen_dy(&b);
  /* pre-used destination: always has a non-zero exponent and unrelated numerator */
  { lp_dyadic_rational_t t; lp_dyadic_rational_construct_from_int(&t, 2 * rnd_in(1, 500) + 1, 0);
    lp_dyadic_rational_div_2exp(&pre, &t, 1 + rnd(chance(80) ? 9 : 150)); lp_dyadic_rational_destruct(&t); }
  if (chance(15)) lp_dyadic_rational_assign(&b, &a);
  int dk = rnd(4);
  lp_dyadic_rational_t* out = dk == 0 ? &fresh : dk == 1 ? &pre : dk == 2 ? &a : &b;
  char dest[2] = { DEST[dk], 0 };
  unsigned op = rnd(24);
  switch (op) {
  case 0: case 1: case 2: {
    const char* nm = op == 0 ? "add" : op == 1 ? "sub" : "mul";
    sb_begin("dy", nm); sb_sp(); sb_str(dest); sb_sp(); sb_dy(&a); sb_sp(); sb_dy(&b); sb_arrow();
    if (op == 0) lp_dyadic_rational_add(out, &a, &b); else if (op == 1) lp_dyadic_rational_sub(out, &a, &b); else lp_dyadic_rational_mul(out, &a, &b);
    sb_sp(); sb_dy(out); sb_emit();
    break; }
  case 3: case 4: { /* neg */
    if (dk == 3) { out = &a; dest[0] = 'a'; }
    sb_begin("dy", "neg"); sb_sp(); sb_str(dest); sb_sp(); sb_dy(&a); sb_arrow();
    lp_dyadic_rational_neg(out, &a);
    sb_sp(); sb_dy(out); sb_emit();
    break; }
  case 5: case 6: case 7: case 8: { /* mul_2exp div_2exp */
    if (dk == 3) { out = &a; dest[0] = 'a'; }
    unsigned long k = chance(70) ? rnd(12) : rnd(220);
    int mul = op <= 6;
    sb_begin("dy", mul ? "mul2exp" : "div2exp"); sb_sp(); sb_str(dest); sb_sp(); sb_dy(&a); sb_sp(); sb_ulong(k); sb_arrow();
    if (mul) lp_dyadic_rational_mul_2exp(out, &a, k); else lp_dyadic_rational_div_2exp(out, &a, k);
    sb_sp(); sb_dy(out); sb_emit();
    break; }
  case 9: { /* pow */
    if (dk == 3) { out = &a; dest[0] = 'a'; }
    unsigned long k = rnd(7);
    if (mpz_sizeinbase(&a.a, 2) > 100) k = rnd(3);
    sb_begin("dy", "pow"); sb_sp(); sb_str(dest); sb_sp(); sb_dy(&a); sb_sp(); sb_ulong(k); sb_arrow();
    lp_dyadic_rational_pow(out, &a, k);
    sb_sp(); sb_dy(out); sb_emit();
    break; }
  case 10: { /* add_integer */
    if (dk == 3) { out = &a; dest[0] = 'a'; }
    mpz_t z; mpz_init(z); gen_mpz(z);
    sb_begin("dy", "addint"); sb_sp(); sb_str(dest); sb_sp(); sb_dy(&a); sb_sp(); sb_mpz(z); sb_arrow();
    lp_dyadic_rational_add_integer(out, &a, z);
    sb_sp(); sb_dy(out); sb_emit();
    mpz_clear(z);
    break; }
  case 11: case 12: { /* cmp, also nearly-equal operands */
    if (chance(30)) { lp_dyadic_rational_t e; lp_dyadic_rational_construct_from_int(&e, chance(50) ? 1 : -1, 0);
      lp_dyadic_rational_div_2exp(&e, &e, rnd(210)); lp_dyadic_rational_add(&b, &a, &e); lp_dyadic_rational_destruct(&e); }
    sb_begin("dy", "cmp"); sb_str(" -"); sb_sp(); sb_dy(&a); sb_sp(); sb_dy(&b); sb_arrow();
    sb_sp(); sb_long(sgn_of(lp_dyadic_rational_cmp(&a, &b))); sb_emit();
    break; }
  case 13: { /* cmp with rational / integer */
    mpq_t q; mpq_init(q); gen_mpq(q);
    if (chance(30)) { lp_rational_t t; lp_rational_construct_from_dyadic(&t, &a); mpq_set(q, &t); lp_rational_destruct(&t); }
    sb_begin("dy", "cmpq"); sb_str(" -"); sb_sp(); sb_dy(&a); sb_sp(); sb_mpq(q); sb_arrow();
    sb_sp(); sb_long(sgn_of(lp_dyadic_rational_cmp_rational(&a, q))); sb_emit();
    mpz_t z; mpz_init(z); gen_mpz_small(z, 50);
    if (chance(30)) lp_dyadic_rational_floor(&a, z);
    sb_begin("dy", "cmpint"); sb_str(" -"); sb_sp(); sb_dy(&a); sb_sp(); sb_mpz(z); sb_arrow();
    sb_sp(); sb_long(sgn_of(lp_dyadic_rational_cmp_integer(&a, z))); sb_emit();
    mpz_clear(z); mpq_clear(q);
    break; }
  case 14: { /* observers */
    mpz_t z; mpz_init(z); gen_mpz(z); /* pre-used integer outputs */
    sb_begin("dy", "sgn"); sb_str(" -"); sb_sp(); sb_dy(&a); sb_arrow(); sb_sp(); sb_long(lp_dyadic_rational_sgn(&a)); sb_emit();
    sb_begin("dy", "floor"); sb_str(" p"); sb_sp(); sb_dy(&a); sb_arrow(); lp_dyadic_rational_floor(&a, z); sb_sp(); sb_mpz(z); sb_emit();
    sb_begin("dy", "ceil"); sb_str(" p"); sb_sp(); sb_dy(&a); sb_arrow(); lp_dyadic_rational_ceiling(&a, z); sb_sp(); sb_mpz(z); sb_emit();
    sb_begin("dy", "num"); sb_str(" p"); sb_sp(); sb_dy(&a); sb_arrow(); lp_dyadic_rational_get_num(&a, z); sb_sp(); sb_mpz(z); sb_emit();
    sb_begin("dy", "den"); sb_str(" p"); sb_sp(); sb_dy(&a); sb_arrow(); lp_dyadic_rational_get_den(&a, z); sb_sp(); sb_mpz(z); sb_emit();
    sb_begin("dy", "isint"); sb_str(" -"); sb_sp(); sb_dy(&a); sb_arrow(); sb_sp(); sb_long(lp_dyadic_rational_is_integer(&a)); sb_emit();
    lp_rational_t q; lp_rational_construct_from_dyadic(&q, &a);
    sb_begin("dy", "torat"); sb_str(" f"); sb_sp(); sb_dy(&a); sb_arrow(); sb_sp(); sb_mpq(&q); sb_emit();
    lp_rational_destruct(&q); mpz_clear(z);
    break; }
  case 15: { /* construct from int */
    long v = rnd_in(-2000, 2000); unsigned long n = rnd(chance(80) ? 8 : 100);
    if (chance(20)) v = 0;
    if (chance(30)) v *= 64;
    sb_begin("dy", "ofint"); sb_str(" f"); sb_sp(); sb_long(v); sb_sp(); sb_ulong(n); sb_arrow();
    lp_dyadic_rational_t t; lp_dyadic_rational_construct_from_int(&t, v, n);
    sb_sp(); sb_dy(&t); sb_emit();
    /* and assign_int into a pre-used object */
    sb_begin("dy", "ofint"); sb_str(" p"); sb_sp(); sb_long(v); sb_sp(); sb_ulong(n); sb_arrow();
    lp_dyadic_rational_assign_int(&pre, v, n);
    sb_sp(); sb_dy(&pre); sb_emit();
    lp_dyadic_rational_destruct(&t);
    break; }
  case 16: { /* from double */
    union { double d; uint64_t u; } x;
    unsigned k = rnd(5);
    if (k == 0) x.d = (double)rnd_in(-1000, 1000) / (double)(1 << rnd(10));
    else if (k == 1) x.d = (double)rnd_in(-100000, 100000) * 1e-3;
    else if (k == 2) { x.u = rnd64(); }
    else if (k == 3) { x.u = rnd64() & 0x800fffffffffffffULL; /* subnormal */ }
    else x.d = 0.1 * (double)rnd_in(-50, 50);
    if (((x.u >> 52) & 0x7ff) == 0x7ff) x.d = 1.5;
    /* keep exponents moderate so that printing stays small */
    int ex = (int)((x.u >> 52) & 0x7ff);
    if (ex != 0 && (ex > 1023 + 200 || ex < 1023 - 200)) x.u = (x.u & 0x800fffffffffffffULL) | ((uint64_t)(1023 + rnd_in(-60, 60)) << 52);
    sb_begin("dy", "ofdouble"); sb_str(" f"); sb_sp(); sb_ulong(x.u); sb_arrow();
    lp_dyadic_rational_t t; lp_dyadic_rational_construct_from_double(&t, x.d);
    sb_sp(); sb_dy(&t); sb_emit();
    lp_dyadic_rational_destruct(&t);
    lp_rational_t q; lp_rational_construct_from_double(&q, x.d);
    sb_begin("rat", "ofdouble"); sb_str(" f"); sb_sp(); sb_ulong(x.u); sb_arrow();
    sb_sp(); sb_mpq(&q); sb_emit();
    lp_rational_destruct(&q);
    break; }
  case 17: case 18: { /* value between two rationals */
    mpq_t x, y; mpq_init(x); mpq_init(y); gen_mpq(x); gen_mpq(y);
    if (chance(40)) { /* close together */
      mpq_t e; mpq_init(e); mpq_set_ui(e, 1, 1); mpq_div_2exp(e, e, rnd(90)); if (chance(50)) { mpq_t t3; mpq_init(t3); mpq_set_ui(t3, 1, 3); mpq_mul(e, e, t3); mpq_clear(t3); }
      mpq_add(y, x, e); mpq_clear(e); }
    int c = mpq_cmp(x, y);
    if (c == 0) { mpq_clear(x); mpq_clear(y); break; }
    if (c > 0) mpq_swap(x, y);
    sb_begin("dy", "between"); sb_sp(); sb_str(dk == 1 ? "p" : "f"); sb_sp(); sb_mpq(x); sb_sp(); sb_mpq(y); sb_arrow();
    dyadic_rational_get_value_between(dk == 1 ? &pre : &fresh, x, y);
    sb_sp(); sb_dy(dk == 1 ? &pre : &fresh); sb_emit();
    mpq_clear(x); mpq_clear(y);
    break; }
  default: { /* root approx of a non-negative dyadic */
    if (mpz_sgn(&a.a) < 0) lp_dyadic_rational_neg(&a, &a);
    if (a.n > 60) break;
    unsigned long n = 1 + rnd(6), prec = rnd(chance(70) ? 12 : 70);
    int ce = rnd(2);
    lp_dyadic_rational_t* o = dk == 1 ? &pre : dk == 2 ? &a : &fresh;
    char d2[2] = { dk == 1 ? 'p' : dk == 2 ? 'a' : 'f', 0 };
    sb_begin("dy", "root"); sb_sp(); sb_str(d2); sb_sp(); sb_dy(&a); sb_sp(); sb_ulong(n); sb_sp(); sb_ulong(prec); sb_sp(); sb_long(ce); sb_arrow();
    int exact = dyadic_rational_root_approx(o, &a, n, prec, ce);
    sb_sp(); sb_dy(o); sb_sp(); sb_long(exact ? 1 : 0); sb_emit();
    break; }
  }
  lp_dyadic_rational_destruct(&a); lp_dyadic_rational_destruct(&b);
  lp_dyadic_rational_destruct(&fresh); lp_dyadic_rational_destruct(&pre);
}

/* ---------------- rationals ---------------- */
static void do_rat_case(void) {
  lp_rational_t a, b, fresh, pre;
  lp_rational_construct(&a); lp_rational_construct(&b); lp_rational_construct(&fresh); lp_rational_construct(&pre);
  gen_mpq(&a); gen_mpq(&b); gen_mpq(&pre);
  if (chance(15)) lp_rational_assign(&b, &a);
  int dk = rnd(4);
  lp_rational_t* out = dk == 0 ? &fresh : dk == 1 ? &pre : dk == 2 ? &a : &b;
  char dest[2] = { DEST[dk], 0 };
  unsigned op = rnd(16);
  switch (op) {
  case 0: case 1: case 2: case 3: {
    const char* nm = op == 0 ? "add" : op == 1 ? "sub" : op == 2 ? "mul" : "div";
    if (op == 3 && mpq_sgn(&b) == 0) break;
    sb_begin("rat", nm); sb_sp(); sb_str(dest); sb_sp(); sb_mpq(&a); sb_sp(); sb_mpq(&b); sb_arrow();
    if (op == 0) lp_rational_add(out, &a, &b); else if (op == 1) lp_rational_sub(out, &a, &b);
    else if (op == 2) lp_rational_mul(out, &a, &b); else lp_rational_div(out, &a, &b);
    sb_sp(); sb_mpq(out); sb_emit();
    break; }
  case 4: case 5: {
    if (dk == 3) { out = &a; dest[0] = 'a'; }
    if (op == 5 && mpq_sgn(&a) == 0) break;
    sb_begin("rat", op == 4 ? "neg" : "inv"); sb_sp(); sb_str(dest); sb_sp(); sb_mpq(&a); sb_arrow();
    if (op == 4) lp_rational_neg(out, &a); else lp_rational_inv(out, &a);
    sb_sp(); sb_mpq(out); sb_emit();
    break; }
  case 6: case 7: case 8: {
    if (dk == 3) { out = &a; dest[0] = 'a'; }
    unsigned n = op == 6 ? rnd(8) : rnd(chance(80) ? 10 : 150);
    if (op == 6 && mpz_sizeinbase(mpq_numref(&a), 2) + mpz_sizeinbase(mpq_denref(&a), 2) > 120) n = rnd(3);
    sb_begin("rat", op == 6 ? "pow" : op == 7 ? "mul2exp" : "div2exp"); sb_sp(); sb_str(dest); sb_sp(); sb_mpq(&a); sb_sp(); sb_ulong(n); sb_arrow();
    if (op == 6) lp_rational_pow(out, &a, n); else if (op == 7) lp_rational_mul_2exp(out, &a, n); else lp_rational_div_2exp(out, &a, n);
    sb_sp(); sb_mpq(out); sb_emit();
    break; }
  case 9: {
    if (dk == 3) { out = &a; dest[0] = 'a'; }
    mpz_t z; mpz_init(z); gen_mpz(z);
    sb_begin("rat", "addint"); sb_sp(); sb_str(dest); sb_sp(); sb_mpq(&a); sb_sp(); sb_mpz(z); sb_arrow();
    lp_rational_add_integer(out, &a, z);
    sb_sp(); sb_mpq(out); sb_emit();
    mpz_clear(z);
    break; }
  case 10: case 11: {
    if (chance(25)) { mpq_t e; mpq_init(e); mpq_set_ui(e, 1, 1 + rnd(1000)); mpq_div_2exp(e, e, rnd(100)); mpq_add(&b, &a, e); mpq_clear(e); }
    sb_begin("rat", "cmp"); sb_str(" -"); sb_sp(); sb_mpq(&a); sb_sp(); sb_mpq(&b); sb_arrow();
    sb_sp(); sb_long(sgn_of(lp_rational_cmp(&a, &b))); sb_emit();
    break; }
  case 12: case 13: {
    mpz_t z; mpz_init(z); gen_mpz(z);
    sb_begin("rat", "sgn"); sb_str(" -"); sb_sp(); sb_mpq(&a); sb_arrow(); sb_sp(); sb_long(lp_rational_sgn(&a)); sb_emit();
    sb_begin("rat", "floor"); sb_str(" p"); sb_sp(); sb_mpq(&a); sb_arrow(); lp_rational_floor(&a, z); sb_sp(); sb_mpz(z); sb_emit();
    sb_begin("rat", "ceil"); sb_str(" p"); sb_sp(); sb_mpq(&a); sb_arrow(); lp_rational_ceiling(&a, z); sb_sp(); sb_mpz(z); sb_emit();
    sb_begin("rat", "num"); sb_str(" p"); sb_sp(); sb_mpq(&a); sb_arrow(); lp_rational_get_num(&a, z); sb_sp(); sb_mpz(z); sb_emit();
    sb_begin("rat", "den"); sb_str(" p"); sb_sp(); sb_mpq(&a); sb_arrow(); lp_rational_get_den(&a, z); sb_sp(); sb_mpz(z); sb_emit();
    sb_begin("rat", "isint"); sb_str(" -"); sb_sp(); sb_mpq(&a); sb_arrow(); sb_sp(); sb_long(lp_rational_is_integer(&a)); sb_emit();
    mpz_clear(z);
    break; }
  case 14: { /* construct from num/den (any sign, not coprime) and from (long, ulong) */
    mpz_t n, d; mpz_init(n); mpz_init(d); gen_mpz(n); gen_mpz(d);
    if (chance(60)) { gen_mpz_small(n, 60); gen_mpz_small(d, 60); }
    if (mpz_sgn(d) == 0) mpz_set_si(d, -6);
    sb_begin("rat", "ofdiv"); sb_str(" f"); sb_sp(); sb_mpz(n); sb_sp(); sb_mpz(d); sb_arrow();
    lp_rational_t q; lp_rational_construct_from_div(&q, n, d);
    sb_sp(); sb_mpq(&q); sb_emit();
    lp_rational_destruct(&q);
    long x = rnd_in(-500, 500); unsigned long y = 1 + rnd(60);
    sb_begin("rat", "ofint"); sb_str(" p"); sb_sp(); sb_long(x); sb_sp(); sb_ulong(y); sb_arrow();
    lp_rational_assign_int(&pre, x, y);
    sb_sp(); sb_mpq(&pre); sb_emit();
    mpz_clear(n); mpz_clear(d);
    break; }
  default: { /* from dyadic */
    lp_dyadic_rational_t d; lp_dyadic_rational_construct(&d); gen_dy(&d);
    sb_begin("rat", "ofdy"); sb_str(" f"); sb_sp(); sb_dy(&d); sb_arrow();
    lp_rational_t q; lp_rational_construct_from_dyadic(&q, &d);
    sb_sp(); sb_mpq(&q); sb_emit();
    lp_rational_destruct(&q); lp_dyadic_rational_destruct(&d);
    break; }
  }
  lp_rational_destruct(&a); lp_rational_destruct(&b); lp_rational_destruct(&fresh); lp_rational_destruct(&pre);
}

int main(int argc, char** argv) {
  uint64_t seed = argc > 1 ? strtoull(argv[1], 0, 10) : 1;
  long n = argc > 2 ? atol(argv[2]) : 1000;
  long only = argc > 3 ? atol(argv[3]) : -1;
  long start = argc > 4 ? atol(argv[4]) : 0;
  lpv_init();
  for (unsigned i = 0; i < NMOD; ++i) {
    mpz_t M; mpz_init_set_str(M, moduli[i], 10);
    ring_prime[i] = mpz_probab_prime_p(M, 25) ? 1 : 0;
    rings[i] = lp_int_ring_create(M, ring_prime[i]);
    mpz_clear(M);
  }
  for (long i = 0; i < n; ++i) {
    if ((only >= 0 && i != only) || i < start) continue;
    lpv_begin_case(seed, i);
    unsigned f = rnd(10);
    if (f < 4) do_int_case(); else if (f < 8) do_dy_case(); else do_rat_case();
  }
  for (unsigned i = 0; i < NMOD; ++i) lp_int_ring_detach(rings[i]);
  free(sb_buf);
  return 0;
}
